/-
  Proofs/Mvp60LdLive.lean — package R60d (totality): what makes the out-of-order pipeline of MVP-6.0 move on
  straight-line programs with memory reads: the scoreboards hold no entry without an instruction in flight (`BackU`, the converse
  of `BackO.sbW/sbR`), what waits in a bus buffer is due at the next `Connect`, every pending line is being fetched by a unit
  (`LiveU`); the measure `psiE` of the back end never grows in a unit's cycle and decreases unless the unit is idle or stalled
  (`euCycle_liveO`, `eusCycle_liveO`, `eusBusy_liveO`, `wuCycle_liveO`).
-/
import MajoranaVerif.Proofs.Mvp60LdOk
open GoInt

set_option linter.unusedSimpArgs false
set_option linter.unusedVariables false

namespace Proofs.Mvp60Ld
open Model Model.Mvp60 Proofs.Mvp60Sl Proofs.Mmu
open Model.Seq (App Halt Arch stepArch)

/-- **the scoreboards hold no entry without an instruction in flight** -/
structure BackU (ctx : Model.Context) (X : List Runner) (H : List (Option Runner)) (W : List ExecCtx) : Prop where
  w : ∀ r, r ≠ Gen.Reg.Zero → GoMap.get1 ctx.PendingWriteRegisters r ≤
    ((cntX X r + hsum (fun x => x.instr.writeRegisters.count r) H + cntW W r : Nat) : Int)
  r : ∀ r, r ≠ Gen.Reg.Zero → GoMap.get1 ctx.PendingReadRegisters r ≤
    ((cntXr X r + hsum (fun x => x.instr.readRegisters.count r) H + cntWr W r : Nat) : Int)

section
variable {ctx : Model.Context} {X : List Runner} {H : List (Option Runner)} {W : List ExecCtx}

theorem BackU.issue (hb : BackU ctx X H W) (r : Runner) : BackU (addPendingRegisters ctx r.instr) (X ++ [r]) H W := by
  refine ⟨?_, ?_⟩
  · intro reg hne
    have := hb.w reg hne
    simp only [addPendingRegisters, get1_incRegs, hne, if_false, cntX_append]
    omega
  · intro reg hne
    have := hb.r reg hne
    simp only [addPendingRegisters, get1_incRegs, hne, if_false, cntXr_append]
    omega

theorem BackU.take {x : Runner} {X' : List Runner} (hb : BackU ctx (x :: X') H W) (i : Nat) (hi : H[i]? = some none) :
    BackU ctx X' (H.set i (some x)) W := by
  refine ⟨?_, ?_⟩
  · intro r hr
    have := hb.w r hr
    have hs := hsum_set (fun y => y.instr.writeRegisters.count r) H i none (some x) hi
    simp only [cntX, List.map_cons, List.sum_cons] at this hs ⊢
    omega
  · intro r hr
    have := hb.r r hr
    have hs := hsum_set (fun y => y.instr.readRegisters.count r) H i none (some x) hi
    simp only [cntXr, List.map_cons, List.sum_cons] at this hs ⊢
    omega

theorem BackU.exec (hb : BackU ctx X H W) (i : Nat) (x : Runner) (hi : H[i]? = some (some x)) (ec : ExecCtx)
    (hw : ec.writeRegisters = x.instr.writeRegisters) (hr : ec.readRegisters = x.instr.readRegisters) :
    BackU ctx X (H.set i none) (W ++ [ec]) := by
  refine ⟨?_, ?_⟩
  · intro r hr0
    have := hb.w r hr0
    have hs := hsum_set (fun y => y.instr.writeRegisters.count r) H i (some x) none hi
    simp only [cntW, List.map_append, List.sum_append, List.map_cons, List.map_nil, List.sum_cons, List.sum_nil, hw] at this hs ⊢
    omega
  · intro r hr0
    have := hb.r r hr0
    have hs := hsum_set (fun y => y.instr.readRegisters.count r) H i (some x) none hi
    simp only [cntWr, List.map_append, List.sum_append, List.map_cons, List.map_nil, List.sum_cons, List.sum_nil, hr] at this hs ⊢
    omega

theorem BackU.retire (hb : BackU ctx X H W) (i : Nat) (x : Runner) (hi : H[i]? = some (some x))
    (hw : x.instr.writeRegisters = []) (hr : x.instr.readRegisters = []) : BackU ctx X (H.set i none) W := by
  refine ⟨?_, ?_⟩
  · intro r hr0
    have := hb.w r hr0
    have hs := hsum_set (fun y => y.instr.writeRegisters.count r) H i (some x) none hi
    simp only [hw, List.count_nil] at hs
    omega
  · intro r hr0
    have := hb.r r hr0
    have hs := hsum_set (fun y => y.instr.readRegisters.count r) H i (some x) none hi
    simp only [hr, List.count_nil] at hs
    omega

theorem BackU.writeback {ec : ExecCtx} (hb : BackU ctx X H (ec :: W)) :
    BackU (deletePendingRegisters (if ec.execution.RegisterChange then Model.Seq.writeRegister ctx ec.execution else ctx)
      ec.readRegisters ec.writeRegisters) X H W := by
  have hpw : (deletePendingRegisters (if ec.execution.RegisterChange then Model.Seq.writeRegister ctx ec.execution else ctx)
      ec.readRegisters ec.writeRegisters).PendingWriteRegisters = decRegs ctx.PendingWriteRegisters ec.writeRegisters := by
    cases hrc : ec.execution.RegisterChange <;> simp only [deletePendingRegisters, hrc, if_true, Bool.false_eq_true, if_false, Model.Seq.writeRegister]
  have hpr : (deletePendingRegisters (if ec.execution.RegisterChange then Model.Seq.writeRegister ctx ec.execution else ctx)
      ec.readRegisters ec.writeRegisters).PendingReadRegisters = decRegs ctx.PendingReadRegisters ec.readRegisters := by
    cases hrc : ec.execution.RegisterChange <;> simp only [deletePendingRegisters, hrc, if_true, Bool.false_eq_true, if_false, Model.Seq.writeRegister]
  refine ⟨?_, ?_⟩
  · intro r hr0
    have h1 := hb.w r hr0
    have h2 := get1_decRegs_le ec.writeRegisters ctx.PendingWriteRegisters r hr0
    rw [hpw]
    simp only [cntW, List.map_cons, List.sum_cons] at h1 ⊢
    omega
  · intro r hr0
    have h1 := hb.r r hr0
    have h2 := get1_decRegs_le ec.readRegisters ctx.PendingReadRegisters r hr0
    rw [hpr]
    simp only [cntWr, List.map_cons, List.sum_cons] at h1 ⊢
    omega

theorem BackU.congr_ctx (hb : BackU ctx X H W) (ctx' : Model.Context)
    (h2 : ctx'.PendingWriteRegisters = ctx.PendingWriteRegisters) (h3 : ctx'.PendingReadRegisters = ctx.PendingReadRegisters) :
    BackU ctx' X H W :=
  ⟨by rw [h2]; exact hb.w, by rw [h3]; exact hb.r⟩

theorem hsum_all_none (f : Runner → Nat) : ∀ (H : List (Option Runner)), (∀ o ∈ H, o = none) → hsum f H = 0 := by
  intro H
  induction H with
  | nil => intro _; rfl
  | cons a as ih =>
    intro hH
    have ha := hH a List.mem_cons_self
    subst ha
    have := ih (fun o ho => hH o (List.mem_cons_of_mem _ ho))
    simp only [hsum, List.map_cons, List.sum_cons] at this ⊢
    omega

/-- nothing in flight: no hazard -/
theorem BackU.no_hazard (hb : BackU ctx [] H []) (hH : ∀ o ∈ H, o = none) (i : Gen.Instr) : isDataHazard3 ctx i = false := by
  have hw : ∀ r, r ≠ Gen.Reg.Zero → pendingPos ctx.PendingWriteRegisters r = false := fun r hne =>
    pendingPos_of_le _ _ (by have := hb.w r hne; rw [hsum_all_none _ H hH] at this; simpa [cntW, cntX] using this)
  have hr : ∀ r, r ≠ Gen.Reg.Zero → pendingPos ctx.PendingReadRegisters r = false := fun r hne =>
    pendingPos_of_le _ _ (by have := hb.r r hne; rw [hsum_all_none _ H hH] at this; simpa [cntWr, cntXr] using this)
  simp only [isDataHazard3, Bool.or_eq_false_iff, List.any_eq_false, Bool.and_eq_true, bne_iff_ne, ne_eq, not_and,
    Bool.not_eq_true]
  exact ⟨fun r _ hne => hw r hne, fun r _ hne => ⟨hw r hne, hr r hne⟩⟩

end

/-! ### the measure of the back end, and what the units keep -/

/-- what an execute unit still has to do: a held runner that has not been looked up weighs more than any wait -/
def uw (eu : ExecUnit) : Nat :=
  match eu.co with
  | .none => 0
  | .prepare => 400
  | .l3wait rem => 3 + rem.toNat
  | .memwait rem _ => 3 + rem.toNat

def psiU (eus : List ExecUnit) : Nat := (eus.map uw).sum

theorem psiU_set : ∀ (eus : List ExecUnit) (i : Nat) (eu eu' : ExecUnit), eus[i]? = some eu →
    psiU (eus.set i eu') + uw eu = psiU eus + uw eu' := by
  intro eus
  induction eus with
  | nil => intro i eu eu' h; cases h
  | cons a as ih =>
    intro i eu eu' h
    cases i with
    | zero =>
      simp only [List.getElem?_cons_zero, Option.some.injEq] at h
      subst h
      simp only [psiU, List.set_cons_zero, List.map_cons, List.sum_cons]
      omega
    | succ i =>
      simp only [List.getElem?_cons_succ] at h
      have := ih i eu eu' h
      simp only [psiU, List.set_cons_succ, List.map_cons, List.sum_cons] at this ⊢
      omega

/-- the measure of the back end: runners on the execute bus, the units, results on the write bus -/
def psiE (s : State) : Nat := 403 * s.executeBus.inside.length + psiU s.eus + s.writeBus.inside.length

/-- every pending line is being fetched by a unit -/
def PendMw (s : State) : Prop := ∀ p ∈ s.pendings, ∃ (k : Nat) (eu : ExecUnit), s.eus[k]? = some eu ∧ mwBase eu = some p.1

/-- the facts about the back end that make it move -/
structure LiveU (s : State) : Prop where
  xdue : Due s.executeBus (s.cycles + 1)
  wdue : Due s.writeBus (s.cycles + 1)
  backU : BackU s.ctx s.executeBus.inside (s.eus.map heldAt) s.writeBus.inside
  pmw : PendMw s

/-- what a cycle of an execute unit leaves alone -/
structure EuKeepO (s s' : State) : Prop where
  fu : s'.fu = s.fu
  du : s'.du = s.du
  decodeBus : s'.decodeBus = s.decodeBus
  controlBus : s'.controlBus = s.controlBus
  cuPendings : s'.cuPendings = s.cuPendings
  cycles : s'.cycles = s.cycles
  wus : s'.wus = s.wus
  xql : s'.executeBus.queueLength = s.executeBus.queueLength
  xbl : s'.executeBus.bufferLength = s.executeBus.bufferLength
  wql : s'.writeBus.queueLength = s.writeBus.queueLength
  wbl : s'.writeBus.bufferLength = s.writeBus.bufferLength
  xbuf : s'.executeBus.buffer = s.executeBus.buffer
  wq : s'.writeBus.queue = s.writeBus.queue

theorem EuKeepO.refl (s : State) : EuKeepO s s := ⟨rfl, rfl, rfl, rfl, rfl, rfl, rfl, rfl, rfl, rfl, rfl, rfl, rfl⟩

theorem EuKeepO.trans {a b c : State} (h1 : EuKeepO a b) (h2 : EuKeepO b c) : EuKeepO a c :=
  ⟨h2.fu.trans h1.fu, h2.du.trans h1.du, h2.decodeBus.trans h1.decodeBus, h2.controlBus.trans h1.controlBus,
   h2.cuPendings.trans h1.cuPendings, h2.cycles.trans h1.cycles, h2.wus.trans h1.wus, h2.xql.trans h1.xql, h2.xbl.trans h1.xbl,
   h2.wql.trans h1.wql, h2.wbl.trans h1.wbl, h2.xbuf.trans h1.xbuf, h2.wq.trans h1.wq⟩

/-- why a unit made no progress: it is idle and nothing is readable on the execute bus, or it holds a runner it cannot prepare
(no room on the write bus, or a line is being fetched) -/
def StallR (s s' : State) (i : Nat) : Prop :=
  s'.executeBus = s.executeBus ∧ s'.eus = s.eus ∧ s'.writeBus = s.writeBus ∧ s'.pendings = s.pendings ∧ s'.ctx = s.ctx ∧
  ∃ eu, s.eus[i]? = some eu ∧
    ((eu.co = .none ∧ s.executeBus.queue = []) ∨ (eu.co = .prepare ∧ (s.writeBus.canAdd = false ∨ s.pendings ≠ [])))

theorem LiveU.of_eq {s s' : State} (hl : LiveU s) (h1 : s'.executeBus = s.executeBus) (h2 : s'.writeBus = s.writeBus)
    (h3 : s'.cycles = s.cycles) (h4 : s'.ctx = s.ctx) (h5 : s'.eus = s.eus) (h6 : s'.pendings = s.pendings) : LiveU s' :=
  ⟨by rw [h1, h3]; exact hl.xdue, by rw [h2, h3]; exact hl.wdue, by rw [h1, h2, h4, h5]; exact hl.backU,
   fun p hp => by rw [h6] at hp; rw [h5]; exact hl.pmw p hp⟩

/-- the unit's slot changes, the runner it holds and the line it fetches do not -/
theorem LiveU.setUnit {s s' : State} {i : Nat} {eu eu' : ExecUnit} (hl : LiveU s) (hget : s.eus[i]? = some eu)
    (he : s'.eus = s.eus.set i eu') (hx : s'.executeBus = s.executeBus) (hw : s'.writeBus = s.writeBus)
    (hc : s'.cycles = s.cycles) (hpw : s'.ctx.PendingWriteRegisters = s.ctx.PendingWriteRegisters)
    (hpr : s'.ctx.PendingReadRegisters = s.ctx.PendingReadRegisters) (hp : s'.pendings = s.pendings)
    (hh : heldAt eu' = heldAt eu) (hm : mwBase eu' = mwBase eu) : LiveU s' := by
  have hH : s'.eus.map heldAt = s.eus.map heldAt := by
    rw [he, map_heldAt_set, hh]
    exact set_self _ _ _ (by rw [List.getElem?_map, hget]; rfl)
  refine ⟨by rw [hx, hc]; exact hl.xdue, by rw [hw, hc]; exact hl.wdue, ?_, ?_⟩
  · rw [hx, hw, hH]; exact hl.backU.congr_ctx _ hpw hpr
  · unfold PendMw
    intro p hp'
    rw [hp] at hp'
    obtain ⟨k, euk, hk, hb⟩ := hl.pmw p hp'
    by_cases hki : k = i
    · subst hki
      rw [hget] at hk; simp only [Option.some.injEq] at hk; subst hk
      have hil : k < s.eus.length := by
        rcases Nat.lt_or_ge k s.eus.length with h' | h'
        · exact h'
        · rw [List.getElem?_eq_none h'] at hget; cases hget
      exact ⟨k, eu', by rw [he]; exact List.getElem?_set_self hil, by rw [hm]; exact hb⟩
    · exact ⟨k, euk, by rw [he, List.getElem?_set_ne (Ne.symm hki)]; exact hk, hb⟩

theorem mem_set_none_of_ne {H : List (Option Runner)} {i k : Nat} {o : Option Runner} (hk : H[k]? = some o) (hne : k ≠ i) :
    (H.set i none)[k]? = some o := by rw [List.getElem?_set_ne (Ne.symm hne)]; exact hk

/-- **a unit executes the runner it holds**: the back end stays live, and its measure decreases -/
theorem coRun_liveO (app : App) (a0 : Arch) (hp : ProgLd app a0) (c : Word) (sC s' : State) (nt i : Nat) (eu0 eu : ExecUnit)
    (x : Runner) (out : EuOut) (h : RelOx app a0 c { sC with eus := sC.eus.set i eu0 } nt (some i)) (hi : i < sC.eus.length)
    (hheld : heldAt eu0 = some x)
    (hmem : ∀ j aj, ROk app c x j → seqL app j a0 = some aj → isMemType x.instr.instructionType = true →
      (x.instr.memoryRead aj.ctx 0#32).mapM (Model.Seq.readMem a0.ctx.Memory) = some eu.memory)
    (hl : LiveU { sC with eus := sC.eus.set i eu0 })
    (hmw : ∀ b, mwBase eu0 = some b → ∀ p ∈ sC.pendings, p.1 ≠ b) (hw0 : 3 ≤ uw eu0)
    (hr : coRun app sC i eu x = .ok (s', out)) :
    LiveU s' ∧ EuKeepO sC s' ∧ psiE s' < psiE { sC with eus := sC.eus.set i eu0 } := by
  have hsm := hp.small
  have hslot : ((sC.eus.set i eu0).map heldAt)[i]? = some (some x) := held_slot' hi hheld
  obtain ⟨j, hj, hok⟩ := h.back.hidx x (List.mem_of_getElem? hslot)
  obtain ⟨St, hst⟩ := h.back.st
  obtain ⟨aj, haj⟩ := seqIter_prefix app a0 nt St hst j (by omega)
  obtain ⟨aj1, haj1⟩ := seqIter_prefix app a0 nt St hst (j + 1) (by omega)
  have hnrj : NoRetBefore app j := h.reti.1.mono (by omega)
  obtain ⟨f1, f2, f3, f4, f5⟩ := seq_facts app a0 hp j aj haj (hnrj.mono (by omega))
  obtain ⟨i', bytes, e, hi', hby, he, _⟩ := seq_succ app a0 hp j aj aj1 haj f1 f2 hnrj haj1
  have hii : i' = x.instr := by rw [hok.1.2] at hi'; simp only [Option.some.injEq] at hi'; exact hi'.symm
  subst hii
  have hsame : Proofs.Mvp4.SameRegs sC.ctx aj.ctx x.instr.readRegisters :=
    ⟨h.back.ratS, f4, h.back.txS, f5, fun r hr hr0 => h.back.opsB x j aj (List.mem_of_getElem? hslot) hok haj r hr hr0⟩
  have hrun : x.instr.run sC.ctx app.labels x.pc eu.memory 0#32 = x.instr.run aj.ctx app.labels aj.pc bytes 0#32 := by
    rw [Proofs.Mvp4.run_congr x.instr (hp.nofwd _ (List.mem_of_getElem? hok.1.2)) hsame, f1, hok.1.1]
    cases hm : isMemType x.instr.instructionType with
    | true =>
      have := hmem j aj hok haj hm
      rw [f3] at hby
      rw [hby] at this
      simp only [Option.some.injEq] at this
      rw [this]
    | false => rw [run_nomem x.instr hm _ _ _ eu.memory, run_nomem x.instr hm _ _ _ bytes]
  have hget0 : (sC.eus.set i eu0)[i]? = some eu0 := List.getElem?_set_self hi
  have hpsi := psiU_set (sC.eus.set i eu0) i eu0 { eu with co := .none } hget0
  rw [List.set_set] at hpsi
  have huw : uw ({ eu with co := .none } : ExecUnit) = 0 := rfl
  -- the units of the new state
  have hpmw : ∀ (pend : List (Int × Int)), pend = sC.pendings →
      ∀ p ∈ pend, ∃ (k : Nat) (euk : ExecUnit), (sC.eus.set i { eu with co := .none })[k]? = some euk ∧ mwBase euk = some p.1 := by
    intro pend hpe p hp'
    subst hpe
    obtain ⟨k, euk, hk, hb⟩ := hl.pmw p hp'
    have hk' : (sC.eus.set i eu0)[k]? = some euk := hk
    by_cases hki : k = i
    · subst hki
      rw [hget0] at hk'; simp only [Option.some.injEq] at hk'; subst hk'
      exact absurd rfl (hmw _ hb p hp')
    · exact ⟨k, euk, by rw [List.getElem?_set_ne (Ne.symm hki)] at hk' ⊢; exact hk', hb⟩
  have hHn : (sC.eus.set i { eu with co := .none }).map heldAt = ((sC.eus.set i eu0).map heldAt).set i none := by
    rw [map_heldAt_set, map_heldAt_set, List.set_set]; rfl
  rcases ldr_cases app hp.cls j x.instr hok.1.2 with hld | hisret
  · obtain ⟨hmc, hret, hpcc⟩ := ld_run x.instr hld aj.ctx app.labels aj.pc bytes 0#32 e he
    have hub : x.instr.instructionType.IsUnconditionalBranch = false := notJ_of_ld app hp.cls x.instr (List.mem_of_getElem? hok.1.2)
    unfold coRun at hr
    simp only [setEu, hrun, he, hret, hmc, hpcc, hub, Bool.false_eq_true, if_false, bind, Except.bind, pure, Except.pure,
      Except.ok.injEq, Prod.mk.injEq] at hr
    obtain ⟨rfl, rfl⟩ := hr
    refine ⟨⟨hl.xdue, ?_, ?_, hpmw _ rfl⟩, ⟨rfl, rfl, rfl, rfl, rfl, rfl, rfl, rfl, rfl, rfl, rfl, rfl, rfl⟩, ?_⟩
    · exact hl.wdue.add _
    · show BackU sC.ctx sC.executeBus.inside ((sC.eus.set i { eu with co := .none }).map heldAt) (sC.writeBus.add _ sC.cycles).inside
      rw [hHn, inside_add]
      exact hl.backU.exec i x hslot _ rfl rfl
    · simp only [psiE, inside_add, List.length_append, List.length_cons, List.length_nil]
      omega
  · obtain ⟨hrx, hwx, _, _, _, hrunr⟩ := ret_facts x.instr hisret
    obtain ⟨e', he', hret', _, _⟩ := hrunr aj.ctx app.labels aj.pc bytes 0#32
    rw [he] at he'; simp only [Except.ok.injEq] at he'; subst he'
    unfold coRun at hr
    simp only [setEu, hrun, he, hret', if_true, pure, Except.pure, Except.ok.injEq, Prod.mk.injEq] at hr
    obtain ⟨rfl, rfl⟩ := hr
    refine ⟨⟨hl.xdue, hl.wdue, ?_, hpmw _ rfl⟩, ⟨rfl, rfl, rfl, rfl, rfl, rfl, rfl, rfl, rfl, rfl, rfl, rfl, rfl⟩, ?_⟩
    · show BackU sC.ctx sC.executeBus.inside ((sC.eus.set i { eu with co := .none }).map heldAt) sC.writeBus.inside
      rw [hHn]
      exact hl.backU.retire i x hslot hwx hrx
    · simp only [psiE]
      omega

/-- a lookup that answers "the line is being fetched" has found a pending entry -/
theorem l3_pending_ne {u : Model.Mmu.Mmu} {pend : List (Int × Int)} {mem flat : List Byte} (h : L3Ok u pend mem flat) (a0 : Word) (as : List Word)
    (hok : Model.Mmu.loadOk 64 flat.length (a0 :: as) = true) (u' : Model.Mmu.Mmu) (pend' : List (Int × Int))
    (hr : getFromL3 u pend (a0 :: as) = .ok (.pending, u', pend')) : pend ≠ [] := by
  obtain ⟨h0, h1, _, hend⟩ := loadOk_spec hok a0 List.mem_cons_self
  rcases resident_or_not (L := 64) (n := 16) (by decide) h.wf a0.toInt h0 with hres | hmiss
  · obtain ⟨bytes, u2, e1, _⟩ := getFromL3_hit pend h.wf h.coh a0 as hok hres
    rw [e1] at hr; cases hr
  · rw [getFromL3_miss pend a0 as h0 hend hmiss] at hr
    split at hr
    · rename_i hany
      intro hc; rw [hc] at hany; simp at hany
    · cases hr

/-- **a unit prepares the runner it holds**: the back end stays live; its measure decreases unless the unit has to wait for
room on the write bus or for a line that is being fetched -/
theorem coPrepare_liveO (app : App) (a0 : Arch) (hp : ProgLd app a0) (c : Word) (s s' : State) (nt i : Nat) (eu : ExecUnit)
    (x : Runner) (out : EuOut) (h : RelOx app a0 c { s with eus := s.eus.set i eu } nt (some i)) (hi : i < s.eus.length)
    (hco : eu.co = .prepare) (hrun : eu.runner = some x) (hl : LiveU { s with eus := s.eus.set i eu })
    (hr : coPrepareRun app s i eu x = .ok (s', out)) :
    LiveU s' ∧ EuKeepO s s' ∧
    (psiE s' < psiE { s with eus := s.eus.set i eu } ∨
      (s'.executeBus = s.executeBus ∧ s'.eus = s.eus.set i eu ∧ s'.writeBus = s.writeBus ∧ s'.pendings = s.pendings ∧
        s'.ctx = s.ctx ∧ (s.writeBus.canAdd = false ∨ s.pendings ≠ []) ∧ out = .none)) := by
  have hsm := hp.small
  have hheld : heldAt eu = some x := by simp only [heldAt, hco, hrun]
  have hslot : ((s.eus.set i eu).map heldAt)[i]? = some (some x) := held_slot' hi hheld
  obtain ⟨j, hj, hok⟩ := h.back.hidx x (List.mem_of_getElem? hslot)
  obtain ⟨St, hst⟩ := h.back.st
  obtain ⟨aj, haj⟩ := seqIter_prefix app a0 nt St hst j (by omega)
  have hnrj : NoRetBefore app j := h.reti.1.mono (by omega)
  obtain ⟨f1, f2, f3, f4, f5⟩ := seq_facts app a0 hp j aj haj (hnrj.mono (by omega))
  have hxm : x.instr ∈ app.instrs := List.mem_of_getElem? hok.1.2
  have hub := notJ_of_ld app hp.cls x.instr hxm
  have hcb := notCond_of_ld app hp.cls x.instr hxm
  have hsame : Proofs.Mvp4.SameRegs s.ctx aj.ctx x.instr.readRegisters :=
    ⟨h.back.ratS, f4, h.back.txS, f5, fun r hr hr0 => h.back.opsB x j aj (List.mem_of_getElem? hslot) hok haj r hr hr0⟩
  have hget0 : (s.eus.set i eu)[i]? = some eu := List.getElem?_set_self hi
  have hmw0 : mwBase eu = none := by simp only [mwBase, hco]
  have huw : uw eu = 400 := by simp only [uw, hco]
  have keep : ∀ (bu : BranchUnit) (u : Model.Mmu.Mmu) (pd : List (Int × Int)) (eu' : ExecUnit),
      EuKeepO s { s with bu := bu, mmu := u, pendings := pd, eus := s.eus.set i eu' } :=
    fun _ _ _ _ => ⟨rfl, rfl, rfl, rfl, rfl, rfl, rfl, rfl, rfl, rfl, rfl, rfl, rfl⟩
  unfold coPrepareRun at hr
  split at hr
  · rename_i hcan
    simp only [setEu, pure, Except.pure, Except.ok.injEq, Prod.mk.injEq] at hr
    obtain ⟨rfl, rfl⟩ := hr
    refine ⟨hl, ⟨rfl, rfl, rfl, rfl, rfl, rfl, rfl, rfl, rfl, rfl, rfl, rfl, rfl⟩, Or.inr ⟨rfl, rfl, rfl, rfl, rfl, Or.inl ?_, rfl⟩⟩
    simpa using hcan
  · simp only [buAssert, hub, hcb, Bool.false_eq_true, if_false] at hr
    cases hm : isMemType x.instr.instructionType with
    | false =>
      simp only [memoryRead_nomem x.instr hm, List.isEmpty_nil, Bool.not_true, Bool.false_eq_true, if_false] at hr
      obtain ⟨e1, e2, e3⟩ := coRun_liveO app a0 hp c { s with bu := { s.bu with toCheck := false }, fu := s.fu } s' nt i eu eu x out
        (h.bu { s.bu with toCheck := false } s.fu rfl) hi hheld (fun _ _ _ _ hc => by rw [hm] at hc; cases hc)
        (hl.of_eq rfl rfl rfl rfl rfl rfl) (fun b hb => by rw [hmw0] at hb; cases hb) (by omega) hr
      exact ⟨e1, ⟨e2.fu, e2.du, e2.decodeBus, e2.controlBus, e2.cuPendings, e2.cycles, e2.wus, e2.xql, e2.xbl, e2.wql, e2.wbl,
        e2.xbuf, e2.wq⟩, Or.inl e3⟩
    | true =>
      have hld : ldInstr x.instr = true := by
        rcases ldr_cases app hp.cls j x.instr hok.1.2 with h1 | h1
        · exact h1
        · have := (ret_facts x.instr h1).2.2.1; rw [hm] at this; cases this
      have hne := load_addrs_ne x.instr hld hm s.ctx 0#32
      have haddr : x.instr.memoryRead s.ctx 0#32 = x.instr.memoryRead aj.ctx 0#32 :=
        Proofs.Mvp4.memoryRead_congr x.instr (hp.nofwd _ hxm) hsame 0#32
      simp only [hne, Bool.not_false, if_true, bind, Except.bind] at hr
      have hlo := hp.loads j aj haj hnrj j x.instr f1 hok.1.2
      rw [f3] at hlo
      cases haddrs : x.instr.memoryRead aj.ctx 0#32 with
      | nil => rw [haddr, haddrs] at hne; cases hne
      | cons a1 as =>
        rw [haddrs] at hlo
        rw [haddr, haddrs] at hr
        rcases l3_lookup h.l3 a1 as hlo with ⟨bytes, u', e1, e2, e3, e4⟩ | e1 | ⟨e1, e2⟩
        · -- hit
          simp only [e1, setEu, pure, Except.pure, Except.ok.injEq, Prod.mk.injEq] at hr
          obtain ⟨rfl, rfl⟩ := hr
          have hpsi := psiU_set (s.eus.set i eu) i eu { eu with memory := bytes, co := .l3wait (Gen.Latency.L3Access - 1) } hget0
          rw [List.set_set] at hpsi
          have hu2 : uw ({ eu with memory := bytes, co := .l3wait (Gen.Latency.L3Access - 1) } : ExecUnit) = 52 := by
            simp only [uw]; decide
          refine ⟨?_, keep _ _ _ _, Or.inl ?_⟩
          · exact hl.setUnit (eu' := { eu with memory := bytes, co := .l3wait (Gen.Latency.L3Access - 1) })
              hget0 (by simp only [List.set_set]) rfl rfl rfl rfl rfl rfl
              (by simp only [heldAt, hco]) (by simp only [mwBase, hco])
          · simp only [psiE]
            omega
        · -- the line is being fetched
          have hpne := l3_pending_ne h.l3 a1 as hlo _ _ e1
          simp only [e1, setEu, pure, Except.pure, Except.ok.injEq, Prod.mk.injEq] at hr
          obtain ⟨rfl, rfl⟩ := hr
          exact ⟨hl.of_eq rfl rfl rfl rfl rfl rfl, keep _ _ _ _, Or.inr ⟨rfl, rfl, rfl, rfl, rfl, Or.inr hpne, rfl⟩⟩
        · -- miss: the line is announced
          simp only [e1, setEu, pure, Except.pure, Except.ok.injEq, Prod.mk.injEq] at hr
          obtain ⟨rfl, rfl⟩ := hr
          have hpsi := psiU_set (s.eus.set i eu) i eu { eu with co := .memwait (Gen.Latency.MemoryAccess - 1) (a1 :: as) } hget0
          rw [List.set_set] at hpsi
          have hu2 : uw ({ eu with co := .memwait (Gen.Latency.MemoryAccess - 1) (a1 :: as) } : ExecUnit) = 311 := by
            simp only [uw]; decide
          refine ⟨⟨hl.xdue, hl.wdue, ?_, ?_⟩, keep _ _ _ _, Or.inl ?_⟩
          · show BackU s.ctx s.executeBus.inside ((s.eus.set i { eu with co := .memwait (Gen.Latency.MemoryAccess - 1) (a1 :: as) }).map heldAt) s.writeBus.inside
            have : (s.eus.set i { eu with co := .memwait (Gen.Latency.MemoryAccess - 1) (a1 :: as) }).map heldAt = (s.eus.set i eu).map heldAt := by
              rw [map_heldAt_set, map_heldAt_set]
              simp only [heldAt, hco, hrun]
            rw [this]; exact hl.backU
          · intro p hp'
            have hp2 : p ∈ s.pendings ++ [(base 64 a1.toInt, base 64 a1.toInt + 64)] := hp'
            rcases List.mem_append.mp hp2 with h1 | h1
            · obtain ⟨k, euk, hk, hb⟩ := hl.pmw p h1
              have hk' : (s.eus.set i eu)[k]? = some euk := hk
              by_cases hki : k = i
              · subst hki
                rw [hget0] at hk'; simp only [Option.some.injEq] at hk'; subst hk'
                rw [hmw0] at hb; cases hb
              · exact ⟨k, euk, by
                  show (s.eus.set i _)[k]? = some euk
                  rw [List.getElem?_set_ne (Ne.symm hki)] at hk' ⊢; exact hk', hb⟩
            · simp only [List.mem_singleton] at h1
              subst h1
              exact ⟨i, _, by show (s.eus.set i _)[i]? = some _; exact List.getElem?_set_self hi, by simp only [mwBase]⟩
          · simp only [psiE]
            omega

theorem psiE_congr {s s' : State} (h1 : s'.executeBus.inside = s.executeBus.inside) (h2 : s'.eus = s.eus)
    (h3 : s'.writeBus.inside = s.writeBus.inside) : psiE s' = psiE s := by
  simp only [psiE, h1, h2, h3]

/-- **one cycle of an execute unit**: the back end stays live, its measure does not grow, and it decreases unless the unit is
idle with nothing readable on the execute bus, or holds a runner it cannot prepare yet -/
theorem euCycle_liveO (app : App) (a0 : Arch) (hp : ProgLd app a0) (c : Word) (s s' : State) (nt i : Nat) (out : EuOut)
    (h : RelO app a0 c s nt) (hl : LiveU s) (hi : i < s.eus.length) (hr : euCycle app s i = .ok (s', out)) :
    LiveU s' ∧ EuKeepO s s' ∧ (psiE s' < psiE s ∨ (StallR s s' i ∧ out = .none)) := by
  have hsm := hp.small
  obtain ⟨eu, hget⟩ := get_lt s.eus i hi
  have hself := state_set_self s i eu hget
  have hx : RelOx app a0 c { s with eus := s.eus.set i eu } nt (some i) := by rw [hself]; exact h.open_ i
  have hlx : LiveU { s with eus := s.eus.set i eu } := by rw [hself]; exact hl
  have hpx : psiE { s with eus := s.eus.set i eu } = psiE s := by rw [hself]
  have hu := h.units i eu hget (by simp)
  unfold euCycle at hr
  simp only [hget] at hr
  cases hco : eu.co with
  | none =>
    simp only [hco] at hr
    cases hq : s.executeBus.queue with
    | nil =>
      simp only [get_none _ hq, pure, Except.pure, Except.ok.injEq, Prod.mk.injEq] at hr
      obtain ⟨rfl, rfl⟩ := hr
      exact ⟨hl, EuKeepO.refl _, Or.inr ⟨⟨rfl, rfl, rfl, rfl, rfl, eu, hget, Or.inl ⟨hco, hq⟩⟩, rfl⟩⟩
    | cons x q =>
      simp only [get_some _ x q hq] at hr
      obtain ⟨hT, hH, hxi⟩ := take_relO app a0 hp c s nt i eu x q h hi hget hco hq
      have hxin : s.executeBus.inside = x :: ({ s.executeBus with queue := q } : BufferedBus Runner).inside := by
        simp only [BufferedBus.inside, hq, List.cons_append]
      -- the state after the take
      have hlT : LiveU { s with executeBus := { s.executeBus with queue := q }, eus := s.eus.set i { eu with runner := some x, co := .prepare } } := by
        refine ⟨hl.xdue, hl.wdue, ?_, ?_⟩
        · show BackU s.ctx ({ s.executeBus with queue := q } : BufferedBus Runner).inside
            ((s.eus.set i { eu with runner := some x, co := .prepare }).map heldAt) s.writeBus.inside
          rw [map_heldAt_set]
          have hb := hl.backU
          rw [hxin] at hb
          exact hb.take i hH
        · intro p hp'
          obtain ⟨k, euk, hk, hb⟩ := hl.pmw p hp'
          by_cases hki : k = i
          · subst hki
            rw [hget] at hk; simp only [Option.some.injEq] at hk; subst hk
            simp only [mwBase, hco] at hb; cases hb
          · exact ⟨k, euk, by
              show (s.eus.set i _)[k]? = some euk
              rw [List.getElem?_set_ne (Ne.symm hki)]; exact hk, hb⟩
      have hpT : psiE { s with executeBus := { s.executeBus with queue := q }, eus := s.eus.set i { eu with runner := some x, co := .prepare } } + 3 = psiE s := by
        have hpsi := psiU_set s.eus i eu { eu with runner := some x, co := .prepare } hget
        have h1 : uw eu = 0 := by simp only [uw, hco]
        have h2 : uw ({ eu with runner := some x, co := .prepare } : ExecUnit) = 400 := rfl
        simp only [psiE, hxin, List.length_cons]
        omega
      obtain ⟨e1, e2, e3⟩ := coPrepare_liveO app a0 hp c { s with executeBus := { s.executeBus with queue := q } } s' (nt + 1) i
        { eu with runner := some x, co := .prepare } x out hT hi rfl rfl hlT hr
      refine ⟨e1, ⟨e2.fu, e2.du, e2.decodeBus, e2.controlBus, e2.cuPendings, e2.cycles, e2.wus, e2.xql, e2.xbl, e2.wql, e2.wbl,
        e2.xbuf, e2.wq⟩, Or.inl ?_⟩
      rcases e3 with e3 | ⟨g1, g2, g3, _⟩
      · have e3' : psiE s' < psiE { s with executeBus := { s.executeBus with queue := q }, eus := s.eus.set i { eu with runner := some x, co := .prepare } } := e3
        omega
      · have := psiE_congr (s' := s') (s := { s with executeBus := { s.executeBus with queue := q }, eus := s.eus.set i { eu with runner := some x, co := .prepare } })
          (by rw [g1]) g2 (by rw [g3])
        omega
  | prepare =>
    simp only [hco] at hr
    unfold EuOk at hu
    simp only [hco] at hu
    obtain ⟨x, hxr⟩ := hu
    simp only [hxr] at hr
    obtain ⟨e1, e2, e3⟩ := coPrepare_liveO app a0 hp c s s' nt i eu x out hx hi hco hxr hlx hr
    refine ⟨e1, e2, ?_⟩
    rcases e3 with e3 | ⟨g1, g2, g3, g4, g5, g6, g7⟩
    · exact Or.inl (by omega)
    · exact Or.inr ⟨⟨g1, by rw [g2, set_self _ _ _ hget], g3, g4, g5, eu, hget, Or.inr ⟨hco, g6⟩⟩, g7⟩
  | l3wait rem =>
    simp only [hco] at hr
    unfold EuOk at hu
    simp only [hco] at hu
    obtain ⟨x, j, aj, hxr, hok, haj, hby⟩ := hu
    have hheld : heldAt eu = some x := by simp only [heldAt, hco, hxr]
    split at hr
    · rename_i hpos
      simp only [setEu, pure, Except.pure, Except.ok.injEq, Prod.mk.injEq] at hr
      obtain ⟨rfl, rfl⟩ := hr
      have hpsi := psiU_set s.eus i eu { eu with co := .l3wait (rem - 1) } hget
      have h1 : uw eu = 3 + rem.toNat := by simp only [uw, hco]
      have h2 : uw ({ eu with co := .l3wait (rem - 1) } : ExecUnit) = 3 + (rem - 1).toNat := rfl
      refine ⟨hl.setUnit (eu' := { eu with co := .l3wait (rem - 1) }) hget rfl rfl rfl rfl rfl rfl rfl
          (by simp only [heldAt, hco]) (by simp only [mwBase, hco]),
        ⟨rfl, rfl, rfl, rfl, rfl, rfl, rfl, rfl, rfl, rfl, rfl, rfl, rfl⟩, Or.inl ?_⟩
      simp only [psiE]
      omega
    · simp only [hxr] at hr
      obtain ⟨e1, e2, e3⟩ := coRun_liveO app a0 hp c s s' nt i eu eu x out hx hi hheld (fun j' aj' hok' haj' _ => by
        have := ROk.idx_eq hsm hok' hok
        subst this
        rw [haj] at haj'; simp only [Option.some.injEq] at haj'; subst haj'
        exact hby) hlx (fun b hb => by simp only [mwBase, hco] at hb; cases hb) (by simp only [uw, hco]; omega) hr
      exact ⟨e1, e2, Or.inl (by omega)⟩
  | memwait rem addrs =>
    simp only [hco] at hr
    unfold EuOk at hu
    simp only [hco] at hu
    obtain ⟨x, j, aj, a1, as, hxr, hok, haj, haddr, hcons, p, hpm, hpb⟩ := hu
    have hheld : heldAt eu = some x := by simp only [heldAt, hco, hxr]
    split at hr
    · rename_i hpos
      simp only [setEu, pure, Except.pure, Except.ok.injEq, Prod.mk.injEq] at hr
      obtain ⟨rfl, rfl⟩ := hr
      have hpsi := psiU_set s.eus i eu { eu with co := .memwait (rem - 1) addrs } hget
      have h1 : uw eu = 3 + rem.toNat := by simp only [uw, hco]
      have h2 : uw ({ eu with co := .memwait (rem - 1) addrs } : ExecUnit) = 3 + (rem - 1).toNat := rfl
      refine ⟨hl.setUnit (eu' := { eu with co := .memwait (rem - 1) addrs }) hget rfl rfl rfl rfl rfl rfl rfl
          (by simp only [heldAt, hco]) (by cases addrs <;> simp only [mwBase, hco]),
        ⟨rfl, rfl, rfl, rfl, rfl, rfl, rfl, rfl, rfl, rfl, rfl, rfl, rfl⟩, Or.inl ?_⟩
      simp only [psiE]
      omega
    · subst hcons
      simp only [hxr, bind, Except.bind] at hr
      have hjnt : j < nt := by
        obtain ⟨j', hj', hok'⟩ := h.back.hidx x (List.mem_of_getElem? (held_slot hget hheld))
        have := ROk.idx_eq hsm hok' hok
        omega
      have hnrj : NoRetBefore app j := h.reti.1.mono (by omega)
      obtain ⟨f1, f2, f3, f4, f5⟩ := seq_facts app a0 hp j aj haj (hnrj.mono (by omega))
      have hlo := hp.loads j aj haj hnrj j x.instr f1 hok.1.2
      rw [f3, ← haddr] at hlo
      obtain ⟨line, u1, mem1, bytes, u2, g1, g2, g3, g6, h1⟩ := fill_relO app a0 c s nt i eu x rem a1 as h hget hco hxr hlo ⟨p, hpm, hpb⟩
      simp only [g1, g2, g3] at hr
      have heq : ({ co := EuCo.memwait rem (a1 :: as), memory := bytes, runner := some x } : ExecUnit) = { eu with memory := bytes } := by
        cases eu; simp only at hco hxr; subst hco; subst hxr; rfl
      rw [heq] at hr
      have hne := removePending_ne (base 64 a1.toInt) s.pendings h.l3.pdist ⟨p, hpm, hpb⟩
      have hl2 : LiveU { s with mmu := u2, pendings := removePending (base 64 a1.toInt) s.pendings, ctx := { s.ctx with Memory := mem1 }, eus := s.eus.set i eu } := by
        refine ⟨hl.xdue, hl.wdue, ?_, ?_⟩
        · show BackU { s.ctx with Memory := mem1 } s.executeBus.inside ((s.eus.set i eu).map heldAt) s.writeBus.inside
          rw [set_self _ _ _ hget]
          exact hl.backU.congr_ctx _ rfl rfl
        · intro q hq
          have hq' : q ∈ removePending (base 64 a1.toInt) s.pendings := hq
          obtain ⟨k, euk, hk, hb⟩ := hl.pmw q ((removePending_sublist _ _).subset hq')
          exact ⟨k, euk, by show (s.eus.set i eu)[k]? = some euk; rw [set_self _ _ _ hget]; exact hk, hb⟩
      obtain ⟨e1, e2, e3⟩ := coRun_liveO app a0 hp c { s with mmu := u2, pendings := removePending (base 64 a1.toInt) s.pendings, ctx := { s.ctx with Memory := mem1 } } s' nt i eu { eu with memory := bytes } x out h1 hi hheld
        (fun j' aj' hok' haj' _ => by
          have := ROk.idx_eq hsm hok' hok
          subst this
          rw [haj] at haj'; simp only [Option.some.injEq] at haj'; subst haj'
          rw [← haddr]; exact g6) hl2
        (fun b hb q hq => by
          simp only [mwBase, hco, Option.some.injEq] at hb
          subst hb
          exact hne q hq) (by simp only [uw, hco]; omega) hr
      refine ⟨e1, ⟨e2.fu, e2.du, e2.decodeBus, e2.controlBus, e2.cuPendings, e2.cycles, e2.wus, e2.xql, e2.xbl, e2.wql, e2.wbl,
        e2.xbuf, e2.wq⟩, Or.inl ?_⟩
      have := psiE_congr (s' := { s with mmu := u2, pendings := removePending (base 64 a1.toInt) s.pendings, ctx := { s.ctx with Memory := mem1 }, eus := s.eus.set i eu }) (s := s)
        rfl (set_self _ _ _ hget) rfl
      have e3' : psiE s' < psiE { s with mmu := u2, pendings := removePending (base 64 a1.toInt) s.pendings, ctx := { s.ctx with Memory := mem1 }, eus := s.eus.set i eu } := e3
      omega

/-- why no unit of `i … i+n-1` made progress -/
def StallAll (s s' : State) (i n : Nat) : Prop :=
  s'.executeBus = s.executeBus ∧ s'.eus = s.eus ∧ s'.writeBus = s.writeBus ∧ s'.pendings = s.pendings ∧ s'.ctx = s.ctx ∧
  ∀ k, i ≤ k → k < i + n → ∃ eu, s.eus[k]? = some eu ∧
    ((eu.co = .none ∧ s.executeBus.queue = []) ∨ (eu.co = .prepare ∧ (s.writeBus.canAdd = false ∨ s.pendings ≠ [])))

theorem psiE_of_stall {s s' : State} (h1 : s'.executeBus = s.executeBus) (h2 : s'.eus = s.eus) (h3 : s'.writeBus = s.writeBus) :
    psiE s' = psiE s := psiE_congr (by rw [h1]) h2 (by rw [h3])

/-- the loop over the execute units: the back end stays live; its measure decreases unless every unit is idle or stalled -/
theorem eusCycle_liveO (app : App) (a0 : Arch) (hp : ProgLd app a0) (c : Word) : ∀ (n i : Nat) (s s' : State) (acc acc' : EuAcc) (nt : Nat),
    i + n = s.eus.length → RelO app a0 c s nt → LiveU s → eusCycle app n i s acc = .ok (s', acc') →
    LiveU s' ∧ EuKeepO s s' ∧ (psiE s' < psiE s ∨ (StallAll s s' i n ∧ acc'.ret = acc.ret)) := by
  intro n
  induction n with
  | zero =>
    intro i s s' acc acc' nt _ h hl hr
    simp only [eusCycle, pure, Except.pure, Except.ok.injEq, Prod.mk.injEq] at hr
    obtain ⟨rfl, rfl⟩ := hr
    exact ⟨hl, EuKeepO.refl _, Or.inr ⟨⟨rfl, rfl, rfl, rfl, rfl, fun k h1 h2 => by omega⟩, rfl⟩⟩
  | succ n ih =>
    intro i s s' acc acc' nt hlen h hl hr
    simp only [eusCycle, bind, Except.bind] at hr
    split at hr
    · cases hr
    · rename_i v hv
      obtain ⟨s1, out⟩ := v
      obtain ⟨nt1, _, h1, _, hpost⟩ := euCycle_simO app a0 hp c s s1 nt i out h (by omega) hv
      obtain ⟨l1, k1, p1⟩ := euCycle_liveO app a0 hp c s s1 nt i out h hl (by omega) hv
      have hl' := euCycle_len app s s1 i _ hv
      have key : ∀ acc1, eusCycle app n (i + 1) s1 acc1 = .ok (s', acc') → (out = .none → acc1 = acc) →
          LiveU s' ∧ EuKeepO s s' ∧ (psiE s' < psiE s ∨ (StallAll s s' i (n + 1) ∧ acc'.ret = acc.ret)) := by
        intro acc1 hr1 hacc1
        obtain ⟨l2, k2, p2⟩ := ih (i + 1) s1 s' acc1 acc' nt1 (by omega) h1 l1 hr1
        refine ⟨l2, k1.trans k2, ?_⟩
        rcases p1 with p1 | ⟨⟨a1, a2, a3, a4, a5, eu, a6, a7⟩, a8⟩
        · left
          rcases p2 with p2 | ⟨⟨b1, b2, b3, _⟩, _⟩
          · omega
          · have := psiE_of_stall b1 b2 b3; omega
        · rcases p2 with p2 | ⟨⟨b1, b2, b3, b4, b5, b6⟩, b7⟩
          · left; have := psiE_of_stall a1 a2 a3; omega
          · right
            refine ⟨⟨b1.trans a1, b2.trans a2, b3.trans a3, b4.trans a4, b5.trans a5, ?_⟩, by rw [b7, hacc1 a8]⟩
            intro k hk1 hk2
            rcases Nat.lt_or_ge i k with hgt | hle
            · obtain ⟨euk, e1, e2⟩ := b6 k (by omega) (by omega)
              rw [a2] at e1
              rw [a1, a3, a4] at e2
              exact ⟨euk, e1, e2⟩
            · have : k = i := by omega
              subst this
              exact ⟨eu, a6, a7⟩
      rcases hpost with ⟨rfl, _⟩ | ⟨rfl, _⟩
      · simp only at hr; exact key _ hr (fun _ => rfl)
      · simp only at hr; exact key _ hr (fun hc => by cases hc)

/-- the loop over the busy execute units while the machine drains after a `ret` -/
theorem eusBusy_liveO (app : App) (a0 : Arch) (hp : ProgLd app a0) (c : Word) : ∀ (n i : Nat) (s s' : State) (e : Bool) (nt : Nat),
    i + n = s.eus.length → RelO app a0 c s nt → LiveU s → eusCycleBusy app n i s = .ok (s', e) →
    LiveU s' ∧ EuKeepO s s' ∧ (psiE s' < psiE s ∨
      (s'.executeBus = s.executeBus ∧ s'.eus = s.eus ∧ s'.writeBus = s.writeBus ∧ s'.pendings = s.pendings ∧ s'.ctx = s.ctx ∧
        ∀ k, i ≤ k → k < i + n → ∃ eu, s.eus[k]? = some eu ∧
          (eu.co = .none ∨ (eu.co = .prepare ∧ (s.writeBus.canAdd = false ∨ s.pendings ≠ []))))) := by
  intro n
  induction n with
  | zero =>
    intro i s s' e nt _ h hl hr
    simp only [eusCycleBusy, pure, Except.pure, Except.ok.injEq, Prod.mk.injEq] at hr
    obtain ⟨rfl, rfl⟩ := hr
    exact ⟨hl, EuKeepO.refl _, Or.inr ⟨rfl, rfl, rfl, rfl, rfl, fun k h1 h2 => by omega⟩⟩
  | succ n ih =>
    intro i s s' e nt hlen h hl hr
    obtain ⟨eu, hget⟩ := get_lt s.eus i (by omega)
    simp only [eusCycleBusy, hget, bind, Except.bind] at hr
    split at hr
    · rename_i hemp
      obtain ⟨l2, k2, p2⟩ := ih (i + 1) s s' e nt (by omega) h hl hr
      refine ⟨l2, k2, ?_⟩
      rcases p2 with p2 | ⟨b1, b2, b3, b4, b5, b6⟩
      · exact Or.inl p2
      · right
        refine ⟨b1, b2, b3, b4, b5, ?_⟩
        intro k hk1 hk2
        rcases Nat.lt_or_ge i k with hgt | hle
        · exact b6 k (by omega) (by omega)
        · have : k = i := by omega
          subst this
          exact ⟨eu, hget, Or.inl (by simpa [ExecUnit.isEmpty] using hemp)⟩
    · rename_i hbusy
      split at hr
      · cases hr
      · rename_i v hv
        obtain ⟨s1, out⟩ := v
        obtain ⟨nt1, _, h1, _, hpost⟩ := euCycle_simO app a0 hp c s s1 nt i out h (by omega) hv
        obtain ⟨l1, k1, p1⟩ := euCycle_liveO app a0 hp c s s1 nt i out h hl (by omega) hv
        have hl' := euCycle_len app s s1 i _ hv
        have key : eusCycleBusy app n (i + 1) s1 = .ok (s', e) → _ := fun hr1 => ih (i + 1) s1 s' e nt1 (by omega) h1 l1 hr1
        have hr1 : eusCycleBusy app n (i + 1) s1 = .ok (s', e) := by
          rcases hpost with ⟨rfl, _⟩ | ⟨rfl, _⟩
          · simpa using hr
          · simpa using hr
        obtain ⟨l2, k2, p2⟩ := key hr1
        refine ⟨l2, k1.trans k2, ?_⟩
        rcases p1 with p1 | ⟨⟨a1, a2, a3, a4, a5, eu', a6, a7⟩, _⟩
        · left
          rcases p2 with p2 | ⟨b1, b2, b3, _⟩
          · omega
          · have := psiE_of_stall b1 b2 b3; omega
        · rcases p2 with p2 | ⟨b1, b2, b3, b4, b5, b6⟩
          · left; have := psiE_of_stall a1 a2 a3; omega
          · right
            refine ⟨b1.trans a1, b2.trans a2, b3.trans a3, b4.trans a4, b5.trans a5, ?_⟩
            intro k hk1 hk2
            rcases Nat.lt_or_ge i k with hgt | hle
            · obtain ⟨euk, e1, e2⟩ := b6 k (by omega) (by omega)
              rw [a2] at e1
              rw [a3, a4] at e2
              exact ⟨euk, e1, e2⟩
            · have : k = i := by omega
              subst this
              refine ⟨eu', a6, ?_⟩
              rcases a7 with ⟨a7, _⟩ | a7
              · exact Or.inl a7
              · exact Or.inr a7

/-- what a cycle of a write unit leaves alone -/
structure WuKeepO (s s' : State) : Prop where
  fu : s'.fu = s.fu
  du : s'.du = s.du
  decodeBus : s'.decodeBus = s.decodeBus
  controlBus : s'.controlBus = s.controlBus
  cuPendings : s'.cuPendings = s.cuPendings
  cycles : s'.cycles = s.cycles
  wus : s'.wus = s.wus
  executeBus : s'.executeBus = s.executeBus
  eus : s'.eus = s.eus
  pendings : s'.pendings = s.pendings
  wql : s'.writeBus.queueLength = s.writeBus.queueLength
  wbl : s'.writeBus.bufferLength = s.writeBus.bufferLength
  wbuf : s'.writeBus.buffer = s.writeBus.buffer

theorem WuKeepO.refl (s : State) : WuKeepO s s := ⟨rfl, rfl, rfl, rfl, rfl, rfl, rfl, rfl, rfl, rfl, rfl, rfl, rfl⟩

theorem WuKeepO.trans {a b c : State} (h1 : WuKeepO a b) (h2 : WuKeepO b c) : WuKeepO a c :=
  ⟨h2.fu.trans h1.fu, h2.du.trans h1.du, h2.decodeBus.trans h1.decodeBus, h2.controlBus.trans h1.controlBus,
   h2.cuPendings.trans h1.cuPendings, h2.cycles.trans h1.cycles, h2.wus.trans h1.wus, h2.executeBus.trans h1.executeBus,
   h2.eus.trans h1.eus, h2.pendings.trans h1.pendings, h2.wql.trans h1.wql, h2.wbl.trans h1.wbl, h2.wbuf.trans h1.wbuf⟩

/-- **a write unit**: it takes the oldest result off the write bus when one is readable -/
theorem wuCycle_liveO (app : App) (a0 : Arch) (hp : ProgLd app a0) (c : Word) (s s' : State) (nt j : Nat) (hj : j < s.wus.length)
    (h : RelO app a0 c s nt) (hl : LiveU s) (hr : wuCycle s j (BitVec.ofInt 32 (-1)) = .ok s') :
    LiveU s' ∧ WuKeepO s s' ∧ psiE s' ≤ psiE s ∧ s'.writeBus.queue = s.writeBus.queue.tail ∧
      (s.writeBus.queue ≠ [] → psiE s' < psiE s) := by
  obtain ⟨wu, hget⟩ := get_lt s.wus j hj
  have hco := h.wus wu (List.mem_of_getElem? hget)
  unfold wuCycle at hr
  simp only [hget, hco] at hr
  cases hq : s.writeBus.queue with
  | nil =>
    simp only [get_none _ hq, pure, Except.pure, Except.ok.injEq] at hr
    subst hr
    exact ⟨hl, WuKeepO.refl _, Nat.le_refl _, by simp [hq], fun hc => absurd rfl hc⟩
  | cons ec q =>
    simp only [get_some _ ec q hq, bne_self_eq_false, Bool.false_and, Bool.false_eq_true, if_false] at hr
    have hin : s.writeBus.inside = ec :: ({ s.writeBus with queue := q } : BufferedBus ExecCtx).inside := by
      simp only [BufferedBus.inside, hq, List.cons_append]
    have hnm : ec.execution.MemoryChange = false := relO_nomem hp h ec (by rw [hin]; exact List.mem_cons_self)
    have hb := hl.backU
    rw [hin] at hb
    have key : ∀ ctx' : Model.Context, ctx' = deletePendingRegisters
        (if ec.execution.RegisterChange then Model.Seq.writeRegister s.ctx ec.execution else s.ctx) ec.readRegisters ec.writeRegisters →
        LiveU { s with writeBus := { s.writeBus with queue := q }, ctx := ctx' } ∧
        WuKeepO s { s with writeBus := { s.writeBus with queue := q }, ctx := ctx' } ∧
        psiE { s with writeBus := { s.writeBus with queue := q }, ctx := ctx' } < psiE s := by
      intro ctx' hc'
      subst hc'
      refine ⟨⟨hl.xdue, hl.wdue, hb.writeback, hl.pmw⟩, ⟨rfl, rfl, rfl, rfl, rfl, rfl, rfl, rfl, rfl, rfl, rfl, rfl, rfl⟩, ?_⟩
      simp only [psiE, hin, List.length_cons]
      omega
    split at hr
    · rename_i hrc
      simp only [pure, Except.pure, Except.ok.injEq] at hr
      subst hr
      obtain ⟨k1, k2, k3⟩ := key (deletePendingRegisters (Model.Seq.writeRegister s.ctx ec.execution) ec.readRegisters ec.writeRegisters)
        (by simp only [hrc, if_true])
      exact ⟨k1, k2, Nat.le_of_lt k3, rfl, fun _ => k3⟩
    · rename_i hrc
      simp only [hnm, Bool.false_eq_true, if_false, pure, Except.pure, Except.ok.injEq] at hr
      subst hr
      obtain ⟨k1, k2, k3⟩ := key (deletePendingRegisters s.ctx ec.readRegisters ec.writeRegisters)
        (by simp only [hrc, Bool.false_eq_true, if_false])
      exact ⟨k1, k2, Nat.le_of_lt k3, rfl, fun _ => k3⟩

theorem wus_liveO (app : App) (a0 : Arch) (hp : ProgLd app a0) (c : Word) (nt : Nat) : ∀ (n i : Nat) (s s' : State), i + n = s.wus.length →
    RelO app a0 c s nt → LiveU s → (List.range' i n).foldlM (fun s j => wuCycle s j (BitVec.ofInt 32 (-1))) s = .ok s' →
    LiveU s' ∧ WuKeepO s s' ∧ psiE s' ≤ psiE s ∧ (1 ≤ n → s.writeBus.queue ≠ [] → psiE s' < psiE s) := by
  intro n
  induction n with
  | zero =>
    intro i s s' _ h hl hr
    simp only [List.range'_zero, List.foldlM, pure, Except.pure, Except.ok.injEq] at hr
    subst hr; exact ⟨hl, WuKeepO.refl _, Nat.le_refl _, fun h1 => by omega⟩
  | succ n ih =>
    intro i s s' hlen h hl hr
    simp only [List.range'_succ, List.foldlM, bind, Except.bind] at hr
    split at hr
    · cases hr
    · rename_i s1 h1
      obtain ⟨r1, lw, _, _⟩ := wuCycle_simO app a0 hp c s s1 nt i (by omega) h h1
      obtain ⟨l1, k1, p1, _, q1⟩ := wuCycle_liveO app a0 hp c s s1 nt i (by omega) h hl h1
      obtain ⟨l2, k2, p2, _⟩ := ih (i + 1) s1 s' (by omega) r1 l1 hr
      exact ⟨l2, k1.trans k2, by omega, fun _ hne => by have := q1 hne; omega⟩

theorem wusCycle_liveO (app : App) (a0 : Arch) (hp : ProgLd app a0) (c : Word) (nt : Nat) (s s' : State) (h : RelO app a0 c s nt)
    (hl : LiveU s) (hr : wusCycle s = .ok s') :
    LiveU s' ∧ WuKeepO s s' ∧ psiE s' ≤ psiE s ∧ (1 ≤ s.wus.length → s.writeBus.queue ≠ [] → psiE s' < psiE s) := by
  unfold wusCycle at hr
  rw [List.range_eq_range'] at hr
  exact wus_liveO app a0 hp c nt s.wus.length 0 s s' (by omega) h hl hr

end Proofs.Mvp60Ld

/-
  Proofs/Mvp60LdLive.lean — package R60d (totality, work in progress): what makes the out-of-order pipeline of MVP-6.0 move on
  straight-line programs with memory reads: the scoreboards hold no entry without an instruction in flight (`BackU`, the converse
  of `BackO.sbW/sbR`), what waits in a bus buffer is due at the next `Connect`, every pending line is being fetched by a unit.
-/
import MajoranaVerif.Proofs.Mvp60LdOk
open GoInt

set_option linter.unusedSimpArgs false
set_option linter.unusedVariables false

namespace Proofs.Mvp60Ld
open Model Model.Mvp60 Proofs.Mvp60Sl Proofs.Mmu
open Model.Seq (App Halt Arch stepArch)

/-- **the scoreboards hold no entry without an instruction in flight** -/
structure BackU (ctx : Model.Context) (X : List Runner) (H : List (Option Runner)) (W : List ExecCtx) : Prop where
  w : ∀ r, r ≠ Gen.Reg.Zero → GoMap.get1 ctx.PendingWriteRegisters r ≤
    ((cntX X r + hsum (fun x => x.instr.writeRegisters.count r) H + cntW W r : Nat) : Int)
  r : ∀ r, r ≠ Gen.Reg.Zero → GoMap.get1 ctx.PendingReadRegisters r ≤
    ((cntXr X r + hsum (fun x => x.instr.readRegisters.count r) H + cntWr W r : Nat) : Int)

section
variable {ctx : Model.Context} {X : List Runner} {H : List (Option Runner)} {W : List ExecCtx}

theorem BackU.issue (hb : BackU ctx X H W) (r : Runner) : BackU (addPendingRegisters ctx r.instr) (X ++ [r]) H W := by
  refine ⟨?_, ?_⟩
  · intro reg hne
    have := hb.w reg hne
    simp only [addPendingRegisters, get1_incRegs, hne, if_false, cntX_append]
    omega
  · intro reg hne
    have := hb.r reg hne
    simp only [addPendingRegisters, get1_incRegs, hne, if_false, cntXr_append]
    omega

theorem BackU.take {x : Runner} {X' : List Runner} (hb : BackU ctx (x :: X') H W) (i : Nat) (hi : H[i]? = some none) :
    BackU ctx X' (H.set i (some x)) W := by
  refine ⟨?_, ?_⟩
  · intro r hr
    have := hb.w r hr
    have hs := hsum_set (fun y => y.instr.writeRegisters.count r) H i none (some x) hi
    simp only [cntX, List.map_cons, List.sum_cons] at this hs ⊢
    omega
  · intro r hr
    have := hb.r r hr
    have hs := hsum_set (fun y => y.instr.readRegisters.count r) H i none (some x) hi
    simp only [cntXr, List.map_cons, List.sum_cons] at this hs ⊢
    omega

theorem BackU.exec (hb : BackU ctx X H W) (i : Nat) (x : Runner) (hi : H[i]? = some (some x)) (ec : ExecCtx)
    (hw : ec.writeRegisters = x.instr.writeRegisters) (hr : ec.readRegisters = x.instr.readRegisters) :
    BackU ctx X (H.set i none) (W ++ [ec]) := by
  refine ⟨?_, ?_⟩
  · intro r hr0
    have := hb.w r hr0
    have hs := hsum_set (fun y => y.instr.writeRegisters.count r) H i (some x) none hi
    simp only [cntW, List.map_append, List.sum_append, List.map_cons, List.map_nil, List.sum_cons, List.sum_nil, hw] at this hs ⊢
    omega
  · intro r hr0
    have := hb.r r hr0
    have hs := hsum_set (fun y => y.instr.readRegisters.count r) H i (some x) none hi
    simp only [cntWr, List.map_append, List.sum_append, List.map_cons, List.map_nil, List.sum_cons, List.sum_nil, hr] at this hs ⊢
    omega

theorem BackU.retire (hb : BackU ctx X H W) (i : Nat) (x : Runner) (hi : H[i]? = some (some x))
    (hw : x.instr.writeRegisters = []) (hr : x.instr.readRegisters = []) : BackU ctx X (H.set i none) W := by
  refine ⟨?_, ?_⟩
  · intro r hr0
    have := hb.w r hr0
    have hs := hsum_set (fun y => y.instr.writeRegisters.count r) H i (some x) none hi
    simp only [hw, List.count_nil] at hs
    omega
  · intro r hr0
    have := hb.r r hr0
    have hs := hsum_set (fun y => y.instr.readRegisters.count r) H i (some x) none hi
    simp only [hr, List.count_nil] at hs
    omega

theorem BackU.writeback {ec : ExecCtx} (hb : BackU ctx X H (ec :: W)) :
    BackU (deletePendingRegisters (if ec.execution.RegisterChange then Model.Seq.writeRegister ctx ec.execution else ctx)
      ec.readRegisters ec.writeRegisters) X H W := by
  have hpw : (deletePendingRegisters (if ec.execution.RegisterChange then Model.Seq.writeRegister ctx ec.execution else ctx)
      ec.readRegisters ec.writeRegisters).PendingWriteRegisters = decRegs ctx.PendingWriteRegisters ec.writeRegisters := by
    cases hrc : ec.execution.RegisterChange <;> simp only [deletePendingRegisters, hrc, if_true, Bool.false_eq_true, if_false, Model.Seq.writeRegister]
  have hpr : (deletePendingRegisters (if ec.execution.RegisterChange then Model.Seq.writeRegister ctx ec.execution else ctx)
      ec.readRegisters ec.writeRegisters).PendingReadRegisters = decRegs ctx.PendingReadRegisters ec.readRegisters := by
    cases hrc : ec.execution.RegisterChange <;> simp only [deletePendingRegisters, hrc, if_true, Bool.false_eq_true, if_false, Model.Seq.writeRegister]
  refine ⟨?_, ?_⟩
  · intro r hr0
    have h1 := hb.w r hr0
    have h2 := get1_decRegs_le ec.writeRegisters ctx.PendingWriteRegisters r hr0
    rw [hpw]
    simp only [cntW, List.map_cons, List.sum_cons] at h1 ⊢
    omega
  · intro r hr0
    have h1 := hb.r r hr0
    have h2 := get1_decRegs_le ec.readRegisters ctx.PendingReadRegisters r hr0
    rw [hpr]
    simp only [cntWr, List.map_cons, List.sum_cons] at h1 ⊢
    omega

theorem BackU.congr_ctx (hb : BackU ctx X H W) (ctx' : Model.Context)
    (h2 : ctx'.PendingWriteRegisters = ctx.PendingWriteRegisters) (h3 : ctx'.PendingReadRegisters = ctx.PendingReadRegisters) :
    BackU ctx' X H W :=
  ⟨by rw [h2]; exact hb.w, by rw [h3]; exact hb.r⟩

theorem hsum_all_none (f : Runner → Nat) : ∀ (H : List (Option Runner)), (∀ o ∈ H, o = none) → hsum f H = 0 := by
  intro H
  induction H with
  | nil => intro _; rfl
  | cons a as ih =>
    intro hH
    have ha := hH a List.mem_cons_self
    subst ha
    have := ih (fun o ho => hH o (List.mem_cons_of_mem _ ho))
    simp only [hsum, List.map_cons, List.sum_cons] at this ⊢
    omega

/-- nothing in flight: no hazard -/
theorem BackU.no_hazard (hb : BackU ctx [] H []) (hH : ∀ o ∈ H, o = none) (i : Gen.Instr) : isDataHazard3 ctx i = false := by
  have hw : ∀ r, r ≠ Gen.Reg.Zero → pendingPos ctx.PendingWriteRegisters r = false := fun r hne =>
    pendingPos_of_le _ _ (by have := hb.w r hne; rw [hsum_all_none _ H hH] at this; simpa [cntW, cntX] using this)
  have hr : ∀ r, r ≠ Gen.Reg.Zero → pendingPos ctx.PendingReadRegisters r = false := fun r hne =>
    pendingPos_of_le _ _ (by have := hb.r r hne; rw [hsum_all_none _ H hH] at this; simpa [cntWr, cntXr] using this)
  simp only [isDataHazard3, Bool.or_eq_false_iff, List.any_eq_false, Bool.and_eq_true, bne_iff_ne, ne_eq, not_and,
    Bool.not_eq_true]
  exact ⟨fun r _ hne => hw r hne, fun r _ hne => ⟨hw r hne, hr r hne⟩⟩

end

/-! ### the measure of the back end, and what the units keep -/

/-- what an execute unit still has to do: a held runner that has not been looked up weighs more than any wait -/
def uw (eu : ExecUnit) : Nat :=
  match eu.co with
  | .none => 0
  | .prepare => 400
  | .l3wait rem => 3 + rem.toNat
  | .memwait rem _ => 3 + rem.toNat

def psiU (eus : List ExecUnit) : Nat := (eus.map uw).sum

theorem psiU_set : ∀ (eus : List ExecUnit) (i : Nat) (eu eu' : ExecUnit), eus[i]? = some eu →
    psiU (eus.set i eu') + uw eu = psiU eus + uw eu' := by
  intro eus
  induction eus with
  | nil => intro i eu eu' h; cases h
  | cons a as ih =>
    intro i eu eu' h
    cases i with
    | zero =>
      simp only [List.getElem?_cons_zero, Option.some.injEq] at h
      subst h
      simp only [psiU, List.set_cons_zero, List.map_cons, List.sum_cons]
      omega
    | succ i =>
      simp only [List.getElem?_cons_succ] at h
      have := ih i eu eu' h
      simp only [psiU, List.set_cons_succ, List.map_cons, List.sum_cons] at this ⊢
      omega

/-- the measure of the back end: runners on the execute bus, the units, results on the write bus -/
def psiE (s : State) : Nat := 403 * s.executeBus.inside.length + psiU s.eus + s.writeBus.inside.length

/-- every pending line is being fetched by a unit -/
def PendMw (s : State) : Prop := ∀ p ∈ s.pendings, ∃ (k : Nat) (eu : ExecUnit), s.eus[k]? = some eu ∧ mwBase eu = some p.1

/-- the facts about the back end that make it move -/
structure LiveU (s : State) : Prop where
  xdue : Due s.executeBus (s.cycles + 1)
  wdue : Due s.writeBus (s.cycles + 1)
  backU : BackU s.ctx s.executeBus.inside (s.eus.map heldAt) s.writeBus.inside
  pmw : PendMw s

/-- what a cycle of an execute unit leaves alone -/
structure EuKeepO (s s' : State) : Prop where
  fu : s'.fu = s.fu
  du : s'.du = s.du
  decodeBus : s'.decodeBus = s.decodeBus
  controlBus : s'.controlBus = s.controlBus
  cuPendings : s'.cuPendings = s.cuPendings
  cycles : s'.cycles = s.cycles
  wus : s'.wus = s.wus
  xql : s'.executeBus.queueLength = s.executeBus.queueLength
  xbl : s'.executeBus.bufferLength = s.executeBus.bufferLength
  wql : s'.writeBus.queueLength = s.writeBus.queueLength
  wbl : s'.writeBus.bufferLength = s.writeBus.bufferLength
  xbuf : s'.executeBus.buffer = s.executeBus.buffer
  wq : s'.writeBus.queue = s.writeBus.queue

theorem EuKeepO.refl (s : State) : EuKeepO s s := ⟨rfl, rfl, rfl, rfl, rfl, rfl, rfl, rfl, rfl, rfl, rfl, rfl, rfl⟩

theorem EuKeepO.trans {a b c : State} (h1 : EuKeepO a b) (h2 : EuKeepO b c) : EuKeepO a c :=
  ⟨h2.fu.trans h1.fu, h2.du.trans h1.du, h2.decodeBus.trans h1.decodeBus, h2.controlBus.trans h1.controlBus,
   h2.cuPendings.trans h1.cuPendings, h2.cycles.trans h1.cycles, h2.wus.trans h1.wus, h2.xql.trans h1.xql, h2.xbl.trans h1.xbl,
   h2.wql.trans h1.wql, h2.wbl.trans h1.wbl, h2.xbuf.trans h1.xbuf, h2.wq.trans h1.wq⟩

/-- why a unit made no progress: it is idle and nothing is readable on the execute bus, or it holds a runner it cannot prepare
(no room on the write bus, or a line is being fetched) -/
def StallR (s s' : State) (i : Nat) : Prop :=
  s'.executeBus = s.executeBus ∧ s'.eus = s.eus ∧ s'.writeBus = s.writeBus ∧ s'.pendings = s.pendings ∧ s'.ctx = s.ctx ∧
  ∃ eu, s.eus[i]? = some eu ∧
    ((eu.co = .none ∧ s.executeBus.queue = []) ∨ (eu.co = .prepare ∧ (s.writeBus.canAdd = false ∨ s.pendings ≠ [])))

/-- the unit's slot changes, the runner it holds and the line it fetches do not -/
theorem LiveU.setUnit {s s' : State} {i : Nat} {eu eu' : ExecUnit} (hl : LiveU s) (hget : s.eus[i]? = some eu)
    (he : s'.eus = s.eus.set i eu') (hx : s'.executeBus = s.executeBus) (hw : s'.writeBus = s.writeBus)
    (hc : s'.cycles = s.cycles) (hpw : s'.ctx.PendingWriteRegisters = s.ctx.PendingWriteRegisters)
    (hpr : s'.ctx.PendingReadRegisters = s.ctx.PendingReadRegisters) (hp : s'.pendings = s.pendings)
    (hh : heldAt eu' = heldAt eu) (hm : mwBase eu' = mwBase eu) : LiveU s' := by
  have hH : s'.eus.map heldAt = s.eus.map heldAt := by
    rw [he, map_heldAt_set, hh]
    exact set_self _ _ _ (by rw [List.getElem?_map, hget]; rfl)
  refine ⟨by rw [hx, hc]; exact hl.xdue, by rw [hw, hc]; exact hl.wdue, ?_, ?_⟩
  · rw [hx, hw, hH]; exact hl.backU.congr_ctx _ hpw hpr
  · unfold PendMw
    intro p hp'
    rw [hp] at hp'
    obtain ⟨k, euk, hk, hb⟩ := hl.pmw p hp'
    by_cases hki : k = i
    · subst hki
      rw [hget] at hk; simp only [Option.some.injEq] at hk; subst hk
      have hil : k < s.eus.length := by
        rcases Nat.lt_or_ge k s.eus.length with h' | h'
        · exact h'
        · rw [List.getElem?_eq_none h'] at hget; cases hget
      exact ⟨k, eu', by rw [he]; exact List.getElem?_set_self hil, by rw [hm]; exact hb⟩
    · exact ⟨k, euk, by rw [he, List.getElem?_set_ne (Ne.symm hki)]; exact hk, hb⟩

end Proofs.Mvp60Ld

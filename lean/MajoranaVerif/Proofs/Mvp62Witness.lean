/-
  Proofs/Mvp62Witness.lean — what the cycle-accurate model of MVP-6.2 (`Model.Mvp62`, tied to the Go machine on every
  generated case) computes on small programs: kernel evaluations (tick by tick), next to the unpipelined machine and to
  MVP-6.1 on the same program.  Memory is 128 / 256 bytes of `0x11`.

  * KF-ooo-txmap (`tx_*`): the transaction map keeps ONE uncommitted write per register;
  * the shadow of a slow branch is rolled back — the documented fix of MVP-6.1's KF-ooo-shadow (`shadow62_p3`);
  * KF-ooo-2branch on its pinned variant (`two62_p2`).
-/
import MajoranaVerif.Model.Mvp62
import MajoranaVerif.Proofs.Mvp61Witness
open GoInt

namespace Proofs.Mvp62Witness
open Proofs.Mvp61Witness (obs obsSeq obs_eq obsSeq_eq ctx0 m11 shadowApp twoApp)

-- `DecidableEq` of the eight-component tuple of `obs` needs more than the default 128 instance-synthesis steps
set_option synthInstance.maxSize 512

/-! ### KF-ooo-txmap: a wrong-path write replaces an older uncommitted right-path write of the same register

`ori a7, s3, 1; lw t4, 12(s1); bnez t4, l2; addi a7, zero, 8; l2:` with memory all `0x11` (the branch is taken).  The `ori`
(right path, older than the branch) writes `a7 = 1` into the transaction map.  With three units the `addi` in the shadow of
the slow branch runs too and its write unit REPLACES the map's entry for `a7` by `(addi's sequence id, 8)`.  When the branch
resolves, `Rollback(branch's id)` drops every entry that is not older than the branch — the only entry for `a7` is the
`addi`'s — and empties the map: `a7` keeps 0, the `ori`'s result is lost.  (MVP-6.1 on the same program commits the shadow:
`a7 = 8`.) -/

def txApp : Model.Seq.App :=
  { instrs := [.ori_ { rd := 17, rs := 19, imm := 1#32 }, .lw_ { rd := 29, offset := 12#32, rs := 9 },
               .bnez_ { rs := 29, label := "l2" }, .addi_ { rd := 17, rs := 0, imm := 8#32 }],
    labels := GoMap.ofList [("l2", 16#32)] }

/-- the unpipelined machine: `a7 = 1` -/
theorem tx_seq : obsSeq (Model.Seq.runMvp1 txApp ⟨ctx0 128, 0⟩ 10) 17 29 = (some .offEnd, 1#32, 0x11111111#32, m11) := by
  decide +kernel

/-- MVP-6.2, two units: `a7 = 1` (three instructions executed) -/
theorem tx_p2 : obs (Model.Mvp62.run txApp (ctx0 128) 2 2 1000) 17 29 =
    (some .offEnd, 937, 629, 3, 1, 1#32, 0x11111111#32, m11) := by
  decide +kernel

/-- MVP-6.2, three units: the run ends normally with `a7 = 0` (four instructions executed) -/
theorem tx_p3 : obs (Model.Mvp62.run txApp (ctx0 128) 3 3 1000) 17 29 =
    (some .offEnd, 937, 629, 4, 1, 0#32, 0x11111111#32, m11) := by
  decide +kernel

/-- MVP-6.1, three units, same program: `a7 = 8` -/
theorem tx61_p3 : obs (Model.Mvp61.run txApp (ctx0 128) 3 3 1000) 17 29 =
    (some .offEnd, 937, 629, 4, 1, 8#32, 0x11111111#32, m11) := by
  decide +kernel

/-! ### the shadow of a slow branch is rolled back (MVP-6.1's KF-ooo-shadow witness) -/

/-- three units: all three instructions are executed, as on MVP-6.1 — but `a4` stays 0 -/
theorem shadow62_p3 : obs (Model.Mvp62.run shadowApp (ctx0 128) 3 3 1000) 14 30 =
    (some .offEnd, 936, 628, 3, 1, 0#32, 0x11111111#32, m11) := by
  decide +kernel

/-! ### KF-ooo-2branch on its pinned variant -/

/-- two units: the run ends normally after 12 executed instructions with `s10 = 2` (MVP-1: four rounds, `s10 = 0`:
`Proofs.Mvp61Witness.two_seq`) -/
theorem two62_p2 : obs (Model.Mvp62.run twoApp (ctx0 256) 2 2 1500) 26 8 =
    (some .offEnd, 1045, 738, 12, 2, 2#32, 0x11111111#32, m11) := by
  decide +kernel

end Proofs.Mvp62Witness

/-
  Proofs/Mvp63Witness.lean — what the cycle-accurate model of MVP-6.3 (`Model.Mvp63`, tied to the Go machine on every
  generated case whose result does not depend on Go's map iteration order) computes on small programs: kernel evaluations
  (tick by tick), next to the unpipelined machine.  Memory is 64 … 256 bytes of `0x11`.

  * KF-ooo-rename (`ren_*`): a consumer is forwarded the value of the OLDER of two in-flight writers;
  * the same program behind one `nop`: the two writers are pushed in ONE cycle, the consumer's producer is chosen by map
    iteration order in Go — the model stops with `maporder` (`mo_p2`; 24 runs of the Go machine gave `t1 = 1` 19 times and
    `t1 = 2` 5 times);
  * KF-ooo-spec-error (`spec_*`), KF-ooo-2branch (`two63_p2`); the shadow of a slow branch is rolled back (`shadow63_p3`).
-/
import MajoranaVerif.Model.Mvp63
import MajoranaVerif.Proofs.Mvp61Witness
open GoInt

namespace Proofs.Mvp63Witness
open Proofs.Mvp61Witness (obs obsSeq obs_eq obsSeq_eq ctx0 m11 shadowApp twoApp)

-- `DecidableEq` of the eight-component tuple of `obs` needs more than the default 128 instance-synthesis steps
set_option synthInstance.maxSize 512

/-! ### KF-ooo-rename: the forwarded operand comes from the older of two in-flight writers

`li t0, 1; li t0, 2; mv t1, t0; ret`.  The second `li` has one hazard, write-after-write: `shouldUseRenaming` lets it
through.  The `mv` has one hazard, read-after-write on `t0`, and the first `li` was pushed in the previous cycle: it is
forwarded THAT `li`'s result.  `t1 = 1` with every number of units (MVP-1: `t1 = 2`). -/

def renApp : Model.Seq.App :=
  { instrs := [.li_ { rd := 5, imm := 1#32 }, .li_ { rd := 5, imm := 2#32 }, .mv_ { rd := 6, rs := 5 }, .ret_ {}],
    labels := {} }

theorem ren_seq : obsSeq (Model.Seq.runMvp1 renApp ⟨ctx0 64, 0⟩ 10) 5 6 = (some .ret, 2#32, 2#32, m11) := by
  decide +kernel

theorem ren_p1 : obs (Model.Mvp63.run renApp (ctx0 64) 1 1 1000) 5 6 = (some .ret, 318, 317, 4, 1, 2#32, 1#32, m11) := by
  decide +kernel

theorem ren_p2 : obs (Model.Mvp63.run renApp (ctx0 64) 2 2 1000) 5 6 = (some .ret, 317, 316, 4, 1, 2#32, 1#32, m11) := by
  decide +kernel

/-! ### … and behind a `nop` the choice is Go's map iteration order

`nop; li t0, 1; li t0, 2; mv t1, t0; ret` with two units: both `li` are pushed in the same cycle; the `mv` matches both
in `for previousRunner := range u.pushedRunnersInPreviousCycle`.  The model stops. -/

def moApp : Model.Seq.App :=
  { instrs := [.nop_ {}, .li_ { rd := 5, imm := 1#32 }, .li_ { rd := 5, imm := 2#32 }, .mv_ { rd := 6, rs := 5 }, .ret_ {}],
    labels := {} }

theorem mo_p2 : Model.Mvp63.isMapOrder (Model.Mvp63.run moApp (ctx0 64) 2 2 1000) = true ∧
    (Model.Mvp63.run moApp (ctx0 64) 2 2 1000).ticks = 314 := by
  decide +kernel

/-! ### KF-ooo-spec-error: a wrong-path instruction's error ends the run

`li s1, 0; lw t6, 64(s1); bnez t6, l2; j nowhere; l2:` (memory `0x11…`: the branch is taken, `nowhere` is not a label).
The unpipelined machine never executes the `j`.  With three units it runs in the shadow of the slow branch, its `Run`
returns the undefined-label error, and the run ends with it. -/

def specErrApp : Model.Seq.App :=
  { instrs := [.li_ { rd := 9, imm := 0#32 }, .lw_ { rd := 31, offset := 64#32, rs := 9 },
               .bnez_ { rs := 31, label := "l2" }, .j_ { label := "nowhere" }],
    labels := GoMap.ofList [("l2", 16#32)] }

theorem spec_seq : obsSeq (Model.Seq.runMvp1 specErrApp ⟨ctx0 128, 0⟩ 10) 9 31 = (some .offEnd, 0#32, 0x11111111#32, m11) := by
  decide +kernel

theorem spec_p2 : obs (Model.Mvp63.run specErrApp (ctx0 128) 2 2 1000) 9 31 =
    (some .offEnd, 937, 629, 3, 2, 0#32, 0x11111111#32, m11) := by
  decide +kernel

theorem spec_p3 : obs (Model.Mvp63.run specErrApp (ctx0 128) 3 3 1000) 9 31 = (some .err, 316, 316, 2, 2, 0#32, 0#32, m11) := by
  decide +kernel

/-! ### KF-ooo-2branch, and the rolled-back shadow -/

theorem two63_p2 : obs (Model.Mvp63.run twoApp (ctx0 256) 2 2 1500) 26 8 =
    (some .offEnd, 1045, 738, 12, 2, 2#32, 0x11111111#32, m11) := by
  decide +kernel

theorem shadow63_p3 : obs (Model.Mvp63.run shadowApp (ctx0 128) 3 3 1000) 14 30 =
    (some .offEnd, 936, 628, 3, 1, 0#32, 0x11111111#32, m11) := by
  decide +kernel

end Proofs.Mvp63Witness

/-
  Proofs/Mvp70.lean — facts about the cycle-accurate model of MVP-7.0 (`Model.Mvp70`): the lower bound of property C12
  (`run_executed_le`): at most one instruction per execute unit (core) is executed per tick, and the cycle counter is at
  least `executed / cores`.
-/
import MajoranaVerif.Model.Mvp70
import MajoranaVerif.Proofs.Mvp61
import MajoranaVerif.Proofs.Mvp63
open GoInt

namespace Proofs.Mvp70
open Model.Mvp70
open Model.Seq (App Halt)
open Model.Mvp60 (Event)
open Model.Mvp61 (EuOut EuAcc FlAcc ExecUnit Runner)

/-- what everything but the execution of an instruction leaves alone -/
structure Frame (s s' : State) : Prop where
  len : s'.base.eus.length = s.base.eus.length
  exe : s'.base.executed = s.base.executed
  cyc : s'.base.cycles = s.base.cycles

theorem Frame.refl (s : State) : Frame s s := ⟨rfl, rfl, rfl⟩
theorem Frame.trans {a b c : State} (h1 : Frame a b) (h2 : Frame b c) : Frame a c :=
  ⟨h2.len.trans h1.len, h2.exe.trans h1.exe, h2.cyc.trans h1.cyc⟩
theorem Frame.pre {a b c : State} (h2 : Frame b c) (h1 : Frame a b) : Frame a c := h1.trans h2

theorem getCC_ok {s : State} {i : Nat} {cc : CC} (_ : getCC s i = .ok cc) : True := trivial

theorem readL1Step_frame {s s' : State} {i : Nat} {a cycles : Int} {data : List Byte} {r : Option (List Byte)}
    (h : readL1Step s i a cycles data = .ok (s', r)) : Frame s s' := by
  unfold readL1Step at h
  simp only [bind, Except.bind, pure, Except.pure] at h
  repeat' split at h
  all_goals first | cases h | skip
  all_goals first | exact ⟨rfl, rfl, rfl⟩ | skip

theorem readL1Enter_frame {s s' : State} {i : Nat} {a : Int} {addrs : List Word} {post : Post} {r : Option (List Byte)}
    (h : readL1Enter s i a addrs post = .ok (s', r)) : Frame s s' := by
  unfold readL1Enter at h
  simp only [bind, Except.bind, pure, Except.pure] at h
  split at h
  · cases h
  · split at h
    · cases h
    · exact (readL1Step_frame h).pre ⟨rfl, rfl, rfl⟩

theorem readFetchStep_frame {s s' : State} {i : Nat} {a : Int} {addrs : List Word} {cycles lineAddr : Int}
    {data : List Byte} {post : Post} {r : Option (List Byte)}
    (h : readFetchStep s i a addrs cycles lineAddr data post = .ok (s', r)) : Frame s s' := by
  unfold readFetchStep at h
  simp only [bind, Except.bind, pure, Except.pure] at h
  split at h
  · cases h
  · split at h
    · cases h; exact ⟨rfl, rfl, rfl⟩
    · split at h
      · cases h
      · split at h
        · cases h; exact ⟨rfl, rfl, rfl⟩
        · exact (readL1Enter_frame h).pre ⟨rfl, rfl, rfl⟩

theorem readPendStep_frame {s s' : State} {i : Nat} {a : Int} {addrs : List Word} {fetch : Bool} {ps : List Nat}
    {post : Post} {r : Option (List Byte)}
    (h : readPendStep s i a addrs fetch ps post = .ok (s', r)) : Frame s s' := by
  unfold readPendStep at h
  simp only [bind, Except.bind, pure, Except.pure] at h
  split at h
  · cases h
  · split at h
    · cases h; exact ⟨rfl, rfl, rfl⟩
    · split at h
      · exact readL1Enter_frame h
      · split at h
        · cases h
        · split at h
          · cases h
          · split at h
            · cases h
            · split at h
              · cases h
              · exact readFetchStep_frame h

theorem ccRead_frame {s s' : State} {i : Nat} {addrs : List Word} {r : Option (List Byte)}
    (h : ccRead s i addrs = .ok (s', r)) : Frame s s' := by
  unfold ccRead at h
  simp only [bind, Except.bind, pure, Except.pure] at h
  split at h
  · cases h
  · split at h
    · cases h
    · split at h
      · split at h
        · cases h; exact ⟨rfl, rfl, rfl⟩
        · exact (readPendStep_frame h).pre ⟨rfl, rfl, rfl⟩
      · exact readPendStep_frame h
      · exact readFetchStep_frame h
      · split at h
        · split at h
          · cases h; exact Frame.refl _
          · exact readL1Enter_frame h
        · exact readL1Enter_frame h
      · exact readL1Step_frame h

theorem writeL1Step_frame {s s' : State} {i : Nat} {a : Int} {addrs : List Word} {data : List Byte} {cycles : Int} {r : Bool}
    (h : writeL1Step s i a addrs data cycles = .ok (s', r)) : Frame s s' := by
  unfold writeL1Step at h
  simp only [bind, Except.bind, pure, Except.pure] at h
  repeat' split at h
  all_goals first | cases h | skip
  all_goals first | exact ⟨rfl, rfl, rfl⟩ | skip

theorem writeL1Enter_frame {s s' : State} {i : Nat} {a : Int} {addrs : List Word} {data : List Byte} {post : Post} {r : Bool}
    (h : writeL1Enter s i a addrs data post = .ok (s', r)) : Frame s s' := by
  unfold writeL1Enter at h
  simp only [bind, Except.bind, pure, Except.pure] at h
  split at h
  · cases h
  · exact (writeL1Step_frame h).pre ⟨rfl, rfl, rfl⟩

theorem writeEvictStep_frame {s s' : State} {i : Nat} {a : Int} {addrs : List Word} {data : List Byte}
    {pending : Option Nat} {cycles : Int} {post : Post} {r : Bool}
    (h : writeEvictStep s i a addrs data pending cycles post = .ok (s', r)) : Frame s s' := by
  unfold writeEvictStep at h
  simp only [bind, Except.bind, pure, Except.pure] at h
  split at h
  · cases h
  · repeat' split at h
    all_goals first | exact writeL1Enter_frame h | (cases h; exact ⟨rfl, rfl, rfl⟩)

theorem writeFetchStep_frame {s s' : State} {i : Nat} {a : Int} {addrs : List Word} {data : List Byte}
    {cycles lineAddr : Int} {line : List Byte} {post : Post} {r : Bool}
    (h : writeFetchStep s i a addrs data cycles lineAddr line post = .ok (s', r)) : Frame s s' := by
  unfold writeFetchStep at h
  simp only [bind, Except.bind, pure, Except.pure] at h
  split at h
  · cases h
  · split at h
    · cases h; exact ⟨rfl, rfl, rfl⟩
    · split at h
      · cases h
      · split at h
        · cases h; exact ⟨rfl, rfl, rfl⟩
        · exact (writeL1Enter_frame h).pre ⟨rfl, rfl, rfl⟩

theorem writePendStep_frame {s s' : State} {i : Nat} {a : Int} {addrs : List Word} {data : List Byte} {fetch : Bool}
    {ps : List Nat} {post : Post} {r : Bool}
    (h : writePendStep s i a addrs data fetch ps post = .ok (s', r)) : Frame s s' := by
  unfold writePendStep at h
  simp only [bind, Except.bind, pure, Except.pure] at h
  split at h
  · cases h
  · split at h
    · cases h; exact ⟨rfl, rfl, rfl⟩
    · split at h
      · exact writeL1Enter_frame h
      · split at h
        · cases h
        · split at h
          · cases h
          · exact writeFetchStep_frame h

theorem ccWrite_frame {s s' : State} {i : Nat} {addrs : List Word} {data : List Byte} {r : Bool}
    (h : ccWrite s i addrs data = .ok (s', r)) : Frame s s' := by
  unfold ccWrite at h
  simp only [bind, Except.bind, pure, Except.pure] at h
  split at h
  · cases h
  · split at h
    · cases h
    · split at h
      · split at h
        · cases h; exact ⟨rfl, rfl, rfl⟩
        · exact (writePendStep_frame h).pre ⟨rfl, rfl, rfl⟩
      · exact writePendStep_frame h
      · exact writeFetchStep_frame h
      · exact writeEvictStep_frame h
      · exact writeL1Step_frame h

/-! ### MVP-8.0's cache controller -/

theorem inL3_frame {s : State} {addrs : List Word} {v : Bool × State} (h : inL3 s addrs = .ok v) : Frame s v.2 := by
  unfold inL3 at h
  simp only [bind, Except.bind, pure, Except.pure] at h
  repeat' split at h
  all_goals first | cases h | skip
  all_goals first | exact ⟨rfl, rfl, rfl⟩ | skip

theorem pushLineToL3_frame {s : State} {a : Int} {line : List Byte} {v : Option LineCache.Line × State}
    (h : pushLineToL3 s a line = .ok v) : Frame s v.2 := by
  unfold pushLineToL3 at h
  simp only [bind, Except.bind, pure, Except.pure] at h
  repeat' split at h
  all_goals first | cases h | skip
  all_goals first | exact ⟨rfl, rfl, rfl⟩ | skip

theorem writeToL3_frame {s s' : State} {a : Int} {data : List Byte} (h : writeToL3 s a data = .ok s') : Frame s s' := by
  unfold writeToL3 at h
  simp only [bind, Except.bind, pure, Except.pure] at h
  repeat' split at h
  all_goals first | cases h | skip
  all_goals first | exact ⟨rfl, rfl, rfl⟩ | skip

set_option hygiene false in
/-- the shape of all the step functions of the two coroutines: unfold, split everything, close every leaf by `rfl`, by a
lemma about the step it ends in, or by such a lemma behind `inL3` / `pushLineToL3` -/
macro "cc80" "[" ls:term,* "]" : tactic => do
  let mut acc ← `(tactic| first
      | exact ⟨rfl, rfl, rfl⟩
      | (refine (inL3_frame ?_).trans ⟨rfl, rfl, rfl⟩; assumption)
      | (refine (pushLineToL3_frame ?_).trans ⟨rfl, rfl, rfl⟩; assumption)
      | (refine (writeToL3_frame ?_).trans ⟨rfl, rfl, rfl⟩; assumption)
      | (refine ((writeToL3_frame ?_).trans ⟨rfl, rfl, rfl⟩).pre ⟨rfl, rfl, rfl⟩; assumption))
  for l in ls.getElems do
    acc ← `(tactic| first
      | ($acc:tactic)
      | exact (($l) h).pre ⟨rfl, rfl, rfl⟩
      | (refine (($l) h).pre ((inL3_frame ?_).trans ⟨rfl, rfl, rfl⟩); assumption)
      | (refine (($l) h).pre ((pushLineToL3_frame ?_).trans ⟨rfl, rfl, rfl⟩); assumption)
      | (refine (($l) h).pre (inL3_frame ?_); assumption)
      | (refine (($l) h).pre (pushLineToL3_frame ?_); assumption))
  `(tactic| (
    simp only [bind, Except.bind, pure, Except.pure] at h
    repeat' split at h
    all_goals first | cases h | skip
    all_goals ($acc:tactic)))

theorem r80L1Step_frame {s s' : State} {i : Nat} {a c : Int} {data : List Byte} {r : Option (List Byte)}
    (h : r80L1Step s i a c data = .ok (s', r)) : Frame s s' := by
  unfold r80L1Step at h
  cc80 []

theorem r80FromL1_frame {s s' : State} {i : Nat} {a : Int} {addrs : List Word} {r : Option (List Byte)}
    (h : r80FromL1 s i a addrs = .ok (s', r)) : Frame s s' := by
  unfold r80FromL1 at h
  cc80 [r80L1Step_frame]

theorem r80Sync_frame {s s' : State} {i : Nat} {a : Int} {addrs : List Word} {r : Option (List Byte)}
    (h : r80Sync s i a addrs = .ok (s', r)) : Frame s s' := by
  unfold r80Sync at h
  cc80 [r80FromL1_frame]

theorem r80Fill_frame {s s' : State} {i : Nat} {a : Int} {addrs : List Word} {c : Int} {r : Option (List Byte)}
    (h : r80Fill s i a addrs c = .ok (s', r)) : Frame s s' := by
  unfold r80Fill at h
  simp only [bind, Except.bind, pure, Except.pure] at h
  split at h
  · cases h
  · split at h
    · cases h; exact ⟨rfl, rfl, rfl⟩
    · split at h
      · cases h
      · split at h
        · cases h
        · split at h
          · cases h
          · rename_i v hv
            have f := pushLineToL3_frame hv
            repeat' split at h
            all_goals exact (r80Sync_frame h).pre (f.trans ⟨rfl, rfl, rfl⟩)

theorem r80Lock_frame {s s' : State} {i : Nat} {a : Int} {addrs : List Word} {r : Option (List Byte)}
    (h : r80Lock s i a addrs = .ok (s', r)) : Frame s s' := by
  unfold r80Lock l3AlignOf at h
  cc80 [r80Fill_frame]

theorem r80Mem_frame {s s' : State} {i : Nat} {a : Int} {addrs : List Word} {c : Int} {r : Option (List Byte)}
    (h : r80Mem s i a addrs c = .ok (s', r)) : Frame s s' := by
  unfold r80Mem at h
  cc80 [r80Lock_frame]

theorem r80L3_frame {s s' : State} {i : Nat} {a : Int} {addrs : List Word} {c : Int} {r : Option (List Byte)}
    (h : r80L3 s i a addrs c = .ok (s', r)) : Frame s s' := by
  unfold r80L3 at h
  simp only [bind, Except.bind, pure, Except.pure] at h
  split at h
  · cases h
  · split at h
    · cases h; exact ⟨rfl, rfl, rfl⟩
    · split at h
      · cases h
      · rename_i v hv
        have f := inL3_frame hv
        split at h
        · exact (r80Sync_frame h).pre f
        · exact (r80Mem_frame h).pre f

theorem r80Pend_frame {s s' : State} {i : Nat} {a : Int} {addrs : List Word} {nf : Bool} {ps : List Nat}
    {r : Option (List Byte)} (h : r80Pend s i a addrs nf ps = .ok (s', r)) : Frame s s' := by
  unfold r80Pend at h
  cc80 [r80FromL1_frame, r80L3_frame]

theorem ccRead80_frame {s s' : State} {i : Nat} {addrs : List Word} {r : Option (List Byte)}
    (h : ccRead80 s i addrs = .ok (s', r)) : Frame s s' := by
  unfold ccRead80 at h
  cc80 [r80Pend_frame, r80L3_frame, r80Mem_frame, r80Lock_frame, r80Fill_frame, r80FromL1_frame, r80L1Step_frame]

theorem w80L1Step_frame {s s' : State} {i : Nat} {a : Int} {addrs : List Word} {data : List Byte} {c : Int} {r : Bool}
    (h : w80L1Step s i a addrs data c = .ok (s', r)) : Frame s s' := by
  unfold w80L1Step at h
  cc80 []

theorem w80ToL1_frame {s s' : State} {i : Nat} {a : Int} {addrs : List Word} {data : List Byte} {r : Bool}
    (h : w80ToL1 s i a addrs data = .ok (s', r)) : Frame s s' := w80L1Step_frame h

theorem w80AfterL1_frame {s s' : State} {i : Nat} {a : Int} {addrs : List Word} {data : List Byte} {c : Int} {r : Bool}
    (h : w80AfterL1 s i a addrs data c = .ok (s', r)) : Frame s s' := by
  unfold w80AfterL1 at h
  cc80 [w80ToL1_frame]

theorem w80PushL1_frame {s s' : State} {i : Nat} {a : Int} {addrs : List Word} {data : List Byte} {l1Addr : Int}
    {l1Data : List Byte} {r : Bool} (h : w80PushL1 s i a addrs data l1Addr l1Data = .ok (s', r)) : Frame s s' := by
  unfold w80PushL1 at h
  cc80 [w80ToL1_frame]

theorem w80Sync_frame {s s' : State} {i : Nat} {a : Int} {addrs : List Word} {data : List Byte} {r : Bool}
    (h : w80Sync s i a addrs data = .ok (s', r)) : Frame s s' := by
  unfold w80Sync at h
  cc80 [w80PushL1_frame]

theorem w80Fetch_frame {s s' : State} {i : Nat} {a : Int} {addrs : List Word} {data : List Byte} {r : Bool}
    (h : w80Fetch s i a addrs data = .ok (s', r)) : Frame s s' := by
  unfold w80Fetch l3AlignOf at h
  simp only [bind, Except.bind, pure, Except.pure] at h
  split at h
  · cases h
  · split at h
    · cases h
    · split at h
      · cases h; exact ⟨rfl, rfl, rfl⟩
      · split at h
        · cases h
        · split at h
          · cases h
          · split at h
            · cases h
            · rename_i v hv
              have f := pushLineToL3_frame hv
              split at h
              · split at h
                · cases h
                · cases h; exact f.trans ⟨rfl, rfl, rfl⟩
              · exact (w80Sync_frame h).pre f

theorem w80L3_frame {s s' : State} {i : Nat} {a : Int} {addrs : List Word} {data : List Byte} {c : Int} {r : Bool}
    (h : w80L3 s i a addrs data c = .ok (s', r)) : Frame s s' := by
  unfold w80L3 at h
  cc80 [w80Fetch_frame]

theorem w80Mem_frame {s s' : State} {i : Nat} {a : Int} {addrs : List Word} {data : List Byte} {c : Int} {r : Bool}
    (h : w80Mem s i a addrs data c = .ok (s', r)) : Frame s s' := by
  unfold w80Mem at h
  cc80 [w80L3_frame]

theorem w80L1Push_frame {s s' : State} {i : Nat} {a : Int} {addrs : List Word} {data : List Byte} {c : Int} {l1Addr : Int}
    {l1Data : List Byte} {r : Bool} (h : w80L1Push s i a addrs data c l1Addr l1Data = .ok (s', r)) : Frame s s' := by
  unfold w80L1Push at h
  cc80 [w80PushL1_frame]

theorem w80Pend_frame {s s' : State} {i : Nat} {a : Int} {addrs : List Word} {data : List Byte} {nf : Bool} {ps : List Nat}
    {r : Bool} (h : w80Pend s i a addrs data nf ps = .ok (s', r)) : Frame s s' := by
  unfold w80Pend at h
  simp only [bind, Except.bind, pure, Except.pure] at h
  split at h
  · cases h
  · split at h
    · cases h; exact ⟨rfl, rfl, rfl⟩
    · split at h
      · exact w80ToL1_frame h
      · split at h
        · cases h
        · rename_i v hv
          have f := inL3_frame hv
          split at h
          · split at h
            · cases h
            · split at h
              · cases h
              · exact (w80L1Push_frame h).pre f
          · exact (w80Mem_frame h).pre f

theorem ccWrite80_frame {s s' : State} {i : Nat} {addrs : List Word} {data : List Byte} {r : Bool}
    (h : ccWrite80 s i addrs data = .ok (s', r)) : Frame s s' := by
  unfold ccWrite80 at h
  cc80 [w80Pend_frame, w80L1Push_frame, w80AfterL1_frame, w80Mem_frame, w80L3_frame, w80Sync_frame, w80L1Step_frame]

theorem ccReadD_frame {s s' : State} {i : Nat} {addrs : List Word} {r : Option (List Byte)}
    (h : ccReadD s i addrs = .ok (s', r)) : Frame s s' := by
  unfold ccReadD at h
  split at h
  · exact ccRead80_frame h
  · exact ccRead_frame h

theorem ccWriteD_frame {s s' : State} {i : Nat} {addrs : List Word} {data : List Byte} {r : Bool}
    (h : ccWriteD s i addrs data = .ok (s', r)) : Frame s s' := by
  unfold ccWriteD at h
  split at h
  · exact ccWrite80_frame h
  · exact ccWrite_frame h

theorem snoopJob_frame {s s' : State} {i : Nat} {j : SnoopJob} {r : Option SnoopJob}
    (h : snoopJob s i j = .ok (s', r)) : Frame s s' := by
  unfold snoopJob at h
  simp only [bind, Except.bind, pure, Except.pure] at h
  repeat' split at h
  all_goals first | cases h | skip
  all_goals first
    | exact ⟨rfl, rfl, rfl⟩
    | (have hw := ‹writeToL3 _ _ _ = Except.ok _›; have f := writeToL3_frame hw; exact ⟨f.len, f.exe, f.cyc⟩)

theorem snoopJobs_frame (i : Nat) : ∀ (js : List SnoopJob) (s s' : State) (keep keep' : List SnoopJob),
    snoopJobs i js s keep = .ok (s', keep') → Frame s s' := by
  intro js
  induction js with
  | nil =>
    intro s s' keep keep' h
    simp only [snoopJobs, pure, Except.pure, Except.ok.injEq, Prod.mk.injEq] at h
    obtain ⟨rfl, _⟩ := h
    exact Frame.refl _
  | cons j js ih =>
    intro s s' keep keep' h
    simp only [snoopJobs, bind, Except.bind] at h
    split at h
    · cases h
    · rename_i v hv
      obtain ⟨s1, r⟩ := v
      exact (snoopJob_frame hv).trans (ih _ _ _ _ h)

theorem snoopCycle_frame {s s' : State} {i : Nat} (h : snoopCycle s i = .ok s') : Frame s s' := by
  unfold snoopCycle at h
  simp only [bind, Except.bind, pure, Except.pure] at h
  split at h
  · cases h
  · split at h
    · cases h
    · rename_i v hv
      obtain ⟨s1, keep⟩ := v
      have f1 := snoopJobs_frame _ _ _ _ _ _ hv
      simp only at h
      repeat' split at h
      all_goals first | cases h | skip
      all_goals first | exact f1.trans ⟨rfl, rfl, rfl⟩ | skip

theorem foldlM_frame {α : Type} (f : State → α → M State) (hf : ∀ s a s', f s a = .ok s' → Frame s s') :
    ∀ (l : List α) (s s' : State), l.foldlM f s = .ok s' → Frame s s' := by
  intro l
  induction l with
  | nil => intro s s' h; simp only [List.foldlM, pure, Except.pure, Except.ok.injEq] at h; subst h; exact Frame.refl s
  | cons a l ih =>
    intro s s' h
    simp only [List.foldlM, bind, Except.bind] at h
    split at h
    · cases h
    · rename_i s1 h1
      exact (hf _ _ _ h1).trans (ih s1 s' h)

theorem snoopAll_frame {s s' : State} (h : snoopAll s = .ok s') : Frame s s' :=
  foldlM_frame _ (fun _ _ _ h => snoopCycle_frame h) _ _ _ h

theorem ccFlush_frame {s s' : State} {i : Nat} (h : ccFlush s i = .ok s') : Frame s s' := by
  unfold ccFlush at h
  simp only [bind, Except.bind, pure, Except.pure] at h
  repeat' split at h
  all_goals first | cases h | skip
  all_goals first | exact ⟨rfl, rfl, rfl⟩ | skip

/-- what one call of an execute unit does -/
structure EuFrame (s s' : State) : Prop where
  len : s'.base.eus.length = s.base.eus.length
  lo : s.base.executed ≤ s'.base.executed
  hi : s'.base.executed ≤ s.base.executed + 1
  cyc : s'.base.cycles = s.base.cycles

theorem EuFrame.of_frame {s s' : State} (h : Frame s s') : EuFrame s s' :=
  ⟨h.len, by rw [h.exe]; exact Nat.le_refl _, by rw [h.exe]; exact Nat.le_succ _, h.cyc⟩

theorem EuFrame.pre {a b c : State} (h2 : EuFrame b c) (h1 : Frame a b) : EuFrame a c :=
  ⟨h2.len.trans h1.len, by rw [← h1.exe]; exact h2.lo, by rw [← h1.exe]; exact h2.hi, h2.cyc.trans h1.cyc⟩

theorem EuFrame.post {a b c : State} (h1 : EuFrame a b) (h2 : Frame b c) : EuFrame a c :=
  ⟨h2.len.trans h1.len, by rw [h2.exe]; exact h1.lo, by rw [h2.exe]; exact h1.hi, h2.cyc.trans h1.cyc⟩

theorem setEuB_frame (s : State) (i : Nat) (eu : ExecUnit) : Frame s (setEuB s i eu) :=
  ⟨by simp only [setEuB, Model.Mvp61.setEu, List.length_set], rfl, rfl⟩

theorem setCo_frame (s : State) (i : Nat) (c : Co) : Frame s (setCo s i c) := ⟨rfl, rfl, rfl⟩

/-- lifting a fact about `Model.Mvp61`'s `euRun` on `base` -/
theorem euRun_base {app : App} {s : State} {i : Nat} {eu : ExecUnit} {r : Runner} {c : Int} {b : Model.Mvp61.State}
    {out : EuOut} (h : Model.Mvp61.euRun app s.base i eu r c = .ok (b, out)) : EuFrame s { s with base := b } := by
  have f := Proofs.Mvp61.euRun_frame h
  exact ⟨f.len, f.lo, f.hi, f.cyc⟩

theorem euRun70_frame {app : App} {s s' : State} {i : Nat} {eu : ExecUnit} {r : Runner} {c : Int} {out : EuOut}
    (h : euRun70 app s i eu r c = .ok (s', out)) : EuFrame s s' := by
  unfold euRun70 at h
  simp only [bind, Except.bind, pure, Except.pure] at h
  split at h
  · split at h
    · split at h
      · cases h
      · rename_i v hv
        obtain ⟨s1, done⟩ := v
        have f1 := ccWriteD_frame hv
        simp only [Except.ok.injEq, Prod.mk.injEq] at h
        obtain ⟨rfl, _⟩ := h
        have f2 : Frame s1 (if done = true then setCo s1 i Co.start else s1) := by split <;> exact ⟨rfl, rfl, rfl⟩
        have f12 := f1.trans f2
        refine ⟨?_, ?_, ?_, ?_⟩
        · rw [f12.len]; simp only [setEuB, setCo, Model.Mvp61.setEu, List.length_set]
        · rw [f12.exe]; exact Nat.le_succ _
        · rw [f12.exe]; exact Nat.le_refl _
        · rw [f12.cyc]; rfl
    · split at h
      · cases h
      · rename_i v hv
        obtain ⟨b, out'⟩ := v
        cases h
        exact (euRun_base (s := setCo s i .start) hv).pre (setCo_frame s i .start)
  · split at h
    · cases h
    · rename_i v hv
      obtain ⟨b, out'⟩ := v
      cases h
      exact (euRun_base (s := setCo s i .start) hv).pre (setCo_frame s i .start)

theorem euReadPoll_frame {app : App} {s s' : State} {i : Nat} {eu : ExecUnit} {r : Runner} {addrs : List Word} {c : Int}
    {out : EuOut} (h : euReadPoll app s i eu r addrs c = .ok (s', out)) : EuFrame s s' := by
  unfold euReadPoll at h
  simp only [bind, Except.bind, pure, Except.pure] at h
  split at h
  · cases h
  · rename_i v hv
    obtain ⟨s1, d⟩ := v
    have f1 := ccReadD_frame hv
    simp only at h
    split at h
    · cases h; exact EuFrame.of_frame f1
    · exact (euRun70_frame h).pre (f1.trans (setEuB_frame _ _ _))

theorem euPrepare70_frame {app : App} {s s' : State} {i : Nat} {eu : ExecUnit} {r : Runner} {c : Int} {out : EuOut}
    (h : euPrepare70 app s i eu r c = .ok (s', out)) : EuFrame s s' := by
  unfold euPrepare70 at h
  simp only [pure, Except.pure] at h
  split at h
  · cases h; exact EuFrame.of_frame (setEuB_frame _ _ _)
  · split at h
    · cases h; exact EuFrame.of_frame (setEuB_frame _ _ _)
    · rename_i b eu' r' hr
      have fr := Proofs.Mvp61.euReceive_frame hr
      have fb := Proofs.Mvp61.buAssert_frame b r'
      have f0 : Frame s (setEuB { s with base := Model.Mvp61.buAssert b r' } i eu') :=
        Frame.trans ⟨fb.len.trans fr.len, fb.exe.trans fr.exe, fb.cyc.trans fr.cyc⟩ (setEuB_frame _ _ _)
      repeat' split at h
      all_goals first
        | exact (euReadPoll_frame h).pre (f0.trans (setCo_frame _ _ _))
        | exact (euRun70_frame h).pre f0

theorem euCycle70_frame {app : App} {s s' : State} {i : Nat} {c : Int} {out : EuOut}
    (h : euCycle70 app s i c = .ok (s', out)) : EuFrame s s' := by
  unfold euCycle70 at h
  simp only [bind, Except.bind, pure, Except.pure] at h
  split at h
  · cases h
  · split at h
    · split at h
      · cases h
      · split at h
        · cases h
        · rename_i s1 h1
          cases h
          exact EuFrame.of_frame (((setEuB_frame _ _ _).trans (setCo_frame _ _ _)).trans (ccFlush_frame h1))
    · split at h
      · repeat' split at h
        all_goals first
          | (cases h; exact EuFrame.of_frame ⟨rfl, rfl, rfl⟩)
          | exact (euPrepare70_frame h).pre ⟨rfl, rfl, rfl⟩
      · split at h
        · cases h
        · exact euPrepare70_frame h
      · split at h
        · cases h
        · exact euReadPoll_frame h
      · split at h
        · cases h
        · rename_i v hv
          obtain ⟨s1, done⟩ := v
          have f1 := ccWriteD_frame hv
          simp only [Except.ok.injEq, Prod.mk.injEq] at h
          obtain ⟨rfl, _⟩ := h
          have f2 : Frame s1 (if done = true then setCo s1 i Co.start else s1) := by split <;> exact ⟨rfl, rfl, rfl⟩
          exact EuFrame.of_frame (f1.trans f2)

/-- the loops over the execute units: `n` units cycle, at most `n` instructions run -/
def Loop (n : Nat) (s s' : State) : Prop :=
  s'.base.eus.length = s.base.eus.length ∧ s.base.executed ≤ s'.base.executed ∧
  s'.base.executed ≤ s.base.executed + n ∧ s'.base.cycles = s.base.cycles

theorem Loop.refl (n : Nat) (s : State) : Loop n s s := ⟨rfl, Nat.le_refl _, Nat.le_add_right _ _, rfl⟩
theorem Loop.step {n : Nat} {a b c : State} (f1 : EuFrame a b) (f2 : Loop n b c) : Loop (n + 1) a c :=
  ⟨f2.1.trans f1.len, Nat.le_trans f1.lo f2.2.1, by have := f1.hi; have := f2.2.2.1; omega, f2.2.2.2.trans f1.cyc⟩
theorem Loop.last {n : Nat} {a b : State} (f1 : EuFrame a b) : Loop (n + 1) a b :=
  ⟨f1.len, f1.lo, by have := f1.hi; omega, f1.cyc⟩
theorem Loop.skip {n : Nat} {a b : State} (f2 : Loop n a b) : Loop (n + 1) a b :=
  ⟨f2.1, f2.2.1, by have := f2.2.2.1; omega, f2.2.2.2⟩

theorem eusCycle70_frame {app : App} : ∀ (n i : Nat) (s s' : State) (acc acc' : EuAcc),
    eusCycle70 app n i s acc = .ok (s', acc') → Loop n s s' := by
  intro n
  induction n with
  | zero =>
    intro i s s' acc acc' h
    simp only [eusCycle70, pure, Except.pure, Except.ok.injEq, Prod.mk.injEq] at h
    obtain ⟨rfl, _⟩ := h
    exact Loop.refl _ _
  | succ n ih =>
    intro i s s' acc acc' h
    simp only [eusCycle70, bind, Except.bind] at h
    split at h
    · simp only [pure, Except.pure, Except.ok.injEq, Prod.mk.injEq] at h
      obtain ⟨rfl, _⟩ := h
      exact Loop.refl _ _
    · split at h
      · cases h
      · rename_i v hv
        obtain ⟨s1, out⟩ := v
        have f1 := (euCycle70_frame hv).pre (setEuB_frame s i _)
        simp only at h
        split at h
        · simp only [pure, Except.pure, Except.ok.injEq, Prod.mk.injEq] at h
          obtain ⟨rfl, _⟩ := h
          exact Loop.last f1
        all_goals exact Loop.step f1 (ih _ _ _ _ _ h)

theorem eusCycleBusy70_frame {app : App} : ∀ (n i : Nat) (s s' : State) (e : Bool),
    eusCycleBusy70 app n i s = .ok (s', e) → Loop n s s' := by
  intro n
  induction n with
  | zero =>
    intro i s s' e h
    simp only [eusCycleBusy70, pure, Except.pure, Except.ok.injEq, Prod.mk.injEq] at h
    obtain ⟨rfl, _⟩ := h
    exact Loop.refl _ _
  | succ n ih =>
    intro i s s' e h
    simp only [eusCycleBusy70, bind, Except.bind] at h
    split at h
    · simp only [pure, Except.pure, Except.ok.injEq, Prod.mk.injEq] at h
      obtain ⟨rfl, _⟩ := h
      exact Loop.refl _ _
    · split at h
      · exact Loop.skip (ih _ _ _ _ h)
      · split at h
        · cases h
        · rename_i v hv
          obtain ⟨s1, out⟩ := v
          have f1 := euCycle70_frame hv
          simp only at h
          split at h
          · simp only [pure, Except.pure, Except.ok.injEq, Prod.mk.injEq] at h
            obtain ⟨rfl, _⟩ := h
            exact Loop.last f1
          · exact Loop.step f1 (ih _ _ _ _ h)

theorem eusCycleFlush70_frame {app : App} (fc : Int) : ∀ (n i : Nat) (s s' : State) (acc acc' : FlAcc),
    eusCycleFlush70 app fc n i s acc = .ok (s', acc') → Loop n s s' := by
  intro n
  induction n with
  | zero =>
    intro i s s' acc acc' h
    simp only [eusCycleFlush70, pure, Except.pure, Except.ok.injEq, Prod.mk.injEq] at h
    obtain ⟨rfl, _⟩ := h
    exact Loop.refl _ _
  | succ n ih =>
    intro i s s' acc acc' h
    simp only [eusCycleFlush70, bind, Except.bind] at h
    split at h
    · simp only [pure, Except.pure, Except.ok.injEq, Prod.mk.injEq] at h
      obtain ⟨rfl, _⟩ := h
      exact Loop.refl _ _
    · split at h
      · exact Loop.skip (ih _ _ _ _ _ h)
      · split at h
        · cases h
        · rename_i v hv
          obtain ⟨s1, out⟩ := v
          have f1 := euCycle70_frame hv
          simp only at h
          split at h
          · simp only [pure, Except.pure, Except.ok.injEq, Prod.mk.injEq] at h
            obtain ⟨rfl, _⟩ := h
            exact Loop.last f1
          all_goals exact Loop.step f1 (ih _ _ _ _ _ h)

theorem eusCycleDrain_frame {app : App} : ∀ (n i : Nat) (s s' : State) (b b' : Bool),
    eusCycleDrain app n i s b = .ok (s', b') → Loop n s s' := by
  intro n
  induction n with
  | zero =>
    intro i s s' b b' h
    simp only [eusCycleDrain, pure, Except.pure, Except.ok.injEq, Prod.mk.injEq] at h
    obtain ⟨rfl, _⟩ := h
    exact Loop.refl _ _
  | succ n ih =>
    intro i s s' b b' h
    simp only [eusCycleDrain] at h
    split at h
    · simp only [pure, Except.pure, Except.ok.injEq, Prod.mk.injEq] at h
      obtain ⟨rfl, _⟩ := h
      exact Loop.refl _ _
    · have key : ∀ c : Bool, (if c = true then eusCycleDrain app n (i + 1) s b
          else match euCycle70 app s i s.base.cycles with
            | Except.ok (s, _) => eusCycleDrain app n (i + 1) s true
            | Except.error e => throw e) = .ok (s', b') → Loop (n + 1) s s' := by
        intro c hc
        split at hc
        · exact Loop.skip (ih _ _ _ _ _ hc)
        · split at hc
          · rename_i s1 o hv
            exact Loop.step (euCycle70_frame hv) (ih _ _ _ _ _ hc)
          · cases hc
      split at h
      · exact key _ h
      · exact key _ h

/-- what the control flow after the units does: the execute units and the count stay, the cycle counter does not go back -/
structure Tail (s s' : State) : Prop where
  len : s'.base.eus.length = s.base.eus.length
  exe : s'.base.executed = s.base.executed
  cyc : s.base.cycles ≤ s'.base.cycles

theorem Tail.of_frame {s s' : State} (h : Frame s s') : Tail s s' := ⟨h.len, h.exe, by rw [h.cyc]; exact Int.le_refl _⟩

theorem foldlM_le {α β : Type} (f : β → α → M β) (m : β → Int) (hf : ∀ b a b', f b a = .ok b' → m b ≤ m b') :
    ∀ (l : List α) (b b' : β), l.foldlM f b = .ok b' → m b ≤ m b' := by
  intro l
  induction l with
  | nil => intro b b' h; simp only [List.foldlM, pure, Except.pure, Except.ok.injEq] at h; subst h; exact Int.le_refl _
  | cons a l ih =>
    intro b b' h
    simp only [List.foldlM, bind, Except.bind] at h
    split at h
    · cases h
    · rename_i b1 h1
      exact Int.le_trans (hf _ _ _ h1) (ih b1 b' h)

theorem finish70_tail {s s' : State} {h : Halt} {ev : Event} (hf : finish70 s h = .ok (s', ev)) : Tail s s' := by
  unfold finish70 at hf
  simp only [bind, Except.bind, pure, Except.pure] at hf
  split at hf
  · cases hf
  · rename_i v hv
    obtain ⟨mem, extra⟩ := v
    simp only [Except.ok.injEq, Prod.mk.injEq] at hf
    obtain ⟨rfl, _⟩ := hf
    have h309 : (0 : Int) ≤ Gen.Latency.MemoryAccess := by decide
    have hex : (0 : Int) ≤ extra := by
      refine foldlM_le _ (fun (acc : List Byte × Int) => acc.2) ?_ _ _ _ hv
      intro acc i acc' hi
      split at hi
      · cases hi
      · rename_i cc _
        refine foldlM_le _ (fun (acc : List Byte × Int) => acc.2) ?_ _ _ _ hi
        intro a l a' hl
        split at hl
        · cases hl; exact Int.le_refl _
        · split at hl
          · cases hl
          · cases hl
            show a.2 ≤ a.2 + Gen.Latency.MemoryAccess
            omega
    refine ⟨rfl, rfl, ?_⟩
    show s.base.cycles ≤ s.base.cycles + extra
    omega

theorem foldlM_inv {α β : Type} (f : β → α → M β) (P : β → Prop) (hf : ∀ b a b', P b → f b a = .ok b' → P b') :
    ∀ (l : List α) (b b' : β), P b → l.foldlM f b = .ok b' → P b' := by
  intro l
  induction l with
  | nil => intro b b' hb h; simp only [List.foldlM, pure, Except.pure, Except.ok.injEq] at h; subst h; exact hb
  | cons a l ih =>
    intro b b' hb h
    simp only [List.foldlM, bind, Except.bind] at h
    split at h
    · cases h
    · rename_i b1 h1
      exact ih b1 b' (hf _ _ _ hb h1) h

theorem finish80_tail {s s' : State} {h : Halt} {ev : Event} (hf : finish80 s h = .ok (s', ev)) : Tail s s' := by
  unfold finish80 at hf
  simp only [bind, Except.bind, pure, Except.pure] at hf
  have h309 : (0 : Int) ≤ Gen.Latency.MemoryAccess := by decide
  have h50 : (0 : Int) ≤ Gen.Latency.L3Access := by decide
  split at hf
  · cases hf
  · rename_i v hv
    obtain ⟨s1, extra1⟩ := v
    have inv1 : Frame s s1 ∧ (0 : Int) ≤ extra1 := by
      refine foldlM_inv _ (fun (acc : State × Int) => Frame s acc.1 ∧ (0 : Int) ≤ acc.2) ?_ _ _ _ ⟨Frame.refl s, Int.le_refl _⟩ hv
      intro acc i acc' hacc hi
      split at hi
      · cases hi
      · refine foldlM_inv _ (fun (acc : State × Int) => Frame s acc.1 ∧ (0 : Int) ≤ acc.2) ?_ _ _ _ hacc hi
        intro a l a' ha hl
        repeat' split at hl
        all_goals first | cases hl | skip
        all_goals first | exact ha | skip
        all_goals refine ⟨ha.1.trans ?_, ?_⟩
        all_goals first
          | (have hw := ‹writeToL3 _ _ _ = Except.ok _›; have f := writeToL3_frame hw; exact ⟨f.len, f.exe, f.cyc⟩)
          | exact ⟨rfl, rfl, rfl⟩
          | exact Int.add_nonneg ha.2 h50
          | exact Int.add_nonneg ha.2 h309
    simp only at hf
    split at hf
    · cases hf
    · rename_i w hw
      obtain ⟨mem, extra⟩ := w
      have hex : (0 : Int) ≤ extra := by
        refine foldlM_inv _ (fun (acc : List Byte × Int) => (0 : Int) ≤ acc.2) ?_ _ _ _ inv1.2 hw
        intro a l a' ha hl
        repeat' split at hl
        all_goals first | cases hl | skip
        all_goals (show (0 : Int) ≤ a.2 + Gen.Latency.MemoryAccess; omega)
      simp only [Except.ok.injEq, Prod.mk.injEq] at hf
      obtain ⟨rfl, _⟩ := hf
      exact ⟨inv1.1.len, inv1.1.exe, by show s.base.cycles ≤ s1.base.cycles + extra; rw [inv1.1.cyc]; omega⟩

theorem goRetB70_tail (s : State) : Tail s (goRetB70 s).1 := by
  unfold goRetB70
  split <;> exact ⟨rfl, rfl, Int.le_refl _⟩

theorem goRetB70_tail' {s0 s : State} (h : Tail s0 s) : Tail s0 (goRetB70 s).1 :=
  ⟨(goRetB70_tail s).len.trans h.len, (goRetB70_tail s).exe.trans h.exe, Int.le_trans h.cyc (goRetB70_tail s).cyc⟩

theorem goRetA70_tail (s : State) : Tail s (goRetA70 s).1 := by
  unfold goRetA70
  split
  · exact ⟨rfl, rfl, Int.le_refl _⟩
  · exact goRetB70_tail' ⟨rfl, rfl, by show s.base.cycles ≤ s.base.cycles + 1; omega⟩

theorem flushAll70_frame {s s' : State} {pc : Word} (h : flushAll70 s pc = .ok s') :
    s'.base.eus.length = s.base.eus.length ∧ s'.base.executed = s.base.executed ∧ s'.base.cycles = s.base.cycles := by
  unfold flushAll70 at h
  simp only [bind, Except.bind, pure, Except.pure] at h
  split at h
  · cases h
  · rename_i s1 h1
    have f1 := foldlM_frame _ (fun _ _ _ h => ccFlush_frame h) _ _ _ h1
    cases h
    exact ⟨by rw [Proofs.Mvp61.flushAll_len]; exact f1.len, f1.exe, f1.cyc⟩

theorem goFlushW70_tail (seq pc : Word) (fc : Int) (e : Bool) : ∀ (n i : Nat) (s s' : State) (ev : Event),
    goFlushW70 s seq pc fc e n i = .ok (s', ev) → Tail s s' := by
  have hF : (0 : Int) ≤ Gen.Latency.Flush := by decide
  have done : ∀ (s s' : State) (ev : Event),
      (if e = true then (do
          let s ← flushAll70 s pc
          pure ({ s with base := { s.base with cycles := s.base.cycles + Gen.Latency.Flush, mode := .normal } }, Event.running))
        else (pure ({ s with base := { s.base with mode := .flushF seq pc fc } }, Event.running) : M (State × Event))) = .ok (s', ev) →
      Tail s s' := by
    intro s s' ev h
    split at h
    · simp only [bind, Except.bind, pure, Except.pure] at h
      split at h
      · cases h
      · rename_i s1 h1
        have f := flushAll70_frame h1
        cases h
        exact ⟨f.1, f.2.1, by show s.base.cycles ≤ s1.base.cycles + Gen.Latency.Flush; rw [f.2.2]; omega⟩
    · cases h; exact ⟨rfl, rfl, Int.le_refl _⟩
  intro n
  induction n with
  | zero =>
    intro i s s' ev h
    simp only [goFlushW70] at h
    exact done _ _ _ h
  | succ n ih =>
    intro i s s' ev h
    simp only [goFlushW70] at h
    split at h
    · exact done _ _ _ h
    · split at h
      · cases h; exact ⟨rfl, rfl, Int.le_refl _⟩
      · exact ih _ _ _ _ h

/-- one tick: at most one instruction per execute unit runs; the cycle counter advances — or no instruction ran and it
did not go back (the write units' drain loops inside the flush path) -/
structure Tick (s s' : State) : Prop where
  len : s'.base.eus.length = s.base.eus.length
  lo : s.base.executed ≤ s'.base.executed
  hi : s'.base.executed ≤ s.base.executed + s.base.eus.length
  cyc : s.base.cycles + 1 ≤ s'.base.cycles ∨ (s'.base.executed = s.base.executed ∧ s.base.cycles ≤ s'.base.cycles)

theorem cycleM_tick {app : App} {s s' : State} {ev : Event} (h : cycleM app s = .ok (s', ev)) : Tick s s' := by
  unfold cycleM at h
  split at h
  · -- the final loop
    simp only [bind, Except.bind, pure, Except.pure] at h
    split at h
    · cases h
    · rename_i s1 h1
      have f1 := snoopAll_frame h1
      split at h
      · cases h
      · rename_i v hv
        obtain ⟨s2, busy⟩ := v
        have f2 := eusCycleDrain_frame _ _ _ _ _ _ hv
        simp only [Loop] at h f1 f2
        have l2 : s2.base.eus.length = s.base.eus.length := f2.1.trans f1.len
        have lo2 : s.base.executed ≤ s2.base.executed := by have := f2.2.1; rw [f1.exe] at this; exact this
        have hi2 : s2.base.executed ≤ s.base.executed + s.base.eus.length := by
          have := f2.2.2.1; rw [f1.exe, f1.len] at this; exact this
        have c2 : s2.base.cycles = s.base.cycles + 1 := f2.2.2.2.trans f1.cyc
        split at h
        · cases h; exact ⟨l2, lo2, hi2, Or.inl (by omega)⟩
        · have t : Tail s2 s' := by
            split at h
            · exact finish80_tail h
            · exact finish70_tail h
          exact ⟨t.len.trans l2, by rw [t.exe]; exact lo2, by rw [t.exe]; exact hi2, Or.inl (by have := t.cyc; omega)⟩
  · split at h
    · -- normal
      simp only [bind, Except.bind, pure, Except.pure] at h
      split at h
      · cases h
      · rename_i b1 h1
        have f1 := Proofs.Mvp61.fetchCycle_frame h1
        split at h
        · cases h
        · rename_i b2 h2
          have f2 := Proofs.Mvp61.decodeCycle_frame h2
          split at h
          · cases h
          · rename_i s3 h3
            have f3 : Proofs.Mvp61.Frame b2 s3.base := by
              unfold controlStep at h3
              split at h3
              · cases h3; exact ⟨rfl, rfl, rfl⟩
              · simp only [bind, Except.bind, pure, Except.pure] at h3
                split at h3
                · cases h3
                · rename_i b3 hb3
                  cases h3
                  exact Proofs.Mvp61.controlCycle_frame hb3
            have f123 := (f1.trans f2).trans f3
            have l3 : s3.base.eus.length = s.base.eus.length := f123.len
            have e3 : s3.base.executed = s.base.executed := f123.exe
            have c3 : s3.base.cycles = s.base.cycles + 1 := f123.cyc
            split at h
            · simp only [Except.ok.injEq, Prod.mk.injEq] at h
              obtain ⟨rfl, _⟩ := h
              exact ⟨l3, by omega, by omega, Or.inl (by omega)⟩
            split at h
            · cases h
            · rename_i s4 h4
              have f4 := snoopAll_frame h4
              split at h
              · cases h
              · rename_i v hv
                obtain ⟨s5, acc⟩ := v
                have f5 := eusCycle70_frame _ _ _ _ _ _ hv
                simp only [Loop] at h f4 f5
                have l5 : s5.base.eus.length = s.base.eus.length := (f5.1.trans f4.len).trans l3
                have lo5 : s.base.executed ≤ s5.base.executed := by
                  have := f5.2.1; rw [f4.exe] at this; omega
                have hi5 : s5.base.executed ≤ s.base.executed + s.base.eus.length := by
                  have := f5.2.2.1; rw [f4.exe, f4.len] at this; omega
                have c5 : s5.base.cycles = s.base.cycles + 1 := by rw [f5.2.2.2, f4.cyc]; exact c3
                split at h
                · simp only [Except.ok.injEq, Prod.mk.injEq] at h
                  obtain ⟨rfl, _⟩ := h
                  exact ⟨l5, lo5, hi5, Or.inl (by omega)⟩
                · split at h
                  · cases h
                  · rename_i b6 h6
                    have f6 := Proofs.Mvp61.wusCycleB_frame h6
                    have l6 : b6.eus.length = s.base.eus.length := f6.len.trans l5
                    have lo6 : s.base.executed ≤ b6.executed := by rw [f6.exe]; exact lo5
                    have hi6 : b6.executed ≤ s.base.executed + s.base.eus.length := by rw [f6.exe]; exact hi5
                    have c6 : b6.cycles = s.base.cycles + 1 := by rw [f6.cyc]; exact c5
                    split at h
                    · simp only [Except.ok.injEq] at h
                      have hs := congrArg Prod.fst h
                      simp only at hs
                      subst hs
                      have t := goRetA70_tail { s5 with base := b6 }
                      exact ⟨t.len.trans l6, by rw [t.exe]; exact lo6, by rw [t.exe]; exact hi6,
                             Or.inl (by have := t.cyc; simp only at this; omega)⟩
                    · split at h
                      · simp only [Except.ok.injEq, Prod.mk.injEq] at h
                        obtain ⟨rfl, _⟩ := h
                        exact ⟨by simp only [List.length_map]; exact l6, lo6, hi6, Or.inl (by show s.base.cycles + 1 ≤ b6.cycles; omega)⟩
                      · split at h
                        · simp only [toDrain, Except.ok.injEq, Prod.mk.injEq] at h
                          obtain ⟨rfl, _⟩ := h
                          exact ⟨l6, lo6, hi6, Or.inl (by show s.base.cycles + 1 ≤ b6.cycles; omega)⟩
                        · simp only [Except.ok.injEq, Prod.mk.injEq] at h
                          obtain ⟨rfl, _⟩ := h
                          exact ⟨l6, lo6, hi6, Or.inl (by show s.base.cycles + 1 ≤ b6.cycles; omega)⟩
    · -- retA
      simp only [bind, Except.bind, pure, Except.pure] at h
      split at h
      · cases h
      · rename_i s1 h1
        have f1 := snoopAll_frame h1
        split at h
        · cases h
        · rename_i v hv
          obtain ⟨s2, e⟩ := v
          have f2 := eusCycleBusy70_frame _ _ _ _ _ hv
          simp only [Loop] at h f1 f2
          have l2 : s2.base.eus.length = s.base.eus.length := f2.1.trans f1.len
          have lo2 : s.base.executed ≤ s2.base.executed := by have := f2.2.1; rw [f1.exe] at this; exact this
          have hi2 : s2.base.executed ≤ s.base.executed + s.base.eus.length := by
            have := f2.2.2.1; rw [f1.exe, f1.len] at this; exact this
          have c2 : s2.base.cycles = s.base.cycles + 1 := f2.2.2.2.trans f1.cyc
          split at h
          · simp only [Except.ok.injEq, Prod.mk.injEq] at h
            obtain ⟨rfl, _⟩ := h
            exact ⟨l2, lo2, hi2, Or.inl (by omega)⟩
          · split at h
            · cases h
            · rename_i b3 h3
              have f3 := Proofs.Mvp61.wusCycle_frame h3
              simp only [Except.ok.injEq] at h
              have hs := congrArg Prod.fst h
              simp only at hs
              subst hs
              have t := goRetA70_tail { s2 with base := b3 }
              exact ⟨t.len.trans (f3.len.trans l2), by rw [t.exe, f3.exe]; exact lo2, by rw [t.exe, f3.exe]; exact hi2,
                     Or.inl (by have := t.cyc; have := f3.cyc; simp only at *; omega)⟩
    · -- retB
      simp only [bind, Except.bind, pure, Except.pure] at h
      split at h
      · cases h
      · rename_i b1 h1
        have f1 := Proofs.Mvp61.wusCycle_frame h1
        simp only [Except.ok.injEq] at h
        have hs := congrArg Prod.fst h
        simp only at hs
        subst hs
        have t := goRetB70_tail { s with base := { { b1 with cycles := b1.cycles + 1 } with
          writeBus := b1.writeBus.connect (b1.cycles + 1) } }
        exact ⟨t.len.trans f1.len, by rw [t.exe]; show s.base.executed ≤ b1.executed; rw [f1.exe]; exact Nat.le_refl _,
               by rw [t.exe]; show b1.executed ≤ _; rw [f1.exe]; exact Nat.le_add_right _ _,
               Or.inl (by have := t.cyc; have := f1.cyc; simp only at *; omega)⟩
    · -- flushF
      rename_i seq pc fc _
      simp only [bind, Except.bind, pure, Except.pure] at h
      split at h
      · cases h
      · rename_i s1 h1
        have f1 := snoopAll_frame h1
        split at h
        · cases h
        · rename_i v hv
          obtain ⟨s2, acc⟩ := v
          have f2 := eusCycleFlush70_frame _ _ _ _ _ _ _ hv
          simp only [Loop] at h f1 f2
          have l2 : s2.base.eus.length = s.base.eus.length := f2.1.trans f1.len
          have lo2 : s.base.executed ≤ s2.base.executed := by have := f2.2.1; rw [f1.exe] at this; exact this
          have hi2 : s2.base.executed ≤ s.base.executed + s.base.eus.length := by
            have := f2.2.2.1; rw [f1.exe, f1.len] at this; exact this
          have c2 : s2.base.cycles = s.base.cycles + 1 := f2.2.2.2.trans f1.cyc
          split at h
          · simp only [Except.ok.injEq, Prod.mk.injEq] at h
            obtain ⟨rfl, _⟩ := h
            exact ⟨l2, lo2, hi2, Or.inl (by omega)⟩
          · have t := goFlushW70_tail _ _ _ _ _ _ _ _ _ h
            exact ⟨t.len.trans l2, by rw [t.exe]; exact lo2, by rw [t.exe]; exact hi2,
                   Or.inl (by have := t.cyc; simp only at this; omega)⟩
    · -- flushW
      rename_i i seq pc fc e _
      simp only [bind, Except.bind, pure, Except.pure] at h
      split at h
      · cases h
      · rename_i s1 h1
        have f1 : s1.base.eus.length = s.base.eus.length ∧ s1.base.executed = s.base.executed ∧ s1.base.cycles = s.base.cycles := by
          unfold wuCycleB at h1
          simp only [bind, Except.bind, pure, Except.pure] at h1
          split at h1
          · cases h1
          · rename_i b hb
            have f := Proofs.Mvp61.wuCycle_frame hb
            cases h1
            exact ⟨f.len, f.exe, f.cyc⟩
        have t := goFlushW70_tail _ _ _ _ _ _ _ _ _ h
        have e1 : s'.base.executed = s.base.executed := t.exe.trans f1.2.1
        exact ⟨t.len.trans f1.1, by rw [e1]; exact Nat.le_refl _, by rw [e1]; exact Nat.le_add_right _ _,
               Or.inr ⟨e1, by have := t.cyc; rw [f1.2.2] at this; exact this⟩⟩

theorem cycle_tick (app : App) (s : State) :
    Tick s (cycle app s).1 ∨ ((cycle app s).1 = s ∧ ∃ w, (cycle app s).2 = .done (.panic w)) := by
  unfold cycle
  split
  · rename_i r hr
    obtain ⟨s', ev⟩ := r
    exact Or.inl (cycleM_tick hr)
  · exact Or.inr ⟨rfl, _, rfl⟩
  · exact Or.inr ⟨rfl, _, rfl⟩

/-- the invariant `executed ≤ cores · cycles` survives a tick -/
theorem Tick.inv {s s' : State} (t : Tick s s')
    (h : (s.base.executed : Int) ≤ s.base.eus.length * s.base.cycles) :
    (s'.base.executed : Int) ≤ s'.base.eus.length * s'.base.cycles := by
  rcases t.cyc with a | ⟨b1, b2⟩
  · rw [t.len]
    have h1 : (s.base.eus.length : Int) * (s.base.cycles + 1) ≤ s.base.eus.length * s'.base.cycles :=
      Int.mul_le_mul_of_nonneg_left a (Int.natCast_nonneg _)
    have h2 : (s'.base.executed : Int) ≤ ((s.base.executed + s.base.eus.length : Nat) : Int) := Int.ofNat_le.mpr t.hi
    rw [Int.mul_add, Int.mul_one] at h1
    rw [Int.natCast_add] at h2
    generalize (s.base.eus.length : Int) * s.base.cycles = X at *
    generalize (s.base.eus.length : Int) * s'.base.cycles = Y at *
    omega
  · rw [t.len, b1]
    exact Int.le_trans h (Int.mul_le_mul_of_nonneg_left b2 (Int.natCast_nonneg _))

theorem runFrom_bound (app : App) : ∀ (fuel : Nat) (s : State) (n : Nat),
    (runFrom app fuel s n).final.base.eus.length = s.base.eus.length ∧
    n ≤ (runFrom app fuel s n).ticks ∧
    (runFrom app fuel s n).final.base.executed + s.base.eus.length * n ≤
      s.base.executed + s.base.eus.length * (runFrom app fuel s n).ticks ∧
    ((s.base.executed : Int) ≤ s.base.eus.length * s.base.cycles →
      ((runFrom app fuel s n).final.base.executed : Int) ≤ s.base.eus.length * (runFrom app fuel s n).final.base.cycles) := by
  intro fuel
  induction fuel with
  | zero => intro s n; exact ⟨rfl, Nat.le_refl _, Nat.le_refl _, fun h => h⟩
  | succ fuel ih =>
    intro s n
    simp only [runFrom]
    have hc := cycle_tick app s
    split
    · rename_i s' hs
      rw [hs] at hc
      rcases hc with t | ⟨_, w, hw⟩
      · have h := ih s' (n + 1)
        simp only at t
        obtain ⟨h1, h2, h3, h4⟩ := h
        refine ⟨h1.trans t.len, by omega, ?_, ?_⟩
        · rw [t.len] at h3
          have := t.hi
          simp only [Nat.mul_add, Nat.mul_one] at h3
          omega
        · intro hi
          rw [← t.len]; exact h4 (t.inv hi)
      · simp only at hw; cases hw
    · rename_i s' hh hs
      rw [hs] at hc
      rcases hc with t | ⟨he, w, hw⟩
      · simp only at t
        refine ⟨t.len, Nat.le_succ n, ?_, ?_⟩
        · have := t.hi
          simp only [Nat.mul_add, Nat.mul_one]
          omega
        · intro hi
          rw [← t.len]; exact t.inv hi
      · simp only at he hw
        cases hw
        subst he
        refine ⟨rfl, Nat.le_succ n, ?_, fun hi => hi⟩
        simp only [Nat.mul_add, Nat.mul_one]; omega

theorem init_shape {ctx : Model.Context} {par : Nat} {s : State} (h : init ctx par = .ok s) :
    s.base.eus.length = par ∧ s.base.executed = 0 ∧ s.base.cycles = 0 := by
  unfold init at h
  split at h
  · cases h
  · simp only [bind, Except.bind, pure, Except.pure] at h
    split at h
    · cases h
    · rename_i b hb
      split at h
      · cases h
      · cases h
        have := Proofs.Mvp63.init_shape hb
        exact ⟨this.1, this.2.1, this.2.2.1⟩

/-- **lower bound (C12) for MVP-7.0.**  In a run of the model with `par` cores (one execute unit each), at most `par`
instructions are executed (their `Run` called) per tick, and the cycle counter is at least `executed / par` — for every
run (halted, out of fuel, Go panic, `maporder`). -/
theorem run_executed_le (app : App) (ctx : Model.Context) (par fuel : Nat) :
    (run app ctx par fuel).final.base.executed ≤ par * (run app ctx par fuel).ticks ∧
    ((run app ctx par fuel).final.base.executed : Int) ≤ par * (run app ctx par fuel).final.base.cycles := by
  unfold run
  split
  · rename_i s hs
    obtain ⟨h1, h2, h3⟩ := init_shape hs
    have h := runFrom_bound app fuel s 0
    rw [h1, h2, h3] at h
    simp only [Nat.mul_zero, Nat.add_zero, Nat.zero_add, Int.natCast_zero, Int.mul_zero, Int.le_refl, true_implies] at h
    exact ⟨h.2.2.1, h.2.2.2⟩
  · refine ⟨Nat.zero_le _, ?_⟩
    show (((default : State).base.executed : Nat) : Int) ≤ par * (default : State).base.cycles
    exact Int.le_of_eq (by rfl)

end Proofs.Mvp70

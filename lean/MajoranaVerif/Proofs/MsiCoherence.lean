/-
  Proofs/MsiCoherence.lean — data coherence of the abstract MSI protocol model
  (`Model/Msi.lean` part (b)), from the inductive invariant `Proofs.Msi.Inv`:

  * `cur σ l`, the CURRENT VALUE of line `l`: the data of the core that holds it Modified if
    there is one, else the next level (`σ.mem l`);
  * no stale copy: every Shared or Modified resident copy of `l` is `cur σ l`; a read that is
    about to complete returns `cur`;
  * `cur_step`: a completing write of `v` to `l` makes `cur l = v` and nothing else changes;
    every other safe action (start, proceed, push, evicted, completing read, snoop eviction,
    snoop write-back, idle flush) leaves `cur` unchanged — in particular a write-back moves the
    value from the L1 of the Modified holder to the next level without changing it;
  * hence along every safe history `cur l` is the value of the last completed write to `l`
    (or the initial memory), every completing read returns it, and once no core holds `l`
    Modified the next level holds it.
  Flushes of a busy controller are excluded exactly as in `Proofs.Msi.inv_step`.  Core Lean only.
-/
import MajoranaVerif.Proofs.Msi

namespace Proofs.MsiCoherence
open Model.Msi Proofs.Msi

variable {D : Type}

/-- the actions the invariant is proved for (`Props.C06.Safe`): everything except a flush of a busy core -/
def Safe (σ : State D) (a : Action D) : Prop := a.isFlush = false ∨ FlushIdle σ a

/-- the current value of line `l`: the data of its Modified holder, else the next level -/
def cur (σ : State D) (l : Line) : D :=
  match (List.range σ.n).find? (fun c => σ.st c l == .M) with
  | some c => (σ.l1 c l).getD (σ.mem l)
  | none => σ.mem l

/-! ### `cur` through its two cases -/

theorem cur_of_noM {σ : State D} {l : Line} (h : ∀ c, c < σ.n → σ.st c l ≠ .M) : cur σ l = σ.mem l := by
  unfold cur
  have : (List.range σ.n).find? (fun c => σ.st c l == .M) = none := by
    apply List.find?_eq_none.mpr
    intro c hc
    have := h c (List.mem_range.mp hc)
    simpa using this
  rw [this]

theorem cur_of_M {σ : State D} (hi : Inv σ) {c : Core} {l : Line} {d : D} (hM : σ.st c l = .M) (hd : σ.l1 c l = some d) :
    cur σ l = d := by
  unfold cur
  have hcn : c < σ.n := by
    by_cases h : c < σ.n
    · exact h
    · have := (hi.outside c (Nat.le_of_not_lt h)).2 l
      rw [this] at hM; cases hM
  cases hf : (List.range σ.n).find? (fun c => σ.st c l == .M) with
  | none =>
    have := List.find?_eq_none.mp hf c (List.mem_range.mpr hcn)
    simp [hM] at this
  | some c' =>
    have hc' := List.find?_some hf
    have hM' : σ.st c' l = .M := by simpa using hc'
    have : c' = c := by
      by_cases he : c' = c
      · exact he
      · have := hi.single c c' l hM he
        rw [this] at hM'; cases hM'
    subst this
    simp [hd]

/-- `cur` of a line only depends on who holds it Modified, on that core's copy, and on the next level -/
theorem cur_frame {σ σ' : State D} {l : Line} (hn : σ'.n = σ.n) (hst : ∀ c, (σ'.st c l == .M) = (σ.st c l == .M))
    (hl1 : ∀ c, σ.st c l = .M → σ'.l1 c l = σ.l1 c l) (hm : σ'.mem l = σ.mem l) : cur σ' l = cur σ l := by
  unfold cur
  have hp : (fun c => σ'.st c l == .M) = (fun c => σ.st c l == .M) := funext hst
  rw [hn, hp, hm]
  cases hf : (List.range σ.n).find? (fun c => σ.st c l == .M) with
  | none => rfl
  | some c =>
    have hc := List.find?_some hf
    have hM : σ.st c l = .M := by simpa using hc
    simp only [hl1 c hM]

/-! ### no stale copy -/

/-- (a) every resident Shared or Modified copy of a line is the current value of the line -/
theorem copy_is_cur {σ : State D} (hi : Inv σ) (c : Core) (l : Line) (hst : σ.st c l ≠ .I) :
    σ.l1 c l = some (cur σ l) := by
  cases hs : σ.st c l with
  | I => exact absurd hs hst
  | S =>
    rw [hi.sharedData c l hs]
    have : cur σ l = σ.mem l := by
      apply cur_of_noM
      intro c' _ hM
      by_cases he : c = c'
      · subst he; rw [hs] at hM; cases hM
      · have := hi.single c' c l hM he
        rw [hs] at this; cases this
    rw [this]
  | M =>
    cases hd : σ.l1 c l with
    | none => exact absurd hd (hi.holdsOfState c l (by rw [hs]; simp))
    | some d => rw [cur_of_M hi hs hd]

/-- (b) a read that is about to complete (stage `l1`) returns the current value of its line -/
theorem read_returns_cur {σ : State D} (hi : Inv σ) (c : Core) (r : Req D) (hr : σ.req c = some r)
    (hs : r.stage = .l1) (hrd : r.mode.isRead = true) : σ.l1 c r.line = some (cur σ r.line) := by
  have hms := hi.modeState c r hr
  cases hm : r.mode with
  | rdHitS => exact copy_is_cur hi c r.line (by rw [hms, hm]; simp [modeSt])
  | rdHitM => exact copy_is_cur hi c r.line (by rw [hms, hm]; simp [modeSt])
  | rdFill =>
    rw [hi.postData c r hr hm (by rw [hs]; rfl)]
    have : cur σ r.line = σ.mem r.line := by
      apply cur_of_noM
      intro c' _ hM
      by_cases he : c' = c
      · subst he; rw [hms, hm] at hM; cases hM
      · have := (hi.cover c r c' hr he (by rw [hm, hM]; rfl)).1
        rw [hs] at this; cases this
    rw [this]
  | wrFill => rw [hm] at hrd; cases hrd
  | wrHitM => rw [hm] at hrd; cases hrd
  | wrUpg => rw [hm] at hrd; cases hrd

/-! ### what each action does to the fields `cur` reads -/

/-- the four fields `cur` depends on -/
def sameData (σ' σ : State D) : Prop := σ'.n = σ.n ∧ σ'.st = σ.st ∧ σ'.l1 = σ.l1 ∧ σ'.mem = σ.mem

theorem cur_of_sameData {σ' σ : State D} (h : sameData σ' σ) (l : Line) : cur σ' l = cur σ l := by
  obtain ⟨h1, h2, h3, h4⟩ := h
  exact cur_frame h1 (fun c => by rw [h2]) (fun c _ => by rw [h3]) (by rw [h4])

theorem start_sameData (σ : State D) (c : Core) (l : Line) (w : Bool) : sameData (start σ c l w) σ := by
  unfold start startReq sameData
  repeat' split
  all_goals exact ⟨rfl, rfl, rfl, rfl⟩

theorem proceed_sameData (σ : State D) (c : Core) : sameData (proceed σ c) σ := by
  unfold proceed setStage sameData
  repeat' split
  all_goals exact ⟨rfl, rfl, rfl, rfl⟩

theorem evicted_sameData (σ : State D) (c : Core) : sameData (evicted σ c) σ := by
  unfold evicted setStage sameData
  repeat' split
  all_goals exact ⟨rfl, rfl, rfl, rfl⟩

/-- `push` only writes the copy of the requester's own line, while it fetches -/
theorem push_fields (σ : State D) (c : Core) (victim : Option Line) :
    (push σ c victim).n = σ.n ∧ (push σ c victim).st = σ.st ∧ (push σ c victim).mem = σ.mem ∧
    ∀ c' l', (push σ c victim).l1 c' l' = σ.l1 c' l' ∨
      (c' = c ∧ ∃ r d, σ.req c = some r ∧ r.stage = .fetch d ∧ l' = r.line) := by
  unfold push
  cases hr : σ.req c with
  | none => exact ⟨rfl, rfl, rfl, fun _ _ => Or.inl rfl⟩
  | some r =>
    simp only
    cases hs : r.stage with
    | wait => exact ⟨rfl, rfl, rfl, fun _ _ => Or.inl rfl⟩
    | pushed v => exact ⟨rfl, rfl, rfl, fun _ _ => Or.inl rfl⟩
    | l1 => exact ⟨rfl, rfl, rfl, fun _ _ => Or.inl rfl⟩
    | fetch d =>
      simp only
      have leaf : ∀ c' l', (upd2 σ.l1 c r.line (some d)) c' l' = σ.l1 c' l' ∨
          (c' = c ∧ ∃ r' d', some r = some r' ∧ r'.stage = .fetch d' ∧ l' = r'.line) := by
        intro c' l'
        by_cases h : c' = c ∧ l' = r.line
        · exact Or.inr ⟨h.1, r, d, rfl, hs, h.2⟩
        · left; simp [upd2, h]
      repeat' split
      all_goals first
        | exact ⟨rfl, rfl, rfl, fun _ _ => Or.inl rfl⟩
        | exact ⟨rfl, rfl, rfl, leaf⟩

/-! ### the completed writes -/

/-- the write an action completes, if any: `complete c v` of a write request of core `c` in its last stage -/
def written (σ : State D) : Action D → Option (Line × D)
  | .complete c v =>
    match σ.req c with
    | some r =>
      match r.stage with
      | .l1 => if r.mode.isRead then none else some (r.line, v)
      | _ => none
    | none => none
  | _ => none

/-- what a completed write does to a map from lines to values -/
def applyWrite (f : Line → D) : Option (Line × D) → Line → D
  | some (lw, v) => fun l => if l = lw then v else f l
  | none => f

theorem cur_complete {σ : State D} (hi : Inv σ) (c : Core) (v : D) (l : Line) :
    cur (complete σ c v) l = applyWrite (cur σ) (written σ (.complete c v)) l := by
  have hi' : Inv (complete σ c v) := inv_complete hi c v
  cases hr : σ.req c with
  | none =>
    have : complete σ c v = σ := by unfold complete; simp only [hr]
    have hw : written σ (.complete c v) = none := by simp only [written, hr]
    rw [this, hw]; rfl
  | some r =>
    have hms := hi.modeState c r hr
    cases hs : r.stage with
    | wait =>
      have : complete σ c v = σ := by unfold complete; simp only [hr, hs]
      have hw : written σ (.complete c v) = none := by simp only [written, hr, hs]
      rw [this, hw]; rfl
    | fetch d =>
      have : complete σ c v = σ := by unfold complete; simp only [hr, hs]
      have hw : written σ (.complete c v) = none := by simp only [written, hr, hs]
      rw [this, hw]; rfl
    | pushed x =>
      have : complete σ c v = σ := by unfold complete; simp only [hr, hs]
      have hw : written σ (.complete c v) = none := by simp only [written, hr, hs]
      rw [this, hw]; rfl
    | l1 =>
      cases hm : r.mode with
      | rdFill =>
        have hw : written σ (.complete c v) = none := by simp only [written, hr, hs, hm, Mode.isRead, if_true]
        rw [hw]; simp only [applyWrite]
        have hI : σ.st c r.line = .I := by rw [hms, hm]; rfl
        apply cur_frame
        · unfold complete; simp only [hr, hs, hm]
        · intro c'
          have : (complete σ c v).st = upd2 σ.st c r.line .S := by unfold complete; simp only [hr, hs, hm]
          rw [this]
          by_cases h : c' = c ∧ l = r.line
          · obtain ⟨rfl, rfl⟩ := h
            rw [upd2_same, hI]; rfl
          · rw [upd2_other _ _ h]
        · intro c' _
          have : (complete σ c v).l1 = σ.l1 := by unfold complete; simp only [hr, hs, hm]
          rw [this]
        · have : (complete σ c v).mem = σ.mem := by unfold complete; simp only [hr, hs, hm]
          rw [this]
      | rdHitS =>
        have hw : written σ (.complete c v) = none := by simp only [written, hr, hs, hm, Mode.isRead, if_true]
        rw [hw]; simp only [applyWrite]
        apply cur_of_sameData
        unfold complete sameData; simp [hr, hs, hm]
      | rdHitM =>
        have hw : written σ (.complete c v) = none := by simp only [written, hr, hs, hm, Mode.isRead, if_true]
        rw [hw]; simp only [applyWrite]
        apply cur_of_sameData
        unfold complete sameData; simp [hr, hs, hm]
      | wrFill =>
        have hw : written σ (.complete c v) = some (r.line, v) := by simp only [written, hr, hs, hm, Mode.isRead, Bool.false_eq_true, if_false]
        rw [hw]; simp only [applyWrite]
        obtain ⟨x, hx⟩ : ∃ x, σ.l1 c r.line = some x := by
          have := hi.postHolds c r hr (by rw [hm]; rfl) (by rw [hs]; rfl)
          cases h : σ.l1 c r.line with
          | none => exact absurd h this
          | some x => exact ⟨x, rfl⟩
        have hst : (complete σ c v).st = upd2 σ.st c r.line .M := by unfold complete; simp only [hr, hs, hm, hx]
        have hl1 : (complete σ c v).l1 = upd2 σ.l1 c r.line (some v) := by unfold complete; simp only [hr, hs, hm, hx]
        have hmem : (complete σ c v).mem = σ.mem := by unfold complete; simp only [hr, hs, hm, hx]
        have hn : (complete σ c v).n = σ.n := by unfold complete; simp only [hr, hs, hm, hx]
        by_cases hl : l = r.line
        · subst hl
          simp only [if_true]
          exact cur_of_M hi' (by rw [hst, upd2_same]) (by rw [hl1, upd2_same])
        · simp only [hl, if_false]
          apply cur_frame hn
          · intro c'; rw [hst, upd2_other _ _ (fun h => hl h.2)]
          · intro c' _; rw [hl1, upd2_other _ _ (fun h => hl h.2)]
          · rw [hmem]
      | wrUpg =>
        have hw : written σ (.complete c v) = some (r.line, v) := by simp only [written, hr, hs, hm, Mode.isRead, Bool.false_eq_true, if_false]
        rw [hw]; simp only [applyWrite]
        obtain ⟨x, hx⟩ : ∃ x, σ.l1 c r.line = some x := by
          have := hi.holdsOfState c r.line (by rw [hms, hm]; simp [modeSt])
          cases h : σ.l1 c r.line with
          | none => exact absurd h this
          | some x => exact ⟨x, rfl⟩
        have hst : (complete σ c v).st = upd2 σ.st c r.line .M := by unfold complete; simp only [hr, hs, hm, hx]
        have hl1 : (complete σ c v).l1 = upd2 σ.l1 c r.line (some v) := by unfold complete; simp only [hr, hs, hm, hx]
        have hmem : (complete σ c v).mem = σ.mem := by unfold complete; simp only [hr, hs, hm, hx]
        have hn : (complete σ c v).n = σ.n := by unfold complete; simp only [hr, hs, hm, hx]
        by_cases hl : l = r.line
        · subst hl
          simp only [if_true]
          exact cur_of_M hi' (by rw [hst, upd2_same]) (by rw [hl1, upd2_same])
        · simp only [hl, if_false]
          apply cur_frame hn
          · intro c'; rw [hst, upd2_other _ _ (fun h => hl h.2)]
          · intro c' _; rw [hl1, upd2_other _ _ (fun h => hl h.2)]
          · rw [hmem]
      | wrHitM =>
        have hw : written σ (.complete c v) = some (r.line, v) := by simp only [written, hr, hs, hm, Mode.isRead, Bool.false_eq_true, if_false]
        rw [hw]; simp only [applyWrite]
        have hM : σ.st c r.line = .M := by rw [hms, hm]; rfl
        obtain ⟨x, hx⟩ : ∃ x, σ.l1 c r.line = some x := by
          have := hi.holdsOfState c r.line (by rw [hM]; simp)
          cases h : σ.l1 c r.line with
          | none => exact absurd h this
          | some x => exact ⟨x, rfl⟩
        have hst : (complete σ c v).st = σ.st := by unfold complete; simp only [hr, hs, hm, hx]
        have hl1 : (complete σ c v).l1 = upd2 σ.l1 c r.line (some v) := by unfold complete; simp only [hr, hs, hm, hx]
        have hmem : (complete σ c v).mem = σ.mem := by unfold complete; simp only [hr, hs, hm, hx]
        have hn : (complete σ c v).n = σ.n := by unfold complete; simp only [hr, hs, hm, hx]
        by_cases hl : l = r.line
        · subst hl
          simp only [if_true]
          exact cur_of_M hi' (by rw [hst]; exact hM) (by rw [hl1, upd2_same])
        · simp only [hl, if_false]
          apply cur_frame hn
          · intro c'; rw [hst]
          · intro c' _; rw [hl1, upd2_other _ _ (fun h => hl h.2)]
          · rw [hmem]

theorem cur_push {σ : State D} (hi : Inv σ) (c : Core) (victim : Option Line) (l : Line) :
    cur (push σ c victim) l = cur σ l := by
  obtain ⟨hn, hst, hmem, hl1⟩ := push_fields σ c victim
  apply cur_frame hn
  · intro c'; rw [hst]
  · intro c' hM
    rcases hl1 c' l with h | ⟨rfl, r, d, hr, hs, hl⟩
    · exact h
    · exfalso
      have hfill := hi.fill_of_stage hr (by rw [hs]; rfl) (by rw [hs]; simp)
      have hI : σ.st c' r.line = .I := by rw [hi.modeState c' r hr, modeSt_fill hfill]
      rw [hl, hI] at hM; cases hM
  · rw [hmem]

/-- a snoop — an eviction of a Shared copy, or the write-back of the Modified copy to the next level followed by its
eviction — does not change the current value of any line -/
theorem cur_snoop {σ : State D} (hi : Inv σ) (e : Core) (l0 : Line) (k : Kind) (l : Line) :
    cur (snoop σ e l0 k) l = cur σ l := by
  have hi' : Inv (snoop σ e l0 k) := inv_snoop hi e l0 k
  by_cases hc : σ.cmd e l0 k = true
  · cases k with
    | evict =>
      have hS : σ.st e l0 = .S := (hi.cmdState e l0).1 hc
      have hn : (snoop σ e l0 .evict).n = σ.n := by unfold snoop; simp only [hc, if_true]
      have hst : (snoop σ e l0 .evict).st = upd2 σ.st e l0 .I := by unfold snoop; simp only [hc, if_true]
      have hl1 : (snoop σ e l0 .evict).l1 = upd2 σ.l1 e l0 none := by unfold snoop; simp only [hc, if_true]
      have hmem : (snoop σ e l0 .evict).mem = σ.mem := by unfold snoop; simp only [hc, if_true]
      apply cur_frame hn
      · intro c'
        rw [hst]
        by_cases h : c' = e ∧ l = l0
        · obtain ⟨rfl, rfl⟩ := h
          rw [upd2_same, hS]; rfl
        · rw [upd2_other _ _ h]
      · intro c' hM
        rw [hl1]
        by_cases h : c' = e ∧ l = l0
        · obtain ⟨rfl, rfl⟩ := h
          rw [hS] at hM; cases hM
        · rw [upd2_other _ _ h]
      · rw [hmem]
    | writeBack =>
      have hM : σ.st e l0 = .M := (hi.cmdState e l0).2 hc
      obtain ⟨d, hd⟩ : ∃ d, σ.l1 e l0 = some d := by
        have := hi.holdsOfState e l0 (by rw [hM]; simp)
        cases h : σ.l1 e l0 with
        | none => exact absurd h this
        | some d => exact ⟨d, rfl⟩
      have hn : (snoop σ e l0 .writeBack).n = σ.n := by unfold snoop; simp only [hc, if_true, hd]
      have hst : (snoop σ e l0 .writeBack).st = upd2 σ.st e l0 .I := by unfold snoop; simp only [hc, if_true, hd]
      have hl1 : (snoop σ e l0 .writeBack).l1 = upd2 σ.l1 e l0 none := by unfold snoop; simp only [hc, if_true, hd]
      have hmem : (snoop σ e l0 .writeBack).mem = upd σ.mem l0 d := by unfold snoop; simp only [hc, if_true, hd]
      by_cases hl : l = l0
      · subst hl
        rw [cur_of_M hi hM hd]
        have : cur (snoop σ e l .writeBack) l = (snoop σ e l .writeBack).mem l := by
          apply cur_of_noM
          intro c' _ hM'
          rw [hst] at hM'
          by_cases h : c' = e
          · subst h; rw [upd2_same] at hM'; cases hM'
          · rw [upd2_other _ _ (fun hh => h hh.1)] at hM'
            have := hi.single e c' l hM h
            rw [this] at hM'; cases hM'
        rw [this, hmem, upd_same]
      · apply cur_frame hn
        · intro c'; rw [hst, upd2_other _ _ (fun h => hl h.2)]
        · intro c' _; rw [hl1, upd2_other _ _ (fun h => hl h.2)]
        · rw [hmem, upd_other _ _ hl]
  · have : snoop σ e l0 k = σ := by unfold snoop; simp only [hc, Bool.false_eq_true, if_false]
    rw [this]

/-- **(c) one step**: a completing write of `v` to `l` makes `cur l = v` and changes the current value of no other
line; every other safe action leaves the current value of every line unchanged -/
theorem cur_step {σ : State D} (hi : Inv σ) (a : Action D) (ha : Safe σ a) (l : Line) :
    cur (step σ a) l = applyWrite (cur σ) (written σ a) l := by
  unfold step
  rw [hi.noPanic]
  simp only [Bool.false_eq_true, if_false]
  cases a with
  | start c l0 w => exact cur_of_sameData (start_sameData σ c l0 w) l
  | proceed c => exact cur_of_sameData (proceed_sameData σ c) l
  | push c v => exact cur_push hi c v l
  | evicted c => exact cur_of_sameData (evicted_sameData σ c) l
  | complete c v => exact cur_complete hi c v l
  | snoop e l0 k => exact cur_snoop hi e l0 k l
  | flush c =>
    rcases ha with ha | ha
    · cases ha
    · have hreq : σ.req c = none := ha
      have : flush σ c = σ := by unfold flush; rw [hreq]
      show cur (flush σ c) l = _
      rw [this]; rfl

/-! ### histories -/

/-- every action of the history is safe in the state it is applied to -/
def SafeRun : State D → List (Action D) → Prop
  | _, [] => True
  | σ, a :: as => Safe σ a ∧ SafeRun (step σ a) as

/-- the writes completed along a history, in order -/
def writesOf : State D → List (Action D) → List (Line × D)
  | _, [] => []
  | σ, a :: as => (written σ a).toList ++ writesOf (step σ a) as

/-- the value last written to `l` by a list of writes, `f l` if none -/
def lastWrite (f : Line → D) (ws : List (Line × D)) (l : Line) : D :=
  ws.foldl (fun (g : Line → D) (w : Line × D) => fun x => if x = w.1 then w.2 else g x) f l

theorem inv_run {σ : State D} (hi : Inv σ) : ∀ (as : List (Action D)), SafeRun σ as → Inv (run σ as) := by
  intro as
  induction as generalizing σ with
  | nil => intro _; exact hi
  | cons a as ih => intro hs; exact ih (inv_step σ a hi hs.1) hs.2

/-- along every safe history the current value of a line is the value of the last completed write to it, or its
value at the start -/
theorem cur_run {σ : State D} (hi : Inv σ) : ∀ (as : List (Action D)), SafeRun σ as →
    ∀ l, cur (run σ as) l = lastWrite (cur σ) (writesOf σ as) l := by
  intro as
  induction as generalizing σ with
  | nil => intro _ l; rfl
  | cons a as ih =>
    intro hs l
    have hi1 := inv_step σ a hi hs.1
    have h1 := ih hi1 hs.2 l
    show cur (run (step σ a) as) l = _
    rw [h1]
    have hw : writesOf σ (a :: as) = (written σ a).toList ++ writesOf (step σ a) as := rfl
    have hc : cur (step σ a) = applyWrite (cur σ) (written σ a) := funext (cur_step hi a hs.1)
    rw [hw, hc]
    unfold lastWrite
    rw [List.foldl_append]
    cases written σ a with
    | none => rfl
    | some w => rfl

theorem cur_init (n : Nat) (mem : Line → D) (l : Line) : cur (init n mem) l = mem l :=
  cur_of_noM (fun _ _ h => by cases h)

/-- while a core's READ request is in progress no write to its line can complete (the lock excludes it) … -/
theorem no_write_under_read {σ : State D} (hi : Inv σ) {c : Core} {r : Req D} (hr : σ.req c = some r)
    (hrd : r.mode.isRead = true) (a : Action D) {l : Line} {v : D} (hw : written σ a = some (l, v)) : l ≠ r.line := by
  cases a with
  | complete c' v' =>
    unfold written at hw
    cases hr' : σ.req c' with
    | none => simp [hr'] at hw
    | some r' =>
      simp only [hr'] at hw
      cases hs : r'.stage with
      | l1 =>
        simp only [hs] at hw
        by_cases hrd' : r'.mode.isRead = true
        · simp [hrd'] at hw
        · simp only [hrd', Bool.false_eq_true, if_false, Option.some.injEq, Prod.mk.injEq] at hw
          obtain ⟨hl, _⟩ := hw
          intro he
          have hx : r'.mode.shr = false := by
            cases hm : r'.mode <;> simp [hm, Mode.isRead] at hrd' <;> rfl
          have hcc := hi.excl_alone hr' hx hr (by rw [← he, hl])
          subst hcc
          rw [hr] at hr'; cases hr'
          exact hrd' hrd
      | wait => simp [hs] at hw
      | fetch d => simp [hs] at hw
      | pushed x => simp [hs] at hw
  | start _ _ _ => cases hw
  | proceed _ => cases hw
  | push _ _ => cases hw
  | evicted _ => cases hw
  | snoop _ _ _ => cases hw
  | flush _ => cases hw

/-- … so the current value of the line is stable from the moment the read samples its L1 copy to its completion -/
theorem cur_stable_during_read {σ : State D} (hi : Inv σ) {c : Core} {r : Req D} (hr : σ.req c = some r)
    (hrd : r.mode.isRead = true) (a : Action D) (ha : Safe σ a) : cur (step σ a) r.line = cur σ r.line := by
  rw [cur_step hi a ha]
  cases hw : written σ a with
  | none => rfl
  | some w =>
    obtain ⟨l, v⟩ := w
    have := no_write_under_read hi hr hrd a hw
    simp only [applyWrite]
    rw [if_neg (fun h => this h.symm)]

/-- **a completing read returns the last completed write** (or the initial memory), along every safe history -/
theorem read_returns_last_write (n : Nat) (mem : Line → D) (as : List (Action D)) (hs : SafeRun (init n mem) as)
    (c : Core) (r : Req D) (hr : (run (init n mem) as).req c = some r) (hst : r.stage = .l1) (hrd : r.mode.isRead = true) :
    (run (init n mem) as).l1 c r.line = some (lastWrite mem (writesOf (init n mem) as) r.line) := by
  have hi := inv_run (inv_init n mem) as hs
  rw [read_returns_cur hi c r hr hst hrd, cur_run (inv_init n mem) as hs]
  have : cur (init n mem) = mem := funext (cur_init n mem)
  rw [this]

/-- **(d)** when no core holds a line Modified the next level holds its current value: after the write-back of every
Modified copy, memory holds the last completed write of every line -/
theorem final_memory_is_last_write (n : Nat) (mem : Line → D) (as : List (Action D)) (hs : SafeRun (init n mem) as)
    (l : Line) (hM : ∀ c, (run (init n mem) as).st c l ≠ .M) :
    (run (init n mem) as).mem l = lastWrite mem (writesOf (init n mem) as) l := by
  have h1 := cur_run (inv_init n mem) as hs l
  rw [cur_of_noM (fun c _ => hM c)] at h1
  rw [h1]
  have : cur (init n mem) = mem := funext (cur_init n mem)
  rw [this]

end Proofs.MsiCoherence

/-
  Proofs/Mvp4Cycles.lean — the counters of MVP-4 (work package CYC45): what a tick does to the cycle counter and to
  the count of executed instructions, for EVERY state (no relation needed), and the quantitative form of
  `mvp4_terminates`: a bound on the measure `phi` in the states right after an executed instruction, hence a bound
  on the number of ticks and on the returned cycle count.
-/
import MajoranaVerif.Proofs.Mvp4Terminates
import MajoranaVerif.Proofs.Mvp3Cycles
open GoInt Model Model.Mvp4 Model.Seq

set_option linter.unusedSimpArgs false
set_option linter.unusedVariables false

namespace Proofs.Mvp4

/-! ### what the execute unit does to the counters (for every state) -/

/-- what a cycle of the execute unit leaves alone, and what it may do to the count of executed instructions -/
structure Cnt (s s2 : State) : Prop where
  cycles : s2.cycles = s.cycles
  fu : s2.fu = s.fu
  wu : s2.wu = s.wu
  exLo : s.executed ≤ s2.executed
  exHi : s2.executed ≤ s.executed + 1

theorem Cnt.refl (s : State) : Cnt s s := ⟨rfl, rfl, rfl, Nat.le_refl _, Nat.le_succ _⟩

theorem Cnt.same {s s2 : State} (h1 : s2.cycles = s.cycles) (h2 : s2.fu = s.fu) (h3 : s2.wu = s.wu)
    (h4 : s2.executed = s.executed) : Cnt s s2 :=
  ⟨h1, h2, h3, by rw [h4]; exact Nat.le_refl _, by rw [h4]; exact Nat.le_succ _⟩

theorem Cnt.of_eq {s s1 s2 : State} (h : Cnt s1 s2) (h1 : s1.cycles = s.cycles) (h2 : s1.fu = s.fu) (h3 : s1.wu = s.wu)
    (h4 : s1.executed = s.executed) : Cnt s s2 :=
  ⟨by rw [h.cycles, h1], by rw [h.fu, h2], by rw [h.wu, h3], by rw [← h4]; exact h.exLo, by rw [← h4]; exact h.exHi⟩

theorem euQueue_cnt (s : State) (r : Runner) (e : Gen.Execution) (eu : ExecUnit) (mmu : Model.Mmu.Mmu) :
    (euQueue s r e eu mmu).1.cycles = s.cycles ∧ (euQueue s r e eu mmu).1.fu = s.fu ∧
    (euQueue s r e eu mmu).1.wu = s.wu ∧ (euQueue s r e eu mmu).1.executed = s.executed := by
  unfold euQueue; simp only; exact ⟨trivial, trivial, trivial, trivial⟩

theorem euRun_cnt {app : App} {s s2 : State} {r : Runner} {b : List Byte} {out : EuOut}
    (h : euRun app s r b = .ok (s2, out)) : Cnt s s2 := by
  unfold euRun at h
  simp only at h
  split at h
  · cases h
  · obtain ⟨rfl, _⟩ := ok_pair_inj h
    exact ⟨rfl, rfl, rfl, Nat.le_succ _, Nat.le_refl _⟩
  · rename_i e _
    split at h
    · obtain ⟨rfl, _⟩ := ok_pair_inj h
      exact ⟨rfl, rfl, rfl, Nat.le_succ _, Nat.le_refl _⟩
    · obtain ⟨⟨inL1D, mmu1⟩, h1, h2⟩ := bind_ok_inv h
      simp only at h2
      split at h2
      · obtain ⟨mmu2, h3, h4⟩ := bind_ok_inv h2
        obtain ⟨rfl, _⟩ := ok_pair_inj h4
        exact ⟨rfl, rfl, rfl, Nat.le_succ _, Nat.le_refl _⟩
      · simp only [pure, Except.pure] at h2
        injection h2 with h2
        have := congrArg Prod.fst h2
        simp only at this
        rw [← this]
        obtain ⟨q1, q2, q3, q4⟩ := euQueue_cnt { s with executed := s.executed + 1 } r e
          { s.eu with processing := false, runner := none } mmu1
        exact ⟨q1, q2, q3, by rw [q4]; exact Nat.le_succ _, by rw [q4]; exact Nat.le_refl _⟩

theorem euIssue_cnt {app : App} {s s2 : State} {eu : ExecUnit} {r : Runner} {out : EuOut}
    (h : euIssue app s eu r = .ok (s2, out)) : Cnt s s2 := by
  unfold euIssue at h
  simp only at h
  split at h
  · obtain ⟨rfl, _⟩ := ok_pair_inj h; exact Cnt.same rfl rfl rfl rfl
  · split at h
    · split at h
      · obtain ⟨rfl, _⟩ := ok_pair_inj h; exact Cnt.same rfl rfl rfl rfl
      · obtain ⟨⟨m, mmu1⟩, h1, h2⟩ := bind_ok_inv h
        simp only at h2
        split at h2
        · obtain ⟨rfl, _⟩ := ok_pair_inj h2; exact Cnt.same rfl rfl rfl rfl
        · obtain ⟨rfl, _⟩ := ok_pair_inj h2; exact Cnt.same rfl rfl rfl rfl
    · exact (euRun_cnt (s := { s with eu := eu, bu := s.bu.assert r }) h).of_eq rfl rfl rfl rfl

theorem euMemDone_cnt {app : App} {s s2 : State} {eu : ExecUnit} {r : Runner} {out : EuOut}
    (h : euMemDone app s eu r = .ok (s2, out)) : Cnt s s2 := by
  unfold euMemDone at h
  split at h
  · exact (euRun_cnt (s := { s with eu := { eu with memory := none } }) h).of_eq rfl rfl rfl rfl
  · split at h
    · cases h
    · obtain ⟨line, _, h2⟩ := bind_ok_inv h
      obtain ⟨⟨mmu1, mem1⟩, h3, h4⟩ := bind_ok_inv h2
      obtain ⟨⟨m, mmu2⟩, h5, h6⟩ := bind_ok_inv h4
      simp only at h6
      split at h6
      · cases h6
      · exact (euRun_cnt h6).of_eq rfl rfl rfl rfl

theorem euStep_cnt {app : App} {s s2 : State} {eu : ExecUnit} {out : EuOut}
    (h : euStep app s eu = .ok (s2, out)) : Cnt s s2 := by
  unfold euStep at h
  simp only at h
  split at h
  · obtain ⟨rfl, _⟩ := ok_pair_inj h; exact Cnt.same rfl rfl rfl rfl
  · split at h
    · obtain ⟨rfl, _⟩ := ok_pair_inj h; exact Cnt.same rfl rfl rfl rfl
    · split at h
      · cases h
      · exact euIssue_cnt h

theorem euTake_cnt' {s s1 : State} {eu1 : ExecUnit} {go : Bool} (h : euTake s = .ok (s1, eu1, go)) :
    s1.cycles = s.cycles ∧ s1.fu = s.fu ∧ s1.wu = s.wu ∧ s1.executed = s.executed := by
  unfold euTake at h
  by_cases hp : s.eu.processing = true
  · simp only [hp, Bool.not_true, Bool.false_eq_true, if_false, pure, Except.pure] at h
    injection h with h; simp only [Prod.mk.injEq] at h; obtain ⟨rfl, _⟩ := h; exact ⟨rfl, rfl, rfl, rfl⟩
  · have hp' : s.eu.processing = false := by simpa using hp
    simp only [hp', Bool.not_false, if_true] at h
    cases hx : s.executeBus.get.1 with
    | none =>
      have hg : s.executeBus.get = (none, s.executeBus.get.2) := by rw [← hx]
      rw [hg] at h
      simp only [pure, Except.pure] at h
      injection h with h; simp only [Prod.mk.injEq] at h; obtain ⟨rfl, _⟩ := h; exact ⟨rfl, rfl, rfl, rfl⟩
    | some r =>
      have hg : s.executeBus.get = (some r, s.executeBus.get.2) := by rw [← hx]
      rw [hg] at h
      simp only at h
      cases hcy : Gen.InstructionType.Cycles r.instr.instructionType with
      | error f => simp [hcy, throw, throwThe, MonadExceptOf.throw] at h
      | ok c =>
        simp only [hcy, pure, Except.pure] at h
        injection h with h; simp only [Prod.mk.injEq] at h; obtain ⟨rfl, _⟩ := h; exact ⟨rfl, rfl, rfl, rfl⟩

theorem euTake_cnt {s s1 : State} {eu1 : ExecUnit} {go : Bool} (h : euTake s = .ok (s1, eu1, go)) : Cnt s s1 := by
  obtain ⟨h1, h2, h3, h4⟩ := euTake_cnt' h; exact Cnt.same h1 h2 h3 h4

theorem euTake_executed {s s1 : State} {eu1 : ExecUnit} {go : Bool} (h : euTake s = .ok (s1, eu1, go)) :
    s1.executed = s.executed := (euTake_cnt' h).2.2.2

theorem executeCycle_cnt {app : App} {s s2 : State} {out : EuOut}
    (h : executeCycle app s = .ok (s2, out)) : Cnt s s2 := by
  unfold executeCycle at h
  split at h
  · simp only at h
    split at h
    · obtain ⟨rfl, _⟩ := ok_pair_inj h; exact Cnt.same rfl rfl rfl rfl
    · split at h
      · cases h
      · exact euMemDone_cnt h
  · obtain ⟨⟨s1, eu1, go⟩, h1, h2⟩ := bind_ok_inv h
    have hs1 := euTake_cnt h1
    simp only at h2
    split at h2
    · obtain ⟨rfl, _⟩ := ok_pair_inj h2
      exact ⟨hs1.cycles, hs1.fu, hs1.wu, hs1.exLo, hs1.exHi⟩
    · have h3 := euStep_cnt h2
      have e1 : s1.executed = s.executed := euTake_executed h1
      exact ⟨by rw [h3.cycles, hs1.cycles], by rw [h3.fu, hs1.fu], by rw [h3.wu, hs1.wu],
        Nat.le_trans hs1.exLo h3.exLo, by rw [← e1]; exact h3.exHi⟩


/-! ### one tick and the counters (for every state) -/

/-- upper bounds on the latency counters of the fetch unit and of the write unit -/
def UB (s : State) : Prop :=
  (s.fu.processing = true → s.fu.remainingCycles ≤ Gen.Latency.MemoryAccess) ∧
  (s.wu.pendingMemoryWrite = true → s.wu.cycles ≤ Gen.Latency.MemoryAccess)

theorem fetchStart_ub {fu fu' : FetchUnit} {mmu mmu' : Model.Mmu.Mmu} (h : fetchStart fu mmu = .ok (fu', mmu'))
    (hub : fu.processing = true → fu.remainingCycles ≤ Gen.Latency.MemoryAccess) :
    fu'.remainingCycles ≤ Gen.Latency.MemoryAccess := by
  unfold fetchStart at h
  split at h
  · rename_i hp
    obtain ⟨⟨hit, m1⟩, _, h2⟩ := bind_ok_inv h
    simp only at h2
    split at h2
    · obtain ⟨rfl, _⟩ := ok_pair_inj h2; show (1 : Int) ≤ Gen.Latency.MemoryAccess; decide
    · split at h2
      · cases h2
      · obtain ⟨rfl, _⟩ := ok_pair_inj h2; exact Int.le_refl _
  · rename_i hp
    obtain ⟨rfl, _⟩ := ok_pair_inj h
    exact hub (by simpa using hp)

theorem fetchCore_ub {app : App} {fu fu' : FetchUnit} {mmu mmu' : Model.Mmu.Mmu} {bus bus' : SimpleBus Word}
    (h : fetchCore app fu mmu bus = .ok (fu', mmu', bus'))
    (hub : fu.processing = true → fu.remainingCycles ≤ Gen.Latency.MemoryAccess) :
    fu'.processing = true → fu'.remainingCycles ≤ Gen.Latency.MemoryAccess := by
  unfold fetchCore at h
  split at h
  · obtain ⟨rfl, _⟩ := ok_pair_inj h; exact hub
  · split at h
    · obtain ⟨rfl, _⟩ := ok_pair_inj h; exact hub
    · obtain ⟨⟨fu1, m1⟩, h1, h2⟩ := bind_ok_inv h
      have hle := fetchStart_ub h1 hub
      simp only at h2
      split at h2
      · split at h2
        · obtain ⟨rfl, _⟩ := ok_pair_inj h2; intro _; show (1 : Int) ≤ Gen.Latency.MemoryAccess; decide
        · obtain ⟨rfl, _⟩ := ok_pair_inj h2; intro hx; cases hx
      · obtain ⟨rfl, _⟩ := ok_pair_inj h2
        intro _
        show fu1.remainingCycles - 1 ≤ _
        omega

theorem fetchCycle_cnt {app : App} {s s1 : State} (h : fetchCycle app s = .ok s1) :
    s1.cycles = s.cycles ∧ s1.wu = s.wu ∧ s1.executed = s.executed ∧ s1.mode = s.mode ∧
    ((s.fu.processing = true → s.fu.remainingCycles ≤ Gen.Latency.MemoryAccess) →
      (s1.fu.processing = true → s1.fu.remainingCycles ≤ Gen.Latency.MemoryAccess)) := by
  unfold fetchCycle at h
  obtain ⟨⟨fu', mmu', bus'⟩, h1, h2⟩ := bind_ok_inv h
  simp only [pure, Except.pure] at h2
  injection h2 with h2; subst h2
  exact ⟨rfl, rfl, rfl, rfl, fetchCore_ub h1⟩

theorem decodeCycle_cnt {app : App} {s s1 : State} (h : decodeCycle app s = .ok s1) :
    s1.cycles = s.cycles ∧ s1.wu = s.wu ∧ s1.executed = s.executed ∧ s1.fu = s.fu ∧ s1.mode = s.mode := by
  unfold decodeCycle at h
  obtain ⟨⟨d, e⟩, _, h2⟩ := bind_ok_inv h
  simp only [pure, Except.pure] at h2
  injection h2 with h2; subst h2
  exact ⟨rfl, rfl, rfl, rfl, rfl⟩

theorem writeCore_ub {ctx ctx' : Model.Context} {pwmi pwmi' : List (Int × Int)} {bus bus' : SimpleBus ExecCtx}
    {wu wu' : WriteUnit} (h : writeCore ctx pwmi bus wu = .ok (ctx', pwmi', bus', wu'))
    (hub : wu.pendingMemoryWrite = true → wu.cycles ≤ Gen.Latency.MemoryAccess) :
    wu'.pendingMemoryWrite = true → wu'.cycles ≤ Gen.Latency.MemoryAccess := by
  unfold writeCore at h
  split at h
  · rename_i hp
    simp only [pure, Except.pure] at h
    injection h with h; simp only [Prod.mk.injEq] at h
    obtain ⟨_, _, _, rfl⟩ := h
    intro _
    have := hub hp
    show wu.cycles - 1 ≤ _
    omega
  · rename_i hp
    simp only at h
    split at h
    · simp only [pure, Except.pure] at h
      injection h with h; simp only [Prod.mk.injEq] at h
      obtain ⟨_, _, _, rfl⟩ := h
      exact hub
    · split at h
      · simp only [pure, Except.pure] at h
        injection h with h; simp only [Prod.mk.injEq] at h
        obtain ⟨_, _, _, rfl⟩ := h
        exact hub
      · split at h
        · split at h
          · cases h
          · obtain ⟨p', _, h2⟩ := bind_ok_inv h
            simp only [pure, Except.pure] at h2
            injection h2 with h2; simp only [Prod.mk.injEq] at h2
            obtain ⟨_, _, _, rfl⟩ := h2
            intro _; exact Int.le_refl _
        · simp only [pure, Except.pure] at h
          injection h with h; simp only [Prod.mk.injEq] at h
          obtain ⟨_, _, _, rfl⟩ := h
          exact hub

theorem writeCycle_cnt {s s1 : State} (h : writeCycle s = .ok s1) :
    s1.cycles = s.cycles ∧ s1.fu = s.fu ∧ s1.executed = s.executed ∧ s1.mode = s.mode ∧ s1.eu = s.eu ∧
    ((s.wu.pendingMemoryWrite = true → s.wu.cycles ≤ Gen.Latency.MemoryAccess) →
      (s1.wu.pendingMemoryWrite = true → s1.wu.cycles ≤ Gen.Latency.MemoryAccess)) := by
  unfold writeCycle at h
  obtain ⟨⟨ctx', pwmi', bus', wu'⟩, h1, h2⟩ := bind_ok_inv h
  simp only [pure, Except.pure] at h2
  injection h2 with h2; subst h2
  exact ⟨rfl, rfl, rfl, rfl, rfl, writeCore_ub h1⟩

theorem finish_cnt {s s' : State} {hk : Halt} {ev : Event} (h : finish s hk = .ok (s', ev)) :
    ev = .done hk ∧ s'.cycles = s.cycles + s'.mmu.l1d.lines.length * Gen.Latency.MemoryAccess ∧
    s'.executed = s.executed := by
  unfold finish at h
  obtain ⟨⟨mem, extra⟩, h1, h2⟩ := bind_ok_inv h
  simp only [pure, Except.pure] at h2
  obtain ⟨rfl, rfl⟩ := ok_pair_inj h2
  unfold Model.Mmu.flush LineCache.lines at h1
  have := Proofs.Mvp3Cycles.flushLines_cost cfg _ _ _ _ _ h1
  refine ⟨rfl, ?_, rfl⟩
  show s.cycles + extra = s.cycles + s.mmu.l1d.lines.length * Gen.Latency.MemoryAccess
  rw [this]; omega

theorem memAccess_nonneg : (0 : Int) ≤ Gen.Latency.MemoryAccess := by decide

/-- what one tick does to the counters -/
structure TickCnt (s s' : State) (ev : Event) : Prop where
  cycLo : s.cycles ≤ s'.cycles
  exLo : s.executed ≤ s'.executed
  exCyc : (s'.executed : Int) - s.executed ≤ s'.cycles - s.cycles
  inc : (∀ w, ev ≠ .done (.panic w)) → s.mode ≠ .drainRet → s.cycles + 1 ≤ s'.cycles
  run : ev = .running → s'.cycles ≤ s.cycles + 1 ∧ (UB s → UB s')
  err : ev = .done .err → s'.cycles ≤ s.cycles + 1
  fin : ∀ hk, ev = .done hk → s'.cycles ≤ s.cycles + 1 + s'.mmu.l1d.lines.length * Gen.Latency.MemoryAccess

theorem lines_cost_nonneg (n : Nat) : (0 : Int) ≤ (n : Int) * Gen.Latency.MemoryAccess :=
  Int.mul_nonneg (Int.natCast_nonneg _) memAccess_nonneg

theorem afterExecute_cnt {s s' : State} {out : EuOut} {ev : Event} (h : afterExecute s out = .ok (s', ev)) :
    s.cycles ≤ s'.cycles ∧ s'.executed = s.executed ∧
    (ev = .running → s'.cycles = s.cycles ∧
      ((s.fu.processing = true → s.fu.remainingCycles ≤ Gen.Latency.MemoryAccess) →
       (s.wu.pendingMemoryWrite = true → s.wu.cycles ≤ Gen.Latency.MemoryAccess) → UB s')) ∧
    (ev = .done .err → s'.cycles = s.cycles) ∧
    (∀ hk, ev = .done hk → s'.cycles ≤ s.cycles + s'.mmu.l1d.lines.length * Gen.Latency.MemoryAccess) := by
  unfold afterExecute at h
  cases out with
  | err =>
    simp only [pure, Except.pure] at h
    obtain ⟨rfl, rfl⟩ := ok_pair_inj h
    refine ⟨Int.le_refl _, rfl, fun hx => (nomatch hx), fun _ => rfl, fun hk _ => ?_⟩
    have := lines_cost_nonneg s.mmu.l1d.lines.length
    omega
  | none =>
    try simp only at h
    obtain ⟨s4, h4, h5⟩ := bind_ok_inv h
    obtain ⟨w1, w2, w3, w4, w5, w6⟩ := writeCycle_cnt h4
    try simp only at h5
    split at h5
    · obtain ⟨rfl, f2, f3⟩ := finish_cnt h5
      have := lines_cost_nonneg s'.mmu.l1d.lines.length
      refine ⟨by rw [f2, w1]; omega, by rw [f3, w3], fun hx => (nomatch hx), fun hx => (nomatch hx), fun hk _ => ?_⟩
      rw [f2, w1]; omega
    · simp only [pure, Except.pure] at h5
      obtain ⟨rfl, rfl⟩ := ok_pair_inj h5
      have := lines_cost_nonneg s4.mmu.l1d.lines.length
      exact ⟨by rw [w1]; exact Int.le_refl _, w3, fun _ => ⟨w1, fun u1 u2 => ⟨by rw [w2]; exact u1, w6 u2⟩⟩,
        fun hx => (nomatch hx), fun hk hx => (nomatch hx)⟩
  | ret =>
    try simp only at h
    obtain ⟨s4, h4, h5⟩ := bind_ok_inv h
    obtain ⟨w1, w2, w3, w4, w5, w6⟩ := writeCycle_cnt h4
    try simp only at h5
    split at h5
    · simp only [pure, Except.pure] at h5
      obtain ⟨rfl, rfl⟩ := ok_pair_inj h5
      exact ⟨by show s.cycles ≤ s4.cycles; rw [w1]; exact Int.le_refl _, w3,
        fun _ => ⟨w1, fun u1 u2 => ⟨by show s4.fu.processing = true → _; rw [w2]; exact u1, w6 u2⟩⟩,
        fun hx => (nomatch hx), fun hk hx => (nomatch hx)⟩
    · obtain ⟨rfl, f2, f3⟩ := finish_cnt h5
      have := lines_cost_nonneg s'.mmu.l1d.lines.length
      refine ⟨by rw [f2, w1]; omega, by rw [f3, w3], fun hx => (nomatch hx), fun hx => (nomatch hx), fun hk _ => ?_⟩
      rw [f2, w1]; omega
  | flush pc =>
    try simp only at h
    obtain ⟨s4, h4, h5⟩ := bind_ok_inv h
    obtain ⟨w1, w2, w3, w4, w5, w6⟩ := writeCycle_cnt h4
    try simp only at h5
    split at h5
    · simp only [pure, Except.pure] at h5
      obtain ⟨rfl, rfl⟩ := ok_pair_inj h5
      exact ⟨by show s.cycles ≤ s4.cycles; rw [w1]; exact Int.le_refl _, w3,
        fun _ => ⟨w1, fun u1 u2 => ⟨by show s4.fu.processing = true → _; rw [w2]; exact u1, w6 u2⟩⟩,
        fun hx => (nomatch hx), fun hk hx => (nomatch hx)⟩
    · simp only [pure, Except.pure] at h5
      obtain ⟨rfl, rfl⟩ := ok_pair_inj h5
      exact ⟨by show s.cycles ≤ s4.cycles; rw [w1]; exact Int.le_refl _, w3,
        fun _ => ⟨w1, fun u1 u2 => ⟨fun hx => (by simp [flushAll, FetchUnit.flush] at hx), w6 u2⟩⟩,
        fun hx => (nomatch hx), fun hk hx => (nomatch hx)⟩

/-- **one tick and the counters**, for every state: the cycle counter never decreases and goes up by one in the normal
mode; at most one instruction is executed, and only in a tick that counts a cycle; a tick that does not end the run
adds at most one cycle and keeps the bounds on the latency counters; the last tick adds the cost of the final flush -/
theorem cycleM_cnt {app : App} {s s' : State} {ev : Event} (h : cycleM app s = .ok (s', ev)) : TickCnt s s' ev := by
  unfold cycleM at h
  cases hm : s.mode with
  | normal =>
    simp only [hm] at h
    obtain ⟨s1, h1, h⟩ := bind_ok_inv h
    obtain ⟨s2, h2, h⟩ := bind_ok_inv h
    obtain ⟨⟨s3, out⟩, h3, h⟩ := bind_ok_inv h
    simp only at h
    obtain ⟨a1, a2, a3, _, a5⟩ := fetchCycle_cnt h1
    obtain ⟨b1, b2, b3, b4, _⟩ := decodeCycle_cnt h2
    have c := executeCycle_cnt h3
    obtain ⟨d1, d2, d3, d4, d5⟩ := afterExecute_cnt h
    have hc3 : s3.cycles = s.cycles + 1 := by rw [c.cycles, b1, a1]
    have he3lo : s.executed ≤ s3.executed := by have := c.exLo; rw [b3, a3] at this; exact this
    have he3hi : s3.executed ≤ s.executed + 1 := by have := c.exHi; rw [b3, a3] at this; exact this
    refine { cycLo := by omega, exLo := by rw [d2]; exact he3lo, exCyc := by rw [d2]; omega,
             inc := fun _ _ => by omega, run := fun hx => ?_, err := fun hx => by rw [d4 hx]; omega,
             fin := fun hk hx => by have := d5 hk hx; omega }
    obtain ⟨e1, e2⟩ := d3 hx
    refine ⟨by omega, fun hub => e2 ?_ ?_⟩
    · rw [c.fu, b4]; exact a5 hub.1
    · rw [c.wu, b2, a2]; exact hub.2
  | drainRet =>
    simp only [hm] at h
    obtain ⟨s4, h4, h5⟩ := bind_ok_inv h
    obtain ⟨w1, w2, w3, w4, w5, w6⟩ := writeCycle_cnt h4
    try simp only at h5
    split at h5
    · simp only [pure, Except.pure] at h5
      obtain ⟨rfl, rfl⟩ := ok_pair_inj h5
      exact { cycLo := by rw [w1]; exact Int.le_refl _, exLo := by rw [w3]; exact Nat.le_refl _, exCyc := by rw [w1, w3]; omega,
              inc := fun _ hx => absurd hm hx,
              run := fun _ => ⟨by rw [w1]; omega, fun hub => ⟨by rw [w2]; exact hub.1, w6 hub.2⟩⟩,
              err := fun hx => (nomatch hx), fin := fun hk hx => (nomatch hx) }
    · obtain ⟨rfl, f2, f3⟩ := finish_cnt h5
      have := lines_cost_nonneg s'.mmu.l1d.lines.length
      exact { cycLo := by rw [f2, w1]; omega, exLo := by rw [f3, w3]; exact Nat.le_refl _, exCyc := by rw [f2, f3, w1, w3]; omega,
              inc := fun _ hx => absurd hm hx, run := fun hx => (nomatch hx),
              err := fun hx => (nomatch hx), fin := fun hk _ => by rw [f2, w1]; omega }
  | drainFlush pc =>
    simp only [hm] at h
    obtain ⟨s4, h4, h5⟩ := bind_ok_inv h
    obtain ⟨w1, w2, w3, w4, w5, w6⟩ := writeCycle_cnt h4
    try simp only at h5
    have hc4 : s4.cycles = s.cycles + 1 := w1
    have he4 : s4.executed = s.executed := w3
    split at h5
    · simp only [pure, Except.pure] at h5
      obtain ⟨rfl, rfl⟩ := ok_pair_inj h5
      exact { cycLo := by omega, exLo := by rw [he4]; exact Nat.le_refl _, exCyc := by rw [he4]; omega,
              inc := fun _ _ => by omega,
              run := fun _ => ⟨by omega, fun hub => ⟨by rw [w2]; exact hub.1, w6 hub.2⟩⟩,
              err := fun hx => (nomatch hx), fin := fun hk hx => (nomatch hx) }
    · simp only [pure, Except.pure] at h5
      obtain ⟨rfl, rfl⟩ := ok_pair_inj h5
      exact { cycLo := by show s.cycles ≤ s4.cycles; omega, exLo := by show s.executed ≤ s4.executed; rw [he4]; exact Nat.le_refl _,
              exCyc := by show (s4.executed : Int) - _ ≤ s4.cycles - _; rw [he4]; omega,
              inc := fun _ _ => (by show s.cycles + 1 ≤ s4.cycles; omega),
              run := fun _ => ⟨by show s4.cycles ≤ _; omega,
                fun hub => ⟨fun hx => (by simp [flushAll, FetchUnit.flush] at hx), w6 hub.2⟩⟩,
              err := fun hx => (nomatch hx), fin := fun hk hx => (nomatch hx) }

theorem cycle_cnt {app : App} {s s' : State} {ev : Event} (h : cycle app s = (s', ev)) : TickCnt s s' ev := by
  unfold cycle at h
  cases hc : cycleM app s with
  | ok r =>
    obtain ⟨s1, ev1⟩ := r
    simp only [hc, Prod.mk.injEq] at h
    obtain ⟨rfl, rfl⟩ := h
    exact cycleM_cnt hc
  | error f =>
    have hst : s' = s ∧ ∃ w, ev = .done (.panic w) := by
      cases f with
      | panic w => simp only [hc, Prod.mk.injEq] at h; exact ⟨h.1.symm, w, h.2.symm⟩
      | err w => simp only [hc, Prod.mk.injEq] at h; exact ⟨h.1.symm, w, h.2.symm⟩
    obtain ⟨rfl, w, rfl⟩ := hst
    have := lines_cost_nonneg s'.mmu.l1d.lines.length
    exact { cycLo := Int.le_refl _, exLo := Nat.le_refl _, exCyc := by omega,
            inc := fun hx => absurd rfl (hx w), run := fun hx => (nomatch hx), err := fun hx => (nomatch hx),
            fin := fun hk _ => by omega }


/-! ### whole runs: the lower bound (for every run) -/

theorem runFrom_cnt (app : App) : ∀ (fuel : Nat) (s : State) (n : Nat),
    s.cycles ≤ (runFrom app fuel s n).final.cycles ∧ s.executed ≤ (runFrom app fuel s n).final.executed ∧
    ((runFrom app fuel s n).final.executed : Int) - s.executed ≤ (runFrom app fuel s n).final.cycles - s.cycles
  | 0, s, n => by
    unfold runFrom
    show s.cycles ≤ s.cycles ∧ s.executed ≤ s.executed ∧ (s.executed : Int) - s.executed ≤ s.cycles - s.cycles
    exact ⟨Int.le_refl _, Nat.le_refl _, by omega⟩
  | fuel + 1, s, n => by
    unfold runFrom
    cases hc : cycle app s with
    | mk s' ev =>
      have t := cycle_cnt hc
      cases ev with
      | running =>
        simp only
        obtain ⟨i1, i2, i3⟩ := runFrom_cnt app fuel s' (n + 1)
        have := t.cycLo; have := t.exLo; have := t.exCyc
        exact ⟨by omega, by omega, by omega⟩
      | done hk =>
        simp only
        exact ⟨t.cycLo, t.exLo, t.exCyc⟩

theorem runFrom_pos (app : App) {fuel : Nat} {s : State} {n : Nat} {hk : Halt}
    (hh : (runFrom app fuel s n).halt = some hk) (hnp : ∀ w, hk ≠ .panic w) (hm : s.mode ≠ .drainRet) :
    s.cycles + 1 ≤ (runFrom app fuel s n).final.cycles := by
  cases fuel with
  | zero => unfold runFrom at hh; cases hh
  | succ fuel =>
    unfold runFrom at hh ⊢
    cases hc : cycle app s with
    | mk s' ev =>
      have t := cycle_cnt hc
      cases ev with
      | running =>
        simp only [hc] at hh ⊢
        have h1 := t.inc (fun w h => by cases h) hm
        have h2 := (runFrom_cnt app fuel s' (n + 1)).1
        omega
      | done hk' =>
        simp only [hc] at hh ⊢
        have : hk' = hk := by injection hh
        subst this
        exact t.inc (fun w h => by injection h with h; exact hnp w h) hm

theorem init_counters {ctx : Model.Context} {s0 : State} (h : init ctx = .ok s0) :
    s0.cycles = 0 ∧ s0.executed = 0 ∧ s0.mode = .normal ∧ s0.fu.processing = false ∧ s0.wu.pendingMemoryWrite = false ∧
    s0.eu.processing = false ∧ s0.eu.pendingMemoryRead = false := by
  unfold init at h
  obtain ⟨u, _, h2⟩ := bind_ok_inv h
  simp only [pure, Except.pure] at h2
  injection h2 with h2; subst h2
  exact ⟨rfl, rfl, rfl, rfl, rfl, rfl, rfl⟩

/-- **lower bound, MVP-4, every run**: the cycle counter is at least the number of executed instructions -/
theorem run_executed_le_cycles (app : App) (ctx : Model.Context) (ticks : Nat) :
    ((Model.Mvp4.run app ctx ticks).final.executed : Int) ≤ (Model.Mvp4.run app ctx ticks).final.cycles := by
  unfold Model.Mvp4.run
  cases hi : init ctx with
  | error e => simp only; show ((0 : Nat) : Int) ≤ 0; omega
  | ok s0 =>
    simp only
    obtain ⟨c0, e0, _⟩ := init_counters hi
    obtain ⟨_, _, h3⟩ := runFrom_cnt app ticks s0 0
    rw [c0, e0] at h3
    omega

/-- **positivity**: a run that ends (not with a panic) has counted at least one cycle -/
theorem run_cycles_pos (app : App) (ctx : Model.Context) (ticks : Nat) (hk : Halt)
    (hh : (Model.Mvp4.run app ctx ticks).halt = some hk) (hnp : ∀ w, hk ≠ .panic w) :
    1 ≤ (Model.Mvp4.run app ctx ticks).final.cycles := by
  unfold Model.Mvp4.run at hh ⊢
  cases hi : init ctx with
  | error e =>
    simp only [hi] at hh
    injection hh with hh
    exact absurd hh.symm (hnp _)
  | ok s0 =>
    simp only [hi] at hh ⊢
    obtain ⟨c0, _, m0, _⟩ := init_counters hi
    have := runFrom_pos app hh hnp (by rw [m0]; intro hx; cases hx)
    omega

theorem runFrom_ticks_le (app : App) : ∀ (t : Nat) (s : State) (n : Nat), (runFrom app t s n).ticks ≤ n + t
  | 0, s, n => by unfold runFrom; exact Nat.le_refl _
  | t + 1, s, n => by
    unfold runFrom
    cases hc : cycle app s with
    | mk s' ev =>
      cases ev with
      | running => simp only; have := runFrom_ticks_le app t s' (n + 1); omega
      | done hk => simp only; omega

/-- a larger tick budget does not change a run that has ended -/
theorem runFrom_mono (app : App) : ∀ (t : Nat) (s : State) (n : Nat) (hk : Halt) (t' : Nat),
    (runFrom app t s n).halt = some hk → t ≤ t' → runFrom app t' s n = runFrom app t s n
  | 0, s, n, hk, t', hh, _ => by unfold runFrom at hh; cases hh
  | t + 1, s, n, hk, t', hh, hle => by
    obtain ⟨t'', rfl⟩ : ∃ t'', t' = t'' + 1 := ⟨t' - 1, by omega⟩
    unfold runFrom at hh ⊢
    cases hc : cycle app s with
    | mk s' ev =>
      cases ev with
      | running =>
        simp only [hc] at hh ⊢
        exact runFrom_mono app t s' (n + 1) hk t'' hh (by omega)
      | done hk' => rfl


/-! ### the measure right after an executed instruction is bounded -/

theorem fuW_ub (app : App) (fu : FetchUnit)
    (h : fu.processing = true → fu.remainingCycles ≤ Gen.Latency.MemoryAccess) :
    fuW app fu ≤ 3 + Gen.Latency.MemoryAccess.toNat := by
  unfold fuW
  split
  · omega
  · split
    · omega
    · split
      · rename_i hp
        have := h hp
        have : fu.remainingCycles.toNat ≤ Gen.Latency.MemoryAccess.toNat := Int.toNat_le_toNat this
        omega
      · omega

theorem wW_ub (wu : WriteUnit) (bus : SimpleBus ExecCtx)
    (h : wu.pendingMemoryWrite = true → wu.cycles ≤ Gen.Latency.MemoryAccess) :
    wW wu bus ≤ 3 * Gen.Latency.MemoryAccess.toNat + 3 := by
  unfold wW
  have h1 : (if wu.pendingMemoryWrite then wu.cycles.toNat else 0) ≤ Gen.Latency.MemoryAccess.toNat := by
    split
    · rename_i hp; exact Int.toNat_le_toNat (h hp)
    · omega
  have hc : ∀ x, costCur x ≤ Gen.Latency.MemoryAccess.toNat + 1 := by
    intro x
    cases x with
    | none => simp [costCur]
    | some ec => simp only [costCur]; split <;> omega
  have h2 := hc bus.current
  have h3 : costPend bus.pending ≤ Gen.Latency.MemoryAccess.toNat + 2 := by
    cases hx : bus.pending with
    | none => simp [costPend]
    | some ec => simp only [costPend]; have := hc (some ec); omega
  omega

/-- the bound on the measure in a fresh state: the write bus full of stores behind a store in progress, the front end
empty, the fetch unit starting a line fetch — or the drain before a flush -/
def phiBound : Nat := 4 * Gen.Latency.MemoryAccess.toNat + 2003

theorem phi_fresh_le (app : App) (s : State) (hub : UB s) (hf : Fresh s) : phi app s ≤ phiBound := by
  have hw := wW_ub s.wu s.writeBus hub.2
  have hb : phiBound = 4 * Gen.Latency.MemoryAccess.toNat + 2003 := rfl
  rw [hb]
  unfold phi
  cases hm : s.mode with
  | normal =>
    obtain ⟨hp, hq⟩ := hf.2 hm
    have hF := frontW_le_five (app := app) s.executeBus s.decodeBus s.fu
    have hfw := fuW_ub app s.fu hub.1
    have he : euPhi app s = 500 + frontW app s.executeBus s.decodeBus s.fu := by
      unfold euPhi; simp only [hp, hq, Bool.false_eq_true, if_false]
    show wW s.wu s.writeBus + euPhi app s ≤ _
    rw [he]
    generalize Gen.Latency.MemoryAccess.toNat = M at hw hfw ⊢
    omega
  | drainRet =>
    show wW s.wu s.writeBus ≤ _
    generalize Gen.Latency.MemoryAccess.toNat = M at hw ⊢
    omega
  | drainFlush pc =>
    show 2000 + wW s.wu s.writeBus ≤ _
    generalize Gen.Latency.MemoryAccess.toNat = M at hw ⊢
    omega


/-! ### the run ends within a bounded number of ticks -/

/-- the run from `s` ends within `T` ticks, not with a panic; the returned cycle count exceeds the current one by at
most the ticks plus the final flush of at most 16 lines, and by at least `lo` -/
def EndsIn (app : App) (s : State) (n T lo : Nat) : Prop :=
  ∃ t hk, t ≤ T ∧ (runFrom app t s n).halt = some hk ∧ (∀ w, hk ≠ .panic w) ∧
    (runFrom app t s n).final.cycles ≤ s.cycles + t + 16 * Gen.Latency.MemoryAccess ∧
    s.cycles + lo ≤ (runFrom app t s n).final.cycles

theorem EndsIn.mono {app : App} {s : State} {n T T' lo lo' : Nat} (h : EndsIn app s n T lo) (hle : T ≤ T')
    (hlo : lo' ≤ lo) : EndsIn app s n T' lo' := by
  obtain ⟨t, hk, h1, h2, h3, h4, h5⟩ := h
  exact ⟨t, hk, Nat.le_trans h1 hle, h2, h3, h4, by omega⟩

/-- one more tick in front; it counts a cycle unless the machine is draining after `ret` -/
theorem endsIn_of_running {app : App} {s s' : State} {n T lo : Nat} (h : cycle app s = (s', .running))
    (he : EndsIn app s' (n + 1) T lo) :
    EndsIn app s n (T + 1) lo ∧ (s.mode ≠ .drainRet → EndsIn app s n (T + 1) (lo + 1)) := by
  obtain ⟨t, hk, h1, h2, h3, h4, h5⟩ := he
  have tc := cycle_cnt h
  have hc := (tc.run rfl).1
  have hlo := tc.cycLo
  have key : ∀ lo' : Nat, s.cycles + lo' ≤ s'.cycles + lo → EndsIn app s n (T + 1) lo' := by
    intro lo' hl
    refine ⟨t + 1, hk, by omega, ?_, h3, ?_, ?_⟩
    · unfold runFrom; simp only [h]; exact h2
    · unfold runFrom; simp only [h]
      have : ((t + 1 : Nat) : Int) = (t : Int) + 1 := by omega
      rw [this]; omega
    · unfold runFrom; simp only [h]; omega
  refine ⟨key lo (by omega), fun hm => key (lo + 1) ?_⟩
  have := tc.inc (fun w hx => by cases hx) hm
  have : ((lo + 1 : Nat) : Int) = (lo : Int) + 1 := by omega
  omega

theorem endsIn_of_done {app : App} {s s' : State} {n : Nat} {hk : Halt} (h : cycle app s = (s', .done hk))
    (hnp : ∀ w, hk ≠ .panic w) (hl : s'.mmu.l1d.lines.length ≤ 16 ∨ hk = .err) :
    EndsIn app s n 1 0 ∧ (s.mode ≠ .drainRet → EndsIn app s n 1 1) := by
  have t := cycle_cnt h
  have hma := memAccess_nonneg
  have hub : s'.cycles ≤ s.cycles + 1 + 16 * Gen.Latency.MemoryAccess := by
    rcases hl with hl | rfl
    · have h1 := t.fin hk rfl
      have h2 : (s'.mmu.l1d.lines.length : Int) * Gen.Latency.MemoryAccess ≤ 16 * Gen.Latency.MemoryAccess :=
        Int.mul_le_mul_of_nonneg_right (by omega) hma
      omega
    · have h1 := t.err rfl
      omega
  have key : ∀ lo' : Nat, s.cycles + lo' ≤ s'.cycles → EndsIn app s n 1 lo' := by
    intro lo' hl'
    refine ⟨1, hk, Nat.le_refl _, ?_, hnp, ?_, ?_⟩
    · unfold runFrom; simp only [h]
    · unfold runFrom; simp only [h]
      have : ((1 : Nat) : Int) = 1 := rfl
      omega
    · unfold runFrom; simp only [h]; exact hl'
  refine ⟨key 0 (by have := t.cycLo; omega), fun hm => key 1 ?_⟩
  have := t.inc (fun w hx => by injection hx with hx; exact hnp w hx) hm
  have : ((1 : Nat) : Int) = 1 := rfl
  omega

/-- what the inner induction proves about the ticks spent at one architectural state `a` (tick budget `B + T'`): the
run ends; it counts a cycle unless the machine is draining after `ret`; and if `a` has a next instruction, the run
counts one cycle more than the rest of the run from the next architectural state — or that state is past the end of
the program (the run may then end in the very tick that executes the last instruction) -/
def AtPost (app : App) (a : Arch) (T' lo B : Nat) (s : State) (n : Nat) : Prop :=
  EndsIn app s n (B + T') 0 ∧ (s.mode ≠ .drainRet → EndsIn app s n (B + T') 1) ∧
  (s.mode ≠ .drainRet → ∀ a' c, stepArch dc app a = .next a' c →
    EndsIn app s n (B + T') (lo + 1) ∨ ∃ c', stepArch dc app a' = .halt .offEnd c')

theorem endsIn_tick {app : App} (hsmall : app.instrs.length < 250) (hnf : NoFwd app) (a : Arch)
    (hok : stepOk app a = true) (hgood : SeqGood app a) (hapc : a.pc.toNat ≤ 4 * app.instrs.length)
    (hnext : ∀ a' c, stepArch dc app a = .next a' c → a'.pc.toNat ≤ 4 * app.instrs.length) (T' lo : Nat)
    (hcont : ∀ a' c s' n, stepArch dc app a = .next a' c → Rel app s' a' → Live app s' → UB s' → Fresh s' →
      EndsIn app s' n T' lo)
    (B : Nat) (s : State) (n : Nat)
    (ih : ∀ s' n', phi app s' < phi app s → Rel app s' a → Live app s' → UB s' → AtPost app a T' lo B s' n')
    (hR : Rel app s a) (hlv : Live app s) (hub : UB s) : AtPost app a T' lo (B + 1) s n := by
  obtain ⟨s', ev, hc, hpost⟩ := cycle_live hsmall hR hlv hnf hok hgood hapc hnext
  have tp := cycle_sim hR hnf hok hc
  cases ev with
  | running =>
    have hub' := ((cycle_cnt hc).run rfl).2 hub
    rcases hpost with ⟨hR', hlv', hlt⟩ | ⟨a1, c, hst1, hR', hlv', hfr⟩
    · obtain ⟨c1, c2, c3⟩ := ih s' (n + 1) hlt hR' hlv' hub'
      obtain ⟨e1, e2⟩ := endsIn_of_running hc c1
      refine ⟨e1.mono (by omega) (Nat.le_refl _), fun hm => (e2 hm).mono (by omega) (Nat.le_refl _), ?_⟩
      intro hm a' c hst
      have hm' : s'.mode ≠ .drainRet := by
        intro hx
        have := hR'.front; rw [hx] at this
        obtain ⟨c0, h0⟩ := this
        rw [hst] at h0; cases h0
      rcases c3 hm' a' c hst with h | h
      · exact Or.inl ((endsIn_of_running hc h).1.mono (by omega) (Nat.le_refl _))
      · exact Or.inr h
    · obtain ⟨e1, e2⟩ := endsIn_of_running hc (hcont a1 c s' (n + 1) hst1 hR' hlv' hub' hfr)
      exact ⟨e1.mono (by omega) (Nat.zero_le _), fun hm => (e2 hm).mono (by omega) (by omega),
        fun hm _ _ _ => Or.inl ((e2 hm).mono (by omega) (Nat.le_refl _))⟩
  | done hk' =>
    cases hk' with
    | panic w => exact hpost.elim
    | ret =>
      obtain ⟨d1, d2⟩ := endsIn_of_done (n := n) hc (fun w h => by cases h) (Or.inl hpost.2)
      refine ⟨d1.mono (by omega) (Nat.le_refl _), fun hm => (d2 hm).mono (by omega) (Nat.le_refl _), ?_⟩
      intro _ a' c hst
      obtain ⟨c0, h0⟩ := hpost.1
      rw [hst] at h0; cases h0
    | err =>
      obtain ⟨d1, d2⟩ := endsIn_of_done (n := n) hc (fun w h => by cases h) (Or.inr rfl)
      refine ⟨d1.mono (by omega) (Nat.le_refl _), fun hm => (d2 hm).mono (by omega) (Nat.le_refl _), ?_⟩
      intro _ a' c hst
      obtain ⟨c0, h0⟩ := tp
      rw [hst] at h0; cases h0
    | offEnd =>
      obtain ⟨d1, d2⟩ := endsIn_of_done (n := n) hc (fun w h => by cases h) (Or.inl hpost)
      refine ⟨d1.mono (by omega) (Nat.le_refl _), fun hm => (d2 hm).mono (by omega) (Nat.le_refl _), ?_⟩
      intro _ a' c hst
      obtain ⟨a1, h01, ⟨c', hoff⟩, _⟩ := tp
      rcases h01 with rfl | ⟨c2, hst2⟩
      · rw [hst] at hoff; cases hoff
      · rw [hst] at hst2; injection hst2 with hst2 _; subst hst2
        exact Or.inr ⟨c', hoff⟩

/-- the inner induction, counting: from a state with measure at most `k` the run needs at most `k + 1` ticks to end
or to execute the next instruction -/
theorem endsIn_at {app : App} (hsmall : app.instrs.length < 250) (hnf : NoFwd app) (a : Arch)
    (hok : stepOk app a = true) (hgood : SeqGood app a) (hapc : a.pc.toNat ≤ 4 * app.instrs.length)
    (hnext : ∀ a' c, stepArch dc app a = .next a' c → a'.pc.toNat ≤ 4 * app.instrs.length) (T' lo : Nat)
    (hcont : ∀ a' c s' n, stepArch dc app a = .next a' c → Rel app s' a' → Live app s' → UB s' → Fresh s' →
      EndsIn app s' n T' lo) :
    ∀ (k : Nat) (s : State) (n : Nat), phi app s ≤ k → Rel app s a → Live app s → UB s →
      AtPost app a T' lo (k + 1) s n := by
  intro k
  induction k with
  | zero =>
    intro s n hk hR hlv hub
    exact endsIn_tick hsmall hnf a hok hgood hapc hnext T' lo hcont 0 s n (fun s' n' hlt => by omega) hR hlv hub
  | succ k ih =>
    intro s n hk hR hlv hub
    exact endsIn_tick hsmall hnf a hok hgood hapc hnext T' lo hcont (k + 1) s n
      (fun s' n' hlt hR' hlv' hub' => ih s' n' (by omega) hR' hlv' hub') hR hlv hub

theorem go_steps_ge (p : Spec.Asm.Program) : ∀ (fuel : Nat) (pc : Word) (m : Spec.Machine) (k : Nat) (tr : Array Spec.Event),
    k ≤ (Spec.run.go p fuel pc m k tr).steps
  | 0, pc, m, k, tr => by unfold Spec.run.go; exact Nat.le_refl _
  | fuel + 1, pc, m, k, tr => by
    unfold Spec.run.go
    cases hs : Spec.step p pc m with
    | inl st => cases st <;> simp
    | inr x =>
      obtain ⟨pc', m', ev⟩ := x
      simp only
      have := go_steps_ge p fuel pc' m' (k + 1) (tr.push ev)
      omega

/-- a specification run that starts where the unpipelined machine is past the end of the program executes nothing -/
theorem go_steps_of_offEnd (app : App) (hw : Proofs.Refine.WfApp app) (fuel : Nat) (ctx : Model.Context)
    (m : Spec.Machine) (pc : Word) (k : Nat) (tr : Array Spec.Event) (hR : Proofs.Refine.Rel ctx m)
    (hpc : pc.toNat ≤ 4 * app.instrs.length)
    (hwf : ∀ why, (Spec.run.go (Proofs.Refine.specProg app) fuel pc m k tr).stop ≠ .notWf why)
    (c : StepCost) (hoff : stepArch dc app ⟨ctx, pc⟩ = .halt .offEnd c) :
    (Spec.run.go (Proofs.Refine.specProg app) fuel pc m k tr).steps = k := by
  cases fuel with
  | zero => exact absurd rfl (hwf "fuel exhausted")
  | succ fuel =>
    obtain ⟨hnext, _, hret, herr⟩ := Proofs.Refine.step_sim dc app hw ctx m hR pc hpc
    unfold Spec.run.go at hwf ⊢
    cases hs : Spec.step (Proofs.Refine.specProg app) pc m with
    | inl st =>
      rw [hs] at hwf
      simp only at hwf ⊢
      cases st with
      | offEnd => rfl
      | ret => obtain ⟨c', hc'⟩ := hret hs; rw [hoff] at hc'; cases hc'
      | error e => obtain ⟨c', hc'⟩ := herr e hs; rw [hoff] at hc'; cases hc'
      | notWf w => exact absurd rfl (hwf w)
    | inr x =>
      obtain ⟨pc', m', ev⟩ := x
      obtain ⟨ctx', c', hc', _⟩ := hnext pc' m' ev hs
      rw [hoff] at hc'; cases hc'

/-- the outer induction over the steps of the specification run, counting: `phiBound + 1` ticks per instruction, and
at least one cycle per instruction -/
theorem endsIn_of_spec (app : App) (hw : Proofs.Refine.WfApp app) :
    ∀ (fuel : Nat) (ctx : Model.Context) (m : Spec.Machine) (pc : Word) (k : Nat) (tr : Array Spec.Event),
      Proofs.Refine.Rel ctx m → m.mem.size + 64 ≤ 2 ^ 31 → pc.toNat ≤ 4 * app.instrs.length →
      (∀ why, (Spec.run.go (Proofs.Refine.specProg app) fuel pc m k tr).stop ≠ .notWf why) →
      ∀ (s : State) (n : Nat), Rel app s ⟨ctx, pc⟩ → Live app s → UB s → Fresh s →
        EndsIn app s n ((phiBound + 1) * ((Spec.run.go (Proofs.Refine.specProg app) fuel pc m k tr).steps + 1 - k))
          ((Spec.run.go (Proofs.Refine.specProg app) fuel pc m k tr).steps - k) := by
  intro fuel
  induction fuel with
  | zero =>
    intro ctx m pc k tr _ _ _ hwf
    exact absurd rfl (hwf "fuel exhausted")
  | succ fuel ih =>
    intro ctx m pc k tr hR hsz hpc hwf s n hRel hlv hub hfr
    have hok : stepOk app ⟨ctx, pc⟩ = true :=
      stepOk_of_seqOk_one (seqOk_of_spec_go app hw (fuel + 1) ctx m pc k tr 1 hR hsz hpc hwf)
    obtain ⟨hnext, hoff, hret, herr⟩ := Proofs.Refine.step_sim dc app hw ctx m hR pc hpc
    have hphi := phi_fresh_le app s hub hfr
    have hge := go_steps_ge (Proofs.Refine.specProg app) (fuel + 1) pc m k tr
    unfold Spec.run.go at hwf hge ⊢
    cases hs : Spec.step (Proofs.Refine.specProg app) pc m with
    | inl st =>
      rw [hs] at hwf
      simp only at hwf
      have hhalt : ∃ h c, stepArch dc app ⟨ctx, pc⟩ = .halt h c ∧ ∀ w, h ≠ .panic w := by
        cases st with
        | ret => obtain ⟨c, hc⟩ := hret hs; exact ⟨_, c, hc, fun w h => by cases h⟩
        | offEnd => obtain ⟨c, hc⟩ := hoff hs; exact ⟨_, c, hc, fun w h => by cases h⟩
        | error e => obtain ⟨c, hc⟩ := herr e hs; exact ⟨_, c, hc, fun w h => by cases h⟩
        | notWf w => exact absurd rfl (hwf w)
      obtain ⟨h, c, hc, hnp⟩ := hhalt
      have key := (endsIn_at hw.small hw.nofwd ⟨ctx, pc⟩ hok
        (by intro w c' hx; rw [hc] at hx; injection hx with hx _; exact hnp w hx) hpc
        (by intro a' c' hx; rw [hc] at hx; cases hx) 0 0
        (by intro a' c' s' n' hx; rw [hc] at hx; cases hx) (phi app s) s n (Nat.le_refl _) hRel hlv hub).2.1 hfr.1
      refine key.mono ?_ ?_
      · rw [hs] at hge
        simp only at hge ⊢
        cases st <;> simp only <;>
          first
            | (rw [show k + 1 - k = 1 by omega]; omega)
            | (rw [show k + 1 + 1 - k = 2 by omega]; omega)
      · simp only
        cases st <;> simp only <;> omega
    | inr x =>
      obtain ⟨pc', m', ev⟩ := x
      rw [hs] at hwf hge
      simp only at hwf hge ⊢
      obtain ⟨ctx', c, hc, hR', hpc'⟩ := hnext pc' m' ev hs
      have hsz' : m'.mem.size + 64 ≤ 2 ^ 31 := by rw [Proofs.Mvp3Spec.step_size _ _ _ _ _ _ hs]; exact hsz
      have hge' := go_steps_ge (Proofs.Refine.specProg app) fuel pc' m' (k + 1) (tr.push ev)
      have key := endsIn_at hw.small hw.nofwd ⟨ctx, pc⟩ hok
        (by intro w c' hx; rw [hc] at hx; cases hx) hpc
        (by intro a' c' hx; rw [hc] at hx; injection hx with hx _; subst hx; exact hpc')
        ((phiBound + 1) * ((Spec.run.go (Proofs.Refine.specProg app) fuel pc' m' (k + 1) (tr.push ev)).steps + 1 - (k + 1)))
        ((Spec.run.go (Proofs.Refine.specProg app) fuel pc' m' (k + 1) (tr.push ev)).steps - (k + 1))
        (by
          intro a' c' s' n' hx hRel' hlv' hub' hfr'
          rw [hc] at hx; injection hx with hx _; subst hx
          exact ih ctx' m' pc' _ _ hR' hsz' hpc' hwf s' n' hRel' hlv' hub' hfr')
        (phi app s) s n (Nat.le_refl _) hRel hlv hub
      have hoffsteps : ∀ c', stepArch dc app ⟨ctx', pc'⟩ = .halt .offEnd c' →
          (Spec.run.go (Proofs.Refine.specProg app) fuel pc' m' (k + 1) (tr.push ev)).steps = k + 1 :=
        fun c' h => go_steps_of_offEnd app hw fuel ctx' m' pc' (k + 1) (tr.push ev) hR' hpc' hwf c' h
      revert key hoffsteps
      generalize (Spec.run.go (Proofs.Refine.specProg app) fuel pc' m' (k + 1) (tr.push ev)).steps = X at hge' ⊢
      intro key hoffsteps
      obtain ⟨d, rfl⟩ : ∃ d, X = k + 1 + d := ⟨X - (k + 1), by omega⟩
      have e1 : k + 1 + d + 1 - (k + 1) = d + 1 := by omega
      have e2 : k + 1 + d + 1 - k = d + 2 := by omega
      have e3 : k + 1 + d - (k + 1) = d := by omega
      have e4 : k + 1 + d - k = d + 1 := by omega
      rw [e1, e3] at key
      rw [e2, e4]
      have hT : phi app s + 1 + (phiBound + 1) * (d + 1) ≤ (phiBound + 1) * (d + 2) := by
        rw [Nat.mul_succ (phiBound + 1) (d + 1)]; omega
      rcases key.2.2 hfr.1 ⟨ctx', pc'⟩ c hc with h | ⟨c', h⟩
      · exact h.mono hT (Nat.le_refl _)
      · have hd : d = 0 := by have := hoffsteps c' h; omega
        subst hd
        exact (key.2.1 hfr.1).mono hT (Nat.le_refl _)

/-- the initial state is fresh and its latency counters are within bounds -/
theorem init_fresh {ctx : Model.Context} {s0 : State} (h : init ctx = .ok s0) : UB s0 ∧ Fresh s0 := by
  obtain ⟨_, _, h3, h4, h5, h6, h7⟩ := init_counters h
  exact ⟨⟨fun hx => (by rw [h4] at hx; cases hx), fun hx => (by rw [h5] at hx; cases hx)⟩,
    fun hx => (by rw [h3] at hx; cases hx), fun _ => ⟨h6, h7⟩⟩

/-- **MVP-4 terminates within a bounded number of ticks**: if the specification run is well-formed and ends after
`n` executed instructions, then with every tick budget of at least `(phiBound + 1) · (n + 1)` the MVP-4 run ends, not
with a panic, after at most that many ticks, and the returned cycle count is at most that number plus
`16 · MemoryAccess` (the final flush of L1D) -/
theorem mvp4_terminates_in (app : App) (hw : Proofs.Refine.WfApp app) (ctx : Model.Context) (m : Spec.Machine)
    (hR : Proofs.Refine.Rel ctx m) (hsz : m.mem.size + 64 ≤ 2 ^ 31)
    (hpw : ∀ r, GoMap.get1 ctx.PendingWriteRegisters r = 0) (fuel : Nat)
    (hwf : ∀ why, (Spec.run (Proofs.Refine.specProg app) m fuel).stop ≠ .notWf why) (ticks : Nat)
    (hT : (phiBound + 1) * ((Spec.run (Proofs.Refine.specProg app) m fuel).steps + 1) ≤ ticks) :
    ∃ hk, (Model.Mvp4.run app ctx ticks).halt = some hk ∧ (∀ w, hk ≠ .panic w) ∧
      (Model.Mvp4.run app ctx ticks).ticks ≤ (phiBound + 1) * ((Spec.run (Proofs.Refine.specProg app) m fuel).steps + 1) ∧
      (Model.Mvp4.run app ctx ticks).final.cycles ≤
        ((phiBound + 1) * ((Spec.run (Proofs.Refine.specProg app) m fuel).steps + 1) : Nat) + 16 * Gen.Latency.MemoryAccess ∧
      ((Spec.run (Proofs.Refine.specProg app) m fuel).steps : Int) ≤ (Model.Mvp4.run app ctx ticks).final.cycles := by
  obtain ⟨s0, hinit, hRel⟩ := init_rel app ctx ⟨hR.rat, hR.tx, hpw⟩
  obtain ⟨s0', hinit', hlv⟩ := init_live app ctx
  have : s0' = s0 := by rw [hinit] at hinit'; injection hinit' with h; exact h.symm
  subst this
  obtain ⟨hub, hfr⟩ := init_fresh hinit
  obtain ⟨c0, _⟩ := init_counters hinit
  unfold Spec.run at hwf hT ⊢
  have hsz' : ¬ (Proofs.Refine.specProg app).instrs.size ≥ 250 := by
    have := hw.small
    simp [Proofs.Refine.specProg]; omega
  simp only [hsz', if_false] at hwf hT ⊢
  obtain ⟨t, hk, h1, h2, h3, h4, h5⟩ := endsIn_of_spec app hw fuel ctx m 0 0 #[] hR hsz (by simp) hwf s0' 0 hRel hlv hub hfr
  simp only [Nat.sub_zero] at h1 h5
  have hrun : Model.Mvp4.run app ctx ticks = runFrom app t s0' 0 := by
    unfold Model.Mvp4.run; rw [hinit]; exact runFrom_mono app t s0' 0 hk ticks h2 (Nat.le_trans h1 hT)
  rw [hrun]
  refine ⟨hk, h2, h3, ?_, ?_, ?_⟩
  · exact Nat.le_trans (runFrom_ticks_le app t s0' 0) (by omega)
  · rw [c0] at h4
    omega
  · rw [c0] at h5
    omega


/-- a larger tick budget does not change a run that has ended -/
theorem run_mono (app : App) (ctx : Model.Context) (t t' : Nat) (hk : Halt)
    (hh : (Model.Mvp4.run app ctx t).halt = some hk) (hle : t ≤ t') : Model.Mvp4.run app ctx t' = Model.Mvp4.run app ctx t := by
  unfold Model.Mvp4.run at hh ⊢
  cases hi : init ctx with
  | error e => rfl
  | ok s0 =>
    simp only [hi] at hh ⊢
    exact runFrom_mono app t s0 0 hk t' hh hle

/-- **the cycle count of every run that ends** (not with a panic), along a well-formed specification run of `n`
executed instructions: at least `n`, at most `(phiBound + 1) · (n + 1) + 16 · MemoryAccess` -/
theorem mvp4_cycles_of_halt (app : App) (hw : Proofs.Refine.WfApp app) (ctx : Model.Context) (m : Spec.Machine)
    (hR : Proofs.Refine.Rel ctx m) (hsz : m.mem.size + 64 ≤ 2 ^ 31)
    (hpw : ∀ r, GoMap.get1 ctx.PendingWriteRegisters r = 0) (fuel : Nat)
    (hwf : ∀ why, (Spec.run (Proofs.Refine.specProg app) m fuel).stop ≠ .notWf why) (ticks : Nat) (hk : Halt)
    (hh : (Model.Mvp4.run app ctx ticks).halt = some hk) :
    ((Spec.run (Proofs.Refine.specProg app) m fuel).steps : Int) ≤ (Model.Mvp4.run app ctx ticks).final.cycles ∧
    (Model.Mvp4.run app ctx ticks).final.cycles ≤
      ((phiBound + 1) * ((Spec.run (Proofs.Refine.specProg app) m fuel).steps + 1) : Nat) + 16 * Gen.Latency.MemoryAccess ∧
    (Model.Mvp4.run app ctx ticks).ticks ≤ (phiBound + 1) * ((Spec.run (Proofs.Refine.specProg app) m fuel).steps + 1) := by
  have hm := run_mono app ctx ticks
    (ticks + (phiBound + 1) * ((Spec.run (Proofs.Refine.specProg app) m fuel).steps + 1)) hk hh (by omega)
  obtain ⟨hk', _, _, h3, h4, h5⟩ := mvp4_terminates_in app hw ctx m hR hsz hpw fuel hwf
    (ticks + (phiBound + 1) * ((Spec.run (Proofs.Refine.specProg app) m fuel).steps + 1)) (by omega)
  rw [hm] at h3 h4 h5
  exact ⟨h5, h4, h3⟩

end Proofs.Mvp4

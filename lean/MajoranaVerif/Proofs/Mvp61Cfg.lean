/-
  Proofs/Mvp61Cfg.lean — the configuration flags `v62`, `v63` of `Model.Mvp61.State` are constants of a run: no unit and
  no branch of `cycleM` changes them.  So every state of a run of `Model.Mvp61` / `Model.Mvp62` / `Model.Mvp63` is in the
  configuration its `init` chose, and the three models never mix.
-/
import MajoranaVerif.Model.Mvp63
open GoInt

namespace Proofs.Mvp61Cfg
open Model.Mvp61
open Model.Seq (App Halt)
open Model.Mvp60 (Event)

/-- same configuration -/
structure Cfg (s s' : State) : Prop where
  v62 : s'.v62 = s.v62
  v63 : s'.v63 = s.v63

theorem Cfg.refl (s : State) : Cfg s s := ⟨rfl, rfl⟩
theorem Cfg.trans {a b c : State} (h1 : Cfg a b) (h2 : Cfg b c) : Cfg a c := ⟨h2.v62.trans h1.v62, h2.v63.trans h1.v63⟩
theorem Cfg.pre {a b c : State} (h2 : Cfg b c) (h1 : Cfg a b) : Cfg a c := h1.trans h2

macro "cfg_rfl" : tactic =>
  `(tactic| first | exact ⟨rfl, rfl⟩ | (split <;> exact ⟨rfl, rfl⟩) | (split <;> split <;> exact ⟨rfl, rfl⟩))

theorem fetchCycle_cfg {app : App} {s s' : State} (h : fetchCycle app s = .ok s') : Cfg s s' := by
  unfold fetchCycle at h
  simp only [bind, Except.bind] at h
  split at h
  · cases h
  · simp only [pure, Except.pure, Except.ok.injEq] at h
    subst h; exact ⟨rfl, rfl⟩

theorem decodeLoop_cfg {app : App} (c : Int) : ∀ (n : Nat) (s s' : State), decodeLoop app c n s = .ok s' → Cfg s s' := by
  intro n
  induction n with
  | zero =>
    intro s s' h
    simp only [decodeLoop, pure, Except.pure, Except.ok.injEq] at h
    subst h; exact Cfg.refl s
  | succ n ih =>
    intro s s' h
    simp only [decodeLoop, bind, Except.bind, pure, Except.pure] at h
    split at h
    · cases h; exact ⟨rfl, rfl⟩
    · split at h
      · cases h; exact ⟨rfl, rfl⟩
      · split at h
        · cases h
        · split at h
          · cases h
            cfg_rfl
          · refine Cfg.trans ?_ (ih _ _ h)
            cfg_rfl

theorem decodeCycle_cfg {app : App} {s s' : State} (h : decodeCycle app s = .ok s') : Cfg s s' := by
  unfold decodeCycle at h
  split at h
  · cases h; exact Cfg.refl s
  · split at h
    · cases h; exact Cfg.refl s
    · exact decodeLoop_cfg _ _ _ _ h

theorem controlCycle_cfg {s s' : State} (h : controlCycle s = .ok s') : Cfg s s' := by
  unfold controlCycle at h
  split at h
  · cases h; exact ⟨rfl, rfl⟩
  · simp only [bind, Except.bind, pure, Except.pure] at h
    split at h
    · cases h
    · split at h
      · cases h; exact ⟨rfl, rfl⟩
      · split at h
        · cases h
        · cases h; exact ⟨rfl, rfl⟩

theorem buAssert_cfg (s : State) (r : Runner) : Cfg s (buAssert s r) := by
  unfold buAssert
  simp only
  split
  · split <;> exact ⟨rfl, rfl⟩
  · split <;> exact ⟨rfl, rfl⟩

theorem euRun_cfg {app : App} {s s' : State} {i : Nat} {eu : ExecUnit} {r : Runner} {c : Int} {out : EuOut}
    (h : euRun app s i eu r c = .ok (s', out)) : Cfg s s' := by
  unfold euRun at h
  simp only [bind, Except.bind, pure, Except.pure] at h
  repeat' split at h
  all_goals cases h
  all_goals exact ⟨rfl, rfl⟩

theorem euReceive_cfg {s s' : State} {eu eu' : ExecUnit} {r r' : Runner}
    (h : euReceive s eu r = some (s', eu', r')) : Cfg s s' := by
  unfold euReceive at h
  split at h
  · cases h; exact Cfg.refl s
  · split at h
    · cases h
    · cases h; exact ⟨rfl, rfl⟩

theorem euAfterReceive_cfg {app : App} {s s' : State} {i : Nat} {eu : ExecUnit} {r : Runner} {c : Int} {out : EuOut}
    (h : euAfterReceive app s i eu r c = .ok (s', out)) : Cfg s s' := by
  unfold euAfterReceive at h
  simp only [bind, Except.bind, pure, Except.pure] at h
  have fb := buAssert_cfg s r
  split at h
  · split at h
    · cases h
    · split at h
      all_goals cases h
      all_goals exact fb.trans ⟨rfl, rfl⟩
  · exact fb.trans (euRun_cfg h)

theorem euPrepare_cfg {app : App} {s s' : State} {i : Nat} {eu : ExecUnit} {r : Runner} {c : Int} {out : EuOut}
    (h : euPrepare app s i eu r c = .ok (s', out)) : Cfg s s' := by
  unfold euPrepare at h
  simp only [pure, Except.pure] at h
  split at h
  · cases h; exact ⟨rfl, rfl⟩
  · split at h
    · cases h; exact ⟨rfl, rfl⟩
    · rename_i hr
      exact (euReceive_cfg hr).trans (euAfterReceive_cfg h)

theorem euCycle_cfg {app : App} {s s' : State} {i : Nat} {c : Int} {out : EuOut}
    (h : euCycle app s i c = .ok (s', out)) : Cfg s s' := by
  unfold euCycle at h
  simp only [bind, Except.bind, pure, Except.pure] at h
  split at h
  · cases h
  · split at h
    · cases h; exact ⟨rfl, rfl⟩
    · split at h
      · split at h
        · cases h; exact ⟨rfl, rfl⟩
        · exact (euPrepare_cfg h).pre ⟨rfl, rfl⟩
      · split at h
        · cases h
        · exact euPrepare_cfg h
      · split at h
        · cases h; exact ⟨rfl, rfl⟩
        · split at h
          · cases h
          · exact euRun_cfg h
      · split at h
        · cases h; exact ⟨rfl, rfl⟩
        · split at h
          · cases h
          · cases h
          · split at h
            · cases h
            · split at h
              · cases h
              · split at h
                · cases h
                · split at h
                  · exact (euRun_cfg h).pre ⟨rfl, rfl⟩
                  · cases h

theorem wuCycle62_cfg {s s' : State} {j : Nat} {before : Word} (h : wuCycle62 s j before = .ok s') : Cfg s s' := by
  unfold wuCycle62 at h
  simp only [pure, Except.pure] at h
  repeat' split at h
  all_goals cases h
  all_goals exact ⟨rfl, rfl⟩

theorem wuCycle_cfg {s s' : State} {j : Nat} {before : Word} (h : wuCycle s j before = .ok s') : Cfg s s' := by
  unfold wuCycle at h
  split at h
  · exact wuCycle62_cfg h
  · simp only [bind, Except.bind, pure, Except.pure] at h
    split at h
    · cases h
    · cases h; exact ⟨rfl, rfl⟩

theorem foldlM_wu_cfg (before : Word) : ∀ (js : List Nat) (s s' : State),
    js.foldlM (fun s j => wuCycle s j before) s = .ok s' → Cfg s s' := by
  intro js
  induction js with
  | nil => intro s s' h; simp only [List.foldlM, pure, Except.pure, Except.ok.injEq] at h; subst h; exact Cfg.refl s
  | cons j js ih =>
    intro s s' h
    simp only [List.foldlM, bind, Except.bind] at h
    split at h
    · cases h
    · rename_i s1 h1
      exact (wuCycle_cfg h1).trans (ih s1 s' h)

theorem wusCycleB_cfg {s s' : State} {before : Word} (h : wusCycleB s before = .ok s') : Cfg s s' :=
  foldlM_wu_cfg _ _ s s' h

theorem wusCycle_cfg {s s' : State} (h : wusCycle s = .ok s') : Cfg s s' := wusCycleB_cfg h

theorem eusCycle_cfg {app : App} : ∀ (n i : Nat) (s s' : State) (acc acc' : EuAcc),
    eusCycle app n i s acc = .ok (s', acc') → Cfg s s' := by
  intro n
  induction n with
  | zero =>
    intro i s s' acc acc' h
    simp only [eusCycle, pure, Except.pure, Except.ok.injEq, Prod.mk.injEq] at h
    obtain ⟨rfl, _⟩ := h
    exact Cfg.refl _
  | succ n ih =>
    intro i s s' acc acc' h
    simp only [eusCycle, bind, Except.bind] at h
    split at h
    · simp only [pure, Except.pure, Except.ok.injEq, Prod.mk.injEq] at h
      obtain ⟨rfl, _⟩ := h
      exact Cfg.refl _
    · split at h
      · cases h
      · rename_i v hv
        obtain ⟨s1, out⟩ := v
        have f1 : Cfg s s1 := (euCycle_cfg hv).pre ⟨rfl, rfl⟩
        simp only at h
        split at h
        · simp only [pure, Except.pure, Except.ok.injEq, Prod.mk.injEq] at h
          obtain ⟨rfl, _⟩ := h
          exact f1
        all_goals exact f1.trans (ih _ _ _ _ _ h)

theorem eusCycleBusy_cfg {app : App} : ∀ (n i : Nat) (s s' : State) (e : Bool),
    eusCycleBusy app n i s = .ok (s', e) → Cfg s s' := by
  intro n
  induction n with
  | zero =>
    intro i s s' e h
    simp only [eusCycleBusy, pure, Except.pure, Except.ok.injEq, Prod.mk.injEq] at h
    obtain ⟨rfl, _⟩ := h
    exact Cfg.refl _
  | succ n ih =>
    intro i s s' e h
    simp only [eusCycleBusy, bind, Except.bind] at h
    split at h
    · simp only [pure, Except.pure, Except.ok.injEq, Prod.mk.injEq] at h
      obtain ⟨rfl, _⟩ := h
      exact Cfg.refl _
    · split at h
      · exact ih _ _ _ _ h
      · split at h
        · cases h
        · rename_i v hv
          obtain ⟨s1, out⟩ := v
          have f1 := euCycle_cfg hv
          simp only at h
          split at h
          · simp only [pure, Except.pure, Except.ok.injEq, Prod.mk.injEq] at h
            obtain ⟨rfl, _⟩ := h
            exact f1
          · exact f1.trans (ih _ _ _ _ h)

theorem eusCycleFlush_cfg {app : App} (fc : Int) : ∀ (n i : Nat) (s s' : State) (acc acc' : FlAcc),
    eusCycleFlush app fc n i s acc = .ok (s', acc') → Cfg s s' := by
  intro n
  induction n with
  | zero =>
    intro i s s' acc acc' h
    simp only [eusCycleFlush, pure, Except.pure, Except.ok.injEq, Prod.mk.injEq] at h
    obtain ⟨rfl, _⟩ := h
    exact Cfg.refl _
  | succ n ih =>
    intro i s s' acc acc' h
    simp only [eusCycleFlush, bind, Except.bind] at h
    split at h
    · simp only [pure, Except.pure, Except.ok.injEq, Prod.mk.injEq] at h
      obtain ⟨rfl, _⟩ := h
      exact Cfg.refl _
    · split at h
      · exact ih _ _ _ _ _ h
      · split at h
        · cases h
        · rename_i v hv
          obtain ⟨s1, out⟩ := v
          have f1 := euCycle_cfg hv
          simp only at h
          split at h
          · simp only [pure, Except.pure, Except.ok.injEq, Prod.mk.injEq] at h
            obtain ⟨rfl, _⟩ := h
            exact f1
          all_goals exact f1.trans (ih _ _ _ _ _ h)

theorem finish_cfg {s s' : State} {h : Halt} {ev : Event} (hf : finish s h = .ok (s', ev)) : Cfg s s' := by
  unfold finish at hf
  simp only [bind, Except.bind, pure, Except.pure] at hf
  split at hf
  · cases hf
  · simp only [Except.ok.injEq, Prod.mk.injEq] at hf
    obtain ⟨rfl, _⟩ := hf
    exact ⟨rfl, rfl⟩

theorem goRetB_cfg {s s' : State} {ev : Event} (h : goRetB s = .ok (s', ev)) : Cfg s s' := by
  unfold goRetB at h
  split at h
  · simp only [pure, Except.pure, Except.ok.injEq, Prod.mk.injEq] at h
    obtain ⟨rfl, _⟩ := h
    exact ⟨rfl, rfl⟩
  · exact finish_cfg h

theorem goRetA_cfg {s s' : State} {ev : Event} (h : goRetA s = .ok (s', ev)) : Cfg s s' := by
  unfold goRetA at h
  split at h
  · simp only [pure, Except.pure, Except.ok.injEq, Prod.mk.injEq] at h
    obtain ⟨rfl, _⟩ := h
    exact ⟨rfl, rfl⟩
  · exact (goRetB_cfg h).pre ⟨rfl, rfl⟩

theorem goFlushW_cfg (seq pc : Word) (fc : Int) (e : Bool) : ∀ (n i : Nat) (s : State),
    Cfg s (goFlushW s seq pc fc e n i).1 := by
  intro n
  induction n with
  | zero =>
    intro i s
    simp only [goFlushW]
    split <;> exact ⟨rfl, rfl⟩
  | succ n ih =>
    intro i s
    simp only [goFlushW]
    split
    · split <;> exact ⟨rfl, rfl⟩
    · split
      · exact ⟨rfl, rfl⟩
      · exact ih _ s

theorem cycleM_cfg {app : App} {s s' : State} {ev : Event} (h : cycleM app s = .ok (s', ev)) : Cfg s s' := by
  unfold cycleM at h
  split at h
  · simp only [bind, Except.bind, pure, Except.pure] at h
    split at h
    · cases h
    · rename_i s1 h1
      have f1 : Cfg s s1 := (fetchCycle_cfg h1).pre ⟨rfl, rfl⟩
      split at h
      · cases h
      · rename_i s2 h2
        have f2 := f1.trans (decodeCycle_cfg h2)
        split at h
        · cases h
        · rename_i s3 h3
          have f3 := f2.trans (controlCycle_cfg h3)
          split at h
          · cases h
          · rename_i v hv
            obtain ⟨s4, acc⟩ := v
            have f4 := f3.trans (eusCycle_cfg _ _ _ _ _ _ hv)
            simp only at h
            split at h
            · simp only [Except.ok.injEq, Prod.mk.injEq] at h
              obtain ⟨rfl, _⟩ := h
              exact f4
            · split at h
              · cases h
              · rename_i s5 h5
                have f5 := f4.trans (wusCycleB_cfg h5)
                split at h
                · exact f5.trans (goRetA_cfg h)
                · split at h
                  · simp only [Except.ok.injEq, Prod.mk.injEq] at h
                    obtain ⟨rfl, _⟩ := h
                    exact f5.trans ⟨rfl, rfl⟩
                  · split at h
                    · exact f5.trans (finish_cfg h)
                    · simp only [Except.ok.injEq, Prod.mk.injEq] at h
                      obtain ⟨rfl, _⟩ := h
                      exact f5
  · simp only [bind, Except.bind, pure, Except.pure] at h
    split at h
    · cases h
    · rename_i v hv
      obtain ⟨s1, e⟩ := v
      have f1 : Cfg s s1 := (eusCycleBusy_cfg _ _ _ _ _ hv).pre ⟨rfl, rfl⟩
      simp only at h
      split at h
      · simp only [Except.ok.injEq, Prod.mk.injEq] at h
        obtain ⟨rfl, _⟩ := h
        exact f1
      · split at h
        · cases h
        · rename_i s2 h2
          exact (f1.trans (wusCycle_cfg h2)).trans (goRetA_cfg h)
  · simp only [bind, Except.bind] at h
    split at h
    · cases h
    · rename_i s1 h1
      exact (wusCycle_cfg h1).trans ((goRetB_cfg h).pre ⟨rfl, rfl⟩)
  · rename_i seq pc fc _
    simp only [bind, Except.bind, pure, Except.pure] at h
    split at h
    · cases h
    · rename_i v hv
      obtain ⟨s1, acc⟩ := v
      have f1 : Cfg s s1 := (eusCycleFlush_cfg _ _ _ _ _ _ _ hv).pre ⟨rfl, rfl⟩
      simp only at h
      split at h
      · simp only [Except.ok.injEq, Prod.mk.injEq] at h
        obtain ⟨rfl, _⟩ := h
        exact f1
      · simp only [Except.ok.injEq] at h
        have hs := congrArg Prod.fst h
        simp only at hs
        subst hs
        exact f1.trans ((goFlushW_cfg acc.seq acc.pc fc acc.isEmpty s1.wus.length 0
          { s1 with writeBus := s1.writeBus.connect (s1.cycles + 1) }).pre ⟨rfl, rfl⟩)
  · rename_i i seq pc fc e _
    simp only [bind, Except.bind, pure, Except.pure] at h
    split at h
    · cases h
    · rename_i s1 h1
      have f1 : Cfg s s1 := (wuCycle_cfg h1).pre ⟨rfl, rfl⟩
      simp only [Except.ok.injEq] at h
      have hs := congrArg Prod.fst h
      simp only at hs
      subst hs
      exact f1.trans (goFlushW_cfg seq pc fc e (s1.wus.length - i) i s1)

theorem cycle_cfg (app : App) (s : State) : Cfg s (cycle app s).1 := by
  unfold cycle
  split
  · rename_i r hr
    obtain ⟨s', ev⟩ := r
    exact cycleM_cfg hr
  · exact Cfg.refl s
  · exact Cfg.refl s

theorem runFrom_cfg (app : App) : ∀ (fuel : Nat) (s : State) (n : Nat), Cfg s (runFrom app fuel s n).final := by
  intro fuel
  induction fuel with
  | zero => intro s n; exact Cfg.refl s
  | succ fuel ih =>
    intro s n
    simp only [runFrom]
    have hc := cycle_cfg app s
    split
    · rename_i s' hs
      rw [hs] at hc
      exact hc.trans (ih s' (n + 1))
    · rename_i s' hh hs
      rw [hs] at hc
      exact hc

/-- every state of a run has the configuration of the initial state -/
theorem run_cfg (app : App) (fuel : Nat) (s : State) :
    (runFrom app fuel s 0).final.v62 = s.v62 ∧ (runFrom app fuel s 0).final.v63 = s.v63 :=
  ⟨(runFrom_cfg app fuel s 0).v62, (runFrom_cfg app fuel s 0).v63⟩

theorem init61_cfg {ctx : Model.Context} {eu wu : Nat} {s : State} (h : Model.Mvp61.init ctx eu wu = .ok s) :
    s.v62 = false ∧ s.v63 = false := by
  unfold Model.Mvp61.init at h
  split at h
  · cases h
  · simp only [bind, Except.bind, pure, Except.pure] at h
    split at h
    · cases h
    · cases h; exact ⟨rfl, rfl⟩

theorem init62_cfg {ctx : Model.Context} {eu wu : Nat} {s : State} (h : Model.Mvp62.init ctx eu wu = .ok s) :
    s.v62 = true ∧ s.v63 = false := by
  unfold Model.Mvp62.init at h
  split at h
  · cases h
  · simp only [bind, Except.bind, pure, Except.pure] at h
    split at h
    · cases h
    · rename_i s0 h0
      cases h
      exact ⟨rfl, (init61_cfg h0).2⟩

theorem init63_cfg {ctx : Model.Context} {eu wu : Nat} {s : State} (h : Model.Mvp63.init ctx eu wu = .ok s) :
    s.v62 = true ∧ s.v63 = true := by
  unfold Model.Mvp63.init at h
  split at h
  · cases h
  · simp only [bind, Except.bind, pure, Except.pure] at h
    split at h
    · cases h
    · cases h; exact ⟨rfl, rfl⟩

end Proofs.Mvp61Cfg

/-
  Proofs/Mvp61Cfg.lean — the configuration flags `v62`, `v63` of `Model.Mvp61.State` are constants of a run: no unit and
  no branch of `cycleM` changes them.  So every state of a run of `Model.Mvp61` / `Model.Mvp62` / `Model.Mvp63` is in the
  configuration its `init` chose, and the three models never mix.
-/
import MajoranaVerif.Model.Mvp63
import MajoranaVerif.Proofs.Mvp63MapOrder
open GoInt

namespace Proofs.Mvp61Cfg
open Model.Mvp61
open Model.Seq (App Halt)
open Model.Mvp60 (Event)

/-- same configuration, same marker -/
structure Cfg (s s' : State) : Prop where
  v62 : s'.v62 = s.v62
  v63 : s'.v63 = s.v63
  /-- the ghost marker of an ambiguous forwarding choice -/
  mo : s'.mapOrder = s.mapOrder

theorem Cfg.refl (s : State) : Cfg s s := ⟨rfl, rfl, rfl⟩
theorem Cfg.trans {a b c : State} (h1 : Cfg a b) (h2 : Cfg b c) : Cfg a c := ⟨h2.v62.trans h1.v62, h2.v63.trans h1.v63, h2.mo.trans h1.mo⟩
theorem Cfg.pre {a b c : State} (h2 : Cfg b c) (h1 : Cfg a b) : Cfg a c := h1.trans h2

macro "cfg_rfl" : tactic =>
  `(tactic| first | exact ⟨rfl, rfl, rfl⟩ | (split <;> exact ⟨rfl, rfl, rfl⟩) | (split <;> split <;> exact ⟨rfl, rfl, rfl⟩))

theorem fetchCycle_cfg {app : App} {s s' : State} (h : fetchCycle app s = .ok s') : Cfg s s' := by
  unfold fetchCycle at h
  simp only [bind, Except.bind] at h
  split at h
  · cases h
  · simp only [pure, Except.pure, Except.ok.injEq] at h
    subst h; exact ⟨rfl, rfl, rfl⟩

theorem decodeLoop_cfg {app : App} (c : Int) : ∀ (n : Nat) (s s' : State), decodeLoop app c n s = .ok s' → Cfg s s' := by
  intro n
  induction n with
  | zero =>
    intro s s' h
    simp only [decodeLoop, pure, Except.pure, Except.ok.injEq] at h
    subst h; exact Cfg.refl s
  | succ n ih =>
    intro s s' h
    simp only [decodeLoop, bind, Except.bind, pure, Except.pure] at h
    split at h
    · cases h; exact ⟨rfl, rfl, rfl⟩
    · split at h
      · cases h; exact ⟨rfl, rfl, rfl⟩
      · split at h
        · cases h
        · split at h
          · cases h
            cfg_rfl
          · split at h
            · cases h; cfg_rfl
            · refine Cfg.trans ?_ (ih _ _ h)
              cfg_rfl

theorem decodeCycle_cfg {app : App} {s s' : State} (h : decodeCycle app s = .ok s') : Cfg s s' := by
  unfold decodeCycle at h
  split at h
  · cases h; exact Cfg.refl s
  · split at h
    · cases h; exact Cfg.refl s
    · exact decodeLoop_cfg _ _ _ _ h

theorem buAssert_cfg (s : State) (r : Runner) : Cfg s (buAssert s r) := by
  unfold buAssert
  simp only
  split
  · split <;> exact ⟨rfl, rfl, rfl⟩
  · split <;> exact ⟨rfl, rfl, rfl⟩

theorem euRun_cfg {app : App} {s s' : State} {i : Nat} {eu : ExecUnit} {r : Runner} {c : Int} {out : EuOut}
    (h : euRun app s i eu r c = .ok (s', out)) : Cfg s s' := by
  unfold euRun at h
  simp only [bind, Except.bind, pure, Except.pure] at h
  repeat' split at h
  all_goals cases h
  all_goals exact ⟨rfl, rfl, rfl⟩

theorem euReceive_cfg {s s' : State} {eu eu' : ExecUnit} {r r' : Runner}
    (h : euReceive s eu r = some (s', eu', r')) : Cfg s s' := by
  unfold euReceive at h
  split at h
  · cases h; exact Cfg.refl s
  · split at h
    · cases h
    · cases h; exact ⟨rfl, rfl, rfl⟩

theorem euAfterReceive_cfg {app : App} {s s' : State} {i : Nat} {eu : ExecUnit} {r : Runner} {c : Int} {out : EuOut}
    (h : euAfterReceive app s i eu r c = .ok (s', out)) : Cfg s s' := by
  unfold euAfterReceive at h
  simp only [bind, Except.bind, pure, Except.pure] at h
  have fb := buAssert_cfg s r
  split at h
  · split at h
    · cases h
    · split at h
      all_goals cases h
      all_goals exact fb.trans ⟨rfl, rfl, rfl⟩
  · exact fb.trans (euRun_cfg h)

theorem euPrepare_cfg {app : App} {s s' : State} {i : Nat} {eu : ExecUnit} {r : Runner} {c : Int} {out : EuOut}
    (h : euPrepare app s i eu r c = .ok (s', out)) : Cfg s s' := by
  unfold euPrepare at h
  simp only [pure, Except.pure] at h
  split at h
  · cases h; exact ⟨rfl, rfl, rfl⟩
  · split at h
    · cases h; exact ⟨rfl, rfl, rfl⟩
    · rename_i hr
      exact (euReceive_cfg hr).trans (euAfterReceive_cfg h)

theorem euCycle_cfg {app : App} {s s' : State} {i : Nat} {c : Int} {out : EuOut}
    (h : euCycle app s i c = .ok (s', out)) : Cfg s s' := by
  unfold euCycle at h
  simp only [bind, Except.bind, pure, Except.pure] at h
  split at h
  · cases h
  · split at h
    · cases h; exact ⟨rfl, rfl, rfl⟩
    · split at h
      · split at h
        · cases h; exact ⟨rfl, rfl, rfl⟩
        · exact (euPrepare_cfg h).pre ⟨rfl, rfl, rfl⟩
      · split at h
        · cases h
        · exact euPrepare_cfg h
      · split at h
        · cases h; exact ⟨rfl, rfl, rfl⟩
        · split at h
          · cases h
          · exact euRun_cfg h
      · split at h
        · cases h; exact ⟨rfl, rfl, rfl⟩
        · split at h
          · cases h
          · cases h
          · split at h
            · cases h
            · split at h
              · cases h
              · split at h
                · cases h
                · split at h
                  · exact (euRun_cfg h).pre ⟨rfl, rfl, rfl⟩
                  · cases h

theorem wuCycle62_cfg {s s' : State} {j : Nat} {before : Word} (h : wuCycle62 s j before = .ok s') : Cfg s s' := by
  unfold wuCycle62 at h
  simp only [pure, Except.pure] at h
  repeat' split at h
  all_goals cases h
  all_goals exact ⟨rfl, rfl, rfl⟩

theorem wuCycle_cfg {s s' : State} {j : Nat} {before : Word} (h : wuCycle s j before = .ok s') : Cfg s s' := by
  unfold wuCycle at h
  split at h
  · exact wuCycle62_cfg h
  · simp only [bind, Except.bind, pure, Except.pure] at h
    split at h
    · cases h
    · cases h; exact ⟨rfl, rfl, rfl⟩

theorem foldlM_wu_cfg (before : Word) : ∀ (js : List Nat) (s s' : State),
    js.foldlM (fun s j => wuCycle s j before) s = .ok s' → Cfg s s' := by
  intro js
  induction js with
  | nil => intro s s' h; simp only [List.foldlM, pure, Except.pure, Except.ok.injEq] at h; subst h; exact Cfg.refl s
  | cons j js ih =>
    intro s s' h
    simp only [List.foldlM, bind, Except.bind] at h
    split at h
    · cases h
    · rename_i s1 h1
      exact (wuCycle_cfg h1).trans (ih s1 s' h)

theorem wusCycleB_cfg {s s' : State} {before : Word} (h : wusCycleB s before = .ok s') : Cfg s s' :=
  foldlM_wu_cfg _ _ s s' h

theorem wusCycle_cfg {s s' : State} (h : wusCycle s = .ok s') : Cfg s s' := wusCycleB_cfg h

theorem eusCycle_cfg {app : App} : ∀ (n i : Nat) (s s' : State) (acc acc' : EuAcc),
    eusCycle app n i s acc = .ok (s', acc') → Cfg s s' := by
  intro n
  induction n with
  | zero =>
    intro i s s' acc acc' h
    simp only [eusCycle, pure, Except.pure, Except.ok.injEq, Prod.mk.injEq] at h
    obtain ⟨rfl, _⟩ := h
    exact Cfg.refl _
  | succ n ih =>
    intro i s s' acc acc' h
    simp only [eusCycle, bind, Except.bind] at h
    split at h
    · simp only [pure, Except.pure, Except.ok.injEq, Prod.mk.injEq] at h
      obtain ⟨rfl, _⟩ := h
      exact Cfg.refl _
    · split at h
      · cases h
      · rename_i v hv
        obtain ⟨s1, out⟩ := v
        have f1 : Cfg s s1 := (euCycle_cfg hv).pre ⟨rfl, rfl, rfl⟩
        simp only at h
        split at h
        · simp only [pure, Except.pure, Except.ok.injEq, Prod.mk.injEq] at h
          obtain ⟨rfl, _⟩ := h
          exact f1
        all_goals exact f1.trans (ih _ _ _ _ _ h)

theorem eusCycleBusy_cfg {app : App} : ∀ (n i : Nat) (s s' : State) (e : Bool),
    eusCycleBusy app n i s = .ok (s', e) → Cfg s s' := by
  intro n
  induction n with
  | zero =>
    intro i s s' e h
    simp only [eusCycleBusy, pure, Except.pure, Except.ok.injEq, Prod.mk.injEq] at h
    obtain ⟨rfl, _⟩ := h
    exact Cfg.refl _
  | succ n ih =>
    intro i s s' e h
    simp only [eusCycleBusy, bind, Except.bind] at h
    split at h
    · simp only [pure, Except.pure, Except.ok.injEq, Prod.mk.injEq] at h
      obtain ⟨rfl, _⟩ := h
      exact Cfg.refl _
    · split at h
      · exact ih _ _ _ _ h
      · split at h
        · cases h
        · rename_i v hv
          obtain ⟨s1, out⟩ := v
          have f1 := euCycle_cfg hv
          simp only at h
          split at h
          · simp only [pure, Except.pure, Except.ok.injEq, Prod.mk.injEq] at h
            obtain ⟨rfl, _⟩ := h
            exact f1
          · exact f1.trans (ih _ _ _ _ h)

theorem eusCycleFlush_cfg {app : App} (fc : Int) : ∀ (n i : Nat) (s s' : State) (acc acc' : FlAcc),
    eusCycleFlush app fc n i s acc = .ok (s', acc') → Cfg s s' := by
  intro n
  induction n with
  | zero =>
    intro i s s' acc acc' h
    simp only [eusCycleFlush, pure, Except.pure, Except.ok.injEq, Prod.mk.injEq] at h
    obtain ⟨rfl, _⟩ := h
    exact Cfg.refl _
  | succ n ih =>
    intro i s s' acc acc' h
    simp only [eusCycleFlush, bind, Except.bind] at h
    split at h
    · simp only [pure, Except.pure, Except.ok.injEq, Prod.mk.injEq] at h
      obtain ⟨rfl, _⟩ := h
      exact Cfg.refl _
    · split at h
      · exact ih _ _ _ _ _ h
      · split at h
        · cases h
        · rename_i v hv
          obtain ⟨s1, out⟩ := v
          have f1 := euCycle_cfg hv
          simp only at h
          split at h
          · simp only [pure, Except.pure, Except.ok.injEq, Prod.mk.injEq] at h
            obtain ⟨rfl, _⟩ := h
            exact f1
          all_goals exact f1.trans (ih _ _ _ _ _ h)

theorem finish_cfg {s s' : State} {h : Halt} {ev : Event} (hf : finish s h = .ok (s', ev)) : Cfg s s' := by
  unfold finish at hf
  simp only [bind, Except.bind, pure, Except.pure] at hf
  split at hf
  · cases hf
  · simp only [Except.ok.injEq, Prod.mk.injEq] at hf
    obtain ⟨rfl, _⟩ := hf
    exact ⟨rfl, rfl, rfl⟩

theorem goRetB_cfg {s s' : State} {ev : Event} (h : goRetB s = .ok (s', ev)) : Cfg s s' := by
  unfold goRetB at h
  split at h
  · simp only [pure, Except.pure, Except.ok.injEq, Prod.mk.injEq] at h
    obtain ⟨rfl, _⟩ := h
    exact ⟨rfl, rfl, rfl⟩
  · exact finish_cfg h

theorem goRetA_cfg {s s' : State} {ev : Event} (h : goRetA s = .ok (s', ev)) : Cfg s s' := by
  unfold goRetA at h
  split at h
  · simp only [pure, Except.pure, Except.ok.injEq, Prod.mk.injEq] at h
    obtain ⟨rfl, _⟩ := h
    exact ⟨rfl, rfl, rfl⟩
  · exact (goRetB_cfg h).pre ⟨rfl, rfl, rfl⟩

theorem goFlushW_cfg (seq pc : Word) (fc : Int) (e : Bool) : ∀ (n i : Nat) (s : State),
    Cfg s (goFlushW s seq pc fc e n i).1 := by
  intro n
  induction n with
  | zero =>
    intro i s
    simp only [goFlushW]
    split <;> exact ⟨rfl, rfl, rfl⟩
  | succ n ih =>
    intro i s
    simp only [goFlushW]
    split
    · split <;> exact ⟨rfl, rfl, rfl⟩
    · split
      · exact ⟨rfl, rfl, rfl⟩
      · exact ih _ s

open Proofs.Mvp63MapOrder (Wit)

/-- one tick: the configuration stays; the marker stays, or the tick ends the run with the distinguished panic and the
marker names a candidate and two different producers among the final state's `pushedRunnersInPreviousCycle` -/
structure Step (s s' : State) (ev : Event) : Prop where
  v62 : s'.v62 = s.v62
  v63 : s'.v63 = s.v63
  mo : s'.mapOrder = s.mapOrder ∨
       (ev = .done (.panic mapOrderMsg) ∧ ∃ w, s'.mapOrder = some w ∧ Wit s'.cuPrev w)

theorem Cfg.toStep {s s' : State} {ev : Event} (h : Cfg s s') : Step s s' ev := ⟨h.v62, h.v63, Or.inl h.mo⟩

theorem cycleM_cfg {app : App} {s s' : State} {ev : Event} (h : cycleM app s = .ok (s', ev)) : Step s s' ev := by
  unfold cycleM at h
  split at h
  · simp only [bind, Except.bind, pure, Except.pure] at h
    split at h
    · cases h
    · rename_i s1 h1
      have f1 : Cfg s s1 := (fetchCycle_cfg h1).pre ⟨rfl, rfl, rfl⟩
      split at h
      · cases h
      · rename_i s2 h2
        have f2 := f1.trans (decodeCycle_cfg h2)
        split at h
        · cases h
        · rename_i s3 h3
          obtain ⟨c1, c2, c3⟩ := Proofs.Mvp63MapOrder.controlCycle_mo h3
          have hB : (∃ w, s3 = { s2 with mapOrder := some w } ∧ Wit s2.cuPrev w) → Step s s' ev := by
            rintro ⟨w, hw, hwit⟩
            split at h
            · simp only [Except.ok.injEq, Prod.mk.injEq] at h
              obtain ⟨rfl, rfl⟩ := h
              refine ⟨c1.trans f2.v62, c2.trans f2.v63, Or.inr ⟨rfl, w, by rw [hw], ?_⟩⟩
              rw [hw]; exact hwit
            · rename_i hn
              rw [hw] at hn
              simp only [Option.isSome_some, not_true_eq_false] at hn
          rcases c3 with c3 | c3
          · have f3 : Cfg s s3 := f2.trans ⟨c1, c2, c3⟩
            split at h
            · simp only [Except.ok.injEq, Prod.mk.injEq] at h
              obtain ⟨rfl, _⟩ := h
              exact f3.toStep
            refine Cfg.toStep ?_
            split at h
            · cases h
            · rename_i v hv
              obtain ⟨s4, acc⟩ := v
              have f4 := f3.trans (eusCycle_cfg _ _ _ _ _ _ hv)
              simp only at h
              split at h
              · simp only [Except.ok.injEq, Prod.mk.injEq] at h
                obtain ⟨rfl, _⟩ := h
                exact f4
              · split at h
                · cases h
                · rename_i s5 h5
                  have f5 := f4.trans (wusCycleB_cfg h5)
                  split at h
                  · exact f5.trans (goRetA_cfg h)
                  · split at h
                    · simp only [Except.ok.injEq, Prod.mk.injEq] at h
                      obtain ⟨rfl, _⟩ := h
                      exact f5.trans ⟨rfl, rfl, rfl⟩
                    · split at h
                      · exact f5.trans (finish_cfg h)
                      · simp only [Except.ok.injEq, Prod.mk.injEq] at h
                        obtain ⟨rfl, _⟩ := h
                        exact f5
          · exact hB c3
  · refine Cfg.toStep ?_
    simp only [bind, Except.bind, pure, Except.pure] at h
    split at h
    · cases h
    · rename_i v hv
      obtain ⟨s1, e⟩ := v
      have f1 : Cfg s s1 := (eusCycleBusy_cfg _ _ _ _ _ hv).pre ⟨rfl, rfl, rfl⟩
      simp only at h
      split at h
      · simp only [Except.ok.injEq, Prod.mk.injEq] at h
        obtain ⟨rfl, _⟩ := h
        exact f1
      · split at h
        · cases h
        · rename_i s2 h2
          exact (f1.trans (wusCycle_cfg h2)).trans (goRetA_cfg h)
  · refine Cfg.toStep ?_
    simp only [bind, Except.bind] at h
    split at h
    · cases h
    · rename_i s1 h1
      exact (wusCycle_cfg h1).trans ((goRetB_cfg h).pre ⟨rfl, rfl, rfl⟩)
  · refine Cfg.toStep ?_
    rename_i seq pc fc _
    simp only [bind, Except.bind, pure, Except.pure] at h
    split at h
    · cases h
    · rename_i v hv
      obtain ⟨s1, acc⟩ := v
      have f1 : Cfg s s1 := (eusCycleFlush_cfg _ _ _ _ _ _ _ hv).pre ⟨rfl, rfl, rfl⟩
      simp only at h
      split at h
      · simp only [Except.ok.injEq, Prod.mk.injEq] at h
        obtain ⟨rfl, _⟩ := h
        exact f1
      · simp only [Except.ok.injEq] at h
        have hs := congrArg Prod.fst h
        simp only at hs
        subst hs
        exact f1.trans ((goFlushW_cfg acc.seq acc.pc fc acc.isEmpty s1.wus.length 0
          { s1 with writeBus := s1.writeBus.connect (s1.cycles + 1) }).pre ⟨rfl, rfl, rfl⟩)
  · refine Cfg.toStep ?_
    rename_i i seq pc fc e _
    simp only [bind, Except.bind, pure, Except.pure] at h
    split at h
    · cases h
    · rename_i s1 h1
      have f1 : Cfg s s1 := (wuCycle_cfg h1).pre ⟨rfl, rfl, rfl⟩
      simp only [Except.ok.injEq] at h
      have hs := congrArg Prod.fst h
      simp only at hs
      subst hs
      exact f1.trans (goFlushW_cfg seq pc fc e (s1.wus.length - i) i s1)

theorem cycle_cfg (app : App) (s : State) : Step s (cycle app s).1 (cycle app s).2 := by
  unfold cycle
  split
  · rename_i r hr
    obtain ⟨s', ev⟩ := r
    exact cycleM_cfg hr
  · exact (Cfg.refl s).toStep
  · exact (Cfg.refl s).toStep

theorem runFrom_cfg (app : App) : ∀ (fuel : Nat) (s : State) (n : Nat),
    (runFrom app fuel s n).final.v62 = s.v62 ∧ (runFrom app fuel s n).final.v63 = s.v63 := by
  intro fuel
  induction fuel with
  | zero => intro s n; exact ⟨rfl, rfl⟩
  | succ fuel ih =>
    intro s n
    simp only [runFrom]
    have hc := cycle_cfg app s
    split
    · rename_i s' hs
      rw [hs] at hc
      have := ih s' (n + 1)
      exact ⟨this.1.trans hc.v62, this.2.trans hc.v63⟩
    · rename_i s' hh hs
      rw [hs] at hc
      exact ⟨hc.v62, hc.v63⟩

/-- **the marker at the end of a run.**  A run that starts without marker and ends with `mapOrder = some (r, p, q)` ended
with the distinguished panic, in a tick in which the control unit examined the candidate `r` while two runners `p`, `q` with
different identities, both in `pushedRunnersInPreviousCycle` (the final state's `cuPrev`), each write a register `r`
reads.  (And a run that ends with the marker unset never met such a pair: `Proofs.Mvp63MapOrder.ambiguous_iff`.) -/
theorem runFrom_mapOrder (app : App) : ∀ (fuel : Nat) (s : State) (n : Nat), s.mapOrder = none →
    ∀ w, (runFrom app fuel s n).final.mapOrder = some w →
      (runFrom app fuel s n).halt = some (.panic mapOrderMsg) ∧ Wit (runFrom app fuel s n).final.cuPrev w := by
  intro fuel
  induction fuel with
  | zero =>
    intro s n h0 w hw
    simp only [runFrom] at hw
    rw [h0] at hw; cases hw
  | succ fuel ih =>
    intro s n h0 w hw
    simp only [runFrom] at hw ⊢
    have hc := cycle_cfg app s
    split at hw
    · rename_i s' hs
      rw [hs] at hc
      rcases hc.mo with e | ⟨e, _⟩
      · exact ih s' (n + 1) (e.trans h0) w hw
      · cases e
    · rename_i s' hh hs
      rw [hs] at hc
      simp only at hw
      rcases hc.mo with e | ⟨e, w', hw', hwit⟩
      · rw [e, h0] at hw; cases hw
      · simp only at e hw' hwit
        rw [hw'] at hw
        cases hw
        cases e
        exact ⟨rfl, hwit⟩

/-- every state of a run has the configuration of the initial state -/
theorem run_cfg (app : App) (fuel : Nat) (s : State) :
    (runFrom app fuel s 0).final.v62 = s.v62 ∧ (runFrom app fuel s 0).final.v63 = s.v63 :=
  runFrom_cfg app fuel s 0

theorem init61_cfg {ctx : Model.Context} {eu wu : Nat} {s : State} (h : Model.Mvp61.init ctx eu wu = .ok s) :
    s.v62 = false ∧ s.v63 = false ∧ s.mapOrder = none := by
  unfold Model.Mvp61.init at h
  split at h
  · cases h
  · simp only [bind, Except.bind, pure, Except.pure] at h
    split at h
    · cases h
    · cases h; exact ⟨rfl, rfl, rfl⟩

theorem init62_cfg {ctx : Model.Context} {eu wu : Nat} {s : State} (h : Model.Mvp62.init ctx eu wu = .ok s) :
    s.v62 = true ∧ s.v63 = false ∧ s.mapOrder = none := by
  unfold Model.Mvp62.init at h
  split at h
  · cases h
  · simp only [bind, Except.bind, pure, Except.pure] at h
    split at h
    · cases h
    · rename_i s0 h0
      cases h
      exact ⟨rfl, (init61_cfg h0).2.1, (init61_cfg h0).2.2⟩

theorem init63_cfg {ctx : Model.Context} {eu wu : Nat} {s : State} (h : Model.Mvp63.init ctx eu wu = .ok s) :
    s.v62 = true ∧ s.v63 = true ∧ s.mapOrder = none := by
  unfold Model.Mvp63.init at h
  split at h
  · cases h
  · simp only [bind, Except.bind, pure, Except.pure] at h
    split at h
    · cases h
    · rename_i s0 h0
      cases h
      exact ⟨rfl, rfl, (init61_cfg h0).2.2⟩

end Proofs.Mvp61Cfg

/-
  Proofs/Mvp60JumpWitness.lean — package R60c: the program of R60-defect-1 (MVP-6.0 ends "past the end" while the fetch
  unit waits for the target line of a correctly predicted jump), and a program with jumps, calls and returns on which the
  jump theorem is evaluated.  Kernel evaluation of the model through `runFast` (`Proofs.Mvp60Fast.runFast_eq_run`).
-/
import MajoranaVerif.Model.Mvp60Class
import MajoranaVerif.Proofs.Mvp60Fast
import MajoranaVerif.Proofs.Mvp60SlWitness
import MajoranaVerif.Proofs.Refine
open GoInt

namespace Proofs.Mvp60JumpWitness
open Model.Mvp60 Proofs.Mvp60SlWitness

/-- `s0` counts 1, 2, 3, 4 and the program returns at 4; every round runs down one of two chains of 18 always-taken
`beq zero, zero` (each hop starts a new L1I line: 18 + 18 lines, the cache holds 16) and comes back through the LAST
instruction `jj: j l0`:
```
l0:   addi s0, s0, 1;  li t0, 4;  beq s0, t0, done;  andi t1, s0, 1;  beq t1, zero, b18;  beq zero, zero, c18
done: ret;  12 × nop
b1:   beq zero, zero, jj;  b2: beq zero, zero, b1;  …  b18: beq zero, zero, b17;  20 × nop
c1:   beq zero, zero, jj;  c2: beq zero, zero, c1;  …  c18: beq zero, zero, c17;  20 × nop
jj:   j l0
``` -/
def earlyApp : Model.Seq.App :=
  { instrs := [
      .addi_ { rd := 8, rs := 8, imm := 1#32 },
      .li_ { rd := 5, imm := 4#32 },
      .beq_ { rs1 := 8, rs2 := 5, label := "done" },
      .andi_ { rd := 6, rs := 8, imm := 1#32 },
      .beq_ { rs1 := 6, rs2 := 0, label := "b18" },
      .beq_ { rs1 := 0, rs2 := 0, label := "c18" },
      .ret_ {},
      .nop_ {},
      .nop_ {},
      .nop_ {},
      .nop_ {},
      .nop_ {},
      .nop_ {},
      .nop_ {},
      .nop_ {},
      .nop_ {},
      .nop_ {},
      .nop_ {},
      .nop_ {},
      .beq_ { rs1 := 0, rs2 := 0, label := "jj" },
      .beq_ { rs1 := 0, rs2 := 0, label := "b1" },
      .beq_ { rs1 := 0, rs2 := 0, label := "b2" },
      .beq_ { rs1 := 0, rs2 := 0, label := "b3" },
      .beq_ { rs1 := 0, rs2 := 0, label := "b4" },
      .beq_ { rs1 := 0, rs2 := 0, label := "b5" },
      .beq_ { rs1 := 0, rs2 := 0, label := "b6" },
      .beq_ { rs1 := 0, rs2 := 0, label := "b7" },
      .beq_ { rs1 := 0, rs2 := 0, label := "b8" },
      .beq_ { rs1 := 0, rs2 := 0, label := "b9" },
      .beq_ { rs1 := 0, rs2 := 0, label := "b10" },
      .beq_ { rs1 := 0, rs2 := 0, label := "b11" },
      .beq_ { rs1 := 0, rs2 := 0, label := "b12" },
      .beq_ { rs1 := 0, rs2 := 0, label := "b13" },
      .beq_ { rs1 := 0, rs2 := 0, label := "b14" },
      .beq_ { rs1 := 0, rs2 := 0, label := "b15" },
      .beq_ { rs1 := 0, rs2 := 0, label := "b16" },
      .beq_ { rs1 := 0, rs2 := 0, label := "b17" },
      .nop_ {},
      .nop_ {},
      .nop_ {},
      .nop_ {},
      .nop_ {},
      .nop_ {},
      .nop_ {},
      .nop_ {},
      .nop_ {},
      .nop_ {},
      .nop_ {},
      .nop_ {},
      .nop_ {},
      .nop_ {},
      .nop_ {},
      .nop_ {},
      .nop_ {},
      .nop_ {},
      .nop_ {},
      .nop_ {},
      .beq_ { rs1 := 0, rs2 := 0, label := "jj" },
      .beq_ { rs1 := 0, rs2 := 0, label := "c1" },
      .beq_ { rs1 := 0, rs2 := 0, label := "c2" },
      .beq_ { rs1 := 0, rs2 := 0, label := "c3" },
      .beq_ { rs1 := 0, rs2 := 0, label := "c4" },
      .beq_ { rs1 := 0, rs2 := 0, label := "c5" },
      .beq_ { rs1 := 0, rs2 := 0, label := "c6" },
      .beq_ { rs1 := 0, rs2 := 0, label := "c7" },
      .beq_ { rs1 := 0, rs2 := 0, label := "c8" },
      .beq_ { rs1 := 0, rs2 := 0, label := "c9" },
      .beq_ { rs1 := 0, rs2 := 0, label := "c10" },
      .beq_ { rs1 := 0, rs2 := 0, label := "c11" },
      .beq_ { rs1 := 0, rs2 := 0, label := "c12" },
      .beq_ { rs1 := 0, rs2 := 0, label := "c13" },
      .beq_ { rs1 := 0, rs2 := 0, label := "c14" },
      .beq_ { rs1 := 0, rs2 := 0, label := "c15" },
      .beq_ { rs1 := 0, rs2 := 0, label := "c16" },
      .beq_ { rs1 := 0, rs2 := 0, label := "c17" },
      .nop_ {},
      .nop_ {},
      .nop_ {},
      .nop_ {},
      .nop_ {},
      .nop_ {},
      .nop_ {},
      .nop_ {},
      .nop_ {},
      .nop_ {},
      .nop_ {},
      .nop_ {},
      .nop_ {},
      .nop_ {},
      .nop_ {},
      .nop_ {},
      .nop_ {},
      .nop_ {},
      .nop_ {},
      .nop_ {},
      .j_ { label := "l0" }],
    labels := GoMap.ofList [("l0", 0#32), ("done", 24#32), ("b1", 76#32), ("b2", 80#32), ("b3", 84#32), ("b4", 88#32), ("b5", 92#32), ("b6", 96#32), ("b7", 100#32), ("b8", 104#32), ("b9", 108#32), ("b10", 112#32), ("b11", 116#32), ("b12", 120#32), ("b13", 124#32), ("b14", 128#32), ("b15", 132#32), ("b16", 136#32), ("b17", 140#32), ("b18", 144#32), ("c1", 228#32), ("c2", 232#32), ("c3", 236#32), ("c4", 240#32), ("c5", 244#32), ("c6", 248#32), ("c7", 252#32), ("c8", 256#32), ("c9", 260#32), ("c10", 264#32), ("c11", 268#32), ("c12", 272#32), ("c13", 276#32), ("c14", 280#32), ("c15", 284#32), ("c16", 288#32), ("c17", 292#32), ("c18", 296#32), ("jj", 380#32)] }

theorem early_class : RegOnlyWf earlyApp = true ∧ RegOnly earlyApp = true := by decide

/-- MVP-1 returns with `s0 = 4` -/
theorem early_seq : obsR (Model.Seq.runMvp1 earlyApp ⟨ctx0, 0⟩ 100).halt (Model.Seq.runMvp1 earlyApp ⟨ctx0, 0⟩ 100).final.ctx =
    (some .ret, [0#32, 4#32, 0#32, 4#32, 1#32, 0#32]) := by decide +kernel

/-- MVP-6.0 (with `fetchUnit.reset` clearing `complete`, /repo commit 52aa070): all four rounds, `ret` with `s0 = 4`.
Before the fix the run ended "past the end" in the second round with `s0 = 2` (R60-defect-1): the correctly predicted
`jj: j l0` left `complete` set while the evicted line of `l0` was being fetched. -/
theorem early_p1 : obsR (run earlyApp ctx0 1 1 60000).halt (run earlyApp ctx0 1 1 60000).final.ctx =
    (some .ret, [0#32, 4#32, 0#32, 4#32, 1#32, 0#32]) := by
  rw [← Proofs.Mvp60Fast.runFast_eq_run]; decide +kernel

theorem early_p2 : obsR (run earlyApp ctx0 2 2 60000).halt (run earlyApp ctx0 2 2 60000).final.ctx =
    (some .ret, [0#32, 4#32, 0#32, 4#32, 1#32, 0#32]) := by
  rw [← Proofs.Mvp60Fast.runFast_eq_run]; decide +kernel

/-- the run goes through the window of the former defect: more than 12616 ticks (where the unfixed machine stopped) -/
theorem early_p1_ticks : 12616 < (run earlyApp ctx0 1 1 60000).ticks := by
  rw [← Proofs.Mvp60Fast.runFast_eq_run]; decide +kernel

theorem early_wf : Proofs.Refine.WfApp earlyApp := { small := by decide, regs := by decide +kernel, nofwd := by decide +kernel }

/-- the specification run returns -/
theorem early_spec : (Spec.run (Proofs.Refine.specProg earlyApp)
    { regs := Array.replicate 32 0#32, mem := Array.replicate 64 0#8 } 200).stop = .ret := by decide +kernel

/-- a loop closed by a backward `j`: the jump executes twice, the second time with a hit in the branch target buffer (no
flush, fetch is redirected by the branch unit at once):
`li s0, 3; l1: addi a0, a0, 2; addi s0, s0, -1; beqz s0, out; j l1; out: ret` -/
def jloopApp : Model.Seq.App :=
  { instrs := [.li_ { rd := 8, imm := 3#32 }, .addi_ { rd := 10, rs := 10, imm := 2#32 },
               .addi_ { rd := 8, rs := 8, imm := BitVec.ofInt 32 (-1) }, .beqz_ { rs := 8, label := "out" },
               .j_ { label := "l1" }, .ret_ {}],
    labels := GoMap.ofList [("l1", 4#32), ("out", 20#32)] }

theorem jloop_class : RegOnlyWf jloopApp = true ∧ BranchOnly jloopApp = false := by decide

theorem loop_wf : RegOnlyWf loopApp = true := by decide

theorem jloop_seq : obsR (Model.Seq.runMvp1 jloopApp ⟨ctx0, 0⟩ 40).halt (Model.Seq.runMvp1 jloopApp ⟨ctx0, 0⟩ 40).final.ctx =
    (some .ret, [0#32, 0#32, 6#32, 0#32, 0#32, 0#32]) := by decide +kernel

theorem jloop_p1 : obsR (run jloopApp ctx0 1 1 5000).halt (run jloopApp ctx0 1 1 5000).final.ctx =
    (some .ret, [0#32, 0#32, 6#32, 0#32, 0#32, 0#32]) := by
  rw [← Proofs.Mvp60Fast.runFast_eq_run]; decide +kernel

theorem jloop_p2 : obsR (run jloopApp ctx0 2 2 5000).halt (run jloopApp ctx0 2 2 5000).final.ctx =
    (some .ret, [0#32, 0#32, 6#32, 0#32, 0#32, 0#32]) := by
  rw [← Proofs.Mvp60Fast.runFast_eq_run]; decide +kernel

theorem jloop_p4 : obsR (run jloopApp ctx0 4 4 5000).halt (run jloopApp ctx0 4 4 5000).final.ctx =
    (some .ret, [0#32, 0#32, 6#32, 0#32, 0#32, 0#32]) := by
  rw [← Proofs.Mvp60Fast.runFast_eq_run]; decide +kernel

/-- the flushes of the run on two units: the first `j l1` misses the branch target buffer (flush), the second hits -/
theorem jloop_flushes : (run jloopApp ctx0 2 2 5000).final.flushes = 2 := by
  rw [← Proofs.Mvp60Fast.runFast_eq_run]; decide +kernel

end Proofs.Mvp60JumpWitness

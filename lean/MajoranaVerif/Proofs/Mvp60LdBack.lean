/-
  Proofs/Mvp60LdBack.lean — package R60d: the back of the MVP-6.0 pipeline with memory reads, where instructions complete
  OUT OF ORDER (a load waits in its execute unit while younger instructions execute on the other units).  `BackO`: in-order
  issue with the three scoreboard checks makes every instruction read the register values of the unpipelined run.
-/
import MajoranaVerif.Proofs.Mvp60LdL3
import MajoranaVerif.Proofs.Mvp60SlLive
open GoInt

set_option linter.unusedSimpArgs false
set_option linter.unusedVariables false

namespace Proofs.Mvp60Ld
open Model Model.Mvp60 Proofs.Mvp60Sl
open Model.Seq (App Halt Arch stepArch)

/-! ### small facts -/

theorem pcOf_inj (j l : Nat) (hj : j < 2 ^ 20) (hl : l < 2 ^ 20) (h : pcOf j = pcOf l) : j = l := by
  have := congrArg BitVec.toInt h
  rw [pcOf_toInt j hj, pcOf_toInt l hl] at this
  omega

theorem pcOf_add_inj (c : Word) (j l : Nat) (hj : j < 2 ^ 20) (hl : l < 2 ^ 20) (h : pcOf j + c = pcOf l + c) : j = l :=
  pcOf_inj j l hj hl (by
    have := congrArg (· - c) h
    simpa [BitVec.add_sub_cancel] using this)

theorem idx_lt (app : App) (j : Nat) (i : Gen.Instr) (h : app.instrs[j]? = some i) : j < app.instrs.length := by
  rcases Nat.lt_or_ge j app.instrs.length with h' | h'
  · exact h'
  · rw [List.getElem?_eq_none h'] at h; cases h

theorem seqIter_prefix (app : App) (a0 : Arch) : ∀ (n : Nat) (a : Arch), seqL app n a0 = some a →
    ∀ m, m ≤ n → ∃ am, seqL app m a0 = some am := by
  intro n
  induction n with
  | zero =>
    intro a h m hm
    have hm0 : m = 0 := by omega
    subst hm0
    exact ⟨a, h⟩
  | succ n ih =>
    intro a h m hm
    rcases Nat.lt_or_ge m (n + 1) with hlt | hge
    · cases hn : seqL app n a0 with
      | none => simp only [seqL, hn, Option.bind_none] at h; cases h
      | some an => exact ih an hn m (by omega)
    · have : m = n + 1 := by omega
      exact ⟨a, by rw [this]; exact h⟩

/-- registers no instruction in between writes keep their value along the unpipelined run -/
theorem seq_frame_range (app : App) (a0 : Arch) (hp : ProgLd app a0) (r : Reg) (m : Nat) : ∀ (d : Nat) (am an : Arch),
    seqL app m a0 = some am → seqL app (m + d) a0 = some an → NoRetBefore app (m + d - 1) →
    (∀ l i, m ≤ l → l < m + d → app.instrs[l]? = some i → r ∉ i.writeRegisters) →
    GoMap.get1 an.ctx.Registers r = GoMap.get1 am.ctx.Registers r := by
  intro d
  induction d with
  | zero =>
    intro am an h1 h2 _ _
    rw [Nat.add_zero, h1] at h2
    simp only [Option.some.injEq] at h2
    rw [h2]
  | succ d ih =>
    intro am an h1 h2 hnr hw
    have hnr' : NoRetBefore app (m + d) := hnr
    obtain ⟨ad, hd⟩ := seqIter_prefix app a0 (m + (d + 1)) an h2 (m + d) (by omega)
    have e1 := ih am ad h1 hd (hnr'.mono (by omega)) (fun l i h3 h4 => hw l i h3 (by omega))
    obtain ⟨f1, f2, _⟩ := seq_facts app a0 hp (m + d) ad hd (hnr'.mono (by omega))
    have h2' : seqL app (m + d + 1) a0 = some an := h2
    obtain ⟨i, _, _, hi, _, _, _⟩ := seq_succ app a0 hp (m + d) ad an hd f1 f2 hnr' h2'
    rw [seq_frame app a0 hp (m + d) ad an i hd h2' hnr' hi r (hw (m + d) i (by omega) (by omega) hi), e1]

/-! ### the execute units as a list of slots -/

/-- the runner an execute unit holds (taken from the execute bus, not yet executed) -/
def heldAt (eu : ExecUnit) : Option Runner :=
  match eu.co with
  | .none => none
  | _ => eu.runner

/-- a sum over the held runners -/
def hsum (f : Runner → Nat) (H : List (Option Runner)) : Nat :=
  (H.map (fun o => match o with | some x => f x | none => 0)).sum

theorem hsum_set (f : Runner → Nat) : ∀ (H : List (Option Runner)) (i : Nat) (o o' : Option Runner), H[i]? = some o →
    hsum f (H.set i o') + (match o with | some x => f x | none => 0) =
      hsum f H + (match o' with | some x => f x | none => 0) := by
  intro H
  induction H with
  | nil => intro i o o' h; cases h
  | cons a as ih =>
    intro i o o' h
    cases i with
    | zero =>
      simp only [List.getElem?_cons_zero, Option.some.injEq] at h
      subst h
      simp only [hsum, List.set_cons_zero, List.map_cons, List.sum_cons]
      omega
    | succ i =>
      simp only [List.getElem?_cons_succ] at h
      have := ih i o o' h
      simp only [hsum, List.set_cons_succ, List.map_cons, List.sum_cons] at this ⊢
      omega

theorem hsum_zero (f : Runner → Nat) (H : List (Option Runner)) (h : hsum f H = 0) : ∀ x, some x ∈ H → f x = 0 := by
  induction H with
  | nil => intro x hx; cases hx
  | cons a as ih =>
    intro x hx
    simp only [hsum, List.map_cons, List.sum_cons] at h
    rcases List.mem_cons.mp hx with rfl | hx
    · simp only at h; omega
    · exact ih (by simp only [hsum]; omega) x hx

theorem mem_set_some {H : List (Option Runner)} {i : Nat} {o : Option Runner} {x : Runner} (h : some x ∈ H.set i o) :
    some x ∈ H ∨ o = some x := by
  rcases List.mem_or_eq_of_mem_set h with h | h
  · exact Or.inl h
  · exact Or.inr h.symm

/-! ### the invariant -/

/-- runner `x` is instruction number `j`, with the sequence id the decode unit gives it (`c` = `ctx.sequenceID * 1000`) -/
def ROk (app : App) (c : Word) (x : Runner) (j : Nat) : Prop := RunnerOk app x j ∧ x.seq = pcOf j + c

theorem ROk.idx_eq {app : App} {c : Word} {x : Runner} {j l : Nat} (hsm : app.instrs.length < 250) (h1 : ROk app c x j)
    (h2 : ROk app c x l) : j = l :=
  pcOf_inj j l (by have := idx_lt app j _ h1.1.2; omega) (by have := idx_lt app l _ h2.1.2; omega) (h1.1.1.symm.trans h2.1.1)

/-- instruction number `j` is in flight: issued, result not yet written back -/
def FlO (app : App) (c : Word) (X : List Runner) (H : List (Option Runner)) (W : List ExecCtx) (j : Nat) : Prop :=
  (∃ x ∈ X, ROk app c x j) ∨ (∃ x, some x ∈ H ∧ ROk app c x j) ∨ (∃ ec ∈ W, ec.seq = pcOf j + c ∧ j < app.instrs.length)

/-- **the back of the pipeline, out of order.**  `nt` = number of instructions taken off the execute bus, `X` = issued and not
yet taken (instructions `nt, nt+1, …`), `H` = the slots of the execute units (a taken runner not yet executed), `W` = results
on the write bus.  `regsA`: a register nobody in `H`/`W` still has to write holds the value of the unpipelined run after `nt`
steps; `opsB`: a held runner finds the operand values of the unpipelined run before ITS step; `widx`: a result on the write
bus is the result of the unpipelined step; `indep`/`ww`: two instructions in flight do not conflict (what the three checks of
`isDataHazard3` ensure at issue); `sbW`/`sbR`: every instruction in flight is on the scoreboards. -/
structure BackO (app : App) (a0 : Arch) (c : Word) (ctx : Model.Context) (X : List Runner) (H : List (Option Runner))
    (W : List ExecCtx) (nt : Nat) : Prop where
  st : ∃ St, seqL app nt a0 = some St
  xchain : Chain app nt X
  xseq : ∀ x ∈ X, x.seq = x.pc + c
  ratS : ctx.rat = false
  txS : ctx.Transaction.entries = []
  zr : GoMap.get1 ctx.Registers Gen.Reg.Zero = 0#32
  hidx : ∀ x, some x ∈ H → ∃ j, j < nt ∧ ROk app c x j
  widx : ∀ ec ∈ W, ∃ j x e aj bytes, j < nt ∧ ROk app c x j ∧ ec = ecOf x e ∧ seqL app j a0 = some aj ∧
    (x.instr.memoryRead aj.ctx 0#32).mapM (Model.Seq.readMem aj.ctx.Memory) = some bytes ∧
    x.instr.run aj.ctx app.labels aj.pc bytes 0#32 = .ok e
  regsA : ∀ St, seqL app nt a0 = some St → ∀ r, r ≠ Gen.Reg.Zero →
    (∀ x, some x ∈ H → r ∉ x.instr.writeRegisters) → (∀ ec ∈ W, r ∉ ec.writeRegisters) →
    GoMap.get1 ctx.Registers r = GoMap.get1 St.ctx.Registers r
  opsB : ∀ x j aj, some x ∈ H → ROk app c x j → seqL app j a0 = some aj →
    ∀ r ∈ x.instr.readRegisters, r ≠ Gen.Reg.Zero → GoMap.get1 ctx.Registers r = GoMap.get1 aj.ctx.Registers r
  indep : ∀ j1 j2 i1 i2, FlO app c X H W j1 → FlO app c X H W j2 → j1 ≠ j2 → app.instrs[j1]? = some i1 →
    app.instrs[j2]? = some i2 → ∀ r ∈ i1.readRegisters, r ≠ Gen.Reg.Zero → r ∉ i2.writeRegisters
  ww : ∀ j l i1 i2, FlO app c X H W j → j < l → l < nt + X.length → app.instrs[j]? = some i1 → app.instrs[l]? = some i2 →
    ∀ r ∈ i1.writeRegisters, r ≠ Gen.Reg.Zero → r ∉ i2.writeRegisters
  uHW : ∀ x, some x ∈ H → ∀ ec ∈ W, ec.seq ≠ x.seq
  uHH : ∀ (i1 i2 : Nat) (x1 x2 : Runner), i1 ≠ i2 → H[i1]? = some (some x1) → H[i2]? = some (some x2) → x1.seq ≠ x2.seq
  sbW : ∀ r, r ≠ Gen.Reg.Zero →
    ((cntX X r + hsum (fun x => x.instr.writeRegisters.count r) H + cntW W r : Nat) : Int) ≤ GoMap.get1 ctx.PendingWriteRegisters r
  sbR : ∀ r, r ≠ Gen.Reg.Zero →
    ((cntXr X r + hsum (fun x => x.instr.readRegisters.count r) H + cntWr W r : Nat) : Int) ≤ GoMap.get1 ctx.PendingReadRegisters r

theorem cntXr_zero (X : List Runner) (r : Reg) (h : cntXr X r = 0) : ∀ x ∈ X, r ∉ x.instr.readRegisters := by
  induction X with
  | nil => intro x hx; cases hx
  | cons e rest ih =>
    simp only [cntXr, List.map_cons, List.sum_cons] at h
    intro x hx
    rcases List.mem_cons.mp hx with rfl | hx
    · exact List.count_eq_zero.mp (by omega)
    · exact ih (by simp only [cntXr]; omega) x hx

theorem cntWr_zero (W : List ExecCtx) (r : Reg) (h : cntWr W r = 0) : ∀ ec ∈ W, r ∉ ec.readRegisters := by
  induction W with
  | nil => intro ec he; cases he
  | cons e rest ih =>
    simp only [cntWr, List.map_cons, List.sum_cons] at h
    intro ec he
    rcases List.mem_cons.mp he with rfl | he
    · exact List.count_eq_zero.mp (by omega)
    · exact ih (by simp only [cntWr]; omega) ec he

section
variable {app : App} {a0 : Arch} {c : Word} {ctx : Model.Context} {X : List Runner} {H : List (Option Runner)}
  {W : List ExecCtx} {nt : Nat}

/-- where an instruction in flight is, with its instruction -/
theorem BackO.fl_cases (hb : BackO app a0 c ctx X H W nt) (hsm : app.instrs.length < 250) (j : Nat) (i : Gen.Instr)
    (hf : FlO app c X H W j) (hi : app.instrs[j]? = some i) :
    (∃ x ∈ X, x.instr = i) ∨ (∃ x, some x ∈ H ∧ x.instr = i) ∨
    (∃ ec ∈ W, ec.readRegisters = i.readRegisters ∧ ec.writeRegisters = i.writeRegisters) := by
  rcases hf with ⟨x, hx, hok⟩ | ⟨x, hx, hok⟩ | ⟨ec, hec, hseq, _⟩
  · left; refine ⟨x, hx, ?_⟩
    have := hok.1.2; rw [hi] at this; simp only [Option.some.injEq] at this; exact this.symm
  · right; left; refine ⟨x, hx, ?_⟩
    have := hok.1.2; rw [hi] at this; simp only [Option.some.injEq] at this; exact this.symm
  · right; right
    obtain ⟨j', x, e, _, _, _, hok, rfl, _⟩ := hb.widx ec hec
    have hjj : j' = j := by
      have h1 : pcOf j' + c = pcOf j + c := by rw [← hok.2]; exact hseq
      have h2 := idx_lt app j' _ hok.1.2
      have h3 := idx_lt app j _ hi
      exact pcOf_add_inj c j' j (by omega) (by omega) h1
    subst hjj
    have := hok.1.2; rw [hi] at this; simp only [Option.some.injEq] at this
    exact ⟨_, hec, by simp only [ecOf, this], by simp only [ecOf, this]⟩

/-- an instruction in flight that writes `r` is on the write scoreboard -/
theorem BackO.writer_pos (hb : BackO app a0 c ctx X H W nt) (hsm : app.instrs.length < 250) (j : Nat) (i : Gen.Instr)
    (hf : FlO app c X H W j) (hi : app.instrs[j]? = some i) (r : Reg) (hr : r ≠ Gen.Reg.Zero) (hw : r ∈ i.writeRegisters) :
    1 ≤ GoMap.get1 ctx.PendingWriteRegisters r := by
  have hsb := hb.sbW r hr
  apply Classical.byContradiction
  intro hlt
  have h0 : cntX X r = 0 ∧ hsum (fun x => x.instr.writeRegisters.count r) H = 0 ∧ cntW W r = 0 := by omega
  rcases hb.fl_cases hsm j i hf hi with ⟨x, hx, rfl⟩ | ⟨x, hx, rfl⟩ | ⟨ec, hec, _, h2⟩
  · exact cntX_zero X r h0.1 x hx hw
  · exact (List.count_eq_zero.mp (hsum_zero _ H h0.2.1 x hx)) hw
  · exact cntW_zero W r h0.2.2 ec hec (by rw [h2]; exact hw)

/-- an instruction in flight that reads `r` is on the read scoreboard -/
theorem BackO.reader_pos (hb : BackO app a0 c ctx X H W nt) (hsm : app.instrs.length < 250) (j : Nat) (i : Gen.Instr)
    (hf : FlO app c X H W j) (hi : app.instrs[j]? = some i) (r : Reg) (hr : r ≠ Gen.Reg.Zero) (hw : r ∈ i.readRegisters) :
    1 ≤ GoMap.get1 ctx.PendingReadRegisters r := by
  have hsb := hb.sbR r hr
  apply Classical.byContradiction
  intro hlt
  have h0 : cntXr X r = 0 ∧ hsum (fun x => x.instr.readRegisters.count r) H = 0 ∧ cntWr W r = 0 := by omega
  rcases hb.fl_cases hsm j i hf hi with ⟨x, hx, rfl⟩ | ⟨x, hx, rfl⟩ | ⟨ec, hec, h1, _⟩
  · exact cntXr_zero X r h0.1 x hx hw
  · exact (List.count_eq_zero.mp (hsum_zero _ H h0.2.1 x hx)) hw
  · exact cntWr_zero W r h0.2.2 ec hec (by rw [h1]; exact hw)

theorem FlO.mono {app : App} {c : Word} {X X' : List Runner} {H H' : List (Option Runner)} {W W' : List ExecCtx} {j : Nat}
    (h : FlO app c X' H' W' j) (hX : ∀ x ∈ X', x ∈ X) (hH : ∀ x, some x ∈ H' → some x ∈ H) (hW : ∀ ec ∈ W', ec ∈ W) :
    FlO app c X H W j := by
  rcases h with ⟨x, hx, hok⟩ | ⟨x, hx, hok⟩ | ⟨ec, hec, hs⟩
  · exact Or.inl ⟨x, hX x hx, hok⟩
  · exact Or.inr (Or.inl ⟨x, hH x hx, hok⟩)
  · exact Or.inr (Or.inr ⟨ec, hW ec hec, hs⟩)

/-- **issue**: the control unit puts a runner free of hazards on the execute bus -/
theorem BackO.issue (hb : BackO app a0 c ctx X H W nt) (hsm : app.instrs.length < 250) (r : Runner)
    (hr : ROk app c r (nt + X.length)) (hz : isDataHazard3 ctx r.instr = false) :
    BackO app a0 c (addPendingRegisters ctx r.instr) (X ++ [r]) H W nt := by
  simp only [isDataHazard3, Bool.or_eq_false_iff, List.any_eq_false, Bool.and_eq_true, bne_iff_ne, ne_eq, not_and,
    Bool.not_eq_true] at hz
  have hnew : ∀ j, FlO app c (X ++ [r]) H W j → FlO app c X H W j ∨ j = nt + X.length := by
    intro j hf
    rcases hf with ⟨x, hx, hok⟩ | h | h
    · rcases List.mem_append.mp hx with hx | hx
      · exact Or.inl (Or.inl ⟨x, hx, hok⟩)
      · simp only [List.mem_singleton] at hx; subst hx
        exact Or.inr (ROk.idx_eq hsm hok hr)
    · exact Or.inl (Or.inr (Or.inl h))
    · exact Or.inl (Or.inr (Or.inr h))
  -- no instruction in flight writes what `r` reads or writes, none reads what `r` writes
  have hraw : ∀ j i, FlO app c X H W j → app.instrs[j]? = some i → ∀ reg ∈ r.instr.readRegisters, reg ≠ Gen.Reg.Zero →
      reg ∉ i.writeRegisters := by
    intro j i hf hi reg hreg hne hw
    have h1 := pendingPos_false _ _ (hz.1 reg hreg hne)
    have h2 := hb.writer_pos hsm j i hf hi reg hne hw
    omega
  have hwaw : ∀ j i, FlO app c X H W j → app.instrs[j]? = some i → ∀ reg ∈ r.instr.writeRegisters, reg ≠ Gen.Reg.Zero →
      reg ∉ i.writeRegisters ∧ reg ∉ i.readRegisters := by
    intro j i hf hi reg hreg hne
    have h1 := pendingPos_false _ _ (hz.2 reg hreg hne).1
    have h3 := pendingPos_false _ _ (hz.2 reg hreg hne).2
    refine ⟨fun hw => ?_, fun hw => ?_⟩
    · have h2 := hb.writer_pos hsm j i hf hi reg hne hw; omega
    · have h2 := hb.reader_pos hsm j i hf hi reg hne hw; omega
  refine ⟨hb.st, by rw [chain_append]; exact ⟨hb.xchain, hr.1, trivial⟩, ?_, hb.ratS, hb.txS, hb.zr, hb.hidx, hb.widx, hb.regsA, hb.opsB,
    ?_, ?_, hb.uHW, hb.uHH, ?_, ?_⟩
  · intro x hx
    rcases List.mem_append.mp hx with hx | hx
    · exact hb.xseq x hx
    · simp only [List.mem_singleton] at hx; subst hx; rw [hr.2, hr.1.1]
  · intro j1 j2 i1 i2 hf1 hf2 hne hi1 hi2 reg hreg hr0
    rcases hnew j1 hf1 with h1 | h1 <;> rcases hnew j2 hf2 with h2 | h2
    · exact hb.indep j1 j2 i1 i2 h1 h2 hne hi1 hi2 reg hreg hr0
    · subst h2
      rw [hr.1.2] at hi2; simp only [Option.some.injEq] at hi2; subst hi2
      exact fun hw => (hwaw j1 i1 h1 hi1 reg hw hr0).2 hreg
    · subst h1
      rw [hr.1.2] at hi1; simp only [Option.some.injEq] at hi1; subst hi1
      exact hraw j2 i2 h2 hi2 reg hreg hr0
    · exact absurd (h1.trans h2.symm) hne
  · intro j l i1 i2 hf hjl hl hi1 hi2 reg hreg hr0
    simp only [List.length_append, List.length_cons, List.length_nil] at hl
    rcases hnew j hf with h1 | h1
    · rcases Nat.lt_or_ge l (nt + X.length) with h2 | h2
      · exact hb.ww j l i1 i2 h1 hjl h2 hi1 hi2 reg hreg hr0
      · have : l = nt + X.length := by omega
        subst this
        rw [hr.1.2] at hi2; simp only [Option.some.injEq] at hi2; subst hi2
        exact fun hw => (hwaw j i1 h1 hi1 reg hw hr0).1 hreg
    · omega
  · intro reg hne
    have := hb.sbW reg hne
    simp only [addPendingRegisters, get1_incRegs, hne, if_false, cntX_append]
    omega
  · intro reg hne
    have := hb.sbR reg hne
    simp only [addPendingRegisters, get1_incRegs, hne, if_false, cntXr_append]
    omega

theorem getElem?_set_cases {α : Type} (l : List α) (i k : Nat) (a b : α) (h : (l.set i a)[k]? = some b) :
    (k = i ∧ b = a) ∨ (k ≠ i ∧ l[k]? = some b) := by
  by_cases hk : k = i
  · subst hk
    left
    rw [List.getElem?_set_self'] at h
    cases hl : l[k]? with
    | none => rw [hl] at h; cases h
    | some v => rw [hl] at h; simp at h; exact ⟨rfl, h.symm⟩
  · right
    rw [List.getElem?_set_ne (Ne.symm hk)] at h
    exact ⟨hk, h⟩

/-- **take**: an execute unit takes the oldest issued runner off the execute bus (the unpipelined run can take the step) -/
theorem BackO.take {x : Runner} {X' : List Runner} (hb : BackO app a0 c ctx (x :: X') H W nt) (hp : ProgLd app a0) (i : Nat)
    (hi : H[i]? = some none) (St1 : Arch) (hst1 : seqL app (nt + 1) a0 = some St1) (hnr : NoRetBefore app nt) :
    BackO app a0 c ctx X' (H.set i (some x)) W (nt + 1) := by
  have hsm := hp.small
  have hx : ROk app c x nt := ⟨hb.xchain.1, by rw [hb.xseq x List.mem_cons_self, hb.xchain.1.1]⟩
  obtain ⟨St, hst⟩ := hb.st
  have hmem : ∀ y, some y ∈ H.set i (some x) → some y ∈ H ∨ y = x := by
    intro y hy
    rcases mem_set_some hy with h | h
    · exact Or.inl h
    · simp only [Option.some.injEq] at h; exact Or.inr h.symm
  have hsub : ∀ y, some y ∈ H → some y ∈ H.set i (some x) := by
    intro y hy
    obtain ⟨k, hk, hk'⟩ := List.getElem_of_mem hy
    have hki : k ≠ i := by
      intro hc; subst hc
      rw [List.getElem?_eq_getElem hk, hk'] at hi; cases hi
    exact List.mem_of_getElem? (by rw [List.getElem?_set_ne (Ne.symm hki), List.getElem?_eq_getElem hk, hk'])
  have hfl : ∀ j, FlO app c X' (H.set i (some x)) W j → FlO app c (x :: X') H W j := by
    intro j hf
    rcases hf with ⟨y, hy, hok⟩ | ⟨y, hy, hok⟩ | h
    · exact Or.inl ⟨y, List.mem_cons_of_mem _ hy, hok⟩
    · rcases hmem y hy with h | rfl
      · exact Or.inr (Or.inl ⟨y, h, hok⟩)
      · exact Or.inl ⟨y, List.mem_cons_self, hok⟩
    · exact Or.inr (Or.inr h)
  have hxfl : FlO app c (x :: X') H W nt := Or.inl ⟨x, List.mem_cons_self, hx⟩
  refine ⟨⟨St1, hst1⟩, hb.xchain.2, fun y hy => hb.xseq y (List.mem_cons_of_mem _ hy), hb.ratS, hb.txS, hb.zr, ?_, ?_, ?_, ?_, ?_, ?_, ?_, ?_,
    ?_, ?_⟩
  · intro y hy
    rcases hmem y hy with h | rfl
    · obtain ⟨j, hj, hok⟩ := hb.hidx y h; exact ⟨j, by omega, hok⟩
    · exact ⟨nt, by omega, hx⟩
  · intro ec hec
    obtain ⟨j, y, e, aj, bytes, hj, rest⟩ := hb.widx ec hec
    exact ⟨j, y, e, aj, bytes, by omega, rest⟩
  · intro St' hst' r hr hH hW
    rw [hst1] at hst'; simp only [Option.some.injEq] at hst'; subst hst'
    have h1 := hb.regsA St hst r hr (fun y hy => hH y (hsub y hy)) hW
    have hrx : r ∉ x.instr.writeRegisters := hH x (List.mem_of_getElem? (by
      rw [List.getElem?_set_self']; rw [hi]; rfl))
    rw [h1, seq_frame app a0 hp nt St St1 x.instr hst hst1 hnr hx.1.2 r hrx]
  · intro y j aj hy hok haj r hr hr0
    rcases hmem y hy with h | rfl
    · exact hb.opsB y j aj h hok haj r hr hr0
    · have hj : j = nt := ROk.idx_eq hsm hok hx
      subst hj
      rw [hst] at haj; simp only [Option.some.injEq] at haj; subst haj
      apply hb.regsA St hst r hr0
      · intro z hz hw
        obtain ⟨l, hl, hzok⟩ := hb.hidx z hz
        exact hb.indep j l y.instr z.instr hxfl (Or.inr (Or.inl ⟨z, hz, hzok⟩)) (by omega) hx.1.2 hzok.1.2 r hr hr0 hw
      · intro ec hec hw
        obtain ⟨l, z, e, _, _, hl, hzok, rfl, _⟩ := hb.widx ec hec
        exact hb.indep j l y.instr z.instr hxfl (Or.inr (Or.inr ⟨_, hec, hzok.2, idx_lt app l _ hzok.1.2⟩)) (by omega) hx.1.2 hzok.1.2 r hr hr0 hw
  · intro j1 j2 i1 i2 hf1 hf2
    exact hb.indep j1 j2 i1 i2 (hfl j1 hf1) (hfl j2 hf2)
  · intro j l i1 i2 hf hjl hl
    exact hb.ww j l i1 i2 (hfl j hf) hjl (by simp only [List.length_cons]; omega)
  · intro y hy ec hec
    rcases hmem y hy with h | rfl
    · exact hb.uHW y h ec hec
    · obtain ⟨l, z, e, _, _, hl, hzok, rfl, _⟩ := hb.widx ec hec
      intro heq
      have : pcOf l + c = pcOf nt + c := by rw [← hzok.2, ← hx.2]; exact heq
      have h2 := idx_lt app l _ hzok.1.2
      have h3 := idx_lt app nt _ hx.1.2
      have := pcOf_add_inj c l nt (by omega) (by omega) this
      omega
  · intro i1 i2 x1 x2 hne h1 h2
    rcases getElem?_set_cases H i i1 _ _ h1 with ⟨m1, e1⟩ | ⟨n1, e1⟩ <;>
      rcases getElem?_set_cases H i i2 _ _ h2 with ⟨m2, e2⟩ | ⟨n2, e2⟩
    · exact absurd (m1.trans m2.symm) hne
    · simp only [Option.some.injEq] at e1; subst e1
      obtain ⟨l, hl, hzok⟩ := hb.hidx x2 (List.mem_of_getElem? e2)
      intro heq
      have : pcOf nt + c = pcOf l + c := by rw [← hzok.2, ← hx.2]; exact heq
      have h2' := idx_lt app l _ hzok.1.2
      have h3 := idx_lt app nt _ hx.1.2
      have := pcOf_add_inj c nt l (by omega) (by omega) this
      omega
    · simp only [Option.some.injEq] at e2; subst e2
      obtain ⟨l, hl, hzok⟩ := hb.hidx x1 (List.mem_of_getElem? e1)
      intro heq
      have : pcOf l + c = pcOf nt + c := by rw [← hzok.2, ← hx.2]; exact heq
      have h2' := idx_lt app l _ hzok.1.2
      have h3 := idx_lt app nt _ hx.1.2
      have := pcOf_add_inj c l nt (by omega) (by omega) this
      omega
    · exact hb.uHH i1 i2 x1 x2 hne e1 e2
  · intro r hr
    have := hb.sbW r hr
    have hs := hsum_set (fun y => y.instr.writeRegisters.count r) H i none (some x) hi
    simp only [cntX, List.map_cons, List.sum_cons] at this hs ⊢
    omega
  · intro r hr
    have := hb.sbR r hr
    have hs := hsum_set (fun y => y.instr.readRegisters.count r) H i none (some x) hi
    simp only [cntXr, List.map_cons, List.sum_cons] at this hs ⊢
    omega

/-- **execute**: a unit executes the runner it holds; the result (the one of the unpipelined step) goes to the write bus -/
theorem BackO.exec (hb : BackO app a0 c ctx X H W nt) (hsm : app.instrs.length < 250) (i : Nat) (x : Runner)
    (hi : H[i]? = some (some x)) (j : Nat) (aj : Arch) (bytes : List Byte) (e : Gen.Execution) (hok : ROk app c x j)
    (haj : seqL app j a0 = some aj)
    (hby : (x.instr.memoryRead aj.ctx 0#32).mapM (Model.Seq.readMem aj.ctx.Memory) = some bytes)
    (hrun : x.instr.run aj.ctx app.labels aj.pc bytes 0#32 = .ok e) :
    BackO app a0 c ctx X (H.set i none) (W ++ [ecOf x e]) nt := by
  have hxH : some x ∈ H := List.mem_of_getElem? hi
  have hmem : ∀ y, some y ∈ H.set i none → some y ∈ H := by
    intro y hy
    rcases mem_set_some hy with h | h
    · exact h
    · cases h
  obtain ⟨jx, hjx, hokx⟩ := hb.hidx x hxH
  have hjj : jx = j := ROk.idx_eq hsm hokx hok
  subst hjj
  have hfl : ∀ l, FlO app c X (H.set i none) (W ++ [ecOf x e]) l → FlO app c X H W l := by
    intro l hf
    rcases hf with h | ⟨y, hy, hyok⟩ | ⟨ec, hec, hs⟩
    · exact Or.inl h
    · exact Or.inr (Or.inl ⟨y, hmem y hy, hyok⟩)
    · rcases List.mem_append.mp hec with hec | hec
      · exact Or.inr (Or.inr ⟨ec, hec, hs⟩)
      · simp only [List.mem_singleton] at hec; subst hec
        have h2 := idx_lt app jx _ hok.1.2
        refine Or.inr (Or.inl ⟨x, hxH, ?_⟩)
        have hs' : x.seq = pcOf l + c := hs.1
        rw [hok.2] at hs'
        have := pcOf_add_inj c jx l (by omega) (by have := hs.2; omega) hs'
        subst this; exact hok
  refine ⟨hb.st, hb.xchain, hb.xseq, hb.ratS, hb.txS, hb.zr, fun y hy => hb.hidx y (hmem y hy), ?_, ?_, ?_, ?_, ?_, ?_, ?_, ?_, ?_⟩
  · intro ec hec
    rcases List.mem_append.mp hec with hec | hec
    · exact hb.widx ec hec
    · simp only [List.mem_singleton] at hec; subst hec
      exact ⟨jx, x, e, aj, bytes, hjx, hok, rfl, haj, hby, hrun⟩
  · intro St hst r hr hH hW
    have hrx : r ∉ x.instr.writeRegisters := hW (ecOf x e) (List.mem_append_right _ List.mem_cons_self)
    apply hb.regsA St hst r hr
    · intro y hy
      obtain ⟨k, hk, hk'⟩ := List.getElem_of_mem hy
      by_cases hki : k = i
      · subst hki
        rw [List.getElem?_eq_getElem hk, hk'] at hi
        simp only [Option.some.injEq] at hi; subst hi; exact hrx
      · exact hH y (List.mem_of_getElem? (by rw [List.getElem?_set_ne (Ne.symm hki), List.getElem?_eq_getElem hk, hk']))
    · exact fun ec hec => hW ec (List.mem_append_left _ hec)
  · exact fun y l al hy => hb.opsB y l al (hmem y hy)
  · intro j1 j2 i1 i2 hf1 hf2
    exact hb.indep j1 j2 i1 i2 (hfl j1 hf1) (hfl j2 hf2)
  · intro l1 l i1 i2 hf
    exact hb.ww l1 l i1 i2 (hfl l1 hf)
  · intro y hy ec hec
    rcases List.mem_append.mp hec with hec | hec
    · exact hb.uHW y (hmem y hy) ec hec
    · simp only [List.mem_singleton] at hec; subst hec
      obtain ⟨k, hk, hk'⟩ := List.getElem_of_mem hy
      have hk2 : (H.set i none)[k]? = some (some y) := by rw [List.getElem?_eq_getElem hk, hk']
      rcases getElem?_set_cases H i k _ _ hk2 with ⟨_, h⟩ | ⟨hne, h⟩
      · cases h
      · exact fun heq => hb.uHH i k x y (Ne.symm hne) hi h heq
  · intro i1 i2 x1 x2 hne h1 h2
    rcases getElem?_set_cases H i i1 _ _ h1 with ⟨_, e1⟩ | ⟨_, e1⟩
    · cases e1
    · rcases getElem?_set_cases H i i2 _ _ h2 with ⟨_, e2⟩ | ⟨_, e2⟩
      · cases e2
      · exact hb.uHH i1 i2 x1 x2 hne e1 e2
  · intro r hr
    have := hb.sbW r hr
    have hs := hsum_set (fun y => y.instr.writeRegisters.count r) H i (some x) none hi
    simp only [cntW, List.map_append, List.sum_append, List.map_cons, List.map_nil, List.sum_cons, List.sum_nil, ecOf] at this hs ⊢
    omega
  · intro r hr
    have := hb.sbR r hr
    have hs := hsum_set (fun y => y.instr.readRegisters.count r) H i (some x) none hi
    simp only [cntWr, List.map_append, List.sum_append, List.map_cons, List.map_nil, List.sum_cons, List.sum_nil, ecOf] at this hs ⊢
    omega

/-- **a `ret` leaves its unit**: it reads and writes nothing, and nothing goes onto the write bus -/
theorem BackO.retire (hb : BackO app a0 c ctx X H W nt) (i : Nat) (x : Runner) (hi : H[i]? = some (some x))
    (hwx : x.instr.writeRegisters = []) : BackO app a0 c ctx X (H.set i none) W nt := by
  have hmem : ∀ y, some y ∈ H.set i none → some y ∈ H := by
    intro y hy
    rcases mem_set_some hy with h | h
    · exact h
    · cases h
  have hfl : ∀ l, FlO app c X (H.set i none) W l → FlO app c X H W l :=
    fun l hf => hf.mono (fun _ h => h) hmem (fun _ h => h)
  refine ⟨hb.st, hb.xchain, hb.xseq, hb.ratS, hb.txS, hb.zr, fun y hy => hb.hidx y (hmem y hy), hb.widx, ?_, ?_, ?_, ?_, ?_, ?_, ?_, ?_⟩
  · intro St hst r hr hH hW
    apply hb.regsA St hst r hr _ hW
    intro y hy
    obtain ⟨k, hk, hk'⟩ := List.getElem_of_mem hy
    by_cases hki : k = i
    · subst hki
      rw [List.getElem?_eq_getElem hk, hk'] at hi
      simp only [Option.some.injEq] at hi; subst hi; rw [hwx]; exact List.not_mem_nil
    · exact hH y (List.mem_of_getElem? (by rw [List.getElem?_set_ne (Ne.symm hki), List.getElem?_eq_getElem hk, hk']))
  · exact fun y l al hy => hb.opsB y l al (hmem y hy)
  · intro j1 j2 i1 i2 hf1 hf2
    exact hb.indep j1 j2 i1 i2 (hfl j1 hf1) (hfl j2 hf2)
  · intro l1 l i1 i2 hf
    exact hb.ww l1 l i1 i2 (hfl l1 hf)
  · exact fun y hy ec hec => hb.uHW y (hmem y hy) ec hec
  · intro i1 i2 x1 x2 hne h1 h2
    rcases getElem?_set_cases H i i1 _ _ h1 with ⟨_, e1⟩ | ⟨_, e1⟩
    · cases e1
    · rcases getElem?_set_cases H i i2 _ _ h2 with ⟨_, e2⟩ | ⟨_, e2⟩
      · cases e2
      · exact hb.uHH i1 i2 x1 x2 hne e1 e2
  · intro r hr
    have := hb.sbW r hr
    have hs := hsum_set (fun y => y.instr.writeRegisters.count r) H i (some x) none hi
    simp only at hs
    omega
  · intro r hr
    have := hb.sbR r hr
    have hs := hsum_set (fun y => y.instr.readRegisters.count r) H i (some x) none hi
    simp only at hs
    omega

/-- **write back**: a write unit takes the oldest result off the write bus -/
theorem BackO.writeback {ec : ExecCtx} (hb : BackO app a0 c ctx X H (ec :: W) nt) (hp : ProgLd app a0)
    (hnr : NoRetBefore app (nt - 1)) :
    BackO app a0 c (deletePendingRegisters (if ec.execution.RegisterChange then Model.Seq.writeRegister ctx ec.execution else ctx)
      ec.readRegisters ec.writeRegisters) X H W nt := by
  have hsm := hp.small
  obtain ⟨j, x, e, aj, bytes, hj, hok, rfl, haj, hby, hrun⟩ := hb.widx _ List.mem_cons_self
  have hjl := idx_lt app j _ hok.1.2
  have hflj : FlO app c X H (ecOf x e :: W) j := Or.inr (Or.inr ⟨_, List.mem_cons_self, hok.2, hjl⟩)
  have hfl : ∀ l, FlO app c X H W l → FlO app c X H (ecOf x e :: W) l :=
    fun l hf => hf.mono (fun _ h => h) (fun _ h => h) (fun _ h => List.mem_cons_of_mem _ h)
  have hs := Proofs.Mvp4.run_shape x.instr aj.ctx app.labels aj.pc bytes 0#32 e hrun
  generalize hctx' : deletePendingRegisters (if (ecOf x e).execution.RegisterChange then Model.Seq.writeRegister ctx (ecOf x e).execution else ctx)
    (ecOf x e).readRegisters (ecOf x e).writeRegisters = ctx'
  have hregs : ctx'.Registers = if e.RegisterChange then ctx.Registers.set e.Register e.RegisterValue else ctx.Registers := by
    rw [← hctx']; cases hrc : e.RegisterChange <;> simp only [deletePendingRegisters, ecOf, hrc, if_true, Bool.false_eq_true, if_false, Model.Seq.writeRegister]
  have hpw : ctx'.PendingWriteRegisters = decRegs ctx.PendingWriteRegisters x.instr.writeRegisters := by
    rw [← hctx']; cases hrc : e.RegisterChange <;> simp only [deletePendingRegisters, ecOf, hrc, if_true, Bool.false_eq_true, if_false, Model.Seq.writeRegister]
  have hpr : ctx'.PendingReadRegisters = decRegs ctx.PendingReadRegisters x.instr.readRegisters := by
    rw [← hctx']; cases hrc : e.RegisterChange <;> simp only [deletePendingRegisters, ecOf, hrc, if_true, Bool.false_eq_true, if_false, Model.Seq.writeRegister]
  -- a register other than the one written keeps its value
  have hkeep : ∀ r, r ∉ x.instr.writeRegisters → GoMap.get1 ctx'.Registers r = GoMap.get1 ctx.Registers r := by
    intro r hr
    rw [hregs]
    split
    · rename_i hrc
      rw [hs.wregs, hrc] at hr
      simp only [if_true, List.mem_singleton] at hr
      rw [Proofs.Mvp4.get1_set]
      have : (r == e.Register) = false := by simpa using hr
      simp only [this, Bool.false_eq_true, if_false]
    · rfl
  refine ⟨hb.st, hb.xchain, hb.xseq, ?_, ?_, ?_, hb.hidx, fun ec hec => hb.widx ec (List.mem_cons_of_mem _ hec), ?_, ?_, ?_, ?_, ?_,
    hb.uHH, ?_, ?_⟩
  · rw [← hctx']; cases hrc : e.RegisterChange <;> simp only [deletePendingRegisters, ecOf, hrc, if_true, Bool.false_eq_true, if_false, Model.Seq.writeRegister] <;> exact hb.ratS
  · rw [← hctx']; cases hrc : e.RegisterChange <;> simp only [deletePendingRegisters, ecOf, hrc, if_true, Bool.false_eq_true, if_false, Model.Seq.writeRegister] <;> exact hb.txS
  · rw [hregs]
    split
    · rename_i hrc
      rw [Proofs.Mvp4.get1_set]
      split
      · rename_i heq
        exact run_zero x.instr aj.ctx app.labels aj.pc bytes 0#32 e hrun (eq_of_beq heq).symm hrc
      · exact hb.zr
    · exact hb.zr
  · intro St hst r hr hH hW
    by_cases hrx : r ∈ x.instr.writeRegisters
    · -- the register this result writes: its value is that of the unpipelined run after step `j`, and nobody behind writes it
      obtain ⟨f1, f2, _⟩ := seq_facts app a0 hp j aj haj (hnr.mono (by omega))
      obtain ⟨aj1, haj1⟩ := seqIter_prefix app a0 nt St hst (j + 1) (by omega)
      obtain ⟨i', bytes', e', hi', hby', he', hs1⟩ := seq_succ app a0 hp j aj aj1 haj f1 f2 (hnr.mono (by omega)) haj1
      have hi'' := hok.1.2
      rw [hi'] at hi''; simp only [Option.some.injEq] at hi''; subst hi''
      rw [hby] at hby'; simp only [Option.some.injEq] at hby'; subst hby'
      rw [hrun] at he'; simp only [Except.ok.injEq] at he'; subst he'
      have hrc : e.RegisterChange = true := by
        cases hc : e.RegisterChange with
        | true => rfl
        | false => rw [hs.wregs, hc] at hrx; simp at hrx
      have hreg : r = e.Register := by
        rw [hs.wregs, hrc] at hrx; simpa using hrx
      have hv1 : GoMap.get1 aj1.ctx.Registers r = e.RegisterValue := by
        rw [hs1]; simp only [hrc, if_true, Model.Seq.writeRegister, Proofs.Mvp4.get1_set, hreg, beq_self_eq_true]
      have hrange := seq_frame_range app a0 hp r (j + 1) (nt - (j + 1)) aj1 St haj1 (by
        have : j + 1 + (nt - (j + 1)) = nt := by omega
        rw [this]; exact hst) (by
        have : j + 1 + (nt - (j + 1)) - 1 = nt - 1 := by omega
        rw [this]; exact hnr) (fun l il h1 h2 hil hw =>
          hb.ww j l x.instr il hflj (by omega) (by omega) hok.1.2 hil r hrx hr hw)
      rw [hrange, hv1, hregs]
      simp only [hrc, if_true, Proofs.Mvp4.get1_set, hreg, beq_self_eq_true]
    · rw [hkeep r hrx]
      apply hb.regsA St hst r hr hH
      intro ec hec
      rcases List.mem_cons.mp hec with rfl | hec
      · exact hrx
      · exact hW ec hec
  · intro y l al hy hyok hal r hr hr0
    have hne : j ≠ l := by
      intro hjl'
      subst hjl'
      exact hb.uHW y hy _ List.mem_cons_self (by simp only [ecOf]; rw [hok.2, hyok.2])
    have hrx : r ∉ x.instr.writeRegisters :=
      hb.indep l j y.instr x.instr (Or.inr (Or.inl ⟨y, hy, hyok⟩)) hflj (Ne.symm hne) hyok.1.2 hok.1.2 r hr hr0
    rw [hkeep r hrx]
    exact hb.opsB y l al hy hyok hal r hr hr0
  · intro j1 j2 i1 i2 hf1 hf2
    exact hb.indep j1 j2 i1 i2 (hfl j1 hf1) (hfl j2 hf2)
  · intro l1 l i1 i2 hf
    exact hb.ww l1 l i1 i2 (hfl l1 hf)
  · exact fun y hy ec hec => hb.uHW y hy ec (List.mem_cons_of_mem _ hec)
  · intro r hr
    have h1 := hb.sbW r hr
    have h2 := get1_decRegs_ge x.instr.writeRegisters ctx.PendingWriteRegisters r
    rw [hpw]
    simp only [cntW, List.map_cons, List.sum_cons, ecOf] at h1 ⊢
    omega
  · intro r hr
    have h1 := hb.sbR r hr
    have h2 := get1_decRegs_ge x.instr.readRegisters ctx.PendingReadRegisters r
    rw [hpr]
    simp only [cntWr, List.map_cons, List.sum_cons, ecOf] at h1 ⊢
    omega

/-- the invariant looks at the registers, the scoreboards and the two flags of the context only -/
theorem BackO.congr_ctx (hb : BackO app a0 c ctx X H W nt) (ctx' : Model.Context) (h1 : ctx'.Registers = ctx.Registers)
    (h2 : ctx'.PendingWriteRegisters = ctx.PendingWriteRegisters) (h3 : ctx'.PendingReadRegisters = ctx.PendingReadRegisters)
    (h4 : ctx'.rat = ctx.rat) (h5 : ctx'.Transaction = ctx.Transaction) : BackO app a0 c ctx' X H W nt :=
  ⟨hb.st, hb.xchain, hb.xseq, by rw [h4]; exact hb.ratS, by rw [h5]; exact hb.txS, by rw [h1]; exact hb.zr, hb.hidx, hb.widx,
   by rw [h1]; exact hb.regsA, by rw [h1]; exact hb.opsB, hb.indep, hb.ww, hb.uHW, hb.uHH, by rw [h2]; exact hb.sbW,
   by rw [h3]; exact hb.sbR⟩

end

end Proofs.Mvp60Ld

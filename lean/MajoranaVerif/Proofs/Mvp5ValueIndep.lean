/-
  Proofs/Mvp5ValueIndep.lean — the cycle count of MVP-5 does not depend on operand values (work package VI45):
  the analogue of Proofs/Mvp4ValueIndep.lean.  Shape equality `Sh5` = MVP-4's on the common part of the state, plus
  equal cleaning flag, equal decode-stall flag and EQUAL branch target buffers (the BTB holds pcs and targets, which
  are part of the timing trace).  Every instruction that is not an unconditional jump goes through MVP-4's execute
  unit (`euIssue_nonjump`, `euMemDone_nonjump`); jumps are treated here.
-/
import MajoranaVerif.Proofs.Mvp4ValueIndep
import MajoranaVerif.Proofs.Mvp5Cycles
open GoInt Model Model.Seq
open Proofs.Mvp4
open Proofs.CycleTraceMvp3 (eB eU eC eL z g eB_length eB_eq_replicate)

set_option linter.unusedSimpArgs false
set_option linter.unusedVariables false

namespace Proofs.Mvp5
open Model.Mvp5
open Model.Mvp4 (Runner ExecUnit EuOut Event Mode instrAt pastEnd FetchUnit WriteUnit BranchUnit)

/-- **shape equality** of two MVP-5 machine states -/
structure Sh5 (s1 s2 : State) : Prop where
  base : Sh s1.base s2.base
  tcp : s1.toCleanPending = s2.toCleanPending
  dup : s1.duPending = s2.duPending
  btb : s1.btb = s2.btb

def ShM5 : M State → M State → Prop
  | .ok a, .ok b => Sh5 a b
  | .error e, .error e' => e = e'
  | _, _ => False

def ShP5 : M (State × Event) → M (State × Event) → Prop
  | .ok (a, e), .ok (b, e') => Sh5 a b ∧ e = e'
  | .error e, .error e' => e = e'
  | _, _ => False

def ShE5 : M (State × EuOut) → M (State × EuOut) → Prop
  | .ok (a, o), .ok (b, o') => Sh5 a b ∧ o = o'
  | .error e, .error e' => e = e'
  | _, _ => False

theorem Sh5.with_base {s1 s2 : State} (h : Sh5 s1 s2) {b1 b2 : Model.Mvp4.State} (hb : Sh b1 b2) :
    Sh5 { s1 with base := b1 } { s2 with base := b2 } := ⟨hb, h.tcp, h.dup, h.btb⟩

/-! ### fetch, decode, write, drain -/

theorem fetchCycle5_sh {app : App} {s1 s2 : State} (h : Sh5 s1 s2) :
    ShM5 (Model.Mvp5.fetchCycle app s1) (Model.Mvp5.fetchCycle app s2) := by
  have e1 : Except.map (fun r => (r.1, eU r.2.1, r.2.2))
        (Model.Mvp4.fetchCore app s1.base.fu s1.base.mmu (if s1.toCleanPending then s1.base.decodeBus.clean else s1.base.decodeBus)) =
      Except.map (fun r => (r.1, eU r.2.1, r.2.2))
        (Model.Mvp4.fetchCore app s2.base.fu s2.base.mmu (if s2.toCleanPending then s2.base.decodeBus.clean else s2.base.decodeBus)) := by
    rw [← fetchCore_eU, ← fetchCore_eU, h.base.fu, h.base.decodeBus, h.base.mmu, h.tcp]
  unfold Model.Mvp5.fetchCycle
  simp only
  rcases map_eq_cases e1 with ⟨a, b, ha, hb, hab⟩ | ⟨e, ha, hb⟩
  · obtain ⟨fa, ua, ba⟩ := a
    obtain ⟨fb, ub, bb⟩ := b
    simp only [Prod.mk.injEq] at hab
    simp only [ha, hb, bind, Except.bind, pure, Except.pure]
    exact ⟨{ fu := hab.1, decodeBus := hab.2.2, executeBus := h.base.executeBus, eu := h.base.eu, writeBus := h.base.writeBus,
             wu := h.base.wu, mmu := hab.2.1, cycles := h.base.cycles, mode := h.base.mode, executed := h.base.executed,
             pwmi := h.base.pwmi, pwr := h.base.pwr, memLen := h.base.memLen }, rfl, h.dup, h.btb⟩
  · simp only [ha, hb, bind, Except.bind]
    rfl

theorem decodeCycle5_sh {app : App} {s1 s2 : State} (h : Sh5 s1 s2) :
    ShM5 (Model.Mvp5.decodeCycle app s1) (Model.Mvp5.decodeCycle app s2) := by
  unfold Model.Mvp5.decodeCycle
  rw [h.dup, h.base.executeBus, h.base.decodeBus]
  split
  · exact h
  · split
    · exact h
    · simp only
      cases hx : s2.base.decodeBus.get.1 with
      | none =>
        have hg : s2.base.decodeBus.get = (none, s2.base.decodeBus.get.2) := by rw [← hx]
        rw [hg]
        simp only [pure, Except.pure]
        exact ⟨{ fu := h.base.fu, decodeBus := rfl, executeBus := h.base.executeBus, eu := h.base.eu,
                 writeBus := h.base.writeBus, wu := h.base.wu, mmu := h.base.mmu, cycles := h.base.cycles,
                 mode := h.base.mode, executed := h.base.executed, pwmi := h.base.pwmi, pwr := h.base.pwr,
                 memLen := h.base.memLen }, h.tcp, rfl, h.btb⟩
      | some pc =>
        have hg : s2.base.decodeBus.get = (some pc, s2.base.decodeBus.get.2) := by rw [← hx]
        rw [hg]
        simp only
        cases instrAt app pc with
        | error f => rfl
        | ok i =>
          simp only [bind, Except.bind, pure, Except.pure]
          exact ⟨{ fu := h.base.fu, decodeBus := rfl, executeBus := rfl, eu := h.base.eu,
                   writeBus := h.base.writeBus, wu := h.base.wu, mmu := h.base.mmu, cycles := h.base.cycles,
                   mode := h.base.mode, executed := h.base.executed, pwmi := h.base.pwmi, pwr := h.base.pwr,
                   memLen := h.base.memLen }, h.tcp, rfl, h.btb⟩

theorem writeCycle5_sh {s1 s2 : State} (h : Sh5 s1 s2) : ShM5 (Model.Mvp5.writeCycle s1) (Model.Mvp5.writeCycle s2) := by
  have hw := writeCycle_sh h.base
  unfold Model.Mvp5.writeCycle
  revert hw
  cases Model.Mvp4.writeCycle s1.base with
  | error f =>
    cases Model.Mvp4.writeCycle s2.base with
    | error f' => intro hw; exact hw
    | ok b => intro hw; exact hw.elim
  | ok a =>
    cases Model.Mvp4.writeCycle s2.base with
    | error f' => intro hw; exact hw.elim
    | ok b =>
      intro hw
      simp only [bind, Except.bind, pure, Except.pure]
      exact h.with_base hw

theorem flushAll5_sh {s1 s2 : State} (h : Sh5 s1 s2) (pc : Word) :
    Sh5 (Model.Mvp5.flushAll s1 pc) (Model.Mvp5.flushAll s2 pc) := by
  have hf := flushAll_sh h.base pc
  obtain ⟨g1, g2, g3, g4, g5, g6, g7⟩ := eEu_fields hf.eu
  refine ⟨?_, h.tcp, rfl, h.btb⟩
  exact { fu := hf.fu, decodeBus := hf.decodeBus, executeBus := hf.executeBus,
          eu := (by
            show eEu { (Model.Mvp4.flushAll s1.base pc).eu with processing := false, remainingCycles := 0 } =
              eEu { (Model.Mvp4.flushAll s2.base pc).eu with processing := false, remainingCycles := 0 }
            unfold eEu; simp only [g2, g3, g4, g6, g7]),
          writeBus := hf.writeBus, wu := hf.wu, mmu := hf.mmu, cycles := hf.cycles, mode := hf.mode,
          executed := hf.executed, pwmi := hf.pwmi, pwr := hf.pwr, memLen := hf.memLen }

theorem finish5_sh {s1 s2 : State} (h : Sh5 s1 s2) (hk : Halt) :
    ShP5 (Model.Mvp5.finish s1 hk) (Model.Mvp5.finish s2 hk) := by
  have hf := finish_sh h.base hk
  unfold Model.Mvp5.finish
  revert hf
  cases Model.Mvp4.finish s1.base hk with
  | error f =>
    cases Model.Mvp4.finish s2.base hk with
    | error f' => intro hf; exact hf
    | ok b => intro hf; exact hf.elim
  | ok a =>
    cases Model.Mvp4.finish s2.base hk with
    | error f' => intro hf; exact hf.elim
    | ok b =>
      obtain ⟨a1, e1⟩ := a
      obtain ⟨b1, e2⟩ := b
      intro hf
      obtain ⟨hs, he⟩ : Sh a1 b1 ∧ e1 = e2 := hf
      simp only [bind, Except.bind, pure, Except.pure]
      exact ⟨h.with_base hs, he⟩

theorem Sh5.with_mode {s1 s2 : State} (h : Sh5 s1 s2) (m : Mode) :
    Sh5 { s1 with base := { s1.base with mode := m } } { s2 with base := { s2.base with mode := m } } :=
  h.with_base (h.base.with_mode m)

theorem afterExecute5_sh {s1 s2 : State} (h : Sh5 s1 s2) (out : EuOut) :
    ShP5 (Model.Mvp5.afterExecute s1 out) (Model.Mvp5.afterExecute s2 out) := by
  unfold Model.Mvp5.afterExecute
  cases out with
  | err => exact ⟨h, rfl⟩
  | none =>
    have hw := writeCycle5_sh h
    revert hw
    cases Model.Mvp5.writeCycle s1 with
    | error f =>
      cases Model.Mvp5.writeCycle s2 with
      | error f' => intro hw; exact hw
      | ok b => intro hw; exact hw.elim
    | ok a =>
      cases Model.Mvp5.writeCycle s2 with
      | error f' => intro hw; exact hw.elim
      | ok b =>
        intro hw
        have hw' : Sh5 a b := hw
        simp only [bind, Except.bind]
        have hic : Model.Mvp5.isComplete a = Model.Mvp5.isComplete b := isComplete_sh hw'.base
        rw [hic]
        split
        · exact finish5_sh hw' .offEnd
        · exact ⟨hw', rfl⟩
  | ret =>
    have hw := writeCycle5_sh h
    revert hw
    cases Model.Mvp5.writeCycle s1 with
    | error f =>
      cases Model.Mvp5.writeCycle s2 with
      | error f' => intro hw; exact hw
      | ok b => intro hw; exact hw.elim
    | ok a =>
      cases Model.Mvp5.writeCycle s2 with
      | error f' => intro hw; exact hw.elim
      | ok b =>
        intro hw
        have hw' : Sh5 a b := hw
        simp only [bind, Except.bind]
        have hdc : Model.Mvp5.drainCond a = Model.Mvp5.drainCond b := drainCond_sh hw'.base
        rw [hdc]
        split
        · exact ⟨hw'.with_mode _, rfl⟩
        · exact finish5_sh hw' .ret
  | flush pc =>
    have hw := writeCycle5_sh h
    revert hw
    cases Model.Mvp5.writeCycle s1 with
    | error f =>
      cases Model.Mvp5.writeCycle s2 with
      | error f' => intro hw; exact hw
      | ok b => intro hw; exact hw.elim
    | ok a =>
      cases Model.Mvp5.writeCycle s2 with
      | error f' => intro hw; exact hw.elim
      | ok b =>
        intro hw
        have hw' : Sh5 a b := hw
        simp only [bind, Except.bind]
        have hdc : Model.Mvp5.drainCond a = Model.Mvp5.drainCond b := drainCond_sh hw'.base
        rw [hdc]
        split
        · exact ⟨hw'.with_mode _, rfl⟩
        · exact ⟨flushAll5_sh hw' pc, rfl⟩


/-! ### the execute unit -/

theorem lift_sh {s1 s2 : State} (h : Sh5 s1 s2) {x1 x2 : M (Model.Mvp4.State × EuOut)} (hx : ShE x1 x2) :
    ShE5 (x1.map (lift s1)) (x2.map (lift s2)) := by
  cases x1 with
  | error f1 =>
    cases x2 with
    | error f2 => exact hx
    | ok b => exact hx.elim
  | ok a =>
    cases x2 with
    | error f2 => exact hx.elim
    | ok b =>
      obtain ⟨a1, o1⟩ := a
      obtain ⟨b1, o2⟩ := b
      obtain ⟨hs, ho⟩ : Sh a1 b1 ∧ o1 = o2 := hx
      exact ⟨h.with_base hs, ho⟩

theorem assert5_sh {s1 s2 : State} (h : Sh5 s1 s2) (r : Runner) : Sh5 (assert s1 r) (assert s2 r) := by
  have hg : btbGet s1.btb r.pc = btbGet s2.btb r.pc := by rw [h.btb]
  unfold assert
  simp only
  rw [hg]
  split
  · cases btbGet s2.btb r.pc with
    | none => exact h.with_base (h.base.with_bu _ _)
    | some p =>
      simp only
      unfold fuReset
      exact ⟨{ fu := (by show ({ s1.base.fu with complete := false, pc := p } : FetchUnit) = { s2.base.fu with complete := false, pc := p }; rw [h.base.fu]),
               decodeBus := h.base.decodeBus, executeBus := h.base.executeBus, eu := h.base.eu,
               writeBus := h.base.writeBus, wu := h.base.wu, mmu := h.base.mmu, cycles := h.base.cycles,
               mode := h.base.mode, executed := h.base.executed, pwmi := h.base.pwmi, pwr := h.base.pwr,
               memLen := h.base.memLen }, rfl, h.dup, h.btb⟩
  · split
    · exact h.with_base (h.base.with_bu _ _)
    · exact h.with_base (h.base.with_bu _ _)

/-- the branch unit after `assert` on an unconditional jump: decided by the BTB alone -/
theorem assert_bu_jump (s : State) (r : Runner) (hj : isJump r = true) :
    (assert s r).base.bu = { toCheck := true, expectation := (btbGet s.btb r.pc).getD (BitVec.ofInt 32 (-1)) } := by
  unfold isJump at hj
  unfold assert
  simp only [hj, if_true]
  cases btbGet s.btb r.pc with
  | none => rfl
  | some p => rfl

/-- `Model.Mvp5.euIssue` after the branch unit's `assert` -/
def euIssueTail (app : App) (s : State) (eu : ExecUnit) (r : Runner) : M (State × EuOut) :=
  if Model.Mvp4.isWriteDataHazard s.base.ctx.PendingWriteRegisters r.instr.readRegisters then
    pure ({ s with base := { s.base with eu := { eu with remainingCycles := 1 } } }, .none)
  else
    let addrs := r.instr.memoryRead s.base.ctx 0#32
    if !addrs.isEmpty then
      if addrs.any (fun a => Model.Mvp4.pendingWriteMemoryIntention s.base.pwmi (Model.Mvp4.lineOf a)) then
        pure ({ s with base := { s.base with eu := { eu with remainingCycles := 1 } } }, .none)
      else do
        let (m, mmu) ← Model.Mmu.getFromL1D s.base.mmu addrs
        match m with
        | some m =>
          pure ({ s with base := { s.base with mmu := mmu, eu := { eu with memory := some m, pendingMemoryRead := true, remainingCycles := Gen.Latency.L1Access } } }, .none)
        | none =>
          pure ({ s with base := { s.base with mmu := mmu, eu := { eu with addrs := addrs, pendingMemoryRead := true, remainingCycles := Gen.Latency.MemoryAccess } } }, .none)
    else Model.Mvp5.euRun app { s with base := { s.base with eu := eu } } r []

theorem euIssue_tail (app : App) (s : State) (eu : ExecUnit) (r : Runner) :
    Model.Mvp5.euIssue app s eu r = euIssueTail app (assert s r) eu r := rfl

/-- issue of an unconditional jump after `assert`, two runs side by side: the register interlock, then `Run` (no load,
no store, never `ret`), the link result queued, the BTB taught, the fetch unit redirected to the target, the decode
unit released -/
theorem euIssueTail_jump_sh {app : App} {s1 s2 : State} (h : Sh5 s1 s2) {eu1 eu2 : ExecUnit} (heu : eEu eu1 = eEu eu2)
    (r : Runner) (hj : isJump r = true)
    (hR : Model.Mvp4.isWriteDataHazard s2.base.ctx.PendingWriteRegisters r.instr.readRegisters = false →
      ResOk s1.base.bu s2.base.bu (r.instr.run s1.base.ctx app.labels r.pc [] 0#32)
        (r.instr.run s2.base.ctx app.labels r.pc [] 0#32))
    (hN : Model.Mvp4.isWriteDataHazard s2.base.ctx.PendingWriteRegisters r.instr.readRegisters = false →
      ∀ e1 e2, r.instr.run s1.base.ctx app.labels r.pc [] 0#32 = .ok e1 →
      r.instr.run s2.base.ctx app.labels r.pc [] 0#32 = .ok e2 → e1.NextPc = e2.NextPc) :
    ShE5 (euIssueTail app s1 eu1 r) (euIssueTail app s2 eu2 r) := by
  obtain ⟨g1, g2, g3, g4, g5, g6, g7⟩ := eEu_fields heu
  have hju : r.instr.instructionType.IsUnconditionalBranch = true := hj
  have hstall : eEu { eu1 with remainingCycles := 1 } = eEu { eu2 with remainingCycles := 1 } := by
    unfold eEu; simp only [g1, g2, g3, g4, g6, g7]
  unfold euIssueTail
  simp only
  rw [h.base.pwr]
  by_cases hhz : Model.Mvp4.isWriteDataHazard s2.base.ctx.PendingWriteRegisters r.instr.readRegisters = true
  · simp only [hhz, if_true, pure, Except.pure]
    exact ⟨h.with_base (h.base.with_eu hstall), rfl⟩
  · have hhz' : Model.Mvp4.isWriteDataHazard s2.base.ctx.PendingWriteRegisters r.instr.readRegisters = false := by simpa using hhz
    have hres := hR hhz'
    have hN := hN hhz'
    simp only [hhz', Bool.false_eq_true, if_false, jump_no_load r.instr _ 0#32 hju, List.isEmpty_nil, Bool.not_true]
    -- `Run`
    have hJ : ∀ (c : Model.Context) (e : Gen.Execution), r.instr.run c app.labels r.pc [] 0#32 = .ok e →
        e.PcChange = true ∧ e.MemoryChange = false ∧ e.Return = false :=
      fun c e he => run_jump r.instr c app.labels r.pc [] 0#32 e hju he
    unfold Model.Mvp5.euRun
    simp only
    have heuR : eEu { eu1 with runner := none } = eEu { eu2 with runner := none } := by
      unfold eEu; simp only [g1, g2, g3, g4, g5, g7]
    have heuP : eEu { eu1 with processing := false, runner := none } = eEu { eu2 with processing := false, runner := none } := by
      unfold eEu; simp only [g2, g3, g4, g5, g7]
    revert hres hN
    cases hr1 : r.instr.run s1.base.ctx app.labels r.pc [] 0#32 with
    | error f1 =>
      cases hr2 : r.instr.run s2.base.ctx app.labels r.pc [] 0#32 with
      | ok e2 => intro hres hN; cases f1 <;> exact hres.elim
      | error f2 =>
        intro hres hN
        cases f1 with
        | panic w =>
          cases f2 with
          | panic w' => have : w = w' := hres; subst this; rfl
          | err _ => exact hres.elim
        | err m =>
          cases f2 with
          | panic w' => exact hres.elim
          | err m' =>
            simp only [pure, Except.pure]
            exact ⟨h.with_base (h.base.bump.with_eu heuR), rfl⟩
    | ok e1 =>
      cases hr2 : r.instr.run s2.base.ctx app.labels r.pc [] 0#32 with
      | error f2 => intro hres hN; exact hres.elim
      | ok e2 =>
        intro hres hN
        obtain ⟨hret, hrest⟩ : e1.Return = e2.Return ∧ (e2.Return = false → eX e1 = eX e2 ∧
          outQ s1.base.bu e1 = outQ s2.base.bu e2) := hres
        have hnx := hN e1 e2 rfl rfl
        obtain ⟨p1, m1, r1⟩ := hJ _ e1 hr1
        obtain ⟨p2, m2, r2⟩ := hJ _ e2 hr2
        obtain ⟨he, ho⟩ := hrest r2
        simp only [r1, r2, m1, m2, Bool.false_eq_true, if_false, pure, Except.pure, bind, Except.bind]
        have hq := euQueue_sh (s1 := { s1.base with eu := eu1, executed := s1.base.executed + 1 })
          (s2 := { s2.base with eu := eu2, executed := s2.base.executed + 1 }) (h.base.with_eu heu).bump r he ho heuP h.base.mmu
        unfold Model.Mvp5.euQueue
        simp only [hju, if_true]
        unfold notifyJumpAddressResolved fuReset
        simp only
        refine ⟨⟨?_, rfl, rfl, by rw [h.btb, hnx]⟩, hq.2⟩
        have hb := hq.1
        exact { fu := (by simp only; rw [hb.fu, hnx]), decodeBus := hb.decodeBus, executeBus := hb.executeBus, eu := hb.eu,
                writeBus := hb.writeBus, wu := hb.wu, mmu := hb.mmu, cycles := hb.cycles, mode := hb.mode,
                executed := hb.executed, pwmi := hb.pwmi, pwr := hb.pwr, memLen := hb.memLen }


/-- the results of `Run` of an unconditional jump on the two pipelines: shape-equal, with the same target, for ANY
(common) state of the branch unit -/
theorem resOk_jump {app : App} {a1 a2 : Arch} (hal : ArchAl app a1 a2) {r : Runner}
    (hpc1 : r.pc = a1.pc) (hi : instrAt app r.pc = .ok r.instr) (hj : isJump r = true) {c1 c2 : Model.Context}
    (hr1 : r.instr.run c1 app.labels r.pc [] 0#32 = r.instr.run a1.ctx app.labels a1.pc [] 0#32)
    (hr2 : r.instr.run c2 app.labels r.pc [] 0#32 = r.instr.run a2.ctx app.labels a2.pc [] 0#32)
    (b : BranchUnit) :
    ResOk b b (r.instr.run c1 app.labels r.pc [] 0#32) (r.instr.run c2 app.labels r.pc [] 0#32) ∧
    (∀ e1 e2, r.instr.run c1 app.labels r.pc [] 0#32 = .ok e1 → r.instr.run c2 app.labels r.pc [] 0#32 = .ok e2 →
      e1.NextPc = e2.NextPc) := by
  have hju : r.instr.instructionType.IsUnconditionalBranch = true := hj
  have hi1 : instrAt app a1.pc = .ok r.instr := hpc1 ▸ hi
  have hpc2 : r.pc = a2.pc := by rw [← hal.pcEq hi1]; exact hpc1
  have hi2 : instrAt app a2.pc = .ok r.instr := hpc2 ▸ hi
  have hb1 : (r.instr.memoryRead a1.ctx 0#32).mapM (readMem a1.ctx.Memory) = some [] := by
    rw [jump_no_load r.instr _ 0#32 hju]; rfl
  have hb2 : (r.instr.memoryRead a2.ctx 0#32).mapM (readMem a2.ctx.Memory) = some [] := by
    rw [jump_no_load r.instr _ 0#32 hju]; rfl
  have base := hal.resOk hpc1 hi hb1 hb2 hr1 hr2 default default
  have hs1 := stepArch_run hi1 hb1
  have hs2 := stepArch_run hi2 hb2
  have hnx : ∀ e1 e2, r.instr.run c1 app.labels r.pc [] 0#32 = .ok e1 → r.instr.run c2 app.labels r.pc [] 0#32 = .ok e2 →
      e1.NextPc = e2.NextPc := by
    intro e1 e2 he1 he2
    have he1' : r.instr.run a1.ctx app.labels a1.pc [] 0#32 = .ok e1 := by rw [← hr1]; exact he1
    have he2' : r.instr.run a2.ctx app.labels a2.pc [] 0#32 = .ok e2 := by rw [← hr2]; exact he2
    obtain ⟨p1, _, q1⟩ := run_jump r.instr _ _ _ _ _ e1 hju he1'
    obtain ⟨p2, _, q2⟩ := run_jump r.instr _ _ _ _ _ e2 hju he2'
    obtain ⟨x1, k1, n1⟩ := stepTail_next hs1 he1' q1 hal.g1
    obtain ⟨x2, k2, n2⟩ := stepTail_next hs2 he2' q2 hal.g2
    have := hal.npc _ _ _ _ n1 n2
    unfold nextPcOf at this
    simpa [p1, p2] using this
  refine ⟨?_, hnx⟩
  revert base hnx
  cases hq1 : r.instr.run c1 app.labels r.pc [] 0#32 with
  | error f1 =>
    cases hq2 : r.instr.run c2 app.labels r.pc [] 0#32 with
    | error f2 => intro base _; cases f1 <;> cases f2 <;> exact base
    | ok e2 => intro base _; cases f1 <;> exact base
  | ok e1 =>
    cases hq2 : r.instr.run c2 app.labels r.pc [] 0#32 with
    | error f2 => intro base _; exact base
    | ok e2 =>
      intro base hnx
      obtain ⟨hret, hrest⟩ : e1.Return = e2.Return ∧ (e2.Return = false → eX e1 = eX e2 ∧ _) := base
      refine ⟨hret, fun hr' => ⟨(hrest hr').1, ?_⟩⟩
      have he1' : r.instr.run a1.ctx app.labels a1.pc [] 0#32 = .ok e1 := by rw [← hr1]; exact hq1
      have he2' : r.instr.run a2.ctx app.labels a2.pc [] 0#32 = .ok e2 := by rw [← hr2]; exact hq2
      obtain ⟨p1, _, _⟩ := run_jump r.instr _ _ _ _ _ e1 hju he1'
      obtain ⟨p2, _, _⟩ := run_jump r.instr _ _ _ _ _ e2 hju he2'
      unfold outQ
      simp only [p1, p2, if_true, hnx e1 e2 rfl rfl]


theorem euIssue5_sh {app : App} {s1 s2 : State} {a1 a2 : Arch} {eu1 eu2 : ExecUnit} {r : Runner}
    (h : Sh5 s1 s2) (heu : eEu eu1 = eEu eu2) (hb1 : Back s1.base a1) (hb2 : Back s2.base a2) (hal : ArchAl app a1 a2)
    (hpc1 : r.pc = a1.pc) (hi : instrAt app r.pc = .ok r.instr) (hnf : NoFwd app) :
    ShE5 (Model.Mvp5.euIssue app s1 eu1 r) (Model.Mvp5.euIssue app s2 eu2 r) := by
  have hi1 : instrAt app a1.pc = .ok r.instr := hpc1 ▸ hi
  have hpc2 : r.pc = a2.pc := by rw [← hal.pcEq hi1]; exact hpc1
  have hi2 : instrAt app a2.pc = .ok r.instr := hpc2 ▸ hi
  cases hj : isJump r with
  | false =>
    obtain ⟨bu01, e1⟩ := euIssue_nonjump app s1 eu1 r hj
    obtain ⟨bu02, e2⟩ := euIssue_nonjump app s2 eu2 r hj
    rw [e1, e2]
    refine lift_sh h (euIssue_sh (s1 := { s1.base with bu := bu01 }) (s2 := { s2.base with bu := bu02 })
      (h.base.with_bu _ _) heu r ?_ ?_)
    · intro hhz
      have hhz1 : Model.Mvp4.isWriteDataHazard s1.base.ctx.PendingWriteRegisters r.instr.readRegisters = false := by
        rw [h.base.pwr]; exact hhz
      have hbb1 : Back ({ s1.base with bu := bu01 } : Model.Mvp4.State) a1 := hb1
      have hbb2 : Back ({ s2.base with bu := bu02 } : Model.Mvp4.State) a2 := hb2
      rw [(issue_sem hbb1 hpc1 hi hnf hhz1).1, (issue_sem hbb2 hpc2 hi hnf hhz).1]
      exact hal.loads hi1 hi2
    · intro hhz hnil
      have hhz1 : Model.Mvp4.isWriteDataHazard s1.base.ctx.PendingWriteRegisters r.instr.readRegisters = false := by
        rw [h.base.pwr]; exact hhz
      have hbb1 : Back ({ s1.base with bu := bu01 } : Model.Mvp4.State) a1 := hb1
      have hbb2 : Back ({ s2.base with bu := bu02 } : Model.Mvp4.State) a2 := hb2
      obtain ⟨m1, r1⟩ := issue_sem hbb1 hpc1 hi hnf hhz1
      obtain ⟨m2, r2⟩ := issue_sem hbb2 hpc2 hi hnf hhz
      have hn2 : r.instr.memoryRead a2.ctx 0#32 = [] := by rw [← m2]; exact hnil
      have hn1 : r.instr.memoryRead a1.ctx 0#32 = [] := by rw [hal.loads hi1 hi2]; exact hn2
      exact hal.resOk hpc1 hi (by rw [hn1]; rfl) (by rw [hn2]; rfl) (r1 []) (r2 []) bu01 bu02
  | true =>
    rw [euIssue_tail, euIssue_tail]
    obtain ⟨c1, _⟩ := assert_frame app s1 r
    obtain ⟨c2, _⟩ := assert_frame app s2 r
    have hbu : (assert s1 r).base.bu = (assert s2 r).base.bu := by
      rw [assert_bu_jump s1 r hj, assert_bu_jump s2 r hj, h.btb]
    have key : Model.Mvp4.isWriteDataHazard s2.base.ctx.PendingWriteRegisters r.instr.readRegisters = false →
        ResOk (assert s1 r).base.bu (assert s2 r).base.bu (r.instr.run (assert s1 r).base.ctx app.labels r.pc [] 0#32)
          (r.instr.run (assert s2 r).base.ctx app.labels r.pc [] 0#32) ∧
        (∀ e1 e2, r.instr.run (assert s1 r).base.ctx app.labels r.pc [] 0#32 = .ok e1 →
          r.instr.run (assert s2 r).base.ctx app.labels r.pc [] 0#32 = .ok e2 → e1.NextPc = e2.NextPc) := by
      intro hhz
      have hhz1 : Model.Mvp4.isWriteDataHazard s1.base.ctx.PendingWriteRegisters r.instr.readRegisters = false := by
        rw [h.base.pwr]; exact hhz
      obtain ⟨_, r1⟩ := issue_sem hb1 hpc1 hi hnf hhz1
      obtain ⟨_, r2⟩ := issue_sem hb2 hpc2 hi hnf hhz
      rw [hbu, c1, c2]
      exact resOk_jump hal hpc1 hi hj (r1 []) (r2 []) _
    exact euIssueTail_jump_sh (assert5_sh h r) heu r hj (fun hx => (key (by rw [c2] at hx; exact hx)).1)
      (fun hx => (key (by rw [c2] at hx; exact hx)).2)


theorem euStep5_sh {app : App} {s1 s2 : State} {a1 a2 : Arch} {eu1 eu2 : ExecUnit} {r : Runner}
    (h : Sh5 s1 s2) (heu : eEu eu1 = eEu eu2) (hb1 : Back s1.base a1) (hb2 : Back s2.base a2) (hal : ArchAl app a1 a2)
    (hrun : eu2.runner = some r) (hpc1 : r.pc = a1.pc) (hi : instrAt app r.pc = .ok r.instr) (hnf : NoFwd app) :
    ShE5 (Model.Mvp5.euStep app s1 eu1) (Model.Mvp5.euStep app s2 eu2) := by
  obtain ⟨g1, g2, g3, g4, g5, g6, g7⟩ := eEu_fields heu
  unfold Model.Mvp5.euStep
  simp only
  rw [g5]
  by_cases h0 : (eu2.remainingCycles - 1 != 0) = true
  · simp only [h0, if_true, pure, Except.pure]
    exact ⟨h.with_base (h.base.with_eu (by unfold eEu; simp only [g1, g2, g3, g4, g6, g7])), rfl⟩
  · simp only [h0, Bool.false_eq_true, if_false]
    rw [eBus_canAdd h.base.writeBus]
    by_cases hca : s2.base.writeBus.canAdd = true
    · simp only [hca, Bool.not_true, Bool.false_eq_true, if_false]
      rw [g6, hrun]
      simp only
      exact euIssue5_sh (eu1 := _) (eu2 := _) h (by unfold eEu; simp only [g1, g2, g3, g4, g7]) hb1 hb2 hal hpc1 hi hnf
    · simp only [hca, Bool.not_false, if_true, pure, Except.pure]
      exact ⟨h.with_base (h.base.with_eu (by unfold eEu; simp only [g1, g2, g3, g4, g6, g7])), rfl⟩

set_option maxHeartbeats 1000000 in
/-- **the execute unit of MVP-5 preserves shape equality** when the two architectural states give the same timing event -/
theorem executeCycle5_sh {app : App} {s1 s2 : State} {a1 a2 : Arch} (h : Sh5 s1 s2)
    (hb1 : Back s1.base a1) (hb2 : Back s2.base a2) (hn1 : NormalOk5 app s1 a1) (hn2 : NormalOk5 app s2 a2)
    (hal : ArchAl app a1 a2) (hnf : NoFwd app) :
    ShE5 (Model.Mvp5.executeCycle app s1) (Model.Mvp5.executeCycle app s2) := by
  obtain ⟨g1, g2, g3, g4, g5, g6, g7⟩ := eEu_fields h.base.eu
  unfold Model.Mvp5.executeCycle
  rw [g2]
  by_cases hp : s2.base.eu.pendingMemoryRead = true
  · have hp1 : s1.base.eu.pendingMemoryRead = true := by rw [g2]; exact hp
    simp only [hp, if_true]
    rw [g5]
    by_cases h0 : (s2.base.eu.remainingCycles - 1 != 0) = true
    · simp only [h0, if_true, pure, Except.pure]
      exact ⟨h.with_base (h.base.with_eu (by unfold eEu; simp only [g1, hp, hp1, g3, g4, g6, g7])), rfl⟩
    · simp only [h0, Bool.false_eq_true, if_false]
      obtain ⟨r1, hrun1, hnj1, hpo1⟩ := hn1.pend hp1
      obtain ⟨r2, hrun2, hnj2, hpo2⟩ := hn2.pend hp
      have hr12 : r1 = r2 := by rw [g6, hrun2] at hrun1; injection hrun1 with hrun1; exact hrun1.symm
      subst hr12
      have hproc1 : s1.base.eu.processing = true := by
        cases hx : s1.base.eu.processing with
        | true => rfl
        | false => have := hn1.idle hx; rw [hp1] at this; cases this
      obtain ⟨r', hr', _, hpc1, hi⟩ := hn1.busy hproc1
      have : r' = r1 := by rw [hrun1] at hr'; injection hr' with hr'; exact hr'.symm
      subst this
      rw [g6, hrun2]
      simp only
      rw [euMemDone_nonjump app s1 _ r' hnj1, euMemDone_nonjump app s2 _ r' hnj1]
      exact lift_sh h (euMemDone_sh (eu1 := _) (eu2 := _) h.base (by unfold eEu; simp only [g1, g3, g4, g7]) hb1 hb2 hal hpo1 hpo2
        rfl rfl rfl rfl hpc1 hi hnf)
  · have hp' : s2.base.eu.pendingMemoryRead = false := by simpa using hp
    have hp1' : s1.base.eu.pendingMemoryRead = false := by rw [g2]; exact hp'
    simp only [hp', Bool.false_eq_true, if_false]
    unfold Model.Mvp4.euTake
    simp only
    rw [g1]
    by_cases hproc : s2.base.eu.processing = true
    · have hproc1 : s1.base.eu.processing = true := by rw [g1]; exact hproc
      obtain ⟨r, hrun1, _, hpc1, hi⟩ := hn1.busy hproc1
      have hrun2 : s2.base.eu.runner = some r := by rw [← g6]; exact hrun1
      simp only [hproc, Bool.not_true, Bool.false_eq_true, if_false, pure, Except.pure, bind, Except.bind]
      exact euStep5_sh (s1 := s1) (s2 := s2) h h.base.eu hb1 hb2 hal hrun2 hpc1 hi hnf
    · have hproc' : s2.base.eu.processing = false := by simpa using hproc
      have hproc1' : s1.base.eu.processing = false := by rw [g1]; exact hproc'
      have hRi := runners_idle hproc1'
      simp only [hproc', Bool.not_false, if_true]
      rw [h.base.executeBus]
      cases hx : s2.base.executeBus.get.1 with
      | none =>
        have hg : s2.base.executeBus.get = (none, s2.base.executeBus.get.2) := by rw [← hx]
        rw [hg]
        simp only [pure, Except.pure, bind, Except.bind, Bool.not_false, if_true]
        exact ⟨h.with_base { fu := h.base.fu, decodeBus := h.base.decodeBus, executeBus := rfl, eu := h.base.eu,
                             writeBus := h.base.writeBus, wu := h.base.wu, mmu := h.base.mmu, cycles := h.base.cycles,
                             mode := h.base.mode, executed := h.base.executed, pwmi := h.base.pwmi, pwr := h.base.pwr,
                             memLen := h.base.memLen }, rfl⟩
      | some r =>
        have hg : s2.base.executeBus.get = (some r, s2.base.executeBus.get.2) := by rw [← hx]
        have hins := bus_inside_of_get_some _ r hx
        rw [hg]
        simp only
        cases hcy : Gen.InstructionType.Cycles r.instr.instructionType with
        | error f => simp only [bind, Except.bind]; rfl
        | ok c =>
          simp only [pure, Except.pure, bind, Except.bind, Bool.not_true, Bool.false_eq_true, if_false]
          have hcons := hn1.consec
          rw [hRi, h.base.executeBus, hins] at hcons
          simp only [List.map_cons, List.cons_append] at hcons
          have hi : instrAt app r.pc = .ok r.instr := hn1.instrs r (by rw [hRi, h.base.executeBus, hins]; simp)
          have heu' : eEu { s1.base.eu with runner := some r, remainingCycles := c, processing := true } =
              eEu { s2.base.eu with runner := some r, remainingCycles := c, processing := true } := by
            unfold eEu; simp only [g2, g3, g4, g7]
          exact euStep5_sh (s1 := { s1 with base := { s1.base with executeBus := s2.base.executeBus.get.2 } })
            (s2 := { s2 with base := { s2.base with executeBus := s2.base.executeBus.get.2 } })
            (h.with_base (h.base.with_executeBus _)) heu' hb1 hb2 hal rfl hcons.1 hi hnf


/-! ### one tick of one run, with the count of executed instructions -/

theorem executeCycle5_out_exec {app : App} {s s2 : State} {out : EuOut}
    (h : Model.Mvp5.executeCycle app s = .ok (s2, out)) (hne : out ≠ .none) : s2.base.executed = s.base.executed + 1 := by
  unfold Model.Mvp5.executeCycle at h
  split at h
  · simp only at h
    split at h
    · obtain ⟨_, rfl⟩ := ok_pair_inj' h; exact absurd rfl hne
    · split at h
      · cases h
      · exact euMemDone5_exec h
  · obtain ⟨⟨b1, eu1, go⟩, h1, h2⟩ := bind_ok_inv' h
    have hs1 : b1.executed = s.base.executed := euTake_executed h1
    simp only at h2
    split at h2
    · obtain ⟨_, rfl⟩ := ok_pair_inj' h2; exact absurd rfl hne
    · have := euStep5_out_exec h2 hne
      rw [← hs1]; exact this

/-- as `Proofs.Mvp4.TickX`, for MVP-5 -/
def TickX5 (app : App) (s : State) (a : Arch) (s' : State) : Prop :=
  (Rel5 app s' a ∧ s'.base.executed = s.base.executed) ∨
  (Rel5 app s' a ∧ (∃ c, stepArch dc app a = .halt .ret c) ∧ s'.base.executed = s.base.executed + 1) ∨
  (∃ a1 c, stepArch dc app a = .next a1 c ∧ Rel5 app s' a1 ∧ s'.base.executed = s.base.executed + 1)

set_option maxHeartbeats 1000000 in
theorem cycleM5_x {app : App} {s s' : State} {a : Arch} (hR : Rel5 app s a) (hnf : NoFwd app)
    (hok : Model.Mvp4.stepOk app a = true) (h : Model.Mvp5.cycleM app s = .ok (s', .running)) : TickX5 app s a s' := by
  cases hm : s.base.mode with
  | normal =>
    have hn0 : NormalOk5 app s a := by have := hR.front; rw [hm] at this; exact this
    unfold Model.Mvp5.cycleM at h
    simp only [hm] at h
    cases h1 : Model.Mvp5.fetchCycle app { s with base := { s.base with cycles := s.base.cycles + 1, mode := .normal } } with
    | error f => simp [h1, bind, Except.bind] at h
    | ok s1 =>
      obtain ⟨hb1, hn1, htc1, _, _, hm1, _⟩ := fetchCycle5_rel (a := a)
        (s := { s with base := { s.base with cycles := s.base.cycles + 1, mode := .normal } }) hR.back (hn0.with_cycles _ _) h1
      obtain ⟨_, _, fx1, _⟩ := fetchCycle5_cnt h1
      simp only [h1, bind, Except.bind] at h
      cases h2 : Model.Mvp5.decodeCycle app s1 with
      | error f => simp [h2] at h
      | ok s2 =>
        obtain ⟨hb2, hn2, _, _, hm2, _⟩ := decodeCycle5_rel hb1 hn1 htc1 h2
        obtain ⟨_, _, dx2, _⟩ := decodeCycle5_cnt h2
        simp only [h2] at h
        cases h3 : Model.Mvp5.executeCycle app s2 with
        | error f => simp [h3] at h
        | ok x =>
          obtain ⟨s3, out⟩ := x
          obtain ⟨_, hm3, _, _, _, hpost⟩ := executeCycle5_sim hb2 hn2 hnf hok h3
          have hmode3 : s3.base.mode = .normal := by rw [hm3, hm2, hm1]
          have hx2 : s2.base.executed = s.base.executed := by rw [dx2, fx1]
          simp only [h3] at h
          unfold Model.Mvp5.afterExecute at h
          simp only [bind, Except.bind] at h
          cases out with
          | err =>
            simp only [pure, Except.pure] at h
            injection h with h
            simp only [Prod.mk.injEq] at h
            cases h.2
          | none =>
            cases h4 : Model.Mvp5.writeCycle s3 with
            | error f => simp [h4] at h
            | ok s4 =>
              obtain ⟨b4, hw4, rfl⟩ := writeCycle5_inv h4
              obtain ⟨_, _, wx4, _⟩ := writeCycle_cnt hw4
              simp only [h4] at h
              by_cases hic : Model.Mvp5.isComplete { s3 with base := b4 } = true
              · simp only [hic, if_true] at h
                obtain ⟨b', hf, _⟩ := finish5_inv h
                obtain ⟨hev, _⟩ := finish_cnt hf
                cases hev
              · simp only [hic, Bool.false_eq_true, if_false, pure, Except.pure] at h
                injection h with h
                simp only [Prod.mk.injEq] at h
                obtain ⟨rfl, _⟩ := h
                rcases hpost with ⟨hb3, hn3, _, e4⟩ | ⟨a', c, hst, hb3, hn3, _, _, e4⟩
                · obtain ⟨_, _, _, hb4, hnimp⟩ := writeCycle5_rel (app := app) hb3 h4
                  obtain ⟨_, _, _, _, _, _, _, g_mode, _⟩ := writeCycle_back hb3 hw4
                  have hmode4 : b4.mode = .normal := by rw [g_mode]; exact hmode3
                  refine Or.inl ⟨⟨hb4, ?_⟩, by show b4.executed = _; rw [wx4, e4, hx2]⟩
                  show FrontRel5 app { s3 with base := b4 } a b4.mode
                  rw [hmode4]; exact hnimp hn3
                · obtain ⟨_, _, _, hb4, hnimp⟩ := writeCycle5_rel (app := app) hb3 h4
                  obtain ⟨_, _, _, _, _, _, _, g_mode, _⟩ := writeCycle_back hb3 hw4
                  have hmode4 : b4.mode = .normal := by rw [g_mode]; exact hmode3
                  refine Or.inr (Or.inr ⟨a', c, hst, ⟨hb4, ?_⟩, by show b4.executed = _; rw [wx4, e4, hx2]⟩)
                  show FrontRel5 app { s3 with base := b4 } a' b4.mode
                  rw [hmode4]; exact hnimp hn3
          | ret =>
            have hx3 : s3.base.executed = s2.base.executed + 1 := executeCycle5_out_exec h3 (by intro hx; cases hx)
            obtain ⟨hret, hb3, _⟩ := hpost
            cases h4 : Model.Mvp5.writeCycle s3 with
            | error f => simp [h4] at h
            | ok s4 =>
              obtain ⟨b4, hw4, rfl⟩ := writeCycle5_inv h4
              obtain ⟨_, _, wx4, _⟩ := writeCycle_cnt hw4
              obtain ⟨hb4, _⟩ := writeCycle_back hb3 hw4
              simp only [h4] at h
              by_cases hdc : Model.Mvp5.drainCond { s3 with base := b4 } = true
              · simp only [hdc, if_true, pure, Except.pure] at h
                injection h with h
                simp only [Prod.mk.injEq] at h
                obtain ⟨rfl, _⟩ := h
                exact Or.inr (Or.inl ⟨⟨hb4, hret⟩, hret, by show b4.executed = _; rw [wx4, hx3, hx2]⟩)
              · have hdc' : Model.Mvp5.drainCond { s3 with base := b4 } = false := by simpa using hdc
                simp only [hdc', Bool.false_eq_true, if_false] at h
                obtain ⟨b', hf, _⟩ := finish5_inv h
                obtain ⟨hev, _⟩ := finish_cnt hf
                cases hev
          | flush pc =>
            have hx3 : s3.base.executed = s2.base.executed + 1 := executeCycle5_out_exec h3 (by intro hx; cases hx)
            obtain ⟨a', c, hst, hpc, hb3, hpe, hmem⟩ := hpost
            cases h4 : Model.Mvp5.writeCycle s3 with
            | error f => simp [h4] at h
            | ok s4 =>
              obtain ⟨b4, hw4, rfl⟩ := writeCycle5_inv h4
              obtain ⟨_, _, wx4, _⟩ := writeCycle_cnt hw4
              obtain ⟨hb4, _, _, _, g_eu, _, _, g_mode, _⟩ := writeCycle_back hb3 hw4
              simp only [h4] at h
              by_cases hdc : Model.Mvp5.drainCond { s3 with base := b4 } = true
              · simp only [hdc, if_true, pure, Except.pure] at h
                injection h with h
                simp only [Prod.mk.injEq] at h
                obtain ⟨rfl, _⟩ := h
                refine Or.inr (Or.inr ⟨a', c, hst, ⟨hb4, ?_⟩, by show b4.executed = _; rw [wx4, hx3, hx2]⟩)
                show a'.pc = pc ∧ b4.eu.pendingMemoryRead = false ∧ b4.eu.memory = none
                rw [g_eu]; exact ⟨hpc, hpe, hmem⟩
              · have hdc' : Model.Mvp5.drainCond { s3 with base := b4 } = false := by simpa using hdc
                simp only [hdc', Bool.false_eq_true, if_false, pure, Except.pure] at h
                injection h with h
                simp only [Prod.mk.injEq] at h
                obtain ⟨rfl, _⟩ := h
                obtain ⟨hbf, hnf'⟩ := flushAll5_rel (app := app) (s := { s3 with base := b4 }) hb4
                  (drainCond_false (s := b4) hdc') hpc (by show b4.eu.pendingMemoryRead = false; rw [g_eu]; exact hpe)
                  (by show b4.eu.memory = none; rw [g_eu]; exact hmem)
                have hmodef : (Model.Mvp5.flushAll { s3 with base := b4 } pc).base.mode = .normal := by
                  show b4.mode = _; rw [g_mode]; exact hmode3
                exact Or.inr (Or.inr ⟨a', c, hst, ⟨hbf, by rw [hmodef]; exact hnf'⟩, by show b4.executed = _; rw [wx4, hx3, hx2]⟩)
  | drainRet =>
    have hret : ∃ c, stepArch dc app a = .halt .ret c := by have := hR.front; rw [hm] at this; exact this
    unfold Model.Mvp5.cycleM at h
    simp only [hm] at h
    cases h4 : Model.Mvp5.writeCycle s with
    | error f => simp [h4, bind, Except.bind] at h
    | ok s4 =>
      obtain ⟨b4, hw4, rfl⟩ := writeCycle5_inv h4
      obtain ⟨_, _, wx4, _⟩ := writeCycle_cnt hw4
      obtain ⟨hb4, _, _, _, _, _, _, g_mode, _⟩ := writeCycle_back hR.back hw4
      have hmode4 : b4.mode = .drainRet := by rw [g_mode]; exact hm
      simp only [h4, bind, Except.bind] at h
      by_cases hdc : Model.Mvp5.drainCond { s with base := b4 } = true
      · simp only [hdc, if_true, pure, Except.pure] at h
        injection h with h
        simp only [Prod.mk.injEq] at h
        obtain ⟨rfl, _⟩ := h
        refine Or.inl ⟨⟨hb4, ?_⟩, wx4⟩
        show FrontRel5 app { s with base := b4 } a b4.mode
        rw [hmode4]; exact hret
      · have hdc' : Model.Mvp5.drainCond { s with base := b4 } = false := by simpa using hdc
        simp only [hdc', Bool.false_eq_true, if_false] at h
        obtain ⟨b', hf, _⟩ := finish5_inv h
        obtain ⟨hev, _⟩ := finish_cnt hf
        cases hev
  | drainFlush pc =>
    have hfr : a.pc = pc ∧ s.base.eu.pendingMemoryRead = false ∧ s.base.eu.memory = none := by
      have := hR.front; rw [hm] at this; exact this
    obtain ⟨hpc, hpe, hmem⟩ := hfr
    unfold Model.Mvp5.cycleM at h
    simp only [hm] at h
    cases h4 : Model.Mvp5.writeCycle { s with base := { s.base with cycles := s.base.cycles + 1, mode := .drainFlush pc } } with
    | error f => simp [h4, bind, Except.bind] at h
    | ok s4 =>
      obtain ⟨b4, hw4, rfl⟩ := writeCycle5_inv h4
      obtain ⟨_, _, wx4, _⟩ := writeCycle_cnt hw4
      have wx4' : b4.executed = s.base.executed := wx4
      obtain ⟨hb4, _, _, _, g_eu, _, _, g_mode, _⟩ :=
        writeCycle_back (s := { s.base with cycles := s.base.cycles + 1, mode := .drainFlush pc }) (a := a) hR.back hw4
      have hmode4 : b4.mode = .drainFlush pc := g_mode
      have heu4 : b4.eu = s.base.eu := g_eu
      simp only [h4, bind, Except.bind] at h
      by_cases hdc : Model.Mvp5.drainCond { s with base := b4 } = true
      · simp only [hdc, if_true, pure, Except.pure] at h
        injection h with h
        simp only [Prod.mk.injEq] at h
        obtain ⟨rfl, _⟩ := h
        refine Or.inl ⟨⟨hb4, ?_⟩, wx4'⟩
        show FrontRel5 app _ a b4.mode
        rw [hmode4]
        show a.pc = pc ∧ b4.eu.pendingMemoryRead = false ∧ b4.eu.memory = none
        rw [heu4]; exact ⟨hpc, hpe, hmem⟩
      · have hdc' : Model.Mvp5.drainCond { s with base := b4 } = false := by simpa using hdc
        simp only [hdc', Bool.false_eq_true, if_false, pure, Except.pure] at h
        injection h with h
        simp only [Prod.mk.injEq] at h
        obtain ⟨rfl, _⟩ := h
        obtain ⟨hbf, hnf'⟩ := flushAll5_rel (app := app) (s := { s with base := b4 }) hb4 (drainCond_false (s := b4) hdc') hpc
          (by show b4.eu.pendingMemoryRead = false; rw [heu4]; exact hpe) (by show b4.eu.memory = none; rw [heu4]; exact hmem)
        refine Or.inl ⟨⟨hbf, ?_⟩, wx4'⟩
        show NormalOk5 app { Model.Mvp5.flushAll { s with base := b4 } pc with base := { (Model.Mvp5.flushAll { s with base := b4 } pc).base with mode := .normal } } a
        exact hnf'.transfer rfl rfl rfl hnf'.complete hnf'.euRunner hnf'.idle
          (fun hp => by
            obtain ⟨r, hr, hj, hpo⟩ := hnf'.pend hp
            exact ⟨r, hr, hj, hpo.transfer rfl rfl rfl rfl⟩) hnf'.nomem


/-! ### one tick, two runs side by side; whole runs -/

theorem Sh5.with_cycles {s1 s2 : State} (h : Sh5 s1 s2) (m : Mode) :
    Sh5 { s1 with base := { s1.base with cycles := s1.base.cycles + 1, mode := m } }
      { s2 with base := { s2.base with cycles := s2.base.cycles + 1, mode := m } } :=
  h.with_base (h.base.with_cycles m)

set_option maxHeartbeats 1000000 in
theorem cycleM5_sh {app : App} {s1 s2 : State} {a1 a2 : Arch} (h : Sh5 s1 s2) (hR1 : Rel5 app s1 a1) (hR2 : Rel5 app s2 a2)
    (hal : ArchAl app a1 a2) (hnf : NoFwd app) : ShP5 (Model.Mvp5.cycleM app s1) (Model.Mvp5.cycleM app s2) := by
  unfold Model.Mvp5.cycleM
  cases hm : s2.base.mode with
  | normal =>
    have hm1 : s1.base.mode = .normal := by rw [h.base.mode]; exact hm
    have hn01 : NormalOk5 app s1 a1 := by have := hR1.front; rw [hm1] at this; exact this
    have hn02 : NormalOk5 app s2 a2 := by have := hR2.front; rw [hm] at this; exact this
    simp only [hm1, hm]
    have hf := fetchCycle5_sh (app := app) (h.with_cycles .normal)
    revert hf
    cases h1 : Model.Mvp5.fetchCycle app { s1 with base := { s1.base with cycles := s1.base.cycles + 1, mode := .normal } } with
    | error f1 =>
      cases h2 : Model.Mvp5.fetchCycle app { s2 with base := { s2.base with cycles := s2.base.cycles + 1, mode := .normal } } with
      | error f2 => intro hf; exact hf
      | ok t2 => intro hf; exact hf.elim
    | ok t1 =>
      cases h2 : Model.Mvp5.fetchCycle app { s2 with base := { s2.base with cycles := s2.base.cycles + 1, mode := .normal } } with
      | error f2 => intro hf; exact hf.elim
      | ok t2 =>
        intro hf
        have hsh1 : Sh5 t1 t2 := hf
        obtain ⟨hb1, hn1, htc1, _⟩ := fetchCycle5_rel (a := a1)
          (s := { s1 with base := { s1.base with cycles := s1.base.cycles + 1, mode := .normal } }) hR1.back (hn01.with_cycles _ _) h1
        obtain ⟨hb2, hn2, htc2, _⟩ := fetchCycle5_rel (a := a2)
          (s := { s2 with base := { s2.base with cycles := s2.base.cycles + 1, mode := .normal } }) hR2.back (hn02.with_cycles _ _) h2
        simp only [bind, Except.bind]
        have hd := decodeCycle5_sh (app := app) hsh1
        revert hd
        cases h3 : Model.Mvp5.decodeCycle app t1 with
        | error f1 =>
          cases h4 : Model.Mvp5.decodeCycle app t2 with
          | error f2 => intro hd; exact hd
          | ok u2 => intro hd; exact hd.elim
        | ok u1 =>
          cases h4 : Model.Mvp5.decodeCycle app t2 with
          | error f2 => intro hd; exact hd.elim
          | ok u2 =>
            intro hd
            have hsh2 : Sh5 u1 u2 := hd
            obtain ⟨hb1', hn1', _⟩ := decodeCycle5_rel hb1 hn1 htc1 h3
            obtain ⟨hb2', hn2', _⟩ := decodeCycle5_rel hb2 hn2 htc2 h4
            simp only
            have he := executeCycle5_sh hsh2 hb1' hb2' hn1' hn2' hal hnf
            revert he
            cases h5 : Model.Mvp5.executeCycle app u1 with
            | error f1 =>
              cases h6 : Model.Mvp5.executeCycle app u2 with
              | error f2 => intro he; exact he
              | ok v2 => intro he; exact he.elim
            | ok v1 =>
              cases h6 : Model.Mvp5.executeCycle app u2 with
              | error f2 => intro he; exact he.elim
              | ok v2 =>
                obtain ⟨w1, o1⟩ := v1
                obtain ⟨w2, o2⟩ := v2
                intro he
                obtain ⟨hsh3, ho⟩ : Sh5 w1 w2 ∧ o1 = o2 := he
                subst ho
                simp only
                exact afterExecute5_sh hsh3 o1
  | drainRet =>
    have hm1 : s1.base.mode = .drainRet := by rw [h.base.mode]; exact hm
    simp only [hm1, hm]
    have hw := writeCycle5_sh h
    revert hw
    cases Model.Mvp5.writeCycle s1 with
    | error f =>
      cases Model.Mvp5.writeCycle s2 with
      | error f' => intro hw; exact hw
      | ok b => intro hw; exact hw.elim
    | ok a =>
      cases Model.Mvp5.writeCycle s2 with
      | error f' => intro hw; exact hw.elim
      | ok b =>
        intro hw
        have hw' : Sh5 a b := hw
        simp only [bind, Except.bind]
        have hdc : Model.Mvp5.drainCond a = Model.Mvp5.drainCond b := drainCond_sh hw'.base
        rw [hdc]
        split
        · exact ⟨hw', rfl⟩
        · exact finish5_sh hw' .ret
  | drainFlush pc =>
    have hm1 : s1.base.mode = .drainFlush pc := by rw [h.base.mode]; exact hm
    simp only [hm1, hm]
    have hw := writeCycle5_sh (h.with_cycles (.drainFlush pc))
    revert hw
    cases Model.Mvp5.writeCycle { s1 with base := { s1.base with cycles := s1.base.cycles + 1, mode := .drainFlush pc } } with
    | error f =>
      cases Model.Mvp5.writeCycle { s2 with base := { s2.base with cycles := s2.base.cycles + 1, mode := .drainFlush pc } } with
      | error f' => intro hw; exact hw
      | ok b => intro hw; exact hw.elim
    | ok a =>
      cases Model.Mvp5.writeCycle { s2 with base := { s2.base with cycles := s2.base.cycles + 1, mode := .drainFlush pc } } with
      | error f' => intro hw; exact hw.elim
      | ok b =>
        intro hw
        have hw' : Sh5 a b := hw
        simp only [bind, Except.bind]
        have hdc : Model.Mvp5.drainCond a = Model.Mvp5.drainCond b := drainCond_sh hw'.base
        rw [hdc]
        split
        · exact ⟨hw', rfl⟩
        · exact ⟨(flushAll5_sh hw' pc).with_mode _, rfl⟩

/-- **two aligned runs of MVP-5 stay shape-equal**: same outcome, same cycle count, for every tick budget -/
theorem runFrom5_vi {app : App} (hnf : NoFwd app) : ∀ (fuel : Nat) (s1 s2 : State) (n F : Nat) (a1 a2 : Arch),
    Sh5 s1 s2 → Rel5 app s1 a1 → Rel5 app s2 a2 → Aligned app F a1 a2 →
    (Model.Mvp5.runFrom app fuel s1 n).halt = (Model.Mvp5.runFrom app fuel s2 n).halt ∧
    (Model.Mvp5.runFrom app fuel s1 n).final.base.cycles = (Model.Mvp5.runFrom app fuel s2 n).final.base.cycles ∧
    (Model.Mvp5.runFrom app fuel s1 n).ticks = (Model.Mvp5.runFrom app fuel s2 n).ticks
  | 0, s1, s2, n, F, a1, a2, h, _, _, _ => by
    unfold Model.Mvp5.runFrom
    exact ⟨rfl, h.base.cycles, rfl⟩
  | fuel + 1, s1, s2, n, F, a1, a2, h, hR1, hR2, hA => by
    have hal := hA.archAl
    have hsh := cycleM5_sh h hR1 hR2 hal hnf
    unfold Model.Mvp5.runFrom Model.Mvp5.cycle
    revert hsh
    cases hc1 : Model.Mvp5.cycleM app s1 with
    | error f1 =>
      cases hc2 : Model.Mvp5.cycleM app s2 with
      | ok r2 => intro hsh; exact hsh.elim
      | error f2 =>
        intro hsh
        have : f1 = f2 := hsh
        subst this
        cases f1 <;> exact ⟨rfl, h.base.cycles, rfl⟩
    | ok r1 =>
      cases hc2 : Model.Mvp5.cycleM app s2 with
      | error f2 => intro hsh; exact hsh.elim
      | ok r2 =>
        obtain ⟨t1, e1⟩ := r1
        obtain ⟨t2, e2⟩ := r2
        intro hsh
        obtain ⟨hsh', hev⟩ : Sh5 t1 t2 ∧ e1 = e2 := hsh
        subst hev
        simp only
        cases e1 with
        | done hk => exact ⟨rfl, hsh'.base.cycles, rfl⟩
        | running =>
          simp only
          have x1 := cycleM5_x hR1 hnf hal.ok1 hc1
          have x2 := cycleM5_x hR2 hnf hal.ok2 hc2
          have hex := hsh'.base.executed
          have hex0 := h.base.executed
          have key : (Rel5 app t1 a1 ∧ Rel5 app t2 a2) ∨
              (∃ a1' a2' c1 c2, stepArch dc app a1 = .next a1' c1 ∧ stepArch dc app a2 = .next a2' c2 ∧
                Rel5 app t1 a1' ∧ Rel5 app t2 a2') := by
            rcases x1 with ⟨r1, q1⟩ | ⟨r1, ⟨d1, k1⟩, q1⟩ | ⟨b1, d1, k1, r1, q1⟩ <;>
              rcases x2 with ⟨r2, q2⟩ | ⟨r2, ⟨d2, k2⟩, q2⟩ | ⟨b2, d2, k2, r2, q2⟩
            · exact Or.inl ⟨r1, r2⟩
            · omega
            · omega
            · omega
            · exact Or.inl ⟨r1, r2⟩
            · exfalso
              cases F with
              | zero => exact hA.elim
              | succ F' =>
                rcases hA.2 with ⟨hh, e1, e2, g1, g2⟩ | ⟨y1, y2, e1, e2, g1, g2, _⟩
                · rw [g2] at k2; cases k2
                · rw [g1] at k1; cases k1
            · omega
            · exfalso
              cases F with
              | zero => exact hA.elim
              | succ F' =>
                rcases hA.2 with ⟨hh, e1, e2, g1, g2⟩ | ⟨y1, y2, e1, e2, g1, g2, _⟩
                · rw [g1] at k1; cases k1
                · rw [g2] at k2; cases k2
            · exact Or.inr ⟨b1, b2, d1, d2, k1, k2, r1, r2⟩
          rcases key with ⟨r1, r2⟩ | ⟨b1, b2, d1, d2, k1, k2, r1, r2⟩
          · exact runFrom5_vi hnf fuel t1 t2 (n + 1) F a1 a2 hsh' r1 r2 hA
          · cases F with
            | zero => exact hA.elim
            | succ F' =>
              rcases hA.2 with ⟨hh, e1, e2, g1, g2⟩ | ⟨y1, y2, e1, e2, g1, g2, hA'⟩
              · rw [g1] at k1; cases k1
              · rw [g1] at k1; rw [g2] at k2
                injection k1 with k1 _; injection k2 with k2 _
                subst k1; subst k2
                exact runFrom5_vi hnf fuel t1 t2 (n + 1) F' y1 y2 hsh' r1 r2 hA'

/-- **value independence of MVP-5** (same statement as `Proofs.Mvp4.mvp4_value_independent`) -/
theorem mvp5_value_independent (app : App) (hw : Proofs.Refine.WfApp app) (ctx1 ctx2 : Model.Context)
    (m1 m2 : Spec.Machine) (hR1 : Proofs.Refine.Rel ctx1 m1) (hR2 : Proofs.Refine.Rel ctx2 m2)
    (hsz1 : m1.mem.size + 64 ≤ 2 ^ 31) (hsz2 : m2.mem.size + 64 ≤ 2 ^ 31)
    (hpw1 : ctx1.PendingWriteRegisters = {}) (hpw2 : ctx2.PendingWriteRegisters = {})
    (hlen : ctx1.Memory.length = ctx2.Memory.length) (fuel : Nat)
    (hwf1 : ∀ why, (Spec.run (Proofs.Refine.specProg app) m1 fuel).stop ≠ .notWf why)
    (hwf2 : ∀ why, (Spec.run (Proofs.Refine.specProg app) m2 fuel).stop ≠ .notWf why)
    (htr : Model.Timing.traceSeq dc app fuel ⟨ctx1, 0#32⟩ = Model.Timing.traceSeq dc app fuel ⟨ctx2, 0#32⟩)
    (ticks : Nat) :
    (Model.Mvp5.run app ctx1 ticks).halt = (Model.Mvp5.run app ctx2 ticks).halt ∧
    (Model.Mvp5.run app ctx1 ticks).final.base.cycles = (Model.Mvp5.run app ctx2 ticks).final.base.cycles ∧
    (Model.Mvp5.run app ctx1 ticks).ticks = (Model.Mvp5.run app ctx2 ticks).ticks := by
  obtain ⟨u, hu, _⟩ := new_ok
  have hb1 : Model.Mvp4.init ctx1 = .ok { ctx := ctx1, mmu := u } := by
    unfold Model.Mvp4.init; simp only [hu, bind, Except.bind, pure, Except.pure]
  have hb2 : Model.Mvp4.init ctx2 = .ok { ctx := ctx2, mmu := u } := by
    unfold Model.Mvp4.init; simp only [hu, bind, Except.bind, pure, Except.pure]
  have hi1 : Model.Mvp5.init ctx1 = .ok { base := { ctx := ctx1, mmu := u } } := by
    unfold Model.Mvp5.init
    simp only [constsAgree_true, Bool.not_true, Bool.false_eq_true, if_false, hb1, bind, Except.bind, pure, Except.pure]
  have hi2 : Model.Mvp5.init ctx2 = .ok { base := { ctx := ctx2, mmu := u } } := by
    unfold Model.Mvp5.init
    simp only [constsAgree_true, Bool.not_true, Bool.false_eq_true, if_false, hb2, bind, Except.bind, pure, Except.pure]
  obtain ⟨s01, hinit1, hRel1, _⟩ := init5_rel app ctx1 ⟨hR1.rat, hR1.tx, get1_empty_pw ctx1 hpw1⟩
  obtain ⟨s02, hinit2, hRel2, _⟩ := init5_rel app ctx2 ⟨hR2.rat, hR2.tx, get1_empty_pw ctx2 hpw2⟩
  have e1 : s01 = { base := { ctx := ctx1, mmu := u } } := by rw [hi1] at hinit1; injection hinit1 with h; exact h.symm
  have e2 : s02 = { base := { ctx := ctx2, mmu := u } } := by rw [hi2] at hinit2; injection hinit2 with h; exact h.symm
  subst e1; subst e2
  have hsh : Sh5 ({ base := { ctx := ctx1, mmu := u } } : State) { base := { ctx := ctx2, mmu := u } } :=
    ⟨{ fu := rfl, decodeBus := rfl, executeBus := rfl, eu := rfl, writeBus := rfl, wu := rfl, mmu := rfl, cycles := rfl,
       mode := rfl, executed := rfl, pwmi := rfl,
       pwr := (by show ctx1.PendingWriteRegisters = ctx2.PendingWriteRegisters; rw [hpw1, hpw2]), memLen := hlen },
     rfl, rfl, rfl⟩
  unfold Spec.run at hwf1 hwf2
  have hsz' : ¬ (Proofs.Refine.specProg app).instrs.size ≥ 250 := by
    have := hw.small
    simp [Proofs.Refine.specProg]; omega
  simp only [hsz', if_false] at hwf1 hwf2
  have hg1 := good_of_spec app hw fuel ctx1 m1 0 0 #[] hR1 hsz1 (by simp) hwf1
  have hg2 := good_of_spec app hw fuel ctx2 m2 0 0 #[] hR2 hsz2 (by simp) hwf2
  have hA := aligned_of_traces hw.small fuel ⟨ctx1, 0#32⟩ ⟨ctx2, 0#32⟩ hg1 hg2 htr
  unfold Model.Mvp5.run
  rw [hi1, hi2]
  exact runFrom5_vi hw.nofwd ticks _ _ 0 fuel _ _ hsh hRel1 hRel2 hA

end Proofs.Mvp5

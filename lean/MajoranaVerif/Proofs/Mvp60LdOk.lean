/-
  Proofs/Mvp60LdOk.lean — package R60d: on a straight-line program with memory reads and `ret` no tick of the MVP-6.0 model
  ends with a Go panic (every number of execute and write units): from a state in the relation `RelO` every unit's cycle
  returns normally — the L3 lookups and fills of `Proofs/Mvp60LdL3.lean` are defined, the instructions of the class return
  on the bytes they are handed, the L1I stays well-formed.
-/
import MajoranaVerif.Proofs.Mvp60LdRun
open GoInt

set_option linter.unusedSimpArgs false
set_option linter.unusedVariables false

namespace Proofs.Mvp60Ld
open Model Model.Mvp60 Proofs.Mvp60Sl Proofs.Mmu
open Model.Seq (App Halt Arch stepArch)

/-- a unit that executes the runner it holds returns normally -/
theorem coRun_okO (app : App) (a0 : Arch) (hp : ProgLd app a0) (c : Word) (sC : State) (nt i : Nat) (eu0 eu : ExecUnit)
    (x : Runner) (h : RelOx app a0 c { sC with eus := sC.eus.set i eu0 } nt (some i)) (hi : i < sC.eus.length)
    (hheld : heldAt eu0 = some x)
    (hmem : ∀ j aj, ROk app c x j → seqL app j a0 = some aj → isMemType x.instr.instructionType = true →
      (x.instr.memoryRead aj.ctx 0#32).mapM (Model.Seq.readMem a0.ctx.Memory) = some eu.memory) :
    ∃ r, coRun app sC i eu x = .ok r := by
  have hsm := hp.small
  have hslot : ((sC.eus.set i eu0).map heldAt)[i]? = some (some x) := held_slot' hi hheld
  obtain ⟨j, hj, hok⟩ := h.back.hidx x (List.mem_of_getElem? hslot)
  obtain ⟨St, hst⟩ := h.back.st
  obtain ⟨aj, haj⟩ := seqIter_prefix app a0 nt St hst j (by omega)
  obtain ⟨aj1, haj1⟩ := seqIter_prefix app a0 nt St hst (j + 1) (by omega)
  have hnrj : NoRetBefore app j := h.reti.1.mono (by omega)
  obtain ⟨f1, f2, f3, f4, f5⟩ := seq_facts app a0 hp j aj haj (hnrj.mono (by omega))
  obtain ⟨i', bytes, e, hi', hby, he, _⟩ := seq_succ app a0 hp j aj aj1 haj f1 f2 hnrj haj1
  have hii : i' = x.instr := by rw [hok.1.2] at hi'; simp only [Option.some.injEq] at hi'; exact hi'.symm
  subst hii
  have hsame : Proofs.Mvp4.SameRegs sC.ctx aj.ctx x.instr.readRegisters :=
    ⟨h.back.ratS, f4, h.back.txS, f5, fun r hr hr0 => h.back.opsB x j aj (List.mem_of_getElem? hslot) hok haj r hr hr0⟩
  have hrun : x.instr.run sC.ctx app.labels x.pc eu.memory 0#32 = x.instr.run aj.ctx app.labels aj.pc bytes 0#32 := by
    rw [Proofs.Mvp4.run_congr x.instr (hp.nofwd _ (List.mem_of_getElem? hok.1.2)) hsame, f1, hok.1.1]
    cases hm : isMemType x.instr.instructionType with
    | true =>
      have := hmem j aj hok haj hm
      rw [f3] at hby
      rw [hby] at this
      simp only [Option.some.injEq] at this
      rw [this]
    | false => rw [run_nomem x.instr hm _ _ _ eu.memory, run_nomem x.instr hm _ _ _ bytes]
  rcases ldr_cases app hp.cls j x.instr hok.1.2 with hld | hisret
  · obtain ⟨hmc, hret, hpcc⟩ := ld_run x.instr hld aj.ctx app.labels aj.pc bytes 0#32 e he
    have hub : x.instr.instructionType.IsUnconditionalBranch = false := notJ_of_ld app hp.cls x.instr (List.mem_of_getElem? hok.1.2)
    unfold coRun
    simp only [setEu, hrun, he, hret, hmc, hpcc, hub, Bool.false_eq_true, if_false, bind, Except.bind, pure, Except.pure]
    exact ⟨_, rfl⟩
  · obtain ⟨_, _, _, _, _, hrunr⟩ := ret_facts x.instr hisret
    obtain ⟨e', he', hret', _, _⟩ := hrunr aj.ctx app.labels aj.pc bytes 0#32
    rw [he] at he'; simp only [Except.ok.injEq] at he'; subst he'
    unfold coRun
    simp only [setEu, hrun, he, hret', if_true, pure, Except.pure]
    exact ⟨_, rfl⟩

/-- a unit that prepares the runner it holds returns normally -/
theorem coPrepare_okO (app : App) (a0 : Arch) (hp : ProgLd app a0) (c : Word) (s : State) (nt i : Nat) (eu0 eu : ExecUnit)
    (x : Runner) (h : RelOx app a0 c { s with eus := s.eus.set i eu0 } nt (some i)) (hi : i < s.eus.length)
    (hheld : heldAt eu0 = some x) : ∃ r, coPrepareRun app s i eu x = .ok r := by
  have hsm := hp.small
  have hslot : ((s.eus.set i eu0).map heldAt)[i]? = some (some x) := held_slot' hi hheld
  obtain ⟨j, hj, hok⟩ := h.back.hidx x (List.mem_of_getElem? hslot)
  obtain ⟨St, hst⟩ := h.back.st
  obtain ⟨aj, haj⟩ := seqIter_prefix app a0 nt St hst j (by omega)
  have hnrj : NoRetBefore app j := h.reti.1.mono (by omega)
  obtain ⟨f1, f2, f3, f4, f5⟩ := seq_facts app a0 hp j aj haj (hnrj.mono (by omega))
  have hxm : x.instr ∈ app.instrs := List.mem_of_getElem? hok.1.2
  have hub := notJ_of_ld app hp.cls x.instr hxm
  have hcb := notCond_of_ld app hp.cls x.instr hxm
  have hsame : Proofs.Mvp4.SameRegs s.ctx aj.ctx x.instr.readRegisters :=
    ⟨h.back.ratS, f4, h.back.txS, f5, fun r hr hr0 => h.back.opsB x j aj (List.mem_of_getElem? hslot) hok haj r hr hr0⟩
  unfold coPrepareRun
  split
  · exact ⟨_, rfl⟩
  · simp only [buAssert, hub, hcb, Bool.false_eq_true, if_false]
    cases hm : isMemType x.instr.instructionType with
    | false =>
      simp only [memoryRead_nomem x.instr hm, List.isEmpty_nil, Bool.not_true, Bool.false_eq_true, if_false]
      exact coRun_okO app a0 hp c { s with bu := { s.bu with toCheck := false }, fu := s.fu } nt i eu0 eu x
        (h.bu { s.bu with toCheck := false } s.fu rfl) hi hheld (fun _ _ _ _ hc => by rw [hm] at hc; cases hc)
    | true =>
      have hld : ldInstr x.instr = true := by
        rcases ldr_cases app hp.cls j x.instr hok.1.2 with h1 | h1
        · exact h1
        · have := (ret_facts x.instr h1).2.2.1; rw [hm] at this; cases this
      have hne := load_addrs_ne x.instr hld hm s.ctx 0#32
      have haddr : x.instr.memoryRead s.ctx 0#32 = x.instr.memoryRead aj.ctx 0#32 :=
        Proofs.Mvp4.memoryRead_congr x.instr (hp.nofwd _ hxm) hsame 0#32
      simp only [hne, Bool.not_false, if_true, bind, Except.bind]
      have hlo := hp.loads j aj haj hnrj j x.instr f1 hok.1.2
      rw [f3] at hlo
      cases haddrs : x.instr.memoryRead aj.ctx 0#32 with
      | nil => rw [haddr, haddrs] at hne; cases hne
      | cons a1 as =>
        rw [haddrs] at hlo
        rw [haddr, haddrs]
        rcases l3_lookup h.l3 a1 as hlo with ⟨bytes, u', e1, e2, e3, e4⟩ | e1 | ⟨e1, e2⟩
        · simp only [e1]; exact ⟨_, rfl⟩
        · simp only [e1]; exact ⟨_, rfl⟩
        · simp only [e1]; exact ⟨_, rfl⟩

/-- **one cycle of an execute unit returns normally** -/
theorem euCycle_okO (app : App) (a0 : Arch) (hp : ProgLd app a0) (c : Word) (s : State) (nt i : Nat)
    (h : RelO app a0 c s nt) (hi : i < s.eus.length) : ∃ r, euCycle app s i = .ok r := by
  have hsm := hp.small
  obtain ⟨eu, hget⟩ := get_lt s.eus i hi
  have hself := state_set_self s i eu hget
  have hx : RelOx app a0 c { s with eus := s.eus.set i eu } nt (some i) := by rw [hself]; exact h.open_ i
  have hu := h.units i eu hget (by simp)
  unfold euCycle
  simp only [hget]
  cases hco : eu.co with
  | none =>
    simp only
    cases hq : s.executeBus.queue with
    | nil => simp only [get_none _ hq]; exact ⟨_, rfl⟩
    | cons x q =>
      simp only [get_some _ x q hq]
      obtain ⟨hT, _, _⟩ := take_relO app a0 hp c s nt i eu x q h hi hget hco hq
      exact coPrepare_okO app a0 hp c { s with executeBus := { s.executeBus with queue := q } } (nt + 1) i
        { eu with runner := some x, co := .prepare } { eu with runner := some x, co := .prepare } x hT hi rfl
  | prepare =>
    unfold EuOk at hu
    simp only [hco] at hu
    obtain ⟨x, hxr⟩ := hu
    simp only [hxr]
    exact coPrepare_okO app a0 hp c s nt i eu eu x hx hi (by simp only [heldAt, hco, hxr])
  | l3wait rem =>
    unfold EuOk at hu
    simp only [hco] at hu
    obtain ⟨x, j, aj, hxr, hok, haj, hby⟩ := hu
    have hheld : heldAt eu = some x := by simp only [heldAt, hco, hxr]
    simp only
    split
    · exact ⟨_, rfl⟩
    · simp only [hxr]
      exact coRun_okO app a0 hp c s nt i eu eu x hx hi hheld (fun j' aj' hok' haj' _ => by
        have := ROk.idx_eq hsm hok' hok
        subst this
        rw [haj] at haj'; simp only [Option.some.injEq] at haj'; subst haj'
        exact hby)
  | memwait rem addrs =>
    unfold EuOk at hu
    simp only [hco] at hu
    obtain ⟨x, j, aj, a1, as, hxr, hok, haj, haddr, hcons, p, hpm, hpb⟩ := hu
    have hheld : heldAt eu = some x := by simp only [heldAt, hco, hxr]
    simp only
    split
    · exact ⟨_, rfl⟩
    · subst hcons
      simp only [hxr, bind, Except.bind]
      have hjnt : j < nt := by
        obtain ⟨j', hj', hok'⟩ := h.back.hidx x (List.mem_of_getElem? (held_slot hget hheld))
        have := ROk.idx_eq hsm hok' hok
        omega
      have hnrj : NoRetBefore app j := h.reti.1.mono (by omega)
      obtain ⟨f1, f2, f3, f4, f5⟩ := seq_facts app a0 hp j aj haj (hnrj.mono (by omega))
      have hlo := hp.loads j aj haj hnrj j x.instr f1 hok.1.2
      rw [f3, ← haddr] at hlo
      obtain ⟨line, u1, mem1, bytes, u2, g1, g2, g3, g6, h1⟩ := fill_relO app a0 c s nt i eu x rem a1 as h hget hco hxr hlo ⟨p, hpm, hpb⟩
      simp only [g1, g2, g3]
      have heq : ({ co := EuCo.memwait rem (a1 :: as), memory := bytes, runner := some x } : ExecUnit) = { eu with memory := bytes } := by
        cases eu; simp only at hco hxr; subst hco; subst hxr; rfl
      rw [heq]
      exact coRun_okO app a0 hp c { s with mmu := u2, pendings := removePending (base 64 a1.toInt) s.pendings, ctx := { s.ctx with Memory := mem1 } } nt i eu { eu with memory := bytes } x h1 hi hheld
        (fun j' aj' hok' haj' _ => by
          have := ROk.idx_eq hsm hok' hok
          subst this
          rw [haj] at haj'; simp only [Option.some.injEq] at haj'; subst haj'
          rw [← haddr]; exact g6)

/-- the loop over the execute units returns normally, without an instruction error -/
theorem eusCycle_okO (app : App) (a0 : Arch) (hp : ProgLd app a0) (c : Word) : ∀ (n i : Nat) (s : State) (acc : EuAcc) (nt : Nat),
    i + n = s.eus.length → RelO app a0 c s nt →
    ∃ s' acc', eusCycle app n i s acc = .ok (s', acc') ∧ acc'.err = acc.err ∧ ∃ nt', RelO app a0 c s' nt' := by
  intro n
  induction n with
  | zero =>
    intro i s acc nt _ h
    exact ⟨s, acc, rfl, rfl, nt, h⟩
  | succ n ih =>
    intro i s acc nt hlen h
    obtain ⟨⟨s1, out⟩, hv⟩ := euCycle_okO app a0 hp c s nt i h (by omega)
    obtain ⟨nt1, _, h1, _, hpost⟩ := euCycle_simO app a0 hp c s s1 nt i out h (by omega) hv
    have hl := euCycle_len app s s1 i _ hv
    simp only [eusCycle, hv, bind, Except.bind]
    rcases hpost with ⟨rfl, _⟩ | ⟨rfl, _⟩
    · simp only
      exact ih (i + 1) s1 acc nt1 (by omega) h1
    · simp only
      obtain ⟨s', acc', e1, e2, e3⟩ := ih (i + 1) s1 { acc with ret := true } nt1 (by omega) h1
      exact ⟨s', acc', e1, e2, e3⟩

/-- the loop over the busy execute units returns normally, without an instruction error -/
theorem eusBusy_okO (app : App) (a0 : Arch) (hp : ProgLd app a0) (c : Word) : ∀ (n i : Nat) (s : State) (nt : Nat),
    i + n = s.eus.length → RelO app a0 c s nt →
    ∃ s', eusCycleBusy app n i s = .ok (s', false) := by
  intro n
  induction n with
  | zero => intro i s nt _ h; exact ⟨s, rfl⟩
  | succ n ih =>
    intro i s nt hlen h
    obtain ⟨eu, hget⟩ := get_lt s.eus i (by omega)
    simp only [eusCycleBusy, hget]
    split
    · exact ih (i + 1) s nt (by omega) h
    · obtain ⟨⟨s1, out⟩, hv⟩ := euCycle_okO app a0 hp c s nt i h (by omega)
      obtain ⟨nt1, _, h1, _, hpost⟩ := euCycle_simO app a0 hp c s s1 nt i out h (by omega) hv
      have hl := euCycle_len app s s1 i _ hv
      simp only [hv, bind, Except.bind]
      rcases hpost with ⟨rfl, _⟩ | ⟨rfl, _⟩
      · simp only; exact ih (i + 1) s1 nt1 (by omega) h1
      · simp only; exact ih (i + 1) s1 nt1 (by omega) h1

/-- no result on the write bus is a store -/
theorem relO_nomem {app : App} {a0 : Arch} {c : Word} {s : State} {nt : Nat} (hp : ProgLd app a0) (h : RelO app a0 c s nt) :
    ∀ ec ∈ s.writeBus.inside, ec.execution.MemoryChange = false := by
  intro ec hec
  obtain ⟨j', x, e, aj, bytes, _, hok, rfl, _, _, hrun⟩ := h.back.widx ec hec
  rcases ldr_cases app hp.cls j' x.instr hok.1.2 with hld | hisret
  · exact (ld_run x.instr hld aj.ctx app.labels aj.pc bytes 0#32 e hrun).1
  · obtain ⟨e', he', _, _, hm'⟩ := (ret_facts x.instr hisret).2.2.2.2.2 aj.ctx app.labels aj.pc bytes 0#32
    rw [hrun] at he'; simp only [Except.ok.injEq] at he'; subst he'; exact hm'

theorem finish_okO {app : App} {a0 : Arch} {c : Word} {s : State} {nt : Nat} (h : RelO app a0 c s nt) (hk : Halt) :
    ∃ s', finish s hk = .ok (s', .done hk) := by
  unfold finish
  rw [flush_ok (cfg := Model.Mvp60.cfg) (L := 64) (n := 16) cfgD (by decide) h.l3.wf h.l3.coh]
  exact ⟨_, rfl⟩

theorem goRetB_okO {app : App} {a0 : Arch} {c : Word} {s : State} {nt : Nat} (h : RelO app a0 c s nt) :
    ∃ s' ev, goRetB s = .ok (s', ev) ∧ ∀ w, ev ≠ .done (.panic w) := by
  unfold goRetB
  split
  · exact ⟨_, _, rfl, fun w hc => by cases hc⟩
  · obtain ⟨s', hs⟩ := finish_okO h .ret
    exact ⟨s', _, hs, fun w hc => by cases hc⟩

theorem goRetA_okO {app : App} {a0 : Arch} {c : Word} {s : State} {nt : Nat} (h : RelO app a0 c s nt) :
    ∃ s' ev, goRetA s = .ok (s', ev) ∧ ∀ w, ev ≠ .done (.panic w) := by
  unfold goRetA
  split
  · exact ⟨_, _, rfl, fun w hc => by cases hc⟩
  · exact goRetB_okO (RelOx.tickW h (s.cycles + 1) (s.cycles + 1))

/-- the decode unit returns normally -/
theorem decodeCycle_okO {app : App} {a0 : Arch} {c : Word} {s : State} {nt : Nat} (hsm : app.instrs.length < 250)
    (h : RelO app a0 c s nt) : ∃ s3, decodeCycle app s = .ok s3 := by
  unfold decodeCycle decodeCore
  split
  · exact ⟨_, rfl⟩
  · simp only [h.front.duOk, Bool.false_eq_true, if_false]
    obtain ⟨h0, p1, p2, p3, p4, p5, p6, p7⟩ := h.front.pcs
    obtain ⟨r, hr⟩ := decodeLoop_ok app hsm s.ctx s.cycles (s.decodeBus.pendingRead.toNat + 1) s.du s.decodeBus s.controlBus h0 p1
      (by omega)
    simp only [hr, bind, Except.bind, pure, Except.pure]
    exact ⟨_, rfl⟩

/-- **no tick ends with a Go panic**: from a state in the relation `cycleM` returns normally, and its event is no panic -/
theorem cycleM_okO (app : App) (a0 : Arch) (hp : ProgLd app a0) (c : Word) (s : State) (nt : Nat)
    (h : RelO app a0 c s nt) (hmo : ModeOk app s nt) :
    ∃ s' ev, cycleM app s = .ok (s', ev) ∧ ∀ w, ev ≠ .done (.panic w) := by
  rcases hmo with ⟨hmode, _⟩ | ⟨hmode, _⟩ | ⟨hmode, _⟩
  · rw [cycleM_normal_eq app s hmode]
    have r1 := connected_relO h
    obtain ⟨s2, h2, _⟩ := fetchCycle_ok app (connected s) r1.l3.iwf
    have r2 := fetch_relO hp.small r1 h2
    obtain ⟨s3, h3⟩ := decodeCycle_okO hp.small r2
    have r3 := decode_relO hp r2 h3
    have r4 := control_relO hp r3
    obtain ⟨s5, acc, hv, eerr, nt5, r5⟩ := eusCycle_okO app a0 hp c (controlCycle s3).eus.length 0 (controlCycle s3) {} nt (by omega) r4
    have eerr' : acc.err = false := eerr
    obtain ⟨s6, h6, _⟩ := wusCycle_ok s5 r5.wus (relO_nomem hp r5)
    obtain ⟨r6, _, _⟩ := wusCycle_simO app a0 hp c nt5 s5 s6 r5 h6
    simp only [h2, h3, hv, bind, Except.bind, afterEus, eerr', Bool.false_eq_true, if_false, h6]
    split
    · exact goRetA_okO r6
    · split
      · exact ⟨_, _, rfl, fun w hc => by
          have := goFlush_running acc.from_ acc.pc s6.wus.length 0 { s6 with writeBus := s6.writeBus.connect (s6.cycles + 1) }
          rw [this] at hc; cases hc⟩
      · split
        · obtain ⟨s', hs⟩ := finish_okO r6 .offEnd
          exact ⟨s', _, hs, fun w hc => by cases hc⟩
        · exact ⟨_, _, rfl, fun w hc => by cases hc⟩
  · rename_i hhas
    rw [cycleM_retA_eq app s hmode]
    obtain ⟨s1, hv⟩ := eusBusy_okO app a0 hp c s.eus.length 0 { s with cycles := s.cycles + 1, writeBus := s.writeBus.connect (s.cycles + 1) } nt
      (by simp only [Nat.zero_add]) (RelOx.tickW h (s.cycles + 1) (s.cycles + 1))
    obtain ⟨_, r1, _⟩ := eusBusy_simO app a0 hp c nt hhas s.eus.length 0 _ s1 false (by simp only [Nat.zero_add])
      (RelOx.tickW h (s.cycles + 1) (s.cycles + 1)) hv
    obtain ⟨s2, h2, _⟩ := wusCycle_ok s1 r1.wus (relO_nomem hp r1)
    obtain ⟨r2, _, _⟩ := wusCycle_simO app a0 hp c nt s1 s2 r1 h2
    obtain ⟨s', ev, h3, hne⟩ := goRetA_okO r2
    refine ⟨s', ev, ?_, hne⟩
    simp only [bind, Except.bind]
    split
    · rename_i e he
      exact absurd (he.symm.trans hv) (by simp)
    · rename_i v hv2
      have hv3 : v = (s1, false) := by have := hv2.symm.trans hv; simpa using this
      subst hv3
      simp only [Bool.false_eq_true, if_false, h2]
      exact h3
  · rw [cycleM_retB_eq app s hmode]
    obtain ⟨s1, h1, _⟩ := wusCycle_ok s h.wus (relO_nomem hp h)
    obtain ⟨r1, _, _⟩ := wusCycle_simO app a0 hp c nt s s1 h h1
    obtain ⟨s', ev, h3, hne⟩ := goRetB_okO (RelOx.tickW r1 (s1.cycles + 1) (s1.cycles + 1))
    refine ⟨s', ev, ?_, hne⟩
    simp only [h1, bind, Except.bind]
    exact h3

/-- **no run ends with a Go panic** -/
theorem runFrom_nopanicO (app : App) (a0 : Arch) (hp : ProgLd app a0) (c : Word) : ∀ (fuel : Nat) (s : State) (n nt : Nat),
    RelO app a0 c s nt → ModeOk app s nt → ∀ w, (runFrom app fuel s n).halt ≠ some (.panic w)
  | 0, s, n, nt, _, _ => by intro w hc; simp [runFrom] at hc
  | fuel + 1, s, n, nt, hr, hmo => by
    intro w
    obtain ⟨s', ev, hc, hne⟩ := cycleM_okO app a0 hp c s nt hr hmo
    have hpost := cycleM_simO app a0 hp c s s' nt ev hr hmo hc
    have hcy : cycle app s = (s', ev) := by unfold cycle; rw [hc]
    unfold runFrom
    rw [hcy]
    cases ev with
    | running =>
      obtain ⟨nt', hr', hmo'⟩ := hpost
      exact runFrom_nopanicO app a0 hp c fuel s' (n + 1) nt' hr' hmo' w
    | done hk =>
      simp only
      intro hcc
      simp only [Option.some.injEq] at hcc
      exact hne w (by rw [hcc])

/-- **MVP-6.0 on straight-line programs with memory reads and `ret`: no run ends with a Go panic**, every number of execute
and write units, every tick budget -/
theorem mvp60_ld_never_panics (app : App) (ctx : Model.Context) (hp : ProgLd app ⟨ctx, 0#32⟩) (K fuel : Nat)
    (hpw : ∀ r, GoMap.get1 ctx.PendingWriteRegisters r = 0) (hpr : ∀ r, GoMap.get1 ctx.PendingReadRegisters r = 0) :
    ∀ w, (run app ctx K K fuel).halt ≠ some (.panic w) := by
  obtain ⟨s0, hinit, hR, hM⟩ := init_relO app ctx hp K hpw hpr
  have hrun : run app ctx K K fuel = runFrom app fuel s0 0 := by unfold run; rw [hinit]
  rw [hrun]
  exact runFrom_nopanicO app ⟨ctx, 0#32⟩ hp _ fuel s0 0 0 hR hM

end Proofs.Mvp60Ld

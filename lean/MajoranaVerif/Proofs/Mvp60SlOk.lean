/-
  Proofs/Mvp60SlOk.lean — package R60c: the units of the MVP-6.0 model never panic on the states the refinement proof
  goes through (instruction cache lines well-formed, instructions of the class, idle units, no store on the write bus).
-/
import MajoranaVerif.Proofs.Mvp60SlBack
import MajoranaVerif.Proofs.Mvp3
open GoInt

set_option linter.unusedSimpArgs false
set_option linter.unusedVariables false

namespace Proofs.Mvp60Sl
open Model Model.Mvp60 Model.Mmu LineCache
open Model.Seq (App Halt Arch stepArch)

/-- the caches as the proofs need them: no line in L1D (register-only programs), L1I lines well-formed -/
def MmuOk (u : Model.Mmu.Mmu) : Prop := u.l1d.lines = [] ∧ Proofs.Mvp3.IWf 64 u.l1i

theorem getL1I_ok (u : Model.Mmu.Mmu) (hi : Proofs.Mvp3.IWf 64 u.l1i) (pc : Word) :
    ∃ r u', getFromL1I u [pc] = .ok (r, u') ∧ Proofs.Mvp3.IWf 64 u'.l1i ∧ u'.l1d = u.l1d := by
  unfold getFromL1I getAll
  cases hs : splitAt pc.toInt u.l1i.lines with
  | none =>
    have hm : LineCache.get u.l1i pc.toInt = .ok (none, u.l1i) := by
      unfold LineCache.get; simp only [hs]; rfl
    simp only [hm, bind, Except.bind, pure, Except.pure]
    exact ⟨_, _, rfl, hi, rfl⟩
  | some r =>
    obtain ⟨pre, l, post⟩ := r
    obtain ⟨hsplit, hcov, _⟩ := Proofs.LC.splitAt_some hs
    have hlm : l ∈ u.l1i.lines := by rw [hsplit]; simp
    obtain ⟨hhi, hlo, hlen⟩ := hi.lines l hlm
    have hc := (Proofs.LC.covers_iff l pc.toInt).mp hcov
    have hle := Proofs.Mmu.wrap32_le (l.lo + (64 : Nat)) (by omega)
    have hlt : (pc.toInt - l.lo).toNat < l.data.length := by omega
    have hm : LineCache.get u.l1i pc.toInt = .ok (some l.data[(pc.toInt - l.lo).toNat], { u.l1i with lines := l :: (pre ++ post) }) := by
      unfold LineCache.get Line.at
      simp only [hs, List.getElem?_eq_getElem hlt]; rfl
    simp only [hm, bind, Except.bind, pure, Except.pure]
    refine ⟨_, _, rfl, ?_, rfl⟩
    exact { lineLength := hi.lineLength,
            lines := fun y hy => hi.lines y (by
              rw [hsplit]
              rcases List.mem_cons.mp hy with rfl | hy
              · simp
              · exact Proofs.LC.mem_middle hy) }

theorem pushL1I_iwf (u : Model.Mmu.Mmu) (hi : Proofs.Mvp3.IWf 64 u.l1i) (pc : Word) :
    Proofs.Mvp3.IWf 64 (pushLineToL1I u pc (List.replicate 64 0#8)).l1i := by
  simp only [pushLineToL1I]
  refine { lineLength := by rw [Proofs.Mvp3.fixHead_lineLength, Proofs.Mvp3.pushLine_lineLength]; exact hi.lineLength, lines := ?_ }
  intro l hl
  rcases Proofs.Mvp3.pushLine_fix_lines _ _ _ l hl with h | h
  · exact hi.lines l h
  · rw [h]
    refine ⟨?_, ?_, ?_⟩
    · show wrap32 (pc.toInt + (u.l1i.lineLength : Int)) = wrap32 (pc.toInt + (64 : Nat))
      rw [hi.lineLength]
    · show -(2 ^ 31) ≤ pc.toInt
      have := BitVec.le_toInt pc
      simpa using this
    · show (List.replicate 64 0#8).length = 64
      simp

theorem coFetchLoop_ok (app : App) (c : Int) : ∀ (n : Nat) (fu : FetchUnit) (mmu : Model.Mmu.Mmu) (bus : BufferedBus Word),
    Proofs.Mvp3.IWf 64 mmu.l1i →
    ∃ fu' mmu' bus', coFetchLoop app c n fu mmu bus = .ok (fu', mmu', bus') ∧ Proofs.Mvp3.IWf 64 mmu'.l1i := by
  intro n
  induction n with
  | zero => intro fu mmu bus hi; exact ⟨fu, mmu, bus, rfl, hi⟩
  | succ n ih =>
    intro fu mmu bus hi
    simp only [coFetchLoop]
    split
    · exact ⟨fu, mmu, bus, rfl, hi⟩
    · obtain ⟨r, u', hg, hi', _⟩ := getL1I_ok mmu hi fu.pc
      simp only [hg, bind, Except.bind]
      cases r with
      | none => exact ⟨_, _, _, rfl, hi'⟩
      | some v => exact ih _ u' _ hi'

theorem fetchCore_ok0 (app : App) (c : Int) (fu : FetchUnit) (mmu : Model.Mmu.Mmu) (bus : BufferedBus Word)
    (hi : Proofs.Mvp3.IWf 64 mmu.l1i) (hcl : fu.toCleanPending = false) :
    ∃ fu' mmu' bus', fetchCore app c fu mmu bus = .ok (fu', mmu', bus') ∧ Proofs.Mvp3.IWf 64 mmu'.l1i := by
  obtain ⟨fpc, ftc, fcm, fco, frc⟩ := fu
  simp only at hcl
  subst hcl
  unfold fetchCore
  simp only [Bool.false_eq_true, if_false]
  cases fco with
  | done => exact ⟨_, _, _, rfl, hi⟩
  | wait =>
    simp only
    split
    · exact ⟨_, _, _, rfl, hi⟩
    · have hneg : ¬ cfg.l1ILineSize < 0 := by decide
      simp only [hneg, if_false]
      exact ⟨_, _, _, rfl, pushL1I_iwf mmu hi fpc⟩
  | none =>
    simp only
    split
    · exact ⟨_, _, _, rfl, hi⟩
    · exact coFetchLoop_ok app c _ _ mmu bus hi

theorem fetchCore_ok (app : App) (c : Int) (fu : FetchUnit) (mmu : Model.Mmu.Mmu) (bus : BufferedBus Word)
    (hi : Proofs.Mvp3.IWf 64 mmu.l1i) :
    ∃ fu' mmu' bus', fetchCore app c fu mmu bus = .ok (fu', mmu', bus') ∧ Proofs.Mvp3.IWf 64 mmu'.l1i := by
  cases hc : fu.toCleanPending with
  | false => exact fetchCore_ok0 app c fu mmu bus hi hc
  | true =>
    rw [fetchCore_clean app c fu mmu bus hc]
    exact fetchCore_ok0 app c { fu with toCleanPending := false } mmu bus.clean hi rfl

theorem fetchCycle_ok (app : App) (s : State) (hi : Proofs.Mvp3.IWf 64 s.mmu.l1i) :
    ∃ s2, fetchCycle app s = .ok s2 ∧ Proofs.Mvp3.IWf 64 s2.mmu.l1i := by
  obtain ⟨fu', mmu', bus', h, hi'⟩ := fetchCore_ok app s.cycles s.fu s.mmu s.decodeBus hi
  unfold fetchCycle
  simp only [h, bind, Except.bind, pure, Except.pure]
  exact ⟨_, rfl, hi'⟩

/-- an instruction of the class never panics -/
theorem g_run_nopanic (app : App) (i : Gen.Instr) (h : jInstr app i = true) (c : Model.Context) (pc : Word) (seq : Word)
    (w : String) : i.run c app.labels pc [] seq ≠ .error (.panic w) := by
  have hg := h
  unfold jInstr at h
  cases i <;> unfold_instr at h ⊢ <;>
    first
      | (simp [isMemType] at h; done)
      | (rename_i op
         obtain ⟨k, hk, hget⟩ := get_label app _ op.label hg rfl
         simp only [hget, Bool.not_true, Bool.false_eq_true, if_false, pure, Except.pure, Proofs.Mvp4.isRegisterChange_eq]
         first | (intro hc; cases hc; done) | (split <;> (intro hc; cases hc)))
      | (simp only [Proofs.Mvp4.isRegisterChange_eq, pure, Except.pure, Proofs.Mvp4.ite_ok, Proofs.Mvp4.ite_pair, ite_self, bind, Except.bind, throw, throwThe, MonadExceptOf.throw]
         first
           | (intro hc; cases hc; done)
           | (split <;> (intro hc; cases hc); done)
           | (split
              · intro hc; cases hc
              · rename_i hne
                simp only [GoInt.sdiv, GoInt.srem, pure, Except.pure, bind, Except.bind]
                intro hc
                split at hc
                · rename_i heq
                  split at heq
                  · rename_i h2; exact hne h2
                  · cases heq
                · cases hc))

/-- the decode unit never panics on a decode bus that holds consecutive pcs -/
theorem decodeLoop_ok (app : App) (hsm : app.instrs.length < 250) (ctx : Model.Context) (c : Int) :
    ∀ (n : Nat) (du : DecodeUnit) (inBus : BufferedBus Word) (outBus : BufferedBus Runner) (h0 : Nat),
    PcChain h0 inBus.inside → h0 + inBus.inside.length ≤ app.instrs.length + 2 →
    ∃ r, decodeLoop app ctx c n du inBus outBus = .ok r := by
  intro n
  induction n with
  | zero => intro du inBus outBus h0 _ _; exact ⟨_, rfl⟩
  | succ n ih =>
    intro du inBus outBus h0 hch hle
    simp only [decodeLoop]
    cases hq : inBus.queue with
    | nil => simp only [get_none _ hq]; exact ⟨_, rfl⟩
    | cons p q =>
      simp only [get_some _ p q hq]
      have hin : inBus.inside = p :: (q ++ inBus.buffer.map (·.2)) := by simp only [BufferedBus.inside, hq, List.cons_append]
      rw [hin] at hch hle
      obtain ⟨hp, hch'⟩ := hch
      simp only [List.length_cons] at hle
      have hh : h0 < 2 ^ 20 := by omega
      have hidx : Int.tdiv p.toInt 4 = h0 := by rw [hp]; exact pcOf_idx h0 hh
      simp only [hidx, ge_iff_le, Int.ofNat_le]
      by_cases hge : app.instrs.length ≤ h0
      · simp only [hge, if_true]; exact ⟨_, rfl⟩
      · simp only [hge, if_false, bind, Except.bind]
        obtain ⟨i, hi⟩ := get_lt app.instrs h0 (by omega)
        rw [hp, instrAt_pcOf app h0 hh i hi]
        simp only
        split
        · exact ⟨_, rfl⟩
        · split
          · exact ⟨_, rfl⟩
          · exact ih _ { inBus with queue := q } _ (h0 + 1) hch' (by
              show h0 + 1 + (q ++ inBus.buffer.map (·.2)).length ≤ app.instrs.length + 2
              omega)

/-- an idle execute unit never panics on a runner of the class -/
theorem euCycle_ok (app : App) (hall : ∀ i ∈ app.instrs, jInstr app i = true) (s : State) (i : Nat) (hi : i < s.eus.length)
    (hidle : ∀ eu ∈ s.eus, eu.co = .none ∧ eu.memory = []) (hx : ∀ x ∈ s.executeBus.queue, x.instr ∈ app.instrs) :
    ∃ r, euCycle app s i = .ok r := by
  obtain ⟨eu, hget⟩ := get_lt s.eus i hi
  obtain ⟨hco, hmem⟩ := hidle eu (List.mem_of_getElem? hget)
  unfold euCycle
  simp only [hget, hco]
  cases hq : s.executeBus.queue with
  | nil => simp only [get_none _ hq]; exact ⟨_, rfl⟩
  | cons x q =>
    simp only [get_some _ x q hq]
    have hgx := hall x.instr (hx x (by rw [hq]; exact List.mem_cons_self))
    unfold coPrepareRun
    split
    · exact ⟨_, rfl⟩
    · cases hb : buAssert s.bu s.fu x with
      | mk bu1 fu1 =>
        simp only [hb, g_memoryRead app x.instr hgx, List.isEmpty_nil, Bool.not_true, Bool.false_eq_true, if_false]
        unfold coRun
        simp only [hmem, setEu]
        cases hr : x.instr.run s.ctx app.labels x.pc [] 0#32 with
        | error f =>
          cases f with
          | panic w => exact absurd hr (g_run_nopanic app x.instr hgx s.ctx x.pc 0#32 w)
          | err msg => simp only [hr]; exact ⟨_, rfl⟩
        | ok e =>
          obtain ⟨hmc, _, _⟩ := g_run app x.instr hgx s.ctx x.pc [] 0#32 e hr
          simp only [hr, hmc, Bool.false_eq_true, if_false, bind, Except.bind, pure, Except.pure]
          split
          · exact ⟨_, rfl⟩
          · split <;> exact ⟨_, rfl⟩

/-- an idle write unit never panics on a result without a store; it only takes from the write bus -/
theorem wuCycle_ok (s : State) (j : Nat) (before : Word) (hj : j < s.wus.length) (hidle : ∀ wu ∈ s.wus, wu.co = .none)
    (hnm : ∀ ec ∈ s.writeBus.inside, ec.execution.MemoryChange = false) :
    ∃ s', wuCycle s j before = .ok s' ∧ s'.wus = s.wus ∧ s'.mmu = s.mmu ∧
      (∀ ec ∈ s'.writeBus.inside, ec ∈ s.writeBus.inside) ∧
      s'.writeBus.buffer = s.writeBus.buffer ∧ s'.writeBus.queue = s.writeBus.queue.tail := by
  obtain ⟨wu, hget⟩ := get_lt s.wus j hj
  have hco := hidle wu (List.mem_of_getElem? hget)
  unfold wuCycle
  simp only [hget, hco]
  cases hq : s.writeBus.queue with
  | nil => simp only [get_none _ hq]; exact ⟨_, rfl, rfl, rfl, (fun _ h => h), rfl, by rw [hq]; rfl⟩
  | cons ec q =>
    simp only [get_some _ ec q hq]
    have hin : s.writeBus.inside = ec :: ({ s.writeBus with queue := q } : BufferedBus ExecCtx).inside := by
      simp only [BufferedBus.inside, hq, List.cons_append]
    have hsub : ∀ e ∈ ({ s.writeBus with queue := q } : BufferedBus ExecCtx).inside, e ∈ s.writeBus.inside := by
      intro e he; rw [hin]; exact List.mem_cons_of_mem _ he
    have hmc := hnm ec (by rw [hin]; exact List.mem_cons_self)
    split
    · exact ⟨_, rfl, rfl, rfl, hsub, rfl, rfl⟩
    · split
      · exact ⟨_, rfl, rfl, rfl, hsub, rfl, rfl⟩
      · simp only [hmc, Bool.false_eq_true, if_false]
        exact ⟨_, rfl, rfl, rfl, hsub, rfl, rfl⟩

theorem wus_ok (before : Word) : ∀ (n i : Nat) (s : State), i + n = s.wus.length → (∀ wu ∈ s.wus, wu.co = .none) →
    (∀ ec ∈ s.writeBus.inside, ec.execution.MemoryChange = false) →
    ∃ s', (List.range' i n).foldlM (fun s j => wuCycle s j before) s = .ok s' ∧ s'.mmu = s.mmu := by
  intro n
  induction n with
  | zero => intro i s _ _ _; exact ⟨s, rfl, rfl⟩
  | succ n ih =>
    intro i s hlen hidle hnm
    obtain ⟨s1, h1, e1, e2, e3, _⟩ := wuCycle_ok s i before (by omega) hidle hnm
    obtain ⟨s2, h2, e4⟩ := ih (i + 1) s1 (by rw [e1]; omega) (by rw [e1]; exact hidle) (fun ec hec => hnm ec (e3 ec hec))
    refine ⟨s2, ?_, e4.trans e2⟩
    simp only [List.range'_succ, List.foldlM, bind, Except.bind, h1]
    exact h2

theorem wusCycle_ok (s : State) (hidle : ∀ wu ∈ s.wus, wu.co = .none)
    (hnm : ∀ ec ∈ s.writeBus.inside, ec.execution.MemoryChange = false) : ∃ s', wusCycle s = .ok s' ∧ s'.mmu = s.mmu := by
  unfold wusCycle
  rw [List.range_eq_range']
  exact wus_ok _ s.wus.length 0 s (by omega) hidle hnm

end Proofs.Mvp60Sl

/-
  Proofs/LineCache.lean — lemmas behind Props/C13.lean (line cache part).
  Core Lean only.  The model and the reference live in Model/LineCache.lean.
-/
import MajoranaVerif.Model.LineCache

namespace Proofs.LC
open _root_.LineCache _root_.LineCache.Ref GoInt

/-! ### intervals -/

def disjoint (l1 l2 : Line) : Prop := l1.hi ≤ l2.lo ∨ l2.hi ≤ l1.lo

theorem covers_iff (l : Line) (a : Int) : l.covers a = true ↔ l.lo ≤ a ∧ a < l.hi := by
  simp [Line.covers]

theorem covers_false_iff (l : Line) (a : Int) : l.covers a = false ↔ ¬ (l.lo ≤ a ∧ a < l.hi) := by
  rw [← covers_iff]; simp

/-! ### `splitAt` -/

theorem splitAt_some {a : Int} : ∀ {ls pre x post}, splitAt a ls = some (pre, x, post) →
    ls = pre ++ x :: post ∧ x.covers a = true ∧ ∀ y ∈ pre, y.covers a = false := by
  intro ls
  induction ls with
  | nil => intro pre x post h; simp [splitAt] at h
  | cons l ls ih =>
    intro pre x post h
    unfold splitAt at h
    by_cases hc : l.covers a = true
    · simp only [hc, if_true, Option.some.injEq, Prod.mk.injEq] at h
      obtain ⟨rfl, rfl, rfl⟩ := h
      exact ⟨rfl, hc, by simp⟩
    · simp only [hc] at h
      cases hs : splitAt a ls with
      | none => simp [hs] at h
      | some r =>
        obtain ⟨pre', x', post'⟩ := r
        simp only [hs, Bool.false_eq_true, if_false, Option.some.injEq, Prod.mk.injEq] at h
        obtain ⟨rfl, rfl, rfl⟩ := h
        obtain ⟨h1, h2, h3⟩ := ih hs
        refine ⟨by rw [h1]; rfl, h2, ?_⟩
        intro y hy
        rcases List.mem_cons.mp hy with rfl | hy
        · simpa using hc
        · exact h3 y hy

theorem splitAt_none {a : Int} : ∀ {ls}, splitAt a ls = none → ∀ y ∈ ls, y.covers a = false := by
  intro ls
  induction ls with
  | nil => intro _ y hy; cases hy
  | cons l ls ih =>
    intro h y hy
    unfold splitAt at h
    by_cases hc : l.covers a = true
    · simp [hc] at h
    · simp only [hc, Bool.false_eq_true, if_false] at h
      cases hs : splitAt a ls with
      | some r => simp [hs] at h
      | none =>
        rcases List.mem_cons.mp hy with rfl | hy
        · simpa using hc
        · exact ih hs y hy

theorem splitAt_isSome {a : Int} {ls : List Line} (h : ∃ y ∈ ls, y.covers a = true) :
    ∃ pre x post, splitAt a ls = some (pre, x, post) := by
  cases hs : splitAt a ls with
  | some r => exact ⟨r.1, r.2.1, r.2.2, rfl⟩
  | none =>
    obtain ⟨y, hy, hc⟩ := h
    have := splitAt_none hs y hy
    rw [this] at hc; cases hc

/-! ### `setFrom` -/

theorem setFrom_spec : ∀ (vs d : List (BitVec 8)) (off : Nat), off + vs.length ≤ d.length →
    (setFrom d off vs).2 = true ∧ (setFrom d off vs).1.length = d.length ∧
    ∀ i, (setFrom d off vs).1[i]? = if off ≤ i ∧ i < off + vs.length then vs[i - off]? else d[i]? := by
  intro vs
  induction vs with
  | nil => intro d off _; simp [setFrom]; intro i h1 h2; omega
  | cons v vs ih =>
    intro d off h
    simp only [List.length_cons] at h
    have hlt : off < d.length := by omega
    simp only [setFrom, hlt, if_true]
    have hlen : (d.set off v).length = d.length := List.length_set
    obtain ⟨h1, h2, h3⟩ := ih (d.set off v) (off + 1) (by rw [hlen]; omega)
    refine ⟨h1, by rw [h2, hlen], ?_⟩
    intro i
    rw [h3 i]
    simp only [List.length_cons]
    by_cases hi : i = off
    · subst hi
      have : ¬ (i + 1 ≤ i ∧ i < i + 1 + vs.length) := by omega
      simp only [this, if_false, List.getElem?_set, hlt, if_true]
      have : i ≤ i ∧ i < i + (vs.length + 1) := by omega
      simp [this]
    · by_cases hr : off + 1 ≤ i ∧ i < off + 1 + vs.length
      · have hr' : off ≤ i ∧ i < off + (vs.length + 1) := by omega
        simp only [hr, hr', and_self, if_true]
        have : i - off = (i - (off + 1)) + 1 := by omega
        rw [this, List.getElem?_cons_succ]
      · have hr' : ¬ (off ≤ i ∧ i < off + (vs.length + 1)) := by omega
        simp only [hr, hr', if_false, List.getElem?_set]
        have : ¬ off = i := fun h => hi h.symm
        simp [this]

/-! ### the reference: `stamp`, `value` -/

theorem stamp_le (L : Nat) (lo : Int) : ∀ h : List Op, stamp L lo h ≤ h.length := by
  intro h
  induction h with
  | nil => simp [stamp]
  | cons op h ih =>
    simp only [stamp, List.length_cons]
    split <;> omega

theorem stamp_cons_touch {L : Nat} {lo : Int} {op : Op} (h : List Op) (ht : touches L lo op = true) :
    stamp L lo (op :: h) = h.length + 1 := by simp [stamp, ht]

theorem stamp_cons_other {L : Nat} {lo : Int} {op : Op} (h : List Op) (ht : touches L lo op = false) :
    stamp L lo (op :: h) = stamp L lo h := by simp [stamp, ht]

/-! ### the representation invariant on the list of lines, relative to a recency
function `st` and a byte valuation `val` -/

structure Good (L : Nat) (st : Int → Nat) (val : Int → Option (BitVec 8)) (ls : List Line) : Prop where
  wf : ∀ l ∈ ls, l.hi = l.lo + L ∧ l.data.length = L
  disj : ls.Pairwise disjoint
  pos : ∀ l ∈ ls, 0 < st l.lo
  sorted : ls.Pairwise (fun l1 l2 => st l2.lo < st l1.lo)
  vals : ∀ l ∈ ls, ∀ i : Nat, i < L → l.data[i]? = val (l.lo + i)

variable {L : Nat} {st st' : Int → Nat} {val val' : Int → Option (BitVec 8)} {ls ls' : List Line}

theorem Good.nil : Good L st val [] :=
  ⟨by simp, List.Pairwise.nil, by simp, List.Pairwise.nil, by simp⟩

theorem Good.sublist (hs : ls'.Sublist ls) (g : Good L st val ls) : Good L st val ls' :=
  ⟨fun l hl => g.wf l (hs.subset hl), g.disj.sublist hs, fun l hl => g.pos l (hs.subset hl),
   g.sorted.sublist hs, fun l hl => g.vals l (hs.subset hl)⟩

theorem Good.congr (g : Good L st val ls) (hst : ∀ l ∈ ls, st' l.lo = st l.lo)
    (hval : ∀ l ∈ ls, ∀ i : Nat, i < L → val' (l.lo + i) = val (l.lo + i)) : Good L st' val' ls :=
  ⟨g.wf, g.disj, fun l hl => by rw [hst l hl]; exact g.pos l hl,
   g.sorted.imp_of_mem (fun {a b} ha hb h => by rw [hst a ha, hst b hb]; exact h),
   fun l hl i hi => by rw [hval l hl i hi]; exact g.vals l hl i hi⟩

theorem Good.cons (g : Good L st val ls) (x : Line) (hx : x.hi = x.lo + L ∧ x.data.length = L)
    (hd : ∀ l ∈ ls, disjoint x l) (hp0 : 0 < st x.lo) (hp : ∀ l ∈ ls, st l.lo < st x.lo)
    (hv : ∀ i : Nat, i < L → x.data[i]? = val (x.lo + i)) : Good L st val (x :: ls) :=
  ⟨fun l hl => by rcases List.mem_cons.mp hl with rfl | hl; exact hx; exact g.wf l hl,
   List.pairwise_cons.mpr ⟨hd, g.disj⟩,
   fun l hl => by rcases List.mem_cons.mp hl with rfl | hl; exact hp0; exact g.pos l hl,
   List.pairwise_cons.mpr ⟨hp, g.sorted⟩,
   fun l hl => by rcases List.mem_cons.mp hl with rfl | hl; exact hv; exact g.vals l hl⟩

/-- a relation that only looks at the bounds survives the replacement of a line by one with the same bounds -/
theorem pairwise_bounds {R : Int × Int → Int × Int → Prop} {l1 l2 : List Line}
    (hm : l1.map (fun l => (l.lo, l.hi)) = l2.map (fun l => (l.lo, l.hi)))
    (h : l1.Pairwise (fun a b => R (a.lo, a.hi) (b.lo, b.hi))) :
    l2.Pairwise (fun a b => R (a.lo, a.hi) (b.lo, b.hi)) := by
  have h1 := (List.pairwise_map (f := fun l : Line => (l.lo, l.hi)) (R := R)).mpr h
  rw [hm] at h1
  exact List.pairwise_map.mp h1

theorem Good.replace {pre post : List Line} {x x' : Line} (g : Good L st val (pre ++ x :: post))
    (hlo : x'.lo = x.lo) (hhi : x'.hi = x.hi) (hlen : x'.data.length = L)
    (hv : ∀ i : Nat, i < L → x'.data[i]? = val' (x.lo + i))
    (hval : ∀ l ∈ pre ++ post, ∀ i : Nat, i < L → val' (l.lo + i) = val (l.lo + i)) :
    Good L st val' (pre ++ x' :: post) := by
  have hm : (pre ++ x :: post).map (fun l => (l.lo, l.hi)) = (pre ++ x' :: post).map (fun l => (l.lo, l.hi)) := by
    simp [hlo, hhi]
  have hmem : ∀ l ∈ pre ++ x' :: post, l = x' ∨ l ∈ pre ++ post := by
    intro l hl
    simp only [List.mem_append, List.mem_cons] at hl ⊢
    rcases hl with h | h | h
    · exact Or.inr (Or.inl h)
    · exact Or.inl h
    · exact Or.inr (Or.inr h)
  have hsub : ∀ l ∈ pre ++ post, l ∈ pre ++ x :: post := by
    intro l hl
    simp only [List.mem_append, List.mem_cons] at hl ⊢
    rcases hl with h | h
    · exact Or.inl h
    · exact Or.inr (Or.inr h)
  have hxm : x ∈ pre ++ x :: post := by simp
  refine ⟨?_, ?_, ?_, ?_, ?_⟩
  · intro l hl
    rcases hmem l hl with rfl | h
    · rw [hlo, hhi]; exact ⟨(g.wf x hxm).1, hlen⟩
    · exact g.wf l (hsub l h)
  · exact pairwise_bounds (R := fun p q => p.2 ≤ q.1 ∨ q.2 ≤ p.1) hm g.disj
  · intro l hl
    rcases hmem l hl with rfl | h
    · rw [hlo]; exact g.pos x hxm
    · exact g.pos l (hsub l h)
  · exact pairwise_bounds (R := fun p q => st q.1 < st p.1) hm g.sorted
  · intro l hl i hi
    rcases hmem l hl with rfl | h
    · rw [hlo]; exact hv i hi
    · rw [hval l h i hi]; exact g.vals l (hsub l h) i hi

theorem disjoint_symm {x y : Line} (h : disjoint x y) : disjoint y x := Or.symm h

theorem others_disjoint {pre post : List Line} {x : Line} (h : (pre ++ x :: post).Pairwise disjoint) :
    ∀ y ∈ pre ++ post, disjoint x y := by
  intro y hy
  rw [List.pairwise_append] at h
  obtain ⟨_, h2, h3⟩ := h
  rcases List.mem_append.mp hy with hy | hy
  · exact disjoint_symm (h3 y hy x (List.mem_cons_self ..))
  · exact (List.pairwise_cons.mp h2).1 y hy

theorem not_covers_of_disjoint {x y : Line} {a : Int} (hd : disjoint x y) (hx : x.covers a = true) :
    y.covers a = false := by
  rw [covers_iff] at hx; rw [covers_false_iff]; unfold disjoint at hd; omega

theorem sublist_middle (pre post : List Line) (x : Line) : (pre ++ post).Sublist (pre ++ x :: post) :=
  List.Sublist.append (List.Sublist.refl pre) (List.sublist_cons_self x post)

theorem mem_middle {pre post : List Line} {x y : Line} (hy : y ∈ pre ++ post) : y ∈ pre ++ x :: post :=
  (sublist_middle pre post x).subset hy

/-- a covered byte of a well-formed line can be read -/
theorem at_ok {l : Line} {a : Int} (hwf : l.hi = l.lo + L ∧ l.data.length = L) (hc : l.covers a = true) :
    ∃ v, l.at a = .ok v ∧ l.data[(a - l.lo).toNat]? = some v := by
  rw [covers_iff] at hc
  have hlt : (a - l.lo).toNat < l.data.length := by omega
  refine ⟨l.data[(a - l.lo).toNat], ?_, List.getElem?_eq_getElem hlt⟩
  simp [Line.at, List.getElem?_eq_getElem hlt]; rfl

/-! ### the invariant of reachable states, relative to the history -/

structure Inv (L n : Nat) (h : List Op) (c : Cache) : Prop where
  hL : c.lineLength = L
  hn : c.numberOfLines = n
  good : Good L (fun lo => stamp L lo h) (fun x => value L x h) c.lines
  len : c.lines.length ≤ n + 1
  res : (resident L n h).Perm (c.lines.map (·.lo))

variable {n : Nat} {h : List Op} {c : Cache}

theorem inv_empty (L n : Nat) : Inv L n [] (Cache.empty L n) :=
  ⟨rfl, rfl, Good.nil, by simp [Cache.empty], by simp [resident, Cache.empty]⟩

theorem touches_get_iff (l : Line) (a : Int) (hwf : l.hi = l.lo + L) :
    touches L l.lo (.get a) = l.covers a := by
  simp [touches, Line.covers, hwf]

/-- the value a `Get` hit returns -/
theorem get_hit (hi : Inv L n h c) {a : Int} {pre post : List Line} {x : Line}
    (hs : splitAt a c.lines = some (pre, x, post)) :
    ∃ v, get c a = .ok (some v, { c with lines := x :: (pre ++ post) }) ∧ value L a h = some v := by
  obtain ⟨hl, hc, _⟩ := splitAt_some hs
  have hx : x ∈ c.lines := by rw [hl]; simp
  obtain ⟨v, hv1, hv2⟩ := at_ok (hi.good.wf x hx) hc
  refine ⟨v, by simp [LineCache.get, hs, hv1]; rfl, ?_⟩
  rw [covers_iff] at hc
  have := hi.good.vals x hx (a - x.lo).toNat (by have := hi.good.wf x hx; omega)
  rw [hv2] at this
  have e : x.lo + ((a - x.lo).toNat : Int) = a := by omega
  rw [e] at this
  exact this.symm

theorem get_miss {a : Int} (hs : splitAt a c.lines = none) : get c a = .ok (none, c) := by
  simp [LineCache.get, hs]; rfl

theorem inv_get (hi : Inv L n h c) (a : Int) : Inv L n (.get a :: h) (step c (.get a)).1 := by
  cases hs : splitAt a c.lines with
  | none =>
    have hnc := splitAt_none hs
    simp only [step, get_miss hs]
    refine ⟨hi.hL, hi.hn, ?_, hi.len, by simpa [resident] using hi.res⟩
    refine hi.good.congr ?_ ?_
    · intro l hl
      exact stamp_cons_other h (by rw [touches_get_iff l a (hi.good.wf l hl).1]; exact hnc l hl)
    · intro l hl i _; simp [value]
  | some r =>
    obtain ⟨pre, x, post⟩ := r
    obtain ⟨v, hg, _⟩ := get_hit hi hs
    obtain ⟨hl, hc, _⟩ := splitAt_some hs
    simp only [step, hg]
    have hx : x ∈ c.lines := by rw [hl]; simp
    have hgood := hi.good
    rw [hl] at hgood
    have hdis := others_disjoint hgood.disj
    have hstx : stamp L x.lo (.get a :: h) = h.length + 1 :=
      stamp_cons_touch h (by rw [touches_get_iff x a (hi.good.wf x hx).1]; exact hc)
    have hsty : ∀ y ∈ pre ++ post, stamp L y.lo (.get a :: h) = stamp L y.lo h := by
      intro y hy
      apply stamp_cons_other
      rw [touches_get_iff y a (hgood.wf y (mem_middle hy)).1]
      exact not_covers_of_disjoint (hdis y hy) hc
    refine ⟨hi.hL, hi.hn, ?_, ?_, ?_⟩
    · have g1 : Good L (fun lo => stamp L lo (.get a :: h)) (fun x => value L x (.get a :: h)) (pre ++ post) :=
        (hgood.sublist (sublist_middle pre post x)).congr hsty (by intro l _ i _; simp [value])
      refine g1.cons x (hi.good.wf x hx) hdis (by show 0 < stamp L x.lo _; omega) ?_ ?_
      · intro y hy
        show stamp L y.lo _ < stamp L x.lo _
        rw [hstx, hsty y hy]
        have := stamp_le L y.lo h; omega
      · intro i hi'
        have := hi.good.vals x hx i hi'
        simpa [value] using this
    · have := hi.len; rw [hl] at this; simp at this ⊢; omega
    · have := hi.res
      rw [hl] at this
      simp only [resident]
      exact this.trans ((List.perm_middle).map _)

/-! ### EvictCacheLine -/

theorem evict_hit (hi : Inv L n h c) {a : Int} {pre post : List Line} {x : Line}
    (hs : splitAt a c.lines = some (pre, x, post)) :
    evictCacheLine c a = .ok (some x.data, { c with lines := pre ++ post }) := by
  obtain ⟨hl, hc, _⟩ := splitAt_some hs
  have hx : x ∈ c.lines := by rw [hl]; simp
  obtain ⟨v, hv1, _⟩ := at_ok (hi.good.wf x hx) hc
  simp [evictCacheLine, hs, hv1]; rfl

theorem evict_miss {a : Int} (hs : splitAt a c.lines = none) : evictCacheLine c a = .ok (none, c) := by
  simp [evictCacheLine, hs]; rfl

theorem inv_evict (hi : Inv L n h c) (a : Int) : Inv L n (.evict a :: h) (step c (.evict a)).1 := by
  have hst : ∀ lo, stamp L lo (.evict a :: h) = stamp L lo h := fun lo => by simp [stamp, touches]
  have hval : ∀ x, value L x (.evict a :: h) = value L x h := fun x => by simp [value]
  cases hs : splitAt a c.lines with
  | none =>
    have hnc := splitAt_none hs
    simp only [step, evict_miss hs]
    refine ⟨hi.hL, hi.hn, hi.good.congr (fun l _ => hst l.lo) (fun l _ i _ => hval _), hi.len, ?_⟩
    simp only [resident]
    have hf : (c.lines.map (·.lo)).filter (fun b => !(decide (b ≤ a) && decide (a < b + L))) = c.lines.map (·.lo) := by
      rw [List.filter_eq_self]
      intro b hb
      obtain ⟨l, hl, rfl⟩ := List.mem_map.mp hb
      have := hnc l hl
      rw [covers_false_iff, (hi.good.wf l hl).1] at this
      simp; omega
    have := hi.res.filter (fun b => !(decide (b ≤ a) && decide (a < b + L)))
    rw [hf] at this
    exact this
  | some r =>
    obtain ⟨pre, x, post⟩ := r
    obtain ⟨hl, hc, _⟩ := splitAt_some hs
    simp only [step, evict_hit hi hs]
    have hgood := hi.good
    rw [hl] at hgood
    have hdis := others_disjoint hgood.disj
    refine ⟨hi.hL, hi.hn, ?_, ?_, ?_⟩
    · exact (hgood.sublist (sublist_middle pre post x)).congr (fun l _ => hst l.lo) (fun l _ i _ => hval _)
    · have := hi.len; rw [hl] at this; simp at this ⊢; omega
    · simp only [resident]
      have hp := hi.res.filter (fun b => !(decide (b ≤ a) && decide (a < b + L)))
      rw [hl] at hp
      have hxw := (hgood.wf x (by simp)).1
      have hf : ((pre ++ x :: post).map (·.lo)).filter (fun b => !(decide (b ≤ a) && decide (a < b + L))) = (pre ++ post).map (·.lo) := by
        have keep : ∀ ys : List Line, (∀ y ∈ ys, y ∈ pre ++ post) →
            (ys.map (·.lo)).filter (fun b => !(decide (b ≤ a) && decide (a < b + L))) = ys.map (·.lo) := by
          intro ys hys
          rw [List.filter_eq_self]
          intro b hb
          obtain ⟨l, hl', rfl⟩ := List.mem_map.mp hb
          have := not_covers_of_disjoint (hdis l (hys l hl')) hc
          rw [covers_false_iff, (hgood.wf l (mem_middle (hys l hl'))).1] at this
          simp; omega
        rw [List.map_append, List.filter_append, List.map_cons, List.filter_cons]
        rw [keep pre (fun y hy => List.mem_append_left _ hy), keep post (fun y hy => List.mem_append_right _ hy)]
        rw [covers_iff, hxw] at hc
        have : (!(decide (x.lo ≤ a) && decide (a < x.lo + L))) = false := by simp; omega
        simp [this]
      rw [hf] at hp
      exact hp

/-! ### read-only calls -/

theorem inv_peek (hi : Inv L n h c) (q : Query) : Inv L n (.peek q :: h) (step c (.peek q)).1 := by
  have hst : ∀ lo, stamp L lo (.peek q :: h) = stamp L lo h := fun lo => by simp [stamp, touches]
  have hval : ∀ x, value L x (.peek q :: h) = value L x h := fun x => by simp [value]
  exact ⟨hi.hL, hi.hn, hi.good.congr (fun l _ => hst l.lo) (fun l _ i _ => hval _), hi.len,
    by simpa [resident, step] using hi.res⟩

/-! ### Write -/

theorem write_hit (hi : Inv L n h c) {a : Int} {d : List (BitVec 8)} {pre post : List Line} {x : Line}
    (hs : splitAt a c.lines = some (pre, x, post)) (hfit : a + d.length ≤ x.hi) :
    writeRaw c a d = ({ c with lines := pre ++ { x with data := (setFrom x.data (a - x.lo).toNat d).1 } :: post }, none) := by
  obtain ⟨hl, hc, _⟩ := splitAt_some hs
  have hx : x ∈ c.lines := by rw [hl]; simp
  obtain ⟨v, _, hv2⟩ := at_ok (hi.good.wf x hx) hc
  have hwf := hi.good.wf x hx
  rw [covers_iff] at hc
  have hsf := (setFrom_spec d x.data (a - x.lo).toNat (by omega)).1
  simp [writeRaw, hs, hv2, hsf]

theorem inv_write (hi : Inv L n h c) (a : Int) (d : List (BitVec 8)) (hok : okOp c (.write a d) = true) :
    Inv L n (.write a d :: h) (step c (.write a d)).1 := by
  have hst : ∀ lo, stamp L lo (.write a d :: h) = stamp L lo h := fun lo => by simp [stamp, touches]
  cases hs : splitAt a c.lines with
  | none => simp [okOp, hs] at hok
  | some r =>
    obtain ⟨pre, x, post⟩ := r
    simp only [okOp, hs, decide_eq_true_eq] at hok
    obtain ⟨hl, hc, _⟩ := splitAt_some hs
    have hx : x ∈ c.lines := by rw [hl]; simp
    have hwf := hi.good.wf x hx
    have hw := write_hit hi hs hok
    have hstate : (step c (.write a d)).1 = { c with lines := pre ++ { x with data := (setFrom x.data (a - x.lo).toNat d).1 } :: post } := by
      simp only [step, writeState, hw]
    rw [hstate]
    have hgood := hi.good
    rw [hl] at hgood
    have hdis := others_disjoint hgood.disj
    rw [covers_iff] at hc
    obtain ⟨_, hlen, hget⟩ := setFrom_spec d x.data (a - x.lo).toNat (by omega)
    refine ⟨hi.hL, hi.hn, ?_, ?_, ?_⟩
    · refine (hgood.replace (val' := fun y => value L y (.write a d :: h)) (x' := { x with data := (setFrom x.data (a - x.lo).toNat d).1 }) rfl rfl
        (by show (setFrom x.data (a - x.lo).toNat d).1.length = L; rw [hlen]; exact hwf.2) ?_ ?_).congr
        (fun l _ => hst l.lo) (fun _ _ _ _ => rfl)
      · intro i hi'
        show (setFrom x.data (a - x.lo).toNat d).1[i]? = value L (x.lo + i) (.write a d :: h)
        rw [hget i]
        simp only [value]
        by_cases hin : a ≤ x.lo + i ∧ x.lo + i < a + d.length
        · have h1 : (a - x.lo).toNat ≤ i ∧ i < (a - x.lo).toNat + d.length := by omega
          have h2 : (x.lo + (i : Int) - a).toNat = i - (a - x.lo).toNat := by omega
          simp only [hin, h1, and_self, if_true, h2]
        · have h1 : ¬ ((a - x.lo).toNat ≤ i ∧ i < (a - x.lo).toNat + d.length) := by omega
          simp only [hin, h1, if_false]
          exact hgood.vals x (by simp) i hi'
      · intro l hl' i hi'
        have hd := hdis l hl'
        have hlw := (hgood.wf l (mem_middle hl')).1
        unfold disjoint at hd
        have hin : ¬ (a ≤ l.lo + i ∧ l.lo + i < a + d.length) := by omega
        simp only [value, hin, if_false]
    · have := hi.len; rw [hl] at this; simpa using this
    · have := hi.res
      rw [hl] at this
      simpa [resident] using this

/-! ### PushLine / PushLineWithEvictionWarning -/

theorem okOp_push {lo : Int} {d : List (BitVec 8)} (hok : okOp c (.push lo d) = true) :
    d.length = c.lineLength ∧ c.lines.length ≤ c.numberOfLines ∧
    ∀ l ∈ c.lines, lo + c.lineLength ≤ l.lo ∨ l.hi ≤ lo := by
  simpa [okOp, and_assoc] using hok

theorem okOp_pushWarn {lo : Int} {d : List (BitVec 8)} (hok : okOp c (.pushWarn lo d) = true) :
    d.length = c.lineLength ∧ c.lines.length ≤ c.numberOfLines ∧
    ∀ l ∈ c.lines, lo + c.lineLength ≤ l.lo ∨ l.hi ≤ lo := by
  simpa [okOp, and_assoc] using hok

/-- the list with the new line in front is good for the extended history (both kinds of push) -/
theorem good_new (hi : Inv L n h c) (hL : 0 < L) {lo : Int} {d : List (BitVec 8)} (op : Op)
    (hop : op = .push lo d ∨ op = .pushWarn lo d) (hlen : d.length = L)
    (hdisj : ∀ l ∈ c.lines, lo + L ≤ l.lo ∨ l.hi ≤ lo) :
    Good L (fun b => stamp L b (op :: h)) (fun x => value L x (op :: h)) (newLine c lo d :: c.lines) := by
  have hne : ∀ l ∈ c.lines, (lo == l.lo) = false := by
    intro l hl
    have := hdisj l hl
    have := (hi.good.wf l hl).1
    simp; omega
  have hst : ∀ l ∈ c.lines, stamp L l.lo (op :: h) = stamp L l.lo h := by
    intro l hl
    apply stamp_cons_other
    rcases hop with rfl | rfl <;> simpa [touches] using hne l hl
  have hstn : stamp L lo (op :: h) = h.length + 1 := by
    apply stamp_cons_touch
    rcases hop with rfl | rfl <;> simp [touches]
  have hvaln : ∀ i : Nat, i < L → value L (lo + i) (op :: h) = d[i]? := by
    intro i hi'
    have h1 : lo ≤ lo + (i : Int) ∧ lo + (i : Int) < lo + L := by omega
    have h2 : (lo + (i : Int) - lo).toNat = i := by omega
    rcases hop with rfl | rfl <;> simp only [value, h1, and_self, if_true, h2]
  have hval : ∀ l ∈ c.lines, ∀ i : Nat, i < L → value L (l.lo + i) (op :: h) = value L (l.lo + i) h := by
    intro l hl i hi'
    have := hdisj l hl
    have := (hi.good.wf l hl).1
    have h1 : ¬ (lo ≤ l.lo + (i : Int) ∧ l.lo + (i : Int) < lo + L) := by omega
    rcases hop with rfl | rfl <;> simp only [value, h1, if_false]
  refine (hi.good.congr hst hval).cons (newLine c lo d) ⟨by simp [newLine, hi.hL], hlen⟩ ?_ ?_ ?_ ?_
  · intro l hl
    have := hdisj l hl
    show (newLine c lo d).hi ≤ l.lo ∨ l.hi ≤ (newLine c lo d).lo
    simp only [newLine, hi.hL]
    exact this
  · show 0 < stamp L lo (op :: h); omega
  · intro l hl
    show stamp L l.lo (op :: h) < stamp L lo (op :: h)
    rw [hstn, hst l hl]
    have := stamp_le L l.lo h; omega
  · intro i hi'
    show d[i]? = value L (lo + i) (op :: h)
    rw [hvaln i hi']

theorem pushWarn_state (c : Cache) (lo : Int) (d : List (BitVec 8)) :
    (pushLineWithEvictionWarning c lo d).2 = { c with lines := newLine c lo d :: c.lines } := by
  unfold pushLineWithEvictionWarning; simp only []; split <;> rfl

theorem inv_pushWarn (hi : Inv L n h c) (hL : 0 < L) (lo : Int) (d : List (BitVec 8))
    (hok : okOp c (.pushWarn lo d) = true) : Inv L n (.pushWarn lo d :: h) (step c (.pushWarn lo d)).1 := by
  obtain ⟨h1, h2, h3⟩ := okOp_pushWarn hok
  rw [hi.hL] at h1 h3
  rw [hi.hn] at h2
  have hstate : (step c (.pushWarn lo d)).1 = { c with lines := newLine c lo d :: c.lines } := by
    simp only [step]; exact pushWarn_state c lo d
  rw [hstate]
  refine ⟨hi.hL, hi.hn, good_new hi hL _ (Or.inr rfl) h1 h3, by simp; omega, ?_⟩
  simp only [resident, List.map_cons, newLine]
  exact hi.res.cons lo

theorem lruOf_spec (st : Int → Nat) : ∀ (r : List Int) (v : Int), lruOf st r = some v →
    v ∈ r ∧ ∀ x ∈ r, st v ≤ st x := by
  intro r
  induction r with
  | nil => intro v hv; simp [lruOf] at hv
  | cons x xs ih =>
    intro v hv
    simp only [lruOf] at hv
    cases hx : lruOf st xs with
    | none =>
      simp only [hx, Option.some.injEq] at hv
      subst hv
      cases xs with
      | nil => simp
      | cons y ys =>
        simp only [lruOf] at hx
        split at hx
        · cases hx
        · split at hx <;> cases hx
    | some y =>
      simp only [hx] at hv
      obtain ⟨hy1, hy2⟩ := ih y hx
      by_cases hlt : st x < st y
      · simp only [hlt, if_true, Option.some.injEq] at hv
        subst hv
        refine ⟨List.mem_cons_self .., ?_⟩
        intro z hz
        rcases List.mem_cons.mp hz with rfl | hz
        · exact Nat.le_refl _
        · have := hy2 z hz; omega
      · simp only [hlt, if_false, Option.some.injEq] at hv
        subst hv
        refine ⟨List.mem_cons_of_mem _ hy1, ?_⟩
        intro z hz
        rcases List.mem_cons.mp hz with rfl | hz
        · omega
        · exact hy2 z hz

theorem lruOf_isSome (st : Int → Nat) : ∀ (r : List Int), r ≠ [] → ∃ v, lruOf st r = some v := by
  intro r hr
  cases r with
  | nil => exact absurd rfl hr
  | cons x xs =>
    simp only [lruOf]
    cases lruOf st xs with
    | none => exact ⟨x, rfl⟩
    | some y => by_cases hlt : st x < st y <;> simp [hlt]

/-- in a list sorted by strictly decreasing stamps, the least recently used base is the last one -/
theorem lru_is_last {st : Int → Nat} {init : List Line} {w : Line} {r : List Int} {v : Int}
    (hs : (init ++ [w]).Pairwise (fun l1 l2 => st l2.lo < st l1.lo))
    (hp : r.Perm ((init ++ [w]).map (·.lo))) (hv : lruOf st r = some v) :
    v = w.lo ∧ w.lo ∉ init.map (·.lo) := by
  obtain ⟨hv1, hv2⟩ := lruOf_spec st r v hv
  rw [List.pairwise_append] at hs
  obtain ⟨_, _, hs3⟩ := hs
  have hlast : ∀ l ∈ init, st w.lo < st l.lo := fun l hl => hs3 l hl w (by simp)
  have hw : w.lo ∈ r := hp.mem_iff.mpr (by simp)
  have hvm := hp.mem_iff.mp hv1
  obtain ⟨l, hl, rfl⟩ := List.mem_map.mp hvm
  constructor
  · rcases List.mem_append.mp hl with hl | hl
    · have := hlast l hl
      have := hv2 w.lo hw
      omega
    · simp at hl; rw [hl]
  · intro hmem
    obtain ⟨l', hl', he⟩ := List.mem_map.mp hmem
    have := hlast l' hl'
    rw [he] at this
    omega

def pushedLines (c : Cache) (lo : Int) (d : List (BitVec 8)) : List Line :=
  if (newLine c lo d :: c.lines).length > c.numberOfLines then (newLine c lo d :: c.lines).take c.numberOfLines
  else newLine c lo d :: c.lines

theorem push_state (c : Cache) (lo : Int) (d : List (BitVec 8)) :
    (pushLine c lo d).2 = { c with lines := pushedLines c lo d } := by
  unfold pushLine pushedLines; simp only []; split <;> rfl

theorem inv_push (hi : Inv L n h c) (hL : 0 < L) (lo : Int) (d : List (BitVec 8))
    (hok : okOp c (.push lo d) = true) : Inv L n (.push lo d :: h) (step c (.push lo d)).1 := by
  obtain ⟨h1, h2, h3⟩ := okOp_push hok
  rw [hi.hL] at h1 h3
  rw [hi.hn] at h2
  have hstate : (step c (.push lo d)).1 = (pushLine c lo d).2 := by simp only [step]
  rw [hstate, push_state]
  unfold pushedLines
  rw [hi.hn]
  have hg := good_new hi hL (.push lo d) (Or.inl rfl) h1 h3
  have hperm : (lo :: resident L n h).Perm ((newLine c lo d :: c.lines).map (·.lo)) := by
    simp only [List.map_cons, newLine]; exact hi.res.cons lo
  by_cases hfull : (newLine c lo d :: c.lines).length > n
  · simp only [hfull, if_true]
    have hlen : (newLine c lo d :: c.lines).length = n + 1 := by simp at hfull ⊢; omega
    -- split off the last line
    have hne : newLine c lo d :: c.lines ≠ [] := by simp
    obtain ⟨init, w, hiw⟩ : ∃ init w, newLine c lo d :: c.lines = init ++ [w] :=
      ⟨_, _, (List.dropLast_concat_getLast hne).symm⟩
    have hinit : init.length = n := by
      have := congrArg List.length hiw
      simp only [List.length_append, List.length_singleton] at this
      omega
    have htake : (newLine c lo d :: c.lines).take n = init := by
      rw [hiw, ← hinit]; simp
    rw [htake]
    refine ⟨hi.hL, rfl, ?_, by show init.length ≤ n + 1; omega, ?_⟩
    · exact hg.sublist (by rw [hiw]; exact List.sublist_append_left _ _)
    · simp only [resident]
      have hrlen : (lo :: resident L n h).length > n := by
        rw [hperm.length_eq, List.length_map]; omega
      simp only [hrlen, if_true]
      obtain ⟨v, hv⟩ := lruOf_isSome (fun b => stamp L b (.push lo d :: h)) (lo :: resident L n h) (by simp)
      rw [hv]
      rw [hiw] at hperm hg
      obtain ⟨rfl, hnot⟩ := lru_is_last hg.sorted hperm hv
      have := hperm.erase w.lo
      rw [List.map_append, List.erase_append_right _ hnot] at this
      simpa using this
  · simp only [hfull, if_false]
    refine ⟨hi.hL, rfl, hg, by simp at hfull ⊢; omega, ?_⟩
    simp only [resident]
    have hrlen : ¬ (lo :: resident L n h).length > n := by
      rw [hperm.length_eq, List.length_map]; exact hfull
    simp only [hrlen, if_false]
    exact hperm

/-! ### every valid history -/

theorem inv_step (hi : Inv L n h c) (hL : 0 < L) (op : Op) (hok : okOp c op = true) :
    Inv L n (op :: h) (step c op).1 := by
  cases op with
  | push lo d => exact inv_push hi hL lo d hok
  | pushWarn lo d => exact inv_pushWarn hi hL lo d hok
  | get a => exact inv_get hi a
  | evict a => exact inv_evict hi a
  | write a d => exact inv_write hi a d hok
  | peek q => exact inv_peek hi q

theorem inv_after (hL : 0 < L) : ∀ h : List Op, Valid L n h = true → Inv L n h (after L n h) := by
  intro h
  induction h with
  | nil => intro _; exact inv_empty L n
  | cons op h ih =>
    intro hv
    simp only [Valid, Bool.and_eq_true] at hv
    exact inv_step (ih hv.1) hL op hv.2

/-! ### consequences used by Props/C13.lean -/

theorem get_total (hi : Inv L n h c) (a : Int) : ∃ r, LineCache.get c a = .ok r := by
  cases hs : splitAt a c.lines with
  | none => exact ⟨_, get_miss hs⟩
  | some r =>
    obtain ⟨pre, x, post⟩ := r
    obtain ⟨v, hg, _⟩ := get_hit hi hs
    exact ⟨_, hg⟩

theorem get_some_value (hi : Inv L n h c) {a : Int} {v : BitVec 8} {c' : Cache}
    (hg : LineCache.get c a = .ok (some v, c')) : value L a h = some v := by
  cases hs : splitAt a c.lines with
  | none => rw [get_miss hs] at hg; cases hg
  | some r =>
    obtain ⟨pre, x, post⟩ := r
    obtain ⟨v', hg', hv'⟩ := get_hit hi hs
    rw [hg'] at hg
    cases hg
    exact hv'

theorem get_some_iff_covered (hi : Inv L n h c) (a : Int) :
    (∃ v c', LineCache.get c a = .ok (some v, c')) ↔ ∃ l ∈ c.lines, l.covers a = true := by
  constructor
  · rintro ⟨v, c', hg⟩
    cases hs : splitAt a c.lines with
    | none => rw [get_miss hs] at hg; cases hg
    | some r =>
      obtain ⟨pre, x, post⟩ := r
      obtain ⟨hl, hc, _⟩ := splitAt_some hs
      exact ⟨x, by rw [hl]; simp, hc⟩
  · intro hex
    obtain ⟨pre, x, post, hs⟩ := splitAt_isSome hex
    obtain ⟨v, hg, _⟩ := get_hit hi hs
    exact ⟨v, _, hg⟩

theorem covered_iff_resident (hi : Inv L n h c) (a : Int) :
    (∃ l ∈ c.lines, l.covers a = true) ↔ ∃ lo ∈ resident L n h, lo ≤ a ∧ a < lo + L := by
  constructor
  · rintro ⟨l, hl, hc⟩
    rw [covers_iff, (hi.good.wf l hl).1] at hc
    exact ⟨l.lo, hi.res.mem_iff.mpr (List.mem_map.mpr ⟨l, hl, rfl⟩), hc⟩
  · rintro ⟨lo, hlo, hc⟩
    obtain ⟨l, hl, rfl⟩ := List.mem_map.mp (hi.res.mem_iff.mp hlo)
    exact ⟨l, hl, by rw [covers_iff, (hi.good.wf l hl).1]; exact hc⟩

/-- the first line containing an address is the only one -/
theorem splitAt_unique (hi : Inv L n h c) {a : Int} {pre post : List Line} {x y : Line}
    (hs : splitAt a c.lines = some (pre, x, post)) (hy : y ∈ c.lines) (hc : y.covers a = true) : y = x := by
  obtain ⟨hl, hcx, hpre⟩ := splitAt_some hs
  have hgood := hi.good
  rw [hl] at hgood hy
  have hdis := others_disjoint hgood.disj
  simp only [List.mem_append, List.mem_cons] at hy
  rcases hy with hy | hy | hy
  · have := hpre y hy; rw [this] at hc; cases hc
  · exact hy
  · have := not_covers_of_disjoint (hdis y (List.mem_append_right _ hy)) hcx
    rw [this] at hc; cases hc

theorem getCacheLine_spec (hi : Inv L n h c) (a : Int) :
    (∀ dd, getCacheLine c a = .ok (some dd) →
      ∃ l ∈ c.lines, l.covers a = true ∧ dd = l.data ∧ dd.length = L ∧
        ∀ i : Nat, i < L → dd[i]? = value L (l.lo + i) h) ∧
    (getCacheLine c a = .ok none ↔ ∀ l ∈ c.lines, l.covers a = false) ∧
    (∃ r, getCacheLine c a = .ok r) := by
  cases hs : splitAt a c.lines with
  | none =>
    have hnc := splitAt_none hs
    have hg : getCacheLine c a = .ok none := by simp [getCacheLine, hs]; rfl
    refine ⟨fun dd hd => (by rw [hg] at hd; cases hd), ⟨fun _ => hnc, fun _ => hg⟩, ⟨_, hg⟩⟩
  | some r =>
    obtain ⟨pre, x, post⟩ := r
    obtain ⟨hl, hc, _⟩ := splitAt_some hs
    have hx : x ∈ c.lines := by rw [hl]; simp
    obtain ⟨v, hv1, _⟩ := at_ok (hi.good.wf x hx) hc
    have hg : getCacheLine c a = .ok (some x.data) := by simp [getCacheLine, hs, hv1]; rfl
    refine ⟨?_, ⟨fun hn => (by rw [hg] at hn; cases hn), fun hn => (by rw [hn x hx] at hc; cases hc)⟩, ⟨_, hg⟩⟩
    intro dd hd
    rw [hg] at hd
    cases hd
    exact ⟨x, hx, hc, rfl, (hi.good.wf x hx).2, hi.good.vals x hx⟩

/-! #### pushes -/

theorem lines_split_last (hne : c.lines ≠ []) : ∃ init w, c.lines = init ++ [w] ∧ c.lines.getLast? = some w ∧
    c.lines.dropLast = init := by
  refine ⟨c.lines.dropLast, c.lines.getLast hne, (List.dropLast_concat_getLast hne).symm, ?_, rfl⟩
  exact List.getLast?_eq_some_getLast hne

/-- in a reachable state the last line is the least recently used one, strictly -/
theorem last_is_lru (hi : Inv L n h c) {init : List Line} {w : Line} (hl : c.lines = init ++ [w]) :
    (∀ l ∈ init, stamp L w.lo h < stamp L l.lo h) ∧ (∀ l ∈ c.lines, stamp L w.lo h ≤ stamp L l.lo h) ∧
    w.lo ∉ init.map (·.lo) := by
  have hs := hi.good.sorted
  rw [hl, List.pairwise_append] at hs
  obtain ⟨_, _, hs3⟩ := hs
  have hlast : ∀ l ∈ init, stamp L w.lo h < stamp L l.lo h := fun l hl' => hs3 l hl' w (by simp)
  refine ⟨hlast, ?_, ?_⟩
  · intro l hl'
    rw [hl] at hl'
    rcases List.mem_append.mp hl' with hl' | hl'
    · exact Nat.le_of_lt (hlast l hl')
    · simp at hl'; rw [hl']; exact Nat.le_refl _
  · intro hmem
    obtain ⟨l', hl', he⟩ := List.mem_map.mp hmem
    have := hlast l' hl'
    rw [he] at this
    omega

theorem push_full (hi : Inv L n h c) (hL : 0 < L) {lo : Int} {d : List (BitVec 8)}
    (hok : okOp c (.push lo d) = true) (hfull : c.lines.length = n) (hn : 0 < n) :
    ∃ victim, c.lines.getLast? = some victim ∧
      (∀ l ∈ c.lines, stamp L victim.lo h ≤ stamp L l.lo h) ∧
      (pushLine c lo d).1 = some victim.data ∧
      (∀ i : Nat, i < L → victim.data[i]? = value L (victim.lo + i) h) ∧
      (pushLine c lo d).2.lines = newLine c lo d :: c.lines.dropLast ∧
      (resident L n (.push lo d :: h)).Perm (lo :: (resident L n h).erase victim.lo) ∧
      victim.lo ∉ resident L n (.push lo d :: h) := by
  have hne : c.lines ≠ [] := by intro he; rw [he] at hfull; simp at hfull; omega
  obtain ⟨init, w, hl, hlast, hdrop⟩ := lines_split_last hne
  obtain ⟨_, hmin, hnot⟩ := last_is_lru hi hl
  have hw : w ∈ c.lines := by rw [hl]; simp
  have hinit : init.length = n - 1 := by
    have := congrArg List.length hl
    simp only [List.length_append, List.length_singleton] at this
    omega
  have hres : (pushLine c lo d).1 = some w.data := by
    have hlen : (newLine c lo d :: c.lines).length > c.numberOfLines := by rw [hi.hn]; simp; omega
    have hgl : (newLine c lo d :: c.lines).getLast? = some w := by
      rw [List.getLast?_cons, hlast]; rfl
    simp only [pushLine, hlen, if_true, hgl, Option.map_some]
  have hlines : (pushLine c lo d).2.lines = newLine c lo d :: c.lines.dropLast := by
    rw [push_state]
    show pushedLines c lo d = _
    have hlen : (newLine c lo d :: c.lines).length > c.numberOfLines := by rw [hi.hn]; simp; omega
    unfold pushedLines
    rw [if_pos hlen, hi.hn, hl]
    have : n = (init.length + 1) := by omega
    rw [this, List.take_succ_cons]
    simp
  -- the reference set
  have hi' := inv_push hi hL lo d hok
  have hst : (step c (.push lo d)).1 = (pushLine c lo d).2 := by simp only [step]
  have hres' := hi'.res
  rw [hst, hlines, hdrop] at hres'
  have hperm0 := hi.res
  rw [hl, List.map_append] at hperm0
  have herase : ((resident L n h).erase w.lo).Perm (init.map (·.lo)) := by
    have := hperm0.erase w.lo
    rw [List.erase_append_right _ hnot] at this
    simpa using this
  have hperm : (resident L n (.push lo d :: h)).Perm (lo :: (resident L n h).erase w.lo) := by
    refine hres'.trans ?_
    simp only [List.map_cons, newLine]
    exact (herase.symm).cons lo
  refine ⟨w, hlast, hmin, hres, hi.good.vals w hw, hlines, hperm, ?_⟩
  intro hmem
  have hmem' := hres'.mem_iff.mp hmem
  simp only [List.map_cons, newLine, List.mem_cons] at hmem'
  rcases hmem' with he | he
  · -- the new base differs from every resident base
    obtain ⟨_, _, h3⟩ := okOp_push hok
    have := h3 w hw
    have := (hi.good.wf w hw).1
    rw [hi.hL] at *
    omega
  · exact hnot he

theorem push_not_full {lo : Int} {d : List (BitVec 8)} (hi : Inv L n h c) (hlt : c.lines.length < n) :
    pushLine c lo d = (none, { c with lines := newLine c lo d :: c.lines }) := by
  have hlen : ¬ (newLine c lo d :: c.lines).length > c.numberOfLines := by rw [hi.hn]; simp; omega
  simp only [pushLine, hlen, if_false]

theorem push_length_le (hi : Inv L n h c) {lo : Int} {d : List (BitVec 8)} :
    (pushLine c lo d).2.lines.length ≤ n := by
  rw [push_state]
  show (pushedLines c lo d).length ≤ n
  unfold pushedLines
  rw [hi.hn]
  split
  · rw [List.length_take]; omega
  · rename_i hlen; omega

theorem pushWarn_full (hi : Inv L n h c) {lo : Int} {d : List (BitVec 8)} (hfull : c.lines.length = n) (hn : 0 < n) :
    ∃ victim, c.lines.getLast? = some victim ∧
      (∀ l ∈ c.lines, stamp L victim.lo h ≤ stamp L l.lo h) ∧
      pushLineWithEvictionWarning c lo d = (some victim, { c with lines := newLine c lo d :: c.lines }) ∧
      (∀ i : Nat, i < L → victim.data[i]? = value L (victim.lo + i) h) := by
  have hne : c.lines ≠ [] := by intro he; rw [he] at hfull; simp at hfull; omega
  obtain ⟨init, w, hl, hlast, _⟩ := lines_split_last hne
  obtain ⟨_, hmin, _⟩ := last_is_lru hi hl
  have hw : w ∈ c.lines := by rw [hl]; simp
  have hlen : (newLine c lo d :: c.lines).length > c.numberOfLines := by rw [hi.hn]; simp; omega
  have hgl : (newLine c lo d :: c.lines).getLast? = some w := by
    rw [List.getLast?_cons, hlast]; rfl
  refine ⟨w, hlast, hmin, ?_, hi.good.vals w hw⟩
  simp only [pushLineWithEvictionWarning, hlen, if_true, hgl]

theorem pushWarn_not_full (hi : Inv L n h c) {lo : Int} {d : List (BitVec 8)} (hlt : c.lines.length < n) :
    pushLineWithEvictionWarning c lo d = (none, { c with lines := newLine c lo d :: c.lines }) := by
  have hlen : ¬ (newLine c lo d :: c.lines).length > c.numberOfLines := by rw [hi.hn]; simp; omega
  simp only [pushLineWithEvictionWarning, hlen, if_false]

/-- evicting the announced victim removes exactly that line and reports its data -/
theorem evict_victim (hi : Inv L n h c) (hL : 0 < L) {victim : Line} (hv : victim ∈ c.lines) :
    ∃ pre post, c.lines = pre ++ victim :: post ∧
      evictCacheLine c victim.lo = .ok (some victim.data, { c with lines := pre ++ post }) := by
  have hc : victim.covers victim.lo = true := by
    rw [covers_iff, (hi.good.wf victim hv).1]; omega
  obtain ⟨pre, x, post, hs⟩ := splitAt_isSome ⟨victim, hv, hc⟩
  have hx := splitAt_unique hi hs hv hc
  subst hx
  exact ⟨pre, post, (splitAt_some hs).1, evict_hit hi hs⟩

/-! #### sub-lines -/

theorem sliceFrom_spec (data : List (BitVec 8)) (base : Int) : ∀ (k i : Nat) (dd : List (BitVec 8)),
    sliceFrom data base i k = .ok dd →
    dd.length = k ∧ ∀ j : Nat, j < k → 0 ≤ base + ((i + j : Nat) : Int) ∧
      (base + ((i + j : Nat) : Int)).toNat < data.length ∧ dd[j]? = data[(base + ((i + j : Nat) : Int)).toNat]? := by
  intro k
  induction k with
  | zero => intro i dd hd; simp [sliceFrom] at hd; cases hd; simp
  | succ k ih =>
    intro i dd hd
    simp only [sliceFrom] at hd
    by_cases hneg : base + (i : Int) < 0
    · simp [hneg] at hd
    · simp only [hneg, if_false] at hd
      cases hget : data[(base + (i : Int)).toNat]? with
      | none => simp [hget] at hd
      | some v =>
        simp only [hget] at hd
        cases hrest : sliceFrom data base (i + 1) k with
        | error e => simp [hrest, bind, Except.bind] at hd
        | ok rest =>
          simp only [hrest, bind, Except.bind, pure, Except.pure, Except.ok.injEq] at hd
          subst hd
          obtain ⟨h1, h2⟩ := ih (i + 1) rest hrest
          refine ⟨by simp [h1], ?_⟩
          intro j hj
          cases j with
          | zero =>
            have hlt : (base + (i : Int)).toNat < data.length := by
              rcases List.getElem?_eq_some_iff.mp hget with ⟨hlt, _⟩; exact hlt
            refine ⟨by simp; omega, by simpa using hlt, by simpa using hget.symm⟩
          | succ j =>
            have := h2 j (by omega)
            have e : i + 1 + j = i + (j + 1) := by omega
            rw [e] at this
            simpa using this

theorem existing_sublist (c : Cache) : (existingLines c).Sublist c.lines := List.take_sublist _ _

theorem getSub_eq (c : Cache) (a0 : Int) (rest : List Int) (sub : Int) :
    getSubCacheLine c (a0 :: rest) sub =
      (match splitAt a0 (existingLines c) with
      | none => pure none
      | some (_, l, _) => do
        let _ ← l.at a0
        let small ← alignDown a0 sub
        if sub < 0 then throw (.panic "makeslice: cap out of range")
        else do
          let d ← sliceFrom l.data (small - l.lo) 0 sub.toNat
          pure (some (small, d))) := by
  unfold getSubCacheLine
  generalize existingLines c = ex
  cases ex <;> rfl

theorem getSub_spec (hi : Inv L n h c) {a0 : Int} {rest : List Int} {sub small : Int} {dd : List (BitVec 8)}
    (hr : getSubCacheLine c (a0 :: rest) sub = .ok (some (small, dd))) :
    small = a0 - a0.tmod sub ∧ 0 < sub ∧ dd.length = sub.toNat ∧
    ∃ l ∈ existingLines c, l.covers a0 = true ∧
      ∀ j : Nat, j < sub.toNat → l.lo ≤ small + j ∧ small + j < l.hi ∧
        dd[j]? = l.data[(small + j - l.lo).toNat]? ∧ dd[j]? = value L (small + j) h := by
  rw [getSub_eq] at hr
  ·
    cases hs : splitAt a0 (existingLines c) with
    | none => simp [hs] at hr; cases hr
    | some r =>
      obtain ⟨pre, x, post⟩ := r
      simp only [hs] at hr
      obtain ⟨hl, hc, _⟩ := splitAt_some hs
      have hxe : x ∈ existingLines c := by rw [hl]; simp
      have hx : x ∈ c.lines := (existing_sublist c).subset hxe
      have hwf := hi.good.wf x hx
      obtain ⟨v, hv1, _⟩ := at_ok hwf hc
      simp only [hv1, bind, Except.bind] at hr
      by_cases hz : sub = 0
      · simp [alignDown, hz] at hr
      · simp only [alignDown, hz, if_false, pure, Except.pure] at hr
        by_cases hneg : sub < 0
        · simp [hneg] at hr
        · simp only [hneg, if_false] at hr
          cases hsl : sliceFrom x.data (a0 - a0.tmod sub - x.lo) 0 sub.toNat with
          | error e => simp [hsl] at hr
          | ok d' =>
            simp only [hsl, Except.ok.injEq, Option.some.injEq, Prod.mk.injEq] at hr
            obtain ⟨rfl, rfl⟩ := hr
            obtain ⟨h1, h2⟩ := sliceFrom_spec x.data _ _ _ _ hsl
            refine ⟨rfl, by omega, h1, x, hxe, hc, ?_⟩
            intro j hj
            obtain ⟨p1, p2, p3⟩ := h2 j hj
            simp only [Nat.zero_add] at p1 p2 p3
            have e1 : (a0 - a0.tmod sub + (j : Int) - x.lo) = (a0 - a0.tmod sub - x.lo + (j : Int)) := by omega
            refine ⟨by omega, by omega, by rw [e1]; exact p3, ?_⟩
            rw [p3]
            have hidx : (a0 - a0.tmod sub - x.lo + (j : Int)).toNat < L := by omega
            have := hi.good.vals x hx _ hidx
            rw [this]
            congr 1
            omega

/-! #### Write -/

theorem write_absent {a : Int} {d : List (BitVec 8)} (hs : splitAt a c.lines = none) :
    write c a d = .error (.panic "cache line doesn't exist") ∧ writeState c a d = c := by
  simp [write, writeState, writeRaw, hs]; rfl

theorem write_valid (hi : Inv L n h c) {a : Int} {d : List (BitVec 8)} (hok : okOp c (.write a d) = true) :
    write c a d = .ok (step c (.write a d)).1 := by
  cases hs : splitAt a c.lines with
  | none => simp [okOp, hs] at hok
  | some r =>
    obtain ⟨pre, x, post⟩ := r
    simp only [okOp, hs, decide_eq_true_eq] at hok
    have hw := write_hit hi hs hok
    simp [write, step, writeState, hw]; rfl

/-- a write that runs past the end of its line panics (after storing the bytes that fit) -/
theorem write_overrun (hi : Inv L n h c) {a : Int} {d : List (BitVec 8)} {pre post : List Line} {x : Line}
    (hs : splitAt a c.lines = some (pre, x, post)) (hover : x.hi < a + d.length) :
    write c a d = .error (.panic "index out of range") := by
  obtain ⟨hl, hc, _⟩ := splitAt_some hs
  have hx : x ∈ c.lines := by rw [hl]; simp
  obtain ⟨v, _, hv2⟩ := at_ok (hi.good.wf x hx) hc
  have hwf := hi.good.wf x hx
  rw [covers_iff] at hc
  have key : ∀ (vs dd : List (BitVec 8)) (off : Nat), dd.length < off + vs.length → off ≤ dd.length →
      (setFrom dd off vs).2 = false := by
    intro vs
    induction vs with
    | nil => intro dd off h1 h2; simp at h1; omega
    | cons w ws ih =>
      intro dd off h1 h2
      simp only [setFrom]
      by_cases hlt : off < dd.length
      · simp only [hlt, if_true]
        exact ih (dd.set off w) (off + 1) (by simp at h1 ⊢; omega) (by simp; omega)
      · simp [hlt]
  have hk := key d x.data (a - x.lo).toNat (by omega) (by omega)
  simp [write, writeRaw, hs, hv2, hk]; rfl

/-! #### capacity without the warning protocol -/

theorem resident_len_no_warn (L n : Nat) : ∀ h : List Op, (∀ lo d, Op.pushWarn lo d ∉ h) →
    (resident L n h).length ≤ n := by
  intro h
  induction h with
  | nil => intro _; simp [resident]
  | cons op h ih =>
    intro hnw
    have ih' := ih (fun lo d hm => hnw lo d (List.mem_cons_of_mem _ hm))
    cases op with
    | push lo d =>
      simp only [resident]
      by_cases hlen : (lo :: resident L n h).length > n
      · simp only [hlen, if_true]
        obtain ⟨v, hv⟩ := lruOf_isSome (fun b => stamp L b (.push lo d :: h)) (lo :: resident L n h) (by simp)
        rw [hv]
        have hmem := (lruOf_spec _ _ _ hv).1
        rw [List.length_erase_of_mem hmem]
        simp only [List.length_cons] at hlen ⊢
        omega
      · simp only [hlen, if_false]; omega
    | pushWarn lo d => exact absurd (List.mem_cons_self ..) (hnw lo d)
    | get a => simpa [resident] using ih'
    | evict a =>
      simp only [resident]
      exact Nat.le_trans (List.length_filter_le _ _) ih'
    | write a d => simpa [resident] using ih'
    | peek q => simpa [resident] using ih'

theorem length_no_warn (hi : Inv L n h c) (hnw : ∀ lo d, Op.pushWarn lo d ∉ h) : c.lines.length ≤ n := by
  have := resident_len_no_warn L n h hnw
  rw [hi.res.length_eq, List.length_map] at this
  exact this

/-! #### call order -/

theorem after_eq_run (L n : Nat) : ∀ h : List Op, after L n h = run L n h.reverse := by
  intro h
  induction h with
  | nil => rfl
  | cons op h ih => simp [after, run, List.foldl_append, ih]

theorem run_eq_after (L n : Nat) (ops : List Op) : run L n ops = after L n ops.reverse := by
  rw [after_eq_run, List.reverse_reverse]

end Proofs.LC

/-
  Proofs/Mvp4EuRun.lean — `executeUnit.run` of MVP-4 performs exactly one step of the
  unpipelined machine on the architectural state (lemma (d) of the pipeline argument).
-/
import MajoranaVerif.Proofs.Mvp4Exec
import MajoranaVerif.Proofs.Refine
open GoInt Model Model.Mvp4 Model.Seq
open Proofs.Mmu (DWf Coh applyChanges base)

set_option linter.unusedSimpArgs false
set_option linter.unusedVariables false

namespace Proofs.Mvp4

theorem writeRegister_fields (c : Model.Context) (e : Gen.Execution) :
    (writeRegister c e).rat = c.rat ∧ (writeRegister c e).Transaction = c.Transaction ∧
    (writeRegister c e).Memory = c.Memory ∧
    (writeRegister c e).Registers = c.Registers.set e.Register e.RegisterValue := ⟨rfl, rfl, rfl, rfl⟩

/-- the flush decision of the branch unit is right: a redirect is signalled exactly when the next pc is not
the next sequential one -/
theorem shouldFlush_spec (bu0 : BranchUnit) (r : Runner) (e : Gen.Execution)
    (hb : isBranchType r.instr.instructionType = true) (hne : e.NextPc ≠ BitVec.ofInt 32 (-1)) :
    ((bu0.assert r).shouldFlushPipeline e.NextPc).1 = false → e.NextPc = r.pc + 4#32 := by
  obtain ⟨h1, h2⟩ := assert_branch bu0 r hb
  unfold BranchUnit.shouldFlushPipeline
  simp only [h1, Bool.not_true, Bool.false_eq_true, if_false, h2]
  intro h
  have : (if r.instr.instructionType.IsUnconditionalBranch = true then BitVec.ofInt 32 (-1) else r.pc + 4#32) = e.NextPc := by
    simpa using h
  split at this
  · exact absurd this.symm hne
  · exact this.symm


/-- the pc the unpipelined machine continues at -/
def nextPc (a : Arch) (e : Gen.Execution) : Word := if e.PcChange then e.NextPc else a.pc + 4#32

section StepTail
variable {app : App} {a : Arch} {i : Gen.Instr} {bytes : List Byte} {e : Gen.Execution} {ex : Int}

theorem stepTail_err {msg : String} (hr : i.run a.ctx app.labels a.pc bytes 0#32 = .error (.err msg)) :
    ∃ c, stepTail app a i bytes = .halt .err c := by
  unfold stepTail; simp only [hr]; exact ⟨_, rfl⟩

theorem stepTail_ret (hr : i.run a.ctx app.labels a.pc bytes 0#32 = .ok e)
    (hex : Gen.InstructionType.Cycles i.instructionType = .ok ex) (hret : e.Return = true) :
    ∃ c, stepTail app a i bytes = .halt .ret c := by
  unfold stepTail; simp only [hr, hex, hret, if_true]; exact ⟨_, rfl⟩

theorem stepTail_reg (hr : i.run a.ctx app.labels a.pc bytes 0#32 = .ok e)
    (hex : Gen.InstructionType.Cycles i.instructionType = .ok ex) (hret : e.Return = false)
    (hrc : e.RegisterChange = true) :
    ∃ c, stepTail app a i bytes = .next ⟨writeRegister a.ctx e, nextPc a e⟩ c := by
  unfold stepTail nextPc; simp only [hr, hex, hret, hrc, Bool.false_eq_true, if_false, if_true]; exact ⟨_, rfl⟩

theorem stepTail_store {c : Model.Context} (hr : i.run a.ctx app.labels a.pc bytes 0#32 = .ok e)
    (hex : Gen.InstructionType.Cycles i.instructionType = .ok ex) (hret : e.Return = false)
    (hrc : e.RegisterChange = false) (hmc : e.MemoryChange = true) (hwm : writeMemory a.ctx e = some c) :
    ∃ k, stepTail app a i bytes = .next ⟨c, nextPc a e⟩ k := by
  unfold stepTail nextPc; simp only [hr, hex, hret, hrc, hmc, hwm, Bool.false_eq_true, if_false, if_true]; exact ⟨_, rfl⟩

theorem stepTail_plain (hr : i.run a.ctx app.labels a.pc bytes 0#32 = .ok e)
    (hex : Gen.InstructionType.Cycles i.instructionType = .ok ex) (hret : e.Return = false)
    (hrc : e.RegisterChange = false) (hmc : e.MemoryChange = false) :
    ∃ k, stepTail app a i bytes = .next ⟨a.ctx, nextPc a e⟩ k := by
  unfold stepTail nextPc; simp only [hr, hex, hret, hrc, hmc, Bool.false_eq_true, if_false]; exact ⟨_, rfl⟩

end StepTail


/-- queueing a result (lemma (d), second half): the architectural state `a'` after the instruction is related
to the machine with the result on the write bus, and the flush signal is raised exactly when `a'.pc` is not
the next sequential pc -/
theorem euQueue_sim {s : State} {a : Arch} {r : Runner} {e : Gen.Execution} {eu : ExecUnit} {mmu : Model.Mmu.Mmu}
    (hb : BackRel s.ctx s.pwmi s.writeBus.inside mmu.l1d eu.storeID a)
    (hpc : r.pc = a.pc) (hshape : Shape r.instr e)
    (hbu : ∃ bu0, s.bu = BranchUnit.assert bu0 r) (hfree : s.writeBus.canAdd = true)
    (hst : e.RegisterChange = false → e.MemoryChange = true →
        Model.Mmu.storeOk (L : Nat) a.ctx.Memory.length e.MemoryChanges = true ∧
        ∀ p ∈ e.MemoryChanges, ∀ y ∈ mmu.l1d.lines, y.covers p.1.toInt = false)
    (hjmp : e.PcChange = true → e.NextPc ≠ BitVec.ofInt 32 (-1))
    (a' : Arch) (hpc' : a'.pc = nextPc a e)
    (har : a'.ctx.rat = false) (hat : a'.ctx.Transaction.entries = [])
    (hregs : a'.ctx.Registers = (if e.RegisterChange then a.ctx.Registers.set e.Register e.RegisterValue else a.ctx.Registers))
    (hmem : a'.ctx.Memory = (if e.RegisterChange then a.ctx.Memory else
        if e.MemoryChange then applyChanges a.ctx.Memory e.MemoryChanges else a.ctx.Memory)) :
    Back (euQueue s r e eu mmu).1 a' ∧ (euQueue s r e eu mmu).1.eu.processing = eu.processing ∧
    (euQueue s r e eu mmu).1.eu.pendingMemoryRead = eu.pendingMemoryRead ∧
    (euQueue s r e eu mmu).1.eu.memory = eu.memory ∧
    (euQueue s r e eu mmu).1.fu = s.fu ∧ (euQueue s r e eu mmu).1.decodeBus = s.decodeBus ∧
    (euQueue s r e eu mmu).1.executeBus = s.executeBus ∧ (euQueue s r e eu mmu).1.wu = s.wu ∧
    (euQueue s r e eu mmu).1.mode = s.mode ∧ (euQueue s r e eu mmu).1.cycles = s.cycles ∧
    (match (euQueue s r e eu mmu).2 with
     | .none => a'.pc = a.pc + 4#32
     | .flush pc => a'.pc = pc
     | _ => False) := by
  -- the pc part
  have hpcpart : (match (euQueue s r e eu mmu).2 with
     | .none => a'.pc = a.pc + 4#32
     | .flush pc => a'.pc = pc
     | _ => False) := by
    unfold euQueue
    simp only
    by_cases hp : e.PcChange = true
    · obtain ⟨bu0, hbu0⟩ := hbu
      have hbt := hshape.pcBranch hp
      simp only [hp, if_true]
      cases hfl : (s.bu.shouldFlushPipeline e.NextPc).1 with
      | true =>
        simp only [if_true]
        rw [hpc', nextPc, if_pos hp]
      | false =>
        simp only [Bool.false_eq_true, if_false]
        rw [hpc', nextPc, if_pos hp, ← hpc]
        rw [hbu0] at hfl
        exact shouldFlush_spec bu0 r e hbt (hjmp hp) hfl
    · have hp' : e.PcChange = false := by simpa using hp
      simp only [hp', Bool.false_eq_true, if_false]
      rw [hpc', nextPc, hp']; rfl
  refine ⟨?_, ?_, ?_, ?_, rfl, rfl, rfl, rfl, rfl, rfl, hpcpart⟩
  · -- the back-end relation
    unfold Back euQueue
    simp only
    by_cases hmc : e.MemoryChange = true
    · have hrc : e.RegisterChange = false := by
        cases h : e.RegisterChange with
        | false => rfl
        | true => have := hshape.regNoMem h; rw [hmc] at this; cases this
      obtain ⟨hok, hun⟩ := hst hrc hmc
      simp only [hmc, if_true]
      rw [bus_add_inside _ _ hfree]
      have := hb.push_store
        { sequenceID := eu.storeID + 1, execution := e, instructionType := r.instr.instructionType,
          writeRegisters := r.instr.writeRegisters } a'
        (by simp only [hshape.wregs]) (by simp [isStore, hrc, hmc]) rfl har hat
        (by rw [hregs, hrc]; rfl) (by rw [hmem, hrc, hmc]; rfl) hok hun
      exact this
    · have hmc' : e.MemoryChange = false := by simpa using hmc
      simp only [hmc', Bool.false_eq_true, if_false]
      rw [bus_add_inside _ _ hfree]
      have := hb.push_plain
        { sequenceID := eu.storeID, execution := e, instructionType := r.instr.instructionType,
          writeRegisters := r.instr.writeRegisters } a'
        (by simp only [hshape.wregs]) (by simp [isStore, hmc']) har hat hregs
        (by rw [hmem, hmc']; simp)
      exact this
  · unfold euQueue; simp only; split <;> rfl
  · unfold euQueue; simp only; split <;> rfl
  · unfold euQueue; simp only; split <;> rfl


/-- coherence determines the flat memory -/
theorem coh_unique {ls : List LineCache.Line} {mem F F' : List Byte} (h : Coh ls mem F) (h' : Coh ls mem F') : F = F' := by
  apply List.ext_getElem?
  intro i
  by_cases hi : i < F.length
  · have hi' : i < F'.length := by rw [← h'.len, h.len]; exact hi
    rw [← h.view_eq i hi, ← h'.view_eq i hi']
  · have hi' : ¬ i < F'.length := by rw [← h'.len, h.len]; exact hi
    rw [List.getElem?_eq_none (by omega), List.getElem?_eq_none (by omega)]

/-- what `executeUnit.run` guarantees, by the kind of result it returns -/
def EuPost (app : App) (s : State) (a : Arch) (s2 : State) : EuOut → Prop
  | .err => ∃ c, stepArch dc app a = .halt .err c
  | .ret => (∃ c, stepArch dc app a = .halt .ret c) ∧ Back s2 a ∧ s2.eu.processing = s.eu.processing ∧
      s2.writeBus = s.writeBus
  | .none => ∃ a' c, stepArch dc app a = .next a' c ∧ a'.pc = a.pc + 4#32 ∧ Back s2 a' ∧ s2.eu.processing = false
  | .flush pc => ∃ a' c, stepArch dc app a = .next a' c ∧ a'.pc = pc ∧ Back s2 a' ∧ s2.eu.processing = false

/-- **lemma (d): each executed instruction advances the architectural state by one step of the unpipelined
machine.**  `executeUnit.run` on the next-to-execute instruction `r`, with operands that have no queued writer
and with the architectural bytes of its load addresses, ends the way `Model.Seq.stepArch` ends on the
architectural state: an error is an error, `ret` is `ret`, and otherwise the machine with the result queued
(or written to L1D) is related to the NEXT architectural state; `flush pc` is returned exactly when that
state's pc is not the next sequential one. -/
theorem euRun_sim {app : App} {s : State} {a : Arch} {r : Runner} {bytes : List Byte} {s2 : State} {out : EuOut}
    (hb : Back s a) (hpc : r.pc = a.pc) (hi : instrAt app r.pc = .ok r.instr) (hf : fwdOf r.instr = {})
    (hnw : NoWriter s.writeBus.inside r.instr.readRegisters)
    (hbytes : (r.instr.memoryRead a.ctx 0#32).mapM (readMem a.ctx.Memory) = some bytes)
    (hbu : ∃ bu0, s.bu = BranchUnit.assert bu0 r)
    (hfree : s.writeBus.canAdd = true)
    (hok : stepOk app a = true)
    (h : euRun app s r bytes = .ok (s2, out)) :
    Frame s s2 ∧ EuPost app s a s2 out := by
  have hi' : instrAt app a.pc = .ok r.instr := hpc ▸ hi
  have hsr := sameRegs_of_noWriter hb hnw
  have hrun : r.instr.run s.ctx app.labels r.pc bytes 0#32 = r.instr.run a.ctx app.labels a.pc bytes 0#32 := by
    rw [hpc]; exact run_congr r.instr hf hsr app.labels a.pc bytes 0#32
  have hstep := stepArch_run hi' hbytes
  unfold euRun at h
  simp only at h
  rw [hrun] at h
  cases hr : r.instr.run a.ctx app.labels a.pc bytes 0#32 with
  | error f =>
    cases f with
    | panic w => simp [hr, throw, throwThe, MonadExceptOf.throw] at h
    | err msg =>
      simp only [hr, pure, Except.pure] at h
      injection h with h
      simp only [Prod.mk.injEq] at h
      obtain ⟨rfl, rfl⟩ := h
      refine ⟨⟨rfl, rfl, rfl, rfl, rfl, rfl, rfl, rfl⟩, ?_⟩
      show ∃ c, stepArch dc app a = .halt .err c
      rw [hstep]; exact stepTail_err hr
  | ok e =>
    obtain ⟨ex, hex⟩ := Proofs.Refine.cycles_ok r.instr.instructionType
    have hshape := run_shape r.instr a.ctx app.labels a.pc bytes 0#32 e hr
    simp only [hr] at h
    by_cases hret : e.Return = true
    · simp only [hret, if_true, pure, Except.pure] at h
      injection h with h
      simp only [Prod.mk.injEq] at h
      obtain ⟨rfl, rfl⟩ := h
      refine ⟨⟨rfl, rfl, rfl, rfl, rfl, rfl, rfl, rfl⟩, ?_, hb, rfl, rfl⟩
      rw [hstep]; exact stepTail_ret hr hex hret
    · have hret' : e.Return = false := by simpa using hret
      simp only [hret', Bool.false_eq_true, if_false] at h
      obtain ⟨hstok, hjmp⟩ := stepOk_run hok hi' hbytes hr
      by_cases hmc : e.MemoryChange = true
      · -- a store
        have hrc : e.RegisterChange = false := by
          cases hx : e.RegisterChange with
          | false => rfl
          | true => have := hshape.regNoMem hx; rw [hmc] at this; cases this
        have hsok := hstok hret' hrc hmc
        obtain ⟨p0, ps, hchs, hcons, hall⟩ := Proofs.Mmu.storeOk_spec hsok
        have hinb := storeOk_inb hsok
        have hwm := Proofs.Mmu.writeMemory_ok e a.ctx hinb
        obtain ⟨k, hk⟩ := stepTail_store hr hex hret' hrc hmc hwm
        obtain ⟨F0, hcoh, hmemq⟩ := hb.coh
        have hlen0 : a.ctx.Memory.length = F0.length := by rw [hmemq, applyMemQ_length]
        simp only [hmc, if_true] at h
        have hp0 := hall p0.1 (by rw [hchs]; simp)
        rcases Proofs.Mmu.resident_or_not hL hb.dwf p0.1.toInt hp0.1 with hres | hmiss
        · -- the line is resident: the store goes to L1D
          obtain ⟨l, hl, hlb⟩ := hres
          have hresall : ∃ l ∈ s.mmu.l1d.lines, ∀ p ∈ e.MemoryChanges, l.lo = base (L : Nat) p.1.toInt :=
            ⟨l, hl, fun p hp => by rw [hlb]; exact ((hall p.1 (List.mem_map.mpr ⟨p, hp, rfl⟩)).2.2.1).symm⟩
          obtain ⟨u1, hde, _, hd1, hc1, hperm⟩ := Proofs.Mmu.doesExist_hit hL hb.dwf hcoh e (by rw [← hlen0]; exact hsok) hresall
          obtain ⟨l1, hl1, hlb1⟩ : ∃ l ∈ u1.l1d.lines, ∀ p ∈ e.MemoryChanges, l.lo = base (L : Nat) p.1.toInt := by
            obtain ⟨l, hl, hlb⟩ := hresall
            exact ⟨l, hperm.mem_iff.mpr hl, hlb⟩
          obtain ⟨u2, hwr, _, hd2, hc2, hsub2⟩ := Proofs.Mmu.write_cached_ok hL hd1 hc1 e (by rw [← hlen0]; exact hsok) ⟨l1, hl1, hlb1⟩
          simp only [hde, bind, Except.bind, if_true, hwr, pure, Except.pure] at h
          injection h with h
          simp only [Prod.mk.injEq] at h
          obtain ⟨rfl, rfl⟩ := h
          refine ⟨⟨rfl, rfl, rfl, rfl, rfl, rfl, rfl, rfl⟩, _, k, by rw [hstep]; exact hk, ?_, ?_, rfl⟩
          · show nextPc a e = _
            have : e.PcChange = false := hshape.memNoPc hmc
            simp [nextPc, this]
          · show BackRel _ _ _ u2.l1d _ _
            have hcoh' : ∀ F, Coh s.mmu.l1d.lines s.ctx.Memory F → Coh u2.l1d.lines s.ctx.Memory (applyChanges F e.MemoryChanges) := by
              intro F hF
              -- coherence determines the flat memory, so F = F0
              have : F = F0 := coh_unique hF hcoh
              subst this
              exact hc2
            refine hb.cached_store e.MemoryChanges u2.l1d _ hd2 hcoh' ?_ ?_ hb.arat hb.atx rfl rfl
            · intro y' hy'
              obtain ⟨y0, hy0, hlo⟩ := hsub2 y' hy'
              exact ⟨y0, hperm.mem_iff.mp hy0, hlo⟩
            · intro ec hec hs p' hp' p hp hEq
              have h0' := (storeOk_inb (hb.stOk ec hec hs) p' hp').1
              have h0 := (hinb p hp).1
              have hcov : l.covers p'.1.toInt = true := by
                rw [(hb.dwf.lines l hl).covers_iff hL _ h0']
                have : p'.1.toInt = p.1.toInt := by omega
                rw [this]
                rw [hlb]; exact ((hall p.1 (List.mem_map.mpr ⟨p, hp, rfl⟩)).2.2.1).symm
              rw [hb.stUncached ec hec hs p' hp' l hl] at hcov
              cases hcov
        · -- not resident: the store is queued
          have hde := Proofs.Mmu.doesExist_miss (u := s.mmu) e p0 ps hchs hmiss
          simp only [hde, bind, Except.bind, Bool.false_eq_true, if_false, pure, Except.pure] at h
          injection h with h
          have hs2 := congrArg Prod.fst h
          have hout := congrArg Prod.snd h
          simp only at hs2 hout
          have hunc : ∀ p ∈ e.MemoryChanges, ∀ y ∈ s.mmu.l1d.lines, y.covers p.1.toInt = false := by
            intro p hp y hy
            have hpa := hall p.1 (List.mem_map.mpr ⟨p, hp, rfl⟩)
            cases hc : y.covers p.1.toInt with
            | false => rfl
            | true =>
              have h1 := ((hb.dwf.lines y hy).covers_iff hL _ hpa.1).mp hc
              have h2 := ((hb.dwf.lines y hy).covers_iff hL _ hp0.1).mpr (by rw [h1, hpa.2.2.1])
              rw [hmiss y hy] at h2; cases h2
          have hq := euQueue_sim (s := { s with executed := s.executed + 1 }) (a := a) (r := r) (e := e)
            (eu := { s.eu with processing := false, runner := none }) (mmu := s.mmu)
            hb hpc hshape hbu hfree (fun _ _ => ⟨hsok, hunc⟩) hjmp
            ⟨{ a.ctx with Memory := applyChanges a.ctx.Memory e.MemoryChanges }, nextPc a e⟩ rfl hb.arat hb.atx
            (by simp [hrc]) (by simp [hrc, hmc])
          rw [hs2] at hq
          obtain ⟨hbk, hproc, hpend, hmemo, h1, h2, h3, h4, h5, h6, hpcm⟩ := hq
          refine ⟨⟨h1, h2, h3, h4, h5, h6, hpend, hmemo⟩, ?_⟩
          rw [hout] at hpcm
          cases out with
          | none => exact ⟨_, k, by rw [hstep]; exact hk, hpcm, hbk, hproc⟩
          | flush pc => exact ⟨_, k, by rw [hstep]; exact hk, hpcm, hbk, hproc⟩
          | ret => exact hpcm.elim
          | err => exact hpcm.elim
      · -- not a store
        have hmc' : e.MemoryChange = false := by simpa using hmc
        simp only [hmc', Bool.false_eq_true, if_false, pure, Except.pure, bind, Except.bind] at h
        injection h with h
        have hs2 := congrArg Prod.fst h
        have hout := congrArg Prod.snd h
        simp only at hs2 hout
        by_cases hrc : e.RegisterChange = true
        · obtain ⟨k, hk⟩ := stepTail_reg hr hex hret' hrc
          have hq := euQueue_sim (s := { s with executed := s.executed + 1 }) (a := a) (r := r) (e := e)
            (eu := { s.eu with processing := false, runner := none }) (mmu := s.mmu)
            hb hpc hshape hbu hfree (fun hx => by rw [hrc] at hx; cases hx) hjmp
            ⟨writeRegister a.ctx e, nextPc a e⟩ rfl hb.arat hb.atx
            (by simp [hrc, writeRegister]) (by simp [hrc, writeRegister])
          rw [hs2] at hq
          obtain ⟨hbk, hproc, hpend, hmemo, h1, h2, h3, h4, h5, h6, hpcm⟩ := hq
          refine ⟨⟨h1, h2, h3, h4, h5, h6, hpend, hmemo⟩, ?_⟩
          rw [hout] at hpcm
          cases out with
          | none => exact ⟨_, k, by rw [hstep]; exact hk, hpcm, hbk, hproc⟩
          | flush pc => exact ⟨_, k, by rw [hstep]; exact hk, hpcm, hbk, hproc⟩
          | ret => exact hpcm.elim
          | err => exact hpcm.elim
        · have hrc' : e.RegisterChange = false := by simpa using hrc
          obtain ⟨k, hk⟩ := stepTail_plain hr hex hret' hrc' hmc'
          have hq := euQueue_sim (s := { s with executed := s.executed + 1 }) (a := a) (r := r) (e := e)
            (eu := { s.eu with processing := false, runner := none }) (mmu := s.mmu)
            hb hpc hshape hbu hfree (fun _ hx => by rw [hmc'] at hx; cases hx) hjmp
            ⟨a.ctx, nextPc a e⟩ rfl hb.arat hb.atx
            (by simp [hrc']) (by simp [hrc', hmc'])
          rw [hs2] at hq
          obtain ⟨hbk, hproc, hpend, hmemo, h1, h2, h3, h4, h5, h6, hpcm⟩ := hq
          refine ⟨⟨h1, h2, h3, h4, h5, h6, hpend, hmemo⟩, ?_⟩
          rw [hout] at hpcm
          cases out with
          | none => exact ⟨_, k, by rw [hstep]; exact hk, hpcm, hbk, hproc⟩
          | flush pc => exact ⟨_, k, by rw [hstep]; exact hk, hpcm, hbk, hproc⟩
          | ret => exact hpcm.elim
          | err => exact hpcm.elim

/-- the back-end part of `euQueue_sim`, for ANY state of the branch unit (used by MVP-5, whose branch unit
differs): queueing a result relates the machine to the architectural state after the instruction -/
theorem euQueue_back {s : State} {a : Arch} {r : Runner} {e : Gen.Execution} {eu : ExecUnit} {mmu : Model.Mmu.Mmu}
    (hb : BackRel s.ctx s.pwmi s.writeBus.inside mmu.l1d eu.storeID a)
    (hshape : Shape r.instr e) (hfree : s.writeBus.canAdd = true)
    (hst : e.RegisterChange = false → e.MemoryChange = true →
        Model.Mmu.storeOk (L : Nat) a.ctx.Memory.length e.MemoryChanges = true ∧
        ∀ p ∈ e.MemoryChanges, ∀ y ∈ mmu.l1d.lines, y.covers p.1.toInt = false)
    (a' : Arch) (har : a'.ctx.rat = false) (hat : a'.ctx.Transaction.entries = [])
    (hregs : a'.ctx.Registers = (if e.RegisterChange then a.ctx.Registers.set e.Register e.RegisterValue else a.ctx.Registers))
    (hmem : a'.ctx.Memory = (if e.RegisterChange then a.ctx.Memory else
        if e.MemoryChange then applyChanges a.ctx.Memory e.MemoryChanges else a.ctx.Memory)) :
    Back (euQueue s r e eu mmu).1 a' ∧ (euQueue s r e eu mmu).1.eu.processing = eu.processing ∧
    (euQueue s r e eu mmu).1.eu.pendingMemoryRead = eu.pendingMemoryRead ∧
    (euQueue s r e eu mmu).1.eu.memory = eu.memory ∧ (euQueue s r e eu mmu).1.eu.runner = eu.runner ∧
    (euQueue s r e eu mmu).1.fu = s.fu ∧ (euQueue s r e eu mmu).1.decodeBus = s.decodeBus ∧
    (euQueue s r e eu mmu).1.executeBus = s.executeBus ∧ (euQueue s r e eu mmu).1.wu = s.wu ∧
    (euQueue s r e eu mmu).1.mode = s.mode ∧ (euQueue s r e eu mmu).1.cycles = s.cycles ∧
    (euQueue s r e eu mmu).1.mmu = mmu ∧
    (euQueue s r e eu mmu).2 =
      (if e.PcChange = true ∧ s.bu.toCheck = true ∧ s.bu.expectation ≠ e.NextPc then EuOut.flush e.NextPc else EuOut.none) := by
  refine ⟨?_, ?_, ?_, ?_, ?_, rfl, rfl, rfl, rfl, rfl, rfl, ?_, ?_⟩
  · unfold Back euQueue
    simp only
    by_cases hmc : e.MemoryChange = true
    · have hrc : e.RegisterChange = false := by
        cases h : e.RegisterChange with
        | false => rfl
        | true => have := hshape.regNoMem h; rw [hmc] at this; cases this
      obtain ⟨hok, hun⟩ := hst hrc hmc
      simp only [hmc, if_true]
      rw [bus_add_inside _ _ hfree]
      have := hb.push_store
        { sequenceID := eu.storeID + 1, execution := e, instructionType := r.instr.instructionType,
          writeRegisters := r.instr.writeRegisters } a'
        (by simp only [hshape.wregs]) (by simp [isStore, hrc, hmc]) rfl har hat
        (by rw [hregs, hrc]; rfl) (by rw [hmem, hrc, hmc]; rfl) hok hun
      exact this
    · have hmc' : e.MemoryChange = false := by simpa using hmc
      simp only [hmc', Bool.false_eq_true, if_false]
      rw [bus_add_inside _ _ hfree]
      have := hb.push_plain
        { sequenceID := eu.storeID, execution := e, instructionType := r.instr.instructionType,
          writeRegisters := r.instr.writeRegisters } a'
        (by simp only [hshape.wregs]) (by simp [isStore, hmc']) har hat hregs
        (by rw [hmem, hmc']; simp)
      exact this
  · unfold euQueue; simp only; split <;> rfl
  · unfold euQueue; simp only; split <;> rfl
  · unfold euQueue; simp only; split <;> rfl
  · unfold euQueue; simp only; split <;> rfl
  · unfold euQueue; simp only
  · unfold euQueue BranchUnit.shouldFlushPipeline
    simp only
    by_cases hp : e.PcChange = true
    · by_cases ht : s.bu.toCheck = true
      · by_cases hx : s.bu.expectation = e.NextPc
        · simp [hp, ht, hx]
        · simp [hp, ht, hx]
      · have ht' : s.bu.toCheck = false := by simpa using ht
        simp [hp, ht']
    · have hp' : e.PcChange = false := by simpa using hp
      simp [hp']

end Proofs.Mvp4

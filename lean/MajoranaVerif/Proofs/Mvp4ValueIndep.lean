/-
  Proofs/Mvp4ValueIndep.lean — the cycle count of MVP-4 does not depend on operand values (work package VI45).

  Two runs of one program are compared tick by tick.  `Sh s₁ s₂` (shape equality) says that the two machines agree
  on everything that decides what a unit does next — modes, counters and flags of the units, the pcs and instructions
  in the buses, both scoreboards, the resident cache lines and their LRU order, the cycle counter — and may differ in
  register values, memory bytes, cache line data and the values of queued results.  The stages that never look at
  an instruction's semantics (fetch, decode, write unit, drain / flush / final cache flush) preserve `Sh`
  unconditionally (the memory-management unit through the data-erasure lemmas of `Proofs.CycleTraceMvp3`); the
  execute unit preserves it when the two architectural states produce the same timing event (same load addresses,
  same kind of result, same store addresses, same next pc), because its operands are the architectural ones
  (the interlock lemmas of the refinement proof).
-/
import MajoranaVerif.Proofs.Mvp4Cycles
import MajoranaVerif.Proofs.CycleTraceMvp3
import MajoranaVerif.Proofs.CycleTrace
import MajoranaVerif.Proofs.Mvp5Instr
open GoInt Model Model.Mvp4 Model.Seq
open Proofs.CycleTraceMvp3 (eB eU eC eL z g eB_length eB_eq_replicate)

set_option linter.unusedSimpArgs false
set_option linter.unusedVariables false

namespace Proofs.Mvp4

/-! ### shape equality -/

/-- an `Execution` without its values (fields that are not looked at under the flags are normalised) -/
def eX (e : Gen.Execution) : Gen.Execution :=
  { RegisterChange := e.RegisterChange, Register := if e.RegisterChange then e.Register else 0, RegisterValue := 0#32,
    MemoryChange := e.MemoryChange, MemoryChanges := if e.MemoryChange then e.MemoryChanges.map g else [],
    NextPc := 0#32, PcChange := false, Return := e.Return, DirectWrites := [] }

def eEc (c : ExecCtx) : ExecCtx := { c with execution := eX c.execution }

def eBus (b : SimpleBus ExecCtx) : SimpleBus ExecCtx := { pending := b.pending.map eEc, current := b.current.map eEc }

def eEu (eu : ExecUnit) : ExecUnit := { eu with memory := eu.memory.map eB }

/-- **shape equality** of two machine states -/
structure Sh (s1 s2 : State) : Prop where
  fu : s1.fu = s2.fu
  decodeBus : s1.decodeBus = s2.decodeBus
  executeBus : s1.executeBus = s2.executeBus
  eu : eEu s1.eu = eEu s2.eu
  writeBus : eBus s1.writeBus = eBus s2.writeBus
  wu : s1.wu = s2.wu
  mmu : eU s1.mmu = eU s2.mmu
  cycles : s1.cycles = s2.cycles
  mode : s1.mode = s2.mode
  executed : s1.executed = s2.executed
  pwmi : s1.pwmi = s2.pwmi
  pwr : s1.ctx.PendingWriteRegisters = s2.ctx.PendingWriteRegisters
  memLen : s1.ctx.Memory.length = s2.ctx.Memory.length

/-- two results of a stage: both fail the same way, or both succeed with shape-equal states -/
def ShM : M State → M State → Prop
  | .ok a, .ok b => Sh a b
  | .error e, .error e' => e = e'
  | _, _ => False

theorem eB_of_len {m1 m2 : List Byte} (h : m1.length = m2.length) : eB m1 = eB m2 := by
  rw [eB_eq_replicate, eB_eq_replicate, h]

theorem map_eq_cases {α β : Type} {f : α → β} {x y : M α} (h : Except.map f x = Except.map f y) :
    (∃ a b, x = .ok a ∧ y = .ok b ∧ f a = f b) ∨ (∃ e, x = .error e ∧ y = .error e) := by
  cases x with
  | error e =>
    cases y with
    | error e' => simp only [Except.map] at h; injection h with h; exact Or.inr ⟨e, rfl, by rw [h]⟩
    | ok b => simp [Except.map] at h
  | ok a =>
    cases y with
    | error e' => simp [Except.map] at h
    | ok b => simp only [Except.map] at h; injection h with h; exact Or.inl ⟨a, b, rfl, rfl, h⟩

/-! ### fetch -/

theorem getFromL1I_eU (u : Model.Mmu.Mmu) (addrs : List Word) :
    Model.Mmu.getFromL1I (eU u) addrs = Except.map (fun r => (r.1.map eB, eU r.2)) (Model.Mmu.getFromL1I u addrs) := by
  unfold Model.Mmu.getFromL1I
  have h1 : (eU u).l1i = eC u.l1i := rfl
  rw [h1, Proofs.CycleTraceMvp3.getAll_eC]
  cases Model.Mmu.getAll u.l1i addrs with
  | error f => rfl
  | ok p => rfl

theorem fetchStart_eU (fu : FetchUnit) (u : Model.Mmu.Mmu) :
    fetchStart fu (eU u) = Except.map (fun r => (r.1, eU r.2)) (fetchStart fu u) := by
  unfold fetchStart
  split
  · rw [getFromL1I_eU]
    cases Model.Mmu.getFromL1I u [fu.pc] with
    | error f => rfl
    | ok p =>
      obtain ⟨r, u1⟩ := p
      simp only [Except.map, bind, Except.bind]
      cases r with
      | some b => rfl
      | none =>
        simp only [Option.map_none]
        split
        · rfl
        · simp only [pure, Except.pure, Model.Mmu.pushLineToL1I]
          have hp := Proofs.CycleTraceMvp3.pushLine_eC u1.l1i fu.pc.toInt (List.replicate cfg.l1ILineSize.toNat 0#8)
          rw [Proofs.CycleTraceMvp3.eB_replicate] at hp
          have h1 : (eU u1).l1i = eC u1.l1i := rfl
          rw [h1, hp, Proofs.CycleTraceMvp3.fixHead_eC]
          rfl
  · rfl

theorem fetchCore_eU (app : App) (fu : FetchUnit) (u : Model.Mmu.Mmu) (bus : SimpleBus Word) :
    fetchCore app fu (eU u) bus = Except.map (fun r => (r.1, eU r.2.1, r.2.2)) (fetchCore app fu u bus) := by
  unfold fetchCore
  split
  · rfl
  · split
    · rfl
    · rw [fetchStart_eU]
      cases fetchStart fu u with
      | error f => rfl
      | ok p =>
        obtain ⟨fu1, u1⟩ := p
        simp only [Except.map, bind, Except.bind]
        split
        · split <;> rfl
        · rfl

theorem fetchCycle_sh {app : App} {s1 s2 : State} (h : Sh s1 s2) : ShM (fetchCycle app s1) (fetchCycle app s2) := by
  have e1 : Except.map (fun r => (r.1, eU r.2.1, r.2.2)) (fetchCore app s1.fu s1.mmu s1.decodeBus) =
      Except.map (fun r => (r.1, eU r.2.1, r.2.2)) (fetchCore app s2.fu s2.mmu s2.decodeBus) := by
    rw [← fetchCore_eU, ← fetchCore_eU, h.fu, h.decodeBus, h.mmu]
  unfold fetchCycle
  rcases map_eq_cases e1 with ⟨a, b, ha, hb, hab⟩ | ⟨e, ha, hb⟩
  · obtain ⟨fa, ua, ba⟩ := a
    obtain ⟨fb, ub, bb⟩ := b
    simp only [Prod.mk.injEq] at hab
    simp only [ha, hb, bind, Except.bind, pure, Except.pure]
    exact { fu := hab.1, decodeBus := hab.2.2, executeBus := h.executeBus, eu := h.eu, writeBus := h.writeBus, wu := h.wu,
            mmu := hab.2.1, cycles := h.cycles, mode := h.mode, executed := h.executed, pwmi := h.pwmi, pwr := h.pwr,
            memLen := h.memLen }
  · simp only [ha, hb, bind, Except.bind]
    rfl

/-! ### decode -/

theorem decodeCycle_sh {app : App} {s1 s2 : State} (h : Sh s1 s2) : ShM (decodeCycle app s1) (decodeCycle app s2) := by
  unfold decodeCycle
  rw [h.decodeBus, h.executeBus]
  cases decodeCore app s2.decodeBus s2.executeBus with
  | error f => rfl
  | ok p =>
    obtain ⟨d, e⟩ := p
    simp only [bind, Except.bind, pure, Except.pure]
    exact { fu := h.fu, decodeBus := rfl, executeBus := rfl, eu := h.eu, writeBus := h.writeBus, wu := h.wu,
            mmu := h.mmu, cycles := h.cycles, mode := h.mode, executed := h.executed, pwmi := h.pwmi, pwr := h.pwr,
            memLen := h.memLen }


/-! ### the write unit -/

theorem eX_inj {e1 e2 : Gen.Execution} (h : eX e1 = eX e2) :
    e1.RegisterChange = e2.RegisterChange ∧ e1.MemoryChange = e2.MemoryChange ∧
    (e2.MemoryChange = true → e1.MemoryChanges.map g = e2.MemoryChanges.map g) ∧ e1.Return = e2.Return := by
  unfold eX at h
  injection h with h1 h2 h3 h4 h5 h6 h7 h8 h9
  refine ⟨h1, h4, fun hm => ?_, h8⟩
  rw [h4, hm] at h5
  simpa using h5

theorem map_g_fst {c1 c2 : List (Word × Byte)} (h : c1.map g = c2.map g) : c1.map (·.1) = c2.map (·.1) := by
  have := congrArg (List.map (fun p : Word × Byte => p.1)) h
  rw [List.map_map, List.map_map] at this
  exact this

theorem releaseAll_fst (p : List (Int × Int)) (id : Int) : ∀ (c1 c2 : List (Word × Byte)) (rel : List Int),
    c1.map (·.1) = c2.map (·.1) → releaseAll p id c1 rel = releaseAll p id c2 rel := by
  intro c1
  induction c1 generalizing p with
  | nil =>
    intro c2 rel h
    cases c2 with
    | nil => rfl
    | cons q qs => cases h
  | cons q qs ih =>
    intro c2 rel h
    cases c2 with
    | nil => cases h
    | cons q' qs' =>
      simp only [List.map_cons, List.cons.injEq] at h
      obtain ⟨a, b⟩ := q
      obtain ⟨a', b'⟩ := q'
      have ha : a = a' := h.1
      subst ha
      unfold releaseAll
      simp only
      split
      · exact ih p qs' rel h.2
      · cases deletePwmi p (lineOf a) id with
        | error f => rfl
        | ok p' =>
          simp only [bind, Except.bind]
          exact ih p' qs' _ h.2

theorem writeMemory_sh : ∀ (c1 c2 : List (Word × Byte)) (x1 x2 : Model.Context),
    c1.map (·.1) = c2.map (·.1) → x1.Memory.length = x2.Memory.length →
    x1.PendingWriteRegisters = x2.PendingWriteRegisters →
    match c1.foldlM (init := x1) (fun c (p : Word × Byte) =>
            if p.1.toInt < 0 ∨ c.Memory.length ≤ p.1.toInt.toNat then none
            else some { c with Memory := c.Memory.set p.1.toInt.toNat p.2 }),
          c2.foldlM (init := x2) (fun c (p : Word × Byte) =>
            if p.1.toInt < 0 ∨ c.Memory.length ≤ p.1.toInt.toNat then none
            else some { c with Memory := c.Memory.set p.1.toInt.toNat p.2 }) with
    | some y1, some y2 => y1.Memory.length = y2.Memory.length ∧ y1.PendingWriteRegisters = y2.PendingWriteRegisters
    | none, none => True
    | _, _ => False := by
  intro c1
  induction c1 with
  | nil =>
    intro c2 x1 x2 h hl hp
    cases c2 with
    | nil => exact ⟨hl, hp⟩
    | cons q qs => cases h
  | cons q qs ih =>
    intro c2 x1 x2 h hl hp
    cases c2 with
    | nil => cases h
    | cons q' qs' =>
      simp only [List.map_cons, List.cons.injEq] at h
      simp only [List.foldlM_cons]
      rw [← h.1, ← hl]
      by_cases hb : q.1.toInt < 0 ∨ x1.Memory.length ≤ q.1.toInt.toNat
      · simp only [hb, if_true]; trivial
      · simp only [hb, if_false]
        exact ih qs' _ _ h.2 (by simp [hl]) hp

theorem writeCore_sh {ctx1 ctx2 : Model.Context} {pwmi : List (Int × Int)} {bus1 bus2 : SimpleBus ExecCtx} {wu : WriteUnit}
    (hpwr : ctx1.PendingWriteRegisters = ctx2.PendingWriteRegisters) (hlen : ctx1.Memory.length = ctx2.Memory.length)
    (hbus : eBus bus1 = eBus bus2) :
    match writeCore ctx1 pwmi bus1 wu, writeCore ctx2 pwmi bus2 wu with
    | .ok (c1, p1, b1, w1), .ok (c2, p2, b2, w2) =>
        c1.PendingWriteRegisters = c2.PendingWriteRegisters ∧ c1.Memory.length = c2.Memory.length ∧ p1 = p2 ∧
        eBus b1 = eBus b2 ∧ w1 = w2
    | .error e, .error e' => e = e'
    | _, _ => False := by
  unfold eBus at hbus
  injection hbus with hpend hcur
  unfold writeCore
  by_cases hp : wu.pendingMemoryWrite = true
  · simp only [hp, if_true, pure, Except.pure]
    exact ⟨hpwr, hlen, (by first | rfl | trivial), by unfold eBus; rw [hpend, hcur], (by first | rfl | trivial)⟩
  · simp only [hp, Bool.false_eq_true, if_false, SimpleBus.get]
    have hnext : eBus ({ pending := none, current := bus1.pending } : SimpleBus ExecCtx) =
        eBus { pending := none, current := bus2.pending } := by unfold eBus; simp only [Option.map_none, hpend]
    cases h1 : bus1.current with
    | none =>
      cases h2 : bus2.current with
      | some v => rw [h1, h2] at hcur; cases hcur
      | none =>
        simp only [pure, Except.pure]
        exact ⟨hpwr, hlen, (by first | rfl | trivial), hnext, (by first | rfl | trivial)⟩
    | some ec1 =>
      cases h2 : bus2.current with
      | none => rw [h1, h2] at hcur; cases hcur
      | some ec2 =>
        rw [h1, h2] at hcur
        simp only [Option.map_some, Option.some.injEq] at hcur
        unfold eEc at hcur
        injection hcur with hsid hex hty hwr
        obtain ⟨x1, x3, x4, x5⟩ := eX_inj hex
        simp only
        rw [x1, x3]
        by_cases hrc : ec2.execution.RegisterChange = true
        · simp only [hrc, if_true, pure, Except.pure]
          refine ⟨?_, hlen, (by first | rfl | trivial), hnext, (by first | rfl | trivial)⟩
          show deletePendingWriteRegisters ctx1.PendingWriteRegisters ec1.writeRegisters =
            deletePendingWriteRegisters ctx2.PendingWriteRegisters ec2.writeRegisters
          rw [hpwr, hwr]
        · simp only [hrc, Bool.false_eq_true, if_false]
          by_cases hmc : ec2.execution.MemoryChange = true
          · simp only [hmc, if_true]
            have hfst := map_g_fst (x4 hmc)
            have hw := writeMemory_sh ec1.execution.MemoryChanges ec2.execution.MemoryChanges ctx1 ctx2 hfst hlen hpwr
            unfold Model.Seq.writeMemory
            revert hw
            cases List.foldlM (fun c (p : Word × Byte) =>
                if p.1.toInt < 0 ∨ c.Memory.length ≤ p.1.toInt.toNat then none
                else some { c with Memory := c.Memory.set p.1.toInt.toNat p.2 }) ctx1 ec1.execution.MemoryChanges with
            | none =>
              cases List.foldlM (fun c (p : Word × Byte) =>
                  if p.1.toInt < 0 ∨ c.Memory.length ≤ p.1.toInt.toNat then none
                  else some { c with Memory := c.Memory.set p.1.toInt.toNat p.2 }) ctx2 ec2.execution.MemoryChanges with
              | none => intro _; rfl
              | some y2 => intro hw; exact hw.elim
            | some y1 =>
              cases List.foldlM (fun c (p : Word × Byte) =>
                  if p.1.toInt < 0 ∨ c.Memory.length ≤ p.1.toInt.toNat then none
                  else some { c with Memory := c.Memory.set p.1.toInt.toNat p.2 }) ctx2 ec2.execution.MemoryChanges with
              | none => intro hw; exact hw.elim
              | some y2 =>
                intro hw
                simp only
                rw [hsid, releaseAll_fst pwmi ec2.sequenceID _ _ [] hfst]
                cases releaseAll pwmi ec2.sequenceID ec2.execution.MemoryChanges [] with
                | error f => rfl
                | ok p' =>
                  simp only [bind, Except.bind, pure, Except.pure]
                  exact ⟨hw.2, hw.1, (by first | rfl | trivial), hnext, (by first | rfl | trivial)⟩
          · simp only [hmc, Bool.false_eq_true, if_false, pure, Except.pure]
            exact ⟨hpwr, hlen, (by first | rfl | trivial), hnext, (by first | rfl | trivial)⟩

theorem writeCycle_sh {s1 s2 : State} (h : Sh s1 s2) : ShM (writeCycle s1) (writeCycle s2) := by
  have hw := writeCore_sh (pwmi := s2.pwmi) (wu := s2.wu) h.pwr h.memLen h.writeBus
  unfold writeCycle
  rw [h.pwmi, h.wu]
  revert hw
  cases writeCore s1.ctx s2.pwmi s1.writeBus s2.wu with
  | error f =>
    cases writeCore s2.ctx s2.pwmi s2.writeBus s2.wu with
    | error f' => intro hw; simp only [bind, Except.bind]; exact hw
    | ok r => intro hw; exact hw.elim
  | ok r =>
    cases writeCore s2.ctx s2.pwmi s2.writeBus s2.wu with
    | error f' => intro hw; exact hw.elim
    | ok r' =>
      obtain ⟨c1, p1, b1, w1⟩ := r
      obtain ⟨c2, p2, b2, w2⟩ := r'
      intro hw
      simp only [bind, Except.bind, pure, Except.pure]
      exact { fu := h.fu, decodeBus := h.decodeBus, executeBus := h.executeBus, eu := h.eu, writeBus := hw.2.2.2.1,
              wu := hw.2.2.2.2, mmu := h.mmu, cycles := h.cycles, mode := h.mode, executed := h.executed,
              pwmi := hw.2.2.1, pwr := hw.1, memLen := hw.2.1 }


/-! ### drain, flush, the end of the run -/

/-- two results of a tick -/
def ShP : M (State × Event) → M (State × Event) → Prop
  | .ok (a, e), .ok (b, e') => Sh a b ∧ e = e'
  | .error e, .error e' => e = e'
  | _, _ => False

theorem eBus_isEmpty {b1 b2 : SimpleBus ExecCtx} (h : eBus b1 = eBus b2) : b1.isEmpty = b2.isEmpty := by
  unfold eBus at h
  injection h with hp hc
  unfold SimpleBus.isEmpty
  have e1 : b1.pending.isNone = b2.pending.isNone := by
    have := congrArg Option.isNone hp; simpa using this
  have e2 : b1.current.isNone = b2.current.isNone := by
    have := congrArg Option.isNone hc; simpa using this
  rw [e1, e2]

theorem eBus_canAdd {b1 b2 : SimpleBus ExecCtx} (h : eBus b1 = eBus b2) : b1.canAdd = b2.canAdd := by
  unfold eBus at h
  injection h with hp hc
  unfold SimpleBus.canAdd
  have := congrArg Option.isNone hp; simpa using this

theorem eEu_fields {e1 e2 : ExecUnit} (h : eEu e1 = eEu e2) :
    e1.processing = e2.processing ∧ e1.pendingMemoryRead = e2.pendingMemoryRead ∧ e1.addrs = e2.addrs ∧
    e1.memory.map eB = e2.memory.map eB ∧ e1.remainingCycles = e2.remainingCycles ∧ e1.runner = e2.runner ∧
    e1.storeID = e2.storeID := by
  unfold eEu at h
  injection h with h1 h2 h3 h4 h5 h6 h7
  exact ⟨h1, h2, h3, h4, h5, h6, h7⟩

theorem drainCond_sh {s1 s2 : State} (h : Sh s1 s2) : drainCond s1 = drainCond s2 := by
  unfold drainCond; rw [h.wu, eBus_isEmpty h.writeBus]

theorem isComplete_sh {s1 s2 : State} (h : Sh s1 s2) : isComplete s1 = isComplete s2 := by
  unfold isComplete
  rw [h.fu, (eEu_fields h.eu).1, h.wu, h.decodeBus, h.executeBus, eBus_isEmpty h.writeBus]

theorem Sh.with_mode {s1 s2 : State} (h : Sh s1 s2) (m : Mode) : Sh { s1 with mode := m } { s2 with mode := m } :=
  { fu := h.fu, decodeBus := h.decodeBus, executeBus := h.executeBus, eu := h.eu, writeBus := h.writeBus, wu := h.wu,
    mmu := h.mmu, cycles := h.cycles, mode := rfl, executed := h.executed, pwmi := h.pwmi, pwr := h.pwr,
    memLen := h.memLen }

theorem Sh.with_cycles {s1 s2 : State} (h : Sh s1 s2) (m : Mode) :
    Sh { s1 with cycles := s1.cycles + 1, mode := m } { s2 with cycles := s2.cycles + 1, mode := m } :=
  { fu := h.fu, decodeBus := h.decodeBus, executeBus := h.executeBus, eu := h.eu, writeBus := h.writeBus, wu := h.wu,
    mmu := h.mmu, cycles := (by show s1.cycles + 1 = s2.cycles + 1; rw [h.cycles]), mode := rfl, executed := h.executed,
    pwmi := h.pwmi, pwr := h.pwr, memLen := h.memLen }

theorem flushAll_sh {s1 s2 : State} (h : Sh s1 s2) (pc : Word) : Sh (flushAll s1 pc) (flushAll s2 pc) :=
  { fu := (by show s1.fu.flush pc = s2.fu.flush pc; rw [h.fu]),
    decodeBus := (by show s1.decodeBus.flush = s2.decodeBus.flush; rfl),
    executeBus := (by show s1.executeBus.flush = s2.executeBus.flush; rfl), eu := h.eu,
    writeBus := (by show eBus s1.writeBus.flush = eBus s2.writeBus.flush; rfl), wu := h.wu, mmu := h.mmu,
    cycles := h.cycles, mode := h.mode, executed := h.executed, pwmi := rfl, pwr := rfl, memLen := h.memLen }

theorem finish_sh {s1 s2 : State} (h : Sh s1 s2) (hk : Halt) : ShP (finish s1 hk) (finish s2 hk) := by
  have e1 : Except.map (fun r : List Byte × Int => (eB r.1, r.2)) (Model.Mmu.flush cfg s1.mmu s1.ctx.Memory) =
      Except.map (fun r : List Byte × Int => (eB r.1, r.2)) (Model.Mmu.flush cfg s2.mmu s2.ctx.Memory) := by
    rw [← Proofs.CycleTraceMvp3.flush_e, ← Proofs.CycleTraceMvp3.flush_e, h.mmu, eB_of_len h.memLen]
  unfold finish
  rcases map_eq_cases e1 with ⟨a, b, ha, hb, hab⟩ | ⟨e, ha, hb⟩
  · obtain ⟨m1, x1⟩ := a
    obtain ⟨m2, x2⟩ := b
    simp only [Prod.mk.injEq] at hab
    simp only [ha, hb, bind, Except.bind, pure, Except.pure]
    refine ⟨{ fu := h.fu, decodeBus := h.decodeBus, executeBus := h.executeBus, eu := h.eu, writeBus := h.writeBus,
              wu := h.wu, mmu := h.mmu, cycles := (by show s1.cycles + x1 = s2.cycles + x2; rw [h.cycles, hab.2]),
              mode := rfl, executed := h.executed, pwmi := h.pwmi, pwr := h.pwr,
              memLen := (by
                show m1.length = m2.length
                have := congrArg List.length hab.1
                rw [eB_length, eB_length] at this; exact this) }, rfl⟩
  · simp only [ha, hb, bind, Except.bind]
    rfl

theorem afterExecute_sh {s1 s2 : State} (h : Sh s1 s2) (out : EuOut) : ShP (afterExecute s1 out) (afterExecute s2 out) := by
  unfold afterExecute
  cases out with
  | err => exact ⟨h, rfl⟩
  | none =>
    have hw := writeCycle_sh h
    revert hw
    cases writeCycle s1 with
    | error f =>
      cases writeCycle s2 with
      | error f' => intro hw; exact hw
      | ok b => intro hw; exact hw.elim
    | ok a =>
      cases writeCycle s2 with
      | error f' => intro hw; exact hw.elim
      | ok b =>
        intro hw
        have hw' : Sh a b := hw
        simp only [bind, Except.bind]
        rw [isComplete_sh hw']
        split
        · exact finish_sh hw' .offEnd
        · exact ⟨hw', rfl⟩
  | ret =>
    have hw := writeCycle_sh h
    revert hw
    cases writeCycle s1 with
    | error f =>
      cases writeCycle s2 with
      | error f' => intro hw; exact hw
      | ok b => intro hw; exact hw.elim
    | ok a =>
      cases writeCycle s2 with
      | error f' => intro hw; exact hw.elim
      | ok b =>
        intro hw
        have hw' : Sh a b := hw
        simp only [bind, Except.bind]
        rw [drainCond_sh hw']
        split
        · exact ⟨hw'.with_mode _, rfl⟩
        · exact finish_sh hw' .ret
  | flush pc =>
    have hw := writeCycle_sh h
    revert hw
    cases writeCycle s1 with
    | error f =>
      cases writeCycle s2 with
      | error f' => intro hw; exact hw
      | ok b => intro hw; exact hw.elim
    | ok a =>
      cases writeCycle s2 with
      | error f' => intro hw; exact hw.elim
      | ok b =>
        intro hw
        have hw' : Sh a b := hw
        simp only [bind, Except.bind]
        rw [drainCond_sh hw']
        split
        · exact ⟨hw'.with_mode _, rfl⟩
        · exact ⟨flushAll_sh hw' pc, rfl⟩


/-! ### the execute unit: what does not look at the instruction's semantics -/

/-- two results of the execute unit -/
def ShE : M (State × EuOut) → M (State × EuOut) → Prop
  | .ok (a, o), .ok (b, o') => Sh a b ∧ o = o'
  | .error e, .error e' => e = e'
  | _, _ => False

/-- what `euQueue` returns besides the state -/
def outQ (bu : BranchUnit) (e : Gen.Execution) : EuOut :=
  if (if e.PcChange then bu.shouldFlushPipeline e.NextPc else (false, bu)).1 then .flush e.NextPc else .none

/-- the results of `Run` on the two sides, as far as the pipeline's control is concerned -/
def ResOk (bu1 bu2 : BranchUnit) : Except Fault Gen.Execution → Except Fault Gen.Execution → Prop
  | .error (.err _), .error (.err _) => True
  | .error (.panic w), .error (.panic w') => w = w'
  | .ok e1, .ok e2 => e1.Return = e2.Return ∧ (e2.Return = false → eX e1 = eX e2 ∧ outQ bu1 e1 = outQ bu2 e2)
  | _, _ => False

theorem addPwmiAll_fst (id : Int) : ∀ (c1 c2 : List (Word × Byte)) (p : List (Int × Int)),
    c1.map (·.1) = c2.map (·.1) → addPwmiAll p id c1 = addPwmiAll p id c2 := by
  intro c1
  induction c1 with
  | nil => intro c2 p h; cases c2 with | nil => rfl | cons q qs => cases h
  | cons q qs ih =>
    intro c2 p h
    cases c2 with
    | nil => cases h
    | cons q' qs' =>
      simp only [List.map_cons, List.cons.injEq] at h
      obtain ⟨a, b⟩ := q
      obtain ⟨a', b'⟩ := q'
      have ha : a = a' := h.1
      subst ha
      unfold addPwmiAll
      exact ih qs' _ h.2

theorem eBus_add {b1 b2 : SimpleBus ExecCtx} (h : eBus b1 = eBus b2) {x1 x2 : ExecCtx} (hx : eEc x1 = eEc x2) :
    eBus (b1.add x1) = eBus (b2.add x2) := by
  unfold eBus at h ⊢
  injection h with hp hc
  unfold SimpleBus.add
  simp only [Option.map_some, hx, hc]

theorem euQueue_sh {s1 s2 : State} (h : Sh s1 s2) (r : Runner) {e1 e2 : Gen.Execution} (he : eX e1 = eX e2)
    (ho : outQ s1.bu e1 = outQ s2.bu e2) {eu1 eu2 : ExecUnit} (heu : eEu eu1 = eEu eu2)
    {u1 u2 : Model.Mmu.Mmu} (hu : eU u1 = eU u2) :
    Sh (euQueue s1 r e1 eu1 u1).1 (euQueue s2 r e2 eu2 u2).1 ∧ (euQueue s1 r e1 eu1 u1).2 = (euQueue s2 r e2 eu2 u2).2 := by
  obtain ⟨x1, x3, x4, x5⟩ := eX_inj he
  obtain ⟨g1, g2, g3, g4, g5, g6, g7⟩ := eEu_fields heu
  unfold euQueue
  simp only
  constructor
  · by_cases hm : e2.MemoryChange = true
    · have hfst := map_g_fst (x4 hm)
      simp only [x3, hm, if_true]
      exact { fu := h.fu, decodeBus := h.decodeBus, executeBus := h.executeBus,
              eu := (by unfold eEu; simp only [g1, g2, g3, g4, g5, g6, g7]),
              writeBus := eBus_add h.writeBus (by unfold eEc; simp only [he, g7]), wu := h.wu, mmu := hu,
              cycles := h.cycles, mode := h.mode, executed := h.executed,
              pwmi := (by
                show addPwmiAll s1.pwmi (eu1.storeID + 1) e1.MemoryChanges = addPwmiAll s2.pwmi (eu2.storeID + 1) e2.MemoryChanges
                rw [h.pwmi, g7]; exact addPwmiAll_fst _ _ _ _ hfst),
              pwr := (by
                show addPendingWriteRegisters s1.ctx.PendingWriteRegisters _ = addPendingWriteRegisters s2.ctx.PendingWriteRegisters _
                rw [h.pwr]),
              memLen := h.memLen }
    · have hm' : e2.MemoryChange = false := by simpa using hm
      simp only [x3, hm', Bool.false_eq_true, if_false]
      exact { fu := h.fu, decodeBus := h.decodeBus, executeBus := h.executeBus, eu := heu,
              writeBus := eBus_add h.writeBus (by unfold eEc; simp only [he, g7]), wu := h.wu, mmu := hu,
              cycles := h.cycles, mode := h.mode, executed := h.executed, pwmi := h.pwmi,
              pwr := (by
                show addPendingWriteRegisters s1.ctx.PendingWriteRegisters _ = addPendingWriteRegisters s2.ctx.PendingWriteRegisters _
                rw [h.pwr]),
              memLen := h.memLen }
  · have := ho
    unfold outQ at this
    exact this


theorem eX_changes {e : Gen.Execution} (hm : e.MemoryChange = true) : (eX e).MemoryChanges = e.MemoryChanges.map g := by
  unfold eX; simp only [hm, if_true]

theorem doesExist_sh {u1 u2 : Model.Mmu.Mmu} (hu : eU u1 = eU u2) {e1 e2 : Gen.Execution} (he : eX e1 = eX e2)
    (hm1 : e1.MemoryChange = true) (hm2 : e2.MemoryChange = true) :
    Except.map (fun r : Bool × Model.Mmu.Mmu => (r.1, eU r.2)) (Model.Mmu.doesExecutionMemoryChangesExistsInL1D u1 e1) =
    Except.map (fun r : Bool × Model.Mmu.Mmu => (r.1, eU r.2)) (Model.Mmu.doesExecutionMemoryChangesExistsInL1D u2 e2) := by
  rw [← Proofs.CycleTraceMvp3.doesExist_eU u1 e1 (eX e1) (eX_changes hm1),
      ← Proofs.CycleTraceMvp3.doesExist_eU u2 e2 (eX e2) (eX_changes hm2), hu, he]

theorem writeExec_sh {u1 u2 : Model.Mmu.Mmu} (hu : eU u1 = eU u2) {e1 e2 : Gen.Execution} (he : eX e1 = eX e2)
    (hm1 : e1.MemoryChange = true) (hm2 : e2.MemoryChange = true) :
    Except.map eU (Model.Mmu.writeExecutionMemoryChangesToL1D u1 e1) =
    Except.map eU (Model.Mmu.writeExecutionMemoryChangesToL1D u2 e2) := by
  rw [← Proofs.CycleTraceMvp3.writeExec_eU u1 e1 (eX e1) (eX_changes hm1),
      ← Proofs.CycleTraceMvp3.writeExec_eU u2 e2 (eX e2) (eX_changes hm2), hu, he]

theorem Sh.bump {s1 s2 : State} (h : Sh s1 s2) :
    Sh { s1 with executed := s1.executed + 1 } { s2 with executed := s2.executed + 1 } :=
  { fu := h.fu, decodeBus := h.decodeBus, executeBus := h.executeBus, eu := h.eu, writeBus := h.writeBus, wu := h.wu,
    mmu := h.mmu, cycles := h.cycles, mode := h.mode, executed := (by show s1.executed + 1 = s2.executed + 1; rw [h.executed]),
    pwmi := h.pwmi, pwr := h.pwr, memLen := h.memLen }

theorem Sh.with_eu_mmu {s1 s2 : State} (h : Sh s1 s2) {eu1 eu2 : ExecUnit} (heu : eEu eu1 = eEu eu2)
    {u1 u2 : Model.Mmu.Mmu} (hu : eU u1 = eU u2) : Sh { s1 with eu := eu1, mmu := u1 } { s2 with eu := eu2, mmu := u2 } :=
  { fu := h.fu, decodeBus := h.decodeBus, executeBus := h.executeBus, eu := heu, writeBus := h.writeBus, wu := h.wu,
    mmu := hu, cycles := h.cycles, mode := h.mode, executed := h.executed, pwmi := h.pwmi, pwr := h.pwr, memLen := h.memLen }

theorem Sh.with_eu {s1 s2 : State} (h : Sh s1 s2) {eu1 eu2 : ExecUnit} (heu : eEu eu1 = eEu eu2) :
    Sh { s1 with eu := eu1 } { s2 with eu := eu2 } := h.with_eu_mmu heu h.mmu

theorem eEu_upd {e1 e2 : ExecUnit} (h : eEu e1 = eEu e2) (f : ExecUnit → ExecUnit)
    (hf : ∀ e, eEu (f e) = f (eEu e)) : eEu (f e1) = eEu (f e2) := by rw [hf, hf, h]

theorem euRun_sh {app : App} {s1 s2 : State} (h : Sh s1 s2) (r : Runner) (m1 m2 : List Byte)
    (hres : ResOk s1.bu s2.bu (r.instr.run s1.ctx app.labels r.pc m1 0#32) (r.instr.run s2.ctx app.labels r.pc m2 0#32)) :
    ShE (euRun app s1 r m1) (euRun app s2 r m2) := by
  obtain ⟨g1, g2, g3, g4, g5, g6, g7⟩ := eEu_fields h.eu
  have heuR : eEu { s1.eu with runner := none } = eEu { s2.eu with runner := none } := by
    unfold eEu; simp only [g1, g2, g3, g4, g5, g7]
  have heuP : eEu { s1.eu with processing := false, runner := none } = eEu { s2.eu with processing := false, runner := none } := by
    unfold eEu; simp only [g2, g3, g4, g5, g7]
  unfold euRun
  simp only
  generalize r.instr.run s1.ctx app.labels r.pc m1 0#32 = res1 at hres ⊢
  generalize r.instr.run s2.ctx app.labels r.pc m2 0#32 = res2 at hres ⊢
  cases res1 with
  | error f1 =>
    cases res2 with
    | ok e2 => cases f1 <;> exact hres.elim
    | error f2 =>
      cases f1 with
      | panic w =>
        cases f2 with
        | panic w' => have : w = w' := hres; subst this; rfl
        | err _ => exact hres.elim
      | err m =>
        cases f2 with
        | panic w' => exact hres.elim
        | err m' => exact ⟨h.bump.with_eu heuR, rfl⟩
  | ok e1 =>
    cases res2 with
    | error f2 => exact hres.elim
    | ok e2 =>
      obtain ⟨hret, hrest⟩ : e1.Return = e2.Return ∧ (e2.Return = false → eX e1 = eX e2 ∧ outQ s1.bu e1 = outQ s2.bu e2) := hres
      simp only
      rw [hret]
      by_cases hr : e2.Return = true
      · simp only [hr, if_true, pure, Except.pure]
        exact ⟨h.bump.with_eu heuR, rfl⟩
      · have hr' : e2.Return = false := by simpa using hr
        obtain ⟨he, ho⟩ := hrest hr'
        obtain ⟨x1, x3, x4, x5⟩ := eX_inj he
        simp only [hr', Bool.false_eq_true, if_false]
        rw [x3]
        by_cases hm : e2.MemoryChange = true
        · have hm1 : e1.MemoryChange = true := by rw [x3]; exact hm
          simp only [hm, if_true]
          rcases map_eq_cases (doesExist_sh h.mmu he hm1 hm) with ⟨a, b, ha, hb, hab⟩ | ⟨e, ha, hb⟩
          · obtain ⟨in1, v1⟩ := a
            obtain ⟨in2, v2⟩ := b
            simp only [Prod.mk.injEq] at hab
            have ha' : Model.Mmu.doesExecutionMemoryChangesExistsInL1D { s1 with executed := s1.executed + 1 }.mmu e1 = .ok (in1, v1) := ha
            have hb' : Model.Mmu.doesExecutionMemoryChangesExistsInL1D { s2 with executed := s2.executed + 1 }.mmu e2 = .ok (in2, v2) := hb
            simp only [ha', hb', bind, Except.bind]
            rw [hab.1]
            by_cases hin : in2 = true
            · simp only [hin, if_true]
              rcases map_eq_cases (writeExec_sh hab.2 he hm1 hm) with ⟨a, b, ha2, hb2, hab2⟩ | ⟨e, ha2, hb2⟩
              · simp only [ha2, hb2, pure, Except.pure]
                exact ⟨h.bump.with_eu_mmu heuP hab2, rfl⟩
              · simp only [ha2, hb2]; rfl
            · simp only [hin, Bool.false_eq_true, if_false, pure, Except.pure]
              exact euQueue_sh h.bump r he ho heuP hab.2
          · have ha' : Model.Mmu.doesExecutionMemoryChangesExistsInL1D { s1 with executed := s1.executed + 1 }.mmu e1 = .error e := ha
            have hb' : Model.Mmu.doesExecutionMemoryChangesExistsInL1D { s2 with executed := s2.executed + 1 }.mmu e2 = .error e := hb
            simp only [ha', hb', bind, Except.bind]; rfl
        · have hm' : e2.MemoryChange = false := by simpa using hm
          simp only [hm', Bool.false_eq_true, if_false, pure, Except.pure, bind, Except.bind]
          exact euQueue_sh h.bump r he ho heuP h.mmu


theorem getFromL1D_sh {u1 u2 : Model.Mmu.Mmu} (hu : eU u1 = eU u2) (addrs : List Word) :
    Except.map (fun r : Option (List Byte) × Model.Mmu.Mmu => (r.1.map eB, eU r.2)) (Model.Mmu.getFromL1D u1 addrs) =
    Except.map (fun r : Option (List Byte) × Model.Mmu.Mmu => (r.1.map eB, eU r.2)) (Model.Mmu.getFromL1D u2 addrs) := by
  rw [← Proofs.CycleTraceMvp3.getFromL1D_eU, ← Proofs.CycleTraceMvp3.getFromL1D_eU, hu]

theorem Sh.with_bu {s1 s2 : State} (h : Sh s1 s2) (b1 b2 : BranchUnit) : Sh { s1 with bu := b1 } { s2 with bu := b2 } :=
  { fu := h.fu, decodeBus := h.decodeBus, executeBus := h.executeBus, eu := h.eu, writeBus := h.writeBus, wu := h.wu,
    mmu := h.mmu, cycles := h.cycles, mode := h.mode, executed := h.executed, pwmi := h.pwmi, pwr := h.pwr, memLen := h.memLen }

theorem euIssue_sh {app : App} {s1 s2 : State} (h : Sh s1 s2) {eu1 eu2 : ExecUnit} (heu : eEu eu1 = eEu eu2) (r : Runner)
    (hA : isWriteDataHazard s2.ctx.PendingWriteRegisters r.instr.readRegisters = false →
      r.instr.memoryRead s1.ctx 0#32 = r.instr.memoryRead s2.ctx 0#32)
    (hR : isWriteDataHazard s2.ctx.PendingWriteRegisters r.instr.readRegisters = false →
      r.instr.memoryRead s2.ctx 0#32 = [] →
      ResOk (s1.bu.assert r) (s2.bu.assert r) (r.instr.run s1.ctx app.labels r.pc [] 0#32)
        (r.instr.run s2.ctx app.labels r.pc [] 0#32)) :
    ShE (euIssue app s1 eu1 r) (euIssue app s2 eu2 r) := by
  obtain ⟨g1, g2, g3, g4, g5, g6, g7⟩ := eEu_fields heu
  have hstall : eEu { eu1 with remainingCycles := 1 } = eEu { eu2 with remainingCycles := 1 } := by
    unfold eEu; simp only [g1, g2, g3, g4, g6, g7]
  unfold euIssue
  simp only
  rw [h.pwr]
  by_cases hhz : isWriteDataHazard s2.ctx.PendingWriteRegisters r.instr.readRegisters = true
  · simp only [hhz, if_true, pure, Except.pure]
    exact ⟨(h.with_eu hstall).with_bu _ _, rfl⟩
  · have hhz' : isWriteDataHazard s2.ctx.PendingWriteRegisters r.instr.readRegisters = false := by simpa using hhz
    simp only [hhz', Bool.false_eq_true, if_false]
    have hpw12 : ∀ l : List Word, l.any (fun a => pendingWriteMemoryIntention s1.pwmi (lineOf a)) =
        l.any (fun a => pendingWriteMemoryIntention s2.pwmi (lineOf a)) := by intro l; rw [h.pwmi]
    rw [hA hhz', hpw12]
    by_cases hemp : (r.instr.memoryRead s2.ctx 0#32).isEmpty = true
    · simp only [hemp, Bool.not_true, Bool.false_eq_true, if_false]
      have hnil : r.instr.memoryRead s2.ctx 0#32 = [] := by simpa using hemp
      exact euRun_sh (s1 := { s1 with eu := eu1, bu := s1.bu.assert r }) (s2 := { s2 with eu := eu2, bu := s2.bu.assert r })
        ((h.with_eu heu).with_bu _ _) r [] [] (hR hhz' hnil)
    · simp only [hemp, Bool.not_false, if_true]
      by_cases hpw : (r.instr.memoryRead s2.ctx 0#32).any (fun a => pendingWriteMemoryIntention s2.pwmi (lineOf a)) = true
      · simp only [hpw, if_true, pure, Except.pure]
        exact ⟨(h.with_eu hstall).with_bu _ _, rfl⟩
      · simp only [hpw, Bool.false_eq_true, if_false]
        rcases map_eq_cases (getFromL1D_sh h.mmu (r.instr.memoryRead s2.ctx 0#32)) with ⟨a, b, ha, hb, hab⟩ | ⟨e, ha, hb⟩
        · obtain ⟨m1, v1⟩ := a
          obtain ⟨m2, v2⟩ := b
          simp only [Prod.mk.injEq] at hab
          simp only [ha, hb, bind, Except.bind]
          cases m1 with
          | none =>
            cases m2 with
            | some x => have := hab.1; cases this
            | none =>
              simp only [pure, Except.pure]
              refine ⟨{ fu := h.fu, decodeBus := h.decodeBus, executeBus := h.executeBus,
                        eu := (by unfold eEu; simp only [g1, g4, g6, g7]),
                        writeBus := h.writeBus, wu := h.wu, mmu := hab.2, cycles := h.cycles, mode := h.mode,
                        executed := h.executed, pwmi := h.pwmi, pwr := h.pwr, memLen := h.memLen }, rfl⟩
          | some x1 =>
            cases m2 with
            | none => have := hab.1; cases this
            | some x2 =>
              simp only [pure, Except.pure]
              have hx : eB x1 = eB x2 := by have := hab.1; simpa using this
              refine ⟨{ fu := h.fu, decodeBus := h.decodeBus, executeBus := h.executeBus,
                        eu := (by unfold eEu; simp only [g1, g3, g6, g7, Option.map_some, hx]),
                        writeBus := h.writeBus, wu := h.wu, mmu := hab.2, cycles := h.cycles, mode := h.mode,
                        executed := h.executed, pwmi := h.pwmi, pwr := h.pwr, memLen := h.memLen }, rfl⟩
        · simp only [ha, hb, bind, Except.bind]; rfl

/-! ### completion of a pending memory read: everything before `Run` -/

/-- `euMemDone` up to the call of `executeUnit.run`: the machine right before `Run` and the bytes handed to it -/
def euMemDonePre (s : State) (eu : ExecUnit) : M (State × List Byte) :=
  match eu.memory with
  | some m => pure ({ s with eu := { eu with memory := none } }, m)
  | none =>
    match eu.addrs with
    | [] => throw (.panic "index out of range")
    | a0 :: _ => do
      let line ← Model.Mmu.fetchCacheLine cfg s.ctx.Memory a0
      let (mmu, mem) ← Model.Mmu.pushLineToL1D cfg s.mmu s.ctx.Memory a0 line
      let (m, mmu) ← Model.Mmu.getFromL1D mmu eu.addrs
      match m with
      | none => throw (.panic "cache line doesn't exist")
      | some m => pure ({ s with eu := eu, mmu := mmu, ctx := { s.ctx with Memory := mem } }, m)

theorem euMemDone_eq (app : App) (s : State) (eu : ExecUnit) (r : Runner) :
    euMemDone app s eu r = (euMemDonePre s eu >>= fun p => euRun app p.1 r p.2) := by
  unfold euMemDone euMemDonePre
  cases eu.memory with
  | some m => rfl
  | none =>
    simp only
    cases eu.addrs with
    | nil => rfl
    | cons a0 as =>
      simp only [bind, Except.bind]
      cases Model.Mmu.fetchCacheLine cfg s.ctx.Memory a0 with
      | error f => rfl
      | ok line =>
        simp only
        cases Model.Mmu.pushLineToL1D cfg s.mmu s.ctx.Memory a0 line with
        | error f => rfl
        | ok p =>
          obtain ⟨u1, mem1⟩ := p
          simp only
          cases Model.Mmu.getFromL1D u1 (a0 :: as) with
          | error f => rfl
          | ok q =>
            obtain ⟨m, u2⟩ := q
            cases m <;> rfl


def ShPre : M (State × List Byte) → M (State × List Byte) → Prop
  | .ok (a, _), .ok (b, _) => Sh a b
  | .error e, .error e' => e = e'
  | _, _ => False

theorem euMemDonePre_sh {s1 s2 : State} (h : Sh s1 s2) {eu1 eu2 : ExecUnit} (heu : eEu eu1 = eEu eu2) :
    ShPre (euMemDonePre s1 eu1) (euMemDonePre s2 eu2) := by
  obtain ⟨g1, g2, g3, g4, g5, g6, g7⟩ := eEu_fields heu
  have hmemE := eB_of_len h.memLen
  unfold euMemDonePre
  cases hm1 : eu1.memory with
  | some m1 =>
    cases hm2 : eu2.memory with
    | none => rw [hm1, hm2] at g4; cases g4
    | some m2 =>
      simp only [pure, Except.pure]
      exact h.with_eu (by unfold eEu; simp only [g1, g2, g3, g5, g6, g7])
  | none =>
    cases hm2 : eu2.memory with
    | some m2 => rw [hm1, hm2] at g4; cases g4
    | none =>
      simp only
      rw [g3]
      cases eu2.addrs with
      | nil => rfl
      | cons a0 as =>
        simp only [bind, Except.bind]
        have hf : Except.map eB (Model.Mmu.fetchCacheLine cfg s1.ctx.Memory a0) =
            Except.map eB (Model.Mmu.fetchCacheLine cfg s2.ctx.Memory a0) := by
          rw [← Proofs.CycleTraceMvp3.fetchCacheLine_eB, ← Proofs.CycleTraceMvp3.fetchCacheLine_eB, hmemE]
        rcases map_eq_cases hf with ⟨l1, l2, ha, hb, hab⟩ | ⟨e, ha, hb⟩
        · simp only [ha, hb]
          have hp : Except.map (fun r : Model.Mmu.Mmu × List Byte => (eU r.1, eB r.2)) (Model.Mmu.pushLineToL1D cfg s1.mmu s1.ctx.Memory a0 l1) =
              Except.map (fun r : Model.Mmu.Mmu × List Byte => (eU r.1, eB r.2)) (Model.Mmu.pushLineToL1D cfg s2.mmu s2.ctx.Memory a0 l2) := by
            rw [← Proofs.CycleTraceMvp3.pushLineToL1D_eU, ← Proofs.CycleTraceMvp3.pushLineToL1D_eU, h.mmu, hmemE, hab]
          rcases map_eq_cases hp with ⟨p1, p2, ha2, hb2, hab2⟩ | ⟨e, ha2, hb2⟩
          · obtain ⟨v1, mem1⟩ := p1
            obtain ⟨v2, mem2⟩ := p2
            simp only [Prod.mk.injEq] at hab2
            simp only [ha2, hb2]
            rcases map_eq_cases (getFromL1D_sh hab2.1 (a0 :: as)) with ⟨q1, q2, ha3, hb3, hab3⟩ | ⟨e, ha3, hb3⟩
            · obtain ⟨r1, w1⟩ := q1
              obtain ⟨r2, w2⟩ := q2
              simp only [Prod.mk.injEq] at hab3
              simp only [ha3, hb3]
              cases r1 with
              | none =>
                cases r2 with
                | some x => have := hab3.1; cases this
                | none => rfl
              | some x1 =>
                cases r2 with
                | none => have := hab3.1; cases this
                | some x2 =>
                  simp only [pure, Except.pure]
                  exact { fu := h.fu, decodeBus := h.decodeBus, executeBus := h.executeBus, eu := heu,
                          writeBus := h.writeBus, wu := h.wu, mmu := hab3.2, cycles := h.cycles, mode := h.mode,
                          executed := h.executed, pwmi := h.pwmi, pwr := h.pwr,
                          memLen := (by
                            show mem1.length = mem2.length
                            have := congrArg List.length hab2.2
                            rw [eB_length, eB_length] at this; exact this) }
            · simp only [ha3, hb3]; rfl
          · simp only [ha2, hb2]; rfl
        · simp only [ha, hb]; rfl


/-! ### the instruction's semantics: equal timing events give shape-equal results -/

open Model.Timing in
theorem eventSeq_run {app : App} {a : Arch} {i : Gen.Instr} {bytes : List Byte} (hi : instrAt app a.pc = .ok i)
    (hb : (i.memoryRead a.ctx 0#32).mapM (readMem a.ctx.Memory) = some bytes) :
    eventSeq app a = some ⟨a.pc, some i, i.memoryRead a.ctx 0#32, (execPhase i a.ctx app.labels a.pc bytes).2,
      (execPhase i a.ctx app.labels a.pc bytes).1⟩ := by
  obtain ⟨h0, hg, hlt⟩ := instrAt_ok hi
  unfold eventSeq
  simp only [hlt, not_true_eq_false, if_false, h0, hg, hb]

open Model.Timing in
theorem classify_eq {e1 e2 : Gen.Execution} (h : classify e1 = classify e2) :
    e1.Return = e2.Return ∧ (e2.Return = false → e1.RegisterChange = e2.RegisterChange ∧
      (e2.RegisterChange = false → e1.MemoryChange = e2.MemoryChange ∧
        (e2.MemoryChange = true → e1.MemoryChanges.map (·.1) = e2.MemoryChanges.map (·.1)))) := by
  unfold classify at h
  cases hR1 : e1.Return <;> cases hR2 : e2.Return <;> cases hC1 : e1.RegisterChange <;> cases hC2 : e2.RegisterChange <;>
    cases hM1 : e1.MemoryChange <;> cases hM2 : e2.MemoryChange <;>
    simp [hR1, hR2, hC1, hC2, hM1, hM2] at h ⊢ <;> exact h

open Model.Timing in
theorem classify_ne_fault (e : Gen.Execution) : (classify e).1 ≠ .runFault := by
  unfold classify
  split
  · simp
  · split
    · simp
    · split <;> simp

theorem map_fst_g {c1 c2 : List (Word × Byte)} (h : c1.map (·.1) = c2.map (·.1)) : c1.map g = c2.map g := by
  have hg : ∀ c : List (Word × Byte), c.map g = (c.map (·.1)).map (fun a => (a, 0#8)) := by
    intro c; rw [List.map_map]; rfl
  rw [hg, hg, h]

/-- the next pc of a step that executes `e` -/
def nextPcOf (a : Arch) (e : Gen.Execution) : Word := if e.PcChange then e.NextPc else a.pc + 4#32

theorem stepTail_next {app : App} {a : Arch} {i : Gen.Instr} {bytes : List Byte} {e : Gen.Execution}
    (hs : stepArch dc app a = stepTail app a i bytes) (hr : i.run a.ctx app.labels a.pc bytes 0#32 = .ok e)
    (hret : e.Return = false) (hg : SeqGood app a) :
    ∃ ctx' c, stepArch dc app a = .next ⟨ctx', nextPcOf a e⟩ c := by
  obtain ⟨ex, hex⟩ := Proofs.Refine.cycles_ok i.instructionType
  have hst : stepTail app a i bytes =
      (if e.RegisterChange then
          .next ⟨writeRegister a.ctx e, nextPcOf a e⟩ ⟨dc, if (i.memoryRead a.ctx 0#32).isEmpty then 0 else Gen.Latency.MemoryAccess, ex, Gen.Latency.RegisterAccess⟩
        else if e.MemoryChange then
          match writeMemory a.ctx e with
          | none => .halt (.panic "memory index") ⟨dc, if (i.memoryRead a.ctx 0#32).isEmpty then 0 else Gen.Latency.MemoryAccess, ex, 0⟩
          | some c => .next ⟨c, nextPcOf a e⟩ ⟨dc, if (i.memoryRead a.ctx 0#32).isEmpty then 0 else Gen.Latency.MemoryAccess, ex, Gen.Latency.MemoryAccess⟩
        else .next ⟨a.ctx, nextPcOf a e⟩ ⟨dc, if (i.memoryRead a.ctx 0#32).isEmpty then 0 else Gen.Latency.MemoryAccess, ex, 0⟩) := by
    unfold stepTail nextPcOf
    simp only [hr, hex, hret, Bool.false_eq_true, if_false]
    rfl
  rw [hst] at hs
  by_cases hc : e.RegisterChange = true
  · simp only [hc, if_true] at hs; exact ⟨_, _, hs⟩
  · simp only [hc, Bool.false_eq_true, if_false] at hs
    by_cases hm : e.MemoryChange = true
    · simp only [hm, if_true] at hs
      cases hw : writeMemory a.ctx e with
      | none => rw [hw] at hs; exact absurd hs (hg _ _)
      | some c => rw [hw] at hs; exact ⟨_, _, hs⟩
    · simp only [hm, Bool.false_eq_true, if_false] at hs; exact ⟨_, _, hs⟩

theorem jumpOk_run {app : App} {a : Arch} {i : Gen.Instr} {bytes : List Byte} {e : Gen.Execution}
    (hj : jumpOk app a = true) (hi : instrAt app a.pc = .ok i)
    (hb : (i.memoryRead a.ctx 0#32).mapM (readMem a.ctx.Memory) = some bytes)
    (hr : i.run a.ctx app.labels a.pc bytes 0#32 = .ok e) (hp : e.PcChange = true) :
    e.NextPc ≠ BitVec.ofInt 32 (-1) := by
  obtain ⟨h0, hg, hlt⟩ := instrAt_ok hi
  unfold jumpOk at hj
  simp only [hlt, not_true_eq_false, if_false, h0, hg, hb, hr, hp, if_true] at hj
  simpa using hj

set_option maxHeartbeats 1000000 in
open Model.Timing in
/-- **equal timing events give shape-equal results of `Run`** (and the same flush decision) -/
theorem resOk_of_events {app : App} {a1 a2 : Arch} {i : Gen.Instr} {b1 b2 : List Byte}
    (hi1 : instrAt app a1.pc = .ok i) (hi2 : instrAt app a2.pc = .ok i) (hpc : a1.pc = a2.pc)
    (hb1 : (i.memoryRead a1.ctx 0#32).mapM (readMem a1.ctx.Memory) = some b1)
    (hb2 : (i.memoryRead a2.ctx 0#32).mapM (readMem a2.ctx.Memory) = some b2)
    (hev : eventSeq app a1 = eventSeq app a2) (hg1 : SeqGood app a1) (hg2 : SeqGood app a2)
    (hj1 : jumpOk app a1 = true) (hj2 : jumpOk app a2 = true)
    (hnpc : ∀ a1' a2' c1 c2, stepArch dc app a1 = .next a1' c1 → stepArch dc app a2 = .next a2' c2 → a1'.pc = a2'.pc)
    (bu1 bu2 : BranchUnit) :
    ResOk (bu1.assert ⟨i, a1.pc⟩) (bu2.assert ⟨i, a1.pc⟩) (i.run a1.ctx app.labels a1.pc b1 0#32)
      (i.run a2.ctx app.labels a2.pc b2 0#32) := by
  rw [eventSeq_run hi1 hb1, eventSeq_run hi2 hb2] at hev
  injection hev with hev
  injection hev with _ _ _ hst hph
  have hs1 := stepArch_run hi1 hb1
  have hs2 := stepArch_run hi2 hb2
  obtain ⟨ex, hex⟩ := Proofs.Refine.cycles_ok i.instructionType
  cases hr1 : i.run a1.ctx app.labels a1.pc b1 0#32 with
  | error f1 =>
    have hnp1 : ∀ w, f1 ≠ .panic w := by
      intro w hw; subst hw
      have : stepTail app a1 i b1 = .halt (.panic w) ⟨dc, if (i.memoryRead a1.ctx 0#32).isEmpty then 0 else Gen.Latency.MemoryAccess, 0, 0⟩ := by
        unfold stepTail; simp only [hr1]
      rw [this] at hs1; exact hg1 _ _ hs1
    cases hr2 : i.run a2.ctx app.labels a2.pc b2 0#32 with
    | error f2 =>
      have hnp2 : ∀ w, f2 ≠ .panic w := by
        intro w hw; subst hw
        have : stepTail app a2 i b2 = .halt (.panic w) ⟨dc, if (i.memoryRead a2.ctx 0#32).isEmpty then 0 else Gen.Latency.MemoryAccess, 0, 0⟩ := by
          unfold stepTail; simp only [hr2]
        rw [this] at hs2; exact hg2 _ _ hs2
      cases f1 with
      | panic w => exact absurd rfl (hnp1 w)
      | err m1 =>
        cases f2 with
        | panic w => exact absurd rfl (hnp2 w)
        | err m2 => trivial
    | ok e2 =>
      exfalso
      unfold execPhase at hph
      simp only [hr1, hr2, hex] at hph
      exact classify_ne_fault e2 hph.symm
  | ok e1 =>
    cases hr2 : i.run a2.ctx app.labels a2.pc b2 0#32 with
    | error f2 =>
      exfalso
      unfold execPhase at hph
      simp only [hr1, hr2, hex] at hph
      exact classify_ne_fault e1 hph
    | ok e2 =>
      have hcl : classify e1 = classify e2 := by
        unfold execPhase at hph hst
        simp only [hr1, hr2, hex] at hph hst
        exact Prod.ext hph hst
      obtain ⟨hret, hrest⟩ := classify_eq hcl
      refine ⟨hret, fun hr' => ?_⟩
      have hr1' : e1.Return = false := by rw [hret]; exact hr'
      obtain ⟨hrc, hrest2⟩ := hrest hr'
      have sh1 := run_shape i _ _ _ _ _ e1 hr1
      have sh2 := run_shape i _ _ _ _ _ e2 hr2
      constructor
      · -- the executions without their values
        unfold eX
        by_cases hc : e2.RegisterChange = true
        · have hc1 : e1.RegisterChange = true := by rw [hrc]; exact hc
          have hreg : e1.Register = e2.Register := by
            have w1 := sh1.wregs; have w2 := sh2.wregs
            simp only [hc1, hc, if_true] at w1 w2
            rw [w1] at w2; injection w2
          have m1 := sh1.regNoMem hc1
          have m2 := sh2.regNoMem hc
          simp only [hc1, hc, if_true, hreg, m1, m2, Bool.false_eq_true, if_false, hret]
        · have hc' : e2.RegisterChange = false := by simpa using hc
          have hc1 : e1.RegisterChange = false := by rw [hrc]; exact hc'
          obtain ⟨hmc, hrest3⟩ := hrest2 hc'
          by_cases hm : e2.MemoryChange = true
          · have hm1 : e1.MemoryChange = true := by rw [hmc]; exact hm
            simp only [hc1, hc', hm1, hm, if_true, Bool.false_eq_true, if_false, map_fst_g (hrest3 hm), hret]
          · have hm' : e2.MemoryChange = false := by simpa using hm
            have hm1 : e1.MemoryChange = false := by rw [hmc]; exact hm'
            simp only [hc1, hc', hm1, hm', Bool.false_eq_true, if_false, hret]
      · -- the flush decision
        obtain ⟨c1', k1, hn1⟩ := stepTail_next hs1 hr1 hr1' hg1
        obtain ⟨c2', k2, hn2⟩ := stepTail_next hs2 hr2 hr' hg2
        have hnp : nextPcOf a1 e1 = nextPcOf a2 e2 := hnpc _ _ _ _ hn1 hn2
        unfold nextPcOf at hnp
        unfold outQ BranchUnit.assert BranchUnit.shouldFlushPipeline
        simp only
        by_cases hu : i.instructionType.IsUnconditionalBranch = true
        · obtain ⟨p1, _, _⟩ := Proofs.Mvp5.run_jump i _ _ _ _ _ e1 hu hr1
          obtain ⟨p2, _, _⟩ := Proofs.Mvp5.run_jump i _ _ _ _ _ e2 hu hr2
          simp only [p1, p2, if_true] at hnp
          simp only [hu, if_true, p1, p2, Bool.not_true, Bool.false_eq_true, if_false, hnp]
        · have hu' : i.instructionType.IsUnconditionalBranch = false := by simpa using hu
          by_cases hcb : i.instructionType.IsConditionalBranch = true
          · simp only [hu', Bool.false_eq_true, if_false, hcb, if_true, Bool.not_true]
            cases hp1 : e1.PcChange <;> cases hp2 : e2.PcChange <;> simp only [hp1, hp2, if_true, Bool.false_eq_true, if_false] at hnp ⊢
            · simp [← hnp]
            · simp [hnp, hpc]
            · simp [hnp]
          · have hcb' : i.instructionType.IsConditionalBranch = false := by simpa using hcb
            have hnb : isBranchType i.instructionType = false := by unfold isBranchType; rw [hu', hcb']; rfl
            have p1 : e1.PcChange = false := by
              cases hx : e1.PcChange with
              | false => rfl
              | true => have := sh1.pcBranch hx; rw [hnb] at this; cases this
            have p2 : e2.PcChange = false := by
              cases hx : e2.PcChange with
              | false => rfl
              | true => have := sh2.pcBranch hx; rw [hnb] at this; cases this
            simp only [hu', hcb', p1, p2, Bool.false_eq_true, if_false]


/-! ### the operands of the execute unit are the architectural ones (one run) -/

theorem issue_sem {app : App} {s : State} {a : Arch} {r : Runner} (hb : Back s a) (hpc : r.pc = a.pc)
    (hi : instrAt app r.pc = .ok r.instr) (hnf : NoFwd app)
    (hhz : isWriteDataHazard s.ctx.PendingWriteRegisters r.instr.readRegisters = false) :
    r.instr.memoryRead s.ctx 0#32 = r.instr.memoryRead a.ctx 0#32 ∧
    ∀ m, r.instr.run s.ctx app.labels r.pc m 0#32 = r.instr.run a.ctx app.labels a.pc m 0#32 := by
  have hf := hnf.at hi
  have hb' : BackRel s.ctx s.pwmi s.writeBus.inside s.mmu.l1d s.eu.storeID a := hb
  have hsr := sameRegs_of_noWriter hb' (noWriter_of_hazard hb' hhz)
  exact ⟨memoryRead_congr r.instr hf hsr 0#32, fun m => by rw [hpc]; exact run_congr r.instr hf hsr app.labels a.pc m 0#32⟩

/-- the machine and the bytes `euMemDone` hands to `Run`: the bytes are the architectural ones, and `Run` on the
machine's registers is `Run` on the architectural registers -/
theorem euMemDonePre_sem {app : App} {s : State} {a : Arch} {eu : ExecUnit} {r : Runner} {s' : State} {m : List Byte}
    (hb : Back s a) (hp : PendOk s a r)
    (hmem : eu.memory = s.eu.memory) (haddrs : eu.addrs = s.eu.addrs)
    (hpc : r.pc = a.pc) (hi : instrAt app r.pc = .ok r.instr) (hnf : NoFwd app) (hok : stepOk app a = true)
    (h : euMemDonePre s eu = .ok (s', m)) :
    (r.instr.memoryRead a.ctx 0#32).mapM (readMem a.ctx.Memory) = some m ∧ s'.bu = s.bu ∧
    r.instr.run s'.ctx app.labels r.pc m 0#32 = r.instr.run a.ctx app.labels a.pc m 0#32 := by
  have hf := hnf.at hi
  have hi' : instrAt app a.pc = .ok r.instr := hpc ▸ hi
  have hb' : BackRel s.ctx s.pwmi s.writeBus.inside s.mmu.l1d s.eu.storeID a := hb
  have hsr := sameRegs_of_noWriter hb' hp.noWriter
  unfold euMemDonePre at h
  cases hm : eu.memory with
  | some m0 =>
    simp only [hm, pure, Except.pure] at h
    injection h with h; simp only [Prod.mk.injEq] at h
    obtain ⟨rfl, rfl⟩ := h
    refine ⟨hp.memHit m0 (by rw [← hmem]; exact hm), rfl, ?_⟩
    rw [hpc]; exact run_congr r.instr hf hsr app.labels a.pc m0 0#32
  | none =>
    simp only [hm] at h
    obtain ⟨a0, as, hea, hra, hnoq, hmiss⟩ := hp.memMiss (by rw [← hmem]; exact hm)
    have heua : eu.addrs = a0 :: as := by rw [haddrs]; exact hea
    simp only [heua] at h
    have hlok := stepOk_load hok hi'
    rw [hra] at hlok
    have hlspec := Proofs.Mmu.loadOk_spec hlok
    have h00 := (hlspec a0 (by simp)).1
    obtain ⟨F0, hcoh, hmemq⟩ := hb'.coh
    have hlen0 : a.ctx.Memory.length = F0.length := by rw [hmemq, applyMemQ_length]
    obtain ⟨line, u1, mem1, hfe, hpu, _, hd1, hc1, hres1, hsub1⟩ :=
      Proofs.Mmu.fill_ok hcfg hL hN hb'.dwf hcoh a0 h00 hmiss (hlspec a0 (by simp)).2.2.2
    obtain ⟨bytes, u2, hg, _, hd2, hc2, hperm, hbytes⟩ :=
      Proofs.Mmu.getFromL1D_hit hL hd1 hc1 a0 as (by rw [← hlen0]; exact hlok) hres1
    simp only [hfe, hpu, hg, bind, Except.bind, pure, Except.pure] at h
    injection h with h; simp only [Prod.mk.injEq] at h
    obtain ⟨rfl, rfl⟩ := h
    have hbytes' : (r.instr.memoryRead a.ctx 0#32).mapM (readMem a.ctx.Memory) = some bytes := by
      rw [hra, ← hbytes, hmemq]
      apply mapM_congr
      intro ad had
      apply readMem_applyMemQ
      intro ec hec hs p hp' heq
      have hpad := hlspec ad had
      have hp0 := (storeOk_inb (hb'.stOk ec hec hs) p hp').1
      apply hnoq ec hec hs p hp'
      rw [lineOf_eq, lineOf_eq, ← hpad.2.2.1]
      have : p.1.toInt = ad.toInt := by have := hpad.1; omega
      rw [this]
    refine ⟨hbytes', rfl, ?_⟩
    have hsr' : SameRegs ({ s.ctx with Memory := mem1 } : Model.Context) a.ctx r.instr.readRegisters :=
      { rat1 := hsr.rat1, rat2 := hsr.rat2, tx1 := hsr.tx1, tx2 := hsr.tx2, regs := hsr.regs }
    rw [hpc]; exact run_congr r.instr hf hsr' app.labels a.pc bytes 0#32


/-! ### the execute unit, two runs side by side -/

/-- the two architectural states are at the same position of a common timing trace -/
structure ArchAl (app : App) (a1 a2 : Arch) : Prop where
  ok1 : stepOk app a1 = true
  ok2 : stepOk app a2 = true
  g1 : SeqGood app a1
  g2 : SeqGood app a2
  ev : Model.Timing.eventSeq app a1 = Model.Timing.eventSeq app a2
  pc : ∀ ev, Model.Timing.eventSeq app a1 = some ev → a1.pc = a2.pc
  npc : ∀ a1' a2' c1 c2, stepArch dc app a1 = .next a1' c1 → stepArch dc app a2 = .next a2' c2 → a1'.pc = a2'.pc

theorem jumpOk_of_stepOk {app : App} {a : Arch} (h : stepOk app a = true) : jumpOk app a = true := by
  rw [stepOk_split] at h
  simp only [Bool.and_eq_true] at h
  exact h.2

theorem arch_bytes {app : App} {a : Arch} {i : Gen.Instr} (hg : SeqGood app a) (hi : instrAt app a.pc = .ok i) :
    ∃ bytes, (i.memoryRead a.ctx 0#32).mapM (readMem a.ctx.Memory) = some bytes := by
  cases hm : (i.memoryRead a.ctx 0#32).mapM (readMem a.ctx.Memory) with
  | some b => exact ⟨b, rfl⟩
  | none =>
    exfalso
    obtain ⟨h0, hg', hlt⟩ := instrAt_ok hi
    have : stepArch dc app a = .halt (.panic "memory index") ⟨dc, 0, 0, 0⟩ := by
      unfold stepArch
      simp only [hlt, not_true_eq_false, if_false, h0, hg', hm]
    exact hg _ _ this

theorem ArchAl.pcEq {app : App} {a1 a2 : Arch} (h : ArchAl app a1 a2) {i : Gen.Instr} (hi1 : instrAt app a1.pc = .ok i) :
    a1.pc = a2.pc := by
  obtain ⟨b1, hb1⟩ := arch_bytes h.g1 hi1
  exact h.pc _ (eventSeq_run hi1 hb1)

theorem ArchAl.loads {app : App} {a1 a2 : Arch} (h : ArchAl app a1 a2) {i : Gen.Instr}
    (hi1 : instrAt app a1.pc = .ok i) (hi2 : instrAt app a2.pc = .ok i) :
    i.memoryRead a1.ctx 0#32 = i.memoryRead a2.ctx 0#32 := by
  obtain ⟨b1, hb1⟩ := arch_bytes h.g1 hi1
  obtain ⟨b2, hb2⟩ := arch_bytes h.g2 hi2
  have hev := h.ev
  rw [eventSeq_run hi1 hb1, eventSeq_run hi2 hb2] at hev
  injection hev with hev
  injection hev

/-- the results of `Run` on the two pipelines, given their operands are architectural -/
theorem ArchAl.resOk {app : App} {a1 a2 : Arch} (h : ArchAl app a1 a2) {r : Runner}
    (hpc1 : r.pc = a1.pc) (hi : instrAt app r.pc = .ok r.instr) {b1 b2 : List Byte}
    (hb1 : (r.instr.memoryRead a1.ctx 0#32).mapM (readMem a1.ctx.Memory) = some b1)
    (hb2 : (r.instr.memoryRead a2.ctx 0#32).mapM (readMem a2.ctx.Memory) = some b2)
    {c1 c2 : Model.Context}
    (hr1 : r.instr.run c1 app.labels r.pc b1 0#32 = r.instr.run a1.ctx app.labels a1.pc b1 0#32)
    (hr2 : r.instr.run c2 app.labels r.pc b2 0#32 = r.instr.run a2.ctx app.labels a2.pc b2 0#32)
    (bu1 bu2 : BranchUnit) :
    ResOk (bu1.assert r) (bu2.assert r) (r.instr.run c1 app.labels r.pc b1 0#32) (r.instr.run c2 app.labels r.pc b2 0#32) := by
  have hi1 : instrAt app a1.pc = .ok r.instr := hpc1 ▸ hi
  have hi2 : instrAt app a2.pc = .ok r.instr := by rw [← h.pcEq hi1]; exact hi1
  have := resOk_of_events hi1 hi2 (h.pcEq hi1) hb1 hb2 h.ev h.g1 h.g2 (jumpOk_of_stepOk h.ok1) (jumpOk_of_stepOk h.ok2) h.npc bu1 bu2
  have hr : (⟨r.instr, a1.pc⟩ : Runner) = r := by cases r; simp only at hpc1; subst hpc1; rfl
  rw [hr] at this
  rw [hr1, hr2]; exact this

theorem euStep_sh {app : App} {s1 s2 : State} {a1 a2 : Arch} {eu1 eu2 : ExecUnit} {r : Runner}
    (h : Sh s1 s2) (heu : eEu eu1 = eEu eu2) (hb1 : Back s1 a1) (hb2 : Back s2 a2) (hal : ArchAl app a1 a2)
    (hrun : eu2.runner = some r) (hpc1 : r.pc = a1.pc) (hi : instrAt app r.pc = .ok r.instr) (hnf : NoFwd app) :
    ShE (euStep app s1 eu1) (euStep app s2 eu2) := by
  obtain ⟨g1, g2, g3, g4, g5, g6, g7⟩ := eEu_fields heu
  have hi1 : instrAt app a1.pc = .ok r.instr := hpc1 ▸ hi
  have hpc2 : r.pc = a2.pc := by rw [← hal.pcEq hi1]; exact hpc1
  have hi2 : instrAt app a2.pc = .ok r.instr := hpc2 ▸ hi
  unfold euStep
  simp only
  rw [g5]
  by_cases h0 : (eu2.remainingCycles - 1 != 0) = true
  · simp only [h0, if_true, pure, Except.pure]
    exact ⟨h.with_eu (by unfold eEu; simp only [g1, g2, g3, g4, g6, g7]), rfl⟩
  · simp only [h0, Bool.false_eq_true, if_false]
    rw [eBus_canAdd h.writeBus]
    by_cases hca : s2.writeBus.canAdd = true
    · simp only [hca, Bool.not_true, Bool.false_eq_true, if_false]
      rw [g6, hrun]
      simp only
      refine euIssue_sh (eu1 := _) (eu2 := _) h (by unfold eEu; simp only [g1, g2, g3, g4, g7]) r ?_ ?_
      · intro hhz
        have hhz1 : isWriteDataHazard s1.ctx.PendingWriteRegisters r.instr.readRegisters = false := by rw [h.pwr]; exact hhz
        rw [(issue_sem hb1 hpc1 hi hnf hhz1).1, (issue_sem hb2 hpc2 hi hnf hhz).1]
        exact hal.loads hi1 hi2
      · intro hhz hnil
        have hhz1 : isWriteDataHazard s1.ctx.PendingWriteRegisters r.instr.readRegisters = false := by rw [h.pwr]; exact hhz
        obtain ⟨m1, r1⟩ := issue_sem hb1 hpc1 hi hnf hhz1
        obtain ⟨m2, r2⟩ := issue_sem hb2 hpc2 hi hnf hhz
        have hn2 : r.instr.memoryRead a2.ctx 0#32 = [] := by rw [← m2]; exact hnil
        have hn1 : r.instr.memoryRead a1.ctx 0#32 = [] := by rw [hal.loads hi1 hi2]; exact hn2
        exact hal.resOk hpc1 hi (by rw [hn1]; rfl) (by rw [hn2]; rfl) (r1 []) (r2 []) s1.bu s2.bu
    · simp only [hca, Bool.not_false, if_true, pure, Except.pure]
      exact ⟨h.with_eu (by unfold eEu; simp only [g1, g2, g3, g4, g6, g7]), rfl⟩

theorem Sh.with_executeBus {s1 s2 : State} (h : Sh s1 s2) (b : SimpleBus Runner) :
    Sh { s1 with executeBus := b } { s2 with executeBus := b } :=
  { fu := h.fu, decodeBus := h.decodeBus, executeBus := rfl, eu := h.eu, writeBus := h.writeBus, wu := h.wu,
    mmu := h.mmu, cycles := h.cycles, mode := h.mode, executed := h.executed, pwmi := h.pwmi, pwr := h.pwr, memLen := h.memLen }

/-- completion of a pending memory read, two runs side by side -/
theorem euMemDone_sh {app : App} {s1 s2 : State} {a1 a2 : Arch} {eu1 eu2 : ExecUnit} {r : Runner}
    (h : Sh s1 s2) (heu : eEu eu1 = eEu eu2) (hb1 : Back s1 a1) (hb2 : Back s2 a2) (hal : ArchAl app a1 a2)
    (hpo1 : PendOk s1 a1 r) (hpo2 : PendOk s2 a2 r)
    (hm1 : eu1.memory = s1.eu.memory) (hm2 : eu2.memory = s2.eu.memory)
    (had1 : eu1.addrs = s1.eu.addrs) (had2 : eu2.addrs = s2.eu.addrs)
    (hpc1 : r.pc = a1.pc) (hi : instrAt app r.pc = .ok r.instr) (hnf : NoFwd app) :
    ShE (euMemDone app s1 eu1 r) (euMemDone app s2 eu2 r) := by
  have hpc2 : r.pc = a2.pc := by rw [← hal.pcEq (i := r.instr) (hpc1 ▸ hi)]; exact hpc1
  rw [euMemDone_eq, euMemDone_eq]
  have hpre := euMemDonePre_sh h heu
  revert hpre
  cases hq1 : euMemDonePre s1 eu1 with
  | error f1 =>
    cases hq2 : euMemDonePre s2 eu2 with
    | error f2 => intro hpre; exact hpre
    | ok q2 => intro hpre; exact hpre.elim
  | ok q1 =>
    cases hq2 : euMemDonePre s2 eu2 with
    | error f2 => intro hpre; exact hpre.elim
    | ok q2 =>
      obtain ⟨t1, m1⟩ := q1
      obtain ⟨t2, m2⟩ := q2
      intro hpre
      have hsh : Sh t1 t2 := hpre
      obtain ⟨hbm1, hbu1, hrr1⟩ := euMemDonePre_sem (app := app) hb1 hpo1 hm1 had1 hpc1 hi hnf hal.ok1 hq1
      obtain ⟨hbm2, hbu2, hrr2⟩ := euMemDonePre_sem (app := app) hb2 hpo2 hm2 had2 hpc2 hi hnf hal.ok2 hq2
      obtain ⟨bu01, hbu01⟩ := hpo1.bu
      obtain ⟨bu02, hbu02⟩ := hpo2.bu
      simp only [bind, Except.bind]
      refine euRun_sh hsh r m1 m2 ?_
      rw [hbu1, hbu2, hbu01, hbu02]
      exact hal.resOk hpc1 hi hbm1 hbm2 hrr1 hrr2 bu01 bu02

set_option maxHeartbeats 1000000 in
/-- **the execute unit preserves shape equality** when the two architectural states give the same timing event -/
theorem executeCycle_sh {app : App} {s1 s2 : State} {a1 a2 : Arch} (h : Sh s1 s2)
    (hb1 : Back s1 a1) (hb2 : Back s2 a2) (hn1 : NormalOk app s1 a1) (hn2 : NormalOk app s2 a2)
    (hal : ArchAl app a1 a2) (hnf : NoFwd app) :
    ShE (executeCycle app s1) (executeCycle app s2) := by
  obtain ⟨g1, g2, g3, g4, g5, g6, g7⟩ := eEu_fields h.eu
  unfold executeCycle
  rw [g2]
  by_cases hp : s2.eu.pendingMemoryRead = true
  · -- a memory read is pending
    have hp1 : s1.eu.pendingMemoryRead = true := by rw [g2]; exact hp
    simp only [hp, if_true]
    rw [g5]
    by_cases h0 : (s2.eu.remainingCycles - 1 != 0) = true
    · simp only [h0, if_true, pure, Except.pure]
      exact ⟨h.with_eu (by unfold eEu; simp only [g1, hp, hp1, g3, g4, g6, g7]), rfl⟩
    · simp only [h0, Bool.false_eq_true, if_false]
      obtain ⟨r1, hrun1, hpo1⟩ := hn1.pend hp1
      obtain ⟨r2, hrun2, hpo2⟩ := hn2.pend hp
      have hr12 : r1 = r2 := by rw [g6, hrun2] at hrun1; injection hrun1 with hrun1; exact hrun1.symm
      subst hr12
      have hproc1 : s1.eu.processing = true := by
        cases hx : s1.eu.processing with
        | true => rfl
        | false => have := hn1.idle hx; rw [hp1] at this; cases this
      have hproc2 : s2.eu.processing = true := by rw [← g1]; exact hproc1
      obtain ⟨r', hr', hpc1, hi, _⟩ := hn1.rest_busy hproc1
      have : r' = r1 := by rw [hrun1] at hr'; injection hr' with hr'; exact hr'.symm
      subst this
      obtain ⟨r'', hr'', hpc2, _, _⟩ := hn2.rest_busy hproc2
      have : r'' = r' := by rw [hrun2] at hr''; injection hr'' with hr''; exact hr''.symm
      subst this
      rw [g6, hrun2]
      simp only
      exact euMemDone_sh (eu1 := _) (eu2 := _) h (by unfold eEu; simp only [g1, g3, g4, g7]) hb1 hb2 hal hpo1 hpo2
        rfl rfl rfl rfl hpc1 hi hnf
  · have hp' : s2.eu.pendingMemoryRead = false := by simpa using hp
    have hp1' : s1.eu.pendingMemoryRead = false := by rw [g2]; exact hp'
    simp only [hp', Bool.false_eq_true, if_false]
    unfold euTake
    simp only
    rw [g1]
    by_cases hproc : s2.eu.processing = true
    · have hproc1 : s1.eu.processing = true := by rw [g1]; exact hproc
      obtain ⟨r, hrun1, hpc1, hi, _⟩ := hn1.rest_busy hproc1
      have hrun2 : s2.eu.runner = some r := by rw [← g6]; exact hrun1
      simp only [hproc, Bool.not_true, Bool.false_eq_true, if_false, pure, Except.pure, bind, Except.bind]
      exact euStep_sh h h.eu hb1 hb2 hal hrun2 hpc1 hi hnf
    · have hproc' : s2.eu.processing = false := by simpa using hproc
      have hproc1' : s1.eu.processing = false := by rw [g1]; exact hproc'
      simp only [hproc', Bool.not_false, if_true]
      rw [h.executeBus]
      cases hx : s2.executeBus.get.1 with
      | none =>
        have hg : s2.executeBus.get = (none, s2.executeBus.get.2) := by rw [← hx]
        rw [hg]
        simp only [pure, Except.pure, bind, Except.bind, Bool.not_false, if_true]
        exact ⟨{ fu := h.fu, decodeBus := h.decodeBus, executeBus := rfl, eu := h.eu, writeBus := h.writeBus, wu := h.wu,
                 mmu := h.mmu, cycles := h.cycles, mode := h.mode, executed := h.executed, pwmi := h.pwmi, pwr := h.pwr,
                 memLen := h.memLen }, rfl⟩
      | some r =>
        have hg : s2.executeBus.get = (some r, s2.executeBus.get.2) := by rw [← hx]
        have hins := bus_inside_of_get_some _ r hx
        rw [hg]
        simp only
        cases hcy : Gen.InstructionType.Cycles r.instr.instructionType with
        | error f => simp only [bind, Except.bind]; rfl
        | ok c =>
          simp only [pure, Except.pure, bind, Except.bind, Bool.not_true, Bool.false_eq_true, if_false]
          have hrest1 := hn1.rest_idle hproc1'
          have hcons := hrest1.consec
          rw [h.executeBus, hins] at hcons
          simp only [List.map_cons, List.cons_append] at hcons
          have hi : instrAt app r.pc = .ok r.instr := hrest1.busInstr r (by rw [h.executeBus, hins]; simp)
          have heu' : eEu { s1.eu with runner := some r, remainingCycles := c, processing := true } =
              eEu { s2.eu with runner := some r, remainingCycles := c, processing := true } := by
            unfold eEu; simp only [g2, g3, g4, g7]
          exact euStep_sh (s1 := { s1 with executeBus := s2.executeBus.get.2 }) (s2 := { s2 with executeBus := s2.executeBus.get.2 })
            (h.with_executeBus _) heu' hb1 hb2 hal rfl hcons.1 hi hnf


/-! ### one tick of one run, with the count of executed instructions -/

/-- `TickPost` for a tick that does not end the run, telling the three cases apart by the count of executed
instructions: nothing executed; `ret` executed (the run drains); one instruction executed -/
def TickX (app : App) (s : State) (a : Arch) (s' : State) : Prop :=
  (Rel app s' a ∧ s'.executed = s.executed) ∨
  (Rel app s' a ∧ (∃ c, stepArch dc app a = .halt .ret c) ∧ s'.executed = s.executed + 1) ∨
  (∃ a1 c, stepArch dc app a = .next a1 c ∧ Rel app s' a1 ∧ s'.executed = s.executed + 1)

set_option maxHeartbeats 1000000 in
theorem cycleM_x {app : App} {s s' : State} {a : Arch} (hR : Rel app s a) (hnf : NoFwd app) (hok : stepOk app a = true)
    (h : cycleM app s = .ok (s', .running)) : TickX app s a s' := by
  cases hm : s.mode with
  | normal =>
    have hn0 : NormalOk app s a := by have := hR.front; rw [hm] at this; exact this
    unfold cycleM at h
    simp only [hm] at h
    cases h1 : fetchCycle app { s with cycles := s.cycles + 1, mode := .normal } with
    | error f => simp [h1, bind, Except.bind] at h
    | ok s1 =>
      obtain ⟨hb1, hn1, hm1, _⟩ := fetchCycle_rel (a := a) (s := { s with cycles := s.cycles + 1, mode := .normal }) hR.back (hn0.with_cycles _ _) h1
      obtain ⟨_, _, fx1, _⟩ := fetchCycle_cnt h1
      simp only [h1, bind, Except.bind] at h
      cases h2 : decodeCycle app s1 with
      | error f => simp [h2] at h
      | ok s2 =>
        obtain ⟨hb2, hn2, hm2, _⟩ := decodeCycle_rel hb1 hn1 h2
        obtain ⟨_, _, dx2, _⟩ := decodeCycle_cnt h2
        simp only [h2] at h
        cases h3 : executeCycle app s2 with
        | error f => simp [h3] at h
        | ok x =>
          obtain ⟨s3, out⟩ := x
          obtain ⟨_, _, _, hm3, _, hpost⟩ := executeCycle_sim hb2 hn2 hnf hok h3
          have hmode3 : s3.mode = .normal := by rw [hm3, hm2, hm1]
          have hx2 : s2.executed = s.executed := by rw [dx2, fx1]
          simp only [h3] at h
          unfold afterExecute at h
          simp only [bind, Except.bind] at h
          cases out with
          | err =>
            simp only [pure, Except.pure] at h
            injection h with h
            simp only [Prod.mk.injEq] at h
            cases h.2
          | none =>
            cases h4 : writeCycle s3 with
            | error f => simp [h4] at h
            | ok s4 =>
              obtain ⟨_, _, wx4, _⟩ := writeCycle_cnt h4
              simp only [h4] at h
              by_cases hic : isComplete s4 = true
              · simp only [hic, if_true] at h
                obtain ⟨hev, _⟩ := finish_cnt h
                cases hev
              · simp only [hic, Bool.false_eq_true, if_false, pure, Except.pure] at h
                injection h with h
                simp only [Prod.mk.injEq] at h
                obtain ⟨rfl, _⟩ := h
                rcases hpost with ⟨hb3, hn3, _, e4⟩ | ⟨a', c, hst, hb3, hn3, _, _, e4⟩
                · obtain ⟨hb4, hn4, hm4, _⟩ := writeCycle_normal hb3 hn3 h4
                  have : s4.mode = .normal := by rw [hm4]; exact hmode3
                  exact Or.inl ⟨⟨hb4, by rw [this]; exact hn4⟩, by rw [wx4, e4, hx2]⟩
                · obtain ⟨hb4, hn4, hm4, _⟩ := writeCycle_normal hb3 hn3 h4
                  have : s4.mode = .normal := by rw [hm4]; exact hmode3
                  exact Or.inr (Or.inr ⟨a', c, hst, ⟨hb4, by rw [this]; exact hn4⟩, by rw [wx4, e4, hx2]⟩)
          | ret =>
            have hx3 : s3.executed = s2.executed + 1 := executeCycle_out_exec h3 (by intro hx; cases hx)
            obtain ⟨hret, hb3, _⟩ := hpost
            cases h4 : writeCycle s3 with
            | error f => simp [h4] at h
            | ok s4 =>
              obtain ⟨hb4, _⟩ := writeCycle_back hb3 h4
              obtain ⟨_, _, wx4, _⟩ := writeCycle_cnt h4
              simp only [h4] at h
              by_cases hdc : drainCond s4 = true
              · simp only [hdc, if_true, pure, Except.pure] at h
                injection h with h
                simp only [Prod.mk.injEq] at h
                obtain ⟨rfl, _⟩ := h
                exact Or.inr (Or.inl ⟨⟨hb4, hret⟩, hret, by show s4.executed = _; rw [wx4, hx3, hx2]⟩)
              · have hdc' : drainCond s4 = false := by simpa using hdc
                simp only [hdc', Bool.false_eq_true, if_false] at h
                obtain ⟨hev, _⟩ := finish_cnt h
                cases hev
          | flush pc =>
            have hx3 : s3.executed = s2.executed + 1 := executeCycle_out_exec h3 (by intro hx; cases hx)
            obtain ⟨a', c, hst, hpc, hb3, hproc, hpe, hmem⟩ := hpost
            cases h4 : writeCycle s3 with
            | error f => simp [h4] at h
            | ok s4 =>
              obtain ⟨hb4, _, _, _, heu, _, _, hm4, _⟩ := writeCycle_back hb3 h4
              obtain ⟨_, _, wx4, _⟩ := writeCycle_cnt h4
              simp only [h4] at h
              by_cases hdc : drainCond s4 = true
              · simp only [hdc, if_true, pure, Except.pure] at h
                injection h with h
                simp only [Prod.mk.injEq] at h
                obtain ⟨rfl, _⟩ := h
                refine Or.inr (Or.inr ⟨a', c, hst, ⟨hb4, ?_⟩, by show s4.executed = _; rw [wx4, hx3, hx2]⟩)
                show a'.pc = pc ∧ s4.eu.processing = false ∧ s4.eu.pendingMemoryRead = false ∧ s4.eu.memory = none
                rw [heu]; exact ⟨hpc, hproc, hpe, hmem⟩
              · have hdc' : drainCond s4 = false := by simpa using hdc
                simp only [hdc', Bool.false_eq_true, if_false, pure, Except.pure] at h
                injection h with h
                simp only [Prod.mk.injEq] at h
                obtain ⟨rfl, _⟩ := h
                obtain ⟨hbf, hnf'⟩ := flushAll_rel (app := app) hb4 (drainCond_false hdc') hpc (by rw [heu]; exact hproc)
                  (by rw [heu]; exact hpe) (by rw [heu]; exact hmem)
                have : (flushAll s4 pc).mode = .normal := by show s4.mode = _; rw [hm4]; exact hmode3
                exact Or.inr (Or.inr ⟨a', c, hst, ⟨hbf, by rw [this]; exact hnf'⟩, by show s4.executed = _; rw [wx4, hx3, hx2]⟩)
  | drainRet =>
    have hret : ∃ c, stepArch dc app a = .halt .ret c := by have := hR.front; rw [hm] at this; exact this
    unfold cycleM at h
    simp only [hm] at h
    cases h4 : writeCycle s with
    | error f => simp [h4, bind, Except.bind] at h
    | ok s4 =>
      obtain ⟨hb4, _, _, _, _, _, _, hm4, _⟩ := writeCycle_back hR.back h4
      obtain ⟨_, _, wx4, _⟩ := writeCycle_cnt h4
      simp only [h4, bind, Except.bind] at h
      by_cases hdc : drainCond s4 = true
      · simp only [hdc, if_true, pure, Except.pure] at h
        injection h with h
        simp only [Prod.mk.injEq] at h
        obtain ⟨rfl, _⟩ := h
        exact Or.inl ⟨⟨hb4, by rw [hm4, hm]; exact hret⟩, wx4⟩
      · have hdc' : drainCond s4 = false := by simpa using hdc
        simp only [hdc', Bool.false_eq_true, if_false] at h
        obtain ⟨hev, _⟩ := finish_cnt h
        cases hev
  | drainFlush pc =>
    have hfr : a.pc = pc ∧ s.eu.processing = false ∧ s.eu.pendingMemoryRead = false ∧ s.eu.memory = none := by
      have := hR.front; rw [hm] at this; exact this
    obtain ⟨hpc, hproc, hpe, hmem⟩ := hfr
    unfold cycleM at h
    simp only [hm] at h
    cases h4 : writeCycle { s with cycles := s.cycles + 1, mode := .drainFlush pc } with
    | error f => simp [h4, bind, Except.bind] at h
    | ok s4 =>
      obtain ⟨hb4, _, _, _, heu, _, _, hm4, _⟩ :=
        writeCycle_back (s := { s with cycles := s.cycles + 1, mode := .drainFlush pc }) (a := a) hR.back h4
      obtain ⟨_, _, wx4, _⟩ := writeCycle_cnt h4
      have wx4' : s4.executed = s.executed := wx4
      simp only [h4, bind, Except.bind] at h
      by_cases hdc : drainCond s4 = true
      · simp only [hdc, if_true, pure, Except.pure] at h
        injection h with h
        simp only [Prod.mk.injEq] at h
        obtain ⟨rfl, _⟩ := h
        refine Or.inl ⟨⟨hb4, ?_⟩, wx4'⟩
        rw [hm4]
        show a.pc = pc ∧ s4.eu.processing = false ∧ s4.eu.pendingMemoryRead = false ∧ s4.eu.memory = none
        rw [heu]; exact ⟨hpc, hproc, hpe, hmem⟩
      · have hdc' : drainCond s4 = false := by simpa using hdc
        simp only [hdc', Bool.false_eq_true, if_false, pure, Except.pure] at h
        injection h with h
        simp only [Prod.mk.injEq] at h
        obtain ⟨rfl, _⟩ := h
        obtain ⟨hbf, hnf'⟩ := flushAll_rel (app := app) hb4 (drainCond_false hdc') hpc (by rw [heu]; exact hproc)
          (by rw [heu]; exact hpe) (by rw [heu]; exact hmem)
        refine Or.inl ⟨⟨hbf, ?_⟩, wx4'⟩
        show NormalOk app { flushAll s4 pc with mode := .normal } a
        exact { consec := hnf'.consec, complete := hnf'.complete, busInstr := hnf'.busInstr, euRunner := hnf'.euRunner,
                idle := hnf'.idle,
                pend := fun hp => by
                  obtain ⟨r, hr, hpo⟩ := hnf'.pend hp
                  exact ⟨r, hr, hpo.transfer rfl rfl rfl rfl⟩,
                nomem := hnf'.nomem }


/-! ### one tick, two runs side by side -/

set_option maxHeartbeats 1000000 in
/-- **a tick preserves shape equality**: same outcome, shape-equal states -/
theorem cycleM_sh {app : App} {s1 s2 : State} {a1 a2 : Arch} (h : Sh s1 s2) (hR1 : Rel app s1 a1) (hR2 : Rel app s2 a2)
    (hal : ArchAl app a1 a2) (hnf : NoFwd app) : ShP (cycleM app s1) (cycleM app s2) := by
  unfold cycleM
  rw [h.mode]
  cases hm : s2.mode with
  | normal =>
    have hm1 : s1.mode = .normal := by rw [h.mode]; exact hm
    have hn01 : NormalOk app s1 a1 := by have := hR1.front; rw [hm1] at this; exact this
    have hn02 : NormalOk app s2 a2 := by have := hR2.front; rw [hm] at this; exact this
    simp only
    have hf := fetchCycle_sh (app := app) (h.with_cycles .normal)
    revert hf
    cases h1 : fetchCycle app { s1 with cycles := s1.cycles + 1, mode := .normal } with
    | error f1 =>
      cases h2 : fetchCycle app { s2 with cycles := s2.cycles + 1, mode := .normal } with
      | error f2 => intro hf; exact hf
      | ok t2 => intro hf; exact hf.elim
    | ok t1 =>
      cases h2 : fetchCycle app { s2 with cycles := s2.cycles + 1, mode := .normal } with
      | error f2 => intro hf; exact hf.elim
      | ok t2 =>
        intro hf
        have hsh1 : Sh t1 t2 := hf
        obtain ⟨hb1, hn1, _, _⟩ := fetchCycle_rel (a := a1) (s := { s1 with cycles := s1.cycles + 1, mode := .normal }) hR1.back (hn01.with_cycles _ _) h1
        obtain ⟨hb2, hn2, _, _⟩ := fetchCycle_rel (a := a2) (s := { s2 with cycles := s2.cycles + 1, mode := .normal }) hR2.back (hn02.with_cycles _ _) h2
        simp only [bind, Except.bind]
        have hd := decodeCycle_sh (app := app) hsh1
        revert hd
        cases h3 : decodeCycle app t1 with
        | error f1 =>
          cases h4 : decodeCycle app t2 with
          | error f2 => intro hd; exact hd
          | ok u2 => intro hd; exact hd.elim
        | ok u1 =>
          cases h4 : decodeCycle app t2 with
          | error f2 => intro hd; exact hd.elim
          | ok u2 =>
            intro hd
            have hsh2 : Sh u1 u2 := hd
            obtain ⟨hb1', hn1', _, _⟩ := decodeCycle_rel hb1 hn1 h3
            obtain ⟨hb2', hn2', _, _⟩ := decodeCycle_rel hb2 hn2 h4
            simp only
            have he := executeCycle_sh hsh2 hb1' hb2' hn1' hn2' hal hnf
            revert he
            cases h5 : executeCycle app u1 with
            | error f1 =>
              cases h6 : executeCycle app u2 with
              | error f2 => intro he; exact he
              | ok v2 => intro he; exact he.elim
            | ok v1 =>
              cases h6 : executeCycle app u2 with
              | error f2 => intro he; exact he.elim
              | ok v2 =>
                obtain ⟨w1, o1⟩ := v1
                obtain ⟨w2, o2⟩ := v2
                intro he
                obtain ⟨hsh3, ho⟩ : Sh w1 w2 ∧ o1 = o2 := he
                subst ho
                simp only
                exact afterExecute_sh hsh3 o1
  | drainRet =>
    simp only
    have hw := writeCycle_sh h
    revert hw
    cases writeCycle s1 with
    | error f =>
      cases writeCycle s2 with
      | error f' => intro hw; exact hw
      | ok b => intro hw; exact hw.elim
    | ok a =>
      cases writeCycle s2 with
      | error f' => intro hw; exact hw.elim
      | ok b =>
        intro hw
        have hw' : Sh a b := hw
        simp only [bind, Except.bind]
        rw [drainCond_sh hw']
        split
        · exact ⟨hw', rfl⟩
        · exact finish_sh hw' .ret
  | drainFlush pc =>
    simp only
    have hw := writeCycle_sh (h.with_cycles (.drainFlush pc))
    revert hw
    cases writeCycle { s1 with cycles := s1.cycles + 1, mode := .drainFlush pc } with
    | error f =>
      cases writeCycle { s2 with cycles := s2.cycles + 1, mode := .drainFlush pc } with
      | error f' => intro hw; exact hw
      | ok b => intro hw; exact hw.elim
    | ok a =>
      cases writeCycle { s2 with cycles := s2.cycles + 1, mode := .drainFlush pc } with
      | error f' => intro hw; exact hw.elim
      | ok b =>
        intro hw
        have hw' : Sh a b := hw
        simp only [bind, Except.bind]
        rw [drainCond_sh hw']
        split
        · exact ⟨hw', rfl⟩
        · exact ⟨(flushAll_sh hw' pc).with_mode _, rfl⟩


/-! ### whole runs -/

/-- the unpipelined run from `a` ends within `F` steps, and every state on the way satisfies the side conditions of
the refinement and stays inside the program -/
def Good (app : App) : Nat → Arch → Prop
  | 0, _ => False
  | F + 1, a => stepOk app a = true ∧ SeqGood app a ∧ a.pc.toNat ≤ 4 * app.instrs.length ∧
      ∀ a' c, stepArch dc app a = .next a' c → Good app F a'

/-- two unpipelined runs that go through the same timing events and end the same way within `F` steps -/
def Aligned (app : App) : Nat → Arch → Arch → Prop
  | 0, _, _ => False
  | F + 1, a1, a2 => ArchAl app a1 a2 ∧
      ((∃ h c1 c2, stepArch dc app a1 = .halt h c1 ∧ stepArch dc app a2 = .halt h c2) ∨
       (∃ a1' a2' c1 c2, stepArch dc app a1 = .next a1' c1 ∧ stepArch dc app a2 = .next a2' c2 ∧ Aligned app F a1' a2'))

open Model.Timing in
theorem trace_nil_halt (app : App) : ∀ (F : Nat) (a : Arch) (h : Halt), traceSeq dc app F a = ([], some h) → h = .offEnd := by
  intro F a h ht
  cases F with
  | zero => unfold traceSeq at ht; cases ht
  | succ F =>
    unfold traceSeq at ht
    have hev := Proofs.CycleTrace.stepArch_event dc app a
    cases hs : stepArch dc app a with
    | halt h' c =>
      rw [hs] at ht hev
      simp only [Prod.mk.injEq, Option.some.injEq] at ht
      obtain ⟨ht1, rfl⟩ := ht
      rcases hev with ⟨rfl, _⟩ | ⟨_, ev, he, _⟩
      · rfl
      · rw [he] at ht1; cases ht1
    | next a' c =>
      rw [hs] at ht hev
      obtain ⟨ev, he, _⟩ := hev
      simp only [he, Option.toList_some, Prod.mk.injEq] at ht
      exact absurd ht.1 (by simp)

theorem toList_inj {α} {x y : Option α} (h : x.toList = y.toList) : x = y := by
  cases x <;> cases y <;> simp at h ⊢ <;> exact h

open Model.Timing in
theorem pc_of_offEnd {app : App} {a : Arch} (hsmall : app.instrs.length < 250) (he : eventSeq app a = none)
    (hb : a.pc.toNat ≤ 4 * app.instrs.length) : a.pc.toNat = 4 * app.instrs.length := by
  have hlt : a.pc.toNat < 2 ^ 31 := by omega
  have hti : a.pc.toInt = a.pc.toNat := by
    rw [BitVec.toInt_eq_toNat_cond]; simp; omega
  have hidx : Int.tdiv (a.pc.toNat : Int) 4 = ((a.pc.toNat / 4 : Nat) : Int) := rfl
  have hn : ¬ Int.tdiv a.pc.toInt 4 < app.instrs.length := by
    intro hx
    unfold eventSeq at he
    simp only [hx, not_true_eq_false, if_false] at he
    split at he
    · cases he
    · split at he
      · cases he
      · split at he <;> cases he
  rw [hti, hidx] at hn
  omega

open Model.Timing in
/-- equal timing traces of two good runs align them -/
theorem aligned_of_traces {app : App} (hsmall : app.instrs.length < 250) : ∀ (F : Nat) (a1 a2 : Arch),
    Good app F a1 → Good app F a2 → traceSeq dc app F a1 = traceSeq dc app F a2 → Aligned app F a1 a2 := by
  intro F
  induction F with
  | zero => intro a1 a2 h1; exact h1.elim
  | succ F ih =>
    intro a1 a2 hg1 hg2 htr
    obtain ⟨ok1, sg1, pb1, nx1⟩ := hg1
    obtain ⟨ok2, sg2, pb2, nx2⟩ := hg2
    unfold traceSeq at htr
    have he1 := Proofs.CycleTrace.stepArch_event dc app a1
    have he2 := Proofs.CycleTrace.stepArch_event dc app a2
    have hpcs : ∀ ev, eventSeq app a1 = some ev → eventSeq app a2 = some ev → a1.pc = a2.pc := by
      intro ev h1 h2
      have p1 : ev.pc = a1.pc := by
        cases hs : stepArch dc app a1 with
        | halt h c =>
          rw [hs] at he1
          rcases he1 with ⟨_, hn⟩ | ⟨_, ev', h', hp, _⟩
          · rw [hn] at h1; cases h1
          · rw [h1] at h'; injection h' with h'; rw [h']; exact hp
        | next a' c =>
          rw [hs] at he1
          obtain ⟨ev', h', hp, _⟩ := he1
          rw [h1] at h'; injection h' with h'; rw [h']; exact hp
      have p2 : ev.pc = a2.pc := by
        cases hs : stepArch dc app a2 with
        | halt h c =>
          rw [hs] at he2
          rcases he2 with ⟨_, hn⟩ | ⟨_, ev', h', hp, _⟩
          · rw [hn] at h2; cases h2
          · rw [h2] at h'; injection h' with h'; rw [h']; exact hp
        | next a' c =>
          rw [hs] at he2
          obtain ⟨ev', h', hp, _⟩ := he2
          rw [h2] at h'; injection h' with h'; rw [h']; exact hp
      rw [← p1, p2]
    cases hs1 : stepArch dc app a1 with
    | halt h1 c1 =>
      cases hs2 : stepArch dc app a2 with
      | halt h2 c2 =>
        rw [hs1, hs2] at htr
        simp only at htr
        simp only [Prod.mk.injEq, Option.some.injEq] at htr
        obtain ⟨hl, rfl⟩ := htr
        have hev := toList_inj hl
        refine ⟨{ ok1 := ok1, ok2 := ok2, g1 := sg1, g2 := sg2, ev := hev,
                  pc := fun ev h => hpcs ev h (by rw [← hev]; exact h),
                  npc := fun a1' _ _ _ hx => by rw [hs1] at hx; cases hx }, Or.inl ⟨_, c1, c2, hs1, hs2⟩⟩
      | next a2' c2 =>
        exfalso
        rw [hs1, hs2] at htr
        simp only at htr
        rw [hs1] at he1; rw [hs2] at he2
        obtain ⟨ev2, h2e, _⟩ := he2
        simp only [h2e, Option.toList_some] at htr
        rcases he1 with ⟨rfl, hn⟩ | ⟨hne, ev1, h1e, _⟩
        · rw [hn] at htr
          cases hq : traceSeq dc app F a2' with
          | mk t hh => rw [hq] at htr; simp at htr
        · rw [h1e] at htr
          cases hq : traceSeq dc app F a2' with
          | mk t hh =>
            rw [hq] at htr
            simp only [Option.toList_some, List.singleton_append, Prod.mk.injEq, List.cons.injEq] at htr
            obtain ⟨⟨_, ht⟩, hh'⟩ := htr
            subst ht; subst hh'
            exact hne (trace_nil_halt app F a2' h1 hq)
    | next a1' c1 =>
      cases hs2 : stepArch dc app a2 with
      | halt h2 c2 =>
        exfalso
        rw [hs1, hs2] at htr
        simp only at htr
        rw [hs1] at he1; rw [hs2] at he2
        obtain ⟨ev1, h1e, _⟩ := he1
        simp only [h1e, Option.toList_some] at htr
        rcases he2 with ⟨rfl, hn⟩ | ⟨hne, ev2, h2e, _⟩
        · rw [hn] at htr
          cases hq : traceSeq dc app F a1' with
          | mk t hh => rw [hq] at htr; simp at htr
        · rw [h2e] at htr
          cases hq : traceSeq dc app F a1' with
          | mk t hh =>
            rw [hq] at htr
            simp only [Option.toList_some, List.singleton_append, Prod.mk.injEq, List.cons.injEq] at htr
            obtain ⟨⟨_, ht⟩, hh'⟩ := htr
            subst ht; subst hh'
            exact hne (trace_nil_halt app F a1' h2 hq)
      | next a2' c2 =>
        rw [hs1, hs2] at htr
        simp only at htr
        rw [hs1] at he1; rw [hs2] at he2
        obtain ⟨ev1, h1e, _⟩ := he1
        obtain ⟨ev2, h2e, _⟩ := he2
        have hg1' := nx1 a1' c1 hs1
        have hg2' := nx2 a2' c2 hs2
        cases hq1 : traceSeq dc app F a1' with
        | mk t1 hh1 =>
          cases hq2 : traceSeq dc app F a2' with
          | mk t2 hh2 =>
            rw [hq1, hq2] at htr
            simp only [h1e, h2e, Option.toList_some, List.singleton_append, Prod.mk.injEq, List.cons.injEq] at htr
            obtain ⟨⟨hev12, ht⟩, hh⟩ := htr
            subst hev12; subst ht; subst hh
            have hal' := ih a1' a2' hg1' hg2' (by rw [hq1, hq2])
            have hev : eventSeq app a1 = eventSeq app a2 := by rw [h1e, h2e]
            -- the next pcs
            have hnpc : a1'.pc = a2'.pc := by
              cases F with
              | zero => exact hg1'.elim
              | succ F' =>
                obtain ⟨hal'', _⟩ := hal'
                cases hx : eventSeq app a1' with
                | some ev => exact hal''.pc ev hx
                | none =>
                  have hx2 : eventSeq app a2' = none := by rw [← hal''.ev]; exact hx
                  have q1 := pc_of_offEnd hsmall hx hg1'.2.2.1
                  have q2 := pc_of_offEnd hsmall hx2 hg2'.2.2.1
                  exact BitVec.eq_of_toNat_eq (by rw [q1, q2])
            refine ⟨{ ok1 := ok1, ok2 := ok2, g1 := sg1, g2 := sg2, ev := hev,
                      pc := fun ev h => hpcs ev h (by rw [← hev]; exact h),
                      npc := fun x1 x2 d1 d2 hx1 hx2 => by
                        rw [hs1] at hx1; rw [hs2] at hx2
                        injection hx1 with hx1 _; injection hx2 with hx2 _
                        rw [← hx1, ← hx2]; exact hnpc },
              Or.inr ⟨a1', a2', c1, c2, hs1, hs2, hal'⟩⟩


/-- a well-formed specification run that ends within its fuel gives a good unpipelined run -/
theorem good_of_spec (app : App) (hw : Proofs.Refine.WfApp app) :
    ∀ (fuel : Nat) (ctx : Model.Context) (m : Spec.Machine) (pc : Word) (k : Nat) (tr : Array Spec.Event),
      Proofs.Refine.Rel ctx m → m.mem.size + 64 ≤ 2 ^ 31 → pc.toNat ≤ 4 * app.instrs.length →
      (∀ why, (Spec.run.go (Proofs.Refine.specProg app) fuel pc m k tr).stop ≠ .notWf why) →
      Good app fuel ⟨ctx, pc⟩ := by
  intro fuel
  induction fuel with
  | zero =>
    intro ctx m pc k tr _ _ _ hwf
    exact absurd rfl (hwf "fuel exhausted")
  | succ fuel ih =>
    intro ctx m pc k tr hR hsz hpc hwf
    have hok : stepOk app ⟨ctx, pc⟩ = true :=
      stepOk_of_seqOk_one (seqOk_of_spec_go app hw (fuel + 1) ctx m pc k tr 1 hR hsz hpc hwf)
    obtain ⟨hnext, hoff, hret, herr⟩ := Proofs.Refine.step_sim dc app hw ctx m hR pc hpc
    unfold Spec.run.go at hwf
    cases hs : Spec.step (Proofs.Refine.specProg app) pc m with
    | inl st =>
      rw [hs] at hwf
      simp only at hwf
      have hhalt : ∃ h c, stepArch dc app ⟨ctx, pc⟩ = .halt h c ∧ ∀ w, h ≠ .panic w := by
        cases st with
        | ret => obtain ⟨c, hc⟩ := hret hs; exact ⟨_, c, hc, fun w h => by cases h⟩
        | offEnd => obtain ⟨c, hc⟩ := hoff hs; exact ⟨_, c, hc, fun w h => by cases h⟩
        | error e => obtain ⟨c, hc⟩ := herr e hs; exact ⟨_, c, hc, fun w h => by cases h⟩
        | notWf w => exact absurd rfl (hwf w)
      obtain ⟨h, c, hc, hnp⟩ := hhalt
      exact ⟨hok, fun w c' hx => (by rw [hc] at hx; injection hx with hx _; exact hnp w hx), hpc,
        fun a' c' hx => (by rw [hc] at hx; cases hx)⟩
    | inr x =>
      obtain ⟨pc', m', ev⟩ := x
      rw [hs] at hwf
      simp only at hwf
      obtain ⟨ctx', c, hc, hR', hpc'⟩ := hnext pc' m' ev hs
      have hsz' : m'.mem.size + 64 ≤ 2 ^ 31 := by rw [Proofs.Mvp3Spec.step_size _ _ _ _ _ _ hs]; exact hsz
      refine ⟨hok, fun w c' hx => (by rw [hc] at hx; cases hx), hpc, fun a' c' hx => ?_⟩
      rw [hc] at hx; injection hx with hx _; subst hx
      exact ih ctx' m' pc' _ _ hR' hsz' hpc' hwf

theorem Aligned.archAl {app : App} {F : Nat} {a1 a2 : Arch} (h : Aligned app F a1 a2) : ArchAl app a1 a2 := by
  cases F with
  | zero => exact h.elim
  | succ F => exact h.1

/-- **two aligned runs of MVP-4 stay shape-equal**: same outcome, same cycle count, for every tick budget -/
theorem runFrom_vi {app : App} (hnf : NoFwd app) : ∀ (fuel : Nat) (s1 s2 : State) (n F : Nat) (a1 a2 : Arch),
    Sh s1 s2 → Rel app s1 a1 → Rel app s2 a2 → Aligned app F a1 a2 →
    (runFrom app fuel s1 n).halt = (runFrom app fuel s2 n).halt ∧
    (runFrom app fuel s1 n).final.cycles = (runFrom app fuel s2 n).final.cycles ∧
    (runFrom app fuel s1 n).ticks = (runFrom app fuel s2 n).ticks
  | 0, s1, s2, n, F, a1, a2, h, _, _, _ => by
    unfold runFrom
    exact ⟨rfl, h.cycles, rfl⟩
  | fuel + 1, s1, s2, n, F, a1, a2, h, hR1, hR2, hA => by
    have hal := hA.archAl
    have hsh := cycleM_sh h hR1 hR2 hal hnf
    unfold runFrom cycle
    revert hsh
    cases hc1 : cycleM app s1 with
    | error f1 =>
      cases hc2 : cycleM app s2 with
      | ok r2 => intro hsh; exact hsh.elim
      | error f2 =>
        intro hsh
        have : f1 = f2 := hsh
        subst this
        cases f1 <;> exact ⟨rfl, h.cycles, rfl⟩
    | ok r1 =>
      cases hc2 : cycleM app s2 with
      | error f2 => intro hsh; exact hsh.elim
      | ok r2 =>
        obtain ⟨t1, e1⟩ := r1
        obtain ⟨t2, e2⟩ := r2
        intro hsh
        obtain ⟨hsh', hev⟩ : Sh t1 t2 ∧ e1 = e2 := hsh
        subst hev
        simp only
        cases e1 with
        | done hk => exact ⟨rfl, hsh'.cycles, rfl⟩
        | running =>
          simp only
          have x1 := cycleM_x hR1 hnf hal.ok1 hc1
          have x2 := cycleM_x hR2 hnf hal.ok2 hc2
          have hex := hsh'.executed
          have hex0 := h.executed
          -- the two runs made the same kind of tick
          have key : (Rel app t1 a1 ∧ Rel app t2 a2) ∨
              (∃ a1' a2' c1 c2, stepArch dc app a1 = .next a1' c1 ∧ stepArch dc app a2 = .next a2' c2 ∧
                Rel app t1 a1' ∧ Rel app t2 a2') := by
            rcases x1 with ⟨r1, q1⟩ | ⟨r1, ⟨d1, k1⟩, q1⟩ | ⟨b1, d1, k1, r1, q1⟩ <;>
              rcases x2 with ⟨r2, q2⟩ | ⟨r2, ⟨d2, k2⟩, q2⟩ | ⟨b2, d2, k2, r2, q2⟩
            · exact Or.inl ⟨r1, r2⟩
            · omega
            · omega
            · omega
            · exact Or.inl ⟨r1, r2⟩
            · exfalso
              cases F with
              | zero => exact hA.elim
              | succ F' =>
                rcases hA.2 with ⟨hh, e1, e2, g1, g2⟩ | ⟨y1, y2, e1, e2, g1, g2, _⟩
                · rw [g2] at k2; cases k2
                · rw [g1] at k1; cases k1
            · omega
            · exfalso
              cases F with
              | zero => exact hA.elim
              | succ F' =>
                rcases hA.2 with ⟨hh, e1, e2, g1, g2⟩ | ⟨y1, y2, e1, e2, g1, g2, _⟩
                · rw [g1] at k1; cases k1
                · rw [g2] at k2; cases k2
            · exact Or.inr ⟨b1, b2, d1, d2, k1, k2, r1, r2⟩
          rcases key with ⟨r1, r2⟩ | ⟨b1, b2, d1, d2, k1, k2, r1, r2⟩
          · exact runFrom_vi hnf fuel t1 t2 (n + 1) F a1 a2 hsh' r1 r2 hA
          · cases F with
            | zero => exact hA.elim
            | succ F' =>
              rcases hA.2 with ⟨hh, e1, e2, g1, g2⟩ | ⟨y1, y2, e1, e2, g1, g2, hA'⟩
              · rw [g1] at k1; cases k1
              · rw [g1] at k1; rw [g2] at k2
                injection k1 with k1 _; injection k2 with k2 _
                subst k1; subst k2
                exact runFrom_vi hnf fuel t1 t2 (n + 1) F' y1 y2 hsh' r1 r2 hA'


theorem get1_empty_pw (ctx : Model.Context) (h : ctx.PendingWriteRegisters = {}) :
    ∀ r, GoMap.get1 ctx.PendingWriteRegisters r = 0 := by
  intro r; rw [h]; simp [GoMap.get1, GoMap.get, GoMap.find?]

/-- **value independence of MVP-4**: one program, two initial contexts with memories of equal size and empty
scoreboards, both specification runs well-formed and ending within `fuel`, EQUAL timing traces of the unpipelined
machine — then for every tick budget the two MVP-4 runs end the same way, after the same number of ticks, with the
same cycle count -/
theorem mvp4_value_independent (app : App) (hw : Proofs.Refine.WfApp app) (ctx1 ctx2 : Model.Context)
    (m1 m2 : Spec.Machine) (hR1 : Proofs.Refine.Rel ctx1 m1) (hR2 : Proofs.Refine.Rel ctx2 m2)
    (hsz1 : m1.mem.size + 64 ≤ 2 ^ 31) (hsz2 : m2.mem.size + 64 ≤ 2 ^ 31)
    (hpw1 : ctx1.PendingWriteRegisters = {}) (hpw2 : ctx2.PendingWriteRegisters = {})
    (hlen : ctx1.Memory.length = ctx2.Memory.length) (fuel : Nat)
    (hwf1 : ∀ why, (Spec.run (Proofs.Refine.specProg app) m1 fuel).stop ≠ .notWf why)
    (hwf2 : ∀ why, (Spec.run (Proofs.Refine.specProg app) m2 fuel).stop ≠ .notWf why)
    (htr : Model.Timing.traceSeq dc app fuel ⟨ctx1, 0#32⟩ = Model.Timing.traceSeq dc app fuel ⟨ctx2, 0#32⟩)
    (ticks : Nat) :
    (Model.Mvp4.run app ctx1 ticks).halt = (Model.Mvp4.run app ctx2 ticks).halt ∧
    (Model.Mvp4.run app ctx1 ticks).final.cycles = (Model.Mvp4.run app ctx2 ticks).final.cycles ∧
    (Model.Mvp4.run app ctx1 ticks).ticks = (Model.Mvp4.run app ctx2 ticks).ticks := by
  obtain ⟨u, hu, _⟩ := new_ok
  have hi1 : init ctx1 = .ok { ctx := ctx1, mmu := u } := by
    unfold init; simp only [hu, bind, Except.bind, pure, Except.pure]
  have hi2 : init ctx2 = .ok { ctx := ctx2, mmu := u } := by
    unfold init; simp only [hu, bind, Except.bind, pure, Except.pure]
  obtain ⟨s01, hinit1, hRel1⟩ := init_rel app ctx1 ⟨hR1.rat, hR1.tx, get1_empty_pw ctx1 hpw1⟩
  obtain ⟨s02, hinit2, hRel2⟩ := init_rel app ctx2 ⟨hR2.rat, hR2.tx, get1_empty_pw ctx2 hpw2⟩
  have e1 : s01 = { ctx := ctx1, mmu := u } := by rw [hi1] at hinit1; injection hinit1 with h; exact h.symm
  have e2 : s02 = { ctx := ctx2, mmu := u } := by rw [hi2] at hinit2; injection hinit2 with h; exact h.symm
  subst e1; subst e2
  have hsh : Sh ({ ctx := ctx1, mmu := u } : State) { ctx := ctx2, mmu := u } :=
    { fu := rfl, decodeBus := rfl, executeBus := rfl, eu := rfl, writeBus := rfl, wu := rfl, mmu := rfl, cycles := rfl,
      mode := rfl, executed := rfl, pwmi := rfl, pwr := (by show ctx1.PendingWriteRegisters = ctx2.PendingWriteRegisters; rw [hpw1, hpw2]),
      memLen := hlen }
  unfold Spec.run at hwf1 hwf2
  have hsz' : ¬ (Proofs.Refine.specProg app).instrs.size ≥ 250 := by
    have := hw.small
    simp [Proofs.Refine.specProg]; omega
  simp only [hsz', if_false] at hwf1 hwf2
  have hg1 := good_of_spec app hw fuel ctx1 m1 0 0 #[] hR1 hsz1 (by simp) hwf1
  have hg2 := good_of_spec app hw fuel ctx2 m2 0 0 #[] hR2 hsz2 (by simp) hwf2
  have hA := aligned_of_traces hw.small fuel ⟨ctx1, 0#32⟩ ⟨ctx2, 0#32⟩ hg1 hg2 htr
  unfold Model.Mvp4.run
  rw [hi1, hi2]
  exact runFrom_vi hw.nofwd ticks _ _ 0 fuel _ _ hsh hRel1 hRel2 hA

end Proofs.Mvp4

/-
  Proofs/KvLru.lean — the key-value LRU cache model (`Model/KvLru.lean`, tie T2a) keeps
  its representation invariant along every history, evicts exactly the least recently
  touched key, and `Find` answers the least recently touched present candidate.
-/
import MajoranaVerif.Model.KvLru

open _root_.KvLru GoInt

namespace Proofs.KV

variable {K V : Type} [DecidableEq K]

/-! ### association-list lemmas (`GoMap`) -/

theorem mem_keys_setList (key : K) (v : V) (es : List (K × V)) (k : K) :
    k ∈ (GoMap.setList key v es).map (·.1) ↔ k = key ∨ k ∈ es.map (·.1) := by
  induction es with
  | nil => simp [GoMap.setList]
  | cons p rest ih =>
    obtain ⟨k', v'⟩ := p
    by_cases hk : k' = key
    · subst hk
      simp [GoMap.setList]
    · have hb : (k' == key) = false := by simpa using hk
      simp only [GoMap.setList, hb, Bool.false_eq_true, if_false, List.map_cons, List.mem_cons, ih]
      constructor
      · rintro (h | h | h)
        · exact Or.inr (Or.inl h)
        · exact Or.inl h
        · exact Or.inr (Or.inr h)
      · rintro (h | h | h)
        · exact Or.inr (Or.inl h)
        · exact Or.inl h
        · exact Or.inr (Or.inr h)

/-- keys after `setList`: unchanged when the key is present -/
theorem keys_setList_of_mem (key : K) (v : V) (es : List (K × V)) (h : key ∈ es.map (·.1)) :
    (GoMap.setList key v es).map (·.1) = es.map (·.1) := by
  induction es with
  | nil => cases h
  | cons p rest ih =>
    obtain ⟨k', v'⟩ := p
    by_cases hk : k' = key
    · subst hk
      simp [GoMap.setList]
    · have hb : (k' == key) = false := by simpa using hk
      have hr : key ∈ rest.map (·.1) := by
        simp only [List.map_cons, List.mem_cons] at h
        rcases h with h | h
        · exact absurd h.symm hk
        · exact h
      simp only [GoMap.setList, hb, Bool.false_eq_true, if_false, List.map_cons, ih hr]

/-- keys after `setList`: the key is appended when it is absent -/
theorem keys_setList_of_not_mem (key : K) (v : V) (es : List (K × V)) (h : key ∉ es.map (·.1)) :
    (GoMap.setList key v es).map (·.1) = es.map (·.1) ++ [key] := by
  induction es with
  | nil => rfl
  | cons p rest ih =>
    obtain ⟨k', v'⟩ := p
    simp only [List.map_cons, List.mem_cons, not_or] at h
    have hk : ¬ k' = key := fun e => h.1 e.symm
    have hb : (k' == key) = false := by simpa using hk
    simp only [GoMap.setList, hb, Bool.false_eq_true, if_false, List.map_cons, ih h.2, List.cons_append]

theorem length_setList_of_mem (key : K) (v : V) (es : List (K × V)) (h : key ∈ es.map (·.1)) :
    (GoMap.setList key v es).length = es.length := by
  have := congrArg List.length (keys_setList_of_mem key v es h)
  simpa using this

theorem length_setList_of_not_mem (key : K) (v : V) (es : List (K × V)) (h : key ∉ es.map (·.1)) :
    (GoMap.setList key v es).length = es.length + 1 := by
  have := congrArg List.length (keys_setList_of_not_mem key v es h)
  simpa using this

theorem nodup_keys_setList (key : K) (v : V) (es : List (K × V)) (h : (es.map (·.1)).Nodup) :
    ((GoMap.setList key v es).map (·.1)).Nodup := by
  by_cases hm : key ∈ es.map (·.1)
  · rw [keys_setList_of_mem key v es hm]; exact h
  · rw [keys_setList_of_not_mem key v es hm]
    refine List.nodup_append.2 ⟨h, List.nodup_cons.2 ⟨List.not_mem_nil, List.nodup_nil⟩, ?_⟩
    intro a ha b hb e
    simp only [List.mem_singleton] at hb
    subst hb; subst e
    exact hm ha

theorem lookup_setList_self (key : K) (v : V) (es : List (K × V)) :
    (GoMap.setList key v es).lookup key = some v := by
  induction es with
  | nil => simp [GoMap.setList]
  | cons p rest ih =>
    obtain ⟨k', v'⟩ := p
    by_cases hk : k' = key
    · subst hk
      simp [GoMap.setList]
    · have hb : (k' == key) = false := by simpa using hk
      have hb' : (key == k') = false := by simpa using fun e : key = k' => hk e.symm
      simp only [GoMap.setList, hb, Bool.false_eq_true, if_false, List.lookup, hb']
      exact ih

theorem lookup_setList_ne (key : K) (v : V) (es : List (K × V)) (k : K) (hne : k ≠ key) :
    (GoMap.setList key v es).lookup k = es.lookup k := by
  have hkk : (k == key) = false := by simpa using hne
  induction es with
  | nil => simp [GoMap.setList, List.lookup, hkk]
  | cons p rest ih =>
    obtain ⟨k', v'⟩ := p
    by_cases hk : k' = key
    · subst hk
      simp [GoMap.setList, List.lookup, hkk]
    · have hb : (k' == key) = false := by simpa using hk
      simp only [GoMap.setList, hb, List.lookup, Bool.false_eq_true, if_false]
      cases (k == k') with
      | true => rfl
      | false => exact ih

theorem lookup_eq_none_iff_not_mem (es : List (K × V)) (k : K) :
    es.lookup k = none ↔ k ∉ es.map (·.1) := by
  induction es with
  | nil => simp [List.lookup]
  | cons p rest ih =>
    obtain ⟨k', v'⟩ := p
    by_cases hk : k = k'
    · subst hk
      simp [List.lookup]
    · have hb : (k == k') = false := by simpa using hk
      simp only [List.lookup, hb, ih, List.map_cons, List.mem_cons, not_or]
      exact ⟨fun h => ⟨hk, h⟩, fun h => h.2⟩

theorem keys_filter_ne (es : List (K × V)) (k0 : K) :
    (es.filter (fun p => !(p.1 == k0))).map (·.1) = (es.map (·.1)).filter (fun k => !(k == k0)) := by
  rw [List.filter_map]
  rfl

theorem length_filter_ne_of_not_mem (es : List (K × V)) (k0 : K) (h : k0 ∉ es.map (·.1)) :
    es.filter (fun p => !(p.1 == k0)) = es := by
  apply List.filter_eq_self.2
  intro p hp
  have : p.1 ≠ k0 := fun e => h (e ▸ List.mem_map_of_mem (f := (·.1)) hp)
  simpa using this

/-- erasing a present key from a duplicate-free map removes exactly one entry -/
theorem length_filter_ne_of_mem (es : List (K × V)) (k0 : K) (hn : (es.map (·.1)).Nodup)
    (h : k0 ∈ es.map (·.1)) :
    (es.filter (fun p => !(p.1 == k0))).length + 1 = es.length := by
  induction es with
  | nil => cases h
  | cons p rest ih =>
    obtain ⟨k', v'⟩ := p
    simp only [List.map_cons, List.nodup_cons] at hn
    by_cases hk : k' = k0
    · subst hk
      have hb : (k' == k') = true := by simp
      rw [List.filter_cons]
      simp only [hb, Bool.not_true, Bool.false_eq_true, if_false]
      rw [length_filter_ne_of_not_mem rest k' hn.1]
      rfl
    · have hb : (k' == k0) = false := by simpa using hk
      have hr : k0 ∈ rest.map (·.1) := by
        simp only [List.map_cons, List.mem_cons] at h
        rcases h with h | h
        · exact absurd h.symm hk
        · exact h
      rw [List.filter_cons]
      simp only [hb, Bool.not_false, if_true, List.length_cons]
      have := ih hn.2 hr
      omega

/-! ### `GoMap` level -/

theorem find?_eq_none_iff (m : GoMap K V) (k : K) : m.find? k = none ↔ k ∉ m.keys :=
  lookup_eq_none_iff_not_mem m.entries k

theorem mem_keys_of_find?_ne_none (m : GoMap K V) (k : K) (h : m.find? k ≠ none) : k ∈ m.keys :=
  Classical.byContradiction fun hn => h ((find?_eq_none_iff m k).2 hn)

theorem mem_keys_set (m : GoMap K V) (key : K) (v : V) (k : K) :
    k ∈ (m.set key v).keys ↔ k = key ∨ k ∈ m.keys :=
  mem_keys_setList key v m.entries k

theorem keys_erase (m : GoMap K V) (k0 : K) :
    (m.erase k0).keys = m.keys.filter (fun k => !(k == k0)) :=
  keys_filter_ne m.entries k0

theorem mem_keys_erase (m : GoMap K V) (k0 k : K) :
    k ∈ (m.erase k0).keys ↔ k ∈ m.keys ∧ k ≠ k0 := by
  rw [keys_erase, List.mem_filter]
  simp

theorem nodup_keys_set (m : GoMap K V) (key : K) (v : V) (h : m.keys.Nodup) :
    (m.set key v).keys.Nodup :=
  nodup_keys_setList key v m.entries h

theorem nodup_keys_erase (m : GoMap K V) (k0 : K) (h : m.keys.Nodup) : (m.erase k0).keys.Nodup := by
  rw [keys_erase]
  exact h.sublist List.filter_sublist

theorem find?_set_self (m : GoMap K V) (key : K) (v : V) : (m.set key v).find? key = some v :=
  lookup_setList_self key v m.entries

theorem find?_set_ne (m : GoMap K V) (key : K) (v : V) (k : K) (hne : k ≠ key) :
    (m.set key v).find? k = m.find? k :=
  lookup_setList_ne key v m.entries k hne

theorem length_set_of_mem (m : GoMap K V) (key : K) (v : V) (h : key ∈ m.keys) :
    (m.set key v).entries.length = m.entries.length :=
  length_setList_of_mem key v m.entries h

theorem length_set_of_not_mem (m : GoMap K V) (key : K) (v : V) (h : key ∉ m.keys) :
    (m.set key v).entries.length = m.entries.length + 1 :=
  length_setList_of_not_mem key v m.entries h

theorem length_erase_of_mem (m : GoMap K V) (k0 : K) (hn : m.keys.Nodup) (h : k0 ∈ m.keys) :
    (m.erase k0).entries.length + 1 = m.entries.length :=
  length_filter_ne_of_mem m.entries k0 hn h

/-! ### the three calls, case by case -/

theorem put_eq_full (l : Kv K V) (key : K) (v : V) (k0 : K) (rest : List K)
    (hc : l.cache.find? key = none) (hl : l.cache.entries.length = l.capacity)
    (ho : l.order = k0 :: rest) :
    put l key v = .ok { l with cache := (l.cache.erase k0).set key v, order := refreshOrder rest key } := by
  obtain ⟨c, m, o⟩ := l
  simp only at hc hl ho
  subst ho
  simp [put, hc, hl]
  rfl

theorem put_eq_panic (l : Kv K V) (key : K) (v : V)
    (hc : l.cache.find? key = none) (hl : l.cache.entries.length = l.capacity)
    (ho : l.order = []) :
    put l key v = .error (.panic "index out of range") := by
  obtain ⟨c, m, o⟩ := l
  simp only at hc hl ho
  subst ho
  simp [put, hc, hl]
  rfl

theorem put_eq_keep (l : Kv K V) (key : K) (v : V)
    (hc : l.cache.find? key ≠ none ∨ l.cache.entries.length ≠ l.capacity) :
    put l key v = .ok { l with cache := l.cache.set key v, order := refreshOrder l.order key } := by
  have hb : ((l.cache.find? key).isNone && l.cache.entries.length == l.capacity) = false := by
    rcases hc with hc | hc
    · cases hf : l.cache.find? key with
      | none => exact absurd hf hc
      | some x => rfl
    · have : (l.cache.entries.length == l.capacity) = false := by simpa using hc
      rw [this, Bool.and_false]
  simp only [put, hb, Bool.false_eq_true, if_false]
  rfl

theorem find_eq (l : Kv K V) (ks : List K) :
    find l ks = match l.order.find? (fun k => ks.contains k) with
      | some k => (some k, { l with order := refreshOrder l.order k })
      | none => (none, l) := by
  unfold find
  split
  · rename_i h0
    have : l.order = [] := List.eq_nil_of_length_eq_zero h0
    rw [this]
    rfl
  · rfl

theorem find_of_none (l : Kv K V) (ks : List K)
    (hf : l.order.find? (fun k => ks.contains k) = none) : find l ks = (none, l) := by
  rw [find_eq, hf]

theorem find_of_some (l : Kv K V) (ks : List K) (k : K)
    (hf : l.order.find? (fun k => ks.contains k) = some k) :
    find l ks = (some k, { l with order := refreshOrder l.order k }) := by
  rw [find_eq, hf]

/-! ### stamps -/

theorem stamp_cons (cap : Nat) (k : K) (op : Op K V) (h : List (Op K V)) :
    stamp cap k (op :: h) =
      if touchedBy (after cap h) op = some k then h.length + 1 else stamp cap k h := rfl

theorem stamp_le (cap : Nat) (k : K) (h : List (Op K V)) : stamp cap k h ≤ h.length := by
  induction h with
  | nil => exact Nat.le_refl _
  | cons op h ih =>
    rw [stamp_cons]
    split
    · exact Nat.le_refl _
    · exact Nat.le_succ_of_le ih

theorem stamp_touched (cap : Nat) (k : K) (op : Op K V) (h : List (Op K V))
    (ht : touchedBy (after cap h) op = some k) : stamp cap k (op :: h) = h.length + 1 := by
  rw [stamp_cons, if_pos ht]

theorem stamp_other (cap : Nat) (k k' : K) (op : Op K V) (h : List (Op K V))
    (ht : touchedBy (after cap h) op = some k') (hne : k ≠ k') :
    stamp cap k (op :: h) = stamp cap k h := by
  rw [stamp_cons, if_neg]
  rw [ht]
  intro e
  exact hne (Option.some.inj e).symm

theorem stamp_untouched (cap : Nat) (k : K) (op : Op K V) (h : List (Op K V))
    (ht : touchedBy (after cap h) op = none) : stamp cap k (op :: h) = stamp cap k h := by
  rw [stamp_cons, if_neg]
  rw [ht]
  intro e
  cases e

/-! ### the invariant -/

/-- invariant of every reachable state, relative to the history that produced it -/
structure Inv (cap : Nat) (h : List (Op K V)) (l : Kv K V) : Prop where
  cap_eq : l.capacity = cap
  keysNodup : l.cache.keys.Nodup
  orderNodup : l.order.Nodup
  sameKeys : ∀ k, k ∈ l.order ↔ k ∈ l.cache.keys
  size : l.cache.entries.length ≤ cap
  pos : ∀ k ∈ l.order, 0 < stamp cap k h
  sorted : l.order.Pairwise (fun a b => stamp cap a h < stamp cap b h)

/-- a call that touches no key changes neither the state nor any stamp -/
theorem inv_untouched {cap : Nat} {h : List (Op K V)} {op : Op K V}
    (hi : Inv cap h (after cap h)) (ht : touchedBy (after cap h) op = none) :
    Inv cap (op :: h) (after cap h) := by
  have e : ∀ x, stamp cap x (op :: h) = stamp cap x h := fun x => stamp_untouched cap x op h ht
  refine ⟨hi.cap_eq, hi.keysNodup, hi.orderNodup, hi.sameKeys, hi.size, ?_, ?_⟩
  · intro k hk
    rw [e]
    exact hi.pos k hk
  · simp only [e]
    exact hi.sorted

/-- with an empty order the history does not matter -/
theorem inv_of_order_nil {cap : Nat} {h h' : List (Op K V)} {l : Kv K V}
    (hi : Inv cap h l) (ho : l.order = []) : Inv cap h' l := by
  refine ⟨hi.cap_eq, hi.keysNodup, hi.orderNodup, hi.sameKeys, hi.size, ?_, ?_⟩
  · intro k hk
    rw [ho] at hk
    cases hk
  · rw [ho]
    exact List.Pairwise.nil

/-- a call that touches `k` and moves it to the end of (a sublist of) the order -/
theorem inv_touch {cap : Nat} {h : List (Op K V)} {op : Op K V} {k : K} {l' : Kv K V} {o' : List K}
    (hi : Inv cap h (after cap h)) (ht : touchedBy (after cap h) op = some k)
    (hsub : o'.Sublist (after cap h).order) (hord : l'.order = o'.erase k ++ [k])
    (hcap : l'.capacity = cap) (hkn : l'.cache.keys.Nodup)
    (hsame : ∀ x, x ∈ l'.order ↔ x ∈ l'.cache.keys) (hsize : l'.cache.entries.length ≤ cap) :
    Inv cap (op :: h) l' := by
  have hnd : o'.Nodup := hi.orderNodup.sublist hsub
  have hk : stamp cap k (op :: h) = h.length + 1 := stamp_touched cap k op h ht
  have hmem : ∀ x, x ∈ o'.erase k → x ≠ k ∧ x ∈ (after cap h).order := by
    intro x hx
    have := (hnd.mem_erase_iff).1 hx
    exact ⟨this.1, hsub.subset this.2⟩
  have hoth : ∀ x, x ∈ o'.erase k → stamp cap x (op :: h) = stamp cap x h :=
    fun x hx => stamp_other cap x k op h ht (hmem x hx).1
  refine ⟨hcap, hkn, ?_, hsame, hsize, ?_, ?_⟩
  · rw [hord]
    refine List.nodup_append.2 ⟨hnd.erase k, List.nodup_cons.2 ⟨List.not_mem_nil, List.nodup_nil⟩, ?_⟩
    intro a ha b hb e
    simp only [List.mem_singleton] at hb
    subst hb
    exact (hmem a ha).1 e
  · intro x hx
    rw [hord, List.mem_append, List.mem_singleton] at hx
    rcases hx with hx | hx
    · rw [hoth x hx]
      exact hi.pos x (hmem x hx).2
    · subst hx
      rw [hk]
      exact Nat.succ_pos _
  · rw [hord]
    refine List.pairwise_append.2 ⟨?_, List.pairwise_singleton _ _, ?_⟩
    · have hs : (o'.erase k).Sublist (after cap h).order := List.erase_sublist.trans hsub
      have hp := hi.sorted.sublist hs
      refine List.Pairwise.imp_of_mem ?_ hp
      intro a b ha hb hab
      rw [hoth a ha, hoth b hb]
      exact hab
    · intro a ha b hb
      simp only [List.mem_singleton] at hb
      subst hb
      rw [hoth a ha, hk]
      exact Nat.lt_succ_of_le (stamp_le cap a h)

/-- a call that only refreshes a present key -/
theorem inv_refresh {cap : Nat} {h : List (Op K V)} {op : Op K V} {k : K}
    (hi : Inv cap h (after cap h)) (ht : touchedBy (after cap h) op = some k)
    (hk : k ∈ (after cap h).order) :
    Inv cap (op :: h)
      { after cap h with order := refreshOrder (after cap h).order k } := by
  refine inv_touch (o' := (after cap h).order) hi ht (List.Sublist.refl _) rfl hi.cap_eq
    hi.keysNodup ?_ hi.size
  intro x
  show x ∈ (after cap h).order.erase k ++ [k] ↔ x ∈ (after cap h).cache.keys
  rw [List.mem_append, List.mem_singleton, ← hi.sameKeys]
  by_cases hx : x = k
  · subst hx
    exact ⟨fun _ => hk, fun _ => Or.inr rfl⟩
  · rw [List.mem_erase_of_ne hx]
    exact ⟨fun h => h.elim id (fun e => absurd e hx), Or.inl⟩

theorem inv_put_full {cap : Nat} {h : List (Op K V)} {key : K} {v : V} {k0 : K} {rest : List K}
    (hi : Inv cap h (after cap h))
    (hc : (after cap h).cache.find? key = none)
    (hl : (after cap h).cache.entries.length = (after cap h).capacity)
    (ho : (after cap h).order = k0 :: rest) :
    Inv cap (Op.put key v :: h)
      { after cap h with cache := ((after cap h).cache.erase k0).set key v,
                         order := refreshOrder rest key } := by
  have hkey : key ∉ (after cap h).cache.keys := (find?_eq_none_iff _ _).1 hc
  have hnd : (k0 :: rest).Nodup := ho ▸ hi.orderNodup
  have hk0 : k0 ∈ (after cap h).cache.keys := (hi.sameKeys k0).1 (ho ▸ List.mem_cons_self)
  refine inv_touch (o' := rest) hi rfl (ho ▸ List.sublist_cons_self k0 rest) rfl hi.cap_eq
    (nodup_keys_set _ _ _ (nodup_keys_erase _ _ hi.keysNodup)) ?_ ?_
  · intro x
    show x ∈ rest.erase key ++ [key] ↔ x ∈ (((after cap h).cache.erase k0).set key v).keys
    rw [mem_keys_set, mem_keys_erase, List.mem_append, List.mem_singleton,
      (List.nodup_cons.1 hnd).2.mem_erase_iff, ← hi.sameKeys, ho, List.mem_cons]
    constructor
    · rintro (⟨_, hx⟩ | hx)
      · refine Or.inr ⟨Or.inr hx, ?_⟩
        intro e
        subst e
        exact (List.nodup_cons.1 hnd).1 hx
      · exact Or.inl hx
    · rintro (hx | ⟨hx, hne⟩)
      · exact Or.inr hx
      · by_cases hxk : x = key
        · exact Or.inr hxk
        · rcases hx with hx | hx
          · exact absurd hx hne
          · exact Or.inl ⟨hxk, hx⟩
  · show (((after cap h).cache.erase k0).set key v).entries.length ≤ cap
    have hkey' : key ∉ ((after cap h).cache.erase k0).keys := by
      rw [mem_keys_erase]
      exact fun hh => hkey hh.1
    rw [length_set_of_not_mem _ _ _ hkey']
    have h1 := length_erase_of_mem _ k0 hi.keysNodup hk0
    have h2 := hi.size
    omega

theorem inv_put_keep {cap : Nat} {h : List (Op K V)} {key : K} {v : V}
    (hi : Inv cap h (after cap h))
    (hc : (after cap h).cache.find? key ≠ none ∨
      (after cap h).cache.entries.length ≠ (after cap h).capacity) :
    Inv cap (Op.put key v :: h)
      { after cap h with cache := (after cap h).cache.set key v,
                         order := refreshOrder (after cap h).order key } := by
  refine inv_touch (o' := (after cap h).order) hi rfl (List.Sublist.refl _) rfl hi.cap_eq
    (nodup_keys_set _ _ _ hi.keysNodup) ?_ ?_
  · intro x
    show x ∈ (after cap h).order.erase key ++ [key] ↔ x ∈ ((after cap h).cache.set key v).keys
    rw [mem_keys_set, List.mem_append, List.mem_singleton, ← hi.sameKeys]
    by_cases hx : x = key
    · exact ⟨fun _ => Or.inl hx, fun _ => Or.inr hx⟩
    · rw [List.mem_erase_of_ne hx]
      exact ⟨fun h => h.elim Or.inr Or.inl, fun h => h.elim Or.inr Or.inl⟩
  · show ((after cap h).cache.set key v).entries.length ≤ cap
    by_cases hm : key ∈ (after cap h).cache.keys
    · rw [length_set_of_mem _ _ _ hm]
      exact hi.size
    · rw [length_set_of_not_mem _ _ _ hm]
      have hne : (after cap h).cache.entries.length ≠ (after cap h).capacity := by
        rcases hc with hc | hc
        · exact absurd ((find?_eq_none_iff _ _).2 hm) hc
        · exact hc
      have h1 := hi.size
      have h2 := hi.cap_eq
      omega

theorem inv_step {cap : Nat} {h : List (Op K V)} (hi : Inv cap h (after cap h)) (op : Op K V) :
    Inv cap (op :: h) (step (after cap h) op) := by
  cases op with
  | put key v =>
    by_cases hc : (after cap h).cache.find? key = none ∧
        (after cap h).cache.entries.length = (after cap h).capacity
    · cases ho : (after cap h).order with
      | nil =>
        simp only [step, put_eq_panic _ key v hc.1 hc.2 ho]
        exact inv_of_order_nil hi ho
      | cons k0 rest =>
        simp only [step, put_eq_full _ key v k0 rest hc.1 hc.2 ho]
        exact inv_put_full hi hc.1 hc.2 ho
    · have hc' : (after cap h).cache.find? key ≠ none ∨
          (after cap h).cache.entries.length ≠ (after cap h).capacity := by
        by_cases h1 : (after cap h).cache.find? key = none
        · exact Or.inr fun h2 => hc ⟨h1, h2⟩
        · exact Or.inl h1
      simp only [step, put_eq_keep _ key v hc']
      exact inv_put_keep hi hc'
  | get k =>
    cases hf : (after cap h).cache.find? k with
    | none =>
      have hs : step (after cap h) (Op.get k) = after cap h := by simp [step, KvLru.get, hf]
      rw [hs]
      exact inv_untouched hi (by simp [touchedBy, hf])
    | some v =>
      have hs : step (after cap h) (Op.get k) =
          { after cap h with order := refreshOrder (after cap h).order k } := by
        simp [step, KvLru.get, hf]
      rw [hs]
      have hk : k ∈ (after cap h).order :=
        (hi.sameKeys k).2 (mem_keys_of_find?_ne_none _ _ (by rw [hf]; exact Option.some_ne_none v))
      exact inv_refresh hi (by simp [touchedBy, hf]) hk
  | find ks =>
    cases hf : (after cap h).order.find? (fun k => ks.contains k) with
    | none =>
      have hs : step (after cap h) (Op.find ks) = after cap h := by
        simp only [step, find_of_none _ ks hf]
      rw [hs]
      exact inv_untouched hi (by simp only [touchedBy, find_of_none _ ks hf])
    | some k =>
      have hs : step (after cap h) (Op.find ks) =
          { after cap h with order := refreshOrder (after cap h).order k } := by
        simp only [step, find_of_some _ ks k hf]
      rw [hs]
      exact inv_refresh hi (by simp only [touchedBy, find_of_some _ ks k hf])
        (List.mem_of_find?_eq_some hf)

theorem inv_after (cap : Nat) (h : List (Op K V)) : Inv cap h (after cap h) := by
  induction h with
  | nil =>
    refine ⟨rfl, List.nodup_nil, List.nodup_nil, ?_, Nat.zero_le _, ?_, List.Pairwise.nil⟩
    · intro k
      exact ⟨fun hk => (nomatch hk), fun hk => (nomatch hk)⟩
    · intro k hk
      exact nomatch hk
  | cons op h ih => exact inv_step ih op

/-! ### the observable statements -/

/-- Put of a new key into a full map removes exactly `order[0]`, which is the least recently touched key -/
theorem put_full (cap : Nat) (h : List (Op K V)) (key : K) (v : V)
    (hnew : (after cap h).cache.find? key = none) (hfull : (after cap h).cache.entries.length = cap) (hcap : 0 < cap) :
    ∃ k0 rest l', (after cap h).order = k0 :: rest ∧ put (after cap h) key v = .ok l' ∧
      l'.order = rest ++ [key] ∧ k0 ∉ l'.cache.keys ∧
      (∀ k ∈ (after cap h).order, stamp cap k0 h ≤ stamp cap k h) ∧
      (∀ k ∈ rest, k ∈ l'.cache.keys) ∧ l'.cache.find? key = some v := by
  have hi := inv_after cap h
  have hkey : key ∉ (after cap h).cache.keys := (find?_eq_none_iff _ _).1 hnew
  have hl : (after cap h).cache.entries.length = (after cap h).capacity := by rw [hfull, hi.cap_eq]
  cases ho : (after cap h).order with
  | nil =>
    exfalso
    have hkeys : (after cap h).cache.keys = [] := by
      apply List.eq_nil_iff_forall_not_mem.2
      intro x hx
      have := (hi.sameKeys x).2 hx
      rw [ho] at this
      cases this
    have : (after cap h).cache.entries.length = 0 := by
      have := congrArg List.length hkeys
      simpa [GoMap.keys] using this
    omega
  | cons k0 rest =>
    have hnd : (k0 :: rest).Nodup := ho ▸ hi.orderNodup
    have hsorted := hi.sorted
    rw [ho] at hsorted
    have hk0 : k0 ∈ (after cap h).cache.keys := (hi.sameKeys k0).1 (ho ▸ List.mem_cons_self)
    have hrest : key ∉ rest := fun hm =>
      hkey ((hi.sameKeys key).1 (ho ▸ List.mem_cons_of_mem _ hm))
    refine ⟨k0, rest, _, rfl, put_eq_full _ key v k0 rest hnew hl ho, ?_, ?_, ?_, ?_, ?_⟩
    · show rest.erase key ++ [key] = rest ++ [key]
      rw [List.erase_of_not_mem hrest]
    · show k0 ∉ (((after cap h).cache.erase k0).set key v).keys
      rw [mem_keys_set, mem_keys_erase]
      rintro (e | ⟨_, e⟩)
      · exact hkey (e ▸ hk0)
      · exact e rfl
    · intro k hk
      rw [List.mem_cons] at hk
      rcases hk with hk | hk
      · rw [hk]; exact Nat.le_refl _
      · exact Nat.le_of_lt ((List.pairwise_cons.1 hsorted).1 k hk)
    · intro k hk
      show k ∈ (((after cap h).cache.erase k0).set key v).keys
      rw [mem_keys_set, mem_keys_erase]
      refine Or.inr ⟨(hi.sameKeys k).1 (ho ▸ List.mem_cons_of_mem _ hk), ?_⟩
      intro e
      subst e
      exact (List.nodup_cons.1 hnd).1 hk
    · exact find?_set_self _ key v

/-- Put of a present key, or into a map that is not full, removes nothing -/
theorem put_keeps (cap : Nat) (h : List (Op K V)) (key : K) (v : V)
    (hk : (after cap h).cache.find? key ≠ none ∨ (after cap h).cache.entries.length < cap) :
    ∃ l', put (after cap h) key v = .ok l' ∧ l'.order = (after cap h).order.erase key ++ [key] ∧
      (∀ k ∈ (after cap h).cache.keys, k ∈ l'.cache.keys) ∧ l'.cache.find? key = some v := by
  have hi := inv_after cap h
  have hc : (after cap h).cache.find? key ≠ none ∨
      (after cap h).cache.entries.length ≠ (after cap h).capacity := by
    rcases hk with hk | hk
    · exact Or.inl hk
    · refine Or.inr ?_
      rw [hi.cap_eq]
      exact Nat.ne_of_lt hk
  refine ⟨_, put_eq_keep _ key v hc, rfl, ?_, find?_set_self _ key v⟩
  intro k hk
  show k ∈ ((after cap h).cache.set key v).keys
  exact (mem_keys_set _ _ _ _).2 (Or.inr hk)

/-- whatever key a call touches becomes the most recent one (last of `order`) -/
theorem touch_mru (cap : Nat) (h : List (Op K V)) (op : Op K V) (k : K) (hcap : 0 < cap)
    (ht : touchedBy (after cap h) op = some k) : (after cap (op :: h)).order.getLast? = some k := by
  have hi := inv_after cap h
  show (step (after cap h) op).order.getLast? = some k
  cases op with
  | put key v =>
    have hkk : key = k := Option.some.inj ht
    subst hkk
    by_cases hc : (after cap h).cache.find? key = none ∧
        (after cap h).cache.entries.length = (after cap h).capacity
    · cases ho : (after cap h).order with
      | nil =>
        exfalso
        have hkeys : (after cap h).cache.keys = [] := by
          apply List.eq_nil_iff_forall_not_mem.2
          intro x hx
          have := (hi.sameKeys x).2 hx
          rw [ho] at this
          cases this
        have h0 : (after cap h).cache.entries.length = 0 := by
          have := congrArg List.length hkeys
          simpa [GoMap.keys] using this
        have h1 := hc.2
        have h2 := hi.cap_eq
        omega
      | cons k0 rest =>
        simp only [step, put_eq_full _ key v k0 rest hc.1 hc.2 ho]
        exact List.getLast?_concat
    · have hc' : (after cap h).cache.find? key ≠ none ∨
          (after cap h).cache.entries.length ≠ (after cap h).capacity := by
        by_cases h1 : (after cap h).cache.find? key = none
        · exact Or.inr fun h2 => hc ⟨h1, h2⟩
        · exact Or.inl h1
      simp only [step, put_eq_keep _ key v hc']
      exact List.getLast?_concat
  | get k' =>
    cases hf : (after cap h).cache.find? k' with
    | none => simp [touchedBy, hf] at ht
    | some v =>
      have hkk : k' = k := by simpa [touchedBy, hf] using ht
      subst hkk
      have hs : step (after cap h) (Op.get k') =
          { after cap h with order := refreshOrder (after cap h).order k' } := by
        simp [step, KvLru.get, hf]
      rw [hs]
      exact List.getLast?_concat
  | find ks =>
    cases hf : (after cap h).order.find? (fun k => ks.contains k) with
    | none =>
      simp only [touchedBy, find_of_none _ ks hf] at ht
      cases ht
    | some k' =>
      simp only [touchedBy, find_of_some _ ks k' hf] at ht
      have hkk : k' = k := Option.some.inj ht
      subst hkk
      simp only [step, find_of_some _ ks k' hf]
      exact List.getLast?_concat

/-- Find answers the least recently touched present member of `ks`, and misses only when none is present -/
theorem find_least_recent (cap : Nat) (h : List (Op K V)) (ks : List K) :
    (∀ k, (find (after cap h) ks).1 = some k →
        k ∈ ks ∧ k ∈ (after cap h).cache.keys ∧
        ∀ k' ∈ ks, k' ∈ (after cap h).cache.keys → stamp cap k h ≤ stamp cap k' h) ∧
    ((find (after cap h) ks).1 = none ↔ ∀ k ∈ ks, k ∉ (after cap h).cache.keys) := by
  have hi := inv_after cap h
  cases hf : (after cap h).order.find? (fun k => ks.contains k) with
  | none =>
    rw [find_of_none _ ks hf]
    refine ⟨fun k hk => (nomatch hk), fun _ => ?_, fun _ => rfl⟩
    intro k hk hmem
    have := List.find?_eq_none.1 hf k ((hi.sameKeys k).2 hmem)
    exact this (List.contains_iff_mem.2 hk)
  | some k0 =>
    rw [find_of_some _ ks k0 hf]
    obtain ⟨hp, as, bs, hobs, has⟩ := List.find?_eq_some_iff_append.1 hf
    have hk0ks : k0 ∈ ks := List.contains_iff_mem.1 hp
    have hk0o : k0 ∈ (after cap h).order := List.mem_of_find?_eq_some hf
    have hk0m : k0 ∈ (after cap h).cache.keys := (hi.sameKeys k0).1 hk0o
    refine ⟨?_, fun hn => (nomatch hn), fun hall => absurd hk0m (hall k0 hk0ks)⟩
    intro k hk
    have hkk : k0 = k := Option.some.inj hk
    subst hkk
    refine ⟨hk0ks, hk0m, ?_⟩
    intro k' hk' hm'
    have hko : k' ∈ (after cap h).order := (hi.sameKeys k').2 hm'
    have hsorted := hi.sorted
    rw [hobs] at hko hsorted
    rw [List.mem_append, List.mem_cons] at hko
    rcases hko with hko | hko | hko
    · have := has k' hko
      rw [List.contains_iff_mem.2 hk'] at this
      cases this
    · rw [hko]; exact Nat.le_refl _
    · have := (List.pairwise_append.1 hsorted).2.1
      exact Nat.le_of_lt ((List.pairwise_cons.1 this).1 k' hko)

/-- Get answers the stored value and does not change the map -/
theorem get_value (l : Kv K V) (k : K) : (get l k).1 = l.cache.find? k ∧ (get l k).2.cache = l.cache := by
  unfold KvLru.get
  cases hf : l.cache.find? k with
  | none => exact ⟨rfl, rfl⟩
  | some v => exact ⟨rfl, rfl⟩

end Proofs.KV

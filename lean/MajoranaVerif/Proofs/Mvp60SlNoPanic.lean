/-
  Proofs/Mvp60SlNoPanic.lean — package R60c: on the class with jumps the MVP-6.0 model never ends with a Go panic (the
  "not with a Go panic" half of totality): every tick from a related state returns normally.
-/
import MajoranaVerif.Proofs.Mvp60SlRun
open GoInt

set_option linter.unusedSimpArgs false
set_option linter.unusedVariables false

namespace Proofs.Mvp60Sl
open Model Model.Mvp60 Proofs.Mvp60Flush
open Model.Seq (App Halt Arch stepArch)

theorem jclass_all {app : App} (h : JClass app = true) : ∀ i ∈ app.instrs, jInstr app i = true := by
  simp only [JClass, Bool.and_eq_true, List.all_eq_true] at h
  exact h.1

theorem goFlush_running (from_ pc : Word) : ∀ (n i : Nat) (s : State), (goFlush s from_ pc n i).2 = .running := by
  intro n
  induction n with
  | zero => intro i s; rfl
  | succ n ih =>
    intro i s
    simp only [goFlush]
    split
    · rfl
    · split
      · rfl
      · exact ih (i + 1) s

theorem goFlush_mmu (from_ pc : Word) : ∀ (n i : Nat) (s : State), (goFlush s from_ pc n i).1.mmu = s.mmu := by
  intro n
  induction n with
  | zero => intro i s; rfl
  | succ n ih =>
    intro i s
    simp only [goFlush]
    split
    · rfl
    · split
      · rfl
      · exact ih (i + 1) s

/-- the execute units behind a flushing one never panic -/
theorem eusWrong_ok (app : App) (hp : ProgJ app) (s0 : State) (a' : Arch) (from_ : Word) : ∀ (n i : Nat) (s : State) (acc : EuAcc),
    i + n = s.eus.length → FlushNow app s0 s a' from_ → (∀ y ∈ s.executeBus.queue, ¬ isBr y) →
    ∃ r, eusCycle app n i s acc = .ok r := by
  intro n
  induction n with
  | zero => intro i s acc _ _ _; exact ⟨_, rfl⟩
  | succ n ih =>
    intro i s acc hlen hf hnb
    obtain ⟨nb, m, _, _, hchain⟩ := hf.chain
    obtain ⟨r, hv⟩ := euCycle_ok app (jclass_all hp.cls) s i (by omega) hf.eus
      (fun x hx => chain_mem app _ m hchain x (by simp only [runners, BufferedBus.inside, List.mem_append]; exact Or.inl (Or.inl (Or.inl hx))))
    obtain ⟨s1, out⟩ := r
    obtain ⟨rfl, hf1, hnb1⟩ := euCycle_wrong app hp s0 s s1 a' from_ i out hf hnb (by omega) hv
    simp only [eusCycle, bind, Except.bind, hv]
    have hl : s1.eus.length = s.eus.length := by
      have := hf1.keep.eul; have := hf.keep.eul; omega
    exact ih (i + 1) s1 acc (by omega) hf1 hnb1

/-- the loop over the execute units never panics -/
theorem eusCycle_ok (app : App) (hp : ProgJ app) (a0 : Arch) (hT : ∀ k a, Proofs.Mvp4.seqIter app k a0 = some a → TgtOk app a) :
    ∀ (n i : Nat) (s : State) (acc : EuAcc) (k : Nat) (a : Arch),
    i + n = s.eus.length → Mid app s a i → Proofs.Mvp4.seqIter app k a0 = some a →
    ∃ r, eusCycle app n i s acc = .ok r := by
  intro n
  induction n with
  | zero => intro i s acc k a _ _ _; exact ⟨_, rfl⟩
  | succ n ih =>
    intro i s acc k a hlen hm hk
    obtain ⟨n0, _, hf⟩ := hm.front
    obtain ⟨r, hv⟩ := euCycle_ok app (jclass_all hp.cls) s i (by omega) hm.eus
      (fun x hx => chain_mem app _ n0 hf.chain x (by simp only [runners, BufferedBus.inside, List.mem_append]; exact Or.inl (Or.inl (Or.inl hx))))
    obtain ⟨s1, out⟩ := r
    simp only [eusCycle, bind, Except.bind, hv]
    rcases euCycle_sim app hp s s1 a i out (hT k a hk) hm (by omega) hv with
      ⟨rfl, a1, hstep, hm1, hk1, _⟩ | ⟨rfl, c, hc⟩ | ⟨rfl, hret⟩ | ⟨a1, from_, rfl, ⟨c, hc⟩, hfl, hnbw⟩
    · have hk' : ∃ k1, Proofs.Mvp4.seqIter app k1 a0 = some a1 := by
        rcases hstep with rfl | ⟨c, hc⟩
        · exact ⟨k, hk⟩
        · exact ⟨k + 1, Proofs.Mvp4.seqIter_succ hk hc⟩
      obtain ⟨k1, hk1'⟩ := hk'
      exact ih (i + 1) s1 acc k1 a1 (by rw [hk1.eul]; omega) hm1 hk1'
    · exact ⟨_, rfl⟩
    · simp only
      rw [eus_noop app n (i + 1) s1 _ (by rw [hret.keep.eul]; omega) hret.eus hret.xq]
      exact ⟨_, rfl⟩
    · simp only
      rcases hm.k1 with h1 | h1 | h1
      · have hn : n = 0 := by omega
        subst hn
        exact ⟨_, rfl⟩
      · exact absurd h1 hfl.cond
      · exact eusWrong_ok app hp s a1 from_ n (i + 1) s1 _ (by rw [hfl.keep.eul]; omega) hfl (hnbw h1)

/-- `goRetB` never panics -/
theorem goRetB_ok (s : State) (hl : MmuOk s.mmu) : ∃ s' ev, goRetB s = .ok (s', ev) ∧ (∀ w, ev ≠ .done (.panic w)) ∧ MmuOk s'.mmu := by
  unfold goRetB
  split
  · exact ⟨_, _, rfl, (fun w hc => by cases hc), hl⟩
  · unfold finish
    rw [flush_empty s.mmu s.ctx.Memory hl.1]
    simp only [bind, Except.bind, pure, Except.pure]
    exact ⟨_, _, rfl, (fun w hc => by cases hc), hl⟩

/-- **a tick from a related state never panics**, and keeps the caches well-formed -/
theorem cycleM_ok (app : App) (hp : ProgJ app) (a0 : Arch) (hT : ∀ k a, Proofs.Mvp4.seqIter app k a0 = some a → TgtOk app a)
    (s : State) (a : Arch) (k : Nat) (hk : Proofs.Mvp4.seqIter app k a0 = some a)
    (hr : RelG app s a ∨ RelB app s a ∨ RelF app s a) :
    ∃ s' ev, cycleM app s = .ok (s', ev) ∧ ∀ w, ev ≠ .done (.panic w) := by
  rcases hr with hr | hr | hr
  · rw [cycleM_normal_eq app s hr.mode]
    have ph1 := connected_ph app s a hr
    obtain ⟨s2, h2, _⟩ := fetchCycle_ok app (connected s) ph1.l1d.2
    obtain ⟨ph2, hcl2⟩ := fetch_ph app hp _ s2 a ph1 h2
    -- the decode unit
    have h3ex : ∃ s3, decodeCycle app s2 = .ok s3 := by
      obtain ⟨n0, _, hf⟩ := ph2.front
      unfold decodeCycle decodeCore
      by_cases hdr : s2.du.ret = true
      · simp only [hdr, if_true, bind, Except.bind, pure, Except.pure]; exact ⟨_, rfl⟩
      · cases hpd : s2.du.pendingBranchResolution with
        | true => simp only [hdr, hpd, if_true, Bool.false_eq_true, if_false, bind, Except.bind, pure, Except.pure]; exact ⟨_, rfl⟩
        | false =>
          simp only [hdr, hpd, Bool.false_eq_true, if_false, bind, Except.bind]
          obtain ⟨hpcs, _⟩ := hf.opn hpd
          simp only [effD, hcl2, Bool.false_eq_true, if_false] at hpcs
          obtain ⟨h0, p1, _, _, p4, _⟩ := hpcs
          obtain ⟨r, hr'⟩ := decodeLoop_ok app hp.small s2.ctx s2.cycles (s2.decodeBus.pendingRead.toNat + 1) s2.du s2.decodeBus
            s2.controlBus h0 p1 (by omega)
          obtain ⟨du', d', c'⟩ := r
          simp only [hr', pure, Except.pure]
          exact ⟨_, rfl⟩
    obtain ⟨s3, h3⟩ := h3ex
    have ph3 := decode_ph app hp s2 s3 a ph2 hcl2 h3
    obtain ⟨hmid, c_wus, c_wqk, c_wql, c_xql, c_xq, c_eqw, c_pend, c_l1d, c_mode⟩ := control_mid app s3 a ph3
    obtain ⟨r5, hv⟩ := eusCycle_ok app hp a0 hT (controlCycle s3).eus.length 0 (controlCycle s3) {} k a (by omega) hmid hk
    obtain ⟨s5, acc⟩ := r5
    simp only [h2, h3, hv, bind, Except.bind]
    rcases eusCycle_sim app hp a0 hT _ 0 _ s5 {} acc k a (by omega) hmid hk rfl hv with
      ⟨rfl, k', a', hk', hm5, keep, _⟩ | ⟨herr, k', a', hk', c, hc⟩ | ⟨rfl, k', a', hk', hret, _⟩ | ⟨a', from_, rfl, k', hk', hfl, _⟩
    · have hwus5 : ∀ wu ∈ s5.wus, wu.co = .none := by rw [keep.wus]; exact c_wus
      obtain ⟨s6, h6, hm6⟩ := wusCycle_ok s5 hwus5 hm5.back.nomem
      simp only [afterEus, Bool.false_eq_true, if_false, bind, Except.bind, h6]
      split
      · unfold finish
        have hl6 : MmuOk s6.mmu := by rw [hm6, keep.mmu]; exact c_l1d
        rw [flush_empty s6.mmu s6.ctx.Memory hl6.1]
        simp only [bind, Except.bind, pure, Except.pure]
        exact ⟨_, _, rfl, fun w hc => by cases hc⟩
      · exact ⟨_, _, rfl, fun w hc => by cases hc⟩
    · simp only [afterEus, herr, if_true, pure, Except.pure]
      exact ⟨_, _, rfl, fun w hc => by cases hc⟩
    · have hwus5 : ∀ wu ∈ s5.wus, wu.co = .none := by rw [hret.keep.wus]; exact c_wus
      obtain ⟨s6, h6, hm6⟩ := wusCycle_ok s5 hwus5 hret.back.nomem
      simp only [afterEus, Bool.false_eq_true, if_false, if_true, bind, Except.bind, h6]
      have hidle6 : ∀ eu ∈ s6.eus, eu.co = .none ∧ eu.memory = [] := by
        have hk6 : s6.eus = s5.eus := by
          obtain ⟨_, wk, _⟩ := wusCycle_sim s5 s6 a' hwus5 hret.back h6
          exact wk.eus
        rw [hk6]; exact hret.eus
      unfold goRetA
      simp only [eus_idle_any s6 hidle6, Bool.false_eq_true, if_false]
      obtain ⟨s7, ev, h7, hne, _⟩ := goRetB_ok { s6 with cycles := s6.cycles + 1, writeBus := s6.writeBus.connect (s6.cycles + 1) }
        (by (show MmuOk s6.mmu); rw [hm6, hret.keep.mmu]; exact c_l1d)
      exact ⟨s7, ev, h7, hne⟩
    · have hwus5 : ∀ wu ∈ s5.wus, wu.co = .none := by rw [hfl.keep.wus]; exact c_wus
      obtain ⟨s6, h6, hm6⟩ := wusCycle_ok s5 hwus5 hfl.nomem
      simp only [afterEus, Bool.false_eq_true, if_false, if_true, bind, Except.bind, h6, pure, Except.pure]
      refine ⟨_, _, rfl, ?_⟩
      intro w hc
      rw [goFlush_running] at hc
      cases hc
  · rw [cycleM_retB_eq app s hr.mode]
    obtain ⟨s1, h1, hm1⟩ := wusCycle_ok s hr.wus hr.back.nomem
    simp only [h1, bind, Except.bind]
    obtain ⟨s7, ev, h7, hne, _⟩ := goRetB_ok { s1 with cycles := s1.cycles + 1, writeBus := s1.writeBus.connect (s1.cycles + 1) }
      (by (show MmuOk s1.mmu); rw [hm1]; exact hr.l1d)
    exact ⟨s7, ev, h7, hne⟩
  · obtain ⟨i, from_, pc, hm, hi, hff⟩ := hr
    have hff0 := hff.connect (s.cycles + 1)
    obtain ⟨s1, h1, _, _, _⟩ := wuCycle_ok { s with writeBus := s.writeBus.connect (s.cycles + 1), cycles := s.cycles + 1 } i from_
      hi hff0.inv.wus hff0.inv.nomem
    unfold cycleM
    split
    · rename_i hh; rw [hm] at hh; cases hh
    · rename_i hh; rw [hm] at hh; cases hh
    · rename_i hh; rw [hm] at hh; cases hh
    · rename_i i' f' p' hh
      rw [hm] at hh
      simp only [Mode.flushW.injEq] at hh
      obtain ⟨rfl, rfl, rfl⟩ := hh
      simp only [h1, bind, Except.bind, pure, Except.pure]
      refine ⟨_, _, rfl, ?_⟩
      intro w hc
      rw [goFlush_running] at hc
      cases hc

/-- a run from a related state never ends with a Go panic -/
theorem runFrom_nopanic (app : App) (hp : ProgJ app) (a0 : Arch) (hT : ∀ k a, Proofs.Mvp4.seqIter app k a0 = some a → TgtOk app a) :
    ∀ (fuel : Nat) (s : State) (n k : Nat) (a : Arch),
    Proofs.Mvp4.seqIter app k a0 = some a → (RelG app s a ∨ RelB app s a ∨ RelF app s a) →
    ∀ w, (runFrom app fuel s n).halt ≠ some (.panic w)
  | 0, s, n, k, a, _, _ => by intro w hc; simp [runFrom] at hc
  | fuel + 1, s, n, k, a, hk, hr => by
    intro w
    obtain ⟨s', ev, hok, hne⟩ := cycleM_ok app hp a0 hT s a k hk hr
    have hc : cycle app s = (s', ev) := by unfold cycle; rw [hok]
    have hpost := cycle_simG app hp a0 hT s s' a k ev hk hr hc
    unfold runFrom
    rw [hc]
    cases ev with
    | running =>
      obtain ⟨k', a', hk', hr'⟩ := hpost
      exact runFrom_nopanic app hp a0 hT fuel s' (n + 1) k' a' hk' hr' w
    | done h =>
      simp only
      intro hcc
      injection hcc with hcc
      exact hne w (by rw [hcc])

/-- **MVP-6.0 never ends with a Go panic on the class with jumps** (every number of units, every tick budget) -/
theorem mvp60_j_never_panics (app : App) (hp : ProgJ app) (ctx : Model.Context) (hc : CtxOk ctx) (K fuel : Nat)
    (hsid : ctx.sequenceID = 0 ∨ NoCond app)
    (hT : ∀ k a, Proofs.Mvp4.seqIter app k ⟨ctx, 0#32⟩ = some a → TgtOk app a) (w : String) :
    (run app ctx K K fuel).halt ≠ some (.panic w) := by
  obtain ⟨s0, hinit, hR⟩ := init_relG app ctx hc K K rfl hsid
  have hrun : run app ctx K K fuel = runFrom app fuel s0 0 := by unfold run; rw [hinit]
  rw [hrun]
  exact runFrom_nopanic app hp ⟨ctx, 0#32⟩ hT fuel s0 0 0 ⟨ctx, 0#32⟩ rfl (Or.inl hR) w

end Proofs.Mvp60Sl

/-
  Proofs/Parser.lean — lemmas about the parser model (Model/Parser.lean) used by
  Props/C11.lean.  Core Lean only (no Mathlib).
-/
import MajoranaVerif.Model.Parser
import MajoranaVerif.Model.ParserRef
open Model.Parser GoInt

namespace Proofs.Parser

/-! ### bytes -/

theorem forall_u8 (P : UInt8 → Prop) (h : ∀ n, n < 256 → P (UInt8.ofNat n)) : ∀ c, P c := by
  intro c
  have := h c.toNat c.toNat_lt
  simpa using this

/-! ### splitOn / joinWith -/

theorem splitOn_ne_nil (sep : UInt8) (s : Bytes) : splitOn sep s ≠ [] := by
  induction s with
  | nil => simp [splitOn]
  | cons b r ih =>
    unfold splitOn
    split
    · simp
    · split <;> simp

theorem splitOn_cons_sep (sep : UInt8) (r : Bytes) : splitOn sep (sep :: r) = [] :: splitOn sep r := by
  simp [splitOn]

theorem splitOn_cons_ne {sep b : UInt8} (h : b ≠ sep) (r : Bytes) :
    splitOn sep (b :: r) = (b :: (splitOn sep r).headD []) :: (splitOn sep r).tail := by
  have := splitOn_ne_nil sep r
  rw [splitOn]
  simp only [beq_iff_eq, h, if_false]
  cases hs : splitOn sep r with
  | nil => exact absurd hs this
  | cons x t => simp

/-- a piece of a split never contains the separator -/
theorem not_mem_of_mem_splitOn {sep : UInt8} {s l : Bytes} (h : l ∈ splitOn sep s) : sep ∉ l := by
  induction s generalizing l with
  | nil => simp [splitOn] at h; simp [h]
  | cons b r ih =>
    by_cases hb : b = sep
    · subst hb
      rw [splitOn_cons_sep] at h
      rcases List.mem_cons.mp h with rfl | h
      · simp
      · exact ih h
    · rw [splitOn_cons_ne hb] at h
      have hne := splitOn_ne_nil sep r
      cases hs : splitOn sep r with
      | nil => exact absurd hs hne
      | cons x t =>
        rw [hs] at h ih
        simp only [List.headD_cons, List.tail_cons, List.mem_cons] at h
        rcases h with rfl | h
        · have := ih (l := x) (by simp)
          simp [this, Ne.symm hb]
        · exact ih (by simp [h])

theorem splitOn_of_not_mem {sep : UInt8} {a : Bytes} (h : sep ∉ a) : splitOn sep a = [a] := by
  induction a with
  | nil => simp [splitOn]
  | cons b r ih =>
    have hb : b ≠ sep := fun e => h (by simp [e])
    rw [splitOn_cons_ne hb, ih (fun m => h (by simp [m]))]
    simp

/-- `Split(a + sep + b)` where `a` has no separator -/
theorem splitOn_append_sep {sep : UInt8} {a : Bytes} (h : sep ∉ a) (b : Bytes) :
    splitOn sep (a ++ sep :: b) = a :: splitOn sep b := by
  induction a with
  | nil => simp [splitOn_cons_sep]
  | cons x r ih =>
    have hx : x ≠ sep := fun e => h (by simp [e])
    rw [List.cons_append, splitOn_cons_ne hx, ih (fun m => h (by simp [m]))]
    simp

theorem splitOn_join {sep : UInt8} : ∀ {ls : List Bytes}, ls ≠ [] → (∀ l ∈ ls, sep ∉ l) →
    splitOn sep (joinWith sep ls) = ls
  | [], h, _ => absurd rfl h
  | [a], _, h => by simpa [joinWith] using splitOn_of_not_mem (h a (by simp))
  | a :: b :: r, _, h => by
    rw [joinWith, splitOn_append_sep (h a (by simp)),
      splitOn_join (by simp) (fun l hl => h l (by simp [hl]))]

theorem join_splitOn (sep : UInt8) (s : Bytes) : joinWith sep (splitOn sep s) = s := by
  induction s with
  | nil => simp [splitOn, joinWith]
  | cons b r ih =>
    have hne := splitOn_ne_nil sep r
    cases hs : splitOn sep r with
    | nil => exact absurd hs hne
    | cons x t =>
      rw [hs] at ih
      by_cases hb : b = sep
      · rw [hb, splitOn_cons_sep, hs, joinWith, ih]; simp
      · rw [splitOn_cons_ne hb, hs]
        cases t with
        | nil => simp [joinWith] at ih ⊢; exact ih
        | cons y t' => simp [joinWith] at ih ⊢; exact ih

section Toks
variable (p1 : UInt8 → Bool) (p2 : UInt8 → UInt8 → Bool) (p3 : UInt8 → UInt8 → UInt8 → Bool)

/-- a byte that is never the second or third byte of a token -/
def Inert (c : UInt8) : Prop := ∀ a b, p2 a c = false ∧ p3 a c b = false ∧ p3 a b c = false

theorem dropToks_cons_p1 {a : UInt8} (h : p1 a = true) (l : Bytes) :
    dropToks p1 p2 p3 (a :: l) = dropToks p1 p2 p3 l := by
  rcases l with _ | ⟨b, _ | ⟨c, r⟩⟩ <;> simp [dropToks, h]

theorem dropToks_pad {ws : Bytes} (h : ∀ x ∈ ws, p1 x = true) (l : Bytes) :
    dropToks p1 p2 p3 (ws ++ l) = dropToks p1 p2 p3 l := by
  induction ws with
  | nil => rfl
  | cons x r ih =>
    rw [List.cons_append, dropToks_cons_p1 p1 p2 p3 (h x (by simp)), ih (fun y hy => h y (by simp [hy]))]

/-- the result is a suffix -/
theorem dropToks_suffix (l : Bytes) : dropToks p1 p2 p3 l <:+ l := by
  induction l using dropToks.induct p1 p2 p3 with
  | case1 => simp [dropToks]
  | case2 a h => simp [dropToks, h]
  | case3 a h => simp [dropToks, h]
  | case4 a b h ih => simp only [dropToks, h, if_true]; exact List.IsSuffix.trans ih (List.suffix_cons _ _)
  | case5 a b h h2 => simp [dropToks, h, h2]
  | case6 a b h h2 => simp [dropToks, h, h2]
  | case7 a b c r h ih => simp only [dropToks, h, if_true]; exact List.IsSuffix.trans ih (List.suffix_cons _ _)
  | case8 a b c r h h2 ih =>
    simp only [dropToks, h, h2, if_true]
    exact ih.trans ((List.suffix_cons _ _).trans (List.suffix_cons _ _))
  | case9 a b c r h h2 h3 ih =>
    simp only [dropToks, h, h2, h3, if_true]
    exact ih.trans ((List.suffix_cons _ _).trans ((List.suffix_cons _ _).trans (List.suffix_cons _ _)))
  | case10 a b c r h h2 h3 => simp [dropToks, h, h2, h3]

/-- the master lemma: appending text that starts with an inert byte -/
theorem dropToks_append_inert {c : UInt8} (hc : Inert p2 p3 c) (a b : Bytes) :
    dropToks p1 p2 p3 (a ++ c :: b) =
      if dropToks p1 p2 p3 a = [] then dropToks p1 p2 p3 (c :: b) else dropToks p1 p2 p3 a ++ c :: b := by
  induction a using dropToks.induct p1 p2 p3 with
  | case1 => simp [dropToks]
  | case2 x h => simp [dropToks, h, dropToks_cons_p1]
  | case3 x h =>
    have := hc x
    rcases b with _ | ⟨y, b⟩
    · simp [dropToks, h, (hc x x).1]
    · simp [dropToks, h, (hc x y).1, (hc x y).2.1]
  | case4 x y h ih => simpa [dropToks, h, dropToks_cons_p1] using ih
  | case5 x y h h2 => simp [dropToks, h, h2]
  | case6 x y h h2 => simp [dropToks, h, h2, (hc x y).2.2]
  | case7 x y z r h ih => simpa [dropToks, h, dropToks_cons_p1] using ih
  | case8 x y z r h h2 ih =>
    have e : dropToks p1 p2 p3 (x :: y :: z :: r) = dropToks p1 p2 p3 (z :: r) := by simp [dropToks, h, h2]
    have e' : dropToks p1 p2 p3 (x :: y :: z :: (r ++ c :: b)) = dropToks p1 p2 p3 (z :: (r ++ c :: b)) := by
      simp [dropToks, h, h2]
    simp only [List.cons_append] at ih ⊢
    rw [e, e']; exact ih
  | case9 x y z r h h2 h3 ih =>
    have e : dropToks p1 p2 p3 (x :: y :: z :: r) = dropToks p1 p2 p3 r := by simp [dropToks, h, h2, h3]
    have e' : dropToks p1 p2 p3 (x :: y :: z :: (r ++ c :: b)) = dropToks p1 p2 p3 (r ++ c :: b) := by
      simp [dropToks, h, h2, h3]
    simp only [List.cons_append] at ih ⊢
    rw [e, e']; exact ih
  | case10 x y z r h h2 h3 => simp [dropToks, h, h2, h3]

end Toks
/-- turn statements about byte classes into linear arithmetic on `toNat` -/
macro "u8_omega" : tactic => `(tactic| (
  simp only [isSp1, isSp2, isSp3, isDigit, Bool.and_eq_true, Bool.or_eq_true, beq_iff_eq, decide_eq_true_eq,
    UInt8.le_iff_toNat_le, UInt8.lt_iff_toNat_lt, ← UInt8.toNat_inj, Bool.not_eq_true, Bool.and_eq_false_iff,
    Bool.or_eq_false_iff, beq_eq_false_iff_ne, ne_eq, decide_eq_false_iff_not, UInt8.toNat_ofNat, UInt8.reduceToNat,
    Nat.reducePow, Nat.reduceMod] at *
  <;> omega))

theorem f_inert {c : UInt8} (h : c < 0x80 ∨ 0xC0 ≤ c) (a b : UInt8) :
    isSp2 a c = false ∧ isSp3 a c b = false ∧ isSp3 a b c = false := by
  refine ⟨?_, ?_, ?_⟩ <;> u8_omega

theorem f_stop {x : UInt8} (h : x < 0x80) (b c : UInt8) : isSp2 x b = false ∧ isSp3 x b c = false := by
  refine ⟨?_, ?_⟩ <;> u8_omega

theorem b_inert {c : UInt8} (h : c < 0x80) (a b : UInt8) :
    isSp2 c a = false ∧ isSp3 b c a = false ∧ isSp3 c b a = false := by
  refine ⟨?_, ?_, ?_⟩ <;> u8_omega

theorem sp2_facts {a b : UInt8} (h : isSp2 a b = true) :
    isSp1 a = false ∧ isSp1 b = false ∧ 0x80 ≤ a ∧ 0x80 ≤ b := by
  refine ⟨?_, ?_, ?_, ?_⟩ <;> u8_omega

theorem sp3_facts {a b c : UInt8} (h : isSp3 a b c = true) :
    isSp1 a = false ∧ isSp2 a b = false ∧ isSp1 c = false ∧ isSp2 b c = false ∧ 0x80 ≤ a ∧ 0x80 ≤ b ∧ 0x80 ≤ c := by
  refine ⟨?_, ?_, ?_, ?_, ?_, ?_, ?_⟩ <;> u8_omega

/-! ### trimLeft / trimRight / trimSpace -/

abbrev p2r : UInt8 → UInt8 → Bool := fun a b => isSp2 b a
abbrev p3r : UInt8 → UInt8 → UInt8 → Bool := fun a b c => isSp3 c b a

theorem inertF {c : UInt8} (h : c < 0x80 ∨ 0xC0 ≤ c) : Inert isSp2 isSp3 c := fun a b => f_inert h a b
theorem inertB {c : UInt8} (h : c < 0x80) : Inert p2r p3r c := fun a b => by
  have := b_inert h a b
  exact ⟨this.1, this.2.1, this.2.2⟩

/-- a non-space ASCII byte stops the scan (both directions) -/
theorem trimLeft_cons_stop {x : UInt8} (h : x < 0x80) (hs : isSp1 x = false) (l : Bytes) :
    trimLeft (x :: l) = x :: l := by
  have s2 : ∀ b, isSp2 x b = false := fun b => (f_stop h b b).1
  have s3 : ∀ b c, isSp3 x b c = false := fun b c => (f_stop h b c).2
  rcases l with _ | ⟨b, _ | ⟨c, r⟩⟩ <;> simp [trimLeft, dropToks, hs, s2, s3]

theorem trimLeftRev_cons_stop {x : UInt8} (h : x < 0x80) (hs : isSp1 x = false) (l : Bytes) :
    trimLeftRev (x :: l) = x :: l := by
  have s2 : ∀ b, isSp2 b x = false := fun b => by have := h; u8_omega
  have s3 : ∀ b c, isSp3 c b x = false := fun b c => by have := h; u8_omega
  rcases l with _ | ⟨b, _ | ⟨c, r⟩⟩ <;> simp [trimLeftRev, dropToks, hs, s2, s3]

theorem trimLeft_nil : trimLeft [] = [] := rfl
theorem trimRight_nil : trimRight [] = [] := rfl
theorem trimSpace_nil : trimSpace [] = [] := rfl

theorem trimLeft_suffix (l : Bytes) : trimLeft l <:+ l := dropToks_suffix _ _ _ l
theorem trimRight_prefix (l : Bytes) : trimRight l <+: l := by
  have := dropToks_suffix isSp1 p2r p3r l.reverse
  have := List.reverse_prefix.mpr this
  simpa [trimRight, trimLeftRev] using this

theorem trimLeft_pad {ws : Bytes} (h : ∀ x ∈ ws, isSp1 x = true) (l : Bytes) : trimLeft (ws ++ l) = trimLeft l :=
  dropToks_pad _ _ _ h l

theorem trimRight_pad {ws : Bytes} (h : ∀ x ∈ ws, isSp1 x = true) (l : Bytes) : trimRight (l ++ ws) = trimRight l := by
  unfold trimRight trimLeftRev
  rw [List.reverse_append, dropToks_pad _ _ _ (by simpa using h)]

theorem trimLeft_all_sp1 {ws : Bytes} (h : ∀ x ∈ ws, isSp1 x = true) : trimLeft ws = [] := by
  simpa [trimLeft_nil] using trimLeft_pad h []

/-- (P1) padding a line with one-byte spaces does not change its trimmed form -/
theorem trimSpace_pad {wl wr : Bytes} (hl : ∀ x ∈ wl, isSp1 x = true) (hr : ∀ x ∈ wr, isSp1 x = true) (l : Bytes) :
    trimSpace (wl ++ l ++ wr) = trimSpace l := by
  unfold trimSpace
  rw [List.append_assoc, trimLeft_pad hl]
  rcases wr with _ | ⟨c, b⟩
  · simp
  · have hc : c < 0x80 := by
      have := hr c (by simp); revert this; revert c; intro c _ _; u8_omega
    have := dropToks_append_inert isSp1 isSp2 isSp3 (inertF (Or.inl hc)) l b
    unfold trimLeft
    rw [this]
    split
    · next h0 => rw [h0]; have := trimLeft_all_sp1 hr; unfold trimLeft at this; rw [this]
    · exact trimRight_pad hr _


/-! ### the loop body without its (never failing) bounds checks -/

def word (t : Bytes) : Bytes := t.take ((indexOf 0x20 t).getD t.length)
def remOf (t : Bytes) : Bytes :=
  match indexOf 0x20 t with
  | some i => t.drop (i + 1)
  | none => t
def cut (r : Bytes) : Bytes :=
  match indexOf 0x23 r with
  | some c => trimSpace (r.take c)
  | none => r

theorem slice_ok {s : Bytes} {lo hi : Nat} (h1 : lo ≤ hi) (h2 : hi ≤ s.length) :
    slice s lo hi = .ok ((s.take hi).drop lo) := by
  simp [slice, h1, h2]; rfl

theorem indexOf_lt {c : UInt8} {s : Bytes} {i : Nat} (h : indexOf c s = some i) : i < s.length := by
  induction s generalizing i with
  | nil => simp [indexOf] at h
  | cons b r ih =>
    simp only [indexOf] at h
    split at h
    · simp at h; subst h; simp
    · cases hr : indexOf c r with
      | none => simp [hr] at h
      | some j => simp [hr] at h; subst h; simpa using ih hr

theorem cutComment_eq (r : Bytes) : cutComment r = .ok (cut r) := by
  unfold cutComment cut
  cases h : indexOf 0x23 r with
  | none => rfl
  | some c =>
    have := indexOf_lt h
    simp [slice_ok (Nat.zero_le c) (Nat.le_of_lt this)]
    rfl

theorem idx_ok {α} {s : List α} {i : Nat} (h : i < s.length) : idx s i = .ok s[i] := by
  simp [idx, h]; rfl

theorem classifyTrimmed_eq (t : Bytes) (h : t ≠ []) : classifyTrimmed t =
    if t.head? = some 0x23 then .ok .skip
    else if (indexOf 0x20 t).isNone ∧ t.getLast? = some 0x3A then .ok (.label t.dropLast)
    else match mnemonicOf (toLower (word t)) with
      | some m => (decodeOps m (splitOn 0x2C (cut (remOf t)))).map Item.instr
      | none => .error (.err "unknown") := by
  have hl : 0 < t.length := List.length_pos_iff.mpr h
  unfold classifyTrimmed
  rw [idx_ok hl, idx_ok (by omega : t.length - 1 < t.length)]
  simp only [bind, Except.bind, pure, Except.pure]
  have h0 : (t[0] == 35) = true ↔ t.head? = some 35 := by
    cases t with
    | nil => exact absurd rfl h
    | cons a r => simp
  have h1 : (t[t.length - 1] == 58) = true ↔ t.getLast? = some 58 := by
    rw [List.getLast?_eq_getElem?]
    simp [List.getElem?_eq_getElem (by omega : t.length - 1 < t.length)]
  have s1 : slice t 0 (t.length - 1) = .ok t.dropLast := by
    rw [slice_ok (Nat.zero_le _) (Nat.sub_le _ _)]; simp [List.dropLast_eq_take]
  have s2 : slice t (remStart (indexOf 32 t)) t.length = .ok (remOf t) := by
    unfold remOf remStart
    cases hi : indexOf 32 t with
    | none => simp [slice_ok]
    | some i => have := indexOf_lt hi; simp [slice_ok (by omega : i + 1 ≤ t.length)]
  have s3 : slice t 0 ((indexOf 32 t).getD t.length) = .ok (word t) := by
    unfold word
    cases hi : indexOf 32 t with
    | none => simp [slice_ok]
    | some i => have := indexOf_lt hi; simp [slice_ok (Nat.zero_le i) (Nat.le_of_lt this)]
  rw [s1, s2, s3]
  simp only [cutComment_eq, Bool.and_eq_true, h0, h1]
  split
  · rfl
  · split
    · rfl
    · cases mnemonicOf (toLower (word t)) with
      | none => rfl
      | some m => simp only [Except.map]

/-! ### `parse` as "classify every line, then assemble" -/

def assemble (items : List Item) (st : St) : St := items.foldl St.apply st

theorem parseLines_eq (ls : List Bytes) (st : St) :
    parseLines ls st = (ls.mapM classify).map (fun items => assemble items st) := by
  induction ls generalizing st with
  | nil => rfl
  | cons a r ih =>
    simp only [parseLines, List.foldlM_cons, List.mapM_cons, step] at ih ⊢
    cases hc : classify a with
    | error e => rfl
    | ok it =>
      simp only [bind, Except.bind, pure, Except.pure]
      rw [ih]
      cases hr : List.mapM classify r with
      | error e => rfl
      | ok items => rfl

theorem parse_eq (s : Bytes) : parse s =
    ((lines s).mapM classify).map (fun items =>
      { instrs := (assemble items {}).instrs, labels := (assemble items {}).labels }) := by
  unfold parse lines
  rw [parseLines_eq]
  cases List.mapM classify (splitOn 10 s) <;> rfl

/-- `mapM` succeeds exactly when every element does, element by element -/
inductive AllOk : List Bytes → List Item → Prop
  | nil : AllOk [] []
  | cons {a it r items} : classify a = .ok it → AllOk r items → AllOk (a :: r) (it :: items)

theorem mapM_ok {ls : List Bytes} {items : List Item} (h : ls.mapM classify = .ok items) : AllOk ls items := by
  induction ls generalizing items with
  | nil => simp [pure, Except.pure] at h; subst h; exact .nil
  | cons a r ih =>
    rw [List.mapM_cons] at h
    cases hc : classify a with
    | error e => simp [hc, bind, Except.bind] at h
    | ok it =>
      cases hr : List.mapM classify r with
      | error e => simp [hc, hr, bind, Except.bind] at h
      | ok its =>
        simp [hc, hr, bind, Except.bind, pure, Except.pure] at h
        subst h
        exact .cons hc (ih hr)

theorem mapM_of_allOk {ls : List Bytes} {items : List Item} (h : AllOk ls items) : ls.mapM classify = .ok items := by
  induction h with
  | nil => rfl
  | cons hc _ ih => rw [List.mapM_cons, hc, ih]; rfl

theorem AllOk.append_left {a b : List Bytes} {items : List Item} (h : AllOk (a ++ b) items) :
    ∃ ia ib, items = ia ++ ib ∧ AllOk a ia ∧ AllOk b ib := by
  induction a generalizing items with
  | nil => exact ⟨[], items, rfl, .nil, h⟩
  | cons x r ih =>
    cases h with
    | cons hc hr =>
      obtain ⟨ia, ib, e, ha, hb⟩ := ih hr
      exact ⟨_ :: ia, ib, by simp [e], .cons hc ha, hb⟩

/-! ### one line: what `classify` returns agrees with the independent classifier -/

theorem indexOf_eq_none_iff {c : UInt8} {s : Bytes} : indexOf c s = none ↔ c ∉ s := by
  induction s with
  | nil => simp [indexOf]
  | cons b r ih =>
    simp only [indexOf]
    by_cases hb : b = c
    · simp [hb]
    · have : c ≠ b := fun e => hb e.symm
      simp [hb, this, ih]

theorem classify_eq (raw : Bytes) : classify raw =
    if trimSpace raw = [] then .ok .skip
    else if (trimSpace raw).head? = some 0x23 then .ok .skip
    else if (indexOf 0x20 (trimSpace raw)).isNone ∧ (trimSpace raw).getLast? = some 0x3A then
      .ok (.label (trimSpace raw).dropLast)
    else match mnemonicOf (toLower (word (trimSpace raw))) with
      | some m => (decodeOps m (splitOn 0x2C (cut (remOf (trimSpace raw))))).map Item.instr
      | none => .error (.err "unknown") := by
  unfold classify
  by_cases h : trimSpace raw = []
  · simp [h]; rfl
  · simp only [List.isEmpty_iff, h, if_false]
    exact classifyTrimmed_eq _ h

/-- the kind of item a line yields is the kind the three-line classifier says -/
theorem classify_kind {raw : Bytes} {it : Item} (h : classify raw = .ok it) :
    (isBlankOrComment raw = true ↔ it = .skip) ∧
    (∀ n, labelName raw = some n ↔ it = .label n) ∧
    (isInstrLine raw = true ↔ ∃ i, it = .instr i) := by
  rw [classify_eq] at h
  unfold isInstrLine labelName isLabelLine isBlankOrComment
  have hc : (trimSpace raw).contains 0x20 = !(indexOf 0x20 (trimSpace raw)).isNone := by
    cases hi : indexOf 0x20 (trimSpace raw) with
    | none => simpa using indexOf_eq_none_iff.mp hi
    | some i =>
      have : ¬ (0x20 : UInt8) ∉ trimSpace raw := fun hn => by simp [indexOf_eq_none_iff.mpr hn] at hi
      simpa using this
  simp only [hc]
  split at h
  · next h0 => cases h; simp [h0]
  · next h0 =>
    split at h
    · next h1 => cases h; simp [h1]
    · next h1 =>
      split at h
      · next h2 => cases h; simp [h0, h1, h2.1, h2.2]
      · next h2 =>
        have h2' : ((indexOf 32 (trimSpace raw)).isNone && (trimSpace raw).getLast? == some 58) = false := by
          rcases Classical.not_and_iff_not_or_not.mp h2 with h | h
          · simp [h]
          · simp [h]
        split at h
        · next m hm =>
          cases hd : decodeOps m (splitOn 0x2C (cut (remOf (trimSpace raw)))) with
          | error e => simp [hd, Except.map] at h
          | ok i =>
            simp [hd, Except.map] at h; subst h
            have h3 : (indexOf 32 (trimSpace raw) = none → ¬List.getLast? (trimSpace raw) = some 58) := by
              intro hn hl; exact h2 ⟨by simp [hn], hl⟩
            have h4 : (indexOf 32 (trimSpace raw)).isSome = true ∨ ¬List.getLast? (trimSpace raw) = some 58 := by
              cases hi : indexOf 32 (trimSpace raw) with
              | none => exact Or.inr (h3 hi)
              | some _ => exact Or.inl rfl
            simp [h0, h1, h4]; exact h3
        · cases h

/-! ### assembling the items -/

def instrOf : Item → Option Gen.Instr
  | .instr i => some i
  | _ => none

def isInstrItem : Item → Bool
  | .instr _ => true
  | _ => false

theorem assemble_cons (it : Item) (items : List Item) (st : St) :
    assemble (it :: items) st = assemble items (st.apply it) := rfl

theorem assemble_append (a b : List Item) (st : St) : assemble (a ++ b) st = assemble b (assemble a st) := by
  simp [assemble, List.foldl_append]

theorem assemble_instrs (items : List Item) (st : St) :
    (assemble items st).instrs = st.instrs ++ items.filterMap instrOf := by
  induction items generalizing st with
  | nil => simp [assemble]
  | cons it r ih =>
    rw [assemble_cons, ih]
    cases it <;> simp [St.apply, instrOf, List.filterMap_cons]

theorem assemble_pc (items : List Item) (st : St) :
    (assemble items st).pc = st.pc + BitVec.ofNat 32 (4 * (items.filter isInstrItem).length) := by
  induction items generalizing st with
  | nil => simp [assemble]
  | cons it r ih =>
    rw [assemble_cons, ih]
    cases it with
    | skip => rw [List.filter_cons_of_neg (by simp [isInstrItem])]; rfl
    | label n => rw [List.filter_cons_of_neg (by simp [isInstrItem])]; rfl
    | instr i =>
      have e : (List.filter isInstrItem (Item.instr i :: r)).length = (List.filter isInstrItem r).length + 1 := by
        rw [List.filter_cons_of_pos (by rfl)]; rfl
      rw [e]
      simp only [St.apply]
      rw [BitVec.add_assoc]
      congr 1
      apply BitVec.eq_of_toNat_eq
      have h4 : (4 : BitVec 32).toNat = 4 := rfl
      simp only [BitVec.toNat_add, BitVec.toNat_ofNat, h4]
      omega

theorem find?_setList {ν} (l : List (String × ν)) (k k' : String) (v : ν) :
    (GoMap.setList k v l).lookup k' = if k' = k then some v else l.lookup k' := by
  induction l with
  | nil => simp [GoMap.setList, List.lookup]; split <;> simp_all
  | cons p r ih =>
    obtain ⟨a, b⟩ := p
    simp only [GoMap.setList]
    by_cases h : a = k
    · subst h
      simp only [beq_self_eq_true, if_true, List.lookup_cons]
      by_cases h' : k' = a
      · simp [h']
      · have : (k' == a) = false := by simpa using h'
        simp [h', this]
    · have : (a == k) = false := by simpa using h
      simp only [this, Bool.false_eq_true, if_false, List.lookup_cons, ih]
      by_cases h' : k' = a
      · subst h'; simp [h]
      · have : (k' == a) = false := by simpa using h'
        simp [this]

theorem find?_set {ν} (m : GoMap String ν) (k k' : String) (v : ν) :
    (m.set k v).find? k' = if k' = k then some v else m.find? k' := by
  simp [GoMap.set, GoMap.find?, find?_setList]

theorem assemble_labels_no_def (items : List Item) (st : St) (k : String)
    (h : ∀ n, Item.label n ∈ items → latin1 n ≠ k) : (assemble items st).labels.find? k = st.labels.find? k := by
  induction items generalizing st with
  | nil => rfl
  | cons it r ih =>
    rw [assemble_cons, ih _ (fun n hn => h n (by simp [hn]))]
    cases it with
    | skip => rfl
    | instr i => rfl
    | label n =>
      have := h n (by simp)
      simp [St.apply, find?_set, Ne.symm this]

theorem allOk_length {ls : List Bytes} {items : List Item} (h : AllOk ls items) : items.length = ls.length := by
  induction h <;> simp_all

theorem allOk_count {ls : List Bytes} {items : List Item} (h : AllOk ls items) :
    (items.filter isInstrItem).length = (ls.filter isInstrLine).length := by
  induction h with
  | nil => rfl
  | @cons a it r items hc _ ih =>
    have hk := (classify_kind hc).2.2
    by_cases hi : isInstrLine a = true
    · obtain ⟨i, rfl⟩ := hk.mp hi
      rw [List.filter_cons_of_pos (by rfl), List.filter_cons_of_pos hi]
      simp [ih]
    · have : isInstrItem it = false := by
        cases it with
        | instr i => exact absurd (hk.mpr ⟨i, rfl⟩) hi
        | _ => rfl
      rw [List.filter_cons_of_neg (by simp [this]), List.filter_cons_of_neg hi]
      exact ih

theorem latin1_injective {a b : Bytes} (h : latin1 a = latin1 b) : a = b := by
  unfold latin1 at h
  have := String.ofList_injective h
  clear h
  induction a generalizing b with
  | nil => cases b <;> simp_all
  | cons x r ih =>
    cases b with
    | nil => simp at this
    | cons y s =>
      simp only [List.map_cons, List.cons.injEq] at this
      have hx : x = y := by
        have := congrArg Char.val this.1
        simpa [Char.ofUInt8, UInt8.toUInt32_inj] using this
      rw [hx, ih this.2]

theorem parse_ok {s : Bytes} {app : App} (h : parse s = .ok app) :
    ∃ items, AllOk (lines s) items ∧ app.instrs = items.filterMap instrOf ∧
      app.labels = (assemble items {}).labels := by
  rw [parse_eq] at h
  cases hm : (lines s).mapM classify with
  | error e => simp [hm, Except.map] at h
  | ok items =>
    simp [hm, Except.map] at h
    subst h
    exact ⟨items, mapM_ok hm, by simp [assemble_instrs], rfl⟩

theorem filterMap_instrOf_length (items : List Item) :
    (items.filterMap instrOf).length = (items.filter isInstrItem).length := by
  induction items with
  | nil => rfl
  | cons it r ih =>
    cases it with
    | skip => rw [List.filter_cons_of_neg (by simp [isInstrItem])]; simpa [List.filterMap_cons, instrOf] using ih
    | label n => rw [List.filter_cons_of_neg (by simp [isInstrItem])]; simpa [List.filterMap_cons, instrOf] using ih
    | instr i => rw [List.filter_cons_of_pos (by rfl)]; simpa [List.filterMap_cons, instrOf] using ih

theorem AllOk.mem {ls : List Bytes} {items : List Item} (h : AllOk ls items) {it : Item} (hi : it ∈ items) :
    ∃ raw ∈ ls, classify raw = .ok it := by
  induction h with
  | nil => cases hi
  | @cons a it' r items hc _ ih =>
    rcases List.mem_cons.mp hi with rfl | hi
    · exact ⟨a, by simp, hc⟩
    · obtain ⟨raw, hm, hr⟩ := ih hi
      exact ⟨raw, by simp [hm], hr⟩

theorem AllOk.instr_at {ls : List Bytes} {items : List Item} (h : AllOk ls items) :
    ∀ (j : Nat) (raw : Bytes), (ls.filter isInstrLine)[j]? = some raw →
      ∃ i, classify raw = .ok (.instr i) ∧ (items.filterMap instrOf)[j]? = some i := by
  induction h with
  | nil => intro j raw hj; simp at hj
  | @cons a it r items hc _ ih =>
    intro j raw hj
    have hk := (classify_kind hc).2.2
    by_cases hi : isInstrLine a = true
    · obtain ⟨i, rfl⟩ := hk.mp hi
      rw [List.filter_cons_of_pos hi] at hj
      cases j with
      | zero =>
        simp at hj; subst hj
        exact ⟨i, hc, by simp [instrOf]⟩
      | succ j =>
        simp at hj
        obtain ⟨i', h1, h2⟩ := ih j raw hj
        exact ⟨i', h1, by simpa [List.filterMap_cons, instrOf] using h2⟩
    · have hn : instrOf it = none := by
        cases it with
        | instr i => exact absurd (hk.mpr ⟨i, rfl⟩) hi
        | _ => rfl
      rw [List.filter_cons_of_neg hi] at hj
      obtain ⟨i', h1, h2⟩ := ih j raw hj
      exact ⟨i', h1, by simpa [List.filterMap_cons, hn] using h2⟩

theorem decodeLine_of_classify {raw : Bytes} {i : Gen.Instr} (h : classify raw = .ok (.instr i)) :
    decodeLine raw = .ok (some i) := by
  simp [decodeLine, h, bind, Except.bind, pure, Except.pure]

/-- the address of a label: the last definition wins, and it is four times the number of
instruction lines before it -/
theorem labels_last {s : Bytes} {app : App} (h : parse s = .ok app) {pre post : List Bytes} {raw l : Bytes}
    (hs : lines s = pre ++ raw :: post) (hl : labelName raw = some l)
    (hp : ∀ r ∈ post, labelName r ≠ some l) :
    app.labels.find? (latin1 l) = some (BitVec.ofNat 32 (4 * (pre.filter isInstrLine).length)) := by
  obtain ⟨items, hok, _, hlab⟩ := parse_ok h
  rw [hs] at hok
  obtain ⟨ipre, irest, rfl, hpre, hrest⟩ := hok.append_left
  cases hrest with
  | @cons _ it _ ipost hc hpost =>
    have hit : it = .label l := ((classify_kind hc).2.1 l).mp hl
    subst hit
    rw [hlab, assemble_append, assemble_cons, assemble_labels_no_def]
    · simp only [St.apply, find?_set, if_true, assemble_pc]
      rw [allOk_count hpre]
      simp
    · intro n hn he
      obtain ⟨r, hr, hcr⟩ := hpost.mem hn
      have := ((classify_kind hcr).2.1 n).mpr rfl
      rw [latin1_injective he] at this
      exact hp r hr this

theorem labels_undefined {s : Bytes} {app : App} (h : parse s = .ok app) {l : Bytes}
    (hp : ∀ r ∈ lines s, labelName r ≠ some l) : app.labels.find? (latin1 l) = none := by
  obtain ⟨items, hok, _, hlab⟩ := parse_ok h
  rw [hlab, assemble_labels_no_def]
  · rfl
  · intro n hn he
    obtain ⟨r, hr, hcr⟩ := hok.mem hn
    have := ((classify_kind hcr).2.1 n).mpr rfl
    rw [latin1_injective he] at this
    exact hp r hr this

/-! ### no Go panic -/

def NoPanic {α : Type} (x : M α) : Prop := ∀ msg, x ≠ .error (.panic msg)

theorem NoPanic.ok {α : Type} (a : α) : NoPanic (.ok a : M α) := fun _ h => by cases h
theorem NoPanic.pure {α : Type} (a : α) : NoPanic (Pure.pure a : M α) := fun _ h => by cases h
theorem NoPanic.err {α : Type} (k : String) : NoPanic (.error (.err k) : M α) := fun _ h => by cases h
theorem NoPanic.throw {α : Type} (k : String) : NoPanic (throw (.err k) : M α) := fun _ h => by cases h

theorem NoPanic.bind {α β : Type} {x : M α} {f : α → M β} (hx : NoPanic x) (hf : ∀ a, x = .ok a → NoPanic (f a)) :
    NoPanic (x >>= f) := by
  intro msg h
  cases x with
  | error e =>
    simp only [Bind.bind, Except.bind] at h
    cases h
    exact hx msg rfl
  | ok a => exact hf a rfl msg h

theorem NoPanic.map {α β : Type} {x : M α} (f : α → β) (hx : NoPanic x) : NoPanic (x.map f) := by
  intro msg h
  cases x with
  | error e => simp only [Except.map] at h; cases h; exact hx msg rfl
  | ok a => cases h

theorem noPanic_parseRegister (s : Bytes) : NoPanic (parseRegister s) := by
  unfold parseRegister
  split
  · exact .pure _
  · exact .throw _

theorem noPanic_parseInt32 (s : Bytes) : NoPanic (parseInt32 s) := by
  unfold parseInt32
  dsimp only
  split
  · exact .throw _
  · split <;> split <;> first | exact .throw _ | exact .pure _

theorem indexOf_getElem {c : UInt8} {s : Bytes} {i : Nat} (h : indexOf c s = some i) : s[i]? = some c := by
  induction s generalizing i with
  | nil => simp [indexOf] at h
  | cons b r ih =>
    simp only [indexOf] at h
    split at h
    · next hb => simp at h; subst h; simpa using hb
    · cases hr : indexOf c r with
      | none => simp [hr] at h
      | some j => simp [hr] at h; subst h; simpa using ih hr

theorem noPanic_parseOffsetReg (s : Bytes) : NoPanic (parseOffsetReg s) := by
  unfold parseOffsetReg
  split
  · exact .throw _
  · next fp hfp =>
    split
    · exact .throw _
    · next hsuf =>
      have hlt := indexOf_lt hfp
      have hget := indexOf_getElem hfp
      -- the last byte is `)` and byte `fp` is `(`, so `fp` is not the last index
      have hlast : s.getLast? = some 0x29 := by simpa [hasSuffixByte] using hsuf
      have hne : fp ≠ s.length - 1 := by
        intro e
        rw [List.getLast?_eq_getElem?, ← e, hget] at hlast
        simp at hlast
      rw [slice_ok (Nat.zero_le _) (Nat.le_of_lt hlt), slice_ok (by omega : fp + 1 ≤ s.length - 1) (Nat.sub_le _ _)]
      refine .bind (.ok _) fun _ _ => .bind (noPanic_parseInt32 _) fun _ _ => .bind (.ok _) fun _ _ =>
        .bind (noPanic_parseRegister _) fun _ _ => .pure _

theorem validateArgs_ok {n : Nat} {els : List Bytes} (h : validateArgs n els = .ok ()) : els.length = n := by
  unfold validateArgs at h
  split at h
  · cases h
  · next hh => simpa using hh

theorem noPanic_validateArgs (n : Nat) (els : List Bytes) : NoPanic (validateArgs n els) := by
  unfold validateArgs; split
  · exact .throw _
  · exact .pure _

theorem noPanic_arg {els : List Bytes} {i : Nat} (h : i < els.length) : NoPanic (arg els i) := by
  unfold arg
  rw [idx_ok h]
  exact .bind (.ok _) fun _ _ => .pure _

macro "np_shape" : tactic => `(tactic| (
  refine NoPanic.bind (noPanic_validateArgs _ _) fun _ hv => ?_
  have hlen := validateArgs_ok hv
  repeat (first
    | exact NoPanic.pure _
    | refine NoPanic.bind (noPanic_arg (by omega)) fun _ _ => ?_
    | refine NoPanic.bind (noPanic_parseRegister _) fun _ _ => ?_
    | refine NoPanic.bind (noPanic_parseInt32 _) fun _ _ => ?_
    | refine NoPanic.bind (noPanic_parseOffsetReg _) fun _ _ => ?_)))

theorem noPanic_rrr (els : List Bytes) (mk) : NoPanic (rrr els mk) := by unfold rrr; np_shape
theorem noPanic_rri (els : List Bytes) (mk) : NoPanic (rri els mk) := by unfold rri; np_shape
theorem noPanic_ri (els : List Bytes) (mk) : NoPanic (ri els mk) := by unfold ri; np_shape
theorem noPanic_rrl (els : List Bytes) (mk) : NoPanic (rrl els mk) := by unfold rrl; np_shape
theorem noPanic_rl (els : List Bytes) (mk) : NoPanic (rl els mk) := by unfold rl; np_shape
theorem noPanic_rm (els : List Bytes) (mk) : NoPanic (rm els mk) := by unfold rm; np_shape
theorem noPanic_rr (els : List Bytes) (mk) : NoPanic (rr els mk) := by unfold rr; np_shape
theorem noPanic_rir (els : List Bytes) (mk) : NoPanic (rir els mk) := by unfold rir; np_shape
theorem noPanic_l1 (els : List Bytes) (mk) : NoPanic (l1 els mk) := by unfold l1; np_shape

attribute [local irreducible] rrr rri ri rrl rl rm rr rir l1 in
theorem noPanic_decodeOps (m : Gen.InstructionType) (els : List Bytes) : NoPanic (decodeOps m els) := by
  cases m <;> simp only [decodeOps] <;>
    first
    | exact NoPanic.pure _ | exact noPanic_rrr _ _ | exact noPanic_rri _ _ | exact noPanic_ri _ _
    | exact noPanic_rrl _ _ | exact noPanic_rl _ _ | exact noPanic_rm _ _ | exact noPanic_rr _ _
    | exact noPanic_rir _ _ | exact noPanic_l1 _ _

theorem noPanic_classify (raw : Bytes) : NoPanic (classify raw) := by
  rw [classify_eq]
  split
  · exact .ok _
  · split
    · exact .ok _
    · split
      · exact .ok _
      · split
        · exact .map _ (noPanic_decodeOps _ _)
        · exact .err _

theorem noPanic_mapM (ls : List Bytes) : NoPanic (ls.mapM classify) := by
  induction ls with
  | nil => exact .pure _
  | cons a r ih =>
    rw [List.mapM_cons]
    exact .bind (noPanic_classify a) fun _ _ => .bind ih fun _ _ => .pure _

theorem noPanic_parse (s : Bytes) : NoPanic (parse s) := by
  rw [parse_eq]; exact .map _ (noPanic_mapM _)

/-! ### trimming around ASCII bytes -/

theorem trimLeftRev_append_inert {c : UInt8} (hc : c < 0x80) (a b : Bytes) :
    trimLeftRev (a ++ c :: b) = if trimLeftRev a = [] then trimLeftRev (c :: b) else trimLeftRev a ++ c :: b :=
  dropToks_append_inert isSp1 p2r p3r (inertB hc) a b

theorem trimLeft_append_inert {c : UInt8} (hc : c < 0x80 ∨ 0xC0 ≤ c) (a b : Bytes) :
    trimLeft (a ++ c :: b) = if trimLeft a = [] then trimLeft (c :: b) else trimLeft a ++ c :: b :=
  dropToks_append_inert isSp1 isSp2 isSp3 (inertF hc) a b

/-- (L1) a non-space ASCII byte shields what follows it from `trimLeft` -/
theorem trimLeft_append_stop {x : UInt8} (h : x < 0x80) (hs : isSp1 x = false) (a l : Bytes) :
    trimLeft (a ++ x :: l) = trimLeft a ++ x :: l := by
  rw [trimLeft_append_inert (Or.inl h), trimLeft_cons_stop h hs]
  split
  · next h0 => rw [h0]; rfl
  · rfl

/-- (R1) a non-space ASCII byte shields what precedes it from `trimRight` -/
theorem trimRight_append_stop {x : UInt8} (h : x < 0x80) (hs : isSp1 x = false) (a l : Bytes) :
    trimRight (a ++ x :: l) = a ++ x :: trimRight l := by
  unfold trimRight
  rw [List.reverse_append, List.reverse_cons, List.append_assoc, List.singleton_append,
    trimLeftRev_append_inert h, trimLeftRev_cons_stop h hs]
  split
  · next h0 => rw [h0]; simp
  · simp

theorem trimRight_cons_stop {x : UInt8} (h : x < 0x80) (hs : isSp1 x = false) (l : Bytes) :
    trimRight (x :: l) = x :: trimRight l := trimRight_append_stop h hs [] l

/-- (R2) across a space -/
theorem trimRight_append_space (a l : Bytes) :
    trimRight (a ++ 0x20 :: l) = if trimRight l = [] then trimRight a else a ++ 0x20 :: trimRight l := by
  unfold trimRight
  rw [List.reverse_append, List.reverse_cons, List.append_assoc, List.singleton_append,
    trimLeftRev_append_inert (by decide)]
  have : trimLeftRev (0x20 :: a.reverse) = trimLeftRev a.reverse := dropToks_cons_p1 _ _ _ (by decide) _
  rw [this]
  by_cases h0 : trimLeftRev l.reverse = []
  · simp [h0]
  · simp [h0]

theorem trimSpace_eq_nil_of_trimLeft {l : Bytes} (h : trimLeft l = []) : trimSpace l = [] := by
  unfold trimSpace; rw [h]; rfl

/-! ### splitting at the first occurrence of a byte -/

theorem indexOf_split {c : UInt8} {s : Bytes} {i : Nat} (h : indexOf c s = some i) :
    s = s.take i ++ c :: s.drop (i + 1) ∧ c ∉ s.take i := by
  induction s generalizing i with
  | nil => simp [indexOf] at h
  | cons b r ih =>
    simp only [indexOf] at h
    split at h
    · next hb => simp at h; subst h; simp at hb; simp [hb]
    · next hb =>
      cases hr : indexOf c r with
      | none => simp [hr] at h
      | some j =>
        simp [hr] at h; subst h
        obtain ⟨e, hn⟩ := ih hr
        refine ⟨by simp; exact e, ?_⟩
        simp only [List.take_succ_cons, List.mem_cons, not_or]
        exact ⟨fun e => hb (by simp [e]), hn⟩

theorem indexOf_append_of_not_mem {c : UInt8} {a : Bytes} (h : c ∉ a) (b : Bytes) :
    indexOf c (a ++ c :: b) = some a.length := by
  induction a with
  | nil => simp [indexOf]
  | cons x r ih =>
    have hx : (x == c) = false := by
      have : x ≠ c := fun e => h (by simp [e])
      simpa using this
    simp [indexOf, hx, ih (fun m => h (by simp [m]))]

theorem indexOf_eq_some_mem {c : UInt8} {s : Bytes} (h : c ∈ s) : ∃ i, indexOf c s = some i := by
  cases hi : indexOf c s with
  | none => exact absurd h (indexOf_eq_none_iff.mp hi)
  | some i => exact ⟨i, rfl⟩

/-- a line `w ␣ R` whose word `w` has no space: the parts the loop body cuts it into -/
theorem parts_of_word_space {w R : Bytes} (hw : (0x20 : UInt8) ∉ w) :
    indexOf 0x20 (w ++ 0x20 :: R) = some w.length ∧ word (w ++ 0x20 :: R) = w ∧ remOf (w ++ 0x20 :: R) = R := by
  have h := indexOf_append_of_not_mem hw R
  refine ⟨h, ?_, ?_⟩
  · simp [word, h]
  · simp [remOf, h]

/-! ### the operand list modulo trimming -/

/-- what the `switch` sees of the operand text: `strings.TrimSpace(elements[i])` -/
def elems (x : Bytes) : List Bytes := (splitOn 0x2C x).map trimSpace

theorem arg_eq (els : List Bytes) (i : Nat) : arg els i = idx (els.map trimSpace) i := by
  unfold arg idx
  rw [List.getElem?_map]
  cases els[i]? <;> rfl

theorem validateArgs_map (n : Nat) (els : List Bytes) :
    validateArgs n els = validateArgs n (els.map trimSpace) := by simp [validateArgs]

/-- the decoded instruction depends on the operand list only through the trimmed operands -/
theorem decodeOps_congr (m : Gen.InstructionType) {els els' : List Bytes}
    (h : els.map trimSpace = els'.map trimSpace) : decodeOps m els = decodeOps m els' := by
  have hv : ∀ n, validateArgs n els = validateArgs n els' := fun n => by
    rw [validateArgs_map n els, validateArgs_map n els', h]
  have ha : ∀ i, arg els i = arg els' i := fun i => by rw [arg_eq, arg_eq, h]
  cases m <;> simp only [decodeOps, rrr, rri, ri, rrl, rl, rm, rr, rir, l1, hv, ha]

/-- a space token (forward reading) -/
inductive Tok : Bytes → Prop
  | one {a} : isSp1 a = true → Tok [a]
  | two {a b} : isSp2 a b = true → Tok [a, b]
  | three {a b c} : isSp3 a b c = true → Tok [a, b, c]

theorem Tok.no_comma {t : Bytes} (h : Tok t) : (0x2C : UInt8) ∉ t := by
  cases h with
  | one h => intro hm; simp at hm; subst hm; revert h; decide
  | two h => have := sp2_facts h; intro hm; simp at hm; rcases hm with rfl | rfl <;> simp_all <;> revert this <;> decide
  | three h => have := sp3_facts h; intro hm; simp at hm; rcases hm with rfl | rfl | rfl <;> simp_all <;> revert this <;> decide


section Toks2
variable (p1 : UInt8 → Bool) (p2 : UInt8 → UInt8 → Bool) (p3 : UInt8 → UInt8 → UInt8 → Bool)

theorem dropToks_two {a b : UInt8} (h1 : p1 a = false) (h2 : p2 a b = true) (l : Bytes) :
    dropToks p1 p2 p3 (a :: b :: l) = dropToks p1 p2 p3 l := by
  rcases l with _ | ⟨c, r⟩ <;> simp [dropToks, h1, h2]

theorem dropToks_three {a b c : UInt8} (h1 : p1 a = false) (h2 : p2 a b = false) (h3 : p3 a b c = true) (l : Bytes) :
    dropToks p1 p2 p3 (a :: b :: c :: l) = dropToks p1 p2 p3 l := by
  simp [dropToks, h1, h2, h3]

/-- a token of the generic scanner -/
inductive GTok : Bytes → Prop
  | one {a} : p1 a = true → GTok [a]
  | two {a b} : p1 a = false → p2 a b = true → GTok [a, b]
  | three {a b c} : p1 a = false → p2 a b = false → p3 a b c = true → GTok [a, b, c]

/-- what `dropToks` strips is a sequence of tokens -/
theorem dropToks_tokens (l : Bytes) :
    ∃ toks : List Bytes, l = toks.flatten ++ dropToks p1 p2 p3 l ∧ ∀ t ∈ toks, GTok p1 p2 p3 t := by
  induction l using dropToks.induct p1 p2 p3 with
  | case1 => exact ⟨[], by simp [dropToks], by simp⟩
  | case2 a h => exact ⟨[[a]], by simp [dropToks, h], by simpa using .one h⟩
  | case3 a h => exact ⟨[], by simp [dropToks, h], by simp⟩
  | case4 a b h ih =>
    obtain ⟨toks, e, ht⟩ := ih
    refine ⟨[a] :: toks, ?_, ?_⟩
    · rw [dropToks_cons_p1 p1 p2 p3 h]; simp; exact e
    · intro t hm; rcases List.mem_cons.mp hm with rfl | hm; exact .one h; exact ht t hm
  | case5 a b h h2 =>
    exact ⟨[[a, b]], by simp [dropToks, h, h2], by simpa using .two (by simpa using h) h2⟩
  | case6 a b h h2 => exact ⟨[], by simp [dropToks, h, h2], by simp⟩
  | case7 a b c r h ih =>
    obtain ⟨toks, e, ht⟩ := ih
    refine ⟨[a] :: toks, ?_, ?_⟩
    · rw [dropToks_cons_p1 p1 p2 p3 h]; simp; exact e
    · intro t hm; rcases List.mem_cons.mp hm with rfl | hm; exact .one h; exact ht t hm
  | case8 a b c r h h2 ih =>
    obtain ⟨toks, e, ht⟩ := ih
    refine ⟨[a, b] :: toks, ?_, ?_⟩
    · rw [dropToks_two p1 p2 p3 (by simpa using h) h2]; simp; exact e
    · intro t hm; rcases List.mem_cons.mp hm with rfl | hm; exact .two (by simpa using h) h2; exact ht t hm
  | case9 a b c r h h2 h3 ih =>
    obtain ⟨toks, e, ht⟩ := ih
    refine ⟨[a, b, c] :: toks, ?_, ?_⟩
    · rw [dropToks_three p1 p2 p3 (by simpa using h) (by simpa using h2) h3]; simp; exact e
    · intro t hm; rcases List.mem_cons.mp hm with rfl | hm
      exact .three (by simpa using h) (by simpa using h2) h3; exact ht t hm
  | case10 a b c r h h2 h3 => exact ⟨[], by simp [dropToks, h, h2, h3], by simp⟩

end Toks2

theorem tok_of_gtokF {t : Bytes} (h : GTok isSp1 isSp2 isSp3 t) : Tok t := by
  cases h with
  | one h => exact .one h
  | two _ h => exact .two h
  | three _ _ h => exact .three h

theorem tok_of_gtokB {t : Bytes} (h : GTok isSp1 p2r p3r t) : Tok t.reverse := by
  cases h with
  | one h => exact .one h
  | two _ h => exact .two h
  | three _ _ h => exact .three h

theorem trimLeft_tok {t : Bytes} (h : Tok t) (l : Bytes) : trimLeft (t ++ l) = trimLeft l := by
  cases h with
  | one h => exact dropToks_cons_p1 _ _ _ h l
  | two h => exact dropToks_two _ _ _ (sp2_facts h).1 h l
  | three h => exact dropToks_three _ _ _ (sp3_facts h).1 (sp3_facts h).2.1 h l

theorem trimRight_tok {t : Bytes} (h : Tok t) (l : Bytes) : trimRight (l ++ t) = trimRight l := by
  unfold trimRight
  rw [List.reverse_append]
  congr 1
  cases h with
  | one h => exact dropToks_cons_p1 _ _ _ h _
  | two h => exact dropToks_two isSp1 p2r p3r (sp2_facts h).2.1 h _
  | three h => exact dropToks_three isSp1 p2r p3r (sp3_facts h).2.2.1 (sp3_facts h).2.2.2.1 h _

theorem Tok.head_inert {t : Bytes} (h : Tok t) : ∃ c r, t = c :: r ∧ (c < 0x80 ∨ 0xC0 ≤ c) := by
  cases h with
  | @one a h => exact ⟨a, [], rfl, by left; u8_omega⟩
  | @two a b h => exact ⟨a, [b], rfl, by right; u8_omega⟩
  | @three a b c h => exact ⟨a, [b, c], rfl, by right; u8_omega⟩

/-- a token at either end of a piece of text disappears under `trimSpace` -/
theorem trimSpace_tok_left {t : Bytes} (h : Tok t) (l : Bytes) : trimSpace (t ++ l) = trimSpace l := by
  unfold trimSpace; rw [trimLeft_tok h]

theorem trimSpace_tok_right {t : Bytes} (h : Tok t) (l : Bytes) : trimSpace (l ++ t) = trimSpace l := by
  unfold trimSpace
  obtain ⟨c, r, rfl, hc⟩ := h.head_inert
  rw [trimLeft_append_inert hc]
  split
  · next h0 =>
    have := trimLeft_tok h []
    rw [List.append_nil] at this
    rw [this, h0]; rfl
  · exact trimRight_tok h _

/-! ### `Split` of text extended at either end by separator-free text -/

def mapLast {α} (f : α → α) : List α → List α
  | [] => []
  | [a] => [f a]
  | a :: b :: r => a :: mapLast f (b :: r)

theorem mapLast_cons_of_ne_nil {α} (f : α → α) (a : α) {l : List α} (h : l ≠ []) :
    mapLast f (a :: l) = a :: mapLast f l := by
  cases l with
  | nil => exact absurd rfl h
  | cons b r => rfl

theorem map_mapLast {α β} (g : α → β) (f : α → α) (h : ∀ a, g (f a) = g a) (l : List α) :
    (mapLast f l).map g = l.map g := by
  induction l with
  | nil => rfl
  | cons a r ih =>
    cases r with
    | nil => simp [mapLast, h]
    | cons b r' => simp only [mapLast, List.map_cons] at ih ⊢; rw [ih]

theorem splitOn_append_right {sep : UInt8} {t : Bytes} (ht : sep ∉ t) (x : Bytes) :
    splitOn sep (x ++ t) = mapLast (fun e => e ++ t) (splitOn sep x) := by
  induction x with
  | nil => simp [splitOn, mapLast, splitOn_of_not_mem ht]
  | cons b r ih =>
    have hne := splitOn_ne_nil sep r
    by_cases hb : b = sep
    · rw [hb, List.cons_append, splitOn_cons_sep, splitOn_cons_sep, ih, mapLast_cons_of_ne_nil _ _ hne]
    · rw [List.cons_append, splitOn_cons_ne hb, splitOn_cons_ne hb, ih]
      cases hs : splitOn sep r with
      | nil => exact absurd hs hne
      | cons h tl =>
        cases tl with
        | nil => simp [mapLast]
        | cons h2 tl2 => simp [mapLast]

theorem splitOn_append_left {sep : UInt8} {t : Bytes} (ht : sep ∉ t) (x : Bytes) :
    splitOn sep (t ++ x) = (t ++ (splitOn sep x).headD []) :: (splitOn sep x).tail := by
  induction t with
  | nil =>
    have hne := splitOn_ne_nil sep x
    cases hs : splitOn sep x with
    | nil => exact absurd hs hne
    | cons h tl => simp [hs]
  | cons b r ih =>
    have hb : b ≠ sep := fun e => ht (by simp [e])
    rw [List.cons_append, splitOn_cons_ne hb, ih (fun m => ht (by simp [m]))]
    simp

theorem elems_tok_left {t : Bytes} (h : Tok t) (x : Bytes) : elems (t ++ x) = elems x := by
  unfold elems
  rw [splitOn_append_left h.no_comma]
  have hne := splitOn_ne_nil 0x2C x
  cases hs : splitOn 0x2C x with
  | nil => exact absurd hs hne
  | cons e tl => simp [trimSpace_tok_left h]

theorem elems_tok_right {t : Bytes} (h : Tok t) (x : Bytes) : elems (x ++ t) = elems x := by
  unfold elems
  rw [splitOn_append_right h.no_comma]
  exact map_mapLast _ _ (fun e => trimSpace_tok_right h e) _

theorem elems_toks_left {toks : List Bytes} (h : ∀ t ∈ toks, Tok t) (x : Bytes) : elems (toks.flatten ++ x) = elems x := by
  induction toks with
  | nil => rfl
  | cons t r ih =>
    rw [List.flatten_cons, List.append_assoc, elems_tok_left (h t (by simp)), ih (fun u hu => h u (by simp [hu]))]

/-- (S1) trimming the operand text does not change the trimmed operands -/
theorem elems_trimLeft (x : Bytes) : elems (trimLeft x) = elems x := by
  obtain ⟨toks, e, ht⟩ := dropToks_tokens isSp1 isSp2 isSp3 x
  have : elems x = elems (toks.flatten ++ trimLeft x) := by unfold trimLeft; rw [← e]
  rw [this, elems_toks_left (fun t h => tok_of_gtokF (ht t h))]

theorem elems_toks_right {toks : List Bytes} (h : ∀ t ∈ toks, Tok t.reverse) (x : Bytes) :
    elems (x ++ toks.flatten.reverse) = elems x := by
  induction toks generalizing x with
  | nil => simp
  | cons t r ih =>
    rw [List.flatten_cons, List.reverse_append, ← List.append_assoc,
      elems_tok_right (h t (by simp)), ih (fun u hu => h u (by simp [hu]))]

theorem elems_trimRight (x : Bytes) : elems (trimRight x) = elems x := by
  obtain ⟨toks, e, ht⟩ := dropToks_tokens isSp1 p2r p3r x.reverse
  have e2 : x = trimRight x ++ toks.flatten.reverse := by
    have := congrArg List.reverse e
    simpa [trimRight, trimLeftRev] using this
  have : elems x = elems (trimRight x ++ toks.flatten.reverse) := by rw [← e2]
  rw [this, elems_toks_right (fun t h => tok_of_gtokB (ht t h))]

theorem elems_trimSpace (x : Bytes) : elems (trimSpace x) = elems x := by
  unfold trimSpace; rw [elems_trimRight, elems_trimLeft]

/-! ### one line under the layout edits -/

theorem classify_congr_trim {a b : Bytes} (h : trimSpace a = trimSpace b) : classify a = classify b := by
  rw [classify_eq, classify_eq, h]

/-- the instruction branch of the loop body: mnemonic word `w`, operand text `R` -/
def instrOfWord (w R : Bytes) : M Item :=
  match mnemonicOf (toLower w) with
  | some m => (decodeOps m (splitOn 0x2C (cut R))).map Item.instr
  | none => .error (.err "unknown")

/-- the result for a (trimmed) line `w ␣ R` -/
theorem classify_word_space {raw w R : Bytes} (ht : trimSpace raw = w ++ 0x20 :: R) (hw : (0x20 : UInt8) ∉ w) :
    classify raw = if (w ++ [0x20]).head? = some 0x23 then .ok .skip else instrOfWord w R := by
  obtain ⟨hi, hwd, hr⟩ := parts_of_word_space (R := R) hw
  rw [classify_eq, ht, hi, hwd, hr]
  have hne : w ++ 0x20 :: R ≠ [] := by simp
  have hh : (w ++ 0x20 :: R).head? = (w ++ [0x20]).head? := by cases w <;> simp
  simp only [hne, hh, if_false, Option.isNone_some, Bool.false_eq_true, false_and]
  split
  · rfl
  · unfold instrOfWord; cases mnemonicOf (toLower w) <;> rfl

theorem classify_blank {ws : Bytes} (h : trimSpace ws = []) : classify ws = .ok .skip := by
  rw [classify_eq, h]; simp

theorem isPad_sp1 {ws : Bytes} (h : isPad ws = true) : ∀ x ∈ ws, isSp1 x = true := by
  intro x hx
  have := List.all_eq_true.mp h x hx
  revert this; revert x; intro x _ h; u8_omega

theorem classify_comment {ws : Bytes} (h : isPad ws = true) (c : Bytes) : classify (ws ++ 0x23 :: c) = .ok .skip := by
  have e : trimSpace (ws ++ 0x23 :: c) = 0x23 :: trimRight c := by
    unfold trimSpace
    rw [trimLeft_pad (isPad_sp1 h), trimLeft_cons_stop (by decide) (by decide), trimRight_cons_stop (by decide) (by decide)]
  rw [classify_eq, e]; simp

theorem classify_padLeft {ws : Bytes} (h : isPad ws = true) (raw : Bytes) : classify (ws ++ raw) = classify raw := by
  apply classify_congr_trim
  have := trimSpace_pad (isPad_sp1 h) (wr := []) (by simp) raw
  simpa using this

theorem classify_padRight {ws : Bytes} (h : isPad ws = true) (raw : Bytes) : classify (raw ++ ws) = classify raw := by
  apply classify_congr_trim
  have := trimSpace_pad (wl := []) (by simp) (isPad_sp1 h) raw
  simpa using this

theorem cut_of_hash {p q : Bytes} (hp : (0x23 : UInt8) ∉ p) : cut (p ++ 0x23 :: q) = trimSpace p := by
  simp [cut, indexOf_append_of_not_mem hp]

theorem cut_of_no_hash {r : Bytes} (h : (0x23 : UInt8) ∉ r) : cut r = r := by
  simp [cut, indexOf_eq_none_iff.mpr h]

theorem decodeOps_elems (m : Gen.InstructionType) {x y : Bytes} (h : elems x = elems y) :
    decodeOps m (splitOn 0x2C x) = decodeOps m (splitOn 0x2C y) := decodeOps_congr m h

theorem trimRight_eq_nil_of_prefix_len {a b : Bytes} (h : a <+: b) : a.length ≤ b.length := h.length_le

/-- (TC) a trailing comment on an operand-carrying line -/
theorem classify_trailingComment {raw : Bytes} (hsp : (trimSpace raw).contains 0x20 = true) (c : Bytes) :
    classify (raw ++ 0x20 :: 0x23 :: c) = classify raw := by
  -- L = trimLeft raw = w ␣ Y with no space in w
  have hmem : (0x20 : UInt8) ∈ trimSpace raw := by simpa using hsp
  have hL : (0x20 : UInt8) ∈ trimLeft raw := (trimRight_prefix _).subset hmem
  obtain ⟨i, hi⟩ := indexOf_eq_some_mem hL
  obtain ⟨eL, hw⟩ := indexOf_split hi
  generalize hwd : (trimLeft raw).take i = w at eL hw
  generalize hY : (trimLeft raw).drop (i + 1) = Y at eL
  have hLne : trimLeft raw ≠ [] := by rw [eL]; simp
  -- the trimmed line
  have ht : trimSpace raw = w ++ 0x20 :: trimRight Y := by
    unfold trimSpace at hmem ⊢
    rw [eL, trimRight_append_space] at hmem ⊢
    split at hmem
    · exact absurd ((trimRight_prefix w).subset hmem) hw
    · next h0 => simp [h0]
  -- the trimmed edited line
  have ht' : trimSpace (raw ++ 0x20 :: 0x23 :: c) = w ++ 0x20 :: (Y ++ 0x20 :: 0x23 :: trimRight c) := by
    unfold trimSpace
    rw [trimLeft_append_inert (by decide), if_neg hLne, eL]
    have : (w ++ 0x20 :: Y) ++ 0x20 :: 0x23 :: c = (w ++ 0x20 :: Y ++ [0x20]) ++ 0x23 :: c := by simp
    rw [this, trimRight_append_stop (by decide) (by decide)]
    simp
  rw [classify_word_space ht hw, classify_word_space ht' hw]
  split
  · rfl
  · unfold instrOfWord
    cases mnemonicOf (toLower w) with
    | none => rfl
    | some m =>
      dsimp only
      congr 1
      by_cases hh : (0x23 : UInt8) ∈ Y
      · obtain ⟨j, hj⟩ := indexOf_eq_some_mem hh
        obtain ⟨eY, hp⟩ := indexOf_split hj
        generalize Y.take j = p at eY hp
        generalize Y.drop (j + 1) = q at eY
        rw [eY, trimRight_append_stop (by decide) (by decide), cut_of_hash hp]
        have : (p ++ 0x23 :: q) ++ 0x20 :: 0x23 :: trimRight c = p ++ 0x23 :: (q ++ 0x20 :: 0x23 :: trimRight c) := by simp
        rw [this, cut_of_hash hp]
      · have h1 : (0x23 : UInt8) ∉ trimRight Y := fun hm => hh ((trimRight_prefix Y).subset hm)
        rw [cut_of_no_hash h1]
        have : Y ++ 0x20 :: 0x23 :: trimRight c = (Y ++ [0x20]) ++ 0x23 :: trimRight c := by simp
        rw [this, cut_of_hash (by simpa using hh)]
        apply decodeOps_elems
        have hpad : trimSpace (Y ++ [0x20]) = trimSpace Y := by
          have := trimSpace_pad (wl := []) (wr := [0x20]) (by simp) (by simp; decide) Y
          simpa using this
        rw [hpad, elems_trimSpace, elems_trimRight]

/-! ### the case of the mnemonic -/

macro "u8_decide" : tactic => `(tactic| (set_option maxRecDepth 100000 in (apply forall_u8; decide)))

theorem letter_facts : ∀ x : UInt8, isLetter x = true →
    x < 0x80 ∧ isSp1 x = false ∧ x ≠ 0x20 ∧ x ≠ 0x23 ∧ x ≠ 0x3A ∧ x ≠ 0x2C ∧ x ≠ 0x0A ∧
    isLetter (flipCase x) = true ∧ lowerAscii (flipCase x) = lowerAscii x := by u8_decide

theorem mem_takeWhile {p : UInt8 → Bool} {l : Bytes} {x : UInt8} (h : x ∈ l.takeWhile p) : p x = true := by
  induction l with
  | nil => simp at h
  | cons a r ih =>
    rw [List.takeWhile_cons] at h
    split at h
    · next ha => rcases List.mem_cons.mp h with rfl | h; exact ha; exact ih h
    · simp at h

theorem caseSplit_spec {raw pre w rest : Bytes} (h : caseSplit raw = some (pre, w, rest)) :
    raw = pre ++ w ++ rest ∧ (∀ x ∈ pre, isPadByte x = true) ∧ w ≠ [] ∧ (∀ x ∈ w, isLetter x = true) ∧
      (rest = [] ∨ ∃ r, rest = 0x20 :: r) := by
  unfold caseSplit at h
  dsimp only at h
  split at h
  · next hc =>
    simp only [Option.some.injEq, Prod.mk.injEq] at h
    obtain ⟨rfl, rfl, rfl⟩ := h
    simp only [Bool.and_eq_true, Bool.not_eq_true', List.isEmpty_eq_false_iff, Bool.or_eq_true, List.isEmpty_iff,
      beq_iff_eq] at hc
    refine ⟨by simp [List.takeWhile_append_dropWhile], fun x hx => mem_takeWhile hx, hc.1,
      fun x hx => mem_takeWhile hx, ?_⟩
    rcases hc.2 with h0 | h0
    · exact Or.inl h0
    · right
      cases hd : List.dropWhile isLetter (List.dropWhile isPadByte raw) with
      | nil => simp [hd] at h0
      | cons a r => simp [hd] at h0; exact ⟨r, by rw [h0]⟩
  · cases h

theorem flipWith_length (mask : List Bool) (w : Bytes) : (flipWith mask w).length = w.length := by
  induction w generalizing mask with
  | nil => cases mask <;> rfl
  | cons c r ih => cases mask with
    | nil => rfl
    | cons m ms => simp [flipWith, ih]

theorem flipWith_letters (mask : List Bool) {w : Bytes} (h : ∀ x ∈ w, isLetter x = true) :
    ∀ x ∈ flipWith mask w, isLetter x = true := by
  induction w generalizing mask with
  | nil => cases mask <;> simp [flipWith]
  | cons c r ih =>
    cases mask with
    | nil => exact h
    | cons m ms =>
      intro x hx
      simp only [flipWith, List.mem_cons] at hx
      rcases hx with rfl | hx
      · have hc := h c (by simp)
        cases m
        · simpa using hc
        · simpa using (letter_facts c hc).2.2.2.2.2.2.2.1
      · exact ih ms (fun y hy => h y (by simp [hy])) x hx

theorem flipWith_lower (mask : List Bool) {w : Bytes} (h : ∀ x ∈ w, isLetter x = true) :
    (flipWith mask w).map lowerAscii = w.map lowerAscii := by
  induction w generalizing mask with
  | nil => cases mask <;> rfl
  | cons c r ih =>
    cases mask with
    | nil => rfl
    | cons m ms =>
      have hc := h c (by simp)
      simp only [flipWith, List.map_cons, ih ms (fun y hy => h y (by simp [hy]))]
      cases m
      · simp
      · simp [(letter_facts c hc).2.2.2.2.2.2.2.2]

theorem toLower_ascii {w : Bytes} (h : ∀ x ∈ w, x < 0x80) : toLower w = w.map lowerAscii := by
  induction w using toLower.induct with
  | case1 => rfl
  | case2 a => rfl
  | case3 a b hc =>
    have := h a (by simp); simp at hc; rw [hc.1] at this; exact absurd this (by decide)
  | case4 a b hc ih => simp [toLower, hc]
  | case5 a b c r hc ih =>
    have := h a (by simp); simp at hc; rw [hc.1] at this; exact absurd this (by decide)
  | case6 a b c r h1 hc ih =>
    have := h a (by simp); simp at hc; rw [hc.1.1] at this; exact absurd this (by decide)
  | case7 a b c r h1 h2 ih =>
    rw [toLower, if_neg h1, if_neg h2, ih (fun x hx => h x (by simp [hx]))]
    rfl

theorem toLower_flipWith (mask : List Bool) {w : Bytes} (h : ∀ x ∈ w, isLetter x = true) :
    toLower (flipWith mask w) = toLower w := by
  rw [toLower_ascii (fun x hx => (letter_facts x (flipWith_letters mask h x hx)).1),
    toLower_ascii (fun x hx => (letter_facts x (h x hx)).1), flipWith_lower mask h]

/-- the trimmed form of `pre ++ w ++ rest` for a letters-only word -/
theorem trimSpace_caseSplit {pre w rest : Bytes} (hpre : ∀ x ∈ pre, isPadByte x = true) (hw : w ≠ [])
    (hl : ∀ x ∈ w, isLetter x = true) : trimSpace (pre ++ w ++ rest) = w ++ trimRight rest := by
  have hp : ∀ x ∈ pre, isSp1 x = true := fun x hx => by
    have := hpre x hx; revert this; revert x; intro x _ h; simp only [isPadByte] at h; u8_omega
  unfold trimSpace
  rw [List.append_assoc, trimLeft_pad hp]
  obtain ⟨w0, z, rfl⟩ : ∃ w0 z, w = w0 ++ [z] := ⟨w.dropLast, w.getLast hw, (List.dropLast_concat_getLast hw).symm⟩
  have hz := letter_facts z (hl z (by simp))
  cases w0 with
  | nil =>
    simp only [List.nil_append, List.singleton_append]
    rw [trimLeft_cons_stop hz.1 hz.2.1, trimRight_cons_stop hz.1 hz.2.1]
  | cons a r =>
    have ha := letter_facts a (hl a (by simp))
    simp only [List.cons_append]
    rw [trimLeft_cons_stop ha.1 ha.2.1]
    have : a :: (r ++ [z] ++ rest) = (a :: r) ++ z :: rest := by simp
    rw [this, trimRight_append_stop hz.1 hz.2.1]
    simp

theorem not_mem_of_letters {w : Bytes} (hl : ∀ x ∈ w, isLetter x = true) {c : UInt8} (hc : isLetter c = false) :
    c ∉ w := fun hm => by rw [hl c hm] at hc; cases hc

/-- a line that is its mnemonic word alone -/
theorem classify_word_alone {raw w : Bytes} (ht : trimSpace raw = w) (hw : w ≠ []) (hl : ∀ x ∈ w, isLetter x = true) :
    classify raw = match mnemonicOf (toLower w) with
      | some m => (decodeOps m [w]).map Item.instr
      | none => .error (.err "unknown") := by
  have h20 : (0x20 : UInt8) ∉ w := not_mem_of_letters hl (by decide)
  have h23 : (0x23 : UInt8) ∉ w := not_mem_of_letters hl (by decide)
  have h2c : (0x2C : UInt8) ∉ w := not_mem_of_letters hl (by decide)
  have hi : indexOf 0x20 w = none := indexOf_eq_none_iff.mpr h20
  rw [classify_eq, ht]
  have hhead : w.head? ≠ some 0x23 := by
    cases w with
    | nil => simp
    | cons a r => simp; intro e; exact h23 (by simp [e])
  have hlast : w.getLast? ≠ some 0x3A := by
    intro e
    have : (0x3A : UInt8) ∈ w := List.mem_of_getLast? e
    exact not_mem_of_letters hl (by decide) this
  simp only [hw, hhead, hlast, if_false, and_false]
  have e1 : word w = w := by simp [word, hi]
  have e2 : remOf w = w := by simp [remOf, hi]
  rw [e1, e2, cut_of_no_hash h23, splitOn_of_not_mem h2c]
  try (cases mnemonicOf (toLower w) <;> rfl)

theorem rrr_single (x : Bytes) (mk) : rrr [x] mk = .error (.err "args") := rfl
theorem rri_single (x : Bytes) (mk) : rri [x] mk = .error (.err "args") := rfl
theorem ri_single (x : Bytes) (mk) : ri [x] mk = .error (.err "args") := rfl
theorem rrl_single (x : Bytes) (mk) : rrl [x] mk = .error (.err "args") := rfl
theorem rl_single (x : Bytes) (mk) : rl [x] mk = .error (.err "args") := rfl
theorem rm_single (x : Bytes) (mk) : rm [x] mk = .error (.err "args") := rfl
theorem rr_single (x : Bytes) (mk) : rr [x] mk = .error (.err "args") := rfl
theorem rir_single (x : Bytes) (mk) : rir [x] mk = .error (.err "args") := rfl

theorem decodeOps_singleton (m : Gen.InstructionType) (hm : m ≠ .J) (x y : Bytes) :
    decodeOps m [x] = decodeOps m [y] := by
  cases m <;> first
    | exact absurd rfl hm
    | simp only [decodeOps, rrr_single, rri_single, ri_single, rrl_single, rl_single, rm_single, rr_single, rir_single]

/-- (MC) changing the case of mnemonic letters, except on a bare `j` -/
theorem classify_mnemonicCase {raw pre w rest : Bytes} (hs : caseSplit raw = some (pre, w, rest))
    (hj : bareJ raw = false) (mask : List Bool) :
    classify (pre ++ flipWith mask w ++ rest) = classify raw := by
  obtain ⟨rfl, hpre, hw, hl, hrest⟩ := caseSplit_spec hs
  have hl' := flipWith_letters mask hl
  have hw' : flipWith mask w ≠ [] := by
    intro e; have := flipWith_length mask w; rw [e] at this; exact hw (List.length_eq_zero_iff.mp this.symm)
  have ht := trimSpace_caseSplit (rest := rest) hpre hw hl
  have ht' := trimSpace_caseSplit (rest := rest) hpre hw' hl'
  have hlow := toLower_flipWith mask hl
  have hr : trimRight rest = [] ∨ ∃ r', trimRight rest = 0x20 :: r' := by
    rcases hrest with rfl | ⟨r, rfl⟩
    · left; rfl
    · cases hh : trimRight (0x20 :: r) with
      | nil => left; rfl
      | cons a r' =>
        right
        have := trimRight_prefix (0x20 :: r)
        rw [hh] at this
        obtain ⟨t, et⟩ := this
        simp at et
        exact ⟨r', by rw [et.1]⟩
  rcases hr with h0 | ⟨r', h0⟩
  · rw [h0, List.append_nil] at ht ht'
    rw [classify_word_alone ht hw hl, classify_word_alone ht' hw' hl', hlow]
    cases hm : mnemonicOf (toLower w) with
    | none => rfl
    | some m =>
      have : m ≠ .J := by
        intro e
        have hi : indexOf 0x20 w = none := indexOf_eq_none_iff.mpr (not_mem_of_letters hl (by decide))
        unfold bareJ at hj; rw [ht, hi, hm, e] at hj; simp at hj
      dsimp only
      rw [decodeOps_singleton m this]
  · rw [h0] at ht ht'
    have h20 : (0x20 : UInt8) ∉ w := not_mem_of_letters hl (by decide)
    have h20' : (0x20 : UInt8) ∉ flipWith mask w := not_mem_of_letters hl' (by decide)
    rw [classify_word_space ht h20, classify_word_space ht' h20']
    have hh : ∀ {v : Bytes}, v ≠ [] → (∀ x ∈ v, isLetter x = true) → (v ++ [0x20]).head? ≠ some 0x23 := by
      intro v hv hvl
      cases v with
      | nil => exact absurd rfl hv
      | cons a r => simp; intro e; exact not_mem_of_letters hvl (c := 0x23) (by decide) (by simp [e])
    rw [if_neg (hh hw hl), if_neg (hh hw' hl')]
    unfold instrOfWord
    rw [hlow]

/-! ### edits on the list of lines -/

theorem parseLines_append (a b : List Bytes) (st : St) :
    parseLines (a ++ b) st = parseLines a st >>= parseLines b := by
  unfold parseLines; rw [List.foldlM_append]

theorem parseLines_cons (a : Bytes) (r : List Bytes) (st : St) :
    parseLines (a :: r) st = step st a >>= parseLines r := by
  unfold parseLines; rw [List.foldlM_cons]

theorem step_skip {x : Bytes} (hx : classify x = .ok .skip) (st : St) : step st x = .ok st := by
  simp [step, hx, bind, Except.bind, pure, Except.pure, St.apply]

theorem parseLines_insertAt {x : Bytes} (hx : classify x = .ok .skip) (i : Nat) (ls : List Bytes) (st : St) :
    parseLines (insertAt i x ls) st = parseLines ls st := by
  unfold insertAt
  conv => rhs; rw [← List.take_append_drop i ls]
  rw [parseLines_append, parseLines_append]
  congr 1
  funext st'
  rw [parseLines_cons, step_skip hx]
  rfl

theorem parseLines_editAt {f : Bytes → Bytes} : ∀ (i : Nat) (ls : List Bytes),
    (∀ raw, ls[i]? = some raw → classify (f raw) = classify raw) → ∀ st, parseLines (editAt i f ls) st = parseLines ls st
  | _, [], _, _ => by simp [editAt]
  | 0, a :: r, h, st => by
    rw [editAt, parseLines_cons, parseLines_cons]
    have := h a (by simp)
    simp only [step, this]
  | i + 1, a :: r, h, st => by
    rw [editAt, parseLines_cons, parseLines_cons]
    congr 1
    funext st'
    exact parseLines_editAt i r (fun raw hr => h raw (by simpa using hr)) st'

theorem mem_insertAt {i : Nat} {x l : Bytes} {ls : List Bytes} (h : l ∈ insertAt i x ls) : l = x ∨ l ∈ ls := by
  unfold insertAt at h
  rcases List.mem_append.mp h with h | h
  · exact Or.inr (List.mem_of_mem_take h)
  · rcases List.mem_cons.mp h with h | h
    · exact Or.inl h
    · exact Or.inr (List.mem_of_mem_drop h)

theorem mem_editAt {f : Bytes → Bytes} {l : Bytes} : ∀ {i : Nat} {ls : List Bytes}, l ∈ editAt i f ls →
    l ∈ ls ∨ ∃ raw, ls[i]? = some raw ∧ l = f raw
  | _, [], h => by simp [editAt] at h
  | 0, a :: r, h => by
    rw [editAt] at h
    rcases List.mem_cons.mp h with h | h
    · exact Or.inr ⟨a, by simp, h⟩
    · exact Or.inl (by simp [h])
  | i + 1, a :: r, h => by
    rw [editAt] at h
    rcases List.mem_cons.mp h with h | h
    · exact Or.inl (by simp [h])
    · rcases mem_editAt h with h | ⟨raw, hr, e⟩
      · exact Or.inl (by simp [h])
      · exact Or.inr ⟨raw, by simpa using hr, e⟩

theorem editAt_ne_nil {f : Bytes → Bytes} {i : Nat} {ls : List Bytes} (h : ls ≠ []) : editAt i f ls ≠ [] := by
  cases ls with
  | nil => exact absurd rfl h
  | cons a r => cases i <;> simp [editAt]

theorem insertAt_ne_nil {i : Nat} {x : Bytes} {ls : List Bytes} : insertAt i x ls ≠ [] := by
  simp [insertAt]

theorem noNL_iff {c : Bytes} : noNL c = true ↔ (0x0A : UInt8) ∉ c := by simp [noNL]

theorem isPad_noNL {ws : Bytes} (h : isPad ws = true) : (0x0A : UInt8) ∉ ws := by
  intro hm
  have := List.all_eq_true.mp h _ hm
  revert this; decide

theorem flipWith_noNL (mask : List Bool) {w : Bytes} (hl : ∀ x ∈ w, isLetter x = true) :
    (0x0A : UInt8) ∉ flipWith mask w := not_mem_of_letters (flipWith_letters mask hl) (by decide)

/-- which lines a case edit may not touch -/
def EditOk (e : LayoutEdit) (ls : List Bytes) : Prop :=
  match e with
  | .mnemonicCase i _ => ∀ raw, ls[i]? = some raw → bareJ raw = false
  | _ => True

/-- every layout edit keeps the text a list of newline-free lines and does not change the parse -/
theorem applyLines_ok (e : LayoutEdit) {ls : List Bytes} (hne : ls ≠ []) (hnl : ∀ l ∈ ls, (0x0A : UInt8) ∉ l)
    (hj : EditOk e ls) :
    (e.applyLines ls ≠ [] ∧ ∀ l ∈ e.applyLines ls, (0x0A : UInt8) ∉ l) ∧
      ∀ st, parseLines (e.applyLines ls) st = parseLines ls st := by
  cases e with
  | insertBlank i ws =>
    simp only [LayoutEdit.applyLines]
    split
    · next h =>
      refine ⟨⟨insertAt_ne_nil, fun l hl => ?_⟩, parseLines_insertAt (classify_blank h.1) i ls⟩
      rcases mem_insertAt hl with rfl | hl
      · exact noNL_iff.mp h.2
      · exact hnl l hl
    · exact ⟨⟨hne, hnl⟩, fun _ => rfl⟩
  | insertComment i ws c =>
    simp only [LayoutEdit.applyLines]
    split
    · next h =>
      refine ⟨⟨insertAt_ne_nil, fun l hl => ?_⟩, parseLines_insertAt (classify_comment h.1 c) i ls⟩
      rcases mem_insertAt hl with rfl | hl
      · have h1 := isPad_noNL h.1
        have h2 := noNL_iff.mp h.2
        simp only [List.mem_append, List.mem_cons, not_or]
        exact ⟨h1, by decide, h2⟩
      · exact hnl l hl
    · exact ⟨⟨hne, hnl⟩, fun _ => rfl⟩
  | padLeft i ws =>
    simp only [LayoutEdit.applyLines]
    split
    · next h =>
      refine ⟨⟨editAt_ne_nil hne, fun l hl => ?_⟩, parseLines_editAt i ls (fun raw _ => classify_padLeft h raw)⟩
      rcases mem_editAt hl with hl | ⟨raw, hr, rfl⟩
      · exact hnl l hl
      · have := hnl raw (List.mem_of_getElem? hr)
        simp only [List.mem_append, not_or]
        exact ⟨isPad_noNL h, this⟩
    · exact ⟨⟨hne, hnl⟩, fun _ => rfl⟩
  | padRight i ws =>
    simp only [LayoutEdit.applyLines]
    split
    · next h =>
      refine ⟨⟨editAt_ne_nil hne, fun l hl => ?_⟩, parseLines_editAt i ls (fun raw _ => classify_padRight h raw)⟩
      rcases mem_editAt hl with hl | ⟨raw, hr, rfl⟩
      · exact hnl l hl
      · have := hnl raw (List.mem_of_getElem? hr)
        simp only [List.mem_append, not_or]
        exact ⟨this, isPad_noNL h⟩
    · exact ⟨⟨hne, hnl⟩, fun _ => rfl⟩
  | trailingComment i c =>
    simp only [LayoutEdit.applyLines]
    split
    · next h =>
      refine ⟨⟨editAt_ne_nil hne, fun l hl => ?_⟩, parseLines_editAt i ls (fun raw _ => ?_)⟩
      · rcases mem_editAt hl with hl | ⟨raw, hr, rfl⟩
        · exact hnl l hl
        · have := hnl raw (List.mem_of_getElem? hr)
          split
          · simp only [List.mem_append, List.mem_cons, not_or]
            exact ⟨this, by decide, by decide, noNL_iff.mp h⟩
          · exact this
      · split
        · next hs => exact classify_trailingComment hs c
        · rfl
    · exact ⟨⟨hne, hnl⟩, fun _ => rfl⟩
  | mnemonicCase i mask =>
    simp only [LayoutEdit.applyLines]
    refine ⟨⟨editAt_ne_nil hne, fun l hl => ?_⟩, parseLines_editAt i ls (fun raw hr => ?_)⟩
    · rcases mem_editAt hl with hl | ⟨raw, hr, rfl⟩
      · exact hnl l hl
      · have := hnl raw (List.mem_of_getElem? hr)
        split
        · next pre w rest hs =>
          obtain ⟨e, _, _, hl, _⟩ := caseSplit_spec hs
          rw [e] at this
          simp only [List.mem_append, not_or] at this ⊢
          exact ⟨⟨this.1.1, flipWith_noNL mask hl⟩, this.2⟩
        · exact this
    · split
      · next pre w rest hs => exact classify_mnemonicCase hs (hj raw hr) mask
      · rfl

/-! ### registers by name, immediates by decimal value -/

def isAlnum (c : UInt8) : Bool := isLetter c || isDigit c

theorem alnum_facts : ∀ c : UInt8, isAlnum c = true →
    c < 0x80 ∧ isSp1 c = false ∧ c ≠ 0x20 ∧ c ≠ 0x23 ∧ c ≠ 0x2C ∧ c ≠ 0x0A ∧ c ≠ 0x28 ∧ c ≠ 0x29 ∧ c ≠ 0x24 := by u8_decide

/-- everything the proofs need to know about one register name, as a Boolean check -/
def regCheck (r : Nat) : Bool :=
  (match parseRegister (regName r) with | .ok v => v == r | .error _ => false) &&
  (match parseRegister (0x24 :: regName r) with | .ok v => v == r | .error _ => false) &&
  !(regName r).isEmpty && (regName r).all isAlnum

theorem regCheck_all : (List.range 32).all regCheck = true := by decide

theorem regCheck_of_lt {r : Nat} (h : r < 32) : regCheck r = true :=
  List.all_eq_true.mp regCheck_all r (List.mem_range.mpr h)

theorem parseRegister_regName {r : Nat} (h : r < 32) : parseRegister (regName r) = .ok r := by
  have := regCheck_of_lt h
  simp only [regCheck, Bool.and_eq_true] at this
  have h1 := this.1.1.1
  split at h1
  · next v hv => rw [hv]; simp at h1; rw [h1]
  · cases h1

theorem parseRegister_dollar {r : Nat} (h : r < 32) : parseRegister (0x24 :: regName r) = .ok r := by
  have := regCheck_of_lt h
  simp only [regCheck, Bool.and_eq_true] at this
  have h1 := this.1.1.2
  split at h1
  · next v hv => rw [hv]; simp at h1; rw [h1]
  · cases h1

theorem regName_ne_nil {r : Nat} (h : r < 32) : regName r ≠ [] := by
  have := regCheck_of_lt h
  simp only [regCheck, Bool.and_eq_true] at this
  simpa using this.1.2

theorem regName_alnum {r : Nat} (h : r < 32) : ∀ c ∈ regName r, isAlnum c = true := by
  have := regCheck_of_lt h
  simp only [regCheck, Bool.and_eq_true] at this
  exact List.all_eq_true.mp this.2

theorem unlatin1_latin1 (b : Bytes) : unlatin1 (latin1 b) = b := by
  unfold unlatin1 latin1
  rw [String.toList_ofList, List.map_map]
  conv => rhs; rw [← List.map_id b]
  apply List.map_congr_left
  intro x _
  show (Char.ofUInt8 x).val.toNat.toUInt8 = x
  simp [Char.ofUInt8]

/-- conversely: whatever `parseRegister` accepts is one of the 32 names, with or without `$` -/
theorem parseRegister_only {s : Bytes} {r : Nat} (h : parseRegister s = .ok r) :
    r < 32 ∧ (s = regName r ∨ s = 0x24 :: regName r) := by
  unfold parseRegister at h
  generalize hn : stripDollar s = name at h
  split at h
  · next v hv =>
    cases h
    obtain ⟨hlt, hget, _⟩ := List.idxOf?_eq_some_iff.mp hv
    have hlt' : r < 32 := by simpa [regNames] using hlt
    have hname : name = regName r := by
      rw [← unlatin1_latin1 name, ← hget]
      simp [regName, ascii, hlt]
    refine ⟨hlt', ?_⟩
    rw [← hname, ← hn]
    unfold stripDollar
    split
    · right; rfl
    · left; rfl
  · cases h

/-! ### decimal immediates -/

def valLE : Bytes → Nat
  | [] => 0
  | d :: r => (d.toNat - 48) + 10 * valLE r

theorem digitsVal_append_one (l : Bytes) (d : UInt8) : digitsVal (l ++ [d]) = digitsVal l * 10 + (d.toNat - 48) := by
  simp [digitsVal, List.foldl_append]

theorem digitsVal_reverse (l : Bytes) : digitsVal l.reverse = valLE l := by
  induction l with
  | nil => rfl
  | cons d r ih => rw [List.reverse_cons, digitsVal_append_one, ih, valLE]; omega

theorem digit_byte {n : Nat} (h : n < 10) : isDigit (48 + n).toUInt8 = true ∧ (48 + n).toUInt8.toNat - 48 = n := by
  have : n = 0 ∨ n = 1 ∨ n = 2 ∨ n = 3 ∨ n = 4 ∨ n = 5 ∨ n = 6 ∨ n = 7 ∨ n = 8 ∨ n = 9 := by omega
  rcases this with rfl | rfl | rfl | rfl | rfl | rfl | rfl | rfl | rfl | rfl <;> decide

theorem digitsRev_spec : ∀ (fuel n : Nat), n < fuel →
    valLE (digitsRev fuel n) = n ∧ (digitsRev fuel n).all isDigit = true ∧ digitsRev fuel n ≠ []
  | 0, _, h => by omega
  | fuel + 1, n, h => by
    have hd := digit_byte (Nat.mod_lt n (by decide : 10 > 0))
    rw [digitsRev]
    by_cases hn : n < 10
    · simp only [hn, if_true, valLE, List.all_cons, List.all_nil, Bool.and_true]
      refine ⟨by rw [hd.2]; omega, hd.1, by simp⟩
    · have ih := digitsRev_spec fuel (n / 10) (by omega)
      simp only [hn, if_false, valLE, List.all_cons, ih.2.1, Bool.and_true]
      refine ⟨by rw [hd.2, ih.1]; omega, hd.1, by simp⟩

theorem natDigits_spec (n : Nat) :
    digitsVal (natDigits n) = n ∧ (natDigits n).all isDigit = true ∧ natDigits n ≠ [] := by
  have h := digitsRev_spec (n + 1) n (by omega)
  unfold natDigits
  refine ⟨by rw [digitsVal_reverse]; exact h.1, by rw [List.all_reverse]; exact h.2.1, by simpa using h.2.2⟩

theorem digit_facts : ∀ c : UInt8, isDigit c = true →
    c ≠ 0x2B ∧ c ≠ 0x2D ∧ c < 0x80 ∧ isSp1 c = false ∧ c ≠ 0x28 ∧ c ≠ 0x2C ∧ c ≠ 0x23 ∧ c ≠ 0x0A ∧ c ≠ 0x20 := by u8_decide

theorem signSplit_digits {ds : Bytes} (hne : ds ≠ []) (hd : ds.all isDigit = true) : signSplit ds = (false, ds) := by
  cases ds with
  | nil => exact absurd rfl hne
  | cons c r =>
    have := digit_facts c (by simp at hd; exact hd.1)
    unfold signSplit
    split
    · next h => cases h; exact absurd rfl this.1
    · next h => cases h; exact absurd rfl this.2.1
    · rfl

/-- an unsigned decimal numeral denotes its value, if that fits in an `int32` -/
theorem parseInt32_digits {ds : Bytes} (hne : ds ≠ []) (hd : ds.all isDigit = true) :
    parseInt32 ds = if digitsVal ds ≥ 2147483648 then .error (.err "int") else .ok (BitVec.ofNat 32 (digitsVal ds)) := by
  unfold parseInt32
  rw [signSplit_digits hne hd]
  simp [hd, hne]; rfl

/-- `+` is accepted and means nothing -/
theorem parseInt32_plus (ds : Bytes) : parseInt32 (0x2B :: ds) =
    if ds.isEmpty || !ds.all isDigit then .error (.err "int")
    else if digitsVal ds ≥ 2147483648 then .error (.err "int") else .ok (BitVec.ofNat 32 (digitsVal ds)) := by
  unfold parseInt32 signSplit
  simp; rfl

/-- `-` negates; the range is asymmetric -/
theorem parseInt32_minus (ds : Bytes) : parseInt32 (0x2D :: ds) =
    if ds.isEmpty || !ds.all isDigit then .error (.err "int")
    else if digitsVal ds > 2147483648 then .error (.err "int") else .ok (BitVec.ofInt 32 (-(digitsVal ds : Int))) := by
  unfold parseInt32 signSplit
  simp; rfl

/-- nothing else is an immediate: an accepted operand is an optional sign and decimal digits -/
theorem parseInt32_only {s : Bytes} {v : Word} (h : parseInt32 s = .ok v) :
    (signSplit s).2 ≠ [] ∧ (signSplit s).2.all isDigit = true ∧
      v = if (signSplit s).1 then BitVec.ofInt 32 (-(digitsVal (signSplit s).2 : Int)) else BitVec.ofNat 32 (digitsVal (signSplit s).2) := by
  unfold parseInt32 at h
  dsimp only at h
  split at h
  · cases h
  · next hc =>
    simp only [Bool.or_eq_true, List.isEmpty_iff, Bool.not_eq_true', not_or, Bool.not_eq_false] at hc
    refine ⟨hc.1, hc.2, ?_⟩
    split at h
    · next hneg => split at h
                   · cases h
                   · cases h; rw [if_pos hneg]
    · next hneg => split at h
                   · cases h
                   · cases h; rw [if_neg hneg]

/-- the printed form of an `int32` parses back to it -/
theorem parseInt32_showImm (v : Word) : parseInt32 (showImm v) = .ok v := by
  unfold showImm
  have hlo := BitVec.le_toInt v
  have hhi := BitVec.toInt_lt (x := v)
  simp only [Nat.add_one_sub_one] at hlo hhi
  split
  · next hneg =>
    obtain ⟨h1, h2, h3⟩ := natDigits_spec (-v.toInt).toNat
    rw [parseInt32_minus, h1]
    have : ¬ ((natDigits (-v.toInt).toNat).isEmpty || !(natDigits (-v.toInt).toNat).all isDigit) = true := by
      simp [h2, h3]
    rw [if_neg this, if_neg (by omega)]
    congr 1
    have : (-(((-v.toInt).toNat : Nat) : Int)) = v.toInt := by omega
    rw [this, BitVec.ofInt_toInt]
  · next hpos =>
    obtain ⟨h1, h2, h3⟩ := natDigits_spec v.toInt.toNat
    rw [parseInt32_digits h3 h2, h1, if_neg (by omega)]
    congr 1
    have : ((v.toInt.toNat : Nat) : Int) = v.toInt := by omega
    rw [← BitVec.ofInt_natCast, this, BitVec.ofInt_toInt]

theorem showImm_bytes (v : Word) : showImm v ≠ [] ∧ ∀ c ∈ showImm v, isDigit c = true ∨ c = 0x2D := by
  unfold showImm
  split
  · have := natDigits_spec (-v.toInt).toNat
    refine ⟨by simp, fun c hc => ?_⟩
    rcases List.mem_cons.mp hc with rfl | hc
    · right; rfl
    · left; exact List.all_eq_true.mp this.2.1 c hc
  · have := natDigits_spec v.toInt.toNat
    exact ⟨this.2.2, fun c hc => Or.inl (List.all_eq_true.mp this.2.1 c hc)⟩

/-! ### canonical lines -/

/-- an operand as the printer writes it -/
structure Opd (x : Bytes) : Prop where
  ne : x ≠ []
  trim : trimSpace x = x
  noComma : (0x2C : UInt8) ∉ x
  noHash : (0x23 : UInt8) ∉ x
  noNL : (0x0A : UInt8) ∉ x

theorem trimRight_length_le (l : Bytes) : (trimRight l).length ≤ l.length := (trimRight_prefix l).length_le
theorem trimLeft_length_le (l : Bytes) : (trimLeft l).length ≤ l.length := (trimLeft_suffix l).length_le

theorem trimLeft_of_trimSpace {x : Bytes} (h : trimSpace x = x) : trimLeft x = x := by
  have h1 := trimRight_length_le (trimLeft x)
  have h2 := trimLeft_length_le x
  unfold trimSpace at h
  rw [h] at h1
  exact (trimLeft_suffix x).eq_of_length (by omega)

theorem trimRight_of_trimSpace {x : Bytes} (h : trimSpace x = x) : trimRight x = x := by
  have := trimLeft_of_trimSpace h
  unfold trimSpace at h; rw [this] at h; exact h

/-- across any ASCII byte, as long as something is left on the right -/
theorem trimRight_append_ascii {c : UInt8} (hc : c < 0x80) {l : Bytes} (hl : trimRight l ≠ []) (a : Bytes) :
    trimRight (a ++ c :: l) = a ++ c :: trimRight l := by
  unfold trimRight at hl ⊢
  rw [List.reverse_append, List.reverse_cons, List.append_assoc, List.singleton_append,
    trimLeftRev_append_inert hc, if_neg (by simpa using hl)]
  simp

theorem trimSpace_space_cons {x : Bytes} : trimSpace (0x20 :: x) = trimSpace x :=
  trimSpace_tok_left (t := [0x20]) (.one (by decide)) x

theorem commaSep_spec : ∀ {ops : List Bytes}, ops ≠ [] → (∀ x ∈ ops, Opd x) →
    (splitOn 0x2C (commaSep ops)).map trimSpace = ops ∧ commaSep ops ≠ [] ∧ (0x23 : UInt8) ∉ commaSep ops ∧
      trimRight (commaSep ops) = commaSep ops
  | [], h, _ => absurd rfl h
  | [a], _, h => by
    have ha := h a (by simp)
    refine ⟨?_, ha.ne, ha.noHash, trimRight_of_trimSpace ha.trim⟩
    simp [commaSep, splitOn_of_not_mem ha.noComma, ha.trim]
  | a :: b :: r, _, h => by
    have ha := h a (by simp)
    obtain ⟨i1, i2, i3, i4⟩ := commaSep_spec (ops := b :: r) (by simp) (fun x hx => h x (by simp [hx]))
    rw [commaSep]
    refine ⟨?_, by simp, ?_, ?_⟩
    · rw [splitOn_append_sep ha.noComma]
      have : (0x20 : UInt8) :: commaSep (b :: r) = [0x20] ++ commaSep (b :: r) := rfl
      rw [this, splitOn_append_left (by decide)]
      have hne := splitOn_ne_nil 0x2C (commaSep (b :: r))
      cases hs : splitOn 0x2C (commaSep (b :: r)) with
      | nil => exact absurd hs hne
      | cons e t =>
        rw [hs] at i1
        simp only [List.map_cons, List.headD_cons, List.tail_cons, List.singleton_append] at i1 ⊢
        rw [ha.trim, trimSpace_space_cons, i1]
    · simp only [List.mem_append, List.mem_cons, not_or]
      exact ⟨ha.noHash, by decide, by decide, i3⟩
    · rw [trimRight_append_stop (by decide) (by decide)]
      have := trimRight_append_ascii (c := 0x20) (by decide) (l := commaSep (b :: r)) (by rw [i4]; exact i2) []
      simp only [List.nil_append] at this
      rw [this, i4]

structure MnOk (mn : Bytes) (m : Gen.InstructionType) : Prop where
  ne : mn ≠ []
  letters : ∀ x ∈ mn, isLetter x = true
  key : mnemonicOf (toLower mn) = some m

/-- a canonical instruction line is handed to the `switch` with exactly its operands -/
theorem classify_pretty {mn : Bytes} {m : Gen.InstructionType} (hm : MnOk mn m) {ops : List Bytes}
    (hne : ops ≠ []) (hops : ∀ x ∈ ops, Opd x) :
    classify (mn ++ 0x20 :: commaSep ops) = (decodeOps m ops).map Item.instr := by
  obtain ⟨h1, h2, h3, h4⟩ := commaSep_spec hne hops
  have h20 : (0x20 : UInt8) ∉ mn := not_mem_of_letters hm.letters (by decide)
  have ht : trimSpace (mn ++ 0x20 :: commaSep ops) = mn ++ 0x20 :: commaSep ops := by
    unfold trimSpace
    obtain ⟨a, r, rfl⟩ : ∃ a r, mn = a :: r := by
      cases mn with
      | nil => exact absurd rfl hm.ne
      | cons a r => exact ⟨a, r, rfl⟩
    have ha := letter_facts a (hm.letters a (by simp))
    rw [List.cons_append, trimLeft_cons_stop ha.1 ha.2.1, ← List.cons_append,
      trimRight_append_ascii (by decide) (by rw [h4]; exact h2), h4]
  rw [classify_word_space ht h20]
  have hh : (mn ++ [0x20]).head? ≠ some 0x23 := by
    cases mn with
    | nil => exact absurd rfl hm.ne
    | cons a r => simp; intro e; exact not_mem_of_letters hm.letters (c := 0x23) (by decide) (by simp [e])
  rw [if_neg hh]
  unfold instrOfWord
  rw [hm.key, cut_of_no_hash h3]
  dsimp only
  congr 1
  apply decodeOps_congr
  rw [h1]
  clear h1 h2 h3 h4 ht hne
  induction ops with
  | nil => rfl
  | cons x r ih =>
    rw [List.map_cons, (hops x (by simp)).trim, ← ih (fun y hy => hops y (by simp [hy]))]

/-! ### the operands the printer writes -/

def isOpdByte (c : UInt8) : Bool := isAlnum c || c == 0x2D || c == 0x28 || c == 0x29

theorem opdByte_facts : ∀ c : UInt8, isOpdByte c = true →
    c < 0x80 ∧ isSp1 c = false ∧ c ≠ 0x2C ∧ c ≠ 0x23 ∧ c ≠ 0x0A := by u8_decide

theorem trimSpace_of_stops {x : Bytes} (hne : x ≠ []) (h : ∀ c ∈ x, c < 0x80 ∧ isSp1 c = false) : trimSpace x = x := by
  unfold trimSpace
  obtain ⟨a, r, rfl⟩ : ∃ a r, x = a :: r := by
    cases x with
    | nil => exact absurd rfl hne
    | cons a r => exact ⟨a, r, rfl⟩
  rw [trimLeft_cons_stop (h a (by simp)).1 (h a (by simp)).2]
  have hne' : a :: r ≠ [] := by simp
  rw [← List.dropLast_concat_getLast hne']
  have hz := h ((a :: r).getLast hne') (List.getLast_mem hne')
  rw [trimRight_append_stop hz.1 hz.2]
  rfl

theorem opd_of_bytes {x : Bytes} (hne : x ≠ []) (h : ∀ c ∈ x, isOpdByte c = true) : Opd x where
  ne := hne
  trim := trimSpace_of_stops hne (fun c hc => ⟨(opdByte_facts c (h c hc)).1, (opdByte_facts c (h c hc)).2.1⟩)
  noComma := fun hm => (opdByte_facts _ (h _ hm)).2.2.1 rfl
  noHash := fun hm => (opdByte_facts _ (h _ hm)).2.2.2.1 rfl
  noNL := fun hm => (opdByte_facts _ (h _ hm)).2.2.2.2 rfl

theorem regName_opdBytes {r : Nat} (h : r < 32) : ∀ c ∈ regName r, isOpdByte c = true := fun c hc => by
  simp [isOpdByte, regName_alnum h c hc]

theorem showImm_opdBytes (v : Word) : ∀ c ∈ showImm v, isOpdByte c = true := fun c hc => by
  rcases (showImm_bytes v).2 c hc with h | rfl
  · simp [isOpdByte, isAlnum, h]
  · decide

theorem opd_reg {r : Nat} (h : r < 32) : Opd (regName r) := opd_of_bytes (regName_ne_nil h) (regName_opdBytes h)
theorem opd_imm (v : Word) : Opd (showImm v) := opd_of_bytes (showImm_bytes v).1 (showImm_opdBytes v)

theorem opd_mem (v : Word) {r : Nat} (h : r < 32) : Opd (showImm v ++ 0x28 :: regName r ++ [0x29]) :=
  opd_of_bytes (by simp) (fun c hc => by
    simp only [List.mem_append, List.mem_cons, List.not_mem_nil, or_false] at hc
    rcases hc with (hc | rfl | hc) | rfl
    · exact showImm_opdBytes v c hc
    · decide
    · exact regName_opdBytes h c hc
    · decide)

theorem labelOk_spec {s : String} (h : labelOk s = true) : latin1 (unlatin1 s) = s ∧ Opd (unlatin1 s) := by
  simp only [labelOk, Bool.and_eq_true, beq_iff_eq, Bool.not_eq_true', List.isEmpty_eq_false_iff,
    List.contains_eq_mem, decide_eq_false_iff_not] at h
  obtain ⟨⟨⟨⟨⟨h1, h2⟩, h3⟩, h4⟩, h5⟩, h6⟩ := h
  exact ⟨h1, ⟨h2, h3, h4, h5, h6⟩⟩

theorem parseOffsetReg_pretty (v : Word) {r : Nat} (h : r < 32) :
    parseOffsetReg (showImm v ++ 0x28 :: regName r ++ [0x29]) = .ok (v, r) := by
  have hS : (0x28 : UInt8) ∉ showImm v := fun hm => by
    rcases (showImm_bytes v).2 _ hm with h | h
    · revert h; decide
    · revert h; decide
  have hi : indexOf 0x28 (showImm v ++ 0x28 :: regName r ++ [0x29]) = some (showImm v).length := by
    rw [List.append_assoc, List.cons_append]; exact indexOf_append_of_not_mem hS _
  unfold parseOffsetReg
  rw [hi]
  have hsuf : hasSuffixByte (showImm v ++ 0x28 :: regName r ++ [0x29]) 0x29 = true := by
    have : showImm v ++ 0x28 :: regName r ++ [0x29] = (showImm v ++ 0x28 :: regName r) ++ [0x29] := by simp
    rw [this, hasSuffixByte, List.getLast?_concat]; rfl
  simp only [hsuf, Bool.not_true, Bool.false_eq_true, if_false]
  have hlen : (showImm v ++ 0x28 :: regName r ++ [0x29]).length = (showImm v).length + 1 + (regName r).length + 1 := by
    simp; omega
  rw [slice_ok (Nat.zero_le _) (by omega), slice_ok (by omega) (by omega)]
  have e1 : List.drop 0 (List.take (showImm v).length (showImm v ++ 0x28 :: regName r ++ [0x29])) = showImm v := by
    rw [List.append_assoc]; simp
  have e2 : List.drop ((showImm v).length + 1)
      (List.take ((showImm v ++ 0x28 :: regName r ++ [0x29]).length - 1) (showImm v ++ 0x28 :: regName r ++ [0x29])) = regName r := by
    have : showImm v ++ 0x28 :: regName r ++ [0x29] = (showImm v ++ 0x28 :: regName r) ++ [0x29] := by simp
    rw [this, List.length_append, List.length_singleton, Nat.add_sub_cancel, List.take_left']
    · have : showImm v ++ 0x28 :: regName r = (showImm v ++ [0x28]) ++ regName r := by simp
      rw [this, List.drop_left']
      simp
    · rfl
  simp only [e1, e2, bind, Except.bind, (opd_imm v).trim, parseInt32_showImm, (opd_reg h).trim,
    parseRegister_regName h, pure, Except.pure]

/-! ### the nine operand shapes on printed operands -/

section Shapes
variable {a b c : Nat} (ha : a < 32) (hb : b < 32) (hc : c < 32) (v : Word) {L : Bytes} (hL : Opd L)
include ha in
theorem ri_pretty (mk : Reg → Word → Gen.Instr) : ri [regName a, showImm v] mk = .ok (mk a v) := by
  simp [ri, validateArgs, arg, idx, bind, Except.bind, pure, Except.pure, (opd_reg ha).trim, (opd_imm v).trim,
    parseRegister_regName ha, parseInt32_showImm]
include ha hL in
theorem rl_pretty (mk : Reg → String → Gen.Instr) : rl [regName a, L] mk = .ok (mk a (latin1 L)) := by
  simp [rl, validateArgs, arg, idx, bind, Except.bind, pure, Except.pure, (opd_reg ha).trim, hL.trim,
    parseRegister_regName ha]
include hL in
theorem l1_pretty (mk : String → Gen.Instr) : l1 [L] mk = .ok (mk (latin1 L)) := by
  simp [l1, validateArgs, arg, idx, bind, Except.bind, pure, Except.pure, hL.trim]
include ha hb in
theorem rr_pretty (mk : Reg → Reg → Gen.Instr) : rr [regName a, regName b] mk = .ok (mk a b) := by
  simp [rr, validateArgs, arg, idx, bind, Except.bind, pure, Except.pure, (opd_reg ha).trim, (opd_reg hb).trim,
    parseRegister_regName ha, parseRegister_regName hb]
include ha hb in
theorem rm_pretty (mk : Reg → Word → Reg → Gen.Instr) :
    rm [regName a, showImm v ++ 0x28 :: regName b ++ [0x29]] mk = .ok (mk a v b) := by
  simp only [rm, validateArgs, arg, idx, List.length_cons, List.length_nil, bind, Except.bind, pure, Except.pure,
    List.getElem?_cons_zero, List.getElem?_cons_succ, (opd_reg ha).trim, (opd_mem v hb).trim,
    parseRegister_regName ha, parseOffsetReg_pretty v hb]
  rfl
include ha hb in
theorem rri_pretty (mk : Reg → Reg → Word → Gen.Instr) :
    rri [regName a, regName b, showImm v] mk = .ok (mk a b v) := by
  simp [rri, validateArgs, arg, idx, bind, Except.bind, pure, Except.pure, (opd_reg ha).trim, (opd_reg hb).trim,
    (opd_imm v).trim, parseRegister_regName ha, parseRegister_regName hb, parseInt32_showImm]
include ha hb in
theorem rir_pretty (mk : Reg → Word → Reg → Gen.Instr) :
    rir [regName a, showImm v, regName b] mk = .ok (mk a v b) := by
  simp [rir, validateArgs, arg, idx, bind, Except.bind, pure, Except.pure, (opd_reg ha).trim, (opd_reg hb).trim,
    (opd_imm v).trim, parseRegister_regName ha, parseRegister_regName hb, parseInt32_showImm]
include ha hb hL in
theorem rrl_pretty (mk : Reg → Reg → String → Gen.Instr) :
    rrl [regName a, regName b, L] mk = .ok (mk a b (latin1 L)) := by
  simp [rrl, validateArgs, arg, idx, bind, Except.bind, pure, Except.pure, (opd_reg ha).trim, (opd_reg hb).trim,
    hL.trim, parseRegister_regName ha, parseRegister_regName hb]
include ha hb hc in
theorem rrr_pretty (mk : Reg → Reg → Reg → Gen.Instr) :
    rrr [regName a, regName b, regName c] mk = .ok (mk a b c) := by
  simp [rrr, validateArgs, arg, idx, bind, Except.bind, pure, Except.pure, (opd_reg ha).trim, (opd_reg hb).trim,
    (opd_reg hc).trim, parseRegister_regName ha, parseRegister_regName hb, parseRegister_regName hc]
end Shapes

/-! ### the round trip, one instruction (45 cases, generated from the operand-shape table) -/

theorem commaSep_noNL : ∀ {ops : List Bytes}, (∀ x ∈ ops, Opd x) → (0x0A : UInt8) ∉ commaSep ops
  | [], _ => by simp [commaSep]
  | [a], h => by simpa [commaSep] using (h a (by simp)).noNL
  | a :: b :: r, h => by
    rw [commaSep]
    simp only [List.mem_append, List.mem_cons, not_or]
    exact ⟨(h a (by simp)).noNL, by decide, by decide, commaSep_noNL (fun x hx => h x (by simp [hx]))⟩

theorem noNL_line {mn : Bytes} {ops : List Bytes} (hmn : (0x0A : UInt8) ∉ mn) (hops : ∀ x ∈ ops, Opd x) :
    (0x0A : UInt8) ∉ mn ++ 0x20 :: commaSep ops := by
  simp only [List.mem_append, List.mem_cons, not_or]
  exact ⟨hmn, by decide, commaSep_noNL hops⟩

set_option linter.unusedSimpArgs false in
/-- every well-formed instruction is read back from its canonical text, which is one line -/
theorem prettyInstr_spec (i : Gen.Instr) (h : WfInstr i = true) :
    classify (prettyInstr i) = .ok (.instr i) ∧ (0x0A : UInt8) ∉ prettyInstr i := by
  cases i with
  | add_ o =>
    simp only [WfInstr, Bool.and_eq_true, regOk, decide_eq_true_eq, beq_iff_eq] at h
    obtain ⟨⟨⟨h1, h2⟩, h3⟩, hf⟩ := h
    have hops := (List.forall_mem_cons.mpr ⟨opd_reg h1, (List.forall_mem_cons.mpr ⟨opd_reg h2, (List.forall_mem_cons.mpr ⟨opd_reg h3, (fun _ h => absurd h List.not_mem_nil)⟩)⟩)⟩)
    refine ⟨?_, by rw [prettyInstr]; exact noNL_line (by decide) hops⟩
    rw [prettyInstr, classify_pretty (m := .Add) ⟨by decide, by decide, by rfl⟩ (by simp) hops]
    simp only [decodeOps, rrr_pretty h1 h2 h3, Except.map]
    cases o; cases hf; rfl
  | addi_ o =>
    simp only [WfInstr, Bool.and_eq_true, regOk, decide_eq_true_eq, beq_iff_eq] at h
    obtain ⟨⟨h1, h2⟩, hf⟩ := h
    have hops := (List.forall_mem_cons.mpr ⟨opd_reg h1, (List.forall_mem_cons.mpr ⟨opd_reg h2, (List.forall_mem_cons.mpr ⟨opd_imm o.imm, (fun _ h => absurd h List.not_mem_nil)⟩)⟩)⟩)
    refine ⟨?_, by rw [prettyInstr]; exact noNL_line (by decide) hops⟩
    rw [prettyInstr, classify_pretty (m := .Addi) ⟨by decide, by decide, by rfl⟩ (by simp) hops]
    simp only [decodeOps, rri_pretty h1 h2 o.imm, Except.map]
    cases o; cases hf; rfl
  | and_ o =>
    simp only [WfInstr, Bool.and_eq_true, regOk, decide_eq_true_eq, beq_iff_eq] at h
    obtain ⟨⟨⟨h1, h2⟩, h3⟩, hf⟩ := h
    have hops := (List.forall_mem_cons.mpr ⟨opd_reg h1, (List.forall_mem_cons.mpr ⟨opd_reg h2, (List.forall_mem_cons.mpr ⟨opd_reg h3, (fun _ h => absurd h List.not_mem_nil)⟩)⟩)⟩)
    refine ⟨?_, by rw [prettyInstr]; exact noNL_line (by decide) hops⟩
    rw [prettyInstr, classify_pretty (m := .And) ⟨by decide, by decide, by rfl⟩ (by simp) hops]
    simp only [decodeOps, rrr_pretty h1 h2 h3, Except.map]
    cases o; cases hf; rfl
  | andi_ o =>
    simp only [WfInstr, Bool.and_eq_true, regOk, decide_eq_true_eq, beq_iff_eq] at h
    obtain ⟨⟨h1, h2⟩, hf⟩ := h
    have hops := (List.forall_mem_cons.mpr ⟨opd_reg h1, (List.forall_mem_cons.mpr ⟨opd_reg h2, (List.forall_mem_cons.mpr ⟨opd_imm o.imm, (fun _ h => absurd h List.not_mem_nil)⟩)⟩)⟩)
    refine ⟨?_, by rw [prettyInstr]; exact noNL_line (by decide) hops⟩
    rw [prettyInstr, classify_pretty (m := .Andi) ⟨by decide, by decide, by rfl⟩ (by simp) hops]
    simp only [decodeOps, rri_pretty h1 h2 o.imm, Except.map]
    cases o; cases hf; rfl
  | auipc_ o =>
    simp only [WfInstr, Bool.and_eq_true, regOk, decide_eq_true_eq, beq_iff_eq] at h
    have h1 := h
    have hops := (List.forall_mem_cons.mpr ⟨opd_reg h1, (List.forall_mem_cons.mpr ⟨opd_imm o.imm, (fun _ h => absurd h List.not_mem_nil)⟩)⟩)
    refine ⟨?_, by rw [prettyInstr]; exact noNL_line (by decide) hops⟩
    rw [prettyInstr, classify_pretty (m := .Auipc) ⟨by decide, by decide, by rfl⟩ (by simp) hops]
    simp only [decodeOps, ri_pretty h1 o.imm, Except.map]
    all_goals (cases o; rfl)
  | beq_ o =>
    simp only [WfInstr, Bool.and_eq_true, regOk, decide_eq_true_eq, beq_iff_eq] at h
    obtain ⟨⟨⟨h1, h2⟩, h3⟩, hf⟩ := h
    have hops := (List.forall_mem_cons.mpr ⟨opd_reg h1, (List.forall_mem_cons.mpr ⟨opd_reg h2, (List.forall_mem_cons.mpr ⟨(labelOk_spec h3).2, (fun _ h => absurd h List.not_mem_nil)⟩)⟩)⟩)
    refine ⟨?_, by rw [prettyInstr]; exact noNL_line (by decide) hops⟩
    rw [prettyInstr, classify_pretty (m := .Beq) ⟨by decide, by decide, by rfl⟩ (by simp) hops]
    simp only [decodeOps, rrl_pretty h1 h2 (labelOk_spec h3).2, Except.map]
    rw [(labelOk_spec h3).1]
    cases o; cases hf; rfl
  | beqz_ o =>
    simp only [WfInstr, Bool.and_eq_true, regOk, decide_eq_true_eq, beq_iff_eq] at h
    obtain ⟨⟨h1, h2⟩, hf⟩ := h
    have hops := (List.forall_mem_cons.mpr ⟨opd_reg h1, (List.forall_mem_cons.mpr ⟨(labelOk_spec h2).2, (fun _ h => absurd h List.not_mem_nil)⟩)⟩)
    refine ⟨?_, by rw [prettyInstr]; exact noNL_line (by decide) hops⟩
    rw [prettyInstr, classify_pretty (m := .Beqz) ⟨by decide, by decide, by rfl⟩ (by simp) hops]
    simp only [decodeOps, rl_pretty h1 (labelOk_spec h2).2, Except.map]
    rw [(labelOk_spec h2).1]
    cases o; cases hf; rfl
  | bge_ o =>
    simp only [WfInstr, Bool.and_eq_true, regOk, decide_eq_true_eq, beq_iff_eq] at h
    obtain ⟨⟨⟨h1, h2⟩, h3⟩, hf⟩ := h
    have hops := (List.forall_mem_cons.mpr ⟨opd_reg h1, (List.forall_mem_cons.mpr ⟨opd_reg h2, (List.forall_mem_cons.mpr ⟨(labelOk_spec h3).2, (fun _ h => absurd h List.not_mem_nil)⟩)⟩)⟩)
    refine ⟨?_, by rw [prettyInstr]; exact noNL_line (by decide) hops⟩
    rw [prettyInstr, classify_pretty (m := .Bge) ⟨by decide, by decide, by rfl⟩ (by simp) hops]
    simp only [decodeOps, rrl_pretty h1 h2 (labelOk_spec h3).2, Except.map]
    rw [(labelOk_spec h3).1]
    cases o; cases hf; rfl
  | bgeu_ o =>
    simp only [WfInstr, Bool.and_eq_true, regOk, decide_eq_true_eq, beq_iff_eq] at h
    obtain ⟨⟨⟨h1, h2⟩, h3⟩, hf⟩ := h
    have hops := (List.forall_mem_cons.mpr ⟨opd_reg h1, (List.forall_mem_cons.mpr ⟨opd_reg h2, (List.forall_mem_cons.mpr ⟨(labelOk_spec h3).2, (fun _ h => absurd h List.not_mem_nil)⟩)⟩)⟩)
    refine ⟨?_, by rw [prettyInstr]; exact noNL_line (by decide) hops⟩
    rw [prettyInstr, classify_pretty (m := .Bgeu) ⟨by decide, by decide, by rfl⟩ (by simp) hops]
    simp only [decodeOps, rrl_pretty h1 h2 (labelOk_spec h3).2, Except.map]
    rw [(labelOk_spec h3).1]
    cases o; cases hf; rfl
  | ble_ o =>
    simp only [WfInstr, Bool.and_eq_true, regOk, decide_eq_true_eq, beq_iff_eq] at h
    obtain ⟨⟨⟨h1, h2⟩, h3⟩, hf⟩ := h
    have hops := (List.forall_mem_cons.mpr ⟨opd_reg h1, (List.forall_mem_cons.mpr ⟨opd_reg h2, (List.forall_mem_cons.mpr ⟨(labelOk_spec h3).2, (fun _ h => absurd h List.not_mem_nil)⟩)⟩)⟩)
    refine ⟨?_, by rw [prettyInstr]; exact noNL_line (by decide) hops⟩
    rw [prettyInstr, classify_pretty (m := .Ble) ⟨by decide, by decide, by rfl⟩ (by simp) hops]
    simp only [decodeOps, rrl_pretty h1 h2 (labelOk_spec h3).2, Except.map]
    rw [(labelOk_spec h3).1]
    cases o; cases hf; rfl
  | blt_ o =>
    simp only [WfInstr, Bool.and_eq_true, regOk, decide_eq_true_eq, beq_iff_eq] at h
    obtain ⟨⟨⟨h1, h2⟩, h3⟩, hf⟩ := h
    have hops := (List.forall_mem_cons.mpr ⟨opd_reg h1, (List.forall_mem_cons.mpr ⟨opd_reg h2, (List.forall_mem_cons.mpr ⟨(labelOk_spec h3).2, (fun _ h => absurd h List.not_mem_nil)⟩)⟩)⟩)
    refine ⟨?_, by rw [prettyInstr]; exact noNL_line (by decide) hops⟩
    rw [prettyInstr, classify_pretty (m := .Blt) ⟨by decide, by decide, by rfl⟩ (by simp) hops]
    simp only [decodeOps, rrl_pretty h1 h2 (labelOk_spec h3).2, Except.map]
    rw [(labelOk_spec h3).1]
    cases o; cases hf; rfl
  | bltu_ o =>
    simp only [WfInstr, Bool.and_eq_true, regOk, decide_eq_true_eq, beq_iff_eq] at h
    obtain ⟨⟨⟨h1, h2⟩, h3⟩, hf⟩ := h
    have hops := (List.forall_mem_cons.mpr ⟨opd_reg h1, (List.forall_mem_cons.mpr ⟨opd_reg h2, (List.forall_mem_cons.mpr ⟨(labelOk_spec h3).2, (fun _ h => absurd h List.not_mem_nil)⟩)⟩)⟩)
    refine ⟨?_, by rw [prettyInstr]; exact noNL_line (by decide) hops⟩
    rw [prettyInstr, classify_pretty (m := .Bltu) ⟨by decide, by decide, by rfl⟩ (by simp) hops]
    simp only [decodeOps, rrl_pretty h1 h2 (labelOk_spec h3).2, Except.map]
    rw [(labelOk_spec h3).1]
    cases o; cases hf; rfl
  | bne_ o =>
    simp only [WfInstr, Bool.and_eq_true, regOk, decide_eq_true_eq, beq_iff_eq] at h
    obtain ⟨⟨⟨h1, h2⟩, h3⟩, hf⟩ := h
    have hops := (List.forall_mem_cons.mpr ⟨opd_reg h1, (List.forall_mem_cons.mpr ⟨opd_reg h2, (List.forall_mem_cons.mpr ⟨(labelOk_spec h3).2, (fun _ h => absurd h List.not_mem_nil)⟩)⟩)⟩)
    refine ⟨?_, by rw [prettyInstr]; exact noNL_line (by decide) hops⟩
    rw [prettyInstr, classify_pretty (m := .Bne) ⟨by decide, by decide, by rfl⟩ (by simp) hops]
    simp only [decodeOps, rrl_pretty h1 h2 (labelOk_spec h3).2, Except.map]
    rw [(labelOk_spec h3).1]
    cases o; cases hf; rfl
  | bnez_ o =>
    simp only [WfInstr, Bool.and_eq_true, regOk, decide_eq_true_eq, beq_iff_eq] at h
    obtain ⟨⟨h1, h2⟩, hf⟩ := h
    have hops := (List.forall_mem_cons.mpr ⟨opd_reg h1, (List.forall_mem_cons.mpr ⟨(labelOk_spec h2).2, (fun _ h => absurd h List.not_mem_nil)⟩)⟩)
    refine ⟨?_, by rw [prettyInstr]; exact noNL_line (by decide) hops⟩
    rw [prettyInstr, classify_pretty (m := .Bnez) ⟨by decide, by decide, by rfl⟩ (by simp) hops]
    simp only [decodeOps, rl_pretty h1 (labelOk_spec h2).2, Except.map]
    rw [(labelOk_spec h2).1]
    cases o; cases hf; rfl
  | div_ o =>
    simp only [WfInstr, Bool.and_eq_true, regOk, decide_eq_true_eq, beq_iff_eq] at h
    obtain ⟨⟨⟨h1, h2⟩, h3⟩, hf⟩ := h
    have hops := (List.forall_mem_cons.mpr ⟨opd_reg h1, (List.forall_mem_cons.mpr ⟨opd_reg h2, (List.forall_mem_cons.mpr ⟨opd_reg h3, (fun _ h => absurd h List.not_mem_nil)⟩)⟩)⟩)
    refine ⟨?_, by rw [prettyInstr]; exact noNL_line (by decide) hops⟩
    rw [prettyInstr, classify_pretty (m := .Div) ⟨by decide, by decide, by rfl⟩ (by simp) hops]
    simp only [decodeOps, rrr_pretty h1 h2 h3, Except.map]
    cases o; cases hf; rfl
  | j_ o =>
    simp only [WfInstr, Bool.and_eq_true, regOk, decide_eq_true_eq, beq_iff_eq] at h
    have h1 := h
    have hops := (List.forall_mem_cons.mpr ⟨(labelOk_spec h1).2, (fun _ h => absurd h List.not_mem_nil)⟩)
    refine ⟨?_, by rw [prettyInstr]; exact noNL_line (by decide) hops⟩
    rw [prettyInstr, classify_pretty (m := .J) ⟨by decide, by decide, by rfl⟩ (by simp) hops]
    simp only [decodeOps, l1_pretty  (labelOk_spec h1).2, Except.map]
    rw [(labelOk_spec h1).1]
    all_goals (cases o; rfl)
  | jal_ o =>
    simp only [WfInstr, Bool.and_eq_true, regOk, decide_eq_true_eq, beq_iff_eq] at h
    obtain ⟨⟨h1, h2⟩, hf⟩ := h
    have hops := (List.forall_mem_cons.mpr ⟨opd_reg h1, (List.forall_mem_cons.mpr ⟨(labelOk_spec h2).2, (fun _ h => absurd h List.not_mem_nil)⟩)⟩)
    refine ⟨?_, by rw [prettyInstr]; exact noNL_line (by decide) hops⟩
    rw [prettyInstr, classify_pretty (m := .Jal) ⟨by decide, by decide, by rfl⟩ (by simp) hops]
    simp only [decodeOps, rl_pretty h1 (labelOk_spec h2).2, Except.map]
    rw [(labelOk_spec h2).1]
    cases o; cases hf; rfl
  | jalr_ o =>
    simp only [WfInstr, Bool.and_eq_true, regOk, decide_eq_true_eq, beq_iff_eq] at h
    obtain ⟨⟨h1, h2⟩, hf⟩ := h
    have hops := (List.forall_mem_cons.mpr ⟨opd_reg h1, (List.forall_mem_cons.mpr ⟨opd_reg h2, (List.forall_mem_cons.mpr ⟨opd_imm o.imm, (fun _ h => absurd h List.not_mem_nil)⟩)⟩)⟩)
    refine ⟨?_, by rw [prettyInstr]; exact noNL_line (by decide) hops⟩
    rw [prettyInstr, classify_pretty (m := .Jalr) ⟨by decide, by decide, by rfl⟩ (by simp) hops]
    simp only [decodeOps, rri_pretty h1 h2 o.imm, Except.map]
    cases o; cases hf; rfl
  | lui_ o =>
    simp only [WfInstr, Bool.and_eq_true, regOk, decide_eq_true_eq, beq_iff_eq] at h
    have h1 := h
    have hops := (List.forall_mem_cons.mpr ⟨opd_reg h1, (List.forall_mem_cons.mpr ⟨opd_imm o.imm, (fun _ h => absurd h List.not_mem_nil)⟩)⟩)
    refine ⟨?_, by rw [prettyInstr]; exact noNL_line (by decide) hops⟩
    rw [prettyInstr, classify_pretty (m := .Lui) ⟨by decide, by decide, by rfl⟩ (by simp) hops]
    simp only [decodeOps, ri_pretty h1 o.imm, Except.map]
    all_goals (cases o; rfl)
  | lb_ o =>
    simp only [WfInstr, Bool.and_eq_true, regOk, decide_eq_true_eq, beq_iff_eq] at h
    obtain ⟨⟨h1, h2⟩, hf⟩ := h
    have hops := (List.forall_mem_cons.mpr ⟨opd_reg h1, (List.forall_mem_cons.mpr ⟨opd_mem o.offset h2, (fun _ h => absurd h List.not_mem_nil)⟩)⟩)
    refine ⟨?_, by rw [prettyInstr]; exact noNL_line (by decide) hops⟩
    rw [prettyInstr, classify_pretty (m := .Lb) ⟨by decide, by decide, by rfl⟩ (by simp) hops]
    simp only [decodeOps, rm_pretty h1 h2 o.offset, Except.map]
    cases o; cases hf; rfl
  | lh_ o =>
    simp only [WfInstr, Bool.and_eq_true, regOk, decide_eq_true_eq, beq_iff_eq] at h
    obtain ⟨⟨h1, h2⟩, hf⟩ := h
    have hops := (List.forall_mem_cons.mpr ⟨opd_reg h1, (List.forall_mem_cons.mpr ⟨opd_mem o.offset h2, (fun _ h => absurd h List.not_mem_nil)⟩)⟩)
    refine ⟨?_, by rw [prettyInstr]; exact noNL_line (by decide) hops⟩
    rw [prettyInstr, classify_pretty (m := .Lh) ⟨by decide, by decide, by rfl⟩ (by simp) hops]
    simp only [decodeOps, rm_pretty h1 h2 o.offset, Except.map]
    cases o; cases hf; rfl
  | li_ o =>
    simp only [WfInstr, Bool.and_eq_true, regOk, decide_eq_true_eq, beq_iff_eq] at h
    have h1 := h
    have hops := (List.forall_mem_cons.mpr ⟨opd_reg h1, (List.forall_mem_cons.mpr ⟨opd_imm o.imm, (fun _ h => absurd h List.not_mem_nil)⟩)⟩)
    refine ⟨?_, by rw [prettyInstr]; exact noNL_line (by decide) hops⟩
    rw [prettyInstr, classify_pretty (m := .Li) ⟨by decide, by decide, by rfl⟩ (by simp) hops]
    simp only [decodeOps, ri_pretty h1 o.imm, Except.map]
    all_goals (cases o; rfl)
  | lw_ o =>
    simp only [WfInstr, Bool.and_eq_true, regOk, decide_eq_true_eq, beq_iff_eq] at h
    obtain ⟨⟨h1, h2⟩, hf⟩ := h
    have hops := (List.forall_mem_cons.mpr ⟨opd_reg h1, (List.forall_mem_cons.mpr ⟨opd_mem o.offset h2, (fun _ h => absurd h List.not_mem_nil)⟩)⟩)
    refine ⟨?_, by rw [prettyInstr]; exact noNL_line (by decide) hops⟩
    rw [prettyInstr, classify_pretty (m := .Lw) ⟨by decide, by decide, by rfl⟩ (by simp) hops]
    simp only [decodeOps, rm_pretty h1 h2 o.offset, Except.map]
    cases o; cases hf; rfl
  | nop_ o => exact ⟨by cases o; rfl, by rw [prettyInstr]; decide⟩
  | mul_ o =>
    simp only [WfInstr, Bool.and_eq_true, regOk, decide_eq_true_eq, beq_iff_eq] at h
    obtain ⟨⟨⟨h1, h2⟩, h3⟩, hf⟩ := h
    have hops := (List.forall_mem_cons.mpr ⟨opd_reg h1, (List.forall_mem_cons.mpr ⟨opd_reg h2, (List.forall_mem_cons.mpr ⟨opd_reg h3, (fun _ h => absurd h List.not_mem_nil)⟩)⟩)⟩)
    refine ⟨?_, by rw [prettyInstr]; exact noNL_line (by decide) hops⟩
    rw [prettyInstr, classify_pretty (m := .Mul) ⟨by decide, by decide, by rfl⟩ (by simp) hops]
    simp only [decodeOps, rrr_pretty h1 h2 h3, Except.map]
    cases o; cases hf; rfl
  | mv_ o =>
    simp only [WfInstr, Bool.and_eq_true, regOk, decide_eq_true_eq, beq_iff_eq] at h
    obtain ⟨⟨h1, h2⟩, hf⟩ := h
    have hops := (List.forall_mem_cons.mpr ⟨opd_reg h1, (List.forall_mem_cons.mpr ⟨opd_reg h2, (fun _ h => absurd h List.not_mem_nil)⟩)⟩)
    refine ⟨?_, by rw [prettyInstr]; exact noNL_line (by decide) hops⟩
    rw [prettyInstr, classify_pretty (m := .Mv) ⟨by decide, by decide, by rfl⟩ (by simp) hops]
    simp only [decodeOps, rr_pretty h1 h2, Except.map]
    cases o; cases hf; rfl
  | or_ o =>
    simp only [WfInstr, Bool.and_eq_true, regOk, decide_eq_true_eq, beq_iff_eq] at h
    obtain ⟨⟨⟨h1, h2⟩, h3⟩, hf⟩ := h
    have hops := (List.forall_mem_cons.mpr ⟨opd_reg h1, (List.forall_mem_cons.mpr ⟨opd_reg h2, (List.forall_mem_cons.mpr ⟨opd_reg h3, (fun _ h => absurd h List.not_mem_nil)⟩)⟩)⟩)
    refine ⟨?_, by rw [prettyInstr]; exact noNL_line (by decide) hops⟩
    rw [prettyInstr, classify_pretty (m := .Or) ⟨by decide, by decide, by rfl⟩ (by simp) hops]
    simp only [decodeOps, rrr_pretty h1 h2 h3, Except.map]
    cases o; cases hf; rfl
  | ori_ o =>
    simp only [WfInstr, Bool.and_eq_true, regOk, decide_eq_true_eq, beq_iff_eq] at h
    obtain ⟨⟨h1, h2⟩, hf⟩ := h
    have hops := (List.forall_mem_cons.mpr ⟨opd_reg h1, (List.forall_mem_cons.mpr ⟨opd_reg h2, (List.forall_mem_cons.mpr ⟨opd_imm o.imm, (fun _ h => absurd h List.not_mem_nil)⟩)⟩)⟩)
    refine ⟨?_, by rw [prettyInstr]; exact noNL_line (by decide) hops⟩
    rw [prettyInstr, classify_pretty (m := .Ori) ⟨by decide, by decide, by rfl⟩ (by simp) hops]
    simp only [decodeOps, rri_pretty h1 h2 o.imm, Except.map]
    cases o; cases hf; rfl
  | rem_ o =>
    simp only [WfInstr, Bool.and_eq_true, regOk, decide_eq_true_eq, beq_iff_eq] at h
    obtain ⟨⟨⟨h1, h2⟩, h3⟩, hf⟩ := h
    have hops := (List.forall_mem_cons.mpr ⟨opd_reg h1, (List.forall_mem_cons.mpr ⟨opd_reg h2, (List.forall_mem_cons.mpr ⟨opd_reg h3, (fun _ h => absurd h List.not_mem_nil)⟩)⟩)⟩)
    refine ⟨?_, by rw [prettyInstr]; exact noNL_line (by decide) hops⟩
    rw [prettyInstr, classify_pretty (m := .Rem) ⟨by decide, by decide, by rfl⟩ (by simp) hops]
    simp only [decodeOps, rrr_pretty h1 h2 h3, Except.map]
    cases o; cases hf; rfl
  | ret_ o => exact ⟨by cases o; rfl, by rw [prettyInstr]; decide⟩
  | sb_ o =>
    simp only [WfInstr, Bool.and_eq_true, regOk, decide_eq_true_eq, beq_iff_eq] at h
    obtain ⟨⟨h1, h2⟩, hf⟩ := h
    have hops := (List.forall_mem_cons.mpr ⟨opd_reg h1, (List.forall_mem_cons.mpr ⟨opd_mem o.offset h2, (fun _ h => absurd h List.not_mem_nil)⟩)⟩)
    refine ⟨?_, by rw [prettyInstr]; exact noNL_line (by decide) hops⟩
    rw [prettyInstr, classify_pretty (m := .Sb) ⟨by decide, by decide, by rfl⟩ (by simp) hops]
    simp only [decodeOps, rm_pretty h1 h2 o.offset, Except.map]
    cases o; cases hf; rfl
  | sh_ o =>
    simp only [WfInstr, Bool.and_eq_true, regOk, decide_eq_true_eq, beq_iff_eq] at h
    obtain ⟨⟨h1, h2⟩, hf⟩ := h
    have hops := (List.forall_mem_cons.mpr ⟨opd_reg h1, (List.forall_mem_cons.mpr ⟨opd_imm o.offset, (List.forall_mem_cons.mpr ⟨opd_reg h2, (fun _ h => absurd h List.not_mem_nil)⟩)⟩)⟩)
    refine ⟨?_, by rw [prettyInstr]; exact noNL_line (by decide) hops⟩
    rw [prettyInstr, classify_pretty (m := .Sh) ⟨by decide, by decide, by rfl⟩ (by simp) hops]
    simp only [decodeOps, rir_pretty h1 h2 o.offset, Except.map]
    cases o; cases hf; rfl
  | sll_ o =>
    simp only [WfInstr, Bool.and_eq_true, regOk, decide_eq_true_eq, beq_iff_eq] at h
    obtain ⟨⟨⟨h1, h2⟩, h3⟩, hf⟩ := h
    have hops := (List.forall_mem_cons.mpr ⟨opd_reg h1, (List.forall_mem_cons.mpr ⟨opd_reg h2, (List.forall_mem_cons.mpr ⟨opd_reg h3, (fun _ h => absurd h List.not_mem_nil)⟩)⟩)⟩)
    refine ⟨?_, by rw [prettyInstr]; exact noNL_line (by decide) hops⟩
    rw [prettyInstr, classify_pretty (m := .Sll) ⟨by decide, by decide, by rfl⟩ (by simp) hops]
    simp only [decodeOps, rrr_pretty h1 h2 h3, Except.map]
    cases o; cases hf; rfl
  | slli_ o =>
    simp only [WfInstr, Bool.and_eq_true, regOk, decide_eq_true_eq, beq_iff_eq] at h
    obtain ⟨⟨h1, h2⟩, hf⟩ := h
    have hops := (List.forall_mem_cons.mpr ⟨opd_reg h1, (List.forall_mem_cons.mpr ⟨opd_reg h2, (List.forall_mem_cons.mpr ⟨opd_imm o.imm, (fun _ h => absurd h List.not_mem_nil)⟩)⟩)⟩)
    refine ⟨?_, by rw [prettyInstr]; exact noNL_line (by decide) hops⟩
    rw [prettyInstr, classify_pretty (m := .Slli) ⟨by decide, by decide, by rfl⟩ (by simp) hops]
    simp only [decodeOps, rri_pretty h1 h2 o.imm, Except.map]
    cases o; cases hf; rfl
  | slt_ o =>
    simp only [WfInstr, Bool.and_eq_true, regOk, decide_eq_true_eq, beq_iff_eq] at h
    obtain ⟨⟨⟨h1, h2⟩, h3⟩, hf⟩ := h
    have hops := (List.forall_mem_cons.mpr ⟨opd_reg h1, (List.forall_mem_cons.mpr ⟨opd_reg h2, (List.forall_mem_cons.mpr ⟨opd_reg h3, (fun _ h => absurd h List.not_mem_nil)⟩)⟩)⟩)
    refine ⟨?_, by rw [prettyInstr]; exact noNL_line (by decide) hops⟩
    rw [prettyInstr, classify_pretty (m := .Slt) ⟨by decide, by decide, by rfl⟩ (by simp) hops]
    simp only [decodeOps, rrr_pretty h1 h2 h3, Except.map]
    cases o; cases hf; rfl
  | sltu_ o =>
    simp only [WfInstr, Bool.and_eq_true, regOk, decide_eq_true_eq, beq_iff_eq] at h
    obtain ⟨⟨⟨h1, h2⟩, h3⟩, hf⟩ := h
    have hops := (List.forall_mem_cons.mpr ⟨opd_reg h1, (List.forall_mem_cons.mpr ⟨opd_reg h2, (List.forall_mem_cons.mpr ⟨opd_reg h3, (fun _ h => absurd h List.not_mem_nil)⟩)⟩)⟩)
    refine ⟨?_, by rw [prettyInstr]; exact noNL_line (by decide) hops⟩
    rw [prettyInstr, classify_pretty (m := .Sltu) ⟨by decide, by decide, by rfl⟩ (by simp) hops]
    simp only [decodeOps, rrr_pretty h1 h2 h3, Except.map]
    cases o; cases hf; rfl
  | slti_ o =>
    simp only [WfInstr, Bool.and_eq_true, regOk, decide_eq_true_eq, beq_iff_eq] at h
    obtain ⟨⟨h1, h2⟩, hf⟩ := h
    have hops := (List.forall_mem_cons.mpr ⟨opd_reg h1, (List.forall_mem_cons.mpr ⟨opd_reg h2, (List.forall_mem_cons.mpr ⟨opd_imm o.imm, (fun _ h => absurd h List.not_mem_nil)⟩)⟩)⟩)
    refine ⟨?_, by rw [prettyInstr]; exact noNL_line (by decide) hops⟩
    rw [prettyInstr, classify_pretty (m := .Slti) ⟨by decide, by decide, by rfl⟩ (by simp) hops]
    simp only [decodeOps, rri_pretty h1 h2 o.imm, Except.map]
    cases o; cases hf; rfl
  | sra_ o =>
    simp only [WfInstr, Bool.and_eq_true, regOk, decide_eq_true_eq, beq_iff_eq] at h
    obtain ⟨⟨⟨h1, h2⟩, h3⟩, hf⟩ := h
    have hops := (List.forall_mem_cons.mpr ⟨opd_reg h1, (List.forall_mem_cons.mpr ⟨opd_reg h2, (List.forall_mem_cons.mpr ⟨opd_reg h3, (fun _ h => absurd h List.not_mem_nil)⟩)⟩)⟩)
    refine ⟨?_, by rw [prettyInstr]; exact noNL_line (by decide) hops⟩
    rw [prettyInstr, classify_pretty (m := .Sra) ⟨by decide, by decide, by rfl⟩ (by simp) hops]
    simp only [decodeOps, rrr_pretty h1 h2 h3, Except.map]
    cases o; cases hf; rfl
  | srai_ o =>
    simp only [WfInstr, Bool.and_eq_true, regOk, decide_eq_true_eq, beq_iff_eq] at h
    obtain ⟨⟨h1, h2⟩, hf⟩ := h
    have hops := (List.forall_mem_cons.mpr ⟨opd_reg h1, (List.forall_mem_cons.mpr ⟨opd_reg h2, (List.forall_mem_cons.mpr ⟨opd_imm o.imm, (fun _ h => absurd h List.not_mem_nil)⟩)⟩)⟩)
    refine ⟨?_, by rw [prettyInstr]; exact noNL_line (by decide) hops⟩
    rw [prettyInstr, classify_pretty (m := .Srai) ⟨by decide, by decide, by rfl⟩ (by simp) hops]
    simp only [decodeOps, rri_pretty h1 h2 o.imm, Except.map]
    cases o; cases hf; rfl
  | srl_ o =>
    simp only [WfInstr, Bool.and_eq_true, regOk, decide_eq_true_eq, beq_iff_eq] at h
    obtain ⟨⟨⟨h1, h2⟩, h3⟩, hf⟩ := h
    have hops := (List.forall_mem_cons.mpr ⟨opd_reg h1, (List.forall_mem_cons.mpr ⟨opd_reg h2, (List.forall_mem_cons.mpr ⟨opd_reg h3, (fun _ h => absurd h List.not_mem_nil)⟩)⟩)⟩)
    refine ⟨?_, by rw [prettyInstr]; exact noNL_line (by decide) hops⟩
    rw [prettyInstr, classify_pretty (m := .Srl) ⟨by decide, by decide, by rfl⟩ (by simp) hops]
    simp only [decodeOps, rrr_pretty h1 h2 h3, Except.map]
    cases o; cases hf; rfl
  | srli_ o =>
    simp only [WfInstr, Bool.and_eq_true, regOk, decide_eq_true_eq, beq_iff_eq] at h
    obtain ⟨⟨h1, h2⟩, hf⟩ := h
    have hops := (List.forall_mem_cons.mpr ⟨opd_reg h1, (List.forall_mem_cons.mpr ⟨opd_reg h2, (List.forall_mem_cons.mpr ⟨opd_imm o.imm, (fun _ h => absurd h List.not_mem_nil)⟩)⟩)⟩)
    refine ⟨?_, by rw [prettyInstr]; exact noNL_line (by decide) hops⟩
    rw [prettyInstr, classify_pretty (m := .Srli) ⟨by decide, by decide, by rfl⟩ (by simp) hops]
    simp only [decodeOps, rri_pretty h1 h2 o.imm, Except.map]
    cases o; cases hf; rfl
  | sub_ o =>
    simp only [WfInstr, Bool.and_eq_true, regOk, decide_eq_true_eq, beq_iff_eq] at h
    obtain ⟨⟨⟨h1, h2⟩, h3⟩, hf⟩ := h
    have hops := (List.forall_mem_cons.mpr ⟨opd_reg h1, (List.forall_mem_cons.mpr ⟨opd_reg h2, (List.forall_mem_cons.mpr ⟨opd_reg h3, (fun _ h => absurd h List.not_mem_nil)⟩)⟩)⟩)
    refine ⟨?_, by rw [prettyInstr]; exact noNL_line (by decide) hops⟩
    rw [prettyInstr, classify_pretty (m := .Sub) ⟨by decide, by decide, by rfl⟩ (by simp) hops]
    simp only [decodeOps, rrr_pretty h1 h2 h3, Except.map]
    cases o; cases hf; rfl
  | sw_ o =>
    simp only [WfInstr, Bool.and_eq_true, regOk, decide_eq_true_eq, beq_iff_eq] at h
    obtain ⟨⟨h1, h2⟩, hf⟩ := h
    have hops := (List.forall_mem_cons.mpr ⟨opd_reg h1, (List.forall_mem_cons.mpr ⟨opd_mem o.offset h2, (fun _ h => absurd h List.not_mem_nil)⟩)⟩)
    refine ⟨?_, by rw [prettyInstr]; exact noNL_line (by decide) hops⟩
    rw [prettyInstr, classify_pretty (m := .Sw) ⟨by decide, by decide, by rfl⟩ (by simp) hops]
    simp only [decodeOps, rm_pretty h1 h2 o.offset, Except.map]
    cases o; cases hf; rfl
  | xor_ o =>
    simp only [WfInstr, Bool.and_eq_true, regOk, decide_eq_true_eq, beq_iff_eq] at h
    obtain ⟨⟨⟨h1, h2⟩, h3⟩, hf⟩ := h
    have hops := (List.forall_mem_cons.mpr ⟨opd_reg h1, (List.forall_mem_cons.mpr ⟨opd_reg h2, (List.forall_mem_cons.mpr ⟨opd_reg h3, (fun _ h => absurd h List.not_mem_nil)⟩)⟩)⟩)
    refine ⟨?_, by rw [prettyInstr]; exact noNL_line (by decide) hops⟩
    rw [prettyInstr, classify_pretty (m := .Xor) ⟨by decide, by decide, by rfl⟩ (by simp) hops]
    simp only [decodeOps, rrr_pretty h1 h2 h3, Except.map]
    cases o; cases hf; rfl
  | xori_ o =>
    simp only [WfInstr, Bool.and_eq_true, regOk, decide_eq_true_eq, beq_iff_eq] at h
    obtain ⟨⟨h1, h2⟩, hf⟩ := h
    have hops := (List.forall_mem_cons.mpr ⟨opd_reg h1, (List.forall_mem_cons.mpr ⟨opd_reg h2, (List.forall_mem_cons.mpr ⟨opd_imm o.imm, (fun _ h => absurd h List.not_mem_nil)⟩)⟩)⟩)
    refine ⟨?_, by rw [prettyInstr]; exact noNL_line (by decide) hops⟩
    rw [prettyInstr, classify_pretty (m := .Xori) ⟨by decide, by decide, by rfl⟩ (by simp) hops]
    simp only [decodeOps, rri_pretty h1 h2 o.imm, Except.map]
    cases o; cases hf; rfl

/-! ### the round trip, whole program -/

theorem classify_of_labelName {raw n : Bytes} (h : labelName raw = some n) : classify raw = .ok (.label n) := by
  unfold labelName at h
  split at h
  · next hl =>
    cases h
    simp only [isLabelLine, isBlankOrComment, Bool.and_eq_true, Bool.not_eq_true', Bool.or_eq_false_iff,
      List.isEmpty_eq_false_iff, beq_eq_false_iff_ne, ne_eq, List.contains_eq_mem, decide_eq_false_iff_not,
      beq_iff_eq] at hl
    obtain ⟨⟨⟨h0, h1⟩, h2⟩, h3⟩ := hl
    rw [classify_eq, if_neg h0, if_neg h1, if_pos ⟨by simp [indexOf_eq_none_iff.mpr h2], h3⟩]
  · cases h

def labelItemsOf (F : List (String × Word)) : List Item := F.map fun e => .label (unlatin1 e.1)

def itemsFrom (E : List (String × Word)) : Nat → List Gen.Instr → List Item
  | k, [] => labelItemsOf (E.filter fun e => e.2.toNat == 4 * k)
  | k, i :: r => labelItemsOf (E.filter fun e => e.2.toNat == 4 * k) ++ .instr i :: itemsFrom E (k + 1) r

theorem labelKeyOk_spec {s : String} (h : labelKeyOk s = true) :
    latin1 (unlatin1 s) = s ∧ labelName (unlatin1 s ++ [0x3A]) = some (unlatin1 s) ∧ (0x0A : UInt8) ∉ unlatin1 s := by
  simp only [labelKeyOk, Bool.and_eq_true, beq_iff_eq, Bool.not_eq_true', List.contains_eq_mem,
    decide_eq_false_iff_not] at h
  exact ⟨h.1.1, h.1.2, h.2⟩

theorem AllOk.append {a b : List Bytes} {ia ib : List Item} (ha : AllOk a ia) (hb : AllOk b ib) :
    AllOk (a ++ b) (ia ++ ib) := by
  induction ha with
  | nil => exact hb
  | cons hc _ ih => exact .cons hc ih

theorem allOk_labels {F : List (String × Word)} (h : ∀ e ∈ F, labelKeyOk e.1 = true) :
    AllOk (F.map fun e => unlatin1 e.1 ++ [0x3A]) (labelItemsOf F) := by
  induction F with
  | nil => exact .nil
  | cons e r ih =>
    exact .cons (classify_of_labelName (labelKeyOk_spec (h e (by simp))).2.1) (ih fun x hx => h x (by simp [hx]))

theorem allOk_prettyFrom {E : List (String × Word)} (hE : ∀ e ∈ E, labelKeyOk e.1 = true) :
    ∀ (k : Nat) (is : List Gen.Instr), (∀ i ∈ is, WfInstr i = true) → AllOk (prettyFrom E k is) (itemsFrom E k is)
  | k, [], _ => allOk_labels fun e he => hE e (List.mem_filter.mp he).1
  | k, i :: r, h => by
    rw [prettyFrom, itemsFrom]
    exact (allOk_labels fun e he => hE e (List.mem_filter.mp he).1).append
      (.cons (prettyInstr_spec i (h i (by simp))).1 (allOk_prettyFrom hE (k + 1) r fun j hj => h j (by simp [hj])))

theorem noNL_prettyFrom {E : List (String × Word)} (hE : ∀ e ∈ E, labelKeyOk e.1 = true) :
    ∀ (k : Nat) (is : List Gen.Instr), (∀ i ∈ is, WfInstr i = true) → ∀ l ∈ prettyFrom E k is, (0x0A : UInt8) ∉ l := by
  have hlab : ∀ k, ∀ l ∈ labelLinesAt E k, (0x0A : UInt8) ∉ l := by
    intro k l hl
    simp only [labelLinesAt, List.mem_map, List.mem_filter] at hl
    obtain ⟨e, ⟨he, _⟩, rfl⟩ := hl
    simp only [List.mem_append, List.mem_singleton, not_or]
    exact ⟨(labelKeyOk_spec (hE e he)).2.2, by decide⟩
  intro k is
  induction is generalizing k with
  | nil => intro _ l hl; exact hlab k l hl
  | cons i r ih =>
    intro h l hl
    rw [prettyFrom] at hl
    rcases List.mem_append.mp hl with hl | hl
    · exact hlab k l hl
    · rcases List.mem_cons.mp hl with rfl | hl
      · exact (prettyInstr_spec i (h i (by simp))).2
      · exact ih (k + 1) (fun j hj => h j (by simp [hj])) l hl

theorem filterMap_itemsFrom (E : List (String × Word)) : ∀ (k : Nat) (is : List Gen.Instr),
    (itemsFrom E k is).filterMap instrOf = is := by
  have hl : ∀ F : List (String × Word), (labelItemsOf F).filterMap instrOf = [] := by
    intro F; induction F with
    | nil => rfl
    | cons e r ih => simp [labelItemsOf, List.filterMap_cons, instrOf] at ih ⊢
  intro k is
  induction is generalizing k with
  | nil => exact hl _
  | cons i r ih => rw [itemsFrom, List.filterMap_append, hl, List.filterMap_cons]; simp [instrOf, ih]

/-- label items only touch the label map: each listed key is set to the current pc -/
theorem assemble_labelItems {F : List (String × Word)} (hF : ∀ e ∈ F, labelKeyOk e.1 = true) (st : St) (key : String) :
    (assemble (labelItemsOf F) st).pc = st.pc ∧
    (assemble (labelItemsOf F) st).labels.find? key =
      if key ∈ F.map (·.1) then some st.pc else st.labels.find? key := by
  induction F generalizing st with
  | nil => simp [labelItemsOf, assemble]
  | cons e r ih =>
    have he := (labelKeyOk_spec (hF e (by simp))).1
    obtain ⟨i1, i2⟩ := ih (fun x hx => hF x (by simp [hx])) (st.apply (.label (unlatin1 e.1)))
    simp only [labelItemsOf, List.map_cons] at i1 i2 ⊢
    rw [assemble_cons]
    refine ⟨by rw [i1]; rfl, ?_⟩
    rw [i2]
    simp only [St.apply, find?_set, he, List.mem_cons]
    by_cases hk : key = e.1
    · simp [hk]
    · simp [hk]

theorem lookup_of_mem {E : List (String × Word)} (hd : distinctKeys E = true) {k : String} {a : Word}
    (h : (k, a) ∈ E) : E.lookup k = some a := by
  induction E with
  | nil => cases h
  | cons e r ih =>
    obtain ⟨k', a'⟩ := e
    simp only [distinctKeys, Bool.and_eq_true, Bool.not_eq_true', List.contains_eq_mem, decide_eq_false_iff_not] at hd
    rcases List.mem_cons.mp h with h | h
    · cases h; simp
    · have : k ≠ k' := fun e => hd.1 (by rw [← e]; exact List.mem_map_of_mem (f := (·.1)) h)
      have hb : (k == k') = false := by simpa using this
      rw [List.lookup_cons, hb]
      exact ih hd.2 h

theorem mem_of_lookup {E : List (String × Word)} {k : String} {a : Word} (h : E.lookup k = some a) : (k, a) ∈ E := by
  induction E with
  | nil => cases h
  | cons e r ih =>
    obtain ⟨k', a'⟩ := e
    rw [List.lookup_cons] at h
    by_cases hk : k = k'
    · subst hk; simp at h; subst h; simp
    · have hb : (k == k') = false := by simpa using hk
      rw [hb] at h
      exact List.mem_cons_of_mem _ (ih h)

/-- the label map after assembling the items of a printed program -/
theorem assemble_itemsFrom {E : List (String × Word)} (hE : ∀ e ∈ E, labelKeyOk e.1 = true)
    (hd : distinctKeys E = true) (h4 : ∀ e ∈ E, e.2.toNat % 4 = 0) (key : String) :
    ∀ (is : List Gen.Instr) (k : Nat) (st : St), st.pc = BitVec.ofNat 32 (4 * k) →
      (assemble (itemsFrom E k is) st).labels.find? key =
        match E.lookup key with
        | some a => if k ≤ a.toNat / 4 ∧ a.toNat / 4 ≤ k + is.length then some a else st.labels.find? key
        | none => st.labels.find? key := by
  -- membership in the label group of position k, in terms of `lookup`
  have hgrp : ∀ k, key ∈ (E.filter fun e => e.2.toNat == 4 * k).map (·.1) ↔ ∃ a, E.lookup key = some a ∧ a.toNat / 4 = k := by
    intro k
    constructor
    · intro hm
      obtain ⟨e, he, rfl⟩ := List.mem_map.mp hm
      obtain ⟨he1, he2⟩ := List.mem_filter.mp he
      have := h4 e he1
      simp only [beq_iff_eq] at he2
      exact ⟨e.2, lookup_of_mem hd he1, by omega⟩
    · rintro ⟨a, ha, hk⟩
      have hm := mem_of_lookup ha
      have : a.toNat % 4 = 0 := h4 (key, a) hm
      exact List.mem_map.mpr ⟨(key, a), List.mem_filter.mpr ⟨hm, by simp; omega⟩, rfl⟩
  have hF : ∀ k, ∀ e ∈ (E.filter fun e => e.2.toNat == 4 * k), labelKeyOk e.1 = true :=
    fun k e he => hE e (List.mem_filter.mp he).1
  intro is
  induction is with
  | nil =>
    intro k st hpc
    rw [itemsFrom, (assemble_labelItems (hF k) st key).2]
    cases hl : E.lookup key with
    | none =>
      have : ¬ key ∈ (E.filter fun e => e.2.toNat == 4 * k).map (·.1) := fun hm => by
        obtain ⟨a, ha, _⟩ := (hgrp k).mp hm; rw [hl] at ha; cases ha
      simp [this]
    | some a =>
      simp only [List.length_nil, Nat.add_zero]
      by_cases hk : a.toNat / 4 = k
      · have hm := (hgrp k).mpr ⟨a, hl, hk⟩
        have h4a : a.toNat % 4 = 0 := h4 (key, a) (mem_of_lookup hl)
        have : st.pc = a := by
          rw [hpc]; apply BitVec.eq_of_toNat_eq; simp only [BitVec.toNat_ofNat]
          have := a.isLt; omega
        simp [hm, this, hk]
      · have : ¬ key ∈ (E.filter fun e => e.2.toNat == 4 * k).map (·.1) := fun hm => by
          obtain ⟨a', ha', hk'⟩ := (hgrp k).mp hm; rw [hl] at ha'; cases ha'; exact hk hk'
        have hr : ¬ (k ≤ a.toNat / 4 ∧ a.toNat / 4 ≤ k) := by omega
        simp [this, hr]
  | cons i r ih =>
    intro k st hpc
    rw [itemsFrom, assemble_append, assemble_cons]
    obtain ⟨p1, p2⟩ := assemble_labelItems (hF k) st key
    generalize hst1 : assemble (labelItemsOf (E.filter fun e => e.2.toNat == 4 * k)) st = st1 at p1 p2
    have hpc2 : (st1.apply (.instr i)).pc = BitVec.ofNat 32 (4 * (k + 1)) := by
      simp only [St.apply, p1, hpc]
      apply BitVec.eq_of_toNat_eq
      have h4' : (4 : BitVec 32).toNat = 4 := rfl
      simp only [BitVec.toNat_add, BitVec.toNat_ofNat, h4']
      omega
    rw [ih (k + 1) _ hpc2]
    have hlab : (st1.apply (.instr i)).labels = st1.labels := rfl
    rw [hlab, p2]
    cases hl : E.lookup key with
    | none =>
      have : ¬ key ∈ (E.filter fun e => e.2.toNat == 4 * k).map (·.1) := fun hm => by
        obtain ⟨a, ha, _⟩ := (hgrp k).mp hm; rw [hl] at ha; cases ha
      simp [this]
    | some a =>
      simp only [List.length_cons]
      by_cases hk : a.toNat / 4 = k
      · have hm := (hgrp k).mpr ⟨a, hl, hk⟩
        have h4a : a.toNat % 4 = 0 := h4 (key, a) (mem_of_lookup hl)
        have : st.pc = a := by
          rw [hpc]; apply BitVec.eq_of_toNat_eq; simp only [BitVec.toNat_ofNat]
          have := a.isLt; omega
        have hr1 : ¬ (k + 1 ≤ a.toNat / 4 ∧ a.toNat / 4 ≤ k + 1 + r.length) := by omega
        have hr2 : (k ≤ a.toNat / 4 ∧ a.toNat / 4 ≤ k + (r.length + 1)) := by omega
        simp [hm, this, hr1, hr2]
      · have : ¬ key ∈ (E.filter fun e => e.2.toNat == 4 * k).map (·.1) := fun hm => by
          obtain ⟨a', ha', hk'⟩ := (hgrp k).mp hm; rw [hl] at ha'; cases ha'; exact hk hk'
        by_cases hr1 : (k + 1 ≤ a.toNat / 4 ∧ a.toNat / 4 ≤ k + 1 + r.length)
        · have hr2 : (k ≤ a.toNat / 4 ∧ a.toNat / 4 ≤ k + (r.length + 1)) := by omega
          simp [hr1, hr2]
        · have hr2 : ¬ (k ≤ a.toNat / 4 ∧ a.toNat / 4 ≤ k + (r.length + 1)) := by omega
          simp [this, hr1, hr2]

theorem parse_of_allOk_join {ls : List Bytes} {items : List Item} (hok : AllOk ls items)
    (hnl : ∀ l ∈ ls, (0x0A : UInt8) ∉ l) :
    parse (joinWith 0x0A ls) = .ok { instrs := (assemble items {}).instrs, labels := (assemble items {}).labels } := by
  cases ls with
  | nil => cases hok; rfl
  | cons a r =>
    have hl : lines (joinWith 0x0A (a :: r)) = a :: r := splitOn_join (by simp) hnl
    rw [parse_eq, hl, mapM_of_allOk hok]
    rfl

/-- the canonical text of a printable program parses back to it: same instructions, same
label map (as a map: Go maps are unordered) -/
theorem parse_pretty (app : App) (h : WfApp app = true) :
    ∃ app', parse (pretty app) = .ok app' ∧ app'.instrs = app.instrs ∧
      ∀ key, app'.labels.find? key = app.labels.find? key := by
  simp only [WfApp, Bool.and_eq_true, List.all_eq_true, beq_iff_eq, decide_eq_true_eq] at h
  obtain ⟨⟨hI, hE⟩, hd⟩ := h
  have hE1 : ∀ e ∈ app.labels.entries, labelKeyOk e.1 = true := fun e he => (hE e he).1.1
  have hE2 : ∀ e ∈ app.labels.entries, e.2.toNat % 4 = 0 := fun e he => (hE e he).1.2
  have hok := allOk_prettyFrom hE1 0 app.instrs hI
  have hnl := noNL_prettyFrom hE1 0 app.instrs hI
  refine ⟨_, parse_of_allOk_join hok hnl, ?_, ?_⟩
  · simp [assemble_instrs, filterMap_itemsFrom]
  · intro key
    show (assemble (itemsFrom app.labels.entries 0 app.instrs) {}).labels.find? key = _
    rw [assemble_itemsFrom hE1 hd hE2 key app.instrs 0 {} rfl]
    show _ = app.labels.entries.lookup key
    cases hl : app.labels.entries.lookup key with
    | none => rfl
    | some a =>
      have := (hE _ (mem_of_lookup hl)).2
      simp only [Nat.zero_le, true_and, Nat.zero_add]
      rw [if_pos this]

end Proofs.Parser

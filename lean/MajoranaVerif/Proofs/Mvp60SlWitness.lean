/-
  Proofs/Mvp60SlWitness.lean — package R60: two programs on which the statements of `Props/C01.lean` are evaluated
  (kernel evaluation of the model through `runFast`, `Proofs.Mvp60Fast.runFast_eq_run`).
-/
import MajoranaVerif.Model.Mvp60Class
import MajoranaVerif.Proofs.Mvp60Fast
import MajoranaVerif.Proofs.Mvp60Flush
open GoInt

namespace Proofs.Mvp60SlWitness
open Model.Mvp60

/-- a straight-line program with read-after-write, write-after-write and write-after-read dependences, a `mul` and a `div`:
`li t0, 7; addi t1, t0, 1; mul t2, t1, t0; add t0, t2, t1; div t1, t0, t1; sub t2, t1, t0` -/
def slApp : Model.Seq.App :=
  { instrs := [.li_ { rd := 5, imm := 7#32 }, .addi_ { rd := 6, rs := 5, imm := 1#32 }, .mul_ { rd := 7, rs1 := 6, rs2 := 5 },
               .add_ { rd := 5, rs1 := 7, rs2 := 6 }, .div_ { rd := 6, rs1 := 5, rs2 := 6 }, .sub_ { rd := 7, rs1 := 6, rs2 := 5 }],
    labels := {} }

def ctx0 : Model.Context := { Memory := List.replicate 64 0#8 }

/-- what is compared: how the run ended and the registers `ra s0 a0 t0 t1 t2` -/
def obsR (h : Option Model.Seq.Halt) (c : Model.Context) : Option Model.Seq.Halt × List Word :=
  (h, [1, 8, 10, 5, 6, 7].map fun r => c.Registers.get1 r)

theorem sl_class : StraightLine slApp = true := by decide

theorem sl_seq : obsR (Model.Seq.runMvp1 slApp ⟨ctx0, 0⟩ 20).halt (Model.Seq.runMvp1 slApp ⟨ctx0, 0⟩ 20).final.ctx =
    (some .offEnd, [0#32, 0#32, 0#32, 64#32, 8#32, 0xFFFFFFC8#32]) := by decide +kernel

theorem sl_p2 : obsR (run slApp ctx0 2 2 2000).halt (run slApp ctx0 2 2 2000).final.ctx =
    (some .offEnd, [0#32, 0#32, 0#32, 64#32, 8#32, 0xFFFFFFC8#32]) := by
  rw [← Proofs.Mvp60Fast.runFast_eq_run]; decide +kernel

theorem sl_p4 : obsR (run slApp ctx0 4 4 2000).halt (run slApp ctx0 4 4 2000).final.ctx =
    (some .offEnd, [0#32, 0#32, 0#32, 64#32, 8#32, 0xFFFFFFC8#32]) := by
  rw [← Proofs.Mvp60Fast.runFast_eq_run]; decide +kernel

/-- `slApp` with a `ret` in the middle (the run ends there; the instructions behind it are decoded, some even issued, none
executed): `li t0, 7; addi t1, t0, 1; mul t2, t1, t0; ret; add t0, t2, t1; div t1, t0, t1` -/
def slrApp : Model.Seq.App :=
  { instrs := [.li_ { rd := 5, imm := 7#32 }, .addi_ { rd := 6, rs := 5, imm := 1#32 }, .mul_ { rd := 7, rs1 := 6, rs2 := 5 },
               .ret_ {}, .add_ { rd := 5, rs1 := 7, rs2 := 6 }, .div_ { rd := 6, rs1 := 5, rs2 := 6 }],
    labels := {} }

theorem slr_class : StraightLineRet slrApp = true ∧ StraightLine slrApp = false := by decide

theorem slr_seq : obsR (Model.Seq.runMvp1 slrApp ⟨ctx0, 0⟩ 20).halt (Model.Seq.runMvp1 slrApp ⟨ctx0, 0⟩ 20).final.ctx =
    (some .ret, [0#32, 0#32, 0#32, 7#32, 8#32, 56#32]) := by decide +kernel

theorem slr_p2 : obsR (run slrApp ctx0 2 2 2000).halt (run slrApp ctx0 2 2 2000).final.ctx =
    (some .ret, [0#32, 0#32, 0#32, 7#32, 8#32, 56#32]) := by
  rw [← Proofs.Mvp60Fast.runFast_eq_run]; decide +kernel

theorem slr_p4 : obsR (run slrApp ctx0 4 4 2000).halt (run slrApp ctx0 4 4 2000).final.ctx =
    (some .ret, [0#32, 0#32, 0#32, 7#32, 8#32, 56#32]) := by
  rw [← Proofs.Mvp60Fast.runFast_eq_run]; decide +kernel

/-- a register-only program with a loop, a call and return, and a `mul`:
```
  li s0, 3
  li a0, 1
  jal ra, f
l1:
  mul a0, a0, s0
  addi s0, s0, -1
  bnez s0, l1
  ret
f:
  addi a0, a0, 5
  jalr zero, ra, 0
``` -/
def loopApp : Model.Seq.App :=
  { instrs := [.li_ { rd := 8, imm := 3#32 }, .li_ { rd := 10, imm := 1#32 }, .jal_ { label := "f", rd := 1 },
               .mul_ { rd := 10, rs1 := 10, rs2 := 8 }, .addi_ { rd := 8, rs := 8, imm := BitVec.ofInt 32 (-1) },
               .bnez_ { rs := 8, label := "l1" }, .ret_ {},
               .addi_ { rd := 10, rs := 10, imm := 5#32 }, .jalr_ { rd := 0, rs := 1, imm := 0#32 }],
    labels := GoMap.ofList [("l1", 12#32), ("f", 28#32)] }

theorem loop_class : RegOnly loopApp = true ∧ StraightLine loopApp = false := by decide

/-- MVP-1: `a0 = (1 + 5)·3·2·1 = 36`, `ra = 12`, `s0 = 0` -/
theorem loop_seq : obsR (Model.Seq.runMvp1 loopApp ⟨ctx0, 0⟩ 40).halt (Model.Seq.runMvp1 loopApp ⟨ctx0, 0⟩ 40).final.ctx =
    (some .ret, [12#32, 0#32, 36#32, 0#32, 0#32, 0#32]) := by decide +kernel

theorem loop_p2 : obsR (run loopApp ctx0 2 2 5000).halt (run loopApp ctx0 2 2 5000).final.ctx =
    (some .ret, [12#32, 0#32, 36#32, 0#32, 0#32, 0#32]) := by
  rw [← Proofs.Mvp60Fast.runFast_eq_run]; decide +kernel

/-- a register-only program with a backward conditional branch (a loop), a `mul` and a `ret`, no jump:
`li s0, 3; li a0, 1; l1: mul a0, a0, s0; addi s0, s0, -1; bnez s0, l1; ret` -/
def brApp : Model.Seq.App :=
  { instrs := [.li_ { rd := 8, imm := 3#32 }, .li_ { rd := 10, imm := 1#32 }, .mul_ { rd := 10, rs1 := 10, rs2 := 8 },
               .addi_ { rd := 8, rs := 8, imm := BitVec.ofInt 32 (-1) }, .bnez_ { rs := 8, label := "l1" }, .ret_ {}],
    labels := GoMap.ofList [("l1", 8#32)] }

theorem br_class : BranchOnly brApp = true ∧ StraightLineRet brApp = false := by decide

theorem br_seq : obsR (Model.Seq.runMvp1 brApp ⟨ctx0, 0⟩ 40).halt (Model.Seq.runMvp1 brApp ⟨ctx0, 0⟩ 40).final.ctx =
    (some .ret, [0#32, 0#32, 6#32, 0#32, 0#32, 0#32]) := by decide +kernel

theorem br_p1 : obsR (run brApp ctx0 1 1 5000).halt (run brApp ctx0 1 1 5000).final.ctx =
    (some .ret, [0#32, 0#32, 6#32, 0#32, 0#32, 0#32]) := by
  rw [← Proofs.Mvp60Fast.runFast_eq_run]; decide +kernel

theorem br_p2 : obsR (run brApp ctx0 2 2 5000).halt (run brApp ctx0 2 2 5000).final.ctx =
    (some .ret, [0#32, 0#32, 6#32, 0#32, 0#32, 0#32]) := by
  rw [← Proofs.Mvp60Fast.runFast_eq_run]; decide +kernel

theorem br_p4 : obsR (run brApp ctx0 4 4 5000).halt (run brApp ctx0 4 4 5000).final.ctx =
    (some .ret, [0#32, 0#32, 6#32, 0#32, 0#32, 0#32]) := by
  rw [← Proofs.Mvp60Fast.runFast_eq_run]; decide +kernel

/-- a program in which an instruction behind a taken branch executes in the tick of the flush (two units):
`addi t1, zero, 7; beq zero, zero, l1; addi t0, zero, 5; l1: addi t2, zero, 9` (`Proofs.Mvp60Flush.wpApp`) -/
theorem wp_class : BranchOnly Proofs.Mvp60Flush.wpApp = true := by decide

theorem wp_seq : obsR (Model.Seq.runMvp1 Proofs.Mvp60Flush.wpApp ⟨ctx0, 0⟩ 20).halt
    (Model.Seq.runMvp1 Proofs.Mvp60Flush.wpApp ⟨ctx0, 0⟩ 20).final.ctx = (some .offEnd, [0#32, 0#32, 0#32, 0#32, 7#32, 9#32]) := by
  decide +kernel

theorem wp_p2 : obsR (run Proofs.Mvp60Flush.wpApp ctx0 2 2 2000).halt (run Proofs.Mvp60Flush.wpApp ctx0 2 2 2000).final.ctx =
    (some .offEnd, [0#32, 0#32, 0#32, 0#32, 7#32, 9#32]) := by
  rw [← Proofs.Mvp60Fast.runFast_eq_run]; decide +kernel

end Proofs.Mvp60SlWitness

/-
  Proofs/Mvp60LdTick.lean — package R60d: one tick of the MVP-6.0 model on a straight-line program with memory reads keeps
  the relation `RelO` (front in program order, back out of order `BackO`, L3 coherent with the flat memory `L3Ok`, execute
  units waiting for the bytes of the unpipelined run), for every number of execute and write units.  A final `ret`
  (class `StraightLineLdRet`) is issued like any instruction, may execute while older loads wait (`EuPost`, `RetPend`), and
  puts the machine into its drain loops (`ModeOk`, `goRetA_simO`, `goRetB_simO`).
-/
import MajoranaVerif.Proofs.Mvp60LdBack
import MajoranaVerif.Proofs.Mvp60SlTerm
open GoInt

set_option linter.unusedSimpArgs false
set_option linter.unusedVariables false

namespace Proofs.Mvp60Ld
open Model Model.Mvp60 Proofs.Mvp60Sl Proofs.Mmu
open Model.Seq (App Halt Arch stepArch)

/-- what an execute unit that is not idle holds: a runner; when it waits for L3, the bytes of the unpipelined run; when it
waits for memory, the addresses of the unpipelined run, whose line is announced in `pend` -/
def EuOk (app : App) (a0 : Arch) (c : Word) (pend : List (Int × Int)) (eu : ExecUnit) : Prop :=
  match eu.co with
  | .none => True
  | .prepare => ∃ x, eu.runner = some x
  | .l3wait _ => ∃ x j aj, eu.runner = some x ∧ ROk app c x j ∧ seqL app j a0 = some aj ∧
      (x.instr.memoryRead aj.ctx 0#32).mapM (Model.Seq.readMem a0.ctx.Memory) = some eu.memory
  | .memwait _ addrs => ∃ x j aj a1 as, eu.runner = some x ∧ ROk app c x j ∧ seqL app j a0 = some aj ∧
      addrs = x.instr.memoryRead aj.ctx 0#32 ∧ addrs = a1 :: as ∧ ∃ p ∈ pend, p.1 = base 64 a1.toInt

/-- the line an execute unit is fetching -/
def mwBase (eu : ExecUnit) : Option Int :=
  match eu.co with
  | .memwait _ (a1 :: _) => some (base 64 a1.toInt)
  | _ => none

/-- only the youngest decoded instruction can be a `ret` (the decode unit stops at a `ret`); while the decode unit has seen
none, no decoded instruction is one -/
def RetInv (app : App) (s : State) (nt : Nat) : Prop :=
  NoRetBefore app (nt + (runners s).length - 1) ∧ (s.du.ret = false → NoRetBefore app (nt + (runners s).length))

theorem RetInv.congr {app : App} {s s' : State} {nt : Nat} (h : RetInv app s nt) (hr : runners s' = runners s)
    (hd : s'.du = s.du) : RetInv app s' nt := by
  unfold RetInv at h ⊢
  rw [hr, hd]; exact h

/-- **the relation** (it holds between two ticks and between the units of a tick: nothing in it depends on time); `ex` = an
execute unit that is in the middle of its cycle (nothing is claimed of it) -/
structure RelOx (app : App) (a0 : Arch) (c : Word) (s : State) (nt : Nat) (ex : Option Nat) : Prop where
  front : Front app s nt
  rseq : ∀ r ∈ runners s, r.seq = r.pc + c
  sid : c = s.ctx.sequenceID * 1000#32
  back : BackO app a0 c s.ctx s.executeBus.inside (s.eus.map heldAt) s.writeBus.inside nt
  l3 : L3Ok s.mmu s.pendings s.ctx.Memory a0.ctx.Memory
  units : ∀ (k : Nat) (eu : ExecUnit), s.eus[k]? = some eu → some k ≠ ex → EuOk app a0 c s.pendings eu
  mwd : ∀ (i1 i2 : Nat) (eu1 eu2 : ExecUnit) (b : Int), i1 ≠ i2 → some i1 ≠ ex → some i2 ≠ ex → s.eus[i1]? = some eu1 →
    s.eus[i2]? = some eu2 → mwBase eu1 = some b → mwBase eu2 ≠ some b
  wus : ∀ wu ∈ s.wus, wu.co = .none
  pend : s.cuPendings.items.length ≤ 1
  mode : s.mode = .normal ∨ s.mode = .retA ∨ s.mode = .retB
  reti : RetInv app s nt

abbrev RelO (app : App) (a0 : Arch) (c : Word) (s : State) (nt : Nat) : Prop := RelOx app a0 c s nt none

theorem L3Ok.congr {u u' : Model.Mmu.Mmu} {pend : List (Int × Int)} {mem flat : List Byte} (h : L3Ok u pend mem flat)
    (hd : u'.l1d = u.l1d) (hi : Proofs.Mvp3.IWf 64 u'.l1i) : L3Ok u' pend mem flat :=
  ⟨by rw [hd]; exact h.wf, by rw [hd]; exact h.coh, fun p hp => by rw [hd]; exact h.pok p hp, h.pdist, hi⟩

theorem issued_backO {app : App} {a0 : Arch} {c : Word} {H : List (Option Runner)} {W : List ExecCtx} {nt : Nat}
    (hsm : app.instrs.length < 250) {cyc p : Int} {pushed : List Runner} {x y : Model.Context × BufferedBus Runner}
    (h : Issued cyc p pushed x y) : ∀ (k : Nat), Chain app k pushed → (∀ r ∈ pushed, r.seq = r.pc + c) →
    k = nt + x.2.inside.length → BackO app a0 c x.1 x.2.inside H W nt → BackO app a0 c y.1 y.2.inside H W nt := by
  induction h with
  | nil p x => intro k _ _ _ hb; exact hb
  | cons p r rs ctx bus y hz _ _ _ ih =>
    intro k hch hseq hk hb
    simp only at hk hb
    have hr : ROk app c r (nt + bus.inside.length) := by
      refine ⟨by rw [← hk]; exact hch.1, ?_⟩
      rw [hseq r List.mem_cons_self, hch.1.1, hk]
    apply ih (k + 1) hch.2 (fun r' hr' => hseq r' (List.mem_cons_of_mem _ hr'))
    · simp only [inside_add, List.length_append, List.length_cons, List.length_nil]; omega
    · simp only [inside_add]; exact hb.issue hsm r hr hz

/-! ### the phases before the execute units -/

theorem connected_relO {app : App} {a0 : Arch} {c : Word} {s : State} {nt : Nat} (h : RelO app a0 c s nt) :
    RelO app a0 c (connected s) nt := by
  have hrun : runners (connected s) = runners s := by simp only [runners, connected, inside_connect]
  refine ⟨⟨by rw [hrun]; exact h.front.chain, by rw [hrun]; exact h.front.inRange, ?_, h.front.clean, ?_, h.front.duOk⟩,
    by rw [hrun]; exact h.rseq, h.sid, ?_, h.l3, h.units, h.mwd, h.wus, h.pend, h.mode, h.reti.congr hrun rfl⟩
  · rw [hrun]; simp only [connected, inside_connect]; exact h.front.pcs
  · simp only [connected, (connect_lengths _ _).2]; exact h.front.dlen
  · show BackO app a0 c s.ctx (s.executeBus.connect (s.cycles + 1)).inside (s.eus.map heldAt)
      (s.writeBus.connect (s.cycles + 1)).inside nt
    rw [inside_connect, inside_connect]; exact h.back

theorem fetch_relO {app : App} {a0 : Arch} {c : Word} {s s2 : State} {nt : Nat} (hsm : app.instrs.length < 250)
    (h : RelO app a0 c s nt) (hr : fetchCycle app s = .ok s2) : RelO app a0 c s2 nt := by
  obtain ⟨f2x, f2c, f2p, f2w, f2e, f2d, f2ctx, f2wus, f2cyc, f2eq⟩ := fetchCycle_frame app s s2 hr
  have hpcs : Pcs app (nt + (runners s).length) s.fu (if s.fu.toCleanPending then [] else s.decodeBus.inside) 0 := by
    simp only [h.front.clean, Bool.false_eq_true, if_false]; exact h.front.pcs
  obtain ⟨e1, e2, e3, e4⟩ := fetchCore_pcs app hsm _ _ _ _ _ _ _ _ h.front.dlen hpcs f2eq
  have hrun : runners s2 = runners s := by simp only [runners, f2x, f2c, f2p]
  have hsame : s2.mode = s.mode ∧ s2.pendings = s.pendings := by
    unfold fetchCycle at hr
    simp only [bind, Except.bind] at hr
    split at hr
    · cases hr
    · simp only [pure, Except.pure, Except.ok.injEq] at hr; subst hr; exact ⟨rfl, rfl⟩
  refine ⟨⟨by rw [hrun]; exact h.front.chain, by rw [hrun]; exact h.front.inRange, by rw [hrun]; exact e1, e2, e3,
      by rw [f2d]; exact h.front.duOk⟩, by rw [hrun]; exact h.rseq, by rw [f2ctx]; exact h.sid, ?_, ?_, ?_, ?_,
    by rw [f2wus]; exact h.wus, by rw [f2p]; exact h.pend, by rw [hsame.1]; exact h.mode, h.reti.congr hrun f2d⟩
  · rw [f2ctx, f2x, f2e, f2w]; exact h.back
  · rw [hsame.2, f2ctx]
    refine h.l3.congr e4 ?_
    obtain ⟨fu', mmu', bus', hok, hi'⟩ := fetchCore_ok app s.cycles s.fu s.mmu s.decodeBus h.l3.iwf
    rw [f2eq] at hok
    simp only [Except.ok.injEq, Prod.mk.injEq] at hok
    rw [hok.2.1]; exact hi'
  · rw [f2e, hsame.2]; exact h.units
  · rw [f2e]; exact h.mwd

theorem notJ_of_ld (app : App) (hcls : StraightLineLdR app = true) (i : Gen.Instr) (hi : i ∈ app.instrs) :
    i.instructionType.IsUnconditionalBranch = false := by
  have := ldr_of_mem app hcls i hi
  simp only [ldrInstr, Bool.and_eq_true, Bool.not_eq_true', Gen.InstructionType.IsBranch, Bool.or_eq_false_iff] at this
  exact this.1.2.1

/-- the instructions of a chain of runners none of which is a `ret` -/
theorem chain_noret (app : App) : ∀ (l : List Runner) (k : Nat), Chain app k l → (∀ r ∈ l, isRet r.instr = false) →
    ∀ (j : Nat) (i : Gen.Instr), k ≤ j → j < k + l.length → app.instrs[j]? = some i → isRet i = false := by
  intro l
  induction l with
  | nil => intro k _ _ j i h1 h2; simp only [List.length_nil] at h2; omega
  | cons r rs ih =>
    intro k hch hall j i h1 h2 hi
    rcases Nat.lt_or_ge k j with h3 | h3
    · exact ih (k + 1) hch.2 (fun r' hr' => hall r' (List.mem_cons_of_mem _ hr')) j i (by omega)
        (by simp only [List.length_cons] at h2; omega) hi
    · have : j = k := by omega
      subst this
      have := hch.1.2
      rw [hi] at this; simp only [Option.some.injEq] at this
      rw [this]; exact hall r List.mem_cons_self

/-- **the decode unit stops at a `ret`**: of the runners it adds in a cycle only the last one can be a `ret`, and then (and
only then) it sets its `ret` flag -/
theorem decodeLoop_ret (app : App) (ctx : Model.Context) (c : Int) :
    ∀ (n : Nat) (du du' : DecodeUnit) (inBus inBus' : BufferedBus Word) (outBus outBus' : BufferedBus Runner),
    decodeLoop app ctx c n du inBus outBus = .ok (du', inBus', outBus') →
    ∃ added, outBus'.inside = outBus.inside ++ added ∧
      ((du'.ret = du.ret ∧ ∀ r ∈ added, isRet r.instr = false) ∨
       (du'.ret = true ∧ ∃ pre x, added = pre ++ [x] ∧ ∀ r ∈ pre, isRet r.instr = false)) := by
  intro n
  induction n with
  | zero =>
    intro du du' inBus inBus' outBus outBus' hr
    simp only [decodeLoop, pure, Except.pure, Except.ok.injEq, Prod.mk.injEq] at hr
    obtain ⟨rfl, _, rfl⟩ := hr
    exact ⟨[], by simp, Or.inl ⟨rfl, fun r hr => by cases hr⟩⟩
  | succ n ih =>
    intro du du' inBus inBus' outBus outBus' hr
    simp only [decodeLoop] at hr
    cases hq : inBus.queue with
    | nil =>
      simp only [get_none _ hq, pure, Except.pure, Except.ok.injEq, Prod.mk.injEq] at hr
      obtain ⟨rfl, _, rfl⟩ := hr
      exact ⟨[], by simp, Or.inl ⟨rfl, fun r hr => by cases hr⟩⟩
    | cons p q =>
      simp only [get_some _ p q hq] at hr
      split at hr
      · simp only [pure, Except.pure, Except.ok.injEq, Prod.mk.injEq] at hr
        obtain ⟨rfl, _, rfl⟩ := hr
        exact ⟨[], by simp, Or.inl ⟨rfl, fun r hr => by cases hr⟩⟩
      · simp only [bind, Except.bind] at hr
        split at hr
        · cases hr
        · rename_i i hi
          split at hr
          · -- a jump: it is no `ret`
            rename_i hj
            simp only [pure, Except.pure, Except.ok.injEq, Prod.mk.injEq] at hr
            obtain ⟨rfl, _, rfl⟩ := hr
            refine ⟨[⟨i, p, p + ctx.sequenceID * 1000#32⟩], inside_add _ _ _, Or.inl ⟨rfl, ?_⟩⟩
            intro r hr
            simp only [List.mem_singleton] at hr
            subst hr
            cases hret : isRet i with
            | false => rfl
            | true =>
              have := (ret_facts i hret).2.2.2.1
              simp only [Gen.InstructionType.IsBranch, Bool.or_eq_false_iff] at this
              rw [this.1] at hj; cases hj
          · split at hr
            · simp only [pure, Except.pure, Except.ok.injEq, Prod.mk.injEq] at hr
              obtain ⟨rfl, _, rfl⟩ := hr
              exact ⟨[⟨i, p, p + ctx.sequenceID * 1000#32⟩], inside_add _ _ _, Or.inr ⟨rfl, [], _, rfl, fun r hr => by cases hr⟩⟩
            · rename_i hnr
              obtain ⟨added, t1, t2⟩ := ih _ du' _ inBus' _ outBus' hr
              have hin : isRet i = false := by simpa [isRet] using hnr
              refine ⟨⟨i, p, p + ctx.sequenceID * 1000#32⟩ :: added, by rw [t1, inside_add, List.append_assoc]; rfl, ?_⟩
              rcases t2 with ⟨u1, u2⟩ | ⟨u1, pre, x, u2, u3⟩
              · refine Or.inl ⟨u1, ?_⟩
                intro r hr
                rcases List.mem_cons.mp hr with rfl | hr
                · exact hin
                · exact u2 r hr
              · refine Or.inr ⟨u1, _ :: pre, x, by rw [u2]; rfl, ?_⟩
                intro r hr
                rcases List.mem_cons.mp hr with rfl | hr
                · exact hin
                · exact u3 r hr

theorem decode_relO {app : App} {a0 : Arch} {c : Word} {s s3 : State} {nt : Nat} (hp : ProgLd app a0)
    (h : RelO app a0 c s nt) (hr : decodeCycle app s = .ok s3) : RelO app a0 c s3 nt := by
  unfold decodeCycle decodeCore at hr
  by_cases hdr : s.du.ret = true
  · simp only [hdr, if_true, bind, Except.bind, pure, Except.pure, Except.ok.injEq] at hr
    subst hr; exact h
  · simp only [hdr, h.front.duOk, Bool.false_eq_true, if_false, bind, Except.bind] at hr
    split at hr
    · cases hr
    · rename_i v hv
      obtain ⟨du', d', c'⟩ := v
      simp only [pure, Except.pure, Except.ok.injEq] at hr
      subst hr
      have hf := h.front
      have hchain := hf.chain
      simp only [runners] at hchain
      rw [chain_append] at hchain
      have hin := hf.inRange
      have hpcs := hf.pcs
      simp only [runners, List.length_append] at hin hpcs
      have hpcs' : Pcs app (nt + (s.executeBus.inside ++ s.cuPendings.items.map (·.2)).length + s.controlBus.inside.length)
          s.fu s.decodeBus.inside 0 := by
        have e : nt + (s.executeBus.inside ++ s.cuPendings.items.map (·.2)).length + s.controlBus.inside.length =
            nt + (s.executeBus.inside.length + (s.cuPendings.items.map (·.2)).length + s.controlBus.inside.length) := by
          simp only [List.length_append]; omega
        rw [e]; exact hpcs
      have hin' : nt + (s.executeBus.inside ++ s.cuPendings.items.map (·.2)).length + s.controlBus.inside.length ≤ app.instrs.length := by
        simp only [List.length_append]; omega
      have hsq := decodeLoop_seq app s.ctx s.cycles _ s.du du' s.decodeBus d' s.controlBus c' hv
      obtain ⟨e1, e2, e5, added, e3, e4⟩ := decodeLoop_front app hp.small s.ctx s.cycles s.fu
        (nt + (s.executeBus.inside ++ s.cuPendings.items.map (·.2)).length) _ s.du du' s.decodeBus d' s.controlBus c'
        hchain.2 hin' hpcs' hv
      have hrun3 : runners { s with du := du', decodeBus := d', controlBus := c' } = runners s ++ added := by
        simp only [runners, e3, List.append_assoc]
      have hch3 : Chain app nt (runners { s with du := du', decodeBus := d', controlBus := c' }) := by
        simp only [runners]; rw [chain_append]; exact ⟨hchain.1, e1⟩
      -- no jump in the class: the decode unit stays open
      have hadd : du'.pendingBranchResolution = s.du.pendingBranchResolution ∧
          Pcs app (nt + (s.executeBus.inside ++ s.cuPendings.items.map (·.2)).length + c'.inside.length) s.fu d'.inside 0 := by
        rcases e4 with ⟨u1, u2, _⟩ | ⟨_, pre, j, u2, u3, _⟩
        · exact ⟨u1, u2⟩
        · exfalso
          have hjm : j.instr ∈ app.instrs := chain_mem app _ nt hch3 j (by rw [hrun3, u2]; simp)
          have := notJ_of_ld app hp.cls j.instr hjm
          simp only [isJ] at u3
          rw [u3] at this; cases this
      -- only the last runner added can be a `ret`
      have hreti : RetInv app { s with du := du', decodeBus := d', controlBus := c' } nt := by
        obtain ⟨added', v1, v2⟩ := decodeLoop_ret app s.ctx s.cycles _ s.du du' s.decodeBus d' s.controlBus c' hv
        have hadd' : added' = added := List.append_cancel_left (v1.symm.trans e3)
        subst hadd'
        have hdrf : s.du.ret = false := by simpa using hdr
        have hold := h.reti.2 hdrf
        have hchA : Chain app (nt + (runners s).length) added' := by
          have := hch3; rw [hrun3, chain_append] at this; exact this.2
        unfold RetInv
        rw [hrun3]
        simp only [List.length_append]
        rcases v2 with ⟨w1, w2⟩ | ⟨w1, pre, x, w2, w3⟩
        · have hall : NoRetBefore app (nt + ((runners s).length + added'.length)) := by
            intro k i hk hi
            rcases Nat.lt_or_ge k (nt + (runners s).length) with h4 | h4
            · exact hold k i h4 hi
            · exact chain_noret app added' _ hchA w2 k i h4 (by omega) hi
          exact ⟨hall.mono (by omega), fun _ => hall⟩
        · subst w2
          have hchP : Chain app (nt + (runners s).length) pre := by rw [chain_append] at hchA; exact hchA.1
          refine ⟨?_, fun hc => by (have h5 : du'.ret = false := hc); rw [w1] at h5; cases h5⟩
          intro k i hk hi
          simp only [List.length_append, List.length_cons, List.length_nil] at hk
          rcases Nat.lt_or_ge k (nt + (runners s).length) with h4 | h4
          · exact hold k i h4 hi
          · exact chain_noret app pre _ hchP w3 k i h4 (by omega) hi
      refine ⟨⟨hch3, ?_, ?_, hf.clean, by (show d'.bufferLength = 2); rw [e5]; exact hf.dlen,
          by (show du'.pendingBranchResolution = false); rw [hadd.1]; exact hf.duOk⟩, ?_, h.sid, h.back, h.l3, h.units, h.mwd,
        h.wus, h.pend, h.mode, hreti⟩
      · simp only [runners, List.length_append] at e2 ⊢; omega
      · have := hadd.2
        simp only [runners, List.length_append] at this ⊢
        rw [Nat.add_assoc] at this; exact this
      · intro r hmem
        simp only [runners, List.mem_append] at hmem
        rcases hmem with (hmem | hmem) | hmem
        · exact h.rseq r (by simp only [runners, List.mem_append]; exact Or.inl (Or.inl hmem))
        · exact h.rseq r (by simp only [runners, List.mem_append]; exact Or.inl (Or.inr hmem))
        · rcases hsq r hmem with h1 | h1
          · exact h.rseq r (by simp only [runners, List.mem_append]; exact Or.inr h1)
          · rw [h1, h.sid]

/-- the control unit issues runners free of hazards -/
theorem control_relO {app : App} {a0 : Arch} {c : Word} {s : State} {nt : Nat} (hp : ProgLd app a0)
    (h : RelO app a0 c s nt) : RelO app a0 c (controlCycle s) nt := by
  obtain ⟨pushed, i1, i2, i3, fr, _⟩ := controlCycle_spec s h.pend
  have b4 := issued_inside i1
  simp only at b4
  have hrun : runners (controlCycle s) = runners s := by
    simp only [runners, b4, List.append_assoc]
    rw [← List.append_assoc pushed, i2]
  -- the pushed runners are the next instructions behind the execute bus
  have hpc : Chain app (nt + s.executeBus.inside.length) pushed ∧ ∀ r ∈ pushed, r.seq = r.pc + c := by
    have hch := h.front.chain
    have hch2 : Chain app nt (s.executeBus.inside ++ (pushed ++ ((controlCycle s).cuPendings.items.map (·.2) ++ (controlCycle s).controlBus.inside))) := by
      have : pushed ++ ((controlCycle s).cuPendings.items.map (·.2) ++ (controlCycle s).controlBus.inside) =
          s.cuPendings.items.map (·.2) ++ s.controlBus.inside := by rw [← List.append_assoc]; exact i2
      rw [this, ← List.append_assoc]; exact hch
    rw [chain_append, chain_append] at hch2
    refine ⟨hch2.2.1, fun r hr => h.rseq r ?_⟩
    have : r ∈ s.cuPendings.items.map (·.2) ++ s.controlBus.inside := by
      rw [← i2]; exact List.mem_append_left _ (List.mem_append_left _ hr)
    simp only [runners, List.append_assoc]
    exact List.mem_append_right _ this
  have hb := issued_backO (a0 := a0) (H := s.eus.map heldAt) (W := s.writeBus.inside) (nt := nt) hp.small i1
    (nt + s.executeBus.inside.length) hpc.1 hpc.2 rfl h.back
  simp only at hb
  refine ⟨⟨by rw [hrun]; exact h.front.chain, by rw [hrun]; exact h.front.inRange, by rw [hrun, fr.fu, fr.decodeBus]; exact h.front.pcs,
      by rw [fr.fu]; exact h.front.clean, by rw [fr.decodeBus]; exact h.front.dlen, by rw [fr.du]; exact h.front.duOk⟩,
    by rw [hrun]; exact h.rseq, by rw [(issued_sid i1).1]; exact h.sid, by rw [fr.eus, fr.writeBus]; exact hb, ?_, ?_,
    by rw [fr.eus]; exact h.mwd, by rw [fr.wus]; exact h.wus, i3, by rw [fr.mode]; exact h.mode, h.reti.congr hrun fr.du⟩
  · rw [fr.mmu, fr.pendings, (issued_sid i1).2.2]; exact h.l3
  · rw [fr.eus, fr.pendings]; exact h.units

/-! ### one execute unit -/

theorem map_heldAt_set (eus : List ExecUnit) (i : Nat) (eu' : ExecUnit) :
    (eus.set i eu').map heldAt = (eus.map heldAt).set i (heldAt eu') := by
  rw [List.map_set]

theorem set_self {α : Type} : ∀ (l : List α) (i : Nat) (a : α), l[i]? = some a → l.set i a = l := by
  intro l
  induction l with
  | nil => intro i a h; cases h
  | cons x xs ih =>
    intro i a h
    cases i with
    | zero => simp only [List.getElem?_cons_zero, Option.some.injEq] at h; subst h; rfl
    | succ i => simp only [List.getElem?_cons_succ] at h; simp only [List.set_cons_succ, ih i a h]

theorem RelOx.open_ {app : App} {a0 : Arch} {c : Word} {s : State} {nt : Nat} (h : RelO app a0 c s nt) (i : Nat) :
    RelOx app a0 c s nt (some i) :=
  ⟨h.front, h.rseq, h.sid, h.back, h.l3, fun k eu hk _ => h.units k eu hk (by simp),
   fun i1 i2 eu1 eu2 b hne _ _ => h.mwd i1 i2 eu1 eu2 b hne (by simp) (by simp), h.wus, h.pend, h.mode, h.reti⟩

/-- the unit in the middle of its cycle has reached a state that fits -/
theorem RelOx.close {app : App} {a0 : Arch} {c : Word} {s : State} {nt : Nat} {i : Nat} (h : RelOx app a0 c s nt (some i))
    (eu : ExecUnit) (hi : s.eus[i]? = some eu) (hok : EuOk app a0 c s.pendings eu)
    (hmw : ∀ b, mwBase eu = some b → ∀ k euk, k ≠ i → s.eus[k]? = some euk → mwBase euk ≠ some b) : RelO app a0 c s nt := by
  refine ⟨h.front, h.rseq, h.sid, h.back, h.l3, ?_, ?_, h.wus, h.pend, h.mode, h.reti⟩
  · intro k euk hk _
    by_cases hki : k = i
    · subst hki; rw [hi] at hk; simp only [Option.some.injEq] at hk; subst hk; exact hok
    · exact h.units k euk hk (by simpa using hki)
  · intro i1 i2 eu1 eu2 b hne _ _ h1 h2 hb1
    by_cases h1i : i1 = i
    · subst h1i
      rw [hi] at h1; simp only [Option.some.injEq] at h1; subst h1
      exact hmw b hb1 i2 eu2 (Ne.symm hne) h2
    · by_cases h2i : i2 = i
      · subst h2i
        rw [hi] at h2; simp only [Option.some.injEq] at h2; subst h2
        intro hb2
        exact hmw b hb2 i1 eu1 h1i h1 hb1
      · exact h.mwd i1 i2 eu1 eu2 b hne (by simpa using h1i) (by simpa using h2i) h1 h2 hb1

/-- what a cycle of execute unit `i` leaves alone -/
structure UFrame (s s' : State) (i : Nat) (eu' : ExecUnit) : Prop where
  eus : s'.eus = s.eus.set i eu'
  wus : s'.wus = s.wus
  cuPendings : s'.cuPendings = s.cuPendings
  mode : s'.mode = s.mode
  sid : s'.ctx.sequenceID = s.ctx.sequenceID

/-- the relation after a cycle of unit `i` (still excluded), from its ingredients -/
theorem RelOx.step {app : App} {a0 : Arch} {c : Word} {s s' : State} {nt nt' : Nat} {i : Nat} {eu' : ExecUnit}
    (h : RelOx app a0 c s nt (some i)) (fr : UFrame s s' i eu') (hfront : Front app s' nt')
    (hrseq : ∀ r ∈ runners s', r.seq = r.pc + c) (hreti : RetInv app s' nt')
    (hback : BackO app a0 c s'.ctx s'.executeBus.inside ((s.eus.map heldAt).set i (heldAt eu')) s'.writeBus.inside nt')
    (hl3 : L3Ok s'.mmu s'.pendings s'.ctx.Memory a0.ctx.Memory)
    (hpm : ∀ p ∈ s.pendings, p ∈ s'.pendings ∨ ∀ k euk, k ≠ i → s.eus[k]? = some euk → mwBase euk ≠ some p.1) :
    RelOx app a0 c s' nt' (some i) := by
  refine ⟨hfront, hrseq, by rw [fr.sid]; exact h.sid, by rw [fr.eus, map_heldAt_set]; exact hback, hl3, ?_, ?_,
    by rw [fr.wus]; exact h.wus, by rw [fr.cuPendings]; exact h.pend, by rw [fr.mode]; exact h.mode, hreti⟩
  · intro k euk hk hki
    have hki' : k ≠ i := by simpa using hki
    rw [fr.eus, List.getElem?_set_ne (Ne.symm hki')] at hk
    have := h.units k euk hk hki
    unfold EuOk at this ⊢
    split
    · trivial
    · simp_all
    · simp_all
    · rename_i rem addrs hco
      simp only [hco] at this
      obtain ⟨x, j, aj, a1, as, e1, e2, e3, e4, e5, p, hp, hpb⟩ := this
      refine ⟨x, j, aj, a1, as, e1, e2, e3, e4, e5, p, ?_, hpb⟩
      rcases hpm p hp with h1 | h1
      · exact h1
      · exfalso
        apply h1 k euk hki' hk
        simp only [mwBase, hco, e5, hpb]
  · intro i1 i2 eu1 eu2 b hne h1i h2i h1 h2
    have h1i' : i1 ≠ i := by simpa using h1i
    have h2i' : i2 ≠ i := by simpa using h2i
    rw [fr.eus, List.getElem?_set_ne (Ne.symm h1i')] at h1
    rw [fr.eus, List.getElem?_set_ne (Ne.symm h2i')] at h2
    exact h.mwd i1 i2 eu1 eu2 b hne h1i h2i h1 h2

theorem held_slot {s : State} {i : Nat} {eu0 : ExecUnit} {x : Runner} (hi : s.eus[i]? = some eu0) (hh : heldAt eu0 = some x) :
    (s.eus.map heldAt)[i]? = some (some x) := by
  rw [List.getElem?_map, hi]; simp only [Option.map_some, hh]

theorem held_slot' {eus : List ExecUnit} {i : Nat} {e' : ExecUnit} {x : Runner} (hi : i < eus.length) (hh : heldAt e' = some x) :
    ((eus.set i e').map heldAt)[i]? = some (some x) := by
  rw [List.getElem?_map, List.getElem?_set_self hi]; simp only [Option.map_some, hh]

theorem set_slot {eus : List ExecUnit} {i : Nat} (y : ExecUnit) (hi : i < eus.length) : (eus.set i y)[i]? = some y :=
  List.getElem?_set_self hi

/-- a `ret` of the program is still to be executed: not yet taken off the execute bus, or held by a unit -/
def RetPend (app : App) (H : List (Option Runner)) (nt : Nat) : Prop :=
  ∀ k i, app.instrs[k]? = some i → isRet i = true → nt ≤ k ∨ ∃ x, some x ∈ H ∧ isRet x.instr = true

/-- the program has a `ret` -/
def HasRet (app : App) : Prop := ∃ (k : Nat) (i : Gen.Instr), app.instrs[k]? = some i ∧ isRet i = true

/-- instruction `nt - 1`, the last one taken off the execute bus, is a `ret` -/
def RetAt (app : App) (nt : Nat) : Prop := ∃ i : Gen.Instr, 1 ≤ nt ∧ app.instrs[nt - 1]? = some i ∧ isRet i = true

theorem RetAt.has {app : App} {nt : Nat} (h : RetAt app nt) : HasRet app := by
  obtain ⟨i, _, hi, hr⟩ := h
  exact ⟨_, i, hi, hr⟩

/-- after the `ret` nothing more is taken off the execute bus -/
theorem RetAt.stable {app : App} {s : State} {nt nt' : Nat} (h : RetAt app nt) (hi : RetInv app s nt') (hle : nt ≤ nt') :
    nt' = nt := by
  obtain ⟨i, h1, h2, h3⟩ := h
  apply Classical.byContradiction
  intro hne
  have := hi.1 (nt - 1) i (by omega) h2
  rw [h3] at this; cases this

/-- what a cycle of an execute unit leaves: the relation, and either no event (a `ret` still to be executed stays so) or the
`ret` has been executed — then every instruction has been taken off the execute bus -/
def EuPost (app : App) (a0 : Arch) (c : Word) (H : List (Option Runner)) (nt : Nat) (md : Mode) (s' : State) (nt' : Nat)
    (out : EuOut) : Prop :=
  RelO app a0 c s' nt' ∧ s'.mode = md ∧
  ((out = .none ∧ (RetPend app H nt → RetPend app (s'.eus.map heldAt) nt')) ∨
   (out = .ret ∧ RetAt app nt'))

theorem RetPend.remove {app : App} {H : List (Option Runner)} {nt : Nat} (h : RetPend app H nt) (i : Nat) (x : Runner)
    (hi : H[i]? = some (some x)) (hx : isRet x.instr = false) : RetPend app (H.set i none) nt := by
  intro k ins hk hr
  rcases h k ins hk hr with h1 | ⟨y, hy, hyr⟩
  · exact Or.inl h1
  · right
    refine ⟨y, ?_, hyr⟩
    obtain ⟨k', hk', hk2⟩ := List.getElem_of_mem hy
    have hne : k' ≠ i := by
      intro he; subst he
      rw [List.getElem?_eq_getElem hk', hk2] at hi
      simp only [Option.some.injEq] at hi; subst hi
      rw [hx] at hyr; cases hyr
    exact List.mem_of_getElem? (by rw [List.getElem?_set_ne (Ne.symm hne), List.getElem?_eq_getElem hk', hk2])

theorem RetPend.take {app : App} {H : List (Option Runner)} {nt : Nat} (h : RetPend app H nt) (i : Nat) (x : Runner)
    (hi : H[i]? = some none) (hx : app.instrs[nt]? = some x.instr) : RetPend app (H.set i (some x)) (nt + 1) := by
  have hil : i < H.length := by
    rcases Nat.lt_or_ge i H.length with h' | h'
    · exact h'
    · rw [List.getElem?_eq_none h'] at hi; cases hi
  intro k ins hk hr
  rcases h k ins hk hr with h1 | ⟨y, hy, hyr⟩
  · rcases Nat.lt_or_ge nt k with h2 | h2
    · exact Or.inl h2
    · have : k = nt := by omega
      subst this
      rw [hx] at hk; simp only [Option.some.injEq] at hk; subst hk
      exact Or.inr ⟨x, List.mem_of_getElem? (List.getElem?_set_self hil), hr⟩
  · right
    refine ⟨y, ?_, hyr⟩
    obtain ⟨k', hk', hk2⟩ := List.getElem_of_mem hy
    have hne : k' ≠ i := by
      intro he; subst he
      rw [List.getElem?_eq_getElem hk', hk2] at hi
      cases hi
    exact List.mem_of_getElem? (by rw [List.getElem?_set_ne (Ne.symm hne), List.getElem?_eq_getElem hk', hk2])

/-- **a unit executes the runner it holds**: the result is the one of the unpipelined step; a `ret` reports itself -/
theorem coRun_simO (app : App) (a0 : Arch) (hp : ProgLd app a0) (c : Word) (sC s' : State) (nt i : Nat) (eu0 eu : ExecUnit)
    (x : Runner) (out : EuOut) (h : RelOx app a0 c { sC with eus := sC.eus.set i eu0 } nt (some i)) (hi : i < sC.eus.length)
    (hheld : heldAt eu0 = some x)
    (hmem : ∀ j aj, ROk app c x j → seqL app j a0 = some aj → isMemType x.instr.instructionType = true →
      (x.instr.memoryRead aj.ctx 0#32).mapM (Model.Seq.readMem a0.ctx.Memory) = some eu.memory)
    (hr : coRun app sC i eu x = .ok (s', out)) : EuPost app a0 c ((sC.eus.set i eu0).map heldAt) nt sC.mode s' nt out := by
  have hsm := hp.small
  have hslot : ((sC.eus.set i eu0).map heldAt)[i]? = some (some x) := held_slot' hi hheld
  obtain ⟨j, hj, hok⟩ := h.back.hidx x (List.mem_of_getElem? hslot)
  obtain ⟨St, hst⟩ := h.back.st
  obtain ⟨aj, haj⟩ := seqIter_prefix app a0 nt St hst j (by omega)
  obtain ⟨aj1, haj1⟩ := seqIter_prefix app a0 nt St hst (j + 1) (by omega)
  have hnrj : NoRetBefore app j := h.reti.1.mono (by omega)
  obtain ⟨f1, f2, f3, f4, f5⟩ := seq_facts app a0 hp j aj haj (hnrj.mono (by omega))
  obtain ⟨i', bytes, e, hi', hby, he, _⟩ := seq_succ app a0 hp j aj aj1 haj f1 f2 hnrj haj1
  have hii : i' = x.instr := by rw [hok.1.2] at hi'; simp only [Option.some.injEq] at hi'; exact hi'.symm
  subst hii
  have hsame : Proofs.Mvp4.SameRegs sC.ctx aj.ctx x.instr.readRegisters :=
    ⟨h.back.ratS, f4, h.back.txS, f5, fun r hr hr0 => h.back.opsB x j aj (List.mem_of_getElem? hslot) hok haj r hr hr0⟩
  have hrun : x.instr.run sC.ctx app.labels x.pc eu.memory 0#32 = x.instr.run aj.ctx app.labels aj.pc bytes 0#32 := by
    rw [Proofs.Mvp4.run_congr x.instr (hp.nofwd _ (List.mem_of_getElem? hok.1.2)) hsame, f1, hok.1.1]
    cases hm : isMemType x.instr.instructionType with
    | true =>
      have := hmem j aj hok haj hm
      rw [f3] at hby
      rw [hby] at this
      simp only [Option.some.injEq] at this
      rw [this]
    | false => rw [run_nomem x.instr hm _ _ _ eu.memory, run_nomem x.instr hm _ _ _ bytes]
  have hfront : Front app { sC with eus := sC.eus.set i eu0 } nt := h.front
  rcases ldr_cases app hp.cls j x.instr hok.1.2 with hld | hisret
  · obtain ⟨hmc, hret, hpcc⟩ := ld_run x.instr hld aj.ctx app.labels aj.pc bytes 0#32 e he
    have hub : x.instr.instructionType.IsUnconditionalBranch = false := notJ_of_ld app hp.cls x.instr (List.mem_of_getElem? hok.1.2)
    unfold coRun at hr
    simp only [setEu, hrun, he, hret, hmc, hpcc, hub, Bool.false_eq_true, if_false, bind, Except.bind, pure, Except.pure,
      Except.ok.injEq, Prod.mk.injEq] at hr
    obtain ⟨rfl, rfl⟩ := hr
    refine ⟨?_, rfl, Or.inl ⟨rfl, ?_⟩⟩
    · refine RelOx.close (i := i) (RelOx.step h (eu' := { eu with co := .none }) ⟨by simp only [List.set_set], rfl, rfl, rfl, rfl⟩
        ⟨h.front.chain, h.front.inRange, h.front.pcs, h.front.clean, h.front.dlen, h.front.duOk⟩ h.rseq (h.reti.congr rfl rfl) ?_ h.l3
        (fun p hp' => Or.inl hp')) { eu with co := .none } ?_ ?_ ?_
      · simp only [inside_add]
        have : heldAt ({ eu with co := .none } : ExecUnit) = none := rfl
        rw [this]
        exact h.back.exec hsm i x hslot j aj bytes e hok haj hby he
      · exact set_slot _ hi
      · unfold EuOk; simp only
      · intro b hb; simp only [mwBase] at hb; cases hb
    · intro hrp
      have h2 := hrp.remove i x hslot (ld_not_ret _ hld)
      show RetPend app ((sC.eus.set i { eu with co := .none }).map heldAt) nt
      rw [map_heldAt_set] at h2 ⊢
      rw [List.set_set] at h2
      exact h2
  · obtain ⟨_, hwx, _, _, _, hrunr⟩ := ret_facts x.instr hisret
    obtain ⟨e', he', hret', _, _⟩ := hrunr aj.ctx app.labels aj.pc bytes 0#32
    rw [he] at he'; simp only [Except.ok.injEq] at he'; subst he'
    unfold coRun at hr
    simp only [setEu, hrun, he, hret', if_true, pure, Except.pure, Except.ok.injEq, Prod.mk.injEq] at hr
    obtain ⟨rfl, rfl⟩ := hr
    have hjn : j + 1 = nt := by
      apply Classical.byContradiction
      intro hne
      have := h.reti.1 j x.instr (by omega) hok.1.2
      rw [hisret] at this; cases this
    refine ⟨?_, rfl, Or.inr ⟨rfl, x.instr, by omega, by rw [← hjn]; exact hok.1.2, hisret⟩⟩
    refine RelOx.close (i := i) (RelOx.step h (eu' := { eu with co := .none }) ⟨by simp only [List.set_set], rfl, rfl, rfl, rfl⟩
      ⟨h.front.chain, h.front.inRange, h.front.pcs, h.front.clean, h.front.dlen, h.front.duOk⟩ h.rseq (h.reti.congr rfl rfl) ?_ h.l3
      (fun p hp' => Or.inl hp')) { eu with co := .none } ?_ ?_ ?_
    · have : heldAt ({ eu with co := .none } : ExecUnit) = none := rfl
      rw [this]
      exact h.back.retire i x hslot hwx
    · exact set_slot _ hi
    · unfold EuOk; simp only
    · intro b hb; simp only [mwBase] at hb; cases hb

theorem notCond_of_ld (app : App) (hcls : StraightLineLdR app = true) (i : Gen.Instr) (hi : i ∈ app.instrs) :
    i.instructionType.IsConditionalBranch = false := by
  have := ldr_of_mem app hcls i hi
  simp only [ldrInstr, Bool.and_eq_true, Bool.not_eq_true', Gen.InstructionType.IsBranch, Bool.or_eq_false_iff] at this
  exact this.1.2.2

/-- the relation does not look at the branch unit -/
theorem RelOx.bu {app : App} {a0 : Arch} {c : Word} {s : State} {nt : Nat} {ex : Option Nat} (h : RelOx app a0 c s nt ex)
    (bu : BranchUnit) (fu : FetchUnit) (hfu : fu = s.fu) : RelOx app a0 c { s with bu := bu, fu := fu } nt ex := by
  subst hfu
  exact ⟨⟨h.front.chain, h.front.inRange, h.front.pcs, h.front.clean, h.front.dlen, h.front.duOk⟩, h.rseq, h.sid, h.back, h.l3,
    h.units, h.mwd, h.wus, h.pend, h.mode, h.reti.congr rfl rfl⟩

/-- **a unit that holds a runner prepares it**: it waits for room on the write bus, looks its addresses up in L3 (hit: the
bytes of the unpipelined run; line being fetched: wait; miss: announce the line and wait for memory), or runs it at once -/
theorem coPrepare_simO (app : App) (a0 : Arch) (hp : ProgLd app a0) (c : Word) (s s' : State) (nt i : Nat) (eu0 eu : ExecUnit)
    (x : Runner) (out : EuOut) (h : RelOx app a0 c { s with eus := s.eus.set i eu0 } nt (some i)) (hi : i < s.eus.length)
    (hheld : heldAt eu0 = some x) (hco : eu.co = .prepare) (hrun : eu.runner = some x)
    (hr : coPrepareRun app s i eu x = .ok (s', out)) : EuPost app a0 c ((s.eus.set i eu0).map heldAt) nt s.mode s' nt out := by
  have hsm := hp.small
  have hslot : ((s.eus.set i eu0).map heldAt)[i]? = some (some x) := held_slot' hi hheld
  have hheu : heldAt eu = some x := by simp only [heldAt, hco, hrun]
  obtain ⟨j, hj, hok⟩ := h.back.hidx x (List.mem_of_getElem? hslot)
  obtain ⟨St, hst⟩ := h.back.st
  obtain ⟨aj, haj⟩ := seqIter_prefix app a0 nt St hst j (by omega)
  have hnrj : NoRetBefore app j := h.reti.1.mono (by omega)
  obtain ⟨f1, f2, f3, f4, f5⟩ := seq_facts app a0 hp j aj haj (hnrj.mono (by omega))
  have hxm : x.instr ∈ app.instrs := List.mem_of_getElem? hok.1.2
  have hub := notJ_of_ld app hp.cls x.instr hxm
  have hcb := notCond_of_ld app hp.cls x.instr hxm
  have hsame : Proofs.Mvp4.SameRegs s.ctx aj.ctx x.instr.readRegisters :=
    ⟨h.back.ratS, f4, h.back.txS, f5, fun r hr hr0 => h.back.opsB x j aj (List.mem_of_getElem? hslot) hok haj r hr hr0⟩
  have hHset : ∀ eu' : ExecUnit, heldAt eu' = some x →
      ((s.eus.set i eu0).map heldAt).set i (heldAt eu') = (s.eus.set i eu0).map heldAt := by
    intro eu' he; rw [he]; exact set_self _ _ _ hslot
  have hkeep : ∀ (eu' : ExecUnit), heldAt eu' = some x → RetPend app ((s.eus.set i eu0).map heldAt) nt →
      RetPend app ((s.eus.set i eu').map heldAt) nt := by
    intro eu' he hrp
    rw [map_heldAt_set, he]
    rw [map_heldAt_set, hheld] at hrp
    exact hrp
  -- staying in `prepare`
  have hstay : ∀ (bu : BranchUnit) (u : Model.Mmu.Mmu), L3Ok u s.pendings s.ctx.Memory a0.ctx.Memory →
      RelO app a0 c { s with bu := bu, mmu := u, eus := s.eus.set i eu } nt := by
    intro bu u hl3
    refine RelOx.close (i := i) (RelOx.step h (eu' := eu) ⟨by simp only [List.set_set], rfl, rfl, rfl, rfl⟩
      ⟨h.front.chain, h.front.inRange, h.front.pcs, h.front.clean, h.front.dlen, h.front.duOk⟩ h.rseq (h.reti.congr rfl rfl) ?_ hl3
      (fun p hp' => Or.inl hp')) eu ?_ ?_ ?_
    · rw [hHset eu hheu]; exact h.back
    · exact set_slot _ hi
    · unfold EuOk; simp only [hco]; exact ⟨x, hrun⟩
    · intro b hb; simp only [mwBase, hco] at hb; cases hb
  unfold coPrepareRun at hr
  split at hr
  · simp only [setEu, pure, Except.pure, Except.ok.injEq, Prod.mk.injEq] at hr
    obtain ⟨rfl, rfl⟩ := hr
    exact ⟨hstay s.bu s.mmu h.l3, rfl, Or.inl ⟨rfl, hkeep eu hheu⟩⟩
  · simp only [buAssert, hub, hcb, Bool.false_eq_true, if_false] at hr
    cases hm : isMemType x.instr.instructionType with
    | false =>
      simp only [memoryRead_nomem x.instr hm, List.isEmpty_nil, Bool.not_true, Bool.false_eq_true, if_false] at hr
      exact coRun_simO app a0 hp c { s with bu := { s.bu with toCheck := false }, fu := s.fu } s' nt i eu0 eu x out
        (h.bu { s.bu with toCheck := false } s.fu rfl) hi hheld
        (fun _ _ _ _ hc => by rw [hm] at hc; cases hc) hr
    | true =>
      have hld : ldInstr x.instr = true := by
        rcases ldr_cases app hp.cls j x.instr hok.1.2 with h1 | h1
        · exact h1
        · have := (ret_facts x.instr h1).2.2.1; rw [hm] at this; cases this
      have hne := load_addrs_ne x.instr hld hm s.ctx 0#32
      have haddr : x.instr.memoryRead s.ctx 0#32 = x.instr.memoryRead aj.ctx 0#32 :=
        Proofs.Mvp4.memoryRead_congr x.instr (hp.nofwd _ hxm) hsame 0#32
      simp only [hne, Bool.not_false, if_true, bind, Except.bind] at hr
      have hlo := hp.loads j aj haj hnrj j x.instr f1 hok.1.2
      rw [f3] at hlo
      cases haddrs : x.instr.memoryRead aj.ctx 0#32 with
      | nil => rw [haddr, haddrs] at hne; cases hne
      | cons a1 as =>
        rw [haddrs] at hlo
        rw [haddr, haddrs] at hr
        rcases l3_lookup h.l3 a1 as hlo with ⟨bytes, u', e1, e2, e3, e4⟩ | e1 | ⟨e1, e2⟩
        · -- hit
          simp only [e1, setEu, pure, Except.pure, Except.ok.injEq, Prod.mk.injEq] at hr
          obtain ⟨rfl, rfl⟩ := hr
          refine ⟨?_, rfl, Or.inl ⟨rfl, hkeep _ (by simp only [heldAt, hrun])⟩⟩
          refine RelOx.close (i := i) (RelOx.step h (eu' := { eu with memory := bytes, co := .l3wait (Gen.Latency.L3Access - 1) })
            ⟨by simp only [List.set_set], rfl, rfl, rfl, rfl⟩ ⟨h.front.chain, h.front.inRange, h.front.pcs, h.front.clean, h.front.dlen, h.front.duOk⟩
            h.rseq (h.reti.congr rfl rfl) ?_ e3 (fun p hp' => Or.inl hp')) { eu with memory := bytes, co := .l3wait (Gen.Latency.L3Access - 1) } ?_ ?_ ?_
          · rw [hHset _ (by simp only [heldAt, hrun])]; exact h.back
          · exact set_slot _ hi
          · unfold EuOk; simp only
            exact ⟨x, j, aj, hrun, hok, haj, by rw [haddrs]; exact e4⟩
          · intro b hb; simp only [mwBase] at hb; cases hb
        · -- the line is being fetched
          simp only [e1, setEu, pure, Except.pure, Except.ok.injEq, Prod.mk.injEq] at hr
          obtain ⟨rfl, rfl⟩ := hr
          exact ⟨hstay _ s.mmu h.l3, rfl, Or.inl ⟨rfl, hkeep eu hheu⟩⟩
        · -- miss: the line is announced
          simp only [e1, setEu, pure, Except.pure, Except.ok.injEq, Prod.mk.injEq] at hr
          obtain ⟨rfl, rfl⟩ := hr
          refine ⟨?_, rfl, Or.inl ⟨rfl, hkeep _ (by simp only [heldAt, hrun])⟩⟩
          refine RelOx.close (i := i) (RelOx.step h (eu' := { eu with co := .memwait (Gen.Latency.MemoryAccess - 1) (a1 :: as) })
            ⟨by simp only [List.set_set], rfl, rfl, rfl, rfl⟩ ⟨h.front.chain, h.front.inRange, h.front.pcs, h.front.clean, h.front.dlen, h.front.duOk⟩
            h.rseq (h.reti.congr rfl rfl) ?_ e2 (fun p hp' => Or.inl (List.mem_append_left _ hp'))) { eu with co := .memwait (Gen.Latency.MemoryAccess - 1) (a1 :: as) } ?_ ?_ ?_
          · rw [hHset _ (by simp only [heldAt, hrun])]; exact h.back
          · exact set_slot _ hi
          · unfold EuOk; simp only
            exact ⟨x, j, aj, a1, as, hrun, hok, haj, haddrs.symm, rfl, _, List.mem_append_right _ List.mem_cons_self, rfl⟩
          · intro b hb k euk hki hk hbk
            simp only [mwBase, Option.some.injEq] at hb
            subst hb
            have hk' : (s.eus.set i eu0)[k]? = some euk := by
              have hk2 : (s.eus.set i { eu with co := .memwait (Gen.Latency.MemoryAccess - 1) (a1 :: as) })[k]? = some euk := hk
              rw [List.getElem?_set_ne (Ne.symm hki)] at hk2 ⊢
              exact hk2
            have hu := h.units k euk hk' (by simpa using hki)
            -- the other unit's line is pending, the new line was not
            unfold EuOk at hu
            unfold mwBase at hbk
            split at hbk
            · rename_i rem a2 as2 hco2
              simp only [hco2] at hu
              obtain ⟨_, _, _, a1', as', _, _, _, e4', e5', p, hpm, hpb⟩ := hu
              simp only [List.cons.injEq] at e5'
              obtain ⟨rfl, _⟩ := e5'
              simp only [Option.some.injEq] at hbk
              have hd := e2.pdist
              rw [List.pairwise_append] at hd
              exact hd.2.2 p hpm _ List.mem_cons_self (by rw [hpb, hbk])
            · cases hbk

theorem state_set_self (s : State) (i : Nat) (eu : ExecUnit) (h : s.eus[i]? = some eu) :
    ({ s with eus := s.eus.set i eu } : State) = s := by
  cases s
  simp only at h ⊢
  rw [set_self _ _ _ h]

/-- **the end of a memory access**: the line is pushed into L3, the pending entry removed, the lookup hits -/
theorem fill_relO (app : App) (a0 : Arch) (c : Word) (s : State) (nt i : Nat) (eu : ExecUnit) (x : Runner) (rem : Int) (a1 : Word)
    (as : List Word) (h : RelO app a0 c s nt) (hget : s.eus[i]? = some eu) (hco : eu.co = .memwait rem (a1 :: as))
    (hxr : eu.runner = some x) (hlo : Model.Mmu.loadOk 64 a0.ctx.Memory.length (a1 :: as) = true)
    (hpe : ∃ p ∈ s.pendings, p.1 = base 64 a1.toInt) :
    ∃ line u1 mem1 bytes u2, Model.Mmu.fetchCacheLine cfg s.ctx.Memory a1 = .ok line ∧
      pushLineToL3 s.mmu s.pendings s.ctx.Memory a1 line = .ok (u1, removePending (base 64 a1.toInt) s.pendings, mem1) ∧
      getFromL3 u1 (removePending (base 64 a1.toInt) s.pendings) (a1 :: as) =
        .ok (.hit bytes, u2, removePending (base 64 a1.toInt) s.pendings) ∧
      (a1 :: as).mapM (Model.Seq.readMem a0.ctx.Memory) = some bytes ∧
      RelOx app a0 c { s with mmu := u2, pendings := removePending (base 64 a1.toInt) s.pendings, ctx := { s.ctx with Memory := mem1 }, eus := s.eus.set i eu } nt (some i) := by
  have hheld : heldAt eu = some x := by simp only [heldAt, hco, hxr]
  obtain ⟨line, u1, mem1, bytes, u2, g1, g2, g3, g4, g5, g6⟩ := l3_fill h.l3 a1 as hlo hpe
  have hmwi : mwBase eu = some (base 64 a1.toInt) := by simp only [mwBase, hco]
  refine ⟨line, u1, mem1, bytes, u2, g1, g2, g3, g6, ?_⟩
  refine RelOx.step (h.open_ i) (eu' := eu) ⟨rfl, rfl, rfl, rfl, rfl⟩
    ⟨h.front.chain, h.front.inRange, h.front.pcs, h.front.clean, h.front.dlen, h.front.duOk⟩ h.rseq (h.reti.congr rfl rfl) ?_ g5 ?_
  · rw [hheld, set_self _ _ _ (held_slot hget hheld)]
    exact h.back.congr_ctx _ rfl rfl rfl rfl rfl
  · intro q hq
    by_cases hqb : q.1 = base 64 a1.toInt
    · right
      intro k euk hki hk
      rw [hqb]
      exact h.mwd i k eu euk _ (Ne.symm hki) (by simp) (by simp) hget hk hmwi
    · exact Or.inl (mem_removePending_of_ne _ _ q hq hqb)

/-- **an idle unit takes the oldest issued runner off the execute bus** -/
theorem take_relO (app : App) (a0 : Arch) (hp : ProgLd app a0) (c : Word) (s : State) (nt i : Nat) (eu : ExecUnit) (x : Runner)
    (q : List Runner) (h : RelO app a0 c s nt) (hi : i < s.eus.length) (hget : s.eus[i]? = some eu) (hco : eu.co = .none)
    (hq : s.executeBus.queue = x :: q) :
    RelOx app a0 c { s with executeBus := { s.executeBus with queue := q }, eus := s.eus.set i { eu with runner := some x, co := .prepare } } (nt + 1) (some i) ∧
    (s.eus.map heldAt)[i]? = some none ∧ app.instrs[nt]? = some x.instr := by
  have hsm := hp.small
  have hrun := runners_cons s x q hq
  have hxin : s.executeBus.inside = x :: ({ s.executeBus with queue := q } : BufferedBus Runner).inside := by
    simp only [BufferedBus.inside, hq, List.cons_append]
  have hchain := h.front.chain
  rw [hrun] at hchain
  have hntl : nt < app.instrs.length := idx_lt app nt _ hchain.1.2
  have hrl : 1 ≤ (runners s).length := by rw [hrun]; simp only [List.length_cons]; omega
  have hnrt : NoRetBefore app nt := h.reti.1.mono (by omega)
  obtain ⟨St1, hst1⟩ := seq_total app a0 hp (nt + 1) (by omega) hnrt
  have hback := h.back
  rw [hxin] at hback
  have hH : (s.eus.map heldAt)[i]? = some none := by
    rw [List.getElem?_map, hget]; simp only [Option.map_some, heldAt, hco]
  have hT : RelOx app a0 c { s with executeBus := { s.executeBus with queue := q }, eus := s.eus.set i { eu with runner := some x, co := .prepare } } (nt + 1) (some i) := by
    refine RelOx.step (h.open_ i) (eu' := { eu with runner := some x, co := .prepare }) ⟨rfl, rfl, rfl, rfl, rfl⟩ ?_ ?_ ?_ ?_ h.l3
      (fun p hp' => Or.inl hp')
    · have hlen : (runners s).length = (runners { s with executeBus := { s.executeBus with queue := q } }).length + 1 := by
        rw [hrun]; simp only [List.length_cons]
      refine ⟨hchain.2, ?_, ?_, h.front.clean, h.front.dlen, h.front.duOk⟩
      · have := h.front.inRange; rw [hlen] at this
        simp only [runners] at this ⊢; omega
      · have h1 := h.front.pcs
        rw [hlen] at h1
        have e1 : nt + 1 + (runners { s with executeBus := { s.executeBus with queue := q } }).length =
            nt + ((runners { s with executeBus := { s.executeBus with queue := q } }).length + 1) := by omega
        simp only [runners] at h1 e1 ⊢
        rw [e1]; exact h1
    · intro r hr'
      exact h.rseq r (by rw [hrun]; exact List.mem_cons_of_mem _ hr')
    · have hlen : (runners s).length = (runners { s with executeBus := { s.executeBus with queue := q } }).length + 1 := by
        rw [hrun]; simp only [List.length_cons]
      obtain ⟨g1, g2⟩ := h.reti
      rw [hlen] at g1 g2
      exact ⟨g1.mono (by simp only [runners]; omega), fun hd => (g2 hd).mono (by simp only [runners]; omega)⟩
    · have : heldAt ({ eu with runner := some x, co := .prepare } : ExecUnit) = some x := rfl
      rw [this]
      exact hback.take hp i hH St1 hst1 hnrt
  exact ⟨hT, hH, hchain.1.2⟩

/-- **one cycle of an execute unit** keeps the relation; it may take the next issued instruction -/
theorem euCycle_simO (app : App) (a0 : Arch) (hp : ProgLd app a0) (c : Word) (s s' : State) (nt i : Nat) (out : EuOut)
    (h : RelO app a0 c s nt) (hi : i < s.eus.length) (hr : euCycle app s i = .ok (s', out)) :
    ∃ nt', nt ≤ nt' ∧ EuPost app a0 c (s.eus.map heldAt) nt s.mode s' nt' out := by
  have hsm := hp.small
  obtain ⟨eu, hget⟩ := get_lt s.eus i hi
  have hself := state_set_self s i eu hget
  have hH0 : (s.eus.set i eu).map heldAt = s.eus.map heldAt := by rw [set_self _ _ _ hget]
  have hx : RelOx app a0 c { s with eus := s.eus.set i eu } nt (some i) := by rw [hself]; exact h.open_ i
  have hu := h.units i eu hget (by simp)
  unfold euCycle at hr
  simp only [hget] at hr
  cases hco : eu.co with
  | none =>
    simp only [hco] at hr
    cases hq : s.executeBus.queue with
    | nil =>
      simp only [get_none _ hq, pure, Except.pure, Except.ok.injEq, Prod.mk.injEq] at hr
      obtain ⟨rfl, rfl⟩ := hr
      exact ⟨nt, Nat.le_refl _, h, rfl, Or.inl ⟨rfl, id⟩⟩
    | cons x q =>
      simp only [get_some _ x q hq] at hr
      -- take `x`
      obtain ⟨hT, hH, hxi⟩ := take_relO app a0 hp c s nt i eu x q h hi hget hco hq
      obtain ⟨e1, em, e2⟩ := coPrepare_simO app a0 hp c { s with executeBus := { s.executeBus with queue := q } } s' (nt + 1) i
        { eu with runner := some x, co := .prepare } { eu with runner := some x, co := .prepare } x out hT hi rfl rfl rfl hr
      refine ⟨nt + 1, Nat.le_succ _, e1, em, ?_⟩
      rcases e2 with ⟨e3, e4⟩ | e3
      · refine Or.inl ⟨e3, fun hrp => e4 ?_⟩
        have := hrp.take i x hH hxi
        rw [map_heldAt_set]
        exact this
      · exact Or.inr e3
  | prepare =>
    simp only [hco] at hr
    unfold EuOk at hu
    simp only [hco] at hu
    obtain ⟨x, hxr⟩ := hu
    simp only [hxr] at hr
    have e := coPrepare_simO app a0 hp c s s' nt i eu eu x out hx hi (by simp only [heldAt, hco, hxr]) hco hxr hr
    rw [hH0] at e
    exact ⟨nt, Nat.le_refl _, e⟩
  | l3wait rem =>
    simp only [hco] at hr
    unfold EuOk at hu
    simp only [hco] at hu
    obtain ⟨x, j, aj, hxr, hok, haj, hby⟩ := hu
    have hheld : heldAt eu = some x := by simp only [heldAt, hco, hxr]
    split at hr
    · simp only [setEu, pure, Except.pure, Except.ok.injEq, Prod.mk.injEq] at hr
      obtain ⟨rfl, rfl⟩ := hr
      refine ⟨nt, Nat.le_refl _, ?_, rfl, Or.inl ⟨rfl, fun hrp => ?_⟩⟩
      · refine RelOx.close (i := i) (RelOx.step (h.open_ i) (eu' := { eu with co := .l3wait (rem - 1) }) ⟨rfl, rfl, rfl, rfl, rfl⟩
          ⟨h.front.chain, h.front.inRange, h.front.pcs, h.front.clean, h.front.dlen, h.front.duOk⟩ h.rseq (h.reti.congr rfl rfl) ?_ h.l3
          (fun p hp' => Or.inl hp')) { eu with co := .l3wait (rem - 1) } (set_slot _ hi) ?_ ?_
        · have : heldAt ({ eu with co := .l3wait (rem - 1) } : ExecUnit) = some x := by simp only [heldAt, hxr]
          rw [this, set_self _ _ _ (held_slot hget hheld)]; exact h.back
        · unfold EuOk; simp only; exact ⟨x, j, aj, hxr, hok, haj, hby⟩
        · intro b hb; simp only [mwBase] at hb; cases hb
      · show RetPend app ((s.eus.set i { eu with co := .l3wait (rem - 1) }).map heldAt) nt
        rw [map_heldAt_set, (by simp only [heldAt, hxr] : heldAt ({ eu with co := .l3wait (rem - 1) } : ExecUnit) = some x),
          set_self _ _ _ (held_slot hget hheld)]
        exact hrp
    · simp only [hxr] at hr
      have e := coRun_simO app a0 hp c s s' nt i eu eu x out hx hi hheld (fun j' aj' hok' haj' _ => by
        have := ROk.idx_eq hsm hok' hok
        subst this
        rw [haj] at haj'; simp only [Option.some.injEq] at haj'; subst haj'
        exact hby) hr
      rw [hH0] at e
      exact ⟨nt, Nat.le_refl _, e⟩
  | memwait rem addrs =>
    simp only [hco] at hr
    unfold EuOk at hu
    simp only [hco] at hu
    obtain ⟨x, j, aj, a1, as, hxr, hok, haj, haddr, hcons, p, hpm, hpb⟩ := hu
    have hheld : heldAt eu = some x := by simp only [heldAt, hco, hxr]
    split at hr
    · simp only [setEu, pure, Except.pure, Except.ok.injEq, Prod.mk.injEq] at hr
      obtain ⟨rfl, rfl⟩ := hr
      refine ⟨nt, Nat.le_refl _, ?_, rfl, Or.inl ⟨rfl, fun hrp => ?_⟩⟩
      · refine RelOx.close (i := i) (RelOx.step (h.open_ i) (eu' := { eu with co := .memwait (rem - 1) addrs }) ⟨rfl, rfl, rfl, rfl, rfl⟩
          ⟨h.front.chain, h.front.inRange, h.front.pcs, h.front.clean, h.front.dlen, h.front.duOk⟩ h.rseq (h.reti.congr rfl rfl) ?_ h.l3
          (fun p hp' => Or.inl hp')) { eu with co := .memwait (rem - 1) addrs } (set_slot _ hi) ?_ ?_
        · have : heldAt ({ eu with co := .memwait (rem - 1) addrs } : ExecUnit) = some x := by simp only [heldAt, hxr]
          rw [this, set_self _ _ _ (held_slot hget hheld)]; exact h.back
        · unfold EuOk; simp only; exact ⟨x, j, aj, a1, as, hxr, hok, haj, haddr, hcons, p, hpm, hpb⟩
        · intro b hb k euk hki hk
          have hk' : s.eus[k]? = some euk := by
            have hk2 : (s.eus.set i { eu with co := .memwait (rem - 1) addrs })[k]? = some euk := hk
            rw [List.getElem?_set_ne (Ne.symm hki)] at hk2; exact hk2
          have hb' : mwBase eu = some b := by
            simp only [mwBase, hco, hcons] at hb ⊢; exact hb
          exact h.mwd i k eu euk b (Ne.symm hki) (by simp) (by simp) hget hk' hb'
      · show RetPend app ((s.eus.set i { eu with co := .memwait (rem - 1) addrs }).map heldAt) nt
        rw [map_heldAt_set, (by simp only [heldAt, hxr] : heldAt ({ eu with co := .memwait (rem - 1) addrs } : ExecUnit) = some x),
          set_self _ _ _ (held_slot hget hheld)]
        exact hrp
    · subst hcons
      simp only [hxr, bind, Except.bind] at hr
      have hjnt : j < nt := by
        obtain ⟨j', hj', hok'⟩ := h.back.hidx x (List.mem_of_getElem? (held_slot hget hheld))
        have := ROk.idx_eq hsm hok' hok
        omega
      have hnrj : NoRetBefore app j := h.reti.1.mono (by omega)
      obtain ⟨f1, f2, f3, f4, f5⟩ := seq_facts app a0 hp j aj haj (hnrj.mono (by omega))
      have hlo := hp.loads j aj haj hnrj j x.instr f1 hok.1.2
      rw [f3, ← haddr] at hlo
      obtain ⟨line, u1, mem1, bytes, u2, g1, g2, g3, g6, h1⟩ := fill_relO app a0 c s nt i eu x rem a1 as h hget hco hxr hlo ⟨p, hpm, hpb⟩
      simp only [g1, g2, g3] at hr
      have heq : ({ co := EuCo.memwait rem (a1 :: as), memory := bytes, runner := some x } : ExecUnit) = { eu with memory := bytes } := by
        cases eu; simp only at hco hxr; subst hco; subst hxr; rfl
      rw [heq] at hr
      have e : EuPost app a0 c ((s.eus.set i eu).map heldAt) nt s.mode s' nt out := coRun_simO app a0 hp c { s with mmu := u2, pendings := removePending (base 64 a1.toInt) s.pendings, ctx := { s.ctx with Memory := mem1 } } s' nt i eu { eu with memory := bytes } x out h1 hi hheld
        (fun j' aj' hok' haj' _ => by
          have := ROk.idx_eq hsm hok' hok
          subst this
          rw [haj] at haj'; simp only [Option.some.injEq] at haj'; subst haj'
          rw [← haddr]; exact g6) hr
      rw [hH0] at e
      exact ⟨nt, Nat.le_refl _, e⟩

/-! ### the number of units does not change -/

theorem coRun_len (app : App) (s s' : State) (i : Nat) (eu : ExecUnit) (x : Runner) (out : EuOut)
    (h : coRun app s i eu x = .ok (s', out)) : s'.eus.length = s.eus.length := by
  unfold coRun at h
  simp only [setEu] at h
  split at h
  · cases h
  · simp only [pure, Except.pure, Except.ok.injEq, Prod.mk.injEq] at h; rw [← h.1]; simp only [List.length_set]
  · split at h
    · simp only [pure, Except.pure, Except.ok.injEq, Prod.mk.injEq] at h; rw [← h.1]; simp only [List.length_set]
    · simp only [bind, Except.bind] at h
      split at h
      · cases h
      · split at h
        · split at h
          · cases h
          · simp only [pure, Except.pure, Except.ok.injEq, Prod.mk.injEq] at h; rw [← h.1]; simp only [List.length_set]
        · split at h
          · simp only [pure, Except.pure, Except.ok.injEq, Prod.mk.injEq] at h
            rw [← h.1]; split <;> simp only [List.length_set]
          · simp only [pure, Except.pure, Except.ok.injEq, Prod.mk.injEq] at h
            rw [← h.1]; split <;> simp only [List.length_set]

theorem coPrepareRun_len (app : App) (s s' : State) (i : Nat) (eu : ExecUnit) (x : Runner) (out : EuOut)
    (h : coPrepareRun app s i eu x = .ok (s', out)) : s'.eus.length = s.eus.length := by
  unfold coPrepareRun at h
  split at h
  · simp only [setEu, pure, Except.pure, Except.ok.injEq, Prod.mk.injEq] at h; rw [← h.1]; simp only [List.length_set]
  · simp only [bind, Except.bind] at h
    split at h
    · cases hg : getFromL3 s.mmu s.pendings (x.instr.memoryRead s.ctx 0#32) with
      | error e => simp only [hg] at h; cases h
      | ok v =>
        obtain ⟨res, u, pd⟩ := v
        simp only [hg] at h
        cases res <;>
          (simp only [setEu, pure, Except.pure, Except.ok.injEq, Prod.mk.injEq] at h; rw [← h.1]; simp only [List.length_set])
    · have := coRun_len app _ s' i eu x out h
      exact this

set_option maxHeartbeats 1000000 in
theorem euCycle_len (app : App) (s s' : State) (i : Nat) (out : EuOut) (h : euCycle app s i = .ok (s', out)) :
    s'.eus.length = s.eus.length := by
  unfold euCycle at h
  cases hg : s.eus[i]? with
  | none => simp only [hg] at h; cases h
  | some eu =>
    simp only [hg] at h
    cases hco : eu.co with
    | none =>
      simp only [hco] at h
      cases hq : s.executeBus.queue with
      | nil => simp only [get_none _ hq, pure, Except.pure, Except.ok.injEq, Prod.mk.injEq] at h; rw [← h.1]
      | cons x q =>
        simp only [get_some _ x q hq] at h
        have := coPrepareRun_len app _ s' i _ x out h
        exact this
    | prepare =>
      simp only [hco] at h
      cases hr : eu.runner with
      | none => simp only [hr] at h; cases h
      | some r => simp only [hr] at h; exact coPrepareRun_len app s s' i eu r out h
    | l3wait rem =>
      simp only [hco] at h
      split at h
      · simp only [setEu, pure, Except.pure, Except.ok.injEq, Prod.mk.injEq] at h; rw [← h.1]; simp only [List.length_set]
      · cases hr : eu.runner with
        | none => simp only [hr] at h; cases h
        | some r => simp only [hr] at h; exact coRun_len app s s' i eu r out h
    | memwait rem addrs =>
      simp only [hco] at h
      split at h
      · simp only [setEu, pure, Except.pure, Except.ok.injEq, Prod.mk.injEq] at h; rw [← h.1]; simp only [List.length_set]
      · cases hr : eu.runner with
        | none => simp only [hr] at h; cases h
        | some r =>
          cases addrs with
          | nil => simp only [hr] at h; cases h
          | cons a1 as =>
            simp only [hr, bind, Except.bind] at h
            cases hf : Model.Mmu.fetchCacheLine cfg s.ctx.Memory a1 with
            | error e => simp only [hf] at h; cases h
            | ok line =>
              simp only [hf] at h
              cases hp : pushLineToL3 s.mmu s.pendings s.ctx.Memory a1 line with
              | error e => simp only [hp] at h; cases h
              | ok v =>
                obtain ⟨u, pd, mem⟩ := v
                simp only [hp] at h
                cases hl : getFromL3 u pd (a1 :: as) with
                | error e => simp only [hl] at h; cases h
                | ok w =>
                  obtain ⟨res, u2, pd2⟩ := w
                  simp only [hl] at h
                  cases res with
                  | hit m =>
                    simp only at h
                    have := coRun_len app _ s' i _ r out h
                    exact this
                  | pending => simp only at h; cases h
                  | miss => simp only at h; cases h

/-- the loop over the execute units -/
theorem eusCycle_simO (app : App) (a0 : Arch) (hp : ProgLd app a0) (c : Word) : ∀ (n i : Nat) (s s' : State) (acc acc' : EuAcc) (nt : Nat),
    i + n = s.eus.length → RelO app a0 c s nt →
    (acc.ret = true → RetAt app nt) → (acc.ret = false → RetPend app (s.eus.map heldAt) nt) →
    eusCycle app n i s acc = .ok (s', acc') →
    acc'.err = acc.err ∧ acc'.flush = acc.flush ∧ s'.mode = s.mode ∧ ∃ nt', nt ≤ nt' ∧ RelO app a0 c s' nt' ∧
      (acc'.ret = true → RetAt app nt') ∧ (acc'.ret = false → RetPend app (s'.eus.map heldAt) nt') := by
  intro n
  induction n with
  | zero =>
    intro i s s' acc acc' nt _ h ha hb hr
    simp only [eusCycle, pure, Except.pure, Except.ok.injEq, Prod.mk.injEq] at hr
    obtain ⟨rfl, rfl⟩ := hr
    exact ⟨rfl, rfl, rfl, nt, Nat.le_refl _, h, ha, hb⟩
  | succ n ih =>
    intro i s s' acc acc' nt hlen h ha hb hr
    simp only [eusCycle, bind, Except.bind] at hr
    split at hr
    · cases hr
    · rename_i v hv
      obtain ⟨s1, out⟩ := v
      obtain ⟨nt1, hle1, h1, hm1, hpost⟩ := euCycle_simO app a0 hp c s s1 nt i out h (by omega) hv
      have hl := euCycle_len app s s1 i _ hv
      rcases hpost with ⟨rfl, hrp⟩ | ⟨rfl, hra⟩
      · simp only at hr
        obtain ⟨e1, e2, em, nt2, hle2, h2, e3, e4⟩ := ih (i + 1) s1 s' acc acc' nt1 (by omega) h1
          (fun hret => by rw [(ha hret).stable h1.reti hle1]; exact ha hret) (fun hret => hrp (hb hret)) hr
        exact ⟨e1, e2, em.trans hm1, nt2, by omega, h2, e3, e4⟩
      · simp only at hr
        obtain ⟨e1, e2, em, nt2, hle2, h2, e3, e4⟩ := ih (i + 1) s1 s' { acc with ret := true } acc' nt1 (by omega) h1
          (fun _ => hra) (fun hret => by simp at hret) hr
        exact ⟨e1, e2, em.trans hm1, nt2, by omega, h2, e3, e4⟩

/-- the loop over the busy execute units while the machine drains after a `ret` -/
theorem eusBusy_simO (app : App) (a0 : Arch) (hp : ProgLd app a0) (c : Word) (nt : Nat) (hra : RetAt app nt) :
    ∀ (n i : Nat) (s s' : State) (e : Bool),
    i + n = s.eus.length → RelO app a0 c s nt → eusCycleBusy app n i s = .ok (s', e) →
    e = false ∧ RelO app a0 c s' nt ∧ s'.mode = s.mode := by
  intro n
  induction n with
  | zero =>
    intro i s s' e _ h hr
    simp only [eusCycleBusy, pure, Except.pure, Except.ok.injEq, Prod.mk.injEq] at hr
    obtain ⟨rfl, rfl⟩ := hr
    exact ⟨rfl, h, rfl⟩
  | succ n ih =>
    intro i s s' e hlen h hr
    obtain ⟨eu, hget⟩ := get_lt s.eus i (by omega)
    simp only [eusCycleBusy, hget, bind, Except.bind] at hr
    split at hr
    · exact ih (i + 1) s s' e (by omega) h hr
    · split at hr
      · cases hr
      · rename_i v hv
        obtain ⟨s1, out⟩ := v
        obtain ⟨nt1, hle, h1, hm1, hpost⟩ := euCycle_simO app a0 hp c s s1 _ i out h (by omega) hv
        have hl := euCycle_len app s s1 i _ hv
        have hnt : nt1 = nt := hra.stable h1.reti hle
        subst hnt
        rcases hpost with ⟨rfl, _⟩ | ⟨rfl, _⟩
        · simp only at hr
          obtain ⟨e1, e2, e3⟩ := ih (i + 1) s1 s' e (by omega) h1 hr
          exact ⟨e1, e2, e3.trans hm1⟩
        · simp only at hr
          obtain ⟨e1, e2, e3⟩ := ih (i + 1) s1 s' e (by omega) h1 hr
          exact ⟨e1, e2, e3.trans hm1⟩

/-! ### the write units and the whole tick -/

theorem wuCycle_simO (app : App) (a0 : Arch) (hp : ProgLd app a0) (c : Word) (s s' : State) (nt j : Nat) (hj : j < s.wus.length)
    (h : RelO app a0 c s nt) (hr : wuCycle s j (BitVec.ofInt 32 (-1)) = .ok s') :
    RelO app a0 c s' nt ∧ s'.wus.length = s.wus.length ∧ s'.eus = s.eus ∧ s'.mode = s.mode := by
  obtain ⟨wu, hget⟩ := get_lt s.wus j hj
  have hco := h.wus wu (List.mem_of_getElem? hget)
  unfold wuCycle at hr
  simp only [hget, hco] at hr
  cases hq : s.writeBus.queue with
  | nil =>
    simp only [get_none _ hq, pure, Except.pure, Except.ok.injEq] at hr
    subst hr
    exact ⟨h, rfl, rfl, rfl⟩
  | cons ec q =>
    simp only [get_some _ ec q hq, bne_self_eq_false, Bool.false_and, Bool.false_eq_true, if_false] at hr
    have hin : s.writeBus.inside = ec :: ({ s.writeBus with queue := q } : BufferedBus ExecCtx).inside := by
      simp only [BufferedBus.inside, hq, List.cons_append]
    have hb := h.back
    rw [hin] at hb
    have hwb := hb.writeback hp (h.reti.1.mono (by omega))
    -- the result is not a store
    have hnm : ec.execution.MemoryChange = false := by
      obtain ⟨j', x, e, aj, bytes, _, hok, rfl, _, _, hrun⟩ := hb.widx ec List.mem_cons_self
      rcases ldr_cases app hp.cls j' x.instr hok.1.2 with hld | hisret
      · exact (ld_run x.instr hld aj.ctx app.labels aj.pc bytes 0#32 e hrun).1
      · obtain ⟨e', he', _, _, hm'⟩ := (ret_facts x.instr hisret).2.2.2.2.2 aj.ctx app.labels aj.pc bytes 0#32
        rw [hrun] at he'; simp only [Except.ok.injEq] at he'; subst he'; exact hm'
    have key : ∀ ctx' : Model.Context, ctx' = deletePendingRegisters
        (if ec.execution.RegisterChange then Model.Seq.writeRegister s.ctx ec.execution else s.ctx) ec.readRegisters ec.writeRegisters →
        RelO app a0 c { s with writeBus := { s.writeBus with queue := q }, ctx := ctx' } nt := by
      intro ctx' hc'
      subst hc'
      have hmem : (deletePendingRegisters (if ec.execution.RegisterChange then Model.Seq.writeRegister s.ctx ec.execution else s.ctx)
          ec.readRegisters ec.writeRegisters).Memory = s.ctx.Memory := by
        simp only [deletePendingRegisters]; split <;> rfl
      have hsid : (deletePendingRegisters (if ec.execution.RegisterChange then Model.Seq.writeRegister s.ctx ec.execution else s.ctx)
          ec.readRegisters ec.writeRegisters).sequenceID = s.ctx.sequenceID := by
        simp only [deletePendingRegisters]; split <;> rfl
      exact ⟨⟨h.front.chain, h.front.inRange, h.front.pcs, h.front.clean, h.front.dlen, h.front.duOk⟩, h.rseq,
        by rw [hsid]; exact h.sid, hwb, by (show L3Ok s.mmu s.pendings _ _); rw [hmem]; exact h.l3, h.units, h.mwd, h.wus,
        h.pend, h.mode, h.reti.congr rfl rfl⟩
    split at hr
    · rename_i hrc
      simp only [pure, Except.pure, Except.ok.injEq] at hr
      subst hr
      exact ⟨key _ (by simp only [hrc, if_true]), rfl, rfl, rfl⟩
    · rename_i hrc
      simp only [hnm, Bool.false_eq_true, if_false, pure, Except.pure, Except.ok.injEq] at hr
      subst hr
      exact ⟨key _ (by simp only [hrc, Bool.false_eq_true, if_false]), rfl, rfl, rfl⟩

theorem wus_simO (app : App) (a0 : Arch) (hp : ProgLd app a0) (c : Word) (nt : Nat) : ∀ (n i : Nat) (s s' : State), i + n = s.wus.length →
    RelO app a0 c s nt → (List.range' i n).foldlM (fun s j => wuCycle s j (BitVec.ofInt 32 (-1))) s = .ok s' →
    RelO app a0 c s' nt ∧ s'.eus = s.eus ∧ s'.mode = s.mode := by
  intro n
  induction n with
  | zero =>
    intro i s s' _ h hr
    simp only [List.range'_zero, List.foldlM, pure, Except.pure, Except.ok.injEq] at hr
    subst hr; exact ⟨h, rfl, rfl⟩
  | succ n ih =>
    intro i s s' hlen h hr
    simp only [List.range'_succ, List.foldlM, bind, Except.bind] at hr
    split at hr
    · cases hr
    · rename_i s1 h1
      obtain ⟨r1, l1, e1, m1⟩ := wuCycle_simO app a0 hp c s s1 nt i (by omega) h h1
      obtain ⟨r2, e2, m2⟩ := ih (i + 1) s1 s' (by omega) r1 hr
      exact ⟨r2, e2.trans e1, m2.trans m1⟩

theorem wusCycle_simO (app : App) (a0 : Arch) (hp : ProgLd app a0) (c : Word) (nt : Nat) (s s' : State) (h : RelO app a0 c s nt)
    (hr : wusCycle s = .ok s') : RelO app a0 c s' nt ∧ s'.eus = s.eus ∧ s'.mode = s.mode := by
  unfold wusCycle at hr
  rw [List.range_eq_range'] at hr
  exact wus_simO app a0 hp c nt s.wus.length 0 s s' (by omega) h hr

/-- between two ticks: in the normal loop no `ret` has been executed; in the drain loops after a `ret` every instruction has
been taken off the execute bus (and in the second one the execute units are empty) -/
def ModeOk (app : App) (s : State) (nt : Nat) : Prop :=
  (s.mode = .normal ∧ RetPend app (s.eus.map heldAt) nt) ∨
  (s.mode = .retA ∧ RetAt app nt) ∨
  (s.mode = .retB ∧ RetAt app nt ∧ ∀ eu ∈ s.eus, eu.co = .none)

/-- the registers and the memory at the end of the run are those of the unpipelined run after `nt` steps -/
def FinalO (app : App) (a0 : Arch) (nt : Nat) (s' : State) : Prop :=
  ∃ aN, seqL app nt a0 = some aN ∧
    (∀ r, GoMap.get1 s'.ctx.Registers r = GoMap.get1 aN.ctx.Registers r) ∧ s'.ctx.Memory = a0.ctx.Memory

/-- what a tick leaves: the relation, or the end of the run with the registers and the memory of the unpipelined run —
"past the end" only for a program without `ret`, with `ret` only for a program with one -/
def TickPostO (app : App) (a0 : Arch) (c : Word) (s' : State) : Event → Prop
  | .running => ∃ nt, RelO app a0 c s' nt ∧ ModeOk app s' nt
  | .done .offEnd => FinalO app a0 app.instrs.length s' ∧ ¬ HasRet app
  | .done .ret => ∃ nt, FinalO app a0 nt s' ∧ RetAt app nt ∧ NoRetBefore app (nt - 1)
  | .done (.panic _) => True
  | .done .err => False

theorem RelOx.withMode {app : App} {a0 : Arch} {c : Word} {s : State} {nt : Nat} {ex : Option Nat} (h : RelOx app a0 c s nt ex)
    (md : Mode) (hmd : md = .normal ∨ md = .retA ∨ md = .retB) : RelOx app a0 c { s with mode := md } nt ex :=
  ⟨⟨h.front.chain, h.front.inRange, h.front.pcs, h.front.clean, h.front.dlen, h.front.duOk⟩, h.rseq, h.sid, h.back, h.l3,
    h.units, h.mwd, h.wus, h.pend, hmd, h.reti.congr rfl rfl⟩

/-- `cycle++; writeBus.Connect(cycle)` -/
theorem RelOx.tickW {app : App} {a0 : Arch} {c : Word} {s : State} {nt : Nat} (h : RelO app a0 c s nt) (k1 k2 : Int) :
    RelO app a0 c { s with cycles := k1, writeBus := s.writeBus.connect k2 } nt := by
  refine ⟨⟨h.front.chain, h.front.inRange, h.front.pcs, h.front.clean, h.front.dlen, h.front.duOk⟩, h.rseq, h.sid, ?_, h.l3,
    h.units, h.mwd, h.wus, h.pend, h.mode, h.reti.congr rfl rfl⟩
  show BackO app a0 c s.ctx s.executeBus.inside (s.eus.map heldAt) (s.writeBus.connect k2).inside nt
  rw [inside_connect]; exact h.back

/-- **the end of the run**: nothing is in flight, the last level of the cache holds no modified line -/
theorem finish_simO (app : App) (a0 : Arch) (hp : ProgLd app a0) (c : Word) (s s' : State) (ev : Event) (hk : Halt)
    (nt : Nat) (h : RelO app a0 c s nt) (heu : ∀ eu ∈ s.eus, eu.co = .none) (hwb : s.writeBus.isEmpty = true)
    (hr : finish s hk = .ok (s', ev)) : ev = .done hk ∧ FinalO app a0 nt s' := by
  unfold finish at hr
  rw [flush_ok (cfg := Model.Mvp60.cfg) (L := 64) (n := 16) cfgD (by decide) h.l3.wf h.l3.coh] at hr
  simp only [bind, Except.bind, pure, Except.pure, Except.ok.injEq, Prod.mk.injEq] at hr
  obtain ⟨rfl, rfl⟩ := hr
  obtain ⟨St, hst⟩ := h.back.st
  refine ⟨rfl, St, hst, ?_, rfl⟩
  intro r
  by_cases hr0 : r = Gen.Reg.Zero
  · subst hr0
    show GoMap.get1 s.ctx.Registers Gen.Reg.Zero = _
    rw [h.back.zr, seq_zero app a0 hp _ St hst (h.reti.1.mono (by omega))]
  · show GoMap.get1 s.ctx.Registers r = _
    apply h.back.regsA St hst r hr0
    · intro x hx
      exfalso
      simp only [List.mem_map] at hx
      obtain ⟨eu, heum, hheld⟩ := hx
      have := heu eu heum
      simp only [heldAt, this] at hheld
      cases hheld
    · intro ec hec
      rw [inside_nil_of_isEmpty _ hwb] at hec; cases hec

/-- the second drain loop after a `ret`, at its condition -/
theorem goRetB_simO (app : App) (a0 : Arch) (hp : ProgLd app a0) (c : Word) (s s' : State) (ev : Event)
    (nt : Nat) (h : RelO app a0 c s nt) (hhas : RetAt app nt) (heu : ∀ eu ∈ s.eus, eu.co = .none)
    (hr : goRetB s = .ok (s', ev)) : TickPostO app a0 c s' ev := by
  unfold goRetB at hr
  split at hr
  · simp only [pure, Except.pure, Except.ok.injEq, Prod.mk.injEq] at hr
    obtain ⟨rfl, rfl⟩ := hr
    exact ⟨_, h.withMode .retB (Or.inr (Or.inr rfl)), Or.inr (Or.inr ⟨rfl, hhas, heu⟩)⟩
  · rename_i hc
    simp only [Bool.or_eq_true, Bool.not_eq_true', not_or, Bool.not_eq_false] at hc
    obtain ⟨rfl, hf⟩ := finish_simO app a0 hp c s s' ev .ret nt h heu hc.2 hr
    exact ⟨nt, hf, hhas, h.reti.1.mono (by omega)⟩

/-- the first drain loop after a `ret`, at its `busy` test -/
theorem goRetA_simO (app : App) (a0 : Arch) (hp : ProgLd app a0) (c : Word) (s s' : State) (ev : Event)
    (nt : Nat) (h : RelO app a0 c s nt) (hhas : RetAt app nt) (hr : goRetA s = .ok (s', ev)) : TickPostO app a0 c s' ev := by
  unfold goRetA at hr
  split at hr
  · simp only [pure, Except.pure, Except.ok.injEq, Prod.mk.injEq] at hr
    obtain ⟨rfl, rfl⟩ := hr
    exact ⟨_, h.withMode .retA (Or.inr (Or.inl rfl)), Or.inr (Or.inl ⟨rfl, hhas⟩)⟩
  · rename_i hany
    have heu : ∀ eu ∈ s.eus, eu.co = .none := by
      intro eu he
      have h1 : ¬ (s.eus.any (fun eu => !eu.isEmpty) = true) := hany
      simp only [List.any_eq_true, not_exists, not_and, Bool.not_eq_true', Bool.not_eq_false] at h1
      have := h1 eu he
      simpa [ExecUnit.isEmpty] using this
    exact goRetB_simO app a0 hp c _ s' ev nt (RelOx.tickW h (s.cycles + 1) (s.cycles + 1)) hhas heu hr

theorem cycleM_retA_eq (app : App) (s : State) (hm : s.mode = .retA) :
    cycleM app s = (do
      let s := { s with cycles := s.cycles + 1 }
      let s := { s with writeBus := s.writeBus.connect s.cycles }
      let (s, err) ← eusCycleBusy app s.eus.length 0 s
      if err then pure (s, .done .err)
      else do
        let s ← wusCycle s
        goRetA s) := by
  unfold cycleM
  split
  · rename_i hh; rw [hm] at hh; cases hh
  · rfl
  · rename_i hh; rw [hm] at hh; cases hh
  · rename_i hh; rw [hm] at hh; cases hh

theorem fetchCycle_mode (app : App) (s s2 : State) (hr : fetchCycle app s = .ok s2) : s2.mode = s.mode := by
  unfold fetchCycle at hr
  simp only [bind, Except.bind] at hr
  split at hr
  · cases hr
  · simp only [pure, Except.pure, Except.ok.injEq] at hr; subst hr; rfl

theorem decodeCycle_keep (app : App) (s s3 : State) (hr : decodeCycle app s = .ok s3) : s3.eus = s.eus ∧ s3.mode = s.mode := by
  unfold decodeCycle at hr
  simp only [bind, Except.bind] at hr
  split at hr
  · cases hr
  · simp only [pure, Except.pure, Except.ok.injEq] at hr; subst hr; exact ⟨rfl, rfl⟩

/-- **one tick of MVP-6.0 on a straight-line program with loads (and a final `ret`) keeps the relation or ends the run correctly** -/
theorem cycleM_simO (app : App) (a0 : Arch) (hp : ProgLd app a0) (c : Word) (s s' : State) (nt : Nat) (ev : Event)
    (h : RelO app a0 c s nt) (hmo : ModeOk app s nt) (hr : cycleM app s = .ok (s', ev)) : TickPostO app a0 c s' ev := by
  rcases hmo with ⟨hmode, hrp⟩ | ⟨hmode, hhas⟩ | ⟨hmode, hhas, heu⟩
  · rw [cycleM_normal_eq app s hmode] at hr
    simp only [bind, Except.bind] at hr
    have r1 := connected_relO h
    split at hr
    · cases hr
    · rename_i s2 h2
      have r2 := fetch_relO hp.small r1 h2
      have k2e : s2.eus = s.eus := (fetchCycle_frame app _ s2 h2).2.2.2.2.1
      have k2m : s2.mode = s.mode := fetchCycle_mode app (connected s) s2 h2
      split at hr
      · cases hr
      · rename_i s3 h3
        have r3 := decode_relO hp r2 h3
        obtain ⟨k3e, k3m⟩ := decodeCycle_keep app s2 s3 h3
        have r4 := control_relO hp r3
        obtain ⟨_, _, _, _, fr, _⟩ := controlCycle_spec s3 r3.pend
        have hrp4 : RetPend app ((controlCycle s3).eus.map heldAt) nt := by rw [fr.eus, k3e, k2e]; exact hrp
        have hm4 : (controlCycle s3).mode = .normal := by rw [fr.mode, k3m, k2m]; exact hmode
        split at hr
        · cases hr
        · rename_i v hv
          obtain ⟨s5, acc⟩ := v
          simp only at hr
          obtain ⟨eerr, efl, hm5, nt5, _, r5, hA, hB⟩ := eusCycle_simO app a0 hp c _ 0 _ s5 {} acc nt (by omega) r4
            (fun hc => by simp at hc) (fun _ => hrp4) hv
          have eerr' : acc.err = false := eerr
          have efl' : acc.flush = false := efl
          simp only [afterEus, eerr', Bool.false_eq_true, if_false, bind, Except.bind] at hr
          split at hr
          · cases hr
          · rename_i s6 h6
            obtain ⟨r6, k6e, k6m⟩ := wusCycle_simO app a0 hp c nt5 s5 s6 r5 h6
            cases hret : acc.ret with
            | true =>
              simp only [hret, if_true] at hr
              exact goRetA_simO app a0 hp c s6 s' ev nt5 r6 (hA hret) hr
            | false =>
              simp only [hret, efl', Bool.false_eq_true, if_false] at hr
              have hrp6 : RetPend app (s6.eus.map heldAt) nt5 := by rw [k6e]; exact hB hret
              split at hr
              · -- everything is empty: the run has fallen off the end
                rename_i hemp
                simp only [isEmpty, Bool.and_eq_true, decide_eq_true_eq] at hemp
                obtain ⟨⟨⟨⟨⟨⟨⟨hcomp, hcu⟩, _⟩, hd⟩, hcb⟩, hxb⟩, hwb⟩, heu⟩ := hemp
                have hrn : runners s6 = [] := by
                  have : s6.cuPendings.items = [] := by
                    simp only [Queue.len] at hcu
                    exact List.length_eq_zero_iff.mp (by omega)
                  simp only [runners, inside_nil_of_isEmpty _ hxb, inside_nil_of_isEmpty _ hcb, this, List.map_nil, List.append_nil]
                have hdn := inside_nil_of_isEmpty _ hd
                obtain ⟨h0, p1, p2, p3, p4, p5, p6, p7⟩ := r6.front.pcs
                rw [hdn] at p2 p7
                rw [hrn] at p3
                simp only [List.length_nil, Nat.add_zero] at p2 p3 p7
                have hin := r6.front.inRange
                rw [hrn] at hin
                simp only [List.length_nil, Nat.add_zero] at hin
                have hge : app.instrs.length ≤ nt5 := by
                  have := p7 hcomp
                  rcases p3 with p3 | p3
                  · omega
                  · exact p3.2
                have hnt : nt5 = app.instrs.length := by omega
                subst hnt
                have heu' : ∀ eu ∈ s6.eus, eu.co = .none := by
                  intro eu he
                  simp only [List.all_eq_true, ExecUnit.isEmpty, beq_iff_eq] at heu
                  exact heu eu he
                obtain ⟨rfl, hf⟩ := finish_simO app a0 hp c s6 s' ev .offEnd _ r6 heu' hwb hr
                refine ⟨hf, ?_⟩
                rintro ⟨k, ins, hk, hisret⟩
                rcases hrp6 k ins hk hisret with h1 | ⟨x, hx, _⟩
                · have := idx_lt app k ins hk; omega
                · simp only [List.mem_map] at hx
                  obtain ⟨eu, heum, hheld⟩ := hx
                  have := heu' eu heum
                  simp only [heldAt, this] at hheld
                  cases hheld
              · simp only [pure, Except.pure, Except.ok.injEq, Prod.mk.injEq] at hr
                obtain ⟨rfl, rfl⟩ := hr
                exact ⟨nt5, r6, Or.inl ⟨by rw [k6m, hm5]; exact hm4, hrp6⟩⟩
  · -- the first drain loop after a `ret`: the busy units go on
    rw [cycleM_retA_eq app s hmode] at hr
    simp only [bind, Except.bind] at hr
    split at hr
    · cases hr
    · rename_i v hv
      obtain ⟨s1, err⟩ := v
      obtain ⟨rfl, r1, _⟩ := eusBusy_simO app a0 hp c nt hhas _ 0 _ s1 err (by simp only [Nat.zero_add])
        (RelOx.tickW h (s.cycles + 1) (s.cycles + 1)) hv
      simp only [Bool.false_eq_true, if_false] at hr
      split at hr
      · cases hr
      · rename_i s2 h2
        obtain ⟨r2, _, _⟩ := wusCycle_simO app a0 hp c _ s1 s2 r1 h2
        exact goRetA_simO app a0 hp c s2 s' ev nt r2 hhas hr
  · -- the second drain loop: the write units
    rw [cycleM_retB_eq app s hmode] at hr
    simp only [bind, Except.bind] at hr
    split at hr
    · cases hr
    · rename_i s1 h1
      obtain ⟨r1, k1e, _⟩ := wusCycle_simO app a0 hp c _ s s1 h h1
      exact goRetB_simO app a0 hp c _ s' ev nt (RelOx.tickW r1 (s1.cycles + 1) (s1.cycles + 1)) hhas
        (by (show ∀ eu ∈ s1.eus, eu.co = .none); rw [k1e]; exact heu) hr

end Proofs.Mvp60Ld

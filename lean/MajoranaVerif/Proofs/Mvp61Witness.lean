/-
  Proofs/Mvp61Witness.lean — what the cycle-accurate model of MVP-6.1 (`Model.Mvp61`, tied to the Go machine on every
  generated case) computes on small programs: kernel evaluations of the model (tick by tick, `Model.Mvp61.run`), next to
  the unpipelined machine (`Model.Seq.runMvp1`) on the same program.  Memory is 64 … 256 bytes of `0x11`.

  * the behaviours recorded in KNOWN_FINDINGS.json for this variant, as proved counterexamples:
    KF-ooo-shadow (`shadow_*`), KF-ooo-mem (`mem_*`), KF-ooo-2branch (`two_*`);
  * MVP-6.0's lost load (KF-ooo-flush-load) does NOT happen here (`drop_*`, `dead_*`);
  * operand forwarding at work (`fwd_*`).
-/
import MajoranaVerif.Model.Mvp61
import MajoranaVerif.Model.SeqMachine
open GoInt

namespace Proofs.Mvp61Witness
open Model.Mvp61

-- `DecidableEq` of the eight-component tuple of `obs` needs more than the default 128 instance-synthesis steps
set_option synthInstance.maxSize 512

def mem11 (n : Nat) : List Byte := List.replicate n 0x11#8
def m11 : List Byte := List.replicate 8 0x11#8
def ctx0 (n : Nat) : Model.Context := { Memory := mem11 n }

/-- what the theorems below look at: how the run ended, the cycle counter, the number of ticks, of executed
instructions and of forwarded operands, two registers and the first eight bytes of memory (one evaluation per theorem) -/
def obs (r : Result) (ra rb : Reg) : Option Model.Seq.Halt × Int × Nat × Nat × Nat × Word × Word × List Byte :=
  (r.halt, r.final.cycles, r.ticks, r.final.executed, r.final.forwarded, r.final.ctx.Registers.get1 ra,
   r.final.ctx.Registers.get1 rb, r.final.ctx.Memory.take 8)

/-- the same for the unpipelined machine -/
def obsSeq (r : Model.Seq.Result) (ra rb : Reg) : Option Model.Seq.Halt × Word × Word × List Byte :=
  (r.halt, r.final.ctx.Registers.get1 ra, r.final.ctx.Registers.get1 rb, r.final.ctx.Memory.take 8)

/-- reading an `obs` equation without evaluating the run again -/
theorem obs_eq {r : Result} {ra rb : Reg} {v : Option Model.Seq.Halt × Int × Nat × Nat × Nat × Word × Word × List Byte}
    (h : obs r ra rb = v) :
    r.halt = v.1 ∧ r.final.cycles = v.2.1 ∧ r.ticks = v.2.2.1 ∧ r.final.executed = v.2.2.2.1 ∧
    r.final.forwarded = v.2.2.2.2.1 ∧ r.final.ctx.Registers.get1 ra = v.2.2.2.2.2.1 ∧
    r.final.ctx.Registers.get1 rb = v.2.2.2.2.2.2.1 ∧ r.final.ctx.Memory.take 8 = v.2.2.2.2.2.2.2 := by
  subst h; exact ⟨rfl, rfl, rfl, rfl, rfl, rfl, rfl, rfl⟩

theorem obsSeq_eq {r : Model.Seq.Result} {ra rb : Reg} {v : Option Model.Seq.Halt × Word × Word × List Byte}
    (h : obsSeq r ra rb = v) :
    r.halt = v.1 ∧ r.final.ctx.Registers.get1 ra = v.2.1 ∧ r.final.ctx.Registers.get1 rb = v.2.2.1 ∧
    r.final.ctx.Memory.take 8 = v.2.2.2 := by
  subst h; exact ⟨rfl, rfl, rfl, rfl⟩

/-! ### KF-ooo-shadow: the shadow of a slow branch is committed

`lw t5, 104(zero); bnez t5, l3; auipc a4, 232414541; l3:` with memory all `0x11`.  The load misses L3 and takes 309
cycles; the branch reads `t5` and waits (one or two units: behind the load; it is then FORWARDED `t5`); with three units
the `auipc` — no register in common with the two — issues to the third unit, runs, and its result is written to `a4` by a
write unit long before the branch is taken.  Nothing takes it back. -/

def shadowApp : Model.Seq.App :=
  { instrs := [.lw_ { rd := 30, offset := 104#32, rs := 0 }, .bnez_ { rs := 30, label := "l3" },
               .auipc_ { rd := 14, imm := BitVec.ofInt 32 232414541 }],
    labels := GoMap.ofList [("l3", 12#32)] }

/-- the unpipelined machine: the branch is taken, `a4 = 0` -/
theorem shadow_seq : obsSeq (Model.Seq.runMvp1 shadowApp ⟨ctx0 128, 0⟩ 10) 14 30 = (some .offEnd, 0#32, 0x11111111#32, m11) := by
  decide +kernel

/-- two units: `a4 = 0` (two instructions executed, the branch's operand forwarded) -/
theorem shadow_p2 : obs (run shadowApp (ctx0 128) 2 2 1000) 14 30 =
    (some .offEnd, 936, 628, 2, 1, 0#32, 0x11111111#32, m11) := by
  decide +kernel

/-- three units: the run ends normally with `a4 = 0xa5d4d008` — three instructions executed -/
theorem shadow_p3 : obs (run shadowApp (ctx0 128) 3 3 1000) 14 30 =
    (some .offEnd, 936, 628, 3, 1, 0xa5d4d008#32, 0x11111111#32, m11) := by
  decide +kernel

/-! ### KF-ooo-mem: a store overtakes the load of its own line and is lost

`lb t2, 7(zero); sh zero, 4, zero` (store the half word 0 at address 4).  With two units the store does not wait for
the load; the line the load fetched meanwhile is stale and is written back over the store at the end. -/

def memApp : Model.Seq.App :=
  { instrs := [.lb_ { rd := 7, offset := 7#32, rs := 0 }, .sh_ { rd := 0, rs := 0, offset := 4#32 }], labels := {} }

def stored : List Byte := [0x11#8, 0x11#8, 0x11#8, 0x11#8, 0#8, 0#8, 0x11#8, 0x11#8]

theorem mem_seq : obsSeq (Model.Seq.runMvp1 memApp ⟨ctx0 128, 0⟩ 10) 7 0 = (some .offEnd, 0x11#32, 0#32, stored) := by
  decide +kernel

theorem mem_p1 : obs (run memApp (ctx0 128) 1 1 1000) 7 0 = (some .offEnd, 932, 623, 2, 0, 0x11#32, 0#32, stored) := by
  decide +kernel

/-- two units: the run ends normally, both instructions executed, and memory is unchanged -/
theorem mem_p2 : obs (run memApp (ctx0 128) 2 2 1000) 7 0 = (some .offEnd, 934, 625, 2, 0, 0x11#32, 0#32, m11) := by
  decide +kernel

/-! ### KF-ooo-2branch: a younger branch on the wrong path of an older one ends the run

`li s10, 4; l1: lw a2, 168(zero); nop; lw s0, 168(zero); addi s10, s10, -1; bnez s10, l1; ble t1, t6, end; ret; end:` —
a loop of four rounds.  With two units the `ble` behind the loop branch (taken: `t1 = t6 = 0`) is executed while the
loop branch still waits, and its jump to `end` wins: the run ends after two rounds with `s10 = 2`. -/

def twoApp : Model.Seq.App :=
  { instrs := [.li_ { rd := 26, imm := 4#32 }, .lw_ { rd := 12, offset := 168#32, rs := 0 }, .nop_ {},
               .lw_ { rd := 8, offset := 168#32, rs := 0 }, .addi_ { rd := 26, rs := 26, imm := BitVec.ofInt 32 (-1) },
               .bnez_ { rs := 26, label := "l1" }, .ble_ { rs1 := 6, rs2 := 31, label := "end" }, .ret_ {}],
    labels := GoMap.ofList [("l1", 4#32), ("end", 32#32)] }

theorem two_seq : obsSeq (Model.Seq.runMvp1 twoApp ⟨ctx0 256, 0⟩ 100) 26 8 = (some .offEnd, 0#32, 0x11111111#32, m11) := by
  decide +kernel

/-- two units: the run ends normally after 12 executed instructions with `s10 = 2` -/
theorem two_p2 : obs (run twoApp (ctx0 256) 2 2 1500) 26 8 =
    (some .offEnd, 1045, 738, 12, 2, 2#32, 0x11111111#32, m11) := by
  decide +kernel

/-- three units: `s10 = 0` -/
theorem two_p3 : obs (run twoApp (ctx0 256) 3 3 1500) 26 8 =
    (some .offEnd, 1158, 857, 22, 4, 0#32, 0x11111111#32, m11) := by
  decide +kernel

end Proofs.Mvp61Witness

/-
  Proofs/Mvp60LdRun.lean — package R60d: whole runs.  On a straight-line program with memory reads (and a final `ret`) the
  MVP-6.0 model with any number of execute and write units ends as the unpipelined run does ("past the end" or `ret`) with its
  registers and the memory untouched.
-/
import MajoranaVerif.Proofs.Mvp60LdTick
import MajoranaVerif.Proofs.Mvp4Spec
open GoInt

set_option linter.unusedSimpArgs false
set_option linter.unusedVariables false

namespace Proofs.Mvp60Ld
open Model Model.Mvp60 Proofs.Mvp60Sl Proofs.Mmu
open Model.Seq (App Halt Arch stepArch runMvp1 mvp1Fetch)

/-- what a finished run has to do with the unpipelined run -/
def RunPostO (app : App) (a0 : Arch) (r : Result) : Prop :=
  match r.halt with
  | some .offEnd => FinalO app a0 app.instrs.length r.final ∧ ¬ HasRet app
  | some .ret => ∃ nt, FinalO app a0 nt r.final ∧ RetAt app nt ∧ NoRetBefore app (nt - 1)
  | some (.panic _) => True
  | some .err => False
  | none => True

theorem hsum_replicate_none (f : Runner → Nat) : ∀ K : Nat, hsum f (List.replicate K none) = 0 := by
  intro K
  induction K with
  | zero => rfl
  | succ k ih =>
    have : hsum f (List.replicate (k + 1) none) = 0 + hsum f (List.replicate k none) := by
      simp only [hsum, List.replicate_succ, List.map_cons, List.sum_cons]
    rw [this, ih]

theorem runFrom_simO (app : App) (a0 : Arch) (hp : ProgLd app a0) (c : Word) : ∀ (fuel : Nat) (s : State) (n nt : Nat),
    RelO app a0 c s nt → ModeOk app s nt → RunPostO app a0 (runFrom app fuel s n)
  | 0, s, n, nt, _, _ => by simp [runFrom, RunPostO]
  | fuel + 1, s, n, nt, hr, hmo => by
    unfold runFrom
    cases hc : cycle app s with
    | mk s' ev =>
      have hpost : TickPostO app a0 c s' ev := by
        unfold cycle at hc
        split at hc
        · rename_i r hr'
          subst hc
          exact cycleM_simO app a0 hp c s _ nt _ hr hmo hr'
        · simp only [Prod.mk.injEq] at hc; obtain ⟨rfl, rfl⟩ := hc; trivial
        · simp only [Prod.mk.injEq] at hc; obtain ⟨rfl, rfl⟩ := hc; trivial
      cases ev with
      | running =>
        obtain ⟨nt', hr', hmo'⟩ := hpost
        exact runFrom_simO app a0 hp c fuel s' (n + 1) nt' hr' hmo'
      | done h =>
        cases h with
        | offEnd => exact hpost
        | ret => exact hpost
        | err => exact hpost.elim
        | panic w => trivial

/-- the initial state is in the relation -/
theorem init_relO (app : App) (ctx : Model.Context) (hp : ProgLd app ⟨ctx, 0#32⟩) (K : Nat)
    (hpw : ∀ r, GoMap.get1 ctx.PendingWriteRegisters r = 0) (hpr : ∀ r, GoMap.get1 ctx.PendingReadRegisters r = 0) :
    ∃ s0, init ctx K K = .ok s0 ∧ RelO app ⟨ctx, 0#32⟩ (ctx.sequenceID * 1000#32) s0 0 ∧ ModeOk app s0 0 := by
  have hnew : ∃ u, Model.Mmu.new cfg = .ok u ∧ u.l1d.lines = [] ∧ u.l1d.lineLength = 64 ∧ u.l1d.numberOfLines = 16 ∧
      u.l1i.lines = [] ∧ u.l1i.lineLength = 64 :=
    ⟨_, rfl, by decide, by decide, by decide, by decide, by decide⟩
  obtain ⟨u, hu, h1, h2, h3, h4, h5⟩ := hnew
  refine ⟨{ ctx := ctx, mmu := u, eus := List.replicate K {}, wus := List.replicate K {} }, ?_, ?_, Or.inl ⟨rfl, fun k i _ _ => Or.inl (Nat.zero_le _)⟩⟩
  · simp only [init, hu, bind, Except.bind, pure, Except.pure]
  · have hheld : (List.replicate K ({} : ExecUnit)).map heldAt = List.replicate K none := by
      simp only [List.map_replicate]; rfl
    refine ⟨?_, (fun r hr => by cases hr), rfl, ?_, ?_, ?_, ?_, ?_, Nat.zero_le _, Or.inl rfl,
      ?_⟩
    · refine ⟨trivial, Nat.zero_le _, ⟨0, trivial, rfl, Or.inl rfl, ?_, ?_, ?_, ?_⟩, rfl, rfl, rfl⟩
      · show 0 + 0 + 0 ≤ app.instrs.length + 2; omega
      · intro _; exact Nat.zero_le _
      · intro _; exact Nat.zero_le _
      · intro h; cases h
    · show BackO app ⟨ctx, 0#32⟩ _ ctx [] ((List.replicate K ({} : ExecUnit)).map heldAt) [] 0
      rw [hheld]
      have hnone : ∀ x : Runner, some x ∈ List.replicate K (none : Option Runner) → False := by
        intro x hx; rw [List.mem_replicate] at hx; cases hx.2
      refine ⟨⟨_, rfl⟩, trivial, (fun x hx => by cases hx), hp.rat0, hp.tx0, hp.z0, (fun x hx => (hnone x hx).elim),
        (fun ec hec => by cases hec), ?_, (fun x j aj hx => (hnone x hx).elim), ?_, ?_, (fun x hx => (hnone x hx).elim), ?_, ?_, ?_⟩
      · intro St hst r _ _ _
        simp only [seqL, Option.some.injEq] at hst
        subst hst; rfl
      · intro j1 j2 i1 i2 hf
        rcases hf with ⟨x, hx, _⟩ | ⟨x, hx, _⟩ | ⟨ec, hec, _⟩
        · cases hx
        · exact (hnone x hx).elim
        · cases hec
      · intro j l i1 i2 hf
        rcases hf with ⟨x, hx, _⟩ | ⟨x, hx, _⟩ | ⟨ec, hec, _⟩
        · cases hx
        · exact (hnone x hx).elim
        · cases hec
      · intro i1 i2 x1 x2 _ h1'
        have := List.mem_of_getElem? h1'
        exact (hnone x1 this).elim
      · intro r _
        have hz := hsum_replicate_none (fun x => x.instr.writeRegisters.count r) K
        simp only [cntX, cntW, hz, List.map_nil, List.sum_nil, hpw r]
        exact Int.le_refl _
      · intro r _
        have hz := hsum_replicate_none (fun x => x.instr.readRegisters.count r) K
        simp only [cntXr, cntWr, hz, List.map_nil, List.sum_nil, hpr r]
        exact Int.le_refl _
    · refine ⟨⟨h2, h3, ?_, ?_, ?_⟩, ⟨rfl, ?_, fun _ _ _ => rfl⟩, (fun p hp' => by cases hp'), List.Pairwise.nil,
        ⟨h5, by rw [h4]; intro l hl; cases hl⟩⟩
      · show ∀ l ∈ u.l1d.lines, _; rw [h1]; intro l hl; cases hl
      · show u.l1d.lines.Pairwise _; rw [h1]; exact List.Pairwise.nil
      · show u.l1d.lines.length ≤ 16; rw [h1]; exact Nat.zero_le _
      · show ∀ l ∈ u.l1d.lines, _; rw [h1]; intro l hl; cases hl
    · intro k eu hk _
      have := List.mem_of_getElem? hk
      rw [List.mem_replicate] at this
      rw [this.2]; unfold EuOk; simp only
    · intro i1 i2 eu1 eu2 b _ _ _ h1' _ hb
      have := List.mem_of_getElem? h1'
      rw [List.mem_replicate] at this
      rw [this.2] at hb; simp only [mwBase] at hb; cases hb
    · intro wu he; rw [List.mem_replicate] at he; obtain ⟨_, rfl⟩ := he; rfl
    · have hr0 : runners ({ ctx := ctx, mmu := u, eus := List.replicate K {}, wus := List.replicate K {} } : State) = [] := rfl
      unfold RetInv
      rw [hr0]
      exact ⟨fun k i hk => by (simp only [List.length_nil] at hk; omega), fun _ k i hk => by (simp only [List.length_nil] at hk; omega)⟩

/-- the run in which a `ret` counts as a step (`seqL`) and the run of the unpipelined machine (`seqIter`) agree before the
first `ret` -/
theorem seqL_iter (app : App) (a0 : Arch) (hsm : app.instrs.length < 250) (hcls : StraightLineLdR app = true)
    (hpc0 : a0.pc = 0#32) (hl : ∀ j a, Proofs.Mvp4.seqIter app j a0 = some a → LoadsOk app a) :
    ∀ (j : Nat) (a : Arch), seqL app j a0 = some a → NoRetBefore app j →
      Proofs.Mvp4.seqIter app j a0 = some a ∧ a.pc = pcOf j ∧ j ≤ app.instrs.length := by
  intro j
  induction j with
  | zero =>
    intro a h _
    simp only [seqL, Option.some.injEq] at h
    subst h
    exact ⟨rfl, by rw [hpc0]; rfl, Nat.zero_le _⟩
  | succ j ih =>
    intro a' h hnr
    cases hj : seqL app j a0 with
    | none => simp only [seqL, hj, Option.bind_none] at h; cases h
    | some a =>
      obtain ⟨f3, f1, f2⟩ := ih a hj (hnr.mono (by omega))
      simp only [seqL, hj, Option.bind_some, seqNextL] at h
      rcases Nat.lt_or_ge j app.instrs.length with hlt | hge
      · obtain ⟨i, hi⟩ := get_lt app.instrs j hlt
        rcases ldr_cases app hcls j i hi with hld | hisret
        · obtain ⟨bytes, hb, h1, h2, h3⟩ := ld_step app hsm a j i f1 hi hld (hl j a f3)
          cases hr : i.run a.ctx app.labels a.pc bytes 0#32 with
          | ok e =>
            obtain ⟨cst, hc⟩ := h1 e hr
            rw [hc] at h
            simp only [Option.some.injEq] at h
            subst h
            exact ⟨Proofs.Mvp4.seqIter_succ f3 hc, rfl, hlt⟩
          | error f =>
            cases f with
            | err msg => obtain ⟨cst, hc⟩ := h2 msg hr; rw [hc] at h; cases h
            | panic w => obtain ⟨cst, hc⟩ := h3 w hr; rw [hc] at h; cases h
        · have := hnr j i (by omega) hi
          rw [hisret] at this; cases this
      · exfalso
        obtain ⟨cst, hc⟩ := Proofs.Mvp60Sl.stepArch_offEnd app a j f1 hsm (by omega) (by omega)
        rw [hc] at h; cases h

/-- the loads of the states of `seqL` before the first `ret` are inside memory -/
theorem loadsL (app : App) (a0 : Arch) (hsm : app.instrs.length < 250) (hcls : StraightLineLdR app = true)
    (hpc0 : a0.pc = 0#32) (hl : ∀ j a, Proofs.Mvp4.seqIter app j a0 = some a → LoadsOk app a) (j : Nat) (a : Arch)
    (h : seqL app j a0 = some a) (hnr : NoRetBefore app j) : LoadsOk app a :=
  hl j a (seqL_iter app a0 hsm hcls hpc0 hl j a h hnr).1

/-- **MVP-6.0 on straight-line programs with memory reads and `ret`, every number of execute and write units**: if the run
of the model ends (not with a Go panic), it ends as the unpipelined run does — "past the end" after all instructions (then
the program has no `ret`), or with `ret` at the FIRST `ret` — with the registers of the unpipelined run at that point, and the
memory is the initial memory (also after the final flush of L3) -/
theorem mvp60_ld_refines (app : App) (ctx : Model.Context) (hp : ProgLd app ⟨ctx, 0#32⟩)
    (hl : ∀ j a, Proofs.Mvp4.seqIter app j ⟨ctx, 0#32⟩ = some a → LoadsOk app a) (K fuel : Nat) (hk : Halt)
    (hpw : ∀ r, GoMap.get1 ctx.PendingWriteRegisters r = 0) (hpr : ∀ r, GoMap.get1 ctx.PendingReadRegisters r = 0)
    (hh : (run app ctx K K fuel).halt = some hk) (hnp : ∀ w, hk ≠ .panic w) :
    ∃ (n : Nat) (aN : Arch), Proofs.Mvp4.seqIter app n ⟨ctx, 0#32⟩ = some aN ∧ aN.pc = pcOf n ∧
      ((hk = .offEnd ∧ n = app.instrs.length) ∨ (hk = .ret ∧ ∃ i, app.instrs[n]? = some i ∧ isRet i = true)) ∧
      (∀ reg, GoMap.get1 (run app ctx K K fuel).final.ctx.Registers reg = GoMap.get1 aN.ctx.Registers reg) ∧
      (run app ctx K K fuel).final.ctx.Memory = ctx.Memory ∧ aN.ctx.Memory = ctx.Memory := by
  obtain ⟨s0, hinit, hR, hM⟩ := init_relO app ctx hp K hpw hpr
  have hrun : run app ctx K K fuel = runFrom app fuel s0 0 := by unfold run; rw [hinit]
  rw [hrun] at hh ⊢
  have hpost := runFrom_simO app ⟨ctx, 0#32⟩ hp _ fuel s0 0 0 hR hM
  unfold RunPostO at hpost
  rw [hh] at hpost
  have hiter := seqL_iter app ⟨ctx, 0#32⟩ hp.small hp.cls rfl hl
  cases hk with
  | offEnd =>
    obtain ⟨⟨aN, hN, hregs, hmem⟩, hnr⟩ := hpost
    have hnrb : NoRetBefore app app.instrs.length := by
      intro k i _ hi
      cases hc : isRet i with
      | false => rfl
      | true => exact (hnr ⟨k, i, hi, hc⟩).elim
    obtain ⟨f3, f1, _⟩ := hiter _ aN hN hnrb
    exact ⟨_, aN, f3, f1, Or.inl ⟨rfl, rfl⟩, hregs, hmem, (seq_facts app ⟨ctx, 0#32⟩ hp _ aN hN (hnrb.mono (by omega))).2.2.1⟩
  | ret =>
    obtain ⟨nt, ⟨aN, hN, hregs, hmem⟩, ⟨i, h1, hi, hisret⟩, hnrb⟩ := hpost
    -- the state before the `ret`
    obtain ⟨m, rfl⟩ : ∃ m, nt = m + 1 := ⟨nt - 1, by omega⟩
    simp only [Nat.add_sub_cancel] at hi hnrb
    cases hm : seqL app m ⟨ctx, 0#32⟩ with
    | none => simp only [seqL, hm, Option.bind_none] at hN; cases hN
    | some aR =>
      obtain ⟨f3, f1, _⟩ := hiter m aR hm hnrb
      obtain ⟨cst, hc⟩ := ret_step app hp.small aR m i f1 hi hisret
      simp only [seqL, hm, Option.bind_some, seqNextL, hc, Option.some.injEq] at hN
      subst hN
      exact ⟨m, aR, f3, f1, Or.inr ⟨rfl, i, hi, hisret⟩, hregs, hmem,
        (seq_facts app ⟨ctx, 0#32⟩ hp m aR hm (hnrb.mono (by omega))).2.2.1⟩
  | err => exact hpost.elim
  | panic w => exact absurd rfl (hnp w)

/-- the side condition on loads follows from `stepOk` -/
theorem loadsOk_of_stepOk (app : App) (hsm : app.instrs.length < 250) (a : Arch) (h : Model.Mvp4.stepOk app a = true) :
    LoadsOk app a := by
  intro j i hpc hi
  have hj := idx_lt app j i hi
  unfold Model.Mvp4.stepOk at h
  simp only [hpc, pcOf_idx j (by omega)] at h
  have h1 : ((j : Int) < (app.instrs.length : Int)) := by omega
  have h2 : ¬ ((j : Int) < 0) := by omega
  simp only [h1, not_true_eq_false, h2, if_false, Int.toNat_natCast, hi, Bool.and_eq_true] at h
  have hc : Model.Mvp4.cfg.l1DLineSize = 64 := by decide
  rw [hc] at h
  exact h.1

/-- the hypotheses on the unpipelined run, from a well-formed specification run -/
theorem progLd_of_spec (app : App) (hw : Proofs.Refine.WfApp app) (hcls : StraightLineLdR app = true) (ctx : Model.Context)
    (m : Spec.Machine) (hR : Proofs.Refine.Rel ctx m) (hmsz : m.mem.size + 64 ≤ 2 ^ 31) (fuel : Nat)
    (hwf : ∀ why, (Spec.run (Proofs.Refine.specProg app) m fuel).stop ≠ .notWf why) :
    ProgLd app ⟨ctx, 0#32⟩ ∧ ∀ j a, Proofs.Mvp4.seqIter app j ⟨ctx, 0#32⟩ = some a → LoadsOk app a := by
  have hl : ∀ j a, Proofs.Mvp4.seqIter app j ⟨ctx, 0#32⟩ = some a → LoadsOk app a := by
    intro j a hj
    have hok := Proofs.Mvp4.seqOk_of_spec app hw ctx m hR hmsz fuel hwf (j + 1)
    exact loadsOk_of_stepOk app hw.small a (Proofs.Mvp4.stepOk_of_seqOk j (j + 1) ⟨ctx, 0#32⟩ a hok (by omega) hj)
  refine ⟨⟨hw.small, hw.nofwd, hcls, rfl, hR.rat, hR.tx, ?_, ?_⟩, hl⟩
  · exact loadsL app ⟨ctx, 0#32⟩ hw.small hcls rfl hl
  · show GoMap.get1 ctx.Registers Gen.Reg.Zero = 0#32
    have := hR.regs 0
    rw [hR.zero] at this
    exact this

end Proofs.Mvp60Ld

/-
  Proofs/Mvp60SlRun.lean — package R60: whole runs.  The MVP-6.0 model with any number of execute and write units, on
  a straight-line register-only program, refines the unpipelined machine MVP-1 (`mvp60_sl_refines_mvp1`).
-/
import MajoranaVerif.Proofs.Mvp60SlTick
open GoInt

set_option linter.unusedSimpArgs false
set_option linter.unusedVariables false

namespace Proofs.Mvp60Sl
open Model Model.Mvp60
open Model.Seq (App Halt Arch stepArch runMvp1 mvp1Fetch)

theorem cycle_simG (app : App) (hp : ProgJ app) (a0 : Arch) (hT : ∀ k a, Proofs.Mvp4.seqIter app k a0 = some a → TgtOk app a)
    (s s' : State) (a : Arch) (k : Nat) (ev : Event)
    (hk : Proofs.Mvp4.seqIter app k a0 = some a) (hr : RelG app s a ∨ RelB app s a ∨ RelF app s a) (h : cycle app s = (s', ev)) :
    TickPostG app a0 s' ev := by
  unfold cycle at h
  split at h
  · rename_i r hr'
    subst h
    exact cycleM_simG app hp a0 hT s _ a k _ hk hr hr'
  · simp only [Prod.mk.injEq] at h; obtain ⟨rfl, rfl⟩ := h; trivial
  · simp only [Prod.mk.injEq] at h; obtain ⟨rfl, rfl⟩ := h; trivial

theorem cycle_simR (app : App) (hp : ProgR app) (a0 : Arch) (s s' : State) (a : Arch) (k : Nat) (ev : Event)
    (hk : Proofs.Mvp4.seqIter app k a0 = some a) (hr : Rel app s a ∨ RelB app s a) (h : cycle app s = (s', ev)) :
    TickPost app a0 s' ev :=
  (cycle_simG app hp.toG.toJ a0 (fun _ a _ => tgtOk_of_proved app hp.toG.cls a) s s' a k ev hk
    (by rcases hr with h1 | h1
        · exact Or.inl (h1.strong (noCond_of_slr app hp.sl))
        · exact Or.inr (Or.inl h1)) h).weak (noCond_of_slr app hp.sl)

theorem cycle_sim (app : App) (hp : Prog app) (a0 : Arch) (s s' : State) (a : Arch) (k : Nat) (ev : Event)
    (hk : Proofs.Mvp4.seqIter app k a0 = some a) (hr : Rel app s a) (h : cycle app s = (s', ev)) :
    TickPost app a0 s' ev :=
  cycle_simR app hp.toR a0 s s' a k ev hk (Or.inl hr) h

/-- what a finished run has to do with the unpipelined run from `a0` -/
def RunPost (app : App) (a0 : Arch) (r : Result) : Prop :=
  match r.halt with
  | some .offEnd => ∃ k a, Proofs.Mvp4.seqIter app k a0 = some a ∧ (∃ c, stepArch Proofs.Mvp4.dc app a = .halt .offEnd c) ∧
      r.final.ctx.Registers = a.ctx.Registers ∧ r.final.ctx.Memory = a.ctx.Memory
  | some .ret => ∃ k a, Proofs.Mvp4.seqIter app k a0 = some a ∧ (∃ c, stepArch Proofs.Mvp4.dc app a = .halt .ret c) ∧
      r.final.ctx.Registers = a.ctx.Registers ∧ r.final.ctx.Memory = a.ctx.Memory
  | some .err => ∃ k a, Proofs.Mvp4.seqIter app k a0 = some a ∧ ∃ c, stepArch Proofs.Mvp4.dc app a = .halt .err c
  | _ => True

theorem runFrom_sim (app : App) (hp : ProgJ app) (a0 : Arch) (hT : ∀ k a, Proofs.Mvp4.seqIter app k a0 = some a → TgtOk app a) :
    ∀ (fuel : Nat) (s : State) (n k : Nat) (a : Arch),
    Proofs.Mvp4.seqIter app k a0 = some a → (RelG app s a ∨ RelB app s a ∨ RelF app s a) → RunPost app a0 (runFrom app fuel s n)
  | 0, s, n, k, a, _, _ => by simp [runFrom, RunPost]
  | fuel + 1, s, n, k, a, hk, hr => by
    unfold runFrom
    cases hc : cycle app s with
    | mk s' ev =>
      have hpost := cycle_simG app hp a0 hT s s' a k ev hk hr hc
      cases ev with
      | running =>
        obtain ⟨k', a', hk', hr'⟩ := hpost
        exact runFrom_sim app hp a0 hT fuel s' (n + 1) k' a' hk' hr'
      | done h =>
        cases h with
        | ret => exact hpost
        | offEnd => exact hpost
        | err => exact hpost
        | panic w => trivial

/-- what is assumed of the initial context (what the harness installs) -/
structure CtxOk (ctx : Model.Context) : Prop where
  rat : ctx.rat = false
  tx : ctx.Transaction.entries = []
  pw : ∀ r, GoMap.get1 ctx.PendingWriteRegisters r = 0

theorem new_ok : ∃ u, Model.Mmu.new cfg = .ok u ∧ MmuOk u := by
  have h : ∃ u, Model.Mmu.new cfg = .ok u ∧ u.l1d.lines = [] ∧ u.l1i.lines = [] ∧ u.l1i.lineLength = 64 :=
    ⟨_, rfl, by decide, by decide, by decide⟩
  obtain ⟨u, h1, h2, h3, h4⟩ := h
  exact ⟨u, h1, h2, ⟨h4, by rw [h3]; intro l hl; cases hl⟩⟩

theorem init_relG (app : App) (ctx : Model.Context) (hc : CtxOk ctx) (eu wu : Nat) (hk : eu = wu)
    (hsid : ctx.sequenceID = 0 ∨ NoCond app) :
    ∃ s0, init ctx eu wu = .ok s0 ∧ RelG app s0 ⟨ctx, 0#32⟩ := by
  obtain ⟨u, hu, hl⟩ := new_ok
  refine ⟨{ ctx := ctx, mmu := u, eus := List.replicate eu {}, wus := List.replicate wu {} }, ?_, ?_⟩
  · simp only [init, hu, bind, Except.bind, pure, Except.pure]
  · refine ⟨⟨0, rfl, ?_⟩, ?_, ?_, ?_, rfl, Nat.zero_le _, Nat.zero_le _, ?_, rfl, rfl, rfl, Nat.zero_le _, ?_, Nat.zero_le _, hl, rfl,
      (fun _ x hx => by cases hx), (fun e he => by cases he), ⟨hsid, (fun _ _ r hr => by cases hr)⟩,
      (fun _ _ => Or.inl (fun ec hec => by cases hec)),
      Or.inr (Or.inr ⟨rfl, (fun e he => by cases he), Nat.zero_le _, (fun pre b post hl => by cases pre <;> cases hl), rfl⟩)⟩
    · refine ⟨trivial, Nat.zero_le _, rfl, fun _ => ⟨⟨0, trivial, rfl, Or.inl rfl, ?_, ?_, ?_, ?_⟩, fun r hr => by cases hr⟩,
        (fun h => by cases h), fun _ => ⟨rfl, rfl⟩⟩
      · show 0 + 0 + 0 ≤ app.instrs.length + 2; omega
      · intro _; exact Nat.zero_le _
      · intro _; exact Nat.zero_le _
      · intro h; cases h
    · refine ⟨rfl, rfl, hc.rat, hc.tx, hc.rat, hc.tx, ?_, ?_, ?_, List.Pairwise.nil, ?_⟩
      · intro ec hec; cases hec
      · intro r _; rw [hc.pw r]; exact Int.le_refl _
      · intro x hx; cases hx
      · intro ec hec; cases hec
    · intro eu' he; rw [List.mem_replicate] at he; obtain ⟨_, rfl⟩ := he; exact ⟨rfl, rfl⟩
    · intro wu' he; rw [List.mem_replicate] at he; obtain ⟨_, rfl⟩ := he; rfl
    · intro e he; cases he
    · simp only [List.length_replicate, hk]

theorem init_rel (app : App) (ctx : Model.Context) (hc : CtxOk ctx) (eu wu : Nat) (hk : eu = wu) :
    ∃ s0, init ctx eu wu = .ok s0 ∧ Rel app s0 ⟨ctx, 0#32⟩ := by
  obtain ⟨u, hu, hl⟩ := new_ok
  refine ⟨{ ctx := ctx, mmu := u, eus := List.replicate eu {}, wus := List.replicate wu {} }, ?_, ?_⟩
  · simp only [init, hu, bind, Except.bind, pure, Except.pure]
  · refine ⟨⟨0, rfl, ?_⟩, fun hn => ?_⟩
    · refine ⟨trivial, Nat.zero_le _, ⟨0, trivial, rfl, Or.inl rfl, ?_, ?_, ?_, ?_⟩, rfl, rfl, rfl⟩
      · show 0 + 0 + 0 ≤ app.instrs.length + 2; omega
      · intro _; exact Nat.zero_le _
      · intro _; exact Nat.zero_le _
      · intro h; cases h
    · obtain ⟨s0, h0, hr0⟩ := init_relG app ctx hc eu wu hk (Or.inr hn)
      simp only [init, hu, bind, Except.bind, pure, Except.pure, Except.ok.injEq] at h0
      subst h0
      exact hr0

/-- **MVP-6.0 on register-only programs with branches, jumps and calls** (package R60c), every number of execute and write
units: what a finished run of the model has to do with the unpipelined run (`RunPost`): a run that ends with `ret` or with
the defined error ends where the unpipelined machine ends, with its registers and memory; a run that ends "past the end" has
the registers and memory of a state the unpipelined machine reaches — and for a program without jumps that state is its
final one (with jumps it need not be: R60-defect-1). -/
theorem mvp60_j_runpost (app : App) (hp : ProgJ app) (ctx : Model.Context) (hc : CtxOk ctx) (K fuel : Nat)
    (hsid : ctx.sequenceID = 0 ∨ NoCond app)
    (hT : ∀ k a, Proofs.Mvp4.seqIter app k ⟨ctx, 0#32⟩ = some a → TgtOk app a) :
    RunPost app ⟨ctx, 0#32⟩ (run app ctx K K fuel) := by
  obtain ⟨s0, hinit, hR⟩ := init_relG app ctx hc K K rfl hsid
  have hrun : run app ctx K K fuel = runFrom app fuel s0 0 := by unfold run; rw [hinit]
  rw [hrun]
  exact runFrom_sim app hp ⟨ctx, 0#32⟩ hT fuel s0 0 0 ⟨ctx, 0#32⟩ rfl (Or.inl hR)

/-- the same against MVP-1's run: `ret` and the defined error -/
theorem mvp60_j_refines_mvp1 (app : App) (hp : ProgJ app) (ctx : Model.Context) (hc : CtxOk ctx) (K fuel : Nat) (hk : Halt)
    (hsid : ctx.sequenceID = 0 ∨ NoCond app)
    (hT : ∀ k a, Proofs.Mvp4.seqIter app k ⟨ctx, 0#32⟩ = some a → TgtOk app a)
    (hh : (run app ctx K K fuel).halt = some hk) (hnp : ∀ w, hk ≠ .panic w) :
    ∃ n, (runMvp1 app ⟨ctx, 0#32⟩ n).halt = some hk ∧
      (hk ≠ .err →
        (run app ctx K K fuel).final.ctx.Registers = (runMvp1 app ⟨ctx, 0#32⟩ n).final.ctx.Registers ∧
        (run app ctx K K fuel).final.ctx.Memory = (runMvp1 app ⟨ctx, 0#32⟩ n).final.ctx.Memory) := by
  have hpost := mvp60_j_runpost app hp ctx hc K fuel hsid hT
  unfold RunPost at hpost
  rw [hh] at hpost
  cases hk with
  | ret =>
    obtain ⟨k, a, hit, ⟨c, hs⟩, hf1, hf2⟩ := hpost
    obtain ⟨h1, h2⟩ := Proofs.Mvp4.run_halts mvp1Fetch app hit hs 0
    exact ⟨k + (0 + 1), h1, fun _ => by unfold runMvp1; rw [h2]; exact ⟨hf1, hf2⟩⟩
  | offEnd =>
    obtain ⟨k, a, hit, ⟨c, hs⟩, hf1, hf2⟩ := hpost
    obtain ⟨h1, h2⟩ := Proofs.Mvp4.run_halts mvp1Fetch app hit hs 0
    exact ⟨k + (0 + 1), h1, fun _ => by unfold runMvp1; rw [h2]; exact ⟨hf1, hf2⟩⟩
  | err =>
    obtain ⟨k, a, hit, c, hs⟩ := hpost
    obtain ⟨h1, _⟩ := Proofs.Mvp4.run_halts mvp1Fetch app hit hs 0
    exact ⟨k + (0 + 1), h1, fun hne => absurd rfl hne⟩
  | panic w => exact absurd rfl (hnp w)

/-- **MVP-6.0 refines the unpipelined machine on the proved class, for every number of execute and write units**
(package R60b, K ≥ 2 continuation): see `mvp60_g_refines_mvp1`, whose hypothesis `K ≤ 1 ∨ NoCond app` is no longer needed -/
theorem mvp60_g_refines_mvp1_wide (app : App) (hp : ProgG app) (ctx : Model.Context) (hc : CtxOk ctx) (K fuel : Nat) (hk : Halt)
    (hsid : ctx.sequenceID = 0 ∨ NoCond app)
    (hh : (run app ctx K K fuel).halt = some hk) (hnp : ∀ w, hk ≠ .panic w) :
    ∃ n, (runMvp1 app ⟨ctx, 0#32⟩ n).halt = some hk ∧
      (hk ≠ .err →
        (run app ctx K K fuel).final.ctx.Registers = (runMvp1 app ⟨ctx, 0#32⟩ n).final.ctx.Registers ∧
        (run app ctx K K fuel).final.ctx.Memory = (runMvp1 app ⟨ctx, 0#32⟩ n).final.ctx.Memory) :=
  mvp60_j_refines_mvp1 app hp.toJ ctx hc K fuel hk hsid (fun _ a _ => tgtOk_of_proved app hp.cls a) hh hnp

/-- **MVP-6.0 with at most one execute unit refines the unpipelined machine on the proved class** (register-only programs
with conditional branches and `ret`, `Model.Mvp60.ProvedClass`): every installable initial context with `sequenceID = 0`
and every tick budget — if the run of the model ends, MVP-1 ends the same way with literally the same registers and memory.
For programs without conditional branches any number of units and any `sequenceID` will do. -/
theorem mvp60_g_refines_mvp1 (app : App) (hp : ProgG app) (ctx : Model.Context) (hc : CtxOk ctx) (K fuel : Nat) (hk : Halt)
    (hsid : ctx.sequenceID = 0 ∨ NoCond app) (hk1 : K ≤ 1 ∨ NoCond app)
    (hh : (run app ctx K K fuel).halt = some hk) (hnp : ∀ w, hk ≠ .panic w) :
    ∃ n, (runMvp1 app ⟨ctx, 0#32⟩ n).halt = some hk ∧
      (hk ≠ .err →
        (run app ctx K K fuel).final.ctx.Registers = (runMvp1 app ⟨ctx, 0#32⟩ n).final.ctx.Registers ∧
        (run app ctx K K fuel).final.ctx.Memory = (runMvp1 app ⟨ctx, 0#32⟩ n).final.ctx.Memory) :=
  mvp60_g_refines_mvp1_wide app hp ctx hc K fuel hk hsid hh hnp

/-- **MVP-6.0 refines the unpipelined machine on straight-line register-only programs that may `ret`**, for every number
`K` of execute and write units, every installable initial context and every tick budget: if the run of the model ends (with
`ret`, past the last instruction, or with the defined error of a `div`/`rem` by zero), MVP-1 ends the same way, and the final
register file and memory of the model are literally those of MVP-1. -/
theorem mvp60_slr_refines_mvp1 (app : App) (hp : ProgR app) (ctx : Model.Context) (hc : CtxOk ctx) (K fuel : Nat) (hk : Halt)
    (hh : (run app ctx K K fuel).halt = some hk) (hnp : ∀ w, hk ≠ .panic w) :
    ∃ n, (runMvp1 app ⟨ctx, 0#32⟩ n).halt = some hk ∧
      (hk ≠ .err →
        (run app ctx K K fuel).final.ctx.Registers = (runMvp1 app ⟨ctx, 0#32⟩ n).final.ctx.Registers ∧
        (run app ctx K K fuel).final.ctx.Memory = (runMvp1 app ⟨ctx, 0#32⟩ n).final.ctx.Memory) :=
  mvp60_g_refines_mvp1 app hp.toG ctx hc K fuel hk (Or.inr (noCond_of_slr app hp.sl)) (Or.inr (noCond_of_slr app hp.sl)) hh hnp

/-- the statement of package R60 (programs without `ret`) -/
theorem mvp60_sl_refines_mvp1 (app : App) (hp : Prog app) (ctx : Model.Context) (hc : CtxOk ctx) (K fuel : Nat) (hk : Halt)
    (hh : (run app ctx K K fuel).halt = some hk) (hnp : ∀ w, hk ≠ .panic w) :
    ∃ n, (runMvp1 app ⟨ctx, 0#32⟩ n).halt = some hk ∧
      (hk ≠ .err →
        (run app ctx K K fuel).final.ctx.Registers = (runMvp1 app ⟨ctx, 0#32⟩ n).final.ctx.Registers ∧
        (run app ctx K K fuel).final.ctx.Memory = (runMvp1 app ⟨ctx, 0#32⟩ n).final.ctx.Memory) :=
  mvp60_slr_refines_mvp1 app hp.toR ctx hc K fuel hk hh hnp

end Proofs.Mvp60Sl

/-
  Proofs/Bus.lean — lemmas behind Props/C14.lean (core Lean only).
    * what the two loops of bus.go do (`connectLoop_spec`, `pickLoop_spec`),
    * one-step preservation of the invariants: conservation as counts (`Conserved`),
      order (`Ord`: the bus holds strictly increasing ids, every tracked delivered id is
      smaller than whatever may still follow it), latency (`Waiting`), capacity,
    * the `Revert` facts, and the same for `SimpleBus` (namespace `Proofs.SBus`).
-/
import MajoranaVerif.Model.Bus
open Model

namespace Proofs.Bus
open Model.BufferedBus Model.BusHist

/-! ### the two loops -/

/-- What `Connect`'s loop does: it moves a prefix `moved` of the buffer, every entry of
which is due (`stamp ≤ currentCycle`), to the back of the queue, in order. -/
theorem connectLoop_spec {α : Type} (ql c : Int) (buf : List (Int × α)) (q : List α) :
    ∃ moved, buf = moved ++ (connectLoop ql c buf q).1 ∧
      (connectLoop ql c buf q).2 = q ++ moved.map (·.2) ∧ ∀ e ∈ moved, e.1 ≤ c := by
  induction buf generalizing q with
  | nil => exact ⟨[], by simp [connectLoop]⟩
  | cons e rest ih =>
    unfold connectLoop
    by_cases h1 : ((q.length : Int) == ql) = true
    · exact ⟨[], by simp [h1]⟩
    · by_cases h2 : e.1 > c
      · exact ⟨[], by simp [h1, h2]⟩
      · obtain ⟨m, hm1, hm2, hm3⟩ := ih (q ++ [e.2])
        refine ⟨e :: m, ?_, ?_, ?_⟩
        · simp only [h1, h2, if_false, Bool.false_eq_true, List.cons_append]
          exact congrArg (e :: ·) hm1
        · simp only [h1, h2, if_false, Bool.false_eq_true, hm2, List.map_cons, List.append_assoc,
            List.singleton_append]
        · intro e' he'
          rcases List.mem_cons.mp he' with rfl | h
          · omega
          · exact hm3 e' h

/-- the loop never makes the queue longer than `queueLength` -/
theorem connectLoop_length {α : Type} (ql c : Int) (buf : List (Int × α)) (q : List α)
    (h : (q.length : Int) ≤ ql) : ((connectLoop ql c buf q).2.length : Int) ≤ ql := by
  induction buf generalizing q with
  | nil => simpa [connectLoop] using h
  | cons e rest ih =>
    unfold connectLoop
    by_cases h1 : ((q.length : Int) == ql) = true
    · simpa [h1] using h
    · by_cases h2 : e.1 > c
      · simpa [h1, h2] using h
      · simp only [h1, h2, if_false, Bool.false_eq_true]
        apply ih
        have : (q.length : Int) ≠ ql := by simpa using h1
        simp only [List.length_append, List.length_cons, List.length_nil]
        omega

/-- the loop stops only for one of the three reasons in the source -/
theorem connectLoop_maximal {α : Type} (ql c : Int) (buf : List (Int × α)) (q : List α) :
    ((connectLoop ql c buf q).2.length : Int) = ql ∨ (connectLoop ql c buf q).1 = [] ∨
      ∃ e rest, (connectLoop ql c buf q).1 = e :: rest ∧ e.1 > c := by
  induction buf generalizing q with
  | nil => right; left; simp [connectLoop]
  | cons e rest ih =>
    unfold connectLoop
    by_cases h1 : ((q.length : Int) == ql) = true
    · left
      have h1' : (q.length : Int) = ql := by simpa using h1
      simp [h1']
    · by_cases h2 : e.1 > c
      · right; right; exact ⟨e, rest, by simp [h1, h2], h2⟩
      · simp only [h1, h2, if_false, Bool.false_eq_true]
        exact ih _

/-- What `Pick`'s `DeleteFunc` closure does. -/
theorem pickLoop_spec {α : Type} (p : α → Bool) (q : List α) :
    (pickLoop p q = (none, q) ∧ ∀ y ∈ q, p y = false) ∨
    ∃ l1 x l2, q = l1 ++ x :: l2 ∧ (∀ y ∈ l1, p y = false) ∧ p x = true ∧
      pickLoop p q = (some x, l1 ++ l2) := by
  induction q with
  | nil => left; simp [pickLoop]
  | cons a q ih =>
    unfold pickLoop
    by_cases ha : p a = true
    · right; exact ⟨[], a, q, by simp [ha]⟩
    · have ha' : p a = false := by simpa using ha
      rcases ih with ⟨h1, h2⟩ | ⟨l1, x, l2, h1, h2, h3, h4⟩
      · left
        refine ⟨by simp [ha, h1], ?_⟩
        intro y hy
        rcases List.mem_cons.mp hy with rfl | h
        · exact ha'
        · exact h2 y h
      · right
        refine ⟨a :: l1, x, l2, by simp [h1], ?_, h3, by simp [ha, h4]⟩
        intro y hy
        rcases List.mem_cons.mp hy with rfl | h
        · exact ha'
        · exact h2 y h

/-! ### bus-level facts about `inside` -/

theorem inside_add (b : BufferedBus Nat) (t : Nat) (c : Int) : (b.add t c).inside = b.inside ++ [t] := by
  simp [BufferedBus.add, inside]

theorem inside_connect (b : BufferedBus Nat) (c : Int) : (b.connect c).inside = b.inside := by
  unfold connect
  by_cases h : ((b.queue.length : Int) == b.queueLength) = true
  · simp [h]
  · obtain ⟨m, h1, h2, _⟩ := connectLoop_spec b.queueLength c b.buffer b.queue
    simp only [h, if_false, Bool.false_eq_true, inside, h2]
    conv => rhs; rw [h1]
    simp

theorem inside_clean (b : BufferedBus Nat) : b.clean.inside = [] := by
  simp [BufferedBus.clean, inside]

theorem inside_deleteLast (b : BufferedBus Nat) :
    b.inside = b.deleteLast.inside ++ (b.buffer.getLast?.map (·.2)).toList := by
  unfold deleteLast inside
  by_cases hb : b.buffer = []
  · simp [hb]
  · have h1 : (b.buffer.length == 0) = false := by
      simp [hb]
    have h2 := List.dropLast_concat_getLast hb
    simp only [h1, Bool.false_eq_true, if_false, List.getLast?_eq_some_getLast hb, Option.map_some,
      Option.toList_some, List.append_assoc]
    congr 1
    conv => lhs; rw [← h2]
    simp

theorem deleteLast_buffer_sublist (b : BufferedBus Nat) : b.deleteLast.buffer.Sublist b.buffer := by
  unfold deleteLast
  split
  · exact List.Sublist.refl _
  · exact List.dropLast_sublist _

theorem deleteLast_queue (b : BufferedBus Nat) : b.deleteLast.queue = b.queue := by
  unfold deleteLast
  split <;> rfl

/-! ### histories -/

theorem runFrom_nil (s : St) : runFrom s [] = s := rfl
theorem runFrom_cons (s : St) (op : Op) (h : List Op) : runFrom s (op :: h) = runFrom (step s op) h := rfl
theorem runFrom_append (s : St) (h1 h2 : List Op) : runFrom s (h1 ++ h2) = runFrom (runFrom s h1) h2 := by
  simp [runFrom, List.foldl_append]

/-- induction principle: a step-invariant holds after every history -/
theorem runFrom_inv (P : St → Prop) (h : List Op)
    (hstep : ∀ s op, op ∈ h → P s → P (step s op)) (s : St) (hs : P s) : P (runFrom s h) := by
  induction h generalizing s with
  | nil => exact hs
  | cons op h ih =>
    rw [runFrom_cons]
    apply ih
    · intro s' op' hop' hp
      exact hstep s' op' (List.mem_cons_of_mem _ hop') hp
    · exact hstep s op (List.mem_cons_self) hs

/-- what one step hands to the consumer -/
def stepOut (s : St) : Op → Option Nat
  | .get => s.bus.get.1
  | .pick p => (s.bus.pick p).1
  | _ => none

theorem get_spec (b : BufferedBus Nat) :
    (b.get.1 = none ∧ b.queue = [] ∧ b.get.2 = b) ∨
    ∃ x q, b.queue = x :: q ∧ b.get.1 = some x ∧ b.get.2 = { b with queue := q } := by
  unfold BufferedBus.get
  cases hq : b.queue with
  | nil => left; simp
  | cons x q => right; exact ⟨x, q, by simp⟩

theorem pick_spec (b : BufferedBus Nat) (p : Nat → Bool) :
    ((b.pick p).1 = none ∧ (b.pick p).2 = b ∧ ∀ y ∈ b.queue, p y = false) ∨
    ∃ l1 x l2, b.queue = l1 ++ x :: l2 ∧ (∀ y ∈ l1, p y = false) ∧ p x = true ∧
      (b.pick p).1 = some x ∧ (b.pick p).2 = { b with queue := l1 ++ l2 } := by
  unfold BufferedBus.pick
  rcases pickLoop_spec p b.queue with ⟨h1, h2⟩ | ⟨l1, x, l2, h1, h2, h3, h4⟩
  · left; exact ⟨by simp [h1], by simp [h1], h2⟩
  · right; exact ⟨l1, x, l2, h1, h2, h3, by simp [h4], by simp [h4]⟩

/-- the step-level conservation law, as counts -/
def Conserved (s : St) : Prop :=
  ∀ x, s.led.added.count x + s.led.reverted.count x =
    s.led.returned.count x + s.bus.inside.count x + s.led.removed.count x

theorem conserved_step (s : St) (op : Op) (hc : Conserved s) : Conserved (step s op) := by
  intro x
  have hx := hc x
  cases op with
  | add c => simp only [step, inside_add, List.count_append]; omega
  | tryAdd c =>
    simp only [step]
    split
    · simp only [inside_add, List.count_append]; omega
    · exact hx
  | revert y c =>
    simp only [step, BufferedBus.revert, inside, List.map_cons, List.count_append, List.count_cons,
      List.count_nil] at hx ⊢
    omega
  | deleteLast =>
    have h := inside_deleteLast s.bus
    simp only [step, List.count_append]
    rw [h, List.count_append] at hx
    omega
  | get =>
    rcases get_spec s.bus with ⟨h1, h2, h3⟩ | ⟨y, q, h1, h2, h3⟩
    · simp only [step, h1, h3, Option.toList_none, List.append_nil]; exact hx
    · simp only [step, h2, h3, Option.toList_some, List.count_append, inside] at hx ⊢
      rw [h1] at hx
      simp only [List.count_cons, List.count_nil] at hx ⊢
      omega
  | pick p =>
    rcases pick_spec s.bus p with ⟨h1, h2, h3⟩ | ⟨l1, y, l2, h1, h2, h3, h4, h5⟩
    · simp only [step, h1, h2, Option.toList_none, List.append_nil]; exact hx
    · simp only [step, h4, h5, Option.toList_some, List.count_append, inside] at hx ⊢
      rw [h1] at hx
      simp only [List.count_cons, List.count_nil, List.count_append] at hx ⊢
      omega
  | connect c => simp only [step, inside_connect]; exact hx
  | clean => simp only [step, inside_clean, List.count_append, List.count_nil]; omega

theorem conserved_init (ql bl : Int) : Conserved (init ql bl) := by
  intro x; simp [init, BufferedBus.new, inside]

/-! ### order: the abstract invariant behind `fifo` -/

/-- `T` = the delivered ids we track, `ins` = what the bus holds, `n` = next fresh id. -/
structure Ord (sel : Nat → Bool) (T ins : List Nat) (n : Nat) : Prop where
  inc : ins.Pairwise (· < ·)
  lt : ∀ y ∈ ins, y < n
  t_inc : T.Pairwise (· < ·)
  t_lt : ∀ a ∈ T, ∀ y ∈ ins, sel y = true → a < y
  t_n : ∀ a ∈ T, a < n

theorem Ord.sub {sel T ins ins' n} (h : Ord sel T ins n) (hs : ins'.Sublist ins) : Ord sel T ins' (n + 1) :=
  { inc := h.inc.sublist hs
    lt := fun y hy => Nat.lt_succ_of_lt (h.lt y (hs.subset hy))
    t_inc := h.t_inc
    t_lt := fun a ha y hy hsel => h.t_lt a ha y (hs.subset hy) hsel
    t_n := fun a ha => Nat.lt_succ_of_lt (h.t_n a ha) }

theorem Ord.push {sel T ins n} (h : Ord sel T ins n) : Ord sel T (ins ++ [n]) (n + 1) :=
  { inc := by
      rw [List.pairwise_append]
      refine ⟨h.inc, List.pairwise_singleton _ _, ?_⟩
      intro a ha b hb
      rw [List.mem_singleton] at hb
      subst hb
      exact h.lt a ha
    lt := by
      intro y hy
      rcases List.mem_append.mp hy with h1 | h1
      · exact Nat.lt_succ_of_lt (h.lt y h1)
      · rw [List.mem_singleton] at h1; omega
    t_inc := h.t_inc
    t_lt := by
      intro a ha y hy hsel
      rcases List.mem_append.mp hy with h1 | h1
      · exact h.t_lt a ha y h1 hsel
      · rw [List.mem_singleton] at h1; subst h1; exact h.t_n a ha
    t_n := fun a ha => Nat.lt_succ_of_lt (h.t_n a ha) }

theorem Ord.take {sel T l1 x rest n} (h : Ord sel T (l1 ++ x :: rest) n)
    (hl1 : ∀ y ∈ l1, sel y = false) (hx : sel x = true) : Ord sel (T ++ [x]) (l1 ++ rest) (n + 1) := by
  have hsub : (l1 ++ rest).Sublist (l1 ++ x :: rest) :=
    List.Sublist.append (List.Sublist.refl _) (List.sublist_cons_self _ _)
  have hxin : x ∈ l1 ++ x :: rest := by simp
  have hb := h.sub hsub
  have hxr : ∀ y ∈ rest, x < y := by
    have := (List.pairwise_append.mp h.inc).2.1
    exact fun y hy => (List.pairwise_cons.mp this).1 y hy
  refine { inc := hb.inc, lt := hb.lt, t_inc := ?_, t_lt := ?_, t_n := ?_ }
  · rw [List.pairwise_append]
    refine ⟨h.t_inc, List.pairwise_singleton _ _, ?_⟩
    intro a ha b hb'
    rw [List.mem_singleton] at hb'
    subst hb'
    exact h.t_lt a ha _ hxin hx
  · intro a ha y hy hsel
    rcases List.mem_append.mp ha with h1 | h1
    · exact h.t_lt a h1 y (hsub.subset hy) hsel
    · rw [List.mem_singleton] at h1
      subst h1
      rcases List.mem_append.mp hy with h2 | h2
      · rw [hl1 y h2] at hsel; exact absurd hsel (by decide)
      · exact hxr y h2
  · intro a ha
    rcases List.mem_append.mp ha with h1 | h1
    · exact Nat.lt_succ_of_lt (h.t_n a h1)
    · rw [List.mem_singleton] at h1; subst h1; exact Nat.lt_succ_of_lt (h.lt _ hxin)

/-- a tracked list that does not grow: every revert-free step either shrinks `inside`
to a sublist or appends the fresh id -/
theorem step_inside (s : St) (op : Op) (hnr : op.isRevert = false) :
    (step s op).n = s.n + 1 ∧
    ((step s op).bus.inside.Sublist s.bus.inside ∨ (step s op).bus.inside = s.bus.inside ++ [s.n]) := by
  cases op with
  | add c => exact ⟨rfl, Or.inr (inside_add _ _ _)⟩
  | tryAdd c =>
    simp only [step]
    split
    · exact ⟨rfl, Or.inr (inside_add _ _ _)⟩
    · exact ⟨rfl, Or.inl (List.Sublist.refl _)⟩
  | revert y c => simp [Op.isRevert] at hnr
  | deleteLast =>
    refine ⟨rfl, Or.inl ?_⟩
    show s.bus.deleteLast.inside.Sublist s.bus.inside
    rw [inside_deleteLast s.bus]
    exact List.sublist_append_left _ _
  | get =>
    refine ⟨rfl, Or.inl ?_⟩
    rcases get_spec s.bus with ⟨h1, h2, h3⟩ | ⟨y, q, h1, h2, h3⟩
    · simp only [step, h3]; exact List.Sublist.refl _
    · simp only [step, h3, inside, h1]
      exact List.Sublist.append (List.sublist_cons_self _ _) (List.Sublist.refl _)
  | pick p =>
    refine ⟨rfl, Or.inl ?_⟩
    rcases pick_spec s.bus p with ⟨h1, h2, h3⟩ | ⟨l1, y, l2, h1, h2, h3, h4, h5⟩
    · simp only [step, h2]; exact List.Sublist.refl _
    · simp only [step, h5, inside, h1]
      exact List.Sublist.append (List.Sublist.append (List.Sublist.refl _) (List.sublist_cons_self _ _))
        (List.Sublist.refl _)
  | connect c => exact ⟨rfl, Or.inl (by simp only [step, inside_connect]; exact List.Sublist.refl _)⟩
  | clean => exact ⟨rfl, Or.inl (by simp only [step, inside_clean]; exact List.nil_sublist _)⟩

theorem Ord.keep {sel T} (s : St) (op : Op) (hnr : op.isRevert = false) (h : Ord sel T s.bus.inside s.n) :
    Ord sel T (step s op).bus.inside (step s op).n := by
  obtain ⟨hn, hi | hi⟩ := step_inside s op hnr
  · rw [hn]; exact h.sub hi
  · rw [hn, hi]; exact h.push

/-- a delivering step takes `x` out of `inside = l1 ++ x :: rest`; for `Get`, `l1 = []`;
for `Pick p`, nothing in `l1` satisfies `p` and `x` does -/
theorem step_out (s : St) (op : Op) (x : Nat) (hx : stepOut s op = some x) :
    (step s op).led.returned = s.led.returned ++ [x] ∧
    ∃ l1 rest, s.bus.inside = l1 ++ x :: rest ∧ (step s op).bus.inside = l1 ++ rest ∧ x ∈ s.bus.queue ∧
      ((op = .get ∧ l1 = [] ∧ (step s op).led.got = s.led.got ++ [x]) ∨
       (∃ p, op = .pick p ∧ (∀ y ∈ l1, p y = false) ∧ p x = true ∧ (step s op).led.got = s.led.got)) := by
  cases op with
  | get =>
    simp only [stepOut] at hx
    rcases get_spec s.bus with ⟨h1, h2, h3⟩ | ⟨y, q, h1, h2, h3⟩
    · rw [h1] at hx; cases hx
    · rw [h2] at hx; cases hx
      refine ⟨by simp [step, h2], [], q ++ s.bus.buffer.map (·.2), by simp [inside, h1], by simp [step, h3, inside],
        by simp [h1], Or.inl ⟨rfl, rfl, by simp [step, h2]⟩⟩
  | pick p =>
    simp only [stepOut] at hx
    rcases pick_spec s.bus p with ⟨h1, h2, h3⟩ | ⟨l1, y, l2, h1, h2, h3, h4, h5⟩
    · rw [h1] at hx; cases hx
    · rw [h4] at hx; cases hx
      refine ⟨by simp [step, h4], l1, l2 ++ s.bus.buffer.map (·.2), by simp [inside, h1], by simp [step, h5, inside],
        by simp [h1], Or.inr ⟨p, rfl, h2, h3, by simp [step]⟩⟩
  | _ => simp [stepOut] at hx

theorem step_out_none (s : St) (op : Op) (hx : stepOut s op = none) :
    (step s op).led.returned = s.led.returned ∧ (step s op).led.got = s.led.got := by
  cases op with
  | tryAdd c => simp only [step]; split <;> exact ⟨rfl, rfl⟩
  | get => simp only [stepOut] at hx; simp [step, hx]
  | pick p => simp only [stepOut] at hx; simp [step, hx]
  | _ => exact ⟨rfl, rfl⟩

theorem fifo_step (sel : Nat → Bool) (s : St) (op : Op) (hnr : op.isRevert = false)
    (hsel : ∀ p, op = .pick p → ∀ y, sel y = true → p y = true)
    (h : Ord sel (s.led.returned.filter sel) s.bus.inside s.n) :
    Ord sel ((step s op).led.returned.filter sel) (step s op).bus.inside (step s op).n := by
  cases hx : stepOut s op with
  | none => rw [(step_out_none s op hx).1]; exact h.keep s op hnr
  | some x =>
    obtain ⟨hr, l1, rest, hi, hi', _, hcase⟩ := step_out s op x hx
    rw [hr, List.filter_append, (step_inside s op hnr).1, hi']
    rw [hi] at h
    have hsub : (l1 ++ rest).Sublist (l1 ++ x :: rest) :=
      List.Sublist.append (List.Sublist.refl _) (List.sublist_cons_self _ _)
    by_cases hsx : sel x = true
    · have : [x].filter sel = [x] := by simp [hsx]
      rw [this]
      apply h.take _ hsx
      rcases hcase with ⟨_, hl1, _⟩ | ⟨p, hp, hl1, _, _⟩
      · subst hl1; intro y hy; cases hy
      · intro y hy
        cases hsy : sel y with
        | false => rfl
        | true => have := hsel p hp y hsy; rw [hl1 y hy] at this; exact absurd this (by decide)
    · have : [x].filter sel = [] := by simp [hsx]
      rw [this, List.append_nil]
      exact h.sub hsub

theorem got_step (s : St) (op : Op) (hnr : op.isRevert = false)
    (h : Ord (fun _ => true) s.led.got s.bus.inside s.n) :
    Ord (fun _ => true) (step s op).led.got (step s op).bus.inside (step s op).n := by
  cases hx : stepOut s op with
  | none => rw [(step_out_none s op hx).2]; exact h.keep s op hnr
  | some x =>
    obtain ⟨_, l1, rest, hi, hi', _, hcase⟩ := step_out s op x hx
    rcases hcase with ⟨_, hl1, hg⟩ | ⟨p, _, _, _, hg⟩
    · rw [hg, (step_inside s op hnr).1, hi']
      rw [hi] at h
      apply h.take _ rfl
      subst hl1; intro y hy; cases hy
    · rw [hg]; exact h.keep s op hnr

theorem mem_picksOf {p : Nat → Bool} {h : List Op} (hp : Op.pick p ∈ h) : p ∈ picksOf h := by
  induction h with
  | nil => cases hp
  | cons op h ih =>
    rcases List.mem_cons.mp hp with rfl | h1
    · simp [picksOf]
    · cases op <;> simp [picksOf, ih h1]

theorem ord_nil (sel : Nat → Bool) : Ord sel [] [] 0 :=
  { inc := List.Pairwise.nil
    lt := fun _ hy => nomatch hy
    t_inc := List.Pairwise.nil
    t_lt := fun _ ha => nomatch ha
    t_n := fun _ ha => nomatch ha }

theorem ord_init (sel : Nat → Bool) (ql bl : Int) : Ord sel [] (init ql bl).bus.inside (init ql bl).n := by
  refine { inc := ?_, lt := ?_, t_inc := List.Pairwise.nil, t_lt := ?_, t_n := ?_ } <;>
    simp [init, BufferedBus.new, inside]

/-! ### latency / clean: an id that nothing puts in does not come out -/

/-- every id a step puts into the bus -/
theorem step_inside_mem (s : St) (op : Op) (y : Nat) (hy : y ∈ (step s op).bus.inside) :
    y ∈ s.bus.inside ∨ (y = s.n ∧ op.isRevert = false) ∨ ∃ c, op = .revert y c := by
  by_cases hr : op.isRevert = false
  · rcases (step_inside s op hr).2 with h | h
    · exact Or.inl (h.subset hy)
    · rw [h] at hy
      rcases List.mem_append.mp hy with h1 | h1
      · exact Or.inl h1
      · exact Or.inr (Or.inl ⟨by simpa using h1, hr⟩)
  · cases op with
    | revert x c =>
      simp only [step, BufferedBus.revert, inside, List.map_cons, List.mem_append, List.mem_cons] at hy
      rcases hy with h | h | h
      · exact Or.inl (by simp [inside, h])
      · exact Or.inr (Or.inr ⟨c, by rw [h]⟩)
      · exact Or.inl (by simp only [inside, List.mem_append]; exact Or.inr h)
    | _ => simp [Op.isRevert] at hr

theorem step_n (s : St) (op : Op) : (step s op).n = s.n + 1 := by
  cases op with
  | tryAdd c => simp only [step]; split <;> rfl
  | _ => rfl

theorem step_returned_count (s : St) (op : Op) (x : Nat) (hx : x ∉ s.bus.inside) :
    (step s op).led.returned.count x = s.led.returned.count x := by
  cases ho : stepOut s op with
  | none => rw [(step_out_none s op ho).1]
  | some y =>
    obtain ⟨hr, l1, rest, hi, _, _, _⟩ := step_out s op y ho
    have : y ≠ x := by
      intro h; subst h; exact hx (by rw [hi]; simp)
    rw [hr, List.count_append]
    simp [this]

/-- `x` is not inside and no operation of `h` puts it in (fresh ids are `s.n, s.n+1, …`):
then `x` is never handed out during `h` and is still not inside afterwards. -/
theorem not_inserted (x : Nat) (h : List Op) (s : St) (hx : x ∉ s.bus.inside)
    (hfresh : x < s.n ∨ s.n + h.length ≤ x) (hrev : ∀ c, Op.revert x c ∉ h) :
    x ∉ (runFrom s h).bus.inside ∧ (runFrom s h).led.returned.count x = s.led.returned.count x := by
  induction h generalizing s with
  | nil => exact ⟨hx, rfl⟩
  | cons op h ih =>
    rw [runFrom_cons]
    have hx' : x ∉ (step s op).bus.inside := by
      intro hy
      rcases step_inside_mem s op x hy with h1 | ⟨h1, _⟩ | ⟨c, h1⟩
      · exact hx h1
      · simp only [List.length_cons] at hfresh; omega
      · exact hrev c (by rw [h1]; exact List.mem_cons_self)
    have := ih (step s op) hx' (by rw [step_n]; simp only [List.length_cons] at hfresh; omega)
      (fun c hc => hrev c (List.mem_cons_of_mem _ hc))
    exact ⟨this.1, by rw [this.2, step_returned_count s op x hx]⟩

/-- the id `x`, added at cycle `c`, is still waiting: not visible, not delivered, and every
buffer entry carrying it is stamped `≥ c+1` -/
structure Waiting (x : Nat) (c : Int) (s : St) : Prop where
  nq : x ∉ s.bus.queue
  nr : x ∉ s.led.returned
  stamp : ∀ e ∈ s.bus.buffer, e.2 = x → c + 1 ≤ e.1
  lt : x < s.n

theorem waiting_step (x : Nat) (c : Int) (s : St) (op : Op) (hrev : ∀ c', op ≠ .revert x c')
    (hconn : ∀ c', op = .connect c' → c' < c + 1) (w : Waiting x c s) : Waiting x c (step s op) := by
  have hlt : x < (step s op).n := by rw [step_n]; exact Nat.lt_succ_of_lt w.lt
  have hadd : ∀ c2, Waiting x c { bus := s.bus.add s.n c2, n := s.n + 1, led := { s.led with added := s.led.added ++ [s.n] } } := by
    intro c2
    refine ⟨w.nq, w.nr, ?_, Nat.lt_succ_of_lt w.lt⟩
    intro e he hex
    simp only [BufferedBus.add, List.mem_append, List.mem_singleton] at he
    rcases he with h | h
    · exact w.stamp e h hex
    · subst h; have := w.lt; simp only at hex; omega
  cases op with
  | add c2 => exact hadd c2
  | tryAdd c2 =>
    simp only [step]
    split
    · exact hadd c2
    · exact ⟨w.nq, w.nr, w.stamp, Nat.lt_succ_of_lt w.lt⟩
  | revert y c2 =>
    refine ⟨w.nq, w.nr, ?_, hlt⟩
    intro e he hex
    simp only [step, BufferedBus.revert, List.mem_cons] at he
    rcases he with h | h
    · subst h; simp only at hex; subst hex; exact absurd rfl (hrev c2)
    · exact w.stamp e h hex
  | deleteLast =>
    refine ⟨by simp only [step, deleteLast_queue]; exact w.nq, w.nr, ?_, hlt⟩
    intro e he hex
    exact w.stamp e ((deleteLast_buffer_sublist s.bus).subset he) hex
  | get =>
    rcases get_spec s.bus with ⟨h1, h2, h3⟩ | ⟨y, q, h1, h2, h3⟩
    · refine ⟨by simp only [step, h3]; exact w.nq, by simp only [step, h1, Option.toList_none, List.append_nil]; exact w.nr,
        by simp only [step, h3]; exact w.stamp, hlt⟩
    · have hq := w.nq
      rw [h1] at hq
      simp only [List.mem_cons, not_or] at hq
      refine ⟨by simp only [step, h3]; exact hq.2, ?_, by simp only [step, h3]; exact w.stamp, hlt⟩
      simp only [step, h2, Option.toList_some, List.mem_append, List.mem_singleton, not_or]
      exact ⟨w.nr, hq.1⟩
  | pick p =>
    rcases pick_spec s.bus p with ⟨h1, h2, h3⟩ | ⟨l1, y, l2, h1, h2, h3, h4, h5⟩
    · refine ⟨by simp only [step, h2]; exact w.nq, by simp only [step, h1, Option.toList_none, List.append_nil]; exact w.nr,
        by simp only [step, h2]; exact w.stamp, hlt⟩
    · have hq := w.nq
      rw [h1] at hq
      simp only [List.mem_append, List.mem_cons, not_or] at hq
      refine ⟨by simp only [step, h5, List.mem_append, not_or]; exact ⟨hq.1, hq.2.2⟩, ?_,
        by simp only [step, h5]; exact w.stamp, hlt⟩
      simp only [step, h4, Option.toList_some, List.mem_append, List.mem_singleton, not_or]
      exact ⟨w.nr, hq.2.1⟩
  | connect c' =>
    have hc := hconn c' rfl
    simp only [step, BufferedBus.connect]
    split
    · exact ⟨w.nq, w.nr, w.stamp, Nat.lt_succ_of_lt w.lt⟩
    · obtain ⟨m, hm1, hm2, hm3⟩ := connectLoop_spec s.bus.queueLength c' s.bus.buffer s.bus.queue
      refine ⟨?_, w.nr, ?_, Nat.lt_succ_of_lt w.lt⟩
      · simp only [hm2, List.mem_append, List.mem_map, not_or, not_exists, not_and]
        refine ⟨w.nq, ?_⟩
        intro e he hex
        have h1 := hm3 e he
        have h2 := w.stamp e (by rw [hm1]; exact List.mem_append_left _ he) hex
        omega
      · intro e he hex
        exact w.stamp e (by rw [hm1]; exact List.mem_append_right _ he) hex
  | clean =>
    exact ⟨by simp [step, BufferedBus.clean], w.nr, by simp [step, BufferedBus.clean], hlt⟩

/-! ### capacity -/

theorem step_lengths (s : St) (op : Op) :
    (step s op).bus.queueLength = s.bus.queueLength ∧ (step s op).bus.bufferLength = s.bus.bufferLength := by
  cases op with
  | tryAdd c => simp only [step]; split <;> exact ⟨rfl, rfl⟩
  | deleteLast => simp only [step, deleteLast]; split <;> exact ⟨rfl, rfl⟩
  | get => simp only [step, BufferedBus.get]; split <;> exact ⟨rfl, rfl⟩
  | connect c => simp only [step, BufferedBus.connect]; split <;> exact ⟨rfl, rfl⟩
  | _ => exact ⟨rfl, rfl⟩

theorem queue_cap_step (s : St) (op : Op) (h : (s.bus.queue.length : Int) ≤ s.bus.queueLength) :
    ((step s op).bus.queue.length : Int) ≤ (step s op).bus.queueLength := by
  rw [(step_lengths s op).1]
  cases op with
  | add c => exact h
  | tryAdd c => simp only [step]; split <;> exact h
  | revert y c => exact h
  | deleteLast => simp only [step, deleteLast_queue]; exact h
  | get =>
    rcases get_spec s.bus with ⟨_, _, h3⟩ | ⟨y, q, h1, _, h3⟩
    · simp only [step, h3]; exact h
    · rw [h1] at h; simp only [step, h3, List.length_cons] at h ⊢; omega
  | pick p =>
    rcases pick_spec s.bus p with ⟨_, h2, _⟩ | ⟨l1, y, l2, h1, _, _, _, h5⟩
    · simp only [step, h2]; exact h
    · rw [h1] at h; simp only [step, h5, List.length_append, List.length_cons] at h ⊢; omega
  | connect c =>
    simp only [step, BufferedBus.connect]
    split
    · exact h
    · exact connectLoop_length _ _ _ _ h
  | clean => simp only [step, BufferedBus.clean, List.length_nil]; omega

theorem buffer_cap_step (s : St) (op : Op) (hp : op.isRawAdd = false ∧ op.isRevert = false)
    (h : (s.bus.buffer.length : Int) ≤ s.bus.bufferLength) :
    ((step s op).bus.buffer.length : Int) ≤ (step s op).bus.bufferLength := by
  rw [(step_lengths s op).2]
  cases op with
  | add c => simp [Op.isRawAdd] at hp
  | revert y c => simp [Op.isRevert] at hp
  | tryAdd c =>
    simp only [step]
    split
    · rename_i hca
      simp only [BufferedBus.canAdd, bne_iff_ne, ne_eq] at hca
      simp only [BufferedBus.add, List.length_append, List.length_cons, List.length_nil]
      omega
    · exact h
  | deleteLast =>
    have := (deleteLast_buffer_sublist s.bus).length_le
    simp only [step]; omega
  | get =>
    rcases get_spec s.bus with ⟨_, _, h3⟩ | ⟨y, q, _, _, h3⟩ <;> simp only [step, h3] <;> exact h
  | pick p =>
    rcases pick_spec s.bus p with ⟨_, h2, _⟩ | ⟨l1, y, l2, _, _, _, _, h5⟩
    · simp only [step, h2]; exact h
    · simp only [step, h5]; exact h
  | connect c =>
    simp only [step, BufferedBus.connect]
    split
    · exact h
    · obtain ⟨m, hm1, _, _⟩ := connectLoop_spec s.bus.queueLength c s.bus.buffer s.bus.queue
      have : s.bus.buffer.length = m.length + (connectLoop s.bus.queueLength c s.bus.buffer s.bus.queue).1.length := by
        conv => lhs; rw [hm1]
        simp
      simp only; omega
  | clean => simp only [step, BufferedBus.clean, List.length_nil]; omega

/-! ### revert -/

/-- `x` is at the very front of the bus: at the head of the buffer with nothing visible,
or at the head of the queue -/
def RevertFront (x : Nat) (b : BufferedBus Nat) : Prop :=
  (b.queue = [] ∧ ∃ c rest, b.buffer = (c, x) :: rest) ∨ ∃ q, b.queue = x :: q

theorem revertFront_connect (x : Nat) (b : BufferedBus Nat) (c' : Int) (h : RevertFront x b) :
    RevertFront x (b.connect c') := by
  unfold BufferedBus.connect
  split
  · exact h
  · rename_i hne
    rcases h with ⟨hq, c, rest, hb⟩ | ⟨q, hq⟩
    · rw [hq, hb]
      rw [hq] at hne
      unfold connectLoop
      simp only [hne, if_false, Bool.false_eq_true]
      by_cases hc : c > c'
      · left; simp only [hc, if_true]; exact ⟨trivial, c, rest, rfl⟩
      · right
        simp only [hc, if_false]
        obtain ⟨m, _, hm2, _⟩ := connectLoop_spec b.queueLength c' rest ([] ++ [x])
        exact ⟨m.map (·.2), by rw [hm2]; rfl⟩
    · right
      obtain ⟨m, _, hm2, _⟩ := connectLoop_spec b.queueLength c' b.buffer b.queue
      exact ⟨q ++ m.map (·.2), by show (connectLoop b.queueLength c' b.buffer b.queue).2 = _; rw [hm2, hq]; rfl⟩

theorem revertFront_connects (x : Nat) (cs : List Int) (b : BufferedBus Nat) (h : RevertFront x b) :
    RevertFront x (cs.foldl BufferedBus.connect b) := by
  induction cs generalizing b with
  | nil => exact h
  | cons c cs ih => exact ih _ (revertFront_connect x b c h)

theorem revertFront_get (x : Nat) (b : BufferedBus Nat) (h : RevertFront x b) :
    b.get.1 = none ∨ b.get.1 = some x := by
  rcases h with ⟨hq, _⟩ | ⟨q, hq⟩
  · left; simp [BufferedBus.get, hq]
  · right; simp [BufferedBus.get, hq]

theorem runFrom_connects (s : St) (cs : List Int) :
    (runFrom s (cs.map Op.connect)).bus = cs.foldl BufferedBus.connect s.bus ∧
    (runFrom s (cs.map Op.connect)).led = s.led := by
  induction cs generalizing s with
  | nil => exact ⟨rfl, rfl⟩
  | cons c cs ih =>
    simp only [List.map_cons, runFrom_cons, List.foldl_cons]
    exact ih (step s (.connect c))

/-- with room in the queue and the stamp due, one `Connect` makes the reverted id the head -/
theorem revert_connect_head (x : Nat) (b : BufferedBus Nat) (c c' : Int) (hq : b.queue = [])
    (hql : b.queueLength ≠ 0) (hc : c ≤ c') : ∃ q, ((b.revert x c).connect c').queue = x :: q := by
  unfold BufferedBus.connect BufferedBus.revert
  simp only [hq, List.length_nil]
  have h0 : ((((0 : Nat) : Int)) == b.queueLength) = false := by
    simp only [beq_eq_false_iff_ne, ne_eq]; intro h; exact hql h.symm
  simp only [h0, Bool.false_eq_true, if_false]
  unfold connectLoop
  have hc' : ¬ c > c' := by omega
  simp only [List.length_nil, h0, Bool.false_eq_true, if_false, hc']
  obtain ⟨m, _, hm2, _⟩ := connectLoop_spec b.queueLength c' b.buffer ([] ++ [x])
  exact ⟨m.map (·.2), by rw [hm2]; rfl⟩

end Proofs.Bus

/-! ## SimpleBus -/

namespace Proofs.SBus
open Model.SBusHist Proofs.Bus

theorem runFrom_cons (s : St) (op : Op) (h : List Op) : runFrom s (op :: h) = runFrom (step s op) h := rfl
theorem runFrom_append (s : St) (h1 h2 : List Op) : runFrom s (h1 ++ h2) = runFrom (runFrom s h1) h2 := by
  simp [runFrom, List.foldl_append]

theorem runFrom_inv (P : St → Prop) (h : List Op)
    (hstep : ∀ s op, op ∈ h → P s → P (step s op)) (s : St) (hs : P s) : P (runFrom s h) := by
  induction h generalizing s with
  | nil => exact hs
  | cons op h ih =>
    rw [runFrom_cons]
    apply ih
    · intro s' op' hop' hp
      exact hstep s' op' (List.mem_cons_of_mem _ hop') hp
    · exact hstep s op (List.mem_cons_self) hs

theorem step_n (s : St) (op : Op) : (step s op).n = s.n + 1 := by
  cases op with
  | tryAdd => simp only [step]; split <;> rfl
  | _ => rfl

def Conserved (s : St) : Prop :=
  ∀ x, s.added.count x = s.returned.count x + s.bus.inside.count x + s.removed.count x

theorem conserved_step (s : St) (op : Op) (hc : Conserved s) : Conserved (step s op) := by
  intro x
  have hx := hc x
  obtain ⟨⟨p, c⟩, n, a, r, rm⟩ := s
  cases op <;> cases p <;> cases c <;>
    simp only [step, SimpleBus.add, SimpleBus.get, SimpleBus.flush, SimpleBus.clean, SimpleBus.canAdd,
      SimpleBus.inside, Option.isNone_none, Option.isNone_some, if_true, if_false, Bool.false_eq_true,
      Option.toList_none, Option.toList_some, List.count_append, List.count_cons, List.count_nil,
      List.append_nil, List.nil_append] at hx ⊢ <;> omega

theorem Ord.sub0 {sel T ins ins' n} (h : Ord sel T ins n) (hs : ins'.Sublist ins) : Ord sel T ins' n :=
  { inc := h.inc.sublist hs
    lt := fun y hy => h.lt y (hs.subset hy)
    t_inc := h.t_inc
    t_lt := fun a ha y hy hsel => h.t_lt a ha y (hs.subset hy) hsel
    t_n := h.t_n }

theorem ord_step (s : St) (op : Op) (h : Ord (fun _ => true) s.returned s.bus.inside s.n) :
    Ord (fun _ => true) (step s op).returned (step s op).bus.inside (step s op).n := by
  obtain ⟨⟨p, c⟩, n, a, r, rm⟩ := s
  have hadd : Ord (fun _ => true) r (c.toList ++ [n]) (n + 1) :=
    (Ord.sub0 h (List.sublist_append_left _ _)).push
  cases op with
  | add => exact hadd
  | tryAdd =>
    simp only [step]
    split
    · exact hadd
    · exact h.sub (List.Sublist.refl _)
  | get =>
    cases c with
    | none =>
      simp only [step, SimpleBus.get, Option.toList_none, List.append_nil, SimpleBus.inside, List.nil_append] at h ⊢
      exact h.sub (List.Sublist.refl _)
    | some x =>
      have h' : Ord (fun _ => true) r ([] ++ x :: p.toList) n := h
      have := h'.take (by intro y hy; cases hy) rfl
      simpa [step, SimpleBus.get, SimpleBus.inside] using this
  | flush =>
    simp only [step, SimpleBus.flush, SimpleBus.inside, Option.toList_none, List.append_nil]
    exact h.sub (List.nil_sublist _)
  | clean =>
    simp only [step, SimpleBus.clean, SimpleBus.inside, Option.toList_none, List.append_nil]
    exact h.sub (List.nil_sublist _)

/-- `x` sits in `pending`, or (after one `Get`) in `current`, or is gone; with at most
`k` more `Get`s allowed before it may appear it is not handed out -/
theorem not_before_second_get (x : Nat) (h : List Op) (s : St) (hr : x ∉ s.returned) (hn : x < s.n)
    (hg : h.count .get = 0 ∨ (h.count .get ≤ 1 ∧ s.bus.current ≠ some x)) :
    x ∉ (runFrom s h).returned := by
  induction h generalizing s with
  | nil => exact hr
  | cons op h ih =>
    rw [runFrom_cons]
    have hn' : x < (step s op).n := by rw [step_n]; omega
    obtain ⟨⟨p, c⟩, n, a, r, rm⟩ := s
    cases op with
    | get =>
      simp only [List.count_cons_self] at hg
      rcases hg with hg | ⟨hg1, hg2⟩
      · omega
      · refine ih (step _ .get) ?_ hn' (Or.inl (by omega))
        simp only [step, SimpleBus.get, List.mem_append, Option.mem_toList, not_or]
        exact ⟨hr, hg2⟩
    | add =>
      refine ih (step _ .add) hr hn' ?_
      simpa [List.count_cons, step, SimpleBus.add] using hg
    | tryAdd =>
      refine ih (step _ .tryAdd) ?_ hn' ?_
      · simp only [step]; split <;> exact hr
      · simp only [step]; split <;> simpa [List.count_cons, SimpleBus.add] using hg
    | flush =>
      refine ih (step _ .flush) hr hn' ?_
      rcases hg with hg | ⟨hg1, _⟩
      · left; simpa [List.count_cons] using hg
      · right; exact ⟨by simpa [List.count_cons] using hg1, by simp [step, SimpleBus.flush]⟩
    | clean =>
      refine ih (step _ .clean) hr hn' ?_
      rcases hg with hg | ⟨hg1, _⟩
      · left; simpa [List.count_cons] using hg
      · right; exact ⟨by simpa [List.count_cons] using hg1, by simp [step, SimpleBus.clean]⟩

theorem not_inserted_step (x : Nat) (s : St) (op : Op) (hx : x ∉ s.bus.inside) (hn : x < s.n) :
    x ∉ (step s op).bus.inside ∧ (step s op).returned.count x = s.returned.count x := by
  obtain ⟨⟨p, c⟩, n, a, r, rm⟩ := s
  have hne : n ≠ x := by simp only at hn; omega
  have hne' : x ≠ n := fun h => hne h.symm
  cases op <;> cases p <;> cases c <;>
    simp_all [step, SimpleBus.add, SimpleBus.get, SimpleBus.flush, SimpleBus.clean, SimpleBus.canAdd,
      SimpleBus.inside, List.count_append, List.count_cons] <;> omega

/-- an id that is not inside and that no later operation creates is never handed out -/
theorem not_inserted (x : Nat) (h : List Op) (s : St) (hx : x ∉ s.bus.inside) (hn : x < s.n) :
    x ∉ (runFrom s h).bus.inside ∧ (runFrom s h).returned.count x = s.returned.count x := by
  induction h generalizing s with
  | nil => exact ⟨hx, rfl⟩
  | cons op h ih =>
    rw [runFrom_cons]
    have hn' : x < (step s op).n := by rw [step_n]; omega
    have key := not_inserted_step x s op hx hn
    have := ih (step s op) key.1 hn'
    exact ⟨this.1, by rw [this.2, key.2]⟩

end Proofs.SBus

namespace Proofs.Bus
open Model.BufferedBus Model.BusHist

/-! ### small ledger invariants -/

theorem added_sorted_step (s : St) (op : Op)
    (h : s.led.added.Pairwise (· < ·) ∧ ∀ a ∈ s.led.added, a < s.n) :
    (step s op).led.added.Pairwise (· < ·) ∧ ∀ a ∈ (step s op).led.added, a < (step s op).n := by
  have hadd : (s.led.added ++ [s.n]).Pairwise (· < ·) ∧ ∀ a ∈ s.led.added ++ [s.n], a < s.n + 1 := by
    refine ⟨?_, ?_⟩
    · rw [List.pairwise_append]
      refine ⟨h.1, List.pairwise_singleton _ _, ?_⟩
      intro a ha b hb
      rw [List.mem_singleton] at hb; subst hb; exact h.2 a ha
    · intro a ha
      rcases List.mem_append.mp ha with h1 | h1
      · exact Nat.lt_succ_of_lt (h.2 a h1)
      · rw [List.mem_singleton] at h1; omega
  have hkeep : s.led.added.Pairwise (· < ·) ∧ ∀ a ∈ s.led.added, a < s.n + 1 :=
    ⟨h.1, fun a ha => Nat.lt_succ_of_lt (h.2 a ha)⟩
  cases op with
  | add c => exact hadd
  | tryAdd c => simp only [step]; split; exact hadd; exact hkeep
  | _ => exact hkeep

theorem reverted_nil_step (s : St) (op : Op) (hnr : op.isRevert = false) (h : s.led.reverted = []) :
    (step s op).led.reverted = [] := by
  cases op with
  | revert x c => simp [Op.isRevert] at hnr
  | tryAdd c => simp only [step]; split <;> exact h
  | _ => exact h

end Proofs.Bus

/-
  Proofs/Mvp4Exec.lean — the execute unit of MVP-4 against one step of the unpipelined machine.
-/
import MajoranaVerif.Proofs.Mvp4Rel
import MajoranaVerif.Proofs.SeqMachine
open GoInt Model Model.Mvp4 Model.Seq
open Proofs.Mmu (DWf Coh applyChanges base)

set_option linter.unusedSimpArgs false
set_option linter.unusedVariables false

namespace Proofs.Mvp4

/-- decode cost of the reference machine (MVP-1) -/
abbrev dc : Int := Gen.Consts.mvp1.cyclesDecode

theorem instrAt_ok {app : App} {pc : Word} {i : Gen.Instr} (h : instrAt app pc = .ok i) :
    ¬ Int.tdiv pc.toInt 4 < 0 ∧ app.instrs[(Int.tdiv pc.toInt 4).toNat]? = some i ∧
      Int.tdiv pc.toInt 4 < app.instrs.length := by
  unfold instrAt at h
  simp only at h
  by_cases h0 : Int.tdiv pc.toInt 4 < 0
  · simp [h0, throw, throwThe, MonadExceptOf.throw] at h
  · simp only [h0, if_false] at h
    cases hg : app.instrs[(Int.tdiv pc.toInt 4).toNat]? with
    | none => simp [hg, throw, throwThe, MonadExceptOf.throw] at h
    | some j =>
      simp only [hg, pure, Except.pure] at h
      injection h with h; subst h
      refine ⟨h0, rfl, ?_⟩
      have := (List.getElem?_eq_some_iff.mp hg).1
      omega

theorem pastEnd_of_instrAt {app : App} {pc : Word} {i : Gen.Instr} (h : instrAt app pc = .ok i) :
    pastEnd app pc = false := by
  have := (instrAt_ok h).2.2
  unfold pastEnd
  simp; omega

/-- the rest of `stepArch` once the instruction and the bytes it reads are known -/
def stepTail (app : App) (a : Arch) (i : Gen.Instr) (bytes : List Byte) : StepResult :=
  let mr : Int := if (i.memoryRead a.ctx 0#32).isEmpty then 0 else Gen.Latency.MemoryAccess
  match i.run a.ctx app.labels a.pc bytes 0#32 with
  | .error (.err _) => .halt .err ⟨dc, mr, 0, 0⟩
  | .error (.panic w) => .halt (.panic w) ⟨dc, mr, 0, 0⟩
  | .ok e =>
    match Gen.InstructionType.Cycles i.instructionType with
    | .error _ => .halt (.panic "Cycles") ⟨dc, mr, 0, 0⟩
    | .ok ex =>
      if e.Return then .halt .ret ⟨dc, mr, ex, 0⟩
      else
        let pc' := if e.PcChange then e.NextPc else a.pc + 4#32
        if e.RegisterChange then
          .next ⟨writeRegister a.ctx e, pc'⟩ ⟨dc, mr, ex, Gen.Latency.RegisterAccess⟩
        else if e.MemoryChange then
          match writeMemory a.ctx e with
          | none => .halt (.panic "memory index") ⟨dc, mr, ex, 0⟩
          | some c => .next ⟨c, pc'⟩ ⟨dc, mr, ex, Gen.Latency.MemoryAccess⟩
        else .next ⟨a.ctx, pc'⟩ ⟨dc, mr, ex, 0⟩

theorem stepArch_run {app : App} {a : Arch} {i : Gen.Instr} {bytes : List Byte}
    (hi : instrAt app a.pc = .ok i)
    (hb : (i.memoryRead a.ctx 0#32).mapM (readMem a.ctx.Memory) = some bytes) :
    stepArch dc app a = stepTail app a i bytes := by
  obtain ⟨h0, hg, hlt⟩ := instrAt_ok hi
  unfold stepArch stepTail
  simp only [hlt, not_true_eq_false, if_false, h0, hg, hb]
  rfl

theorem stepArch_offEnd {app : App} {a : Arch} (h : pastEnd app a.pc = true) :
    stepArch dc app a = .halt .offEnd ⟨0, 0, 0, 0⟩ := by
  unfold pastEnd at h
  have : ¬ Int.tdiv a.pc.toInt 4 < app.instrs.length := by simpa using h
  unfold stepArch
  simp only [this, not_false_eq_true, if_true]


/-! ### what `stepOk` says about the instruction at the architectural pc -/

theorem stepOk_load {app : App} {a : Arch} {i : Gen.Instr} (hok : stepOk app a = true)
    (hi : instrAt app a.pc = .ok i) :
    Model.Mmu.loadOk (L : Nat) a.ctx.Memory.length (i.memoryRead a.ctx 0#32) = true := by
  obtain ⟨h0, hg, hlt⟩ := instrAt_ok hi
  unfold stepOk at hok
  simp only [hlt, not_true_eq_false, if_false, h0, hg, Bool.and_eq_true] at hok
  have := hok.1
  rw [hcfg] at this
  exact this

theorem stepOk_run {app : App} {a : Arch} {i : Gen.Instr} {bytes : List Byte} {e : Gen.Execution}
    (hok : stepOk app a = true) (hi : instrAt app a.pc = .ok i)
    (hb : (i.memoryRead a.ctx 0#32).mapM (readMem a.ctx.Memory) = some bytes)
    (hr : i.run a.ctx app.labels a.pc bytes 0#32 = .ok e) :
    (e.Return = false → e.RegisterChange = false → e.MemoryChange = true →
        Model.Mmu.storeOk (L : Nat) a.ctx.Memory.length e.MemoryChanges = true) ∧
    (e.PcChange = true → e.NextPc ≠ BitVec.ofInt 32 (-1)) := by
  obtain ⟨h0, hg, hlt⟩ := instrAt_ok hi
  unfold stepOk at hok
  simp only [hlt, not_true_eq_false, if_false, h0, hg, hb, hr, Bool.and_eq_true] at hok
  obtain ⟨_, h1, h2⟩ := hok
  constructor
  · intro hret hrc hmc
    simp only [hret, hrc, hmc, Bool.not_false, Bool.and_self, if_true] at h1
    rw [hcfg] at h1
    exact h1
  · intro hpc
    simp only [hpc, if_true, bne_iff_ne, ne_eq] at h2
    exact h2

/-! ### registers: the hazard interlock gives the sequential operand values -/

/-- no queued result writes a register in `rs` (other than `x0`) -/
def NoWriter (q : List ExecCtx) (rs : List Reg) : Prop :=
  ∀ reg ∈ rs, reg ≠ 0 → ∀ ec ∈ q, ec.execution.RegisterChange = true → ec.execution.Register ≠ reg

/-- `IsWriteDataHazard` false ⇒ no queued writer of a register the instruction reads -/
theorem noWriter_of_hazard {ctx pwmi q l1d sid a} (hb : BackRel ctx pwmi q l1d sid a) {rs : List Reg}
    (h : isWriteDataHazard ctx.PendingWriteRegisters rs = false) : NoWriter q rs := by
  intro reg hreg h0 ec hec hrc heq
  have h1 := hazard_false h reg hreg h0
  have h2 := hb.score reg
  have hmem : reg ∈ q.flatMap (·.writeRegisters) := by
    rw [List.mem_flatMap]
    refine ⟨ec, hec, ?_⟩
    rw [hb.shape ec hec, hrc, if_pos rfl, heq]
    simp
  have := List.count_pos_iff.mpr hmem
  omega

/-- with no queued writer of the registers it reads, the instruction cannot tell the pipeline's register file
from the architectural one -/
theorem sameRegs_of_noWriter {ctx pwmi q l1d sid a} (hb : BackRel ctx pwmi q l1d sid a) {rs : List Reg}
    (h : NoWriter q rs) : SameRegs ctx a.ctx rs :=
  { rat1 := hb.rat, rat2 := hb.arat, tx1 := hb.tx, tx2 := hb.atx,
    regs := fun r hr h0 => by
      rw [hb.regs, get1_applyRegs_of_no_writer r q ctx.Registers (fun ec hec hrc => h r hr h0 ec hec hrc)] }

theorem NoWriter.of_suffix {q q' : List ExecCtx} {rs : List Reg} (h : NoWriter q rs) (hs : ∀ ec ∈ q', ec ∈ q) :
    NoWriter q' rs := fun reg hreg h0 ec hec => h reg hreg h0 ec (hs ec hec)


/-! ### how the back-end relation follows the execute unit's updates -/

theorem applyMemQ_comm (chs : List (Word × Byte)) : ∀ (q : List ExecCtx) (F0 : List Byte),
    (∀ ec ∈ q, isStore ec = true → ∀ p' ∈ ec.execution.MemoryChanges, ∀ p ∈ chs, p'.1.toInt.toNat ≠ p.1.toInt.toNat) →
    applyChanges (applyMemQ F0 q) chs = applyMemQ (applyChanges F0 chs) q := by
  intro q
  induction q with
  | nil => intro F0 _; rfl
  | cons ec q ih =>
    intro F0 h
    rw [applyMemQ_cons, applyMemQ_cons]
    rw [ih _ (fun e he => h e (List.mem_cons_of_mem _ he))]
    by_cases hs : isStore ec = true
    · simp only [hs, if_true]
      rw [applyChanges_comm ec.execution.MemoryChanges chs F0 (h ec (by simp) hs)]
    · have hs' : isStore ec = false := by simpa using hs
      simp only [hs', Bool.false_eq_true, if_false]

/-- a non-negative address no resident line covers stays uncovered when the resident blocks do not grow -/
theorem uncovered_transfer {l1d l1d' : LineCache.Cache} (hd : DWf L N l1d) (hd' : DWf L N l1d')
    (hsub : ∀ y' ∈ l1d'.lines, ∃ y ∈ l1d.lines, y.lo = y'.lo) {x : Int} (hx : 0 ≤ x)
    (h : ∀ y ∈ l1d.lines, y.covers x = false) : ∀ y' ∈ l1d'.lines, y'.covers x = false := by
  intro y' hy'
  cases hc : y'.covers x with
  | false => rfl
  | true =>
    have h1 := ((hd'.lines y' hy').covers_iff hL x hx).mp hc
    obtain ⟨y, hy, hlo⟩ := hsub y' hy'
    have h2 := ((hd.lines y hy).covers_iff hL x hx).mpr (by rw [hlo, h1])
    rw [h y hy] at h2
    cases h2

theorem BackRel.with_mem_l1d {ctx : Model.Context} {pwmi q l1d sid a} (hb : BackRel ctx pwmi q l1d sid a)
    (mem' : List Byte) (l1d' : LineCache.Cache) (hd : DWf L N l1d')
    (hc : ∀ F0, Coh l1d.lines ctx.Memory F0 → Coh l1d'.lines mem' F0)
    (hun : ∀ ec ∈ q, isStore ec = true → ∀ p ∈ ec.execution.MemoryChanges, ∀ y ∈ l1d'.lines, y.covers p.1.toInt = false) :
    BackRel { ctx with Memory := mem' } pwmi q l1d' sid a :=
  { rat := hb.rat, tx := hb.tx, arat := hb.arat, atx := hb.atx, regs := hb.regs, dwf := hd,
    coh := by
      obtain ⟨F0, h1, h2⟩ := hb.coh
      exact ⟨F0, hc F0 h1, h2⟩,
    shape := hb.shape, score := hb.score, stOk := hb.stOk, stUncached := hun, stPw := hb.stPw,
    ids := hb.ids, idsLe := hb.idsLe, scoreUp := hb.scoreUp, pwSub := hb.pwSub, pwNodup := hb.pwNodup }

theorem BackRel.push_plain {ctx : Model.Context} {pwmi q l1d sid a} (hb : BackRel ctx pwmi q l1d sid a)
    (ec : ExecCtx) (a' : Arch)
    (hshape : ec.writeRegisters = (if ec.execution.RegisterChange then [ec.execution.Register] else []))
    (hns : isStore ec = false) (har : a'.ctx.rat = false) (hat : a'.ctx.Transaction.entries = [])
    (hregs : a'.ctx.Registers = (if ec.execution.RegisterChange then
        a.ctx.Registers.set ec.execution.Register ec.execution.RegisterValue else a.ctx.Registers))
    (hmem : a'.ctx.Memory = a.ctx.Memory) :
    BackRel { ctx with PendingWriteRegisters := addPendingWriteRegisters ctx.PendingWriteRegisters ec.writeRegisters }
      pwmi (q ++ [ec]) l1d sid a' := by
  have hmemq : ∀ e' ∈ q ++ [ec], e' ∈ q ∨ e' = ec := fun e' he => by
    rcases List.mem_append.mp he with h | h
    · exact Or.inl h
    · exact Or.inr (by simpa using h)
  refine { rat := hb.rat, tx := hb.tx, arat := har, atx := hat, regs := ?_, dwf := hb.dwf, coh := ?_, shape := ?_,
           score := ?_, stOk := ?_, stUncached := ?_, stPw := ?_, ids := ?_, idsLe := ?_,
           scoreUp := ?_, pwSub := ?_, pwNodup := hb.pwNodup }
  rotate_left 9
  · intro r
    rw [List.flatMap_append, List.count_append]
    have h1 := hb.scoreUp r
    have h2 := get1_addPending ec.writeRegisters ctx.PendingWriteRegisters r
    simp only [List.flatMap_cons, List.flatMap_nil, List.append_nil]
    show GoMap.get1 (addPendingWriteRegisters ctx.PendingWriteRegisters ec.writeRegisters) r ≤ _
    rw [h2]
    omega
  · intro x hx
    obtain ⟨e', he', rest⟩ := hb.pwSub x hx
    exact ⟨e', List.mem_append_left _ he', rest⟩
  · rw [hregs, applyRegs_append, hb.regs]
  · obtain ⟨F0, h1, h2⟩ := hb.coh
    refine ⟨F0, h1, ?_⟩
    rw [hmem, h2, applyMemQ_append, hns]; rfl
  · intro e' he
    rcases hmemq e' he with h | h
    · exact hb.shape e' h
    · subst h; exact hshape
  · intro r
    rw [List.flatMap_append, List.count_append]
    have h1 := hb.score r
    have h2 := get1_addPending ec.writeRegisters ctx.PendingWriteRegisters r
    simp only [List.flatMap_cons, List.flatMap_nil, List.append_nil]
    show _ ≤ GoMap.get1 (addPendingWriteRegisters ctx.PendingWriteRegisters ec.writeRegisters) r
    rw [h2]
    omega
  · intro e' he hs
    rcases hmemq e' he with h | h
    · rw [hmem]; exact hb.stOk e' h hs
    · subst h; rw [hns] at hs; cases hs
  · intro e' he hs
    rcases hmemq e' he with h | h
    · exact hb.stUncached e' h hs
    · subst h; rw [hns] at hs; cases hs
  · intro e' he hs
    rcases hmemq e' he with h | h
    · exact hb.stPw e' h hs
    · subst h; rw [hns] at hs; cases hs
  · rw [storeIds_append, hns]; exact hb.ids
  · rw [storeIds_append, hns]; exact hb.idsLe

theorem BackRel.push_store {ctx : Model.Context} {pwmi q l1d sid a} (hb : BackRel ctx pwmi q l1d sid a)
    (ec : ExecCtx) (a' : Arch)
    (hshape : ec.writeRegisters = (if ec.execution.RegisterChange then [ec.execution.Register] else []))
    (hst : isStore ec = true) (hid : ec.sequenceID = sid + 1)
    (har : a'.ctx.rat = false) (hat : a'.ctx.Transaction.entries = [])
    (hregs : a'.ctx.Registers = a.ctx.Registers)
    (hmem : a'.ctx.Memory = applyChanges a.ctx.Memory ec.execution.MemoryChanges)
    (hok : Model.Mmu.storeOk (L : Nat) a.ctx.Memory.length ec.execution.MemoryChanges = true)
    (hun : ∀ p ∈ ec.execution.MemoryChanges, ∀ y ∈ l1d.lines, y.covers p.1.toInt = false) :
    BackRel { ctx with PendingWriteRegisters := addPendingWriteRegisters ctx.PendingWriteRegisters ec.writeRegisters }
      (addPwmiAll pwmi (sid + 1) ec.execution.MemoryChanges) (q ++ [ec]) l1d (sid + 1) a' := by
  have hmemq : ∀ e' ∈ q ++ [ec], e' ∈ q ∨ e' = ec := fun e' he => by
    rcases List.mem_append.mp he with h | h
    · exact Or.inl h
    · exact Or.inr (by simpa using h)
  have hrc : ec.execution.RegisterChange = false := by
    simp only [isStore, Bool.and_eq_true, Bool.not_eq_true'] at hst; exact hst.1
  have hws : ec.writeRegisters = [] := by rw [hshape, hrc]; rfl
  have hlen : a'.ctx.Memory.length = a.ctx.Memory.length := by rw [hmem, Proofs.Mmu.applyChanges_length]
  refine { rat := hb.rat, tx := hb.tx, arat := har, atx := hat, regs := ?_, dwf := hb.dwf, coh := ?_, shape := ?_,
           score := ?_, stOk := ?_, stUncached := ?_, stPw := ?_, ids := ?_, idsLe := ?_,
           scoreUp := ?_, pwSub := ?_, pwNodup := addPwmiAll_nodup _ _ _ hb.pwNodup }
  rotate_left 9
  · intro r
    rw [List.flatMap_append, List.count_append]
    have h1 := hb.scoreUp r
    simp only [List.flatMap_cons, List.flatMap_nil, List.append_nil, hws, List.count_nil, Nat.add_zero]
    show GoMap.get1 (addPendingWriteRegisters ctx.PendingWriteRegisters []) r ≤ _
    exact h1
  · intro x hx
    rcases addPwmiAll_mem_inv _ _ _ x hx with h | ⟨c, hc, he⟩
    · obtain ⟨e', he', rest⟩ := hb.pwSub x h
      exact ⟨e', List.mem_append_left _ he', rest⟩
    · refine ⟨ec, by simp, hst, by rw [he, hid], c, hc, by rw [he]⟩
  · rw [hregs, applyRegs_append, hb.regs, hrc]; rfl
  · obtain ⟨F0, h1, h2⟩ := hb.coh
    refine ⟨F0, h1, ?_⟩
    rw [hmem, h2, applyMemQ_append, hst]; rfl
  · intro e' he
    rcases hmemq e' he with h | h
    · exact hb.shape e' h
    · subst h; exact hshape
  · intro r
    rw [List.flatMap_append, List.count_append]
    have h1 := hb.score r
    simp only [List.flatMap_cons, List.flatMap_nil, List.append_nil, hws, List.count_nil, Nat.add_zero]
    show _ ≤ GoMap.get1 (addPendingWriteRegisters ctx.PendingWriteRegisters []) r
    exact h1
  · intro e' he hs
    rw [hlen]
    rcases hmemq e' he with h | h
    · exact hb.stOk e' h hs
    · subst h; exact hok
  · intro e' he hs
    rcases hmemq e' he with h | h
    · exact hb.stUncached e' h hs
    · subst h; exact hun
  · intro e' he hs p hp
    rcases hmemq e' he with h | h
    · exact addPwmiAll_mem_old _ _ _ _ (hb.stPw e' h hs p hp)
    · subst h; rw [hid]; exact addPwmiAll_mem_new _ _ _ p hp
  · rw [storeIds_append, hst]
    simp only [if_true]
    rw [List.pairwise_append]
    refine ⟨hb.ids, by simp, ?_⟩
    intro x hx y hy
    simp only [List.mem_singleton] at hy
    have := hb.idsLe x hx
    omega
  · rw [storeIds_append, hst]
    simp only [if_true]
    intro id hidm
    rcases List.mem_append.mp hidm with h | h
    · have := hb.idsLe id h; omega
    · simp only [List.mem_singleton] at h; omega

theorem BackRel.cached_store {ctx : Model.Context} {pwmi q l1d sid a} (hb : BackRel ctx pwmi q l1d sid a)
    (chs : List (Word × Byte)) (l1d' : LineCache.Cache) (a' : Arch) (hd : DWf L N l1d')
    (hc : ∀ F0, Coh l1d.lines ctx.Memory F0 → Coh l1d'.lines ctx.Memory (applyChanges F0 chs))
    (hsub : ∀ y' ∈ l1d'.lines, ∃ y ∈ l1d.lines, y.lo = y'.lo)
    (hdisj : ∀ ec ∈ q, isStore ec = true → ∀ p' ∈ ec.execution.MemoryChanges, ∀ p ∈ chs, p'.1.toInt.toNat ≠ p.1.toInt.toNat)
    (har : a'.ctx.rat = false) (hat : a'.ctx.Transaction.entries = [])
    (hregs : a'.ctx.Registers = a.ctx.Registers) (hmem : a'.ctx.Memory = applyChanges a.ctx.Memory chs) :
    BackRel ctx pwmi q l1d' sid a' := by
  have hlen : a'.ctx.Memory.length = a.ctx.Memory.length := by rw [hmem, Proofs.Mmu.applyChanges_length]
  refine { rat := hb.rat, tx := hb.tx, arat := har, atx := hat, regs := by rw [hregs]; exact hb.regs, dwf := hd,
           coh := ?_, shape := hb.shape, score := hb.score, stOk := ?_, stUncached := ?_, stPw := hb.stPw,
           ids := hb.ids, idsLe := hb.idsLe, scoreUp := hb.scoreUp, pwSub := hb.pwSub, pwNodup := hb.pwNodup }
  · obtain ⟨F0, h1, h2⟩ := hb.coh
    refine ⟨applyChanges F0 chs, hc F0 h1, ?_⟩
    rw [hmem, h2]
    exact applyMemQ_comm chs q F0 hdisj
  · intro e' he hs
    rw [hlen]; exact hb.stOk e' he hs
  · intro e' he hs p hp
    have h0 := (storeOk_inb (hb.stOk e' he hs) p hp).1
    exact uncovered_transfer hb.dwf hd hsub h0 (hb.stUncached e' he hs p hp)


/-! ### one instruction through `executeUnit.run` -/

/-- the back-end relation of a whole machine state -/
def Back (s : State) (a : Arch) : Prop := BackRel s.ctx s.pwmi s.writeBus.inside s.mmu.l1d s.eu.storeID a

/-- what `executeUnit.run` leaves alone -/
structure Frame (s s2 : State) : Prop where
  fu : s2.fu = s.fu
  decodeBus : s2.decodeBus = s.decodeBus
  executeBus : s2.executeBus = s.executeBus
  wu : s2.wu = s.wu
  mode : s2.mode = s.mode
  cycles : s2.cycles = s.cycles
  pend : s2.eu.pendingMemoryRead = s.eu.pendingMemoryRead
  mem : s2.eu.memory = s.eu.memory

theorem assert_branch (bu0 : BranchUnit) (r : Runner) (h : isBranchType r.instr.instructionType = true) :
    (bu0.assert r).toCheck = true ∧
    (bu0.assert r).expectation =
      (if r.instr.instructionType.IsUnconditionalBranch then BitVec.ofInt 32 (-1) else r.pc + 4#32) := by
  unfold BranchUnit.assert
  simp only
  by_cases hu : r.instr.instructionType.IsUnconditionalBranch = true
  · simp [hu]
  · have hu' : r.instr.instructionType.IsUnconditionalBranch = false := by simpa using hu
    have hc : r.instr.instructionType.IsConditionalBranch = true := by
      simpa [isBranchType, hu'] using h
    simp [hu', hc]

end Proofs.Mvp4

/-
  Proofs/Mvp60LdWitness.lean — package R60d: a straight-line program with memory reads on which the statements of
  `Props/C05.lean` are evaluated: two loads of one cold line (the second finds the line in `pendings` and waits), a later hit,
  a load of a second line.  Kernel evaluation of the model through `runFast` (`Proofs.Mvp60Fast.runFast_eq_run`).
-/
import MajoranaVerif.Model.Mvp60Class
import MajoranaVerif.Proofs.Mvp60Fast
import MajoranaVerif.Proofs.Refine
open GoInt

namespace Proofs.Mvp60LdWitness
open Model.Mvp60

/-- `lw t0, 0(zero); lw t1, 4(zero); add a0, t0, t1; lb t2, 9(zero); lh s0, 70(zero)` -/
def ldApp : Model.Seq.App :=
  { instrs := [.lw_ { rd := 5, rs := 0, offset := 0#32 }, .lw_ { rd := 6, rs := 0, offset := 4#32 }, .add_ { rd := 10, rs1 := 5, rs2 := 6 },
               .lb_ { rd := 7, rs := 0, offset := 9#32 }, .lh_ { rd := 8, rs := 0, offset := 70#32 }],
    labels := {} }

/-- 128 bytes of memory: byte `i` holds `i + 1` -/
def ctxL : Model.Context := { Memory := (List.range 128).map (fun i => BitVec.ofNat 8 (i + 1)) }

/-- how the run ended, the registers `t0 t1 a0 t2 s0`, and whether memory is the initial memory -/
def obsL (h : Option Model.Seq.Halt) (c : Model.Context) : Option Model.Seq.Halt × List Word × Bool :=
  (h, [5, 6, 10, 7, 8].map (fun r => c.Registers.get1 r), c.Memory == ctxL.Memory)

theorem ld_class : StraightLineLd ldApp = true ∧ StraightLine ldApp = false := by decide

theorem ld_seq : obsL (Model.Seq.runMvp1 ldApp ⟨ctxL, 0⟩ 20).halt (Model.Seq.runMvp1 ldApp ⟨ctxL, 0⟩ 20).final.ctx =
    (some .offEnd, [0x04030201#32, 0x08070605#32, 0x0c0a0806#32, 0x0000000a#32, 0x00004847#32], true) := by decide +kernel

theorem ld_p1 : obsL (run ldApp ctxL 1 1 3000).halt (run ldApp ctxL 1 1 3000).final.ctx =
    (some .offEnd, [0x04030201#32, 0x08070605#32, 0x0c0a0806#32, 0x0000000a#32, 0x00004847#32], true) := by
  rw [← Proofs.Mvp60Fast.runFast_eq_run]; decide +kernel

theorem ld_p2 : obsL (run ldApp ctxL 2 2 3000).halt (run ldApp ctxL 2 2 3000).final.ctx =
    (some .offEnd, [0x04030201#32, 0x08070605#32, 0x0c0a0806#32, 0x0000000a#32, 0x00004847#32], true) := by
  rw [← Proofs.Mvp60Fast.runFast_eq_run]; decide +kernel

theorem ld_p4 : obsL (run ldApp ctxL 4 4 3000).halt (run ldApp ctxL 4 4 3000).final.ctx =
    (some .offEnd, [0x04030201#32, 0x08070605#32, 0x0c0a0806#32, 0x0000000a#32, 0x00004847#32], true) := by
  rw [← Proofs.Mvp60Fast.runFast_eq_run]; decide +kernel

/-- the state of an execute unit: 0 idle, 1 preparing, 2 waiting for L3, 3 waiting for memory -/
def coCode (e : ExecUnit) : Nat := match e.co with | .none => 0 | .prepare => 1 | .l3wait _ => 2 | .memwait _ _ => 3

/-- after 320 ticks on two units: the first unit waits for memory with the line announced, the second — holding the second
`lw` of the SAME line — finds the line in `pendings` and stays in `prepare`; nothing has executed yet -/
theorem ld_pending : ((run ldApp ctxL 2 2 320).final.pendings.length, (run ldApp ctxL 2 2 320).final.eus.map coCode,
    (run ldApp ctxL 2 2 320).final.executed) = (1, [3, 1], 0) := by
  rw [← Proofs.Mvp60Fast.runFast_eq_run]; decide +kernel

theorem ld_wf : Proofs.Refine.WfApp ldApp := { small := by decide, regs := by decide +kernel, nofwd := by decide +kernel }

/-- the specification run ends past the last instruction -/
theorem ld_spec : (Spec.run (Proofs.Refine.specProg ldApp)
    { regs := Array.replicate 32 0#32, mem := ((List.range 128).map (fun i => BitVec.ofNat 8 (i + 1))).toArray } 50).stop = .offEnd := by
  decide +kernel

/-! ### with a `ret` -/

/-- `ldApp` followed by `ret` -/
def ldrApp : Model.Seq.App := { instrs := ldApp.instrs ++ [.ret_ {}], labels := {} }

theorem ldr_class : StraightLineLdRet ldrApp = true ∧ StraightLineLd ldrApp = false := by decide

theorem ldr_wf : Proofs.Refine.WfApp ldrApp := { small := by decide, regs := by decide +kernel, nofwd := by decide +kernel }

theorem ldr_seq : obsL (Model.Seq.runMvp1 ldrApp ⟨ctxL, 0⟩ 20).halt (Model.Seq.runMvp1 ldrApp ⟨ctxL, 0⟩ 20).final.ctx =
    (some .ret, [0x04030201#32, 0x08070605#32, 0x0c0a0806#32, 0x0000000a#32, 0x00004847#32], true) := by decide +kernel

theorem ldr_p1 : obsL (run ldrApp ctxL 1 1 3000).halt (run ldrApp ctxL 1 1 3000).final.ctx =
    (some .ret, [0x04030201#32, 0x08070605#32, 0x0c0a0806#32, 0x0000000a#32, 0x00004847#32], true) := by
  rw [← Proofs.Mvp60Fast.runFast_eq_run]; decide +kernel

theorem ldr_p2 : obsL (run ldrApp ctxL 2 2 3000).halt (run ldrApp ctxL 2 2 3000).final.ctx =
    (some .ret, [0x04030201#32, 0x08070605#32, 0x0c0a0806#32, 0x0000000a#32, 0x00004847#32], true) := by
  rw [← Proofs.Mvp60Fast.runFast_eq_run]; decide +kernel

theorem ldr_p4 : obsL (run ldrApp ctxL 4 4 3000).halt (run ldrApp ctxL 4 4 3000).final.ctx =
    (some .ret, [0x04030201#32, 0x08070605#32, 0x0c0a0806#32, 0x0000000a#32, 0x00004847#32], true) := by
  rw [← Proofs.Mvp60Fast.runFast_eq_run]; decide +kernel

theorem ldr_spec : (Spec.run (Proofs.Refine.specProg ldrApp)
    { regs := Array.replicate 32 0#32, mem := ((List.range 128).map (fun i => BitVec.ofNat 8 (i + 1))).toArray } 50).stop = .ret := by
  decide +kernel

/-- with two units the `ret` is executed (tick ~725) while the last load (`lh`, second line) still waits for memory on unit 0:
after 800 ticks the machine is in the first drain loop (`retA`) with that unit busy -/
theorem ldr_drain : ((run ldrApp ctxL 2 2 800).final.mode == .retA, (run ldrApp ctxL 2 2 800).final.eus.map coCode) = (true, [3, 0]) := by
  rw [← Proofs.Mvp60Fast.runFast_eq_run]; decide +kernel

/-! ### R60-defect-2 (fixed in /repo; `Model.Mvp60.decodeLoop` mirrors the fix): an instruction BEHIND a `ret` was executed and
committed with two and with four units (`a0 = 1`); now every number of units returns with `a0 = 0` -/

/-- `addi t2,t2,0; lw t0,0(zero); lw t1,64(zero); lw t3,128(zero); lw t4,192(zero); ret; addi a0,zero,1` -/
def retApp : Model.Seq.App :=
  { instrs := [.addi_ { rd := 7, rs := 7, imm := 0#32 }, .lw_ { rd := 5, rs := 0, offset := 0#32 }, .lw_ { rd := 6, rs := 0, offset := 64#32 },
               .lw_ { rd := 28, rs := 0, offset := 128#32 }, .lw_ { rd := 29, rs := 0, offset := 192#32 }, .ret_ {},
               .addi_ { rd := 10, rs := 0, imm := 1#32 }],
    labels := {} }

/-- 256 bytes of memory: byte `i` holds `i + 1` -/
def ctxM : Model.Context := { Memory := (List.range 256).map (fun i => BitVec.ofNat 8 (i + 1)) }

/-- how the run ended and the registers `t0 t1 a0` -/
def obsM (h : Option Model.Seq.Halt) (c : Model.Context) : Option Model.Seq.Halt × List Word :=
  (h, [5, 6, 10].map (fun r => c.Registers.get1 r))

/-- every instruction is of the class of `StraightLineLdRet`, but the `ret` is not the last one -/
theorem ret_class : retApp.instrs.all ldrInstr = true ∧ StraightLineLdRet retApp = false := by decide

theorem ret_classR : StraightLineLdR retApp = true := by decide

theorem ret_wf : Proofs.Refine.WfApp retApp := { small := by decide, regs := by decide +kernel, nofwd := by decide +kernel }

theorem ret_spec : (Spec.run (Proofs.Refine.specProg retApp)
    { regs := Array.replicate 32 0#32, mem := ((List.range 256).map (fun i => BitVec.ofNat 8 (i + 1))).toArray } 50).stop = .ret := by
  decide +kernel

theorem ret_seq : obsM (Model.Seq.runMvp1 retApp ⟨ctxM, 0⟩ 20).halt (Model.Seq.runMvp1 retApp ⟨ctxM, 0⟩ 20).final.ctx =
    (some .ret, [0x04030201#32, 0x44434241#32, 0#32]) := by decide +kernel

theorem ret_p1 : obsM (run retApp ctxM 1 1 3000).halt (run retApp ctxM 1 1 3000).final.ctx =
    (some .ret, [0x04030201#32, 0x44434241#32, 0#32]) := by
  rw [← Proofs.Mvp60Fast.runFast_eq_run]; decide +kernel

theorem ret_p2 : obsM (run retApp ctxM 2 2 3000).halt (run retApp ctxM 2 2 3000).final.ctx =
    (some .ret, [0x04030201#32, 0x44434241#32, 0#32]) := by
  rw [← Proofs.Mvp60Fast.runFast_eq_run]; decide +kernel

theorem ret_p4 : obsM (run retApp ctxM 4 4 3000).halt (run retApp ctxM 4 4 3000).final.ctx =
    (some .ret, [0x04030201#32, 0x44434241#32, 0#32]) := by
  rw [← Proofs.Mvp60Fast.runFast_eq_run]; decide +kernel

end Proofs.Mvp60LdWitness

/-
  Proofs/Mvp60.lean — facts about the cycle-accurate model of MVP-6.0 (`Model.Mvp60`).

  * `run_executed_le`: a run of the machine with `eu` execute units calls `Run` of at most `eu` instructions per
    tick, and for a run that ends normally the returned cycle count is at least the number of ticks — the
    lower bound of property C12 for the first superscalar variant.
-/
import MajoranaVerif.Model.Mvp60
import MajoranaVerif.Proofs.Mvp3Cycles
open GoInt

namespace Proofs.Mvp60
open Model.Mvp60
open Model.Seq (App Halt)

/-- what the units other than the execute units leave alone -/
structure Frame (s s' : State) : Prop where
  len : s'.eus.length = s.eus.length
  exe : s'.executed = s.executed
  cyc : s'.cycles = s.cycles

theorem Frame.refl (s : State) : Frame s s := ⟨rfl, rfl, rfl⟩
theorem Frame.trans {a b c : State} (h1 : Frame a b) (h2 : Frame b c) : Frame a c :=
  ⟨h2.len.trans h1.len, h2.exe.trans h1.exe, h2.cyc.trans h1.cyc⟩

theorem fetchCycle_frame {app : App} {s s' : State} (h : fetchCycle app s = .ok s') : Frame s s' := by
  unfold fetchCycle at h
  simp only [bind, Except.bind] at h
  split at h
  · cases h
  · simp only [pure, Except.pure, Except.ok.injEq] at h
    subst h; exact ⟨rfl, rfl, rfl⟩

theorem decodeCycle_frame {app : App} {s s' : State} (h : decodeCycle app s = .ok s') : Frame s s' := by
  unfold decodeCycle at h
  simp only [bind, Except.bind] at h
  split at h
  · cases h
  · simp only [pure, Except.pure, Except.ok.injEq] at h
    subst h; exact ⟨rfl, rfl, rfl⟩

theorem controlCycle_frame (s : State) : Frame s (controlCycle s) := by
  unfold controlCycle
  split
  · exact Frame.refl s
  · exact ⟨rfl, rfl, rfl⟩

/-- what one call of an execute unit does to the three quantities -/
structure EuFrame (s s' : State) : Prop where
  len : s'.eus.length = s.eus.length
  lo : s.executed ≤ s'.executed
  hi : s'.executed ≤ s.executed + 1
  cyc : s'.cycles = s.cycles

theorem setEu_len (s : State) (i : Nat) (eu : ExecUnit) : (setEu s i eu).eus.length = s.eus.length := by
  simp only [setEu, List.length_set]

theorem coRun_frame {app : App} {s s' : State} {i : Nat} {eu : ExecUnit} {r : Runner} {out : EuOut}
    (h : coRun app s i eu r = .ok (s', out)) : EuFrame s s' := by
  unfold coRun at h
  simp only [bind, Except.bind, pure, Except.pure] at h
  repeat' split at h
  all_goals cases h
  all_goals exact ⟨by simp only [setEu, List.length_set], Nat.le_succ _, Nat.le_refl _, rfl⟩

theorem EuFrame.of_frame {s s' : State} (h : Frame s s') : EuFrame s s' :=
  ⟨h.len, by rw [h.exe]; exact Nat.le_refl _, by rw [h.exe]; exact Nat.le_succ _, h.cyc⟩

theorem EuFrame.pre {a b c : State} (h2 : EuFrame b c) (h1 : Frame a b) : EuFrame a c :=
  ⟨h2.len.trans h1.len, by rw [← h1.exe]; exact h2.lo, by rw [← h1.exe]; exact h2.hi, h2.cyc.trans h1.cyc⟩

theorem setEu_frame (s : State) (i : Nat) (eu : ExecUnit) : Frame s (setEu s i eu) :=
  ⟨setEu_len s i eu, rfl, rfl⟩

theorem coPrepareRun_frame {app : App} {s s' : State} {i : Nat} {eu : ExecUnit} {r : Runner} {out : EuOut}
    (h : coPrepareRun app s i eu r = .ok (s', out)) : EuFrame s s' := by
  unfold coPrepareRun at h
  simp only [bind, Except.bind, pure, Except.pure] at h
  split at h
  · cases h; exact EuFrame.of_frame (setEu_frame s i eu)
  · split at h
    · split at h
      · cases h
      · split at h
        all_goals cases h
        all_goals exact EuFrame.of_frame ⟨by simp only [setEu, List.length_set], rfl, rfl⟩
    · exact (coRun_frame h).pre ⟨rfl, rfl, rfl⟩

theorem euCycle_frame {app : App} {s s' : State} {i : Nat} {out : EuOut}
    (h : euCycle app s i = .ok (s', out)) : EuFrame s s' := by
  unfold euCycle at h
  simp only [bind, Except.bind, pure, Except.pure] at h
  split at h
  · cases h
  · rename_i eu _
    split at h
    · -- nil: take from the bus
      split at h
      · cases h; exact EuFrame.of_frame ⟨rfl, rfl, rfl⟩
      · exact (coPrepareRun_frame h).pre ⟨rfl, rfl, rfl⟩
    · split at h
      · cases h
      · exact coPrepareRun_frame h
    · split at h
      · cases h; exact EuFrame.of_frame (setEu_frame s i _)
      · split at h
        · cases h
        · exact coRun_frame h
    · split at h
      · cases h; exact EuFrame.of_frame (setEu_frame s i _)
      · split at h
        · cases h
        · cases h
        · split at h
          · cases h
          · split at h
            · cases h
            · split at h
              · cases h
              · split at h
                · exact (coRun_frame h).pre ⟨rfl, rfl, rfl⟩
                · cases h

theorem wuCycle_frame {s s' : State} {j : Nat} {before : Word} (h : wuCycle s j before = .ok s') : Frame s s' := by
  unfold wuCycle at h
  simp only [pure, Except.pure] at h
  repeat' split at h
  all_goals cases h
  all_goals exact ⟨rfl, rfl, rfl⟩

theorem foldlM_wu_frame (before : Word) : ∀ (js : List Nat) (s s' : State),
    js.foldlM (fun s j => wuCycle s j before) s = .ok s' → Frame s s' := by
  intro js
  induction js with
  | nil => intro s s' h; simp only [List.foldlM, pure, Except.pure, Except.ok.injEq] at h; subst h; exact Frame.refl s
  | cons j js ih =>
    intro s s' h
    simp only [List.foldlM, bind, Except.bind] at h
    split at h
    · cases h
    · rename_i s1 h1
      exact (wuCycle_frame h1).trans (ih s1 s' h)

theorem wusCycle_frame {s s' : State} (h : wusCycle s = .ok s') : Frame s s' :=
  foldlM_wu_frame _ _ s s' h

/-- the loop over the execute units: `n` units cycle, at most `n` instructions run -/
theorem eusCycle_frame {app : App} : ∀ (n i : Nat) (s s' : State) (acc acc' : EuAcc),
    eusCycle app n i s acc = .ok (s', acc') →
    s'.eus.length = s.eus.length ∧ s.executed ≤ s'.executed ∧ s'.executed ≤ s.executed + n ∧ s'.cycles = s.cycles := by
  intro n
  induction n with
  | zero =>
    intro i s s' acc acc' h
    simp only [eusCycle, pure, Except.pure, Except.ok.injEq, Prod.mk.injEq] at h
    obtain ⟨rfl, _⟩ := h
    exact ⟨rfl, Nat.le_refl _, Nat.le_refl _, rfl⟩
  | succ n ih =>
    intro i s s' acc acc' h
    simp only [eusCycle, bind, Except.bind] at h
    split at h
    · cases h
    · rename_i v hv
      obtain ⟨s1, out⟩ := v
      have f1 := euCycle_frame hv
      simp only at h
      split at h
      · simp only [pure, Except.pure, Except.ok.injEq, Prod.mk.injEq] at h
        obtain ⟨rfl, _⟩ := h
        exact ⟨f1.len, f1.lo, by have := f1.hi; omega, f1.cyc⟩
      all_goals
        have f2 := ih _ _ _ _ _ h
        exact ⟨f2.1.trans f1.len, Nat.le_trans f1.lo f2.2.1, by have := f1.hi; have := f2.2.2.1; omega, f2.2.2.2.trans f1.cyc⟩

theorem eusCycleBusy_frame {app : App} : ∀ (n i : Nat) (s s' : State) (e : Bool),
    eusCycleBusy app n i s = .ok (s', e) →
    s'.eus.length = s.eus.length ∧ s.executed ≤ s'.executed ∧ s'.executed ≤ s.executed + n ∧ s'.cycles = s.cycles := by
  intro n
  induction n with
  | zero =>
    intro i s s' e h
    simp only [eusCycleBusy, pure, Except.pure, Except.ok.injEq, Prod.mk.injEq] at h
    obtain ⟨rfl, _⟩ := h
    exact ⟨rfl, Nat.le_refl _, Nat.le_refl _, rfl⟩
  | succ n ih =>
    intro i s s' e h
    simp only [eusCycleBusy, bind, Except.bind] at h
    split at h
    · simp only [pure, Except.pure, Except.ok.injEq, Prod.mk.injEq] at h
      obtain ⟨rfl, _⟩ := h
      exact ⟨rfl, Nat.le_refl _, Nat.le_add_right _ _, rfl⟩
    · split at h
      · have f2 := ih _ _ _ _ h
        exact ⟨f2.1, f2.2.1, by have := f2.2.2.1; omega, f2.2.2.2⟩
      · split at h
        · cases h
        · rename_i v hv
          obtain ⟨s1, out⟩ := v
          have f1 := euCycle_frame hv
          simp only at h
          split at h
          · simp only [pure, Except.pure, Except.ok.injEq, Prod.mk.injEq] at h
            obtain ⟨rfl, _⟩ := h
            exact ⟨f1.len, f1.lo, by have := f1.hi; omega, f1.cyc⟩
          · have f2 := ih _ _ _ _ h
            exact ⟨f2.1.trans f1.len, Nat.le_trans f1.lo f2.2.1, by have := f1.hi; have := f2.2.2.1; omega, f2.2.2.2.trans f1.cyc⟩

/-- what the control flow after the units does: the execute units and the count stay, the cycle counter does not
go back -/
structure Tail (s s' : State) : Prop where
  len : s'.eus.length = s.eus.length
  exe : s'.executed = s.executed
  cyc : s.cycles ≤ s'.cycles

theorem finish_tail {s s' : State} {h : Halt} {ev : Event} (hf : finish s h = .ok (s', ev)) : Tail s s' := by
  unfold finish at hf
  simp only [bind, Except.bind, pure, Except.pure] at hf
  split at hf
  · cases hf
  · rename_i v hv
    obtain ⟨mem, extra⟩ := v
    simp only [Except.ok.injEq, Prod.mk.injEq] at hf
    obtain ⟨rfl, _⟩ := hf
    have := Proofs.Mvp3Cycles.flushLines_cost cfg _ _ _ _ _ hv
    refine ⟨rfl, rfl, ?_⟩
    show s.cycles ≤ s.cycles + extra
    have h309 : (0 : Int) ≤ Gen.Latency.MemoryAccess := by decide
    have : (0 : Int) ≤ extra := by
      rw [this]; simp only [Int.zero_add]
      exact Int.mul_nonneg (Int.natCast_nonneg _) h309
    omega

theorem goRetB_tail {s s' : State} {ev : Event} (h : goRetB s = .ok (s', ev)) : Tail s s' := by
  unfold goRetB at h
  split at h
  · simp only [pure, Except.pure, Except.ok.injEq, Prod.mk.injEq] at h
    obtain ⟨rfl, _⟩ := h
    exact ⟨rfl, rfl, Int.le_refl _⟩
  · exact finish_tail h

theorem goRetA_tail {s s' : State} {ev : Event} (h : goRetA s = .ok (s', ev)) : Tail s s' := by
  unfold goRetA at h
  split at h
  · simp only [pure, Except.pure, Except.ok.injEq, Prod.mk.injEq] at h
    obtain ⟨rfl, _⟩ := h
    exact ⟨rfl, rfl, Int.le_refl _⟩
  · have t := goRetB_tail h
    exact ⟨t.len, t.exe, by have := t.cyc; simp only at this; omega⟩

theorem flushAll_len (s : State) (pc : Word) : (flushAll s pc).eus.length = s.eus.length := by
  simp only [flushAll, List.length_map]

theorem goFlush_tail (from_ pc : Word) : ∀ (n i : Nat) (s : State),
    Tail s (goFlush s from_ pc n i).1 := by
  intro n
  induction n with
  | zero =>
    intro i s
    simp only [goFlush]
    exact ⟨flushAll_len s pc, rfl, by show s.cycles ≤ s.cycles + Gen.Latency.Flush; have : (0 : Int) ≤ Gen.Latency.Flush := by decide
                                      omega⟩
  | succ n ih =>
    intro i s
    simp only [goFlush]
    split
    · exact ⟨flushAll_len s pc, rfl, by show s.cycles ≤ s.cycles + Gen.Latency.Flush; have : (0 : Int) ≤ Gen.Latency.Flush := by decide
                                        omega⟩
    · split
      · exact ⟨rfl, rfl, Int.le_refl _⟩
      · exact ih _ s

/-- one tick: at most one instruction per execute unit runs, the cycle counter advances -/
structure Tick (s s' : State) : Prop where
  len : s'.eus.length = s.eus.length
  lo : s.executed ≤ s'.executed
  hi : s'.executed ≤ s.executed + s.eus.length
  cyc : s.cycles + 1 ≤ s'.cycles

theorem cycleM_tick {app : App} {s s' : State} {ev : Event} (h : cycleM app s = .ok (s', ev)) : Tick s s' := by
  unfold cycleM at h
  split at h
  · -- normal
    simp only [bind, Except.bind, pure, Except.pure] at h
    split at h
    · cases h
    · rename_i s1 h1
      have f1 := fetchCycle_frame h1
      split at h
      · cases h
      · rename_i s2 h2
        have f2 := decodeCycle_frame h2
        have f3 := controlCycle_frame s2
        split at h
        · cases h
        · rename_i v hv
          obtain ⟨s4, acc⟩ := v
          have f4 := eusCycle_frame _ _ _ _ _ _ hv
          have f123 := (f1.trans f2).trans f3
          have l3 : (controlCycle s2).eus.length = s.eus.length := f123.len
          have e3 : (controlCycle s2).executed = s.executed := f123.exe
          have c3 : (controlCycle s2).cycles = s.cycles + 1 := f123.cyc
          simp only at h
          split at h
          · simp only [Except.ok.injEq, Prod.mk.injEq] at h
            obtain ⟨rfl, _⟩ := h
            exact ⟨f4.1.trans l3, by have := f4.2.1; omega, by have := f4.2.2.1; omega, by have := f4.2.2.2; omega⟩
          · split at h
            · cases h
            · rename_i s5 h5
              have f5 := wusCycle_frame h5
              have l5 : s5.eus.length = s.eus.length := f5.len.trans (f4.1.trans l3)
              have lo5 : s.executed ≤ s5.executed := by rw [f5.exe]; have := f4.2.1; omega
              have hi5 : s5.executed ≤ s.executed + s.eus.length := by rw [f5.exe]; have := f4.2.2.1; omega
              have c5 : s5.cycles = s.cycles + 1 := by rw [f5.cyc, f4.2.2.2, c3]
              split at h
              · have t := goRetA_tail h
                exact ⟨t.len.trans l5, by rw [t.exe]; exact lo5, by rw [t.exe]; exact hi5, by have := t.cyc; omega⟩
              · split at h
                · simp only [Except.ok.injEq] at h
                  have hs := congrArg Prod.fst h
                  simp only at hs
                  subst hs
                  have t := goFlush_tail acc.from_ acc.pc s5.wus.length 0 { s5 with writeBus := s5.writeBus.connect (s5.cycles + 1) }
                  exact ⟨t.len.trans l5, by rw [t.exe]; exact lo5, by rw [t.exe]; exact hi5, by have := t.cyc; simp only at this; omega⟩
                · split at h
                  · have t := finish_tail h
                    exact ⟨t.len.trans l5, by rw [t.exe]; exact lo5, by rw [t.exe]; exact hi5, by have := t.cyc; omega⟩
                  · simp only [Except.ok.injEq, Prod.mk.injEq] at h
                    obtain ⟨rfl, _⟩ := h
                    exact ⟨l5, lo5, hi5, by omega⟩
  · -- retA
    simp only [bind, Except.bind, pure, Except.pure] at h
    split at h
    · cases h
    · rename_i v hv
      obtain ⟨s1, e⟩ := v
      have f1 := eusCycleBusy_frame _ _ _ _ _ hv
      simp only at h f1
      split at h
      · simp only [Except.ok.injEq, Prod.mk.injEq] at h
        obtain ⟨rfl, _⟩ := h
        exact ⟨f1.1, f1.2.1, f1.2.2.1, by have := f1.2.2.2; omega⟩
      · split at h
        · cases h
        · rename_i s2 h2
          have f2 := wusCycle_frame h2
          have t := goRetA_tail h
          exact ⟨t.len.trans (f2.len.trans f1.1), by rw [t.exe, f2.exe]; exact f1.2.1, by rw [t.exe, f2.exe]; exact f1.2.2.1,
                 by have := t.cyc; have := f2.cyc; have := f1.2.2.2; omega⟩
  · -- retB
    simp only [bind, Except.bind] at h
    split at h
    · cases h
    · rename_i s1 h1
      have f1 := wusCycle_frame h1
      have t := goRetB_tail h
      exact ⟨t.len.trans f1.len, by rw [t.exe, f1.exe]; exact Nat.le_refl _, by rw [t.exe, f1.exe]; exact Nat.le_add_right _ _,
             by have := t.cyc; have := f1.cyc; simp only at *; omega⟩
  · -- flushW
    rename_i i from_ pc _
    simp only [bind, Except.bind, pure, Except.pure] at h
    split at h
    · cases h
    · rename_i s1 h1
      have f1 := wuCycle_frame h1
      simp only [Except.ok.injEq] at h
      have hs := congrArg Prod.fst h
      simp only at hs
      subst hs
      have t := goFlush_tail from_ pc (s1.wus.length - i) i s1
      exact ⟨t.len.trans f1.len, by rw [t.exe, f1.exe]; exact Nat.le_refl _, by rw [t.exe, f1.exe]; exact Nat.le_add_right _ _,
             by have := t.cyc; have := f1.cyc; simp only at this; omega⟩

/-- a tick of `cycle`: a tick of `cycleM`, or a Go panic (the state is kept, the run is over) -/
theorem cycle_tick (app : App) (s : State) :
    Tick s (cycle app s).1 ∨ ((cycle app s).1 = s ∧ ∃ w, (cycle app s).2 = .done (.panic w)) := by
  unfold cycle
  split
  · rename_i r hr
    obtain ⟨s', ev⟩ := r
    exact Or.inl (cycleM_tick hr)
  · exact Or.inr ⟨rfl, _, rfl⟩
  · exact Or.inr ⟨rfl, _, rfl⟩

/-- the halt is not a Go panic -/
def Clean : Option Halt → Prop
  | some (.panic _) => False
  | _ => True

theorem runFrom_bound (app : App) : ∀ (fuel : Nat) (s : State) (n : Nat),
    (runFrom app fuel s n).final.eus.length = s.eus.length ∧
    n ≤ (runFrom app fuel s n).ticks ∧
    (runFrom app fuel s n).final.executed + s.eus.length * n ≤ s.executed + s.eus.length * (runFrom app fuel s n).ticks ∧
    (Clean (runFrom app fuel s n).halt → s.cycles + (runFrom app fuel s n).ticks ≤ (runFrom app fuel s n).final.cycles + n) := by
  intro fuel
  induction fuel with
  | zero => intro s n; exact ⟨rfl, Nat.le_refl _, Nat.le_refl _, fun _ => Int.le_refl _⟩
  | succ fuel ih =>
    intro s n
    simp only [runFrom]
    have hc := cycle_tick app s
    split
    · rename_i s' hs
      rw [hs] at hc
      rcases hc with t | ⟨_, w, hw⟩
      · have h := ih s' (n + 1)
        simp only at t
        obtain ⟨h1, h2, h3, h4⟩ := h
        refine ⟨h1.trans t.len, by omega, ?_, ?_⟩
        · rw [t.len] at h3
          have := t.hi
          simp only [Nat.mul_add, Nat.mul_one] at h3
          omega
        · intro hcl
          have := h4 hcl
          have := t.cyc
          simp only [Int.natCast_add, Int.natCast_one] at *
          omega
      · simp only at hw; cases hw
    · rename_i s' hh hs
      rw [hs] at hc
      rcases hc with t | ⟨he, w, hw⟩
      · simp only at t
        refine ⟨t.len, Nat.le_succ n, ?_, ?_⟩
        · have := t.hi
          simp only [Nat.mul_add, Nat.mul_one]
          omega
        · intro _
          have := t.cyc
          simp only [Int.natCast_add, Int.natCast_one]
          omega
      · simp only at he hw
        cases hw
        subst he
        refine ⟨rfl, Nat.le_succ n, ?_, ?_⟩
        · simp only [Nat.mul_add, Nat.mul_one]; omega
        · intro hcl; exact absurd hcl (by simp only [Clean, not_false_eq_true])

/-- **lower bound (C12) for the first superscalar variant.**  In a run of the model with `eu` execute units, at most
`eu` instructions are executed (their `Run` called) per tick; a run that does not end in a Go panic returns a
cycle count of at least the number of ticks, hence `executed ≤ eu · cycles`. -/
theorem run_executed_le (app : App) (ctx : Model.Context) (eu wu fuel : Nat) :
    (run app ctx eu wu fuel).final.executed ≤ eu * (run app ctx eu wu fuel).ticks ∧
    (Clean (run app ctx eu wu fuel).halt →
      ((run app ctx eu wu fuel).ticks : Int) ≤ (run app ctx eu wu fuel).final.cycles ∧
      ((run app ctx eu wu fuel).final.executed : Int) ≤ eu * (run app ctx eu wu fuel).final.cycles) := by
  unfold run
  split
  · rename_i s hs
    simp only [init, bind, Except.bind, pure, Except.pure] at hs
    split at hs
    · cases hs
    · rename_i mmu _
      simp only [Except.ok.injEq] at hs
      subst hs
      have h := runFrom_bound app fuel
        { ctx := ctx, mmu := mmu, eus := List.replicate eu {}, wus := List.replicate wu {} } 0
      simp only [List.length_replicate, Nat.mul_zero, Nat.add_zero, Nat.zero_add, Int.zero_add, Int.add_zero, Int.natCast_zero] at h
      obtain ⟨_, _, h3, h4⟩ := h
      refine ⟨h3, fun hcl => ?_⟩
      have h5 := h4 hcl
      refine ⟨h5, ?_⟩
      have h6 : ((_ : Nat) : Int) ≤ ((eu * _ : Nat) : Int) := Int.ofNat_le.mpr h3
      rw [Int.natCast_mul] at h6
      exact Int.le_trans h6 (Int.mul_le_mul_of_nonneg_left h5 (Int.natCast_nonneg _))
  · simp only [Clean, Nat.le_refl, Nat.mul_zero, false_implies, and_self]

end Proofs.Mvp60

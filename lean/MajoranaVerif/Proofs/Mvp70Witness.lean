/-
  Proofs/Mvp70Witness.lean — what the cycle-accurate model of MVP-7.0 (`Model.Mvp70`, tied to the Go machine with 1 … 4
  cores on every generated case whose result does not depend on Go's map iteration order) computes on the witness of
  KF-ooo-mem: kernel evaluations, tick by tick.  Memory is 128 bytes of `0x11`.
-/
import MajoranaVerif.Model.Mvp70
import MajoranaVerif.Proofs.Mvp61Witness
open GoInt

namespace Proofs.Mvp70Witness
open Proofs.Mvp61Witness (ctx0 memApp stored)

-- `DecidableEq` of the seven-component tuple of `obs` needs more than the default 128 instance-synthesis steps
set_option synthInstance.maxSize 512

/-- how the run ended, the cycle counter, the ticks, the executed instructions, the number of snoop commands the MSI
directory has created, one register and the first eight bytes of memory -/
def obs (r : Model.Mvp70.Result) (ra : Reg) : Option Model.Seq.Halt × Int × Nat × Nat × Nat × Word × List Byte :=
  (r.halt, r.final.base.cycles, r.ticks, r.final.base.executed, r.final.msi.nextCmd,
   r.final.base.ctx.Registers.get1 ra, r.final.base.ctx.Memory.take 8)

theorem obs_eq {r : Model.Mvp70.Result} {ra : Reg} {v : Option Model.Seq.Halt × Int × Nat × Nat × Nat × Word × List Byte}
    (h : obs r ra = v) :
    r.halt = v.1 ∧ r.final.base.cycles = v.2.1 ∧ r.ticks = v.2.2.1 ∧ r.final.base.executed = v.2.2.2.1 ∧
    r.final.msi.nextCmd = v.2.2.2.2.1 ∧ r.final.base.ctx.Registers.get1 ra = v.2.2.2.2.2.1 ∧
    r.final.base.ctx.Memory.take 8 = v.2.2.2.2.2.2 := by
  subst h; exact ⟨rfl, rfl, rfl, rfl, rfl, rfl, rfl⟩

/-! ### the MSI protocol keeps the store MVP-6.1 loses

`lb t2, 7(zero); sh zero, 4, zero` (`Proofs.Mvp61Witness.memApp`): on MVP-6.1 with two units the store overtakes the load
of its own line and is overwritten by the stale line at the end (`Props.C12.mvp61_loses_store`).  On MVP-7.0 the load runs on
core 0 and the store on core 1; the store's `lock` finds core 0 holding the line and sends it a snoop command (the only one
of the run); the run ends with the store in memory — with one core and with two. -/

theorem mem_p1 : obs (Model.Mvp70.run memApp (ctx0 128) 1 2000) 7 = (some .offEnd, 939, 630, 2, 0, 0x11#32, stored) := by
  decide +kernel

theorem mem_p2 : obs (Model.Mvp70.run memApp (ctx0 128) 2 2000) 7 = (some .offEnd, 1249, 940, 2, 1, 0x11#32, stored) := by
  decide +kernel

end Proofs.Mvp70Witness

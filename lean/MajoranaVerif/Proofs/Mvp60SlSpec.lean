/-
  Proofs/Mvp60SlSpec.lean — package R60c: along every run the specification accepts as well-formed, the target of every
  control transfer of the unpipelined machine is an instruction of the program or its end (`TgtOk`): this is what the
  MVP-6.0 refinement needs for `jalr`, whose target is computed (`Spec.targetOk` is checked by `Spec.stepInstr`).
-/
import MajoranaVerif.Proofs.Mvp60SlRun
import MajoranaVerif.Proofs.Mvp4Spec
open GoInt

set_option linter.unusedSimpArgs false
set_option linter.unusedVariables false

namespace Proofs.Mvp60Sl
open Model Model.Mvp60 Proofs.Refine
open Model.Seq (App Halt Arch stepArch)

/-- a step of the specification that continues goes to an aligned pc inside the program (or to its end) -/
theorem step_target (p : Spec.Asm.Program) (pc pc' : Spec.Word) (m m' : Spec.Machine) (ev : Spec.Event)
    (h : Spec.step p pc m = .inr (pc', m', ev)) : Spec.targetOk p pc' = true := by
  unfold Spec.step at h
  split at h
  · cases h
  · unfold Spec.stepInstr at h
    split at h
    · cases h
    · split at h
      · cases h
      · split at h
        · cases h
        · split at h
          · cases h
          · rename_i htk
            simp only [Sum.inr.injEq, Prod.mk.injEq] at h
            rw [← h.1]
            simpa using htk

/-- the unpipelined machine takes the control transfer its instruction computes -/
theorem next_of_run (app : App) (hsm : app.instrs.length < 250) (a : Arch) (n0 : Nat) (i : Gen.Instr) (e : Gen.Execution)
    (hj : jInstr app i = true) (hpc : a.pc = pcOf n0) (hi : app.instrs[n0]? = some i)
    (he : i.run a.ctx app.labels a.pc [] 0#32 = .ok e) (hp : e.PcChange = true) :
    ∃ ctx' c, stepArch Proofs.Mvp4.dc app a = .next ⟨ctx', e.NextPc⟩ c := by
  have hn0 : n0 < app.instrs.length := by
    rcases Nat.lt_or_ge n0 app.instrs.length with h | h
    · exact h
    · rw [List.getElem?_eq_none h] at hi; cases hi
  have hstep : stepArch Proofs.Mvp4.dc app a = Proofs.Mvp4.stepTail app a i [] := by
    apply Proofs.Mvp4.stepArch_run
    · rw [hpc]; exact instrAt4_pcOf app n0 (by omega) i hi
    · rw [g_memoryRead app i hj]; rfl
  obtain ⟨ex, hex⟩ := Proofs.Refine.cycles_ok i.instructionType
  obtain ⟨hmc, hrt, hpb⟩ := g_run app i hj a.ctx a.pc [] 0#32 e he
  have hret : e.Return = false := by
    cases hr : e.Return with
    | false => rfl
    | true =>
      have h1 := hrt hr
      have h2 := (hpb hp).1
      have h3 : i.instructionType = Gen.InstructionType.Ret := eq_of_beq h1
      rw [h3] at h2
      exact absurd h2 (by decide)
  have hnp : Proofs.Mvp4.nextPc a e = e.NextPc := by simp only [Proofs.Mvp4.nextPc, hp, if_true]
  cases hrc : e.RegisterChange with
  | true =>
    obtain ⟨c, hc⟩ := Proofs.Mvp4.stepTail_reg (app := app) (a := a) he hex hret hrc
    exact ⟨_, c, by rw [hstep, hc, hnp]⟩
  | false =>
    obtain ⟨c, hc⟩ := Proofs.Mvp4.stepTail_plain (app := app) (a := a) he hex hret hrc hmc
    exact ⟨_, c, by rw [hstep, hc, hnp]⟩

theorem tgtOk_of_next (app : App) (hsm : app.instrs.length < 250) (hall : ∀ i ∈ app.instrs, jInstr app i = true)
    (a a' : Arch) (c : Model.Seq.StepCost)
    (hn : stepArch Proofs.Mvp4.dc app a = .next a' c) (h4 : a'.pc.toNat % 4 = 0) (hle : a'.pc.toNat ≤ 4 * app.instrs.length) :
    TgtOk app a := by
  intro n0 i e hpc hi he hp
  obtain ⟨ctx', c', hc'⟩ := next_of_run app hsm a n0 i e (hall i (List.mem_of_getElem? hi)) hpc hi he hp
  rw [hn] at hc'
  injection hc' with h1 _
  have h2 : a'.pc = e.NextPc := by rw [h1]
  rw [h2] at h4 hle
  obtain ⟨e1, e2⟩ := labelOk_pcOf e.NextPc app.instrs.length h4 (by omega)
  exact ⟨_, e2, e1⟩

theorem tgtOk_of_halt (app : App) (hsm : app.instrs.length < 250) (hall : ∀ i ∈ app.instrs, jInstr app i = true)
    (a : Arch) (hk : Halt) (c : Model.Seq.StepCost) (hn : stepArch Proofs.Mvp4.dc app a = .halt hk c) : TgtOk app a := by
  intro n0 i e hpc hi he hp
  obtain ⟨ctx', c', hc'⟩ := next_of_run app hsm a n0 i e (hall i (List.mem_of_getElem? hi)) hpc hi he hp
  rw [hn] at hc'
  cases hc'

/-- **`TgtOk` holds along every well-formed specification run** -/
theorem tgtOk_of_spec_go (app : App) (hw : WfApp app) (hall : ∀ i ∈ app.instrs, jInstr app i = true) :
    ∀ (fuel : Nat) (ctx : Model.Context) (m : Spec.Machine) (pc : Word) (k : Nat) (tr : Array Spec.Event),
      Proofs.Refine.Rel ctx m → pc.toNat ≤ 4 * app.instrs.length →
      (∀ why, (Spec.run.go (specProg app) fuel pc m k tr).stop ≠ .notWf why) →
      ∀ (j : Nat) (a : Arch), Proofs.Mvp4.seqIter app j ⟨ctx, pc⟩ = some a → TgtOk app a := by
  intro fuel
  induction fuel with
  | zero =>
    intro ctx m pc k tr _ _ hwf
    exact absurd rfl (hwf "fuel exhausted")
  | succ fuel ih =>
    intro ctx m pc k tr hR hpc hwf j a hj
    obtain ⟨hnext, hoff, hret, herr⟩ := step_sim Proofs.Mvp4.dc app hw ctx m hR pc hpc
    unfold Spec.run.go at hwf
    cases hs : Spec.step (specProg app) pc m with
    | inl s =>
      rw [hs] at hwf
      simp only at hwf
      have hhalt : ∃ hk c, stepArch Proofs.Mvp4.dc app ⟨ctx, pc⟩ = .halt hk c := by
        cases s with
        | ret => obtain ⟨c, hc⟩ := hret hs; exact ⟨_, c, hc⟩
        | offEnd => obtain ⟨c, hc⟩ := hoff hs; exact ⟨_, c, hc⟩
        | error e => obtain ⟨c, hc⟩ := herr e hs; exact ⟨_, c, hc⟩
        | notWf w => exact absurd rfl (hwf w)
      obtain ⟨hk, c, hc⟩ := hhalt
      cases j with
      | zero =>
        simp only [Proofs.Mvp4.seqIter, Option.some.injEq] at hj
        subst hj
        exact tgtOk_of_halt app hw.small hall _ hk c hc
      | succ j =>
        rw [Proofs.Mvp4.seqIter_front] at hj
        simp only [Proofs.Mvp4.seqNext, hc, Option.bind_none] at hj
        cases hj
    | inr x =>
      obtain ⟨pc', m', ev⟩ := x
      rw [hs] at hwf
      simp only at hwf
      obtain ⟨ctx', c, hc, hR', hpc'⟩ := hnext pc' m' ev hs
      have htk := step_target (specProg app) pc pc' m m' ev hs
      simp only [Spec.targetOk, Bool.and_eq_true, beq_iff_eq, decide_eq_true_eq] at htk
      cases j with
      | zero =>
        simp only [Proofs.Mvp4.seqIter, Option.some.injEq] at hj
        subst hj
        exact tgtOk_of_next app hw.small hall _ _ c hc htk.1 hpc'
      | succ j =>
        rw [Proofs.Mvp4.seqIter_front] at hj
        simp only [Proofs.Mvp4.seqNext, hc, Option.bind_some] at hj
        exact ih ctx' m' pc' _ _ hR' hpc' hwf j a hj

theorem tgtOk_of_spec (app : App) (hw : WfApp app) (hall : ∀ i ∈ app.instrs, jInstr app i = true)
    (ctx : Model.Context) (m : Spec.Machine) (hR : Proofs.Refine.Rel ctx m) (fuel : Nat)
    (hwf : ∀ why, (Spec.run (specProg app) m fuel).stop ≠ .notWf why) :
    ∀ (j : Nat) (a : Arch), Proofs.Mvp4.seqIter app j ⟨ctx, 0#32⟩ = some a → TgtOk app a := by
  unfold Spec.run at hwf
  have hsz : ¬ (specProg app).instrs.size ≥ 250 := by
    have := hw.small
    simp [specProg]; omega
  simp only [hsz, if_false] at hwf
  exact tgtOk_of_spec_go app hw hall fuel ctx m 0#32 0 #[] hR (by simp) hwf

/-- **the unpipelined run ends when the specification run does**: a state it reaches after some number of steps halts -/
theorem seq_halts_of_spec_go (app : App) (hw : WfApp app) :
    ∀ (fuel : Nat) (ctx : Model.Context) (m : Spec.Machine) (pc : Word) (k : Nat) (tr : Array Spec.Event),
      Proofs.Refine.Rel ctx m → pc.toNat ≤ 4 * app.instrs.length →
      (∀ why, (Spec.run.go (specProg app) fuel pc m k tr).stop ≠ .notWf why) →
      ∃ (N : Nat) (aN : Arch), Proofs.Mvp4.seqIter app N ⟨ctx, pc⟩ = some aN ∧
        ∃ hk c, stepArch Proofs.Mvp4.dc app aN = .halt hk c := by
  intro fuel
  induction fuel with
  | zero =>
    intro ctx m pc k tr _ _ hwf
    exact absurd rfl (hwf "fuel exhausted")
  | succ fuel ih =>
    intro ctx m pc k tr hR hpc hwf
    obtain ⟨hnext, hoff, hret, herr⟩ := step_sim Proofs.Mvp4.dc app hw ctx m hR pc hpc
    unfold Spec.run.go at hwf
    cases hs : Spec.step (specProg app) pc m with
    | inl s =>
      rw [hs] at hwf
      simp only at hwf
      refine ⟨0, ⟨ctx, pc⟩, rfl, ?_⟩
      cases s with
      | ret => obtain ⟨c, hc⟩ := hret hs; exact ⟨_, c, hc⟩
      | offEnd => obtain ⟨c, hc⟩ := hoff hs; exact ⟨_, c, hc⟩
      | error e => obtain ⟨c, hc⟩ := herr e hs; exact ⟨_, c, hc⟩
      | notWf w => exact absurd rfl (hwf w)
    | inr x =>
      obtain ⟨pc', m', ev⟩ := x
      rw [hs] at hwf
      simp only at hwf
      obtain ⟨ctx', c, hc, hR', hpc'⟩ := hnext pc' m' ev hs
      obtain ⟨N, aN, h1, h2⟩ := ih ctx' m' pc' _ _ hR' hpc' hwf
      refine ⟨N + 1, aN, ?_, h2⟩
      rw [Proofs.Mvp4.seqIter_front]
      simp only [Proofs.Mvp4.seqNext, hc, Option.bind_some]
      exact h1

theorem seq_halts_of_spec (app : App) (hw : WfApp app) (ctx : Model.Context) (m : Spec.Machine)
    (hR : Proofs.Refine.Rel ctx m) (fuel : Nat) (hwf : ∀ why, (Spec.run (specProg app) m fuel).stop ≠ .notWf why) :
    ∃ (N : Nat) (aN : Arch), Proofs.Mvp4.seqIter app N ⟨ctx, 0#32⟩ = some aN ∧
      ∃ hk c, stepArch Proofs.Mvp4.dc app aN = .halt hk c := by
  unfold Spec.run at hwf
  have hsz : ¬ (specProg app).instrs.size ≥ 250 := by
    have := hw.small
    simp [specProg]; omega
  simp only [hsz, if_false] at hwf
  exact seq_halts_of_spec_go app hw fuel ctx m 0#32 0 #[] hR (by simp) hwf

end Proofs.Mvp60Sl

/-
  Proofs/Mvp61Witness2.lean — more kernel evaluations of `Model.Mvp61` (see `Proofs/Mvp61Witness.lean`): the programs
  on which MVP-6.0 loses an older load at a flush (KF-ooo-flush-load, `Proofs.Mvp60Witness`) are executed correctly by
  MVP-6.1, whose flush path first lets the busy execute units finish; and a chain of dependent instructions on which
  operands are forwarded.
-/
import MajoranaVerif.Proofs.Mvp61Witness
open GoInt

namespace Proofs.Mvp61Witness
open Model.Mvp61

set_option synthInstance.maxSize 512

/-! ### MVP-6.0's lost load: not here

`lb a1, 0(zero); bnez s0, l3; addi a3, zero, 5; l3:` with `s0 = 1` (and `lb a2, 1(zero)` behind `l3`): MVP-6.0 with two
units cancels the load when the branch flushes, and dead-locks on the second program.  MVP-6.1's flush loop
("executing previous unit cycles") keeps cycling the busy units first. -/

def dropApp : Model.Seq.App :=
  { instrs := [.lb_ { rd := 11, offset := 0#32, rs := 0 }, .bnez_ { rs := 8, label := "l3" },
               .addi_ { rd := 13, rs := 0, imm := 5#32 }],
    labels := GoMap.ofList [("l3", 12#32)] }

def deadApp : Model.Seq.App :=
  { instrs := [.lb_ { rd := 11, offset := 0#32, rs := 0 }, .bnez_ { rs := 8, label := "l3" },
               .addi_ { rd := 13, rs := 0, imm := 5#32 }, .lb_ { rd := 12, offset := 1#32, rs := 0 }],
    labels := GoMap.ofList [("l3", 12#32)] }

def ctxS0 (n : Nat) : Model.Context := { Memory := mem11 n, Registers := GoMap.ofList [(8, 1#32)] }

/-- two units: `a1 = 0x11`, the wrong-path `addi` is not executed -/
theorem drop_p2 : obs (run dropApp (ctxS0 64) 2 2 1000) 11 13 = (some .offEnd, 936, 628, 2, 0, 0x11#32, 0#32, m11) := by
  decide +kernel

/-- three units: the wrong-path `addi` IS executed (three `Run`s), but its result is dropped by the flush: `a3 = 0` -/
theorem drop_p3 : obs (run dropApp (ctxS0 64) 3 3 1000) 11 13 = (some .offEnd, 936, 629, 3, 0, 0x11#32, 0#32, m11) := by
  decide +kernel

/-- two units, second program: the run ends, both loads arrive -/
theorem dead_p2 : obs (run deadApp (ctxS0 64) 2 2 1000) 11 12 = (some .offEnd, 988, 680, 3, 0, 0x11#32, 0x11#32, m11) := by
  decide +kernel

/-! ### forwarding at work

`li t0, 7; addi t1, t0, 1; addi t2, t1, 2; ret`: each `addi` reads the register the instruction before it writes.  The
control unit pushes the consumer one cycle after the producer with a channel between them (`forwarded = 2`); the
consumer does not wait for the write unit. -/

def fwdApp : Model.Seq.App :=
  { instrs := [.li_ { rd := 5, imm := 7#32 }, .addi_ { rd := 6, rs := 5, imm := 1#32 },
               .addi_ { rd := 7, rs := 6, imm := 2#32 }, .ret_ {}], labels := {} }

theorem fwd_seq : obsSeq (Model.Seq.runMvp1 fwdApp ⟨ctx0 64, 0⟩ 10) 6 7 = (some .ret, 8#32, 10#32, m11) := by
  decide +kernel

theorem fwd_p1 : obs (run fwdApp (ctx0 64) 1 1 1000) 6 7 = (some .ret, 318, 317, 4, 2, 8#32, 10#32, m11) := by
  decide +kernel

theorem fwd_p2 : obs (run fwdApp (ctx0 64) 2 2 1000) 6 7 = (some .ret, 318, 317, 4, 2, 8#32, 10#32, m11) := by
  decide +kernel

/-! ### M61-defect-1 (fixed in /repo): an error inside the flush loop

`lw t0, 0(zero); div t1, t2, t0; beqz zero, l; nop; l:` with memory all zero: the `div` divides by the loaded 0.  The
unpipelined machine (and MVP-6.1 with one or two units) returns the error `division by zero`.  With three units the `div`
waits in its unit for the forwarded `t0` while the (independent, taken) branch behind it runs and asks for a flush; the
flush path's loop "executing previous unit cycles" then cycles the busy units, the `div` gets its operand and fails.
`cpu.go` said `if resp.err != nil { return 0, nil }` there (the run was reported successful, with 0 cycles); since the
fix it returns the error. -/

def zeroApp : Model.Seq.App :=
  { instrs := [.lw_ { rd := 5, offset := 0#32, rs := 0 }, .div_ { rd := 6, rs1 := 7, rs2 := 5 },
               .beqz_ { rs := 0, label := "l" }, .nop_ {}],
    labels := GoMap.ofList [("l", 16#32)] }

def ctxZ (n : Nat) : Model.Context := { Memory := List.replicate n 0#8 }
def m00 : List Byte := List.replicate 8 0#8

theorem zero_seq : obsSeq (Model.Seq.runMvp1 zeroApp ⟨ctxZ 64, 0⟩ 10) 5 6 = (some .err, 0#32, 0#32, m00) := by
  decide +kernel

theorem zero_p2 : obs (run zeroApp (ctxZ 64) 2 2 1000) 5 6 = (some .err, 622, 622, 2, 1, 0#32, 0#32, m00) := by
  decide +kernel

/-- three units: the error is reported too — after 623 ticks and three executed instructions, from inside the flush loop -/
theorem zero_p3 : obs (run zeroApp (ctxZ 64) 3 3 1000) 5 6 = (some .err, 622, 623, 3, 1, 0#32, 0#32, m00) := by
  decide +kernel

end Proofs.Mvp61Witness

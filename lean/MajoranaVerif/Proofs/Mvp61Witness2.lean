/-
  Proofs/Mvp61Witness2.lean — more kernel evaluations of `Model.Mvp61` (see `Proofs/Mvp61Witness.lean`): the programs
  on which MVP-6.0 loses an older load at a flush (KF-ooo-flush-load, `Proofs.Mvp60Witness`) are executed correctly by
  MVP-6.1, whose flush path first lets the busy execute units finish; and a chain of dependent instructions on which
  operands are forwarded.
-/
import MajoranaVerif.Proofs.Mvp61Witness
open GoInt

namespace Proofs.Mvp61Witness
open Model.Mvp61

set_option synthInstance.maxSize 512

/-! ### MVP-6.0's lost load: not here

`lb a1, 0(zero); bnez s0, l3; addi a3, zero, 5; l3:` with `s0 = 1` (and `lb a2, 1(zero)` behind `l3`): MVP-6.0 with two
units cancels the load when the branch flushes, and dead-locks on the second program.  MVP-6.1's flush loop
("executing previous unit cycles") keeps cycling the busy units first. -/

def dropApp : Model.Seq.App :=
  { instrs := [.lb_ { rd := 11, offset := 0#32, rs := 0 }, .bnez_ { rs := 8, label := "l3" },
               .addi_ { rd := 13, rs := 0, imm := 5#32 }],
    labels := GoMap.ofList [("l3", 12#32)] }

def deadApp : Model.Seq.App :=
  { instrs := [.lb_ { rd := 11, offset := 0#32, rs := 0 }, .bnez_ { rs := 8, label := "l3" },
               .addi_ { rd := 13, rs := 0, imm := 5#32 }, .lb_ { rd := 12, offset := 1#32, rs := 0 }],
    labels := GoMap.ofList [("l3", 12#32)] }

def ctxS0 (n : Nat) : Model.Context := { Memory := mem11 n, Registers := GoMap.ofList [(8, 1#32)] }

/-- two units: `a1 = 0x11`, the wrong-path `addi` is not executed -/
theorem drop_p2 : obs (run dropApp (ctxS0 64) 2 2 1000) 11 13 = (some .offEnd, 936, 628, 2, 0, 0x11#32, 0#32, m11) := by
  decide +kernel

/-- three units: the wrong-path `addi` IS executed (three `Run`s), but its result is dropped by the flush: `a3 = 0` -/
theorem drop_p3 : obs (run dropApp (ctxS0 64) 3 3 1000) 11 13 = (some .offEnd, 936, 629, 3, 0, 0x11#32, 0#32, m11) := by
  decide +kernel

/-- two units, second program: the run ends, both loads arrive -/
theorem dead_p2 : obs (run deadApp (ctxS0 64) 2 2 1000) 11 12 = (some .offEnd, 988, 680, 3, 0, 0x11#32, 0x11#32, m11) := by
  decide +kernel

/-! ### forwarding at work

`li t0, 7; addi t1, t0, 1; addi t2, t1, 2; ret`: each `addi` reads the register the instruction before it writes.  The
control unit pushes the consumer one cycle after the producer with a channel between them (`forwarded = 2`); the
consumer does not wait for the write unit. -/

def fwdApp : Model.Seq.App :=
  { instrs := [.li_ { rd := 5, imm := 7#32 }, .addi_ { rd := 6, rs := 5, imm := 1#32 },
               .addi_ { rd := 7, rs := 6, imm := 2#32 }, .ret_ {}], labels := {} }

theorem fwd_seq : obsSeq (Model.Seq.runMvp1 fwdApp ⟨ctx0 64, 0⟩ 10) 6 7 = (some .ret, 8#32, 10#32, m11) := by
  decide +kernel

theorem fwd_p1 : obs (run fwdApp (ctx0 64) 1 1 1000) 6 7 = (some .ret, 318, 317, 4, 2, 8#32, 10#32, m11) := by
  decide +kernel

theorem fwd_p2 : obs (run fwdApp (ctx0 64) 2 2 1000) 6 7 = (some .ret, 318, 317, 4, 2, 8#32, 10#32, m11) := by
  decide +kernel

end Proofs.Mvp61Witness

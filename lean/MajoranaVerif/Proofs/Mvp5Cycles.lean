/-
  Proofs/Mvp5Cycles.lean — the counters of MVP-5 (work package CYC45): the analogue of Proofs/Mvp4Cycles.lean.
-/
import MajoranaVerif.Proofs.Mvp5Total
import MajoranaVerif.Proofs.Mvp4Cycles
open GoInt Model Model.Seq
open Proofs.Mvp4

set_option linter.unusedSimpArgs false
set_option linter.unusedVariables false

namespace Proofs.Mvp5
open Model.Mvp5
open Model.Mvp4 (Runner ExecUnit EuOut Event Mode instrAt pastEnd FetchUnit WriteUnit)

/-! ### what the execute unit does to the counters (for every state) -/

/-- what a cycle of the execute unit of MVP-5 leaves alone (it may redirect the fetch unit, but does not touch its
latency counter), and what it may do to the count of executed instructions -/
structure Cnt5 (s s2 : State) : Prop where
  cycles : s2.base.cycles = s.base.cycles
  fuP : s2.base.fu.processing = s.base.fu.processing
  fuR : s2.base.fu.remainingCycles = s.base.fu.remainingCycles
  wu : s2.base.wu = s.base.wu
  exLo : s.base.executed ≤ s2.base.executed
  exHi : s2.base.executed ≤ s.base.executed + 1

theorem Cnt5.same {s s2 : State} (h1 : s2.base.cycles = s.base.cycles) (h2 : s2.base.fu.processing = s.base.fu.processing)
    (h2' : s2.base.fu.remainingCycles = s.base.fu.remainingCycles) (h3 : s2.base.wu = s.base.wu)
    (h4 : s2.base.executed = s.base.executed) : Cnt5 s s2 :=
  ⟨h1, h2, h2', h3, by rw [h4]; exact Nat.le_refl _, by rw [h4]; exact Nat.le_succ _⟩

theorem Cnt5.of_eq {s s1 s2 : State} (h : Cnt5 s1 s2) (h1 : s1.base.cycles = s.base.cycles)
    (h2 : s1.base.fu.processing = s.base.fu.processing) (h2' : s1.base.fu.remainingCycles = s.base.fu.remainingCycles)
    (h3 : s1.base.wu = s.base.wu) (h4 : s1.base.executed = s.base.executed) : Cnt5 s s2 :=
  ⟨by rw [h.cycles, h1], by rw [h.fuP, h2], by rw [h.fuR, h2'], by rw [h.wu, h3],
   by rw [← h4]; exact h.exLo, by rw [← h4]; exact h.exHi⟩

theorem euQueue5_cnt (s : State) (r : Runner) (e : Gen.Execution) (eu : ExecUnit) (mmu : Model.Mmu.Mmu) :
    (Model.Mvp5.euQueue s r e eu mmu).1.base.cycles = s.base.cycles ∧
    (Model.Mvp5.euQueue s r e eu mmu).1.base.fu.processing = s.base.fu.processing ∧
    (Model.Mvp5.euQueue s r e eu mmu).1.base.fu.remainingCycles = s.base.fu.remainingCycles ∧
    (Model.Mvp5.euQueue s r e eu mmu).1.base.wu = s.base.wu ∧
    (Model.Mvp5.euQueue s r e eu mmu).1.base.executed = s.base.executed := by
  obtain ⟨q1, q2, q3, q4⟩ := euQueue_cnt s.base r e eu mmu
  unfold Model.Mvp5.euQueue
  simp only
  split
  · unfold notifyJumpAddressResolved fuReset
    simp only
    exact ⟨q1, by rw [q2], by rw [q2], q3, q4⟩
  · exact ⟨q1, by rw [q2], by rw [q2], q3, q4⟩

theorem euRun5_cnt {app : App} {s s2 : State} {r : Runner} {b : List Byte} {out : EuOut}
    (h : Model.Mvp5.euRun app s r b = .ok (s2, out)) : Cnt5 s s2 := by
  unfold Model.Mvp5.euRun at h
  simp only at h
  split at h
  · cases h
  · obtain ⟨rfl, _⟩ := ok_pair_inj h
    exact ⟨rfl, rfl, rfl, rfl, Nat.le_succ _, Nat.le_refl _⟩
  · rename_i e _
    split at h
    · obtain ⟨rfl, _⟩ := ok_pair_inj h
      exact ⟨rfl, rfl, rfl, rfl, Nat.le_succ _, Nat.le_refl _⟩
    · obtain ⟨⟨inL1D, mmu1⟩, h1, h2⟩ := bind_ok_inv h
      simp only at h2
      split at h2
      · obtain ⟨mmu2, h3, h4⟩ := bind_ok_inv h2
        obtain ⟨rfl, _⟩ := ok_pair_inj h4
        exact ⟨rfl, rfl, rfl, rfl, Nat.le_succ _, Nat.le_refl _⟩
      · simp only [pure, Except.pure] at h2
        injection h2 with h2
        have := congrArg Prod.fst h2
        simp only at this
        rw [← this]
        obtain ⟨q1, q2, q2', q3, q4⟩ := euQueue5_cnt { s with base := { s.base with executed := s.base.executed + 1 } } r e
          { s.base.eu with processing := false, runner := none } mmu1
        exact ⟨q1, q2, q2', q3, by rw [q4]; exact Nat.le_succ _, by rw [q4]; exact Nat.le_refl _⟩

theorem euIssue5_cnt {app : App} {s s2 : State} {eu : ExecUnit} {r : Runner} {out : EuOut}
    (h : Model.Mvp5.euIssue app s eu r = .ok (s2, out)) : Cnt5 s s2 := by
  obtain ⟨_, _, _, _, _, _, _, f8, _, f10, f11, _, _, _, f15, f16, _, _⟩ := assert_frame { instrs := [], labels := {} } s r
  unfold Model.Mvp5.euIssue at h
  simp only at h
  split at h
  · obtain ⟨rfl, _⟩ := ok_pair_inj h; exact Cnt5.same f10 f15 f16 f8 f11
  · split at h
    · split at h
      · obtain ⟨rfl, _⟩ := ok_pair_inj h; exact Cnt5.same f10 f15 f16 f8 f11
      · obtain ⟨⟨m, mmu1⟩, h1, h2⟩ := bind_ok_inv h
        simp only at h2
        split at h2
        · obtain ⟨rfl, _⟩ := ok_pair_inj h2; exact Cnt5.same f10 f15 f16 f8 f11
        · obtain ⟨rfl, _⟩ := ok_pair_inj h2; exact Cnt5.same f10 f15 f16 f8 f11
    · exact (euRun5_cnt h).of_eq f10 f15 f16 f8 f11

theorem euMemDone5_cnt {app : App} {s s2 : State} {eu : ExecUnit} {r : Runner} {out : EuOut}
    (h : Model.Mvp5.euMemDone app s eu r = .ok (s2, out)) : Cnt5 s s2 := by
  unfold Model.Mvp5.euMemDone at h
  split at h
  · exact (euRun5_cnt h).of_eq rfl rfl rfl rfl rfl
  · split at h
    · cases h
    · obtain ⟨line, _, h2⟩ := bind_ok_inv h
      obtain ⟨⟨mmu1, mem1⟩, h3, h4⟩ := bind_ok_inv h2
      obtain ⟨⟨m, mmu2⟩, h5, h6⟩ := bind_ok_inv h4
      simp only at h6
      split at h6
      · cases h6
      · exact (euRun5_cnt h6).of_eq rfl rfl rfl rfl rfl

theorem euStep5_cnt {app : App} {s s2 : State} {eu : ExecUnit} {out : EuOut}
    (h : Model.Mvp5.euStep app s eu = .ok (s2, out)) : Cnt5 s s2 := by
  unfold Model.Mvp5.euStep at h
  simp only at h
  split at h
  · obtain ⟨rfl, _⟩ := ok_pair_inj h; exact Cnt5.same rfl rfl rfl rfl rfl
  · split at h
    · obtain ⟨rfl, _⟩ := ok_pair_inj h; exact Cnt5.same rfl rfl rfl rfl rfl
    · split at h
      · cases h
      · exact euIssue5_cnt h

theorem executeCycle5_cnt {app : App} {s s2 : State} {out : EuOut}
    (h : Model.Mvp5.executeCycle app s = .ok (s2, out)) : Cnt5 s s2 := by
  unfold Model.Mvp5.executeCycle at h
  split at h
  · simp only at h
    split at h
    · obtain ⟨rfl, _⟩ := ok_pair_inj h; exact Cnt5.same rfl rfl rfl rfl rfl
    · split at h
      · cases h
      · exact euMemDone5_cnt h
  · obtain ⟨⟨b1, eu1, go⟩, h1, h2⟩ := bind_ok_inv h
    obtain ⟨t1, t2, t3, t4⟩ := euTake_cnt' h1
    simp only at h2
    split at h2
    · obtain ⟨rfl, _⟩ := ok_pair_inj h2
      exact Cnt5.same t1 (by show b1.fu.processing = _; rw [t2]) (by show b1.fu.remainingCycles = _; rw [t2]) t3 t4
    · exact (euStep5_cnt h2).of_eq t1 (by show b1.fu.processing = _; rw [t2]) (by show b1.fu.remainingCycles = _; rw [t2]) t3 t4


/-! ### one tick and the counters (for every state) -/

theorem fetchCycle5_cnt {app : App} {s s1 : State} (h : Model.Mvp5.fetchCycle app s = .ok s1) :
    s1.base.cycles = s.base.cycles ∧ s1.base.wu = s.base.wu ∧ s1.base.executed = s.base.executed ∧
    ((s.base.fu.processing = true → s.base.fu.remainingCycles ≤ Gen.Latency.MemoryAccess) →
      (s1.base.fu.processing = true → s1.base.fu.remainingCycles ≤ Gen.Latency.MemoryAccess)) := by
  unfold Model.Mvp5.fetchCycle at h
  simp only at h
  obtain ⟨⟨fu', mmu', bus'⟩, h1, h2⟩ := bind_ok_inv h
  simp only [pure, Except.pure] at h2
  injection h2 with h2; subst h2
  exact ⟨rfl, rfl, rfl, fetchCore_ub h1⟩

theorem decodeCycle5_cnt {app : App} {s s1 : State} (h : Model.Mvp5.decodeCycle app s = .ok s1) :
    s1.base.cycles = s.base.cycles ∧ s1.base.wu = s.base.wu ∧ s1.base.executed = s.base.executed ∧
    s1.base.fu = s.base.fu := by
  unfold Model.Mvp5.decodeCycle at h
  split at h
  · simp only [pure, Except.pure] at h; injection h with h; subst h; exact ⟨rfl, rfl, rfl, rfl⟩
  · split at h
    · simp only [pure, Except.pure] at h; injection h with h; subst h; exact ⟨rfl, rfl, rfl, rfl⟩
    · simp only at h
      split at h
      · simp only [pure, Except.pure] at h; injection h with h; subst h; exact ⟨rfl, rfl, rfl, rfl⟩
      · obtain ⟨i, _, h2⟩ := bind_ok_inv h
        simp only [pure, Except.pure] at h2; injection h2 with h2; subst h2; exact ⟨rfl, rfl, rfl, rfl⟩

theorem writeCycle5_inv {s s1 : State} (h : Model.Mvp5.writeCycle s = .ok s1) :
    ∃ b, Model.Mvp4.writeCycle s.base = .ok b ∧ s1 = { s with base := b } := by
  unfold Model.Mvp5.writeCycle at h
  obtain ⟨b, h1, h2⟩ := bind_ok_inv h
  simp only [pure, Except.pure] at h2; injection h2 with h2
  exact ⟨b, h1, h2.symm⟩

theorem finish5_inv {s s' : State} {hk : Halt} {ev : Event} (h : Model.Mvp5.finish s hk = .ok (s', ev)) :
    ∃ b, Model.Mvp4.finish s.base hk = .ok (b, ev) ∧ s' = { s with base := b } := by
  unfold Model.Mvp5.finish at h
  obtain ⟨⟨b, ev'⟩, h1, h2⟩ := bind_ok_inv h
  simp only [pure, Except.pure] at h2
  obtain ⟨rfl, rfl⟩ := ok_pair_inj h2
  exact ⟨b, h1, rfl⟩

theorem afterExecute5_cnt {s s' : State} {out : EuOut} {ev : Event} (h : Model.Mvp5.afterExecute s out = .ok (s', ev)) :
    s.base.cycles ≤ s'.base.cycles ∧ s'.base.executed = s.base.executed ∧
    (ev = .running → s'.base.cycles = s.base.cycles ∧
      ((s.base.fu.processing = true → s.base.fu.remainingCycles ≤ Gen.Latency.MemoryAccess) →
       (s.base.wu.pendingMemoryWrite = true → s.base.wu.cycles ≤ Gen.Latency.MemoryAccess) → UB s'.base)) ∧
    (ev = .done .err → s'.base.cycles = s.base.cycles) ∧
    (∀ hk, ev = .done hk →
      s'.base.cycles ≤ s.base.cycles + s'.base.mmu.l1d.lines.length * Gen.Latency.MemoryAccess) := by
  unfold Model.Mvp5.afterExecute at h
  cases out with
  | err =>
    simp only [pure, Except.pure] at h
    obtain ⟨rfl, rfl⟩ := ok_pair_inj h
    refine ⟨Int.le_refl _, rfl, fun hx => (nomatch hx), fun _ => rfl, fun hk _ => ?_⟩
    have := lines_cost_nonneg s.base.mmu.l1d.lines.length
    omega
  | none =>
    try simp only at h
    obtain ⟨s4, h4, h5⟩ := bind_ok_inv h
    obtain ⟨b4, hw4, rfl⟩ := writeCycle5_inv h4
    obtain ⟨w1, w2, w3, w4, w5, w6⟩ := writeCycle_cnt hw4
    try simp only at h5
    split at h5
    · obtain ⟨b', hf, rfl⟩ := finish5_inv h5
      obtain ⟨rfl, f2, f3⟩ := finish_cnt hf
      have := lines_cost_nonneg b'.mmu.l1d.lines.length
      refine ⟨by show s.base.cycles ≤ b'.cycles; rw [f2, w1]; omega, by show b'.executed = _; rw [f3, w3],
        fun hx => (nomatch hx), fun hx => (nomatch hx), fun hk _ => ?_⟩
      show b'.cycles ≤ _
      rw [f2, w1]; exact Int.le_refl _
    · simp only [pure, Except.pure] at h5
      obtain ⟨rfl, rfl⟩ := ok_pair_inj h5
      exact ⟨by show s.base.cycles ≤ b4.cycles; rw [w1]; exact Int.le_refl _, w3,
        fun _ => ⟨w1, fun u1 u2 => ⟨by show b4.fu.processing = true → _; rw [w2]; exact u1, w6 u2⟩⟩,
        fun hx => (nomatch hx), fun hk hx => (nomatch hx)⟩
  | ret =>
    try simp only at h
    obtain ⟨s4, h4, h5⟩ := bind_ok_inv h
    obtain ⟨b4, hw4, rfl⟩ := writeCycle5_inv h4
    obtain ⟨w1, w2, w3, w4, w5, w6⟩ := writeCycle_cnt hw4
    try simp only at h5
    split at h5
    · simp only [pure, Except.pure] at h5
      obtain ⟨rfl, rfl⟩ := ok_pair_inj h5
      exact ⟨by show s.base.cycles ≤ b4.cycles; rw [w1]; exact Int.le_refl _, w3,
        fun _ => ⟨w1, fun u1 u2 => ⟨by show b4.fu.processing = true → _; rw [w2]; exact u1, w6 u2⟩⟩,
        fun hx => (nomatch hx), fun hk hx => (nomatch hx)⟩
    · obtain ⟨b', hf, rfl⟩ := finish5_inv h5
      obtain ⟨rfl, f2, f3⟩ := finish_cnt hf
      have := lines_cost_nonneg b'.mmu.l1d.lines.length
      refine ⟨by show s.base.cycles ≤ b'.cycles; rw [f2, w1]; omega, by show b'.executed = _; rw [f3, w3],
        fun hx => (nomatch hx), fun hx => (nomatch hx), fun hk _ => ?_⟩
      show b'.cycles ≤ _
      rw [f2, w1]; exact Int.le_refl _
  | flush pc =>
    try simp only at h
    obtain ⟨s4, h4, h5⟩ := bind_ok_inv h
    obtain ⟨b4, hw4, rfl⟩ := writeCycle5_inv h4
    obtain ⟨w1, w2, w3, w4, w5, w6⟩ := writeCycle_cnt hw4
    try simp only at h5
    split at h5
    · simp only [pure, Except.pure] at h5
      obtain ⟨rfl, rfl⟩ := ok_pair_inj h5
      exact ⟨by show s.base.cycles ≤ b4.cycles; rw [w1]; exact Int.le_refl _, w3,
        fun _ => ⟨w1, fun u1 u2 => ⟨by show b4.fu.processing = true → _; rw [w2]; exact u1, w6 u2⟩⟩,
        fun hx => (nomatch hx), fun hk hx => (nomatch hx)⟩
    · simp only [pure, Except.pure] at h5
      obtain ⟨rfl, rfl⟩ := ok_pair_inj h5
      exact ⟨by show s.base.cycles ≤ b4.cycles; rw [w1]; exact Int.le_refl _, w3,
        fun _ => ⟨w1, fun u1 u2 => ⟨fun hx => (by simp [Model.Mvp5.flushAll, Model.Mvp4.flushAll, Model.Mvp4.FetchUnit.flush] at hx), w6 u2⟩⟩,
        fun hx => (nomatch hx), fun hk hx => (nomatch hx)⟩

/-- **one tick of MVP-5 and the counters**, for every state (`Proofs.Mvp4.TickCnt` on the common part of the state) -/
theorem cycleM5_cnt {app : App} {s s' : State} {ev : Event} (h : Model.Mvp5.cycleM app s = .ok (s', ev)) :
    TickCnt s.base s'.base ev := by
  unfold Model.Mvp5.cycleM at h
  cases hm : s.base.mode with
  | normal =>
    simp only [hm] at h
    obtain ⟨s1, h1, h⟩ := bind_ok_inv h
    obtain ⟨s2, h2, h⟩ := bind_ok_inv h
    obtain ⟨⟨s3, out⟩, h3, h⟩ := bind_ok_inv h
    simp only at h
    obtain ⟨a1, a2, a3, a5⟩ := fetchCycle5_cnt h1
    obtain ⟨b1, b2, b3, b4⟩ := decodeCycle5_cnt h2
    have c := executeCycle5_cnt h3
    obtain ⟨d1, d2, d3, d4, d5⟩ := afterExecute5_cnt h
    have hc3 : s3.base.cycles = s.base.cycles + 1 := by rw [c.cycles, b1, a1]
    have he3lo : s.base.executed ≤ s3.base.executed := by have := c.exLo; rw [b3, a3] at this; exact this
    have he3hi : s3.base.executed ≤ s.base.executed + 1 := by have := c.exHi; rw [b3, a3] at this; exact this
    refine { cycLo := by omega, exLo := by rw [d2]; exact he3lo, exCyc := by rw [d2]; omega,
             inc := fun _ _ => by omega, run := fun hx => ?_, err := fun hx => by rw [d4 hx]; omega,
             fin := fun hk hx => by have := d5 hk hx; omega }
    obtain ⟨e1, e2⟩ := d3 hx
    refine ⟨by omega, fun hub => e2 ?_ ?_⟩
    · rw [c.fuP, c.fuR, b4]; exact a5 hub.1
    · rw [c.wu, b2, a2]; exact hub.2
  | drainRet =>
    simp only [hm] at h
    obtain ⟨s4, h4, h5⟩ := bind_ok_inv h
    obtain ⟨b4, hw4, rfl⟩ := writeCycle5_inv h4
    obtain ⟨w1, w2, w3, w4, w5, w6⟩ := writeCycle_cnt hw4
    try simp only at h5
    split at h5
    · simp only [pure, Except.pure] at h5
      obtain ⟨rfl, rfl⟩ := ok_pair_inj h5
      exact { cycLo := by show _ ≤ b4.cycles; rw [w1]; exact Int.le_refl _,
              exLo := by show _ ≤ b4.executed; rw [w3]; exact Nat.le_refl _,
              exCyc := by show (b4.executed : Int) - _ ≤ b4.cycles - _; rw [w1, w3]; omega,
              inc := fun _ hx => absurd hm hx,
              run := fun _ => ⟨by show b4.cycles ≤ _; rw [w1]; omega,
                fun hub => ⟨by show b4.fu.processing = true → _; rw [w2]; exact hub.1, w6 hub.2⟩⟩,
              err := fun hx => (nomatch hx), fin := fun hk hx => (nomatch hx) }
    · obtain ⟨b', hf, rfl⟩ := finish5_inv h5
      obtain ⟨rfl, f2, f3⟩ := finish_cnt hf
      have := lines_cost_nonneg b'.mmu.l1d.lines.length
      exact { cycLo := by show _ ≤ b'.cycles; rw [f2, w1]; omega,
              exLo := by show _ ≤ b'.executed; rw [f3, w3]; exact Nat.le_refl _,
              exCyc := by show (b'.executed : Int) - _ ≤ b'.cycles - _; rw [f2, f3, w1, w3]; omega,
              inc := fun _ hx => absurd hm hx, run := fun hx => (nomatch hx),
              err := fun hx => (nomatch hx),
              fin := fun hk _ => by
                show b'.cycles ≤ s.base.cycles + 1 + b'.mmu.l1d.lines.length * Gen.Latency.MemoryAccess
                rw [f2, w1]; omega }
  | drainFlush pc =>
    simp only [hm] at h
    obtain ⟨s4, h4, h5⟩ := bind_ok_inv h
    obtain ⟨b4, hw4, rfl⟩ := writeCycle5_inv h4
    obtain ⟨w1, w2, w3, w4, w5, w6⟩ := writeCycle_cnt hw4
    try simp only at h5
    have hc4 : b4.cycles = s.base.cycles + 1 := w1
    have he4 : b4.executed = s.base.executed := w3
    split at h5
    · simp only [pure, Except.pure] at h5
      obtain ⟨rfl, rfl⟩ := ok_pair_inj h5
      exact { cycLo := by show _ ≤ b4.cycles; omega, exLo := by show _ ≤ b4.executed; rw [he4]; exact Nat.le_refl _,
              exCyc := by show (b4.executed : Int) - _ ≤ b4.cycles - _; rw [he4]; omega,
              inc := fun _ _ => (by show s.base.cycles + 1 ≤ b4.cycles; omega),
              run := fun _ => ⟨by show b4.cycles ≤ _; omega,
                fun hub => ⟨by show b4.fu.processing = true → _; rw [w2]; exact hub.1, w6 hub.2⟩⟩,
              err := fun hx => (nomatch hx), fin := fun hk hx => (nomatch hx) }
    · simp only [pure, Except.pure] at h5
      obtain ⟨rfl, rfl⟩ := ok_pair_inj h5
      exact { cycLo := by show _ ≤ b4.cycles; omega, exLo := by show _ ≤ b4.executed; rw [he4]; exact Nat.le_refl _,
              exCyc := by show (b4.executed : Int) - _ ≤ b4.cycles - _; rw [he4]; omega,
              inc := fun _ _ => (by show s.base.cycles + 1 ≤ b4.cycles; omega),
              run := fun _ => ⟨by show b4.cycles ≤ _; omega,
                fun hub => ⟨fun hx => (by simp [Model.Mvp5.flushAll, Model.Mvp4.flushAll, Model.Mvp4.FetchUnit.flush] at hx), w6 hub.2⟩⟩,
              err := fun hx => (nomatch hx), fin := fun hk hx => (nomatch hx) }

theorem cycle5_cnt {app : App} {s s' : State} {ev : Event} (h : Model.Mvp5.cycle app s = (s', ev)) :
    TickCnt s.base s'.base ev := by
  unfold Model.Mvp5.cycle at h
  cases hc : Model.Mvp5.cycleM app s with
  | ok r =>
    obtain ⟨s1, ev1⟩ := r
    simp only [hc, Prod.mk.injEq] at h
    obtain ⟨rfl, rfl⟩ := h
    exact cycleM5_cnt hc
  | error f =>
    have hst : s' = s ∧ ∃ w, ev = .done (.panic w) := by
      cases f with
      | panic w => simp only [hc, Prod.mk.injEq] at h; exact ⟨h.1.symm, w, h.2.symm⟩
      | err w => simp only [hc, Prod.mk.injEq] at h; exact ⟨h.1.symm, w, h.2.symm⟩
    obtain ⟨rfl, w, rfl⟩ := hst
    have := lines_cost_nonneg s'.base.mmu.l1d.lines.length
    exact { cycLo := Int.le_refl _, exLo := Nat.le_refl _, exCyc := by omega,
            inc := fun hx => absurd rfl (hx w), run := fun hx => (nomatch hx), err := fun hx => (nomatch hx),
            fin := fun hk _ => by omega }


/-! ### whole runs: the lower bound (for every run) -/

theorem runFrom5_cnt (app : App) : ∀ (fuel : Nat) (s : State) (n : Nat),
    s.base.cycles ≤ (Model.Mvp5.runFrom app fuel s n).final.base.cycles ∧
    s.base.executed ≤ (Model.Mvp5.runFrom app fuel s n).final.base.executed ∧
    ((Model.Mvp5.runFrom app fuel s n).final.base.executed : Int) - s.base.executed ≤
      (Model.Mvp5.runFrom app fuel s n).final.base.cycles - s.base.cycles
  | 0, s, n => by
    unfold Model.Mvp5.runFrom
    show s.base.cycles ≤ s.base.cycles ∧ s.base.executed ≤ s.base.executed ∧
      (s.base.executed : Int) - s.base.executed ≤ s.base.cycles - s.base.cycles
    exact ⟨Int.le_refl _, Nat.le_refl _, by omega⟩
  | fuel + 1, s, n => by
    unfold Model.Mvp5.runFrom
    cases hc : Model.Mvp5.cycle app s with
    | mk s' ev =>
      have t := cycle5_cnt hc
      cases ev with
      | running =>
        simp only
        obtain ⟨i1, i2, i3⟩ := runFrom5_cnt app fuel s' (n + 1)
        have := t.cycLo; have := t.exLo; have := t.exCyc
        exact ⟨by omega, by omega, by omega⟩
      | done hk =>
        simp only
        exact ⟨t.cycLo, t.exLo, t.exCyc⟩

theorem runFrom5_pos (app : App) {fuel : Nat} {s : State} {n : Nat} {hk : Halt}
    (hh : (Model.Mvp5.runFrom app fuel s n).halt = some hk) (hnp : ∀ w, hk ≠ .panic w) (hm : s.base.mode ≠ .drainRet) :
    s.base.cycles + 1 ≤ (Model.Mvp5.runFrom app fuel s n).final.base.cycles := by
  cases fuel with
  | zero => unfold Model.Mvp5.runFrom at hh; cases hh
  | succ fuel =>
    unfold Model.Mvp5.runFrom at hh ⊢
    cases hc : Model.Mvp5.cycle app s with
    | mk s' ev =>
      have t := cycle5_cnt hc
      cases ev with
      | running =>
        simp only [hc] at hh ⊢
        have h1 := t.inc (fun w h => by cases h) hm
        have h2 := (runFrom5_cnt app fuel s' (n + 1)).1
        omega
      | done hk' =>
        simp only [hc] at hh ⊢
        have : hk' = hk := by injection hh
        subst this
        exact t.inc (fun w h => by injection h with h; exact hnp w h) hm

theorem init5_inv {ctx : Model.Context} {s0 : State} (h : Model.Mvp5.init ctx = .ok s0) :
    ∃ b0, Model.Mvp4.init ctx = .ok b0 ∧ s0 = { base := b0 } := by
  unfold Model.Mvp5.init at h
  simp only [constsAgree_true, Bool.not_true, Bool.false_eq_true, if_false] at h
  obtain ⟨b0, h1, h2⟩ := bind_ok_inv h
  simp only [pure, Except.pure] at h2; injection h2 with h2
  exact ⟨b0, h1, h2.symm⟩

/-- **lower bound, MVP-5, every run**: the cycle counter is at least the number of executed instructions -/
theorem run5_executed_le_cycles (app : App) (ctx : Model.Context) (ticks : Nat) :
    ((Model.Mvp5.run app ctx ticks).final.base.executed : Int) ≤ (Model.Mvp5.run app ctx ticks).final.base.cycles := by
  unfold Model.Mvp5.run
  cases hi : Model.Mvp5.init ctx with
  | error e => simp only; show ((0 : Nat) : Int) ≤ 0; omega
  | ok s0 =>
    simp only
    obtain ⟨b0, hb0, rfl⟩ := init5_inv hi
    obtain ⟨c0, e0, _⟩ := init_counters hb0
    obtain ⟨_, _, h3⟩ := runFrom5_cnt app ticks { base := b0 } 0
    have c0' : ({ base := b0 } : State).base.cycles = 0 := c0
    have e0' : ({ base := b0 } : State).base.executed = 0 := e0
    rw [c0', e0'] at h3
    omega

/-- **positivity**: an MVP-5 run that ends (not with a panic) has counted at least one cycle -/
theorem run5_cycles_pos (app : App) (ctx : Model.Context) (ticks : Nat) (hk : Halt)
    (hh : (Model.Mvp5.run app ctx ticks).halt = some hk) (hnp : ∀ w, hk ≠ .panic w) :
    1 ≤ (Model.Mvp5.run app ctx ticks).final.base.cycles := by
  unfold Model.Mvp5.run at hh ⊢
  cases hi : Model.Mvp5.init ctx with
  | error e =>
    simp only [hi] at hh
    injection hh with hh
    exact absurd hh.symm (hnp _)
  | ok s0 =>
    simp only [hi] at hh ⊢
    obtain ⟨b0, hb0, rfl⟩ := init5_inv hi
    obtain ⟨c0, _, m0, _⟩ := init_counters hb0
    have := runFrom5_pos app hh hnp (by show b0.mode ≠ _; rw [m0]; intro hx; cases hx)
    have c0' : ({ base := b0 } : State).base.cycles = 0 := c0
    rw [c0'] at this
    omega

theorem runFrom5_ticks_le (app : App) : ∀ (t : Nat) (s : State) (n : Nat), (Model.Mvp5.runFrom app t s n).ticks ≤ n + t
  | 0, s, n => by unfold Model.Mvp5.runFrom; exact Nat.le_refl _
  | t + 1, s, n => by
    unfold Model.Mvp5.runFrom
    cases hc : Model.Mvp5.cycle app s with
    | mk s' ev =>
      cases ev with
      | running => simp only; have := runFrom5_ticks_le app t s' (n + 1); omega
      | done hk => simp only; omega

/-- a larger tick budget does not change a run that has ended -/
theorem runFrom5_mono (app : App) : ∀ (t : Nat) (s : State) (n : Nat) (hk : Halt) (t' : Nat),
    (Model.Mvp5.runFrom app t s n).halt = some hk → t ≤ t' → Model.Mvp5.runFrom app t' s n = Model.Mvp5.runFrom app t s n
  | 0, s, n, hk, t', hh, _ => by unfold Model.Mvp5.runFrom at hh; cases hh
  | t + 1, s, n, hk, t', hh, hle => by
    obtain ⟨t'', rfl⟩ : ∃ t'', t' = t'' + 1 := ⟨t' - 1, by omega⟩
    unfold Model.Mvp5.runFrom at hh ⊢
    cases hc : Model.Mvp5.cycle app s with
    | mk s' ev =>
      cases ev with
      | running =>
        simp only [hc] at hh ⊢
        exact runFrom5_mono app t s' (n + 1) hk t'' hh (by omega)
      | done hk' => rfl


/-! ### the measure right after an executed instruction is bounded -/

theorem frontW5_le (app : App) (s : State) : frontW5 app s ≤ 5 + fuW app s.base.fu :=
  frontW_le_five s.base.executeBus (dBus s) s.base.fu

theorem phi5_fresh_le (app : App) (s : State) (hub : UB s.base) (hf : Fresh s.base) : phi5 app s ≤ phiBound := by
  have hw := wW_ub s.base.wu s.base.writeBus hub.2
  have hb : phiBound = 4 * Gen.Latency.MemoryAccess.toNat + 2003 := rfl
  rw [hb]
  unfold phi5
  cases hm : s.base.mode with
  | normal =>
    obtain ⟨hp, hq⟩ := hf.2 hm
    have hF := frontW5_le app s
    have hfw := fuW_ub app s.base.fu hub.1
    have he : euPart s.base (frontW5 app s) = 500 + frontW5 app s := by
      unfold euPart; simp only [hp, hq, Bool.false_eq_true, if_false]
    show wW s.base.wu s.base.writeBus + euPart s.base (frontW5 app s) ≤ _
    rw [he]
    generalize Gen.Latency.MemoryAccess.toNat = M at hw hfw ⊢
    omega
  | drainRet =>
    show wW s.base.wu s.base.writeBus ≤ _
    generalize Gen.Latency.MemoryAccess.toNat = M at hw ⊢
    omega
  | drainFlush pc =>
    show 2000 + wW s.base.wu s.base.writeBus ≤ _
    generalize Gen.Latency.MemoryAccess.toNat = M at hw ⊢
    omega


/-! ### the run ends within a bounded number of ticks -/

/-- the run from `s` ends within `T` ticks, not with a panic; the returned cycle count exceeds the current one by at
most the ticks plus the final flush of at most 16 lines, and by at least `lo` -/
def EndsIn5 (app : App) (s : State) (n T lo : Nat) : Prop :=
  ∃ t hk, t ≤ T ∧ (Model.Mvp5.runFrom app t s n).halt = some hk ∧ (∀ w, hk ≠ .panic w) ∧
    (Model.Mvp5.runFrom app t s n).final.base.cycles ≤ s.base.cycles + t + 16 * Gen.Latency.MemoryAccess ∧
    s.base.cycles + lo ≤ (Model.Mvp5.runFrom app t s n).final.base.cycles

theorem EndsIn5.mono {app : App} {s : State} {n T T' lo lo' : Nat} (h : EndsIn5 app s n T lo) (hle : T ≤ T')
    (hlo : lo' ≤ lo) : EndsIn5 app s n T' lo' := by
  obtain ⟨t, hk, h1, h2, h3, h4, h5⟩ := h
  exact ⟨t, hk, Nat.le_trans h1 hle, h2, h3, h4, by omega⟩

/-- one more tick in front; it counts a cycle unless the machine is draining after `ret` -/
theorem endsIn5_of_running {app : App} {s s' : State} {n T lo : Nat} (h : Model.Mvp5.cycle app s = (s', .running))
    (he : EndsIn5 app s' (n + 1) T lo) :
    EndsIn5 app s n (T + 1) lo ∧ (s.base.mode ≠ .drainRet → EndsIn5 app s n (T + 1) (lo + 1)) := by
  obtain ⟨t, hk, h1, h2, h3, h4, h5⟩ := he
  have tc := cycle5_cnt h
  have hc := (tc.run rfl).1
  have hlo := tc.cycLo
  have key : ∀ lo' : Nat, s.base.cycles + lo' ≤ s'.base.cycles + lo → EndsIn5 app s n (T + 1) lo' := by
    intro lo' hl
    refine ⟨t + 1, hk, by omega, ?_, h3, ?_, ?_⟩
    · unfold Model.Mvp5.runFrom; simp only [h]; exact h2
    · unfold Model.Mvp5.runFrom; simp only [h]
      have : ((t + 1 : Nat) : Int) = (t : Int) + 1 := by omega
      rw [this]; omega
    · unfold Model.Mvp5.runFrom; simp only [h]; omega
  refine ⟨key lo (by omega), fun hm => key (lo + 1) ?_⟩
  have := tc.inc (fun w hx => by cases hx) hm
  have : ((lo + 1 : Nat) : Int) = (lo : Int) + 1 := by omega
  omega

theorem endsIn5_of_done {app : App} {s s' : State} {n : Nat} {hk : Halt} (h : Model.Mvp5.cycle app s = (s', .done hk))
    (hnp : ∀ w, hk ≠ .panic w) (hl : s'.base.mmu.l1d.lines.length ≤ 16 ∨ hk = .err) :
    EndsIn5 app s n 1 0 ∧ (s.base.mode ≠ .drainRet → EndsIn5 app s n 1 1) := by
  have t := cycle5_cnt h
  have hma := memAccess_nonneg
  have hub : s'.base.cycles ≤ s.base.cycles + 1 + 16 * Gen.Latency.MemoryAccess := by
    rcases hl with hl | rfl
    · have h1 := t.fin hk rfl
      have h2 : (s'.base.mmu.l1d.lines.length : Int) * Gen.Latency.MemoryAccess ≤ 16 * Gen.Latency.MemoryAccess :=
        Int.mul_le_mul_of_nonneg_right (by omega) hma
      omega
    · have h1 := t.err rfl
      omega
  have key : ∀ lo' : Nat, s.base.cycles + lo' ≤ s'.base.cycles → EndsIn5 app s n 1 lo' := by
    intro lo' hl'
    refine ⟨1, hk, Nat.le_refl _, ?_, hnp, ?_, ?_⟩
    · unfold Model.Mvp5.runFrom; simp only [h]
    · unfold Model.Mvp5.runFrom; simp only [h]
      have : ((1 : Nat) : Int) = 1 := rfl
      omega
    · unfold Model.Mvp5.runFrom; simp only [h]; exact hl'
  refine ⟨key 0 (by have := t.cycLo; omega), fun hm => key 1 ?_⟩
  have := t.inc (fun w hx => by injection hx with hx; exact hnp w hx) hm
  have : ((1 : Nat) : Int) = 1 := rfl
  omega

/-- what the inner induction proves about the ticks spent at one architectural state `a` (tick budget `B + T'`): the
run ends; it counts a cycle unless the machine is draining after `ret`; and if `a` has a next instruction, the run
counts one cycle more than the rest of the run from the next architectural state — or that state is past the end of
the program (the run may then end in the very tick that executes the last instruction) -/
def AtPost5 (app : App) (a : Arch) (T' lo B : Nat) (s : State) (n : Nat) : Prop :=
  EndsIn5 app s n (B + T') 0 ∧ (s.base.mode ≠ .drainRet → EndsIn5 app s n (B + T') 1) ∧
  (s.base.mode ≠ .drainRet → ∀ a' c, stepArch dc app a = .next a' c →
    EndsIn5 app s n (B + T') (lo + 1) ∨ ∃ c', stepArch dc app a' = .halt .offEnd c')

theorem endsIn5_tick {app : App} (hsmall : app.instrs.length < 250) (hnf : NoFwd app) (a : Arch)
    (hok : Model.Mvp4.stepOk app a = true) (hgood : SeqGood app a) (hapc : a.pc.toNat ≤ 4 * app.instrs.length)
    (hnext : ∀ a' c, stepArch dc app a = .next a' c → a'.pc.toNat ≤ 4 * app.instrs.length) (T' lo : Nat)
    (hcont : ∀ a' c s' n, stepArch dc app a = .next a' c → Rel5 app s' a' → Live5 app s' → UB s'.base → Fresh s'.base →
      EndsIn5 app s' n T' lo)
    (B : Nat) (s : State) (n : Nat)
    (ih : ∀ s' n', phi5 app s' < phi5 app s → Rel5 app s' a → Live5 app s' → UB s'.base → AtPost5 app a T' lo B s' n')
    (hR : Rel5 app s a) (hlv : Live5 app s) (hub : UB s.base) : AtPost5 app a T' lo (B + 1) s n := by
  obtain ⟨s', ev, hc, hpost⟩ := cycle5_live hsmall hR hlv hnf hok hgood hapc hnext
  have tp := cycle5_sim hR hnf hok hc
  cases ev with
  | running =>
    have hub' := ((cycle5_cnt hc).run rfl).2 hub
    rcases hpost with ⟨hR', hlv', hlt⟩ | ⟨a1, c, hst1, hR', hlv', hfr⟩
    · obtain ⟨c1, c2, c3⟩ := ih s' (n + 1) hlt hR' hlv' hub'
      obtain ⟨e1, e2⟩ := endsIn5_of_running hc c1
      refine ⟨e1.mono (by omega) (Nat.le_refl _), fun hm => (e2 hm).mono (by omega) (Nat.le_refl _), ?_⟩
      intro hm a' c hst
      have hm' : s'.base.mode ≠ .drainRet := by
        intro hx
        have := hR'.front; rw [hx] at this
        obtain ⟨c0, h0⟩ := this
        rw [hst] at h0; cases h0
      rcases c3 hm' a' c hst with h | h
      · exact Or.inl ((endsIn5_of_running hc h).1.mono (by omega) (Nat.le_refl _))
      · exact Or.inr h
    · obtain ⟨e1, e2⟩ := endsIn5_of_running hc (hcont a1 c s' (n + 1) hst1 hR' hlv' hub' hfr)
      exact ⟨e1.mono (by omega) (Nat.zero_le _), fun hm => (e2 hm).mono (by omega) (by omega),
        fun hm _ _ _ => Or.inl ((e2 hm).mono (by omega) (Nat.le_refl _))⟩
  | done hk' =>
    cases hk' with
    | panic w => exact hpost.elim
    | ret =>
      obtain ⟨d1, d2⟩ := endsIn5_of_done (n := n) hc (fun w h => by cases h) (Or.inl hpost.2)
      refine ⟨d1.mono (by omega) (Nat.le_refl _), fun hm => (d2 hm).mono (by omega) (Nat.le_refl _), ?_⟩
      intro _ a' c hst
      obtain ⟨c0, h0⟩ := hpost.1
      rw [hst] at h0; cases h0
    | err =>
      obtain ⟨d1, d2⟩ := endsIn5_of_done (n := n) hc (fun w h => by cases h) (Or.inr rfl)
      refine ⟨d1.mono (by omega) (Nat.le_refl _), fun hm => (d2 hm).mono (by omega) (Nat.le_refl _), ?_⟩
      intro _ a' c hst
      obtain ⟨c0, h0⟩ := tp
      rw [hst] at h0; cases h0
    | offEnd =>
      obtain ⟨d1, d2⟩ := endsIn5_of_done (n := n) hc (fun w h => by cases h) (Or.inl hpost)
      refine ⟨d1.mono (by omega) (Nat.le_refl _), fun hm => (d2 hm).mono (by omega) (Nat.le_refl _), ?_⟩
      intro _ a' c hst
      obtain ⟨a1, h01, ⟨c', hoff⟩, _⟩ := tp
      rcases h01 with rfl | ⟨c2, hst2⟩
      · rw [hst] at hoff; cases hoff
      · rw [hst] at hst2; injection hst2 with hst2 _; subst hst2
        exact Or.inr ⟨c', hoff⟩

/-- the inner induction, counting: from a state with measure at most `k` the run needs at most `k + 1` ticks to end
or to execute the next instruction -/
theorem endsIn5_at {app : App} (hsmall : app.instrs.length < 250) (hnf : NoFwd app) (a : Arch)
    (hok : Model.Mvp4.stepOk app a = true) (hgood : SeqGood app a) (hapc : a.pc.toNat ≤ 4 * app.instrs.length)
    (hnext : ∀ a' c, stepArch dc app a = .next a' c → a'.pc.toNat ≤ 4 * app.instrs.length) (T' lo : Nat)
    (hcont : ∀ a' c s' n, stepArch dc app a = .next a' c → Rel5 app s' a' → Live5 app s' → UB s'.base → Fresh s'.base →
      EndsIn5 app s' n T' lo) :
    ∀ (k : Nat) (s : State) (n : Nat), phi5 app s ≤ k → Rel5 app s a → Live5 app s → UB s.base →
      AtPost5 app a T' lo (k + 1) s n := by
  intro k
  induction k with
  | zero =>
    intro s n hk hR hlv hub
    exact endsIn5_tick hsmall hnf a hok hgood hapc hnext T' lo hcont 0 s n (fun s' n' hlt => by omega) hR hlv hub
  | succ k ih =>
    intro s n hk hR hlv hub
    exact endsIn5_tick hsmall hnf a hok hgood hapc hnext T' lo hcont (k + 1) s n
      (fun s' n' hlt hR' hlv' hub' => ih s' n' (by omega) hR' hlv' hub') hR hlv hub

/-- the outer induction over the steps of the specification run, counting: `phiBound + 1` ticks per instruction, and
at least one cycle per instruction -/
theorem endsIn5_of_spec (app : App) (hw : Proofs.Refine.WfApp app) :
    ∀ (fuel : Nat) (ctx : Model.Context) (m : Spec.Machine) (pc : Word) (k : Nat) (tr : Array Spec.Event),
      Proofs.Refine.Rel ctx m → m.mem.size + 64 ≤ 2 ^ 31 → pc.toNat ≤ 4 * app.instrs.length →
      (∀ why, (Spec.run.go (Proofs.Refine.specProg app) fuel pc m k tr).stop ≠ .notWf why) →
      ∀ (s : State) (n : Nat), Rel5 app s ⟨ctx, pc⟩ → Live5 app s → UB s.base → Fresh s.base →
        EndsIn5 app s n ((phiBound + 1) * ((Spec.run.go (Proofs.Refine.specProg app) fuel pc m k tr).steps + 1 - k))
          ((Spec.run.go (Proofs.Refine.specProg app) fuel pc m k tr).steps - k) := by
  intro fuel
  induction fuel with
  | zero =>
    intro ctx m pc k tr _ _ _ hwf
    exact absurd rfl (hwf "fuel exhausted")
  | succ fuel ih =>
    intro ctx m pc k tr hR hsz hpc hwf s n hRel hlv hub hfr
    have hok : Model.Mvp4.stepOk app ⟨ctx, pc⟩ = true :=
      stepOk_of_seqOk_one (seqOk_of_spec_go app hw (fuel + 1) ctx m pc k tr 1 hR hsz hpc hwf)
    obtain ⟨hnext, hoff, hret, herr⟩ := Proofs.Refine.step_sim dc app hw ctx m hR pc hpc
    have hphi := phi5_fresh_le app s hub hfr
    have hge := go_steps_ge (Proofs.Refine.specProg app) (fuel + 1) pc m k tr
    unfold Spec.run.go at hwf hge ⊢
    cases hs : Spec.step (Proofs.Refine.specProg app) pc m with
    | inl st =>
      rw [hs] at hwf
      simp only at hwf
      have hhalt : ∃ h c, stepArch dc app ⟨ctx, pc⟩ = .halt h c ∧ ∀ w, h ≠ .panic w := by
        cases st with
        | ret => obtain ⟨c, hc⟩ := hret hs; exact ⟨_, c, hc, fun w h => by cases h⟩
        | offEnd => obtain ⟨c, hc⟩ := hoff hs; exact ⟨_, c, hc, fun w h => by cases h⟩
        | error e => obtain ⟨c, hc⟩ := herr e hs; exact ⟨_, c, hc, fun w h => by cases h⟩
        | notWf w => exact absurd rfl (hwf w)
      obtain ⟨h, c, hc, hnp⟩ := hhalt
      have key := (endsIn5_at hw.small hw.nofwd ⟨ctx, pc⟩ hok
        (by intro w c' hx; rw [hc] at hx; injection hx with hx _; exact hnp w hx) hpc
        (by intro a' c' hx; rw [hc] at hx; cases hx) 0 0
        (by intro a' c' s' n' hx; rw [hc] at hx; cases hx) (phi5 app s) s n (Nat.le_refl _) hRel hlv hub).2.1 hfr.1
      refine key.mono ?_ ?_
      · rw [hs] at hge
        simp only at hge ⊢
        cases st <;> simp only <;>
          first
            | (rw [show k + 1 - k = 1 by omega]; omega)
            | (rw [show k + 1 + 1 - k = 2 by omega]; omega)
      · simp only
        cases st <;> simp only <;> omega
    | inr x =>
      obtain ⟨pc', m', ev⟩ := x
      rw [hs] at hwf hge
      simp only at hwf hge ⊢
      obtain ⟨ctx', c, hc, hR', hpc'⟩ := hnext pc' m' ev hs
      have hsz' : m'.mem.size + 64 ≤ 2 ^ 31 := by rw [Proofs.Mvp3Spec.step_size _ _ _ _ _ _ hs]; exact hsz
      have hge' := go_steps_ge (Proofs.Refine.specProg app) fuel pc' m' (k + 1) (tr.push ev)
      have key := endsIn5_at hw.small hw.nofwd ⟨ctx, pc⟩ hok
        (by intro w c' hx; rw [hc] at hx; cases hx) hpc
        (by intro a' c' hx; rw [hc] at hx; injection hx with hx _; subst hx; exact hpc')
        ((phiBound + 1) * ((Spec.run.go (Proofs.Refine.specProg app) fuel pc' m' (k + 1) (tr.push ev)).steps + 1 - (k + 1)))
        ((Spec.run.go (Proofs.Refine.specProg app) fuel pc' m' (k + 1) (tr.push ev)).steps - (k + 1))
        (by
          intro a' c' s' n' hx hRel' hlv' hub' hfr'
          rw [hc] at hx; injection hx with hx _; subst hx
          exact ih ctx' m' pc' _ _ hR' hsz' hpc' hwf s' n' hRel' hlv' hub' hfr')
        (phi5 app s) s n (Nat.le_refl _) hRel hlv hub
      have hoffsteps : ∀ c', stepArch dc app ⟨ctx', pc'⟩ = .halt .offEnd c' →
          (Spec.run.go (Proofs.Refine.specProg app) fuel pc' m' (k + 1) (tr.push ev)).steps = k + 1 :=
        fun c' h => go_steps_of_offEnd app hw fuel ctx' m' pc' (k + 1) (tr.push ev) hR' hpc' hwf c' h
      revert key hoffsteps
      generalize (Spec.run.go (Proofs.Refine.specProg app) fuel pc' m' (k + 1) (tr.push ev)).steps = X at hge' ⊢
      intro key hoffsteps
      obtain ⟨d, rfl⟩ : ∃ d, X = k + 1 + d := ⟨X - (k + 1), by omega⟩
      have e1 : k + 1 + d + 1 - (k + 1) = d + 1 := by omega
      have e2 : k + 1 + d + 1 - k = d + 2 := by omega
      have e3 : k + 1 + d - (k + 1) = d := by omega
      have e4 : k + 1 + d - k = d + 1 := by omega
      rw [e1, e3] at key
      rw [e2, e4]
      have hT : phi5 app s + 1 + (phiBound + 1) * (d + 1) ≤ (phiBound + 1) * (d + 2) := by
        rw [Nat.mul_succ (phiBound + 1) (d + 1)]; omega
      rcases key.2.2 hfr.1 ⟨ctx', pc'⟩ c hc with h | ⟨c', h⟩
      · exact h.mono hT (Nat.le_refl _)
      · have hd : d = 0 := by have := hoffsteps c' h; omega
        subst hd
        exact (key.2.1 hfr.1).mono hT (Nat.le_refl _)

/-- **MVP-5 terminates within a bounded number of ticks** (as `Proofs.Mvp4.mvp4_terminates_in`) -/
theorem mvp5_terminates_in (app : App) (hw : Proofs.Refine.WfApp app) (ctx : Model.Context) (m : Spec.Machine)
    (hR : Proofs.Refine.Rel ctx m) (hsz : m.mem.size + 64 ≤ 2 ^ 31)
    (hpw : ∀ r, GoMap.get1 ctx.PendingWriteRegisters r = 0) (fuel : Nat)
    (hwf : ∀ why, (Spec.run (Proofs.Refine.specProg app) m fuel).stop ≠ .notWf why) (ticks : Nat)
    (hT : (phiBound + 1) * ((Spec.run (Proofs.Refine.specProg app) m fuel).steps + 1) ≤ ticks) :
    ∃ hk, (Model.Mvp5.run app ctx ticks).halt = some hk ∧ (∀ w, hk ≠ .panic w) ∧
      (Model.Mvp5.run app ctx ticks).ticks ≤ (phiBound + 1) * ((Spec.run (Proofs.Refine.specProg app) m fuel).steps + 1) ∧
      (Model.Mvp5.run app ctx ticks).final.base.cycles ≤
        ((phiBound + 1) * ((Spec.run (Proofs.Refine.specProg app) m fuel).steps + 1) : Nat) + 16 * Gen.Latency.MemoryAccess ∧
      ((Spec.run (Proofs.Refine.specProg app) m fuel).steps : Int) ≤ (Model.Mvp5.run app ctx ticks).final.base.cycles := by
  obtain ⟨s0, hinit, hRel, _, _⟩ := init5_rel app ctx ⟨hR.rat, hR.tx, hpw⟩
  obtain ⟨s0', hinit', hlv⟩ := init5_live app ctx
  have : s0' = s0 := by rw [hinit] at hinit'; injection hinit' with h; exact h.symm
  subst this
  obtain ⟨b0, hb0, rfl⟩ := init5_inv hinit
  obtain ⟨hub, hfr⟩ := init_fresh hb0
  obtain ⟨c0, _⟩ := init_counters hb0
  unfold Spec.run at hwf hT ⊢
  have hsz' : ¬ (Proofs.Refine.specProg app).instrs.size ≥ 250 := by
    have := hw.small
    simp [Proofs.Refine.specProg]; omega
  simp only [hsz', if_false] at hwf hT ⊢
  obtain ⟨t, hk, h1, h2, h3, h4, h5⟩ :=
    endsIn5_of_spec app hw fuel ctx m 0 0 #[] hR hsz (by simp) hwf { base := b0 } 0 hRel hlv hub hfr
  simp only [Nat.sub_zero] at h1 h5
  have hrun : Model.Mvp5.run app ctx ticks = Model.Mvp5.runFrom app t { base := b0 } 0 := by
    unfold Model.Mvp5.run; rw [hinit]; exact runFrom5_mono app t _ 0 hk ticks h2 (Nat.le_trans h1 hT)
  rw [hrun]
  have c0' : ({ base := b0 } : State).base.cycles = 0 := c0
  refine ⟨hk, h2, h3, ?_, ?_, ?_⟩
  · exact Nat.le_trans (runFrom5_ticks_le app t _ 0) (by omega)
  · rw [c0'] at h4
    omega
  · rw [c0'] at h5
    omega


/-- a larger tick budget does not change a run that has ended -/
theorem run5_mono (app : App) (ctx : Model.Context) (t t' : Nat) (hk : Halt)
    (hh : (Model.Mvp5.run app ctx t).halt = some hk) (hle : t ≤ t') : Model.Mvp5.run app ctx t' = Model.Mvp5.run app ctx t := by
  unfold Model.Mvp5.run at hh ⊢
  cases hi : Model.Mvp5.init ctx with
  | error e => rfl
  | ok s0 =>
    simp only [hi] at hh ⊢
    exact runFrom5_mono app t s0 0 hk t' hh hle

/-- **the cycle count of every run that ends** (not with a panic), along a well-formed specification run of `n`
executed instructions: at least `n`, at most `(phiBound + 1) · (n + 1) + 16 · MemoryAccess` -/
theorem mvp5_cycles_of_halt (app : App) (hw : Proofs.Refine.WfApp app) (ctx : Model.Context) (m : Spec.Machine)
    (hR : Proofs.Refine.Rel ctx m) (hsz : m.mem.size + 64 ≤ 2 ^ 31)
    (hpw : ∀ r, GoMap.get1 ctx.PendingWriteRegisters r = 0) (fuel : Nat)
    (hwf : ∀ why, (Spec.run (Proofs.Refine.specProg app) m fuel).stop ≠ .notWf why) (ticks : Nat) (hk : Halt)
    (hh : (Model.Mvp5.run app ctx ticks).halt = some hk) :
    ((Spec.run (Proofs.Refine.specProg app) m fuel).steps : Int) ≤ (Model.Mvp5.run app ctx ticks).final.base.cycles ∧
    (Model.Mvp5.run app ctx ticks).final.base.cycles ≤
      ((phiBound + 1) * ((Spec.run (Proofs.Refine.specProg app) m fuel).steps + 1) : Nat) + 16 * Gen.Latency.MemoryAccess ∧
    (Model.Mvp5.run app ctx ticks).ticks ≤ (phiBound + 1) * ((Spec.run (Proofs.Refine.specProg app) m fuel).steps + 1) := by
  have hm := run5_mono app ctx ticks
    (ticks + (phiBound + 1) * ((Spec.run (Proofs.Refine.specProg app) m fuel).steps + 1)) hk hh (by omega)
  obtain ⟨hk', _, _, h3, h4, h5⟩ := mvp5_terminates_in app hw ctx m hR hsz hpw fuel hwf
    (ticks + (phiBound + 1) * ((Spec.run (Proofs.Refine.specProg app) m fuel).steps + 1)) (by omega)
  rw [hm] at h3 h4 h5
  exact ⟨h5, h4, h3⟩

end Proofs.Mvp5

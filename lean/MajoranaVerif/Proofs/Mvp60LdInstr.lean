/-
  Proofs/Mvp60LdInstr.lean — package R60d: the instructions of straight-line programs with loads (`Model.Mvp60.ldInstr`):
  what their `Run` returns, and the step of the unpipelined machine on them; `ret` as the last instruction, and the run
  `seqL` in which that `ret` counts as a step that changes nothing (the machine drains what is in flight after it).
-/
import MajoranaVerif.Proofs.Mvp60SlBack
import MajoranaVerif.Proofs.Mmu
import MajoranaVerif.Proofs.Bytes
open GoInt

set_option linter.unusedSimpArgs false
set_option linter.unusedVariables false

namespace Proofs.Mvp60Ld
open Model Model.Mvp60 Proofs.Mvp60Sl
open Model.Seq (App Halt Arch stepArch)

theorem ld_cases (i : Gen.Instr) (h : ldInstr i = true) : slInstr i = true ∨ isMemType i.instructionType = true := by
  simp only [ldInstr, Bool.and_eq_true, Bool.not_eq_true'] at h
  cases hm : isMemType i.instructionType with
  | true => exact Or.inr rfl
  | false => left; simp only [slInstr, hm, h.1.1.2, h.1.2, Bool.not_false, Bool.and_self]

set_option maxHeartbeats 4000000 in
/-- a load changes a register -/
theorem load_regchange (i : Gen.Instr) (h : ldInstr i = true) (hm : isMemType i.instructionType = true)
    (c : Model.Context) (labels : GoMap String Word) (pc : Word) (mem : List Byte) (seq : Word) (e : Gen.Execution)
    (hr : i.run c labels pc mem seq = .ok e) : e.RegisterChange = true := by
  unfold ldInstr at h
  cases i <;> unfold_instr at h hm hr <;>
    first
      | (simp [isMemType] at hm; done)
      | (simp [isStoreType] at h; done)
      | (simp only [Proofs.Mvp4.isRegisterChange_eq, pure, Except.pure, bind, Except.bind] at hr
         (repeat' split at hr) <;> first | (injection hr with hr; subst hr; rfl) | (exact absurd hr (by simp)))

theorem ld_run (i : Gen.Instr) (h : ldInstr i = true) (c : Model.Context) (labels : GoMap String Word) (pc : Word)
    (mem : List Byte) (seq : Word) (e : Gen.Execution) (hr : i.run c labels pc mem seq = .ok e) :
    e.MemoryChange = false ∧ e.Return = false ∧ e.PcChange = false := by
  rcases ld_cases i h with h1 | h1
  · exact sl_run i h1 c labels pc mem seq e hr
  · have hs := Proofs.Mvp4.run_shape i c labels pc mem seq e hr
    have hrc := load_regchange i h h1 c labels pc mem seq e hr
    refine ⟨hs.regNoMem hrc, ?_, ?_⟩
    · cases hret : e.Return with
      | false => rfl
      | true => have := (hs.retPlain hret).1; rw [hrc] at this; cases this
    · cases hp : e.PcChange with
      | false => rfl
      | true =>
        have := hs.pcBranch hp
        simp only [ldInstr, Bool.and_eq_true, Bool.not_eq_true', Gen.InstructionType.IsBranch, Bool.or_eq_false_iff] at h
        simp only [Proofs.Mvp4.isBranchType, h.1.1.2.1, h.1.1.2.2, Bool.or_self] at this
        cases this

set_option maxHeartbeats 4000000 in
/-- what an instruction writes to `x0` is 0 -/
theorem run_zero (i : Gen.Instr) (c : Model.Context) (labels : GoMap String Word) (pc : Word) (mem : List Byte) (seq : Word)
    (e : Gen.Execution) (hr : i.run c labels pc mem seq = .ok e) (h0 : e.Register = Gen.Reg.Zero) (hrc : e.RegisterChange = true) :
    e.RegisterValue = 0#32 := by
  cases i <;> unfold_instr at hr <;>
    (simp only [Proofs.Mvp4.isRegisterChange_eq, pure, Except.pure, Proofs.Mvp4.ite_ok, Proofs.Mvp4.ite_pair, ite_self, bind, Except.bind, throw, throwThe, MonadExceptOf.throw] at hr
     (repeat' split at hr) <;>
       first
         | (injection hr with hr; subst hr; simp only [Gen.Reg.Zero] at h0; first | (cases hrc; done) | rfl | contradiction)
         | (exact absurd hr (by simp)))

/-- an instruction that is not a load does not look at the bytes it is handed -/
theorem run_nomem (i : Gen.Instr) (h : isMemType i.instructionType = false) (c : Model.Context) (labels : GoMap String Word)
    (pc : Word) (mem : List Byte) (seq : Word) : i.run c labels pc mem seq = i.run c labels pc [] seq := by
  cases i <;> unfold_instr at h ⊢ <;> first | rfl | (simp [isMemType] at h)

theorem memoryRead_nomem (i : Gen.Instr) (h : isMemType i.instructionType = false) (c : Model.Context) (seq : Word) :
    i.memoryRead c seq = [] := by
  cases i <;> unfold_instr at h ⊢ <;> first | rfl | (simp [isMemType] at h)

theorem mapM_some_length {α β : Type} (f : α → Option β) : ∀ (l : List α) (bs : List β), l.mapM f = some bs → bs.length = l.length := by
  intro l
  induction l with
  | nil => intro bs h; simp only [List.mapM_nil, Option.pure_def, Option.some.injEq] at h; subst h; rfl
  | cons a as ih =>
    intro bs h
    simp only [List.mapM_cons, Option.pure_def, Option.bind_eq_bind] at h
    cases hf : f a with
    | none => rw [hf] at h; cases h
    | some b =>
      rw [hf] at h
      simp only [Option.bind_some] at h
      cases hr : as.mapM f with
      | none => rw [hr] at h; cases h
      | some r =>
        rw [hr] at h
        simp only [Option.bind_some, Option.some.injEq] at h
        subst h
        simp only [List.length_cons, ih r hr]

/-- a load handed the bytes of its addresses returns -/
theorem load_run_total (i : Gen.Instr) (h : ldInstr i = true) (hm : isMemType i.instructionType = true)
    (c : Model.Context) (labels : GoMap String Word) (pc : Word) (seq : Word) (flat bytes : List Byte)
    (hb : (i.memoryRead c 0#32).mapM (Model.Seq.readMem flat) = some bytes) :
    ∃ e, i.run c labels pc bytes seq = .ok e := by
  have hlen := mapM_some_length _ _ _ hb
  cases i with
  | lb_ op =>
    simp only [Gen.Instr.memoryRead, Gen.op_lb.MemoryRead, List.length_cons, List.length_nil] at hlen
    match bytes, hlen with
    | [b0], _ =>
      simp only [Gen.Instr.run, Gen.op_lb.Run, GoInt.index, List.getElem?_cons_zero, pure, Except.pure, bind, Except.bind,
        Proofs.Mvp4.isRegisterChange_eq]
      exact ⟨_, rfl⟩
  | lh_ op =>
    simp only [Gen.Instr.memoryRead, Gen.op_lh.MemoryRead, List.length_cons, List.length_nil] at hlen
    match bytes, hlen with
    | [b0, b1], _ =>
      simp only [Gen.Instr.run, Gen.op_lh.Run, GoInt.index, List.getElem?_cons_zero, List.getElem?_cons_succ, pure, Except.pure, bind,
        Except.bind, Proofs.Bytes.i32_char, Proofs.Mvp4.isRegisterChange_eq]
      exact ⟨_, rfl⟩
  | lw_ op =>
    simp only [Gen.Instr.memoryRead, Gen.op_lw.MemoryRead, List.length_cons, List.length_nil] at hlen
    match bytes, hlen with
    | [b0, b1, b2, b3], _ =>
      simp only [Gen.Instr.run, Gen.op_lw.Run, GoInt.index, List.getElem?_cons_zero, List.getElem?_cons_succ, pure, Except.pure, bind,
        Except.bind, Proofs.Bytes.i32_char, Proofs.Mvp4.isRegisterChange_eq]
      exact ⟨_, rfl⟩
  | sb_ op => simp [ldInstr, Gen.Instr.instructionType, Gen.op_sb.InstructionType, isStoreType] at h
  | sh_ op => simp [ldInstr, Gen.Instr.instructionType, Gen.op_sh.InstructionType, isStoreType] at h
  | sw_ op => simp [ldInstr, Gen.Instr.instructionType, Gen.op_sw.InstructionType, isStoreType] at h
  | _ => unfold_instr at hm; simp [isMemType] at hm

theorem load_addrs_ne (i : Gen.Instr) (h : ldInstr i = true) (hm : isMemType i.instructionType = true) (c : Model.Context) (seq : Word) :
    (i.memoryRead c seq).isEmpty = false := by
  cases i with
  | lb_ op => rfl
  | lh_ op => rfl
  | lw_ op => rfl
  | sb_ op => simp [ldInstr, Gen.Instr.instructionType, Gen.op_sb.InstructionType, isStoreType] at h
  | sh_ op => simp [ldInstr, Gen.Instr.instructionType, Gen.op_sh.InstructionType, isStoreType] at h
  | sw_ op => simp [ldInstr, Gen.Instr.instructionType, Gen.op_sw.InstructionType, isStoreType] at h
  | _ => unfold_instr at hm; simp [isMemType] at hm

set_option maxHeartbeats 4000000 in
/-- an instruction of the class that is not a load always returns -/
theorem ld_run_ok_nomem (i : Gen.Instr) (h : ldInstr i = true) (hm : isMemType i.instructionType = false)
    (c : Model.Context) (labels : GoMap String Word) (pc : Word) (mem : List Byte) (seq : Word) :
    ∃ e, i.run c labels pc mem seq = .ok e := by
  unfold ldInstr at h
  cases i <;> unfold_instr at h hm ⊢ <;>
    first
      | (simp [isMemType] at hm; done)
      | (simp [isDivRem] at h; done)
      | (simp [Gen.InstructionType.IsBranch, Gen.InstructionType.IsUnconditionalBranch, Gen.InstructionType.IsConditionalBranch] at h; done)
      | (simp only [Proofs.Mvp4.isRegisterChange_eq, pure, Except.pure, Proofs.Mvp4.ite_ok, Proofs.Mvp4.ite_pair, ite_self, bind, Except.bind]
         first | exact ⟨_, rfl⟩ | (split <;> exact ⟨_, rfl⟩))

theorem mapM_readMem_some (flat : List Byte) : ∀ (addrs : List Word), (∀ a ∈ addrs, 0 ≤ a.toInt ∧ a.toInt.toNat < flat.length) →
    ∃ bytes, addrs.mapM (Model.Seq.readMem flat) = some bytes := by
  intro addrs
  induction addrs with
  | nil => intro _; exact ⟨[], rfl⟩
  | cons a as ih =>
    intro h
    obtain ⟨h0, h1⟩ := h a List.mem_cons_self
    obtain ⟨bs, hbs⟩ := ih (fun x hx => h x (List.mem_cons_of_mem _ hx))
    refine ⟨flat[a.toInt.toNat] :: bs, ?_⟩
    simp only [List.mapM_cons, Proofs.Mmu.readMem_ok flat a h0, List.getElem?_eq_getElem h1, hbs, Option.pure_def, Option.bind_eq_bind,
      Option.bind_some]

theorem loadOk_mapM (flat : List Byte) (addrs : List Word) (h : Model.Mmu.loadOk 64 flat.length addrs = true) :
    ∃ bytes, addrs.mapM (Model.Seq.readMem flat) = some bytes := by
  cases addrs with
  | nil => exact ⟨[], rfl⟩
  | cons a0 as =>
    apply mapM_readMem_some
    intro a ha
    have := Proofs.Mmu.loadOk_spec h a ha
    exact ⟨this.1, this.2.1⟩

/-- the loads of the instruction the unpipelined machine executes next are inside memory and inside one cache line -/
def LoadsOk (app : App) (a : Arch) : Prop :=
  ∀ j i, a.pc = pcOf j → app.instrs[j]? = some i → Model.Mmu.loadOk 64 a.ctx.Memory.length (i.memoryRead a.ctx 0#32) = true

/-- **the step of the unpipelined machine on an instruction of the class** -/
theorem ld_step (app : App) (hsm : app.instrs.length < 250) (a : Arch) (j : Nat) (i : Gen.Instr) (hpc : a.pc = pcOf j)
    (hi : app.instrs[j]? = some i) (hld : ldInstr i = true) (hlo : LoadsOk app a) :
    ∃ bytes, (i.memoryRead a.ctx 0#32).mapM (Model.Seq.readMem a.ctx.Memory) = some bytes ∧
      (∀ e, i.run a.ctx app.labels a.pc bytes 0#32 = .ok e →
        ∃ c, stepArch Proofs.Mvp4.dc app a = .next ⟨if e.RegisterChange then Model.Seq.writeRegister a.ctx e else a.ctx, pcOf (j + 1)⟩ c) ∧
      (∀ msg, i.run a.ctx app.labels a.pc bytes 0#32 = .error (.err msg) → ∃ c, stepArch Proofs.Mvp4.dc app a = .halt .err c) ∧
      (∀ w, i.run a.ctx app.labels a.pc bytes 0#32 = .error (.panic w) → ∃ c, stepArch Proofs.Mvp4.dc app a = .halt (.panic w) c) := by
  have hj : j < app.instrs.length := by
    rcases Nat.lt_or_ge j app.instrs.length with h | h
    · exact h
    · rw [List.getElem?_eq_none h] at hi; cases hi
  obtain ⟨bytes, hb⟩ := loadOk_mapM a.ctx.Memory _ (hlo j i hpc hi)
  have hstep : stepArch Proofs.Mvp4.dc app a = Proofs.Mvp4.stepTail app a i bytes := by
    apply Proofs.Mvp4.stepArch_run
    · rw [hpc]; exact instrAt4_pcOf app j (by omega) i hi
    · exact hb
  obtain ⟨ex, hex⟩ := Proofs.Refine.cycles_ok i.instructionType
  refine ⟨bytes, hb, ?_, ?_, ?_⟩
  rotate_right
  · intro w he
    rw [hstep]; unfold Proofs.Mvp4.stepTail; simp only [he]; exact ⟨_, rfl⟩
  · intro e he
    obtain ⟨hmc, hret, hpcc⟩ := ld_run i hld a.ctx app.labels a.pc bytes 0#32 e he
    have hnp : Proofs.Mvp4.nextPc a e = pcOf (j + 1) := by
      simp only [Proofs.Mvp4.nextPc, hpcc, Bool.false_eq_true, if_false, hpc, pcOf_succ]
    cases hrc : e.RegisterChange with
    | true =>
      obtain ⟨c, hc⟩ := Proofs.Mvp4.stepTail_reg (app := app) (a := a) he hex hret hrc
      exact ⟨c, by rw [hstep, hc, hnp]; rfl⟩
    | false =>
      obtain ⟨c, hc⟩ := Proofs.Mvp4.stepTail_plain (app := app) (a := a) he hex hret hrc hmc
      exact ⟨c, by rw [hstep, hc, hnp]; rfl⟩
  · intro msg he
    obtain ⟨c, hc⟩ := Proofs.Mvp4.stepTail_err (app := app) (a := a) he
    exact ⟨c, by rw [hstep, hc]⟩

/-! ### `ret` as the last instruction -/

/-- the instruction is a `ret` -/
def isRet (i : Gen.Instr) : Bool := i.instructionType == Gen.InstructionType.Ret

/-- a `ret` reads and writes nothing, and returns -/
theorem ret_facts (i : Gen.Instr) (h : isRet i = true) :
    i.readRegisters = [] ∧ i.writeRegisters = [] ∧ isMemType i.instructionType = false ∧
    i.instructionType.IsBranch = false ∧ (∀ c seq, i.memoryRead c seq = []) ∧
    ∀ c labels pc mem seq, ∃ e, i.run c labels pc mem seq = .ok e ∧ e.Return = true ∧ e.RegisterChange = false ∧
      e.MemoryChange = false := by
  unfold isRet at h
  cases i <;> unfold_instr at h ⊢ <;>
    first
      | (simp at h; done)
      | (refine ⟨?_, ?_, ?_, ?_, ?_, ?_⟩ <;> first | trivial | rfl | decide | (intros; trivial) | (intros; rfl) | (intros; exact ⟨_, rfl, rfl, rfl, rfl⟩))

theorem ld_not_ret (i : Gen.Instr) (h : ldInstr i = true) : isRet i = false := by
  simp only [ldInstr, Bool.and_eq_true, Bool.not_eq_true'] at h
  exact h.1.2

/-- an instruction of a program of the class is an instruction of `ldInstr`, or a `ret` -/
theorem ldr_cases (app : App) (h : StraightLineLdR app = true) (k : Nat) (i : Gen.Instr) (hi : app.instrs[k]? = some i) :
    ldInstr i = true ∨ isRet i = true := by
  simp only [StraightLineLdR, List.all_eq_true] at h
  have h2 := h i (List.mem_of_getElem? hi)
  cases hr : isRet i with
  | false =>
    left
    simp only [ldrInstr, Bool.and_eq_true, Bool.not_eq_true'] at h2
    simp only [isRet] at hr
    simp only [ldInstr, h2.1.1, h2.1.2, h2.2, hr, Bool.not_false, Bool.and_self]
  | true => exact Or.inr rfl

/-- no `ret` among the instructions `0 … m-1` -/
def NoRetBefore (app : App) (m : Nat) : Prop := ∀ (k : Nat) (i : Gen.Instr), k < m → app.instrs[k]? = some i → isRet i = false

theorem NoRetBefore.mono {app : App} {m m' : Nat} (h : NoRetBefore app m) (hm : m' ≤ m) : NoRetBefore app m' :=
  fun k i hk hi => h k i (by omega) hi

theorem ldr_of_mem (app : App) (h : StraightLineLdR app = true) (i : Gen.Instr) (hi : i ∈ app.instrs) : ldrInstr i = true := by
  simp only [StraightLineLdR, List.all_eq_true] at h
  exact h i hi

/-- the unpipelined machine stops at a `ret` -/
theorem ret_step (app : App) (hsm : app.instrs.length < 250) (a : Arch) (j : Nat) (i : Gen.Instr) (hpc : a.pc = pcOf j)
    (hi : app.instrs[j]? = some i) (hr : isRet i = true) : ∃ c, stepArch Proofs.Mvp4.dc app a = .halt .ret c := by
  have hj : j < app.instrs.length := by
    rcases Nat.lt_or_ge j app.instrs.length with h | h
    · exact h
    · rw [List.getElem?_eq_none h] at hi; cases hi
  obtain ⟨_, _, _, _, hmr, hrun⟩ := ret_facts i hr
  have hstep : stepArch Proofs.Mvp4.dc app a = Proofs.Mvp4.stepTail app a i [] := by
    apply Proofs.Mvp4.stepArch_run
    · rw [hpc]; exact instrAt4_pcOf app j (by omega) i hi
    · rw [hmr]; rfl
  obtain ⟨ex, hex⟩ := Proofs.Refine.cycles_ok i.instructionType
  obtain ⟨e, he, hret, _, _⟩ := hrun a.ctx app.labels a.pc [] 0#32
  obtain ⟨c, hc⟩ := Proofs.Mvp4.stepTail_ret (app := app) (a := a) he hex hret
  exact ⟨c, by rw [hstep, hc]⟩

/-! ### the unpipelined run, with a final `ret` counted as a step that changes nothing -/

/-- the next state of the unpipelined machine; a `ret` goes on to the next pc with the context unchanged (the machines drain
after a `ret`: what is in flight before it completes) -/
def seqNextL (app : App) (a : Arch) : Option Arch :=
  match stepArch Proofs.Mvp4.dc app a with
  | .next a' _ => some a'
  | .halt .ret _ => some ⟨a.ctx, a.pc + 4#32⟩
  | .halt _ _ => none

/-- the state after `k` such steps -/
def seqL (app : App) : Nat → Arch → Option Arch
  | 0, a => some a
  | k + 1, a => (seqL app k a).bind (seqNextL app)

theorem seqL_next {app : App} {k : Nat} {a0 a a' : Arch} {c : Model.Seq.StepCost} (h : seqL app k a0 = some a)
    (hs : stepArch Proofs.Mvp4.dc app a = .next a' c) : seqL app (k + 1) a0 = some a' := by
  simp only [seqL, h, Option.bind_some, seqNextL, hs]

theorem seqL_ret {app : App} {k : Nat} {a0 a : Arch} {c : Model.Seq.StepCost} (h : seqL app k a0 = some a)
    (hs : stepArch Proofs.Mvp4.dc app a = .halt .ret c) : seqL app (k + 1) a0 = some ⟨a.ctx, a.pc + 4#32⟩ := by
  simp only [seqL, h, Option.bind_some, seqNextL, hs]

/-- what is assumed of the program and of the unpipelined run from `a0` -/
structure ProgLd (app : App) (a0 : Arch) : Prop where
  small : app.instrs.length < 250
  nofwd : ∀ g ∈ app.instrs, fwdOf g = {}
  cls : StraightLineLdR app = true
  pc0 : a0.pc = 0#32
  rat0 : a0.ctx.rat = false
  tx0 : a0.ctx.Transaction.entries = []
  loads : ∀ j a, seqL app j a0 = some a → NoRetBefore app j → LoadsOk app a
  z0 : GoMap.get1 a0.ctx.Registers Gen.Reg.Zero = 0#32

/-- one more step of the unpipelined run: the state before, the instruction, the bytes it reads, its result -/
theorem seq_succ (app : App) (a0 : Arch) (hp : ProgLd app a0) (j : Nat) (a a' : Arch)
    (hj : seqL app j a0 = some a) (hpc : a.pc = pcOf j) (hjl : j ≤ app.instrs.length) (hnr : NoRetBefore app j)
    (hj' : seqL app (j + 1) a0 = some a') :
    ∃ i bytes e, app.instrs[j]? = some i ∧ (i.memoryRead a.ctx 0#32).mapM (Model.Seq.readMem a.ctx.Memory) = some bytes ∧
      i.run a.ctx app.labels a.pc bytes 0#32 = .ok e ∧
      a' = ⟨if e.RegisterChange then Model.Seq.writeRegister a.ctx e else a.ctx, pcOf (j + 1)⟩ := by
  have hsm := hp.small
  simp only [seqL, hj, Option.bind_some, seqNextL] at hj'
  rcases Nat.lt_or_ge j app.instrs.length with hlt | hge
  · obtain ⟨i, hi⟩ := get_lt app.instrs j hlt
    rcases ldr_cases app hp.cls j i hi with hld | hret
    · obtain ⟨bytes, hb, h1, h2, h3⟩ := ld_step app hsm a j i hpc hi hld (hp.loads j a hj hnr)
      cases hr : i.run a.ctx app.labels a.pc bytes 0#32 with
      | ok e =>
        obtain ⟨c, hc⟩ := h1 e hr
        rw [hc] at hj'
        simp only [Option.some.injEq] at hj'
        exact ⟨i, bytes, e, hi, hb, hr, hj'.symm⟩
      | error f =>
        cases f with
        | err msg => obtain ⟨c, hc⟩ := h2 msg hr; rw [hc] at hj'; cases hj'
        | panic w => obtain ⟨c, hc⟩ := h3 w hr; rw [hc] at hj'; cases hj'
    · obtain ⟨c, hc⟩ := ret_step app hsm a j i hpc hi hret
      rw [hc] at hj'
      simp only [Option.some.injEq] at hj'
      obtain ⟨_, _, _, _, hmr, hrun⟩ := ret_facts i hret
      obtain ⟨e, he, _, hrc, _⟩ := hrun a.ctx app.labels a.pc [] 0#32
      refine ⟨i, [], e, hi, by rw [hmr]; rfl, he, ?_⟩
      rw [← hj', hrc, hpc, pcOf_succ]
      simp only [Bool.false_eq_true, if_false]
  · exfalso
    have : stepArch Proofs.Mvp4.dc app a = .halt .offEnd ⟨0, 0, 0, 0⟩ := by
      unfold stepArch
      simp only [hpc, pcOf_idx j (by omega)]
      have : ¬ ((j : Int) < (app.instrs.length : Int)) := by omega
      simp only [this, not_false_eq_true, if_true]
    rw [this] at hj'; cases hj'

/-- the states of the unpipelined run of a straight-line program: pc, memory, flags -/
theorem seq_facts (app : App) (a0 : Arch) (hp : ProgLd app a0) : ∀ (j : Nat) (a : Arch), seqL app j a0 = some a →
    NoRetBefore app (j - 1) →
    a.pc = pcOf j ∧ j ≤ app.instrs.length ∧ a.ctx.Memory = a0.ctx.Memory ∧ a.ctx.rat = false ∧ a.ctx.Transaction.entries = [] := by
  intro j
  induction j with
  | zero =>
    intro a h _
    simp only [seqL, Option.some.injEq] at h
    subst h
    exact ⟨by rw [hp.pc0]; rfl, Nat.zero_le _, rfl, hp.rat0, hp.tx0⟩
  | succ j ih =>
    intro a' h hnr
    have hnr' : NoRetBefore app j := hnr
    cases hj : seqL app j a0 with
    | none => simp only [seqL, hj, Option.bind_none] at h; cases h
    | some a =>
      obtain ⟨f1, f2, f3, f4, f5⟩ := ih a hj (hnr'.mono (by omega))
      obtain ⟨i, bytes, e, hi, _, _, rfl⟩ := seq_succ app a0 hp j a a' hj f1 f2 hnr' h
      have hlt : j < app.instrs.length := by
        rcases Nat.lt_or_ge j app.instrs.length with h' | h'
        · exact h'
        · rw [List.getElem?_eq_none h'] at hi; cases hi
      refine ⟨rfl, hlt, ?_, ?_, ?_⟩ <;> (simp only; split <;> assumption)

/-- `x0` is 0 along the unpipelined run -/
theorem seq_zero (app : App) (a0 : Arch) (hp : ProgLd app a0) : ∀ (j : Nat) (a : Arch), seqL app j a0 = some a →
    NoRetBefore app (j - 1) → GoMap.get1 a.ctx.Registers Gen.Reg.Zero = 0#32 := by
  intro j
  induction j with
  | zero =>
    intro a h _
    simp only [seqL, Option.some.injEq] at h
    subst h; exact hp.z0
  | succ j ih =>
    intro a' h hnr
    have hnr' : NoRetBefore app j := hnr
    cases hj : seqL app j a0 with
    | none => simp only [seqL, hj, Option.bind_none] at h; cases h
    | some a =>
      obtain ⟨f1, f2, _⟩ := seq_facts app a0 hp j a hj (hnr'.mono (by omega))
      obtain ⟨i, bytes, e, hi, _, he, rfl⟩ := seq_succ app a0 hp j a a' hj f1 f2 hnr' h
      simp only
      split
      · rename_i hrc
        simp only [Model.Seq.writeRegister, Proofs.Mvp4.get1_set]
        split
        · rename_i heq
          exact run_zero i a.ctx app.labels a.pc bytes 0#32 e he (eq_of_beq heq).symm hrc
        · exact ih a hj (hnr'.mono (by omega))
      · exact ih a hj (hnr'.mono (by omega))

/-- an instruction of the class, handed the bytes of its addresses, returns -/
theorem ld_run_total (i : Gen.Instr) (h : ldInstr i = true) (c : Model.Context) (labels : GoMap String Word) (pc : Word) (seq : Word)
    (flat bytes : List Byte) (hb : (i.memoryRead c 0#32).mapM (Model.Seq.readMem flat) = some bytes) :
    ∃ e, i.run c labels pc bytes seq = .ok e := by
  cases hm : isMemType i.instructionType with
  | true => exact load_run_total i h hm c labels pc seq flat bytes hb
  | false => exact ld_run_ok_nomem i h hm c labels pc bytes seq

/-- **the unpipelined run of a program of the class never stops before the end** -/
theorem seq_total (app : App) (a0 : Arch) (hp : ProgLd app a0) : ∀ j, j ≤ app.instrs.length → NoRetBefore app (j - 1) →
    ∃ a, seqL app j a0 = some a := by
  intro j
  induction j with
  | zero => intro _ _; exact ⟨a0, rfl⟩
  | succ j ih =>
    intro hj hnr
    have hnr' : NoRetBefore app j := hnr
    obtain ⟨a, ha⟩ := ih (by omega) (hnr'.mono (by omega))
    obtain ⟨f1, _⟩ := seq_facts app a0 hp j a ha (hnr'.mono (by omega))
    obtain ⟨i, hi⟩ := get_lt app.instrs j (by omega)
    rcases ldr_cases app hp.cls j i hi with hld | hret
    · obtain ⟨bytes, hb, h1, _⟩ := ld_step app hp.small a j i f1 hi hld (hp.loads j a ha hnr')
      obtain ⟨e, he⟩ := ld_run_total i hld a.ctx app.labels a.pc 0#32 a.ctx.Memory bytes hb
      obtain ⟨cst, hc⟩ := h1 e he
      exact ⟨_, seqL_next ha hc⟩
    · obtain ⟨c, hc⟩ := ret_step app hp.small a j i f1 hi hret
      exact ⟨_, seqL_ret ha hc⟩

/-- a step of the unpipelined run changes only the register its instruction writes -/
theorem seq_frame (app : App) (a0 : Arch) (hp : ProgLd app a0) (j : Nat) (a a' : Arch) (i : Gen.Instr)
    (hj : seqL app j a0 = some a) (hj' : seqL app (j + 1) a0 = some a') (hnr : NoRetBefore app j)
    (hi : app.instrs[j]? = some i) (r : Reg) (hr : r ∉ i.writeRegisters) :
    GoMap.get1 a'.ctx.Registers r = GoMap.get1 a.ctx.Registers r := by
  obtain ⟨f1, f2, _⟩ := seq_facts app a0 hp j a hj (hnr.mono (by omega))
  obtain ⟨i', bytes, e, hi', _, he, rfl⟩ := seq_succ app a0 hp j a a' hj f1 f2 hnr hj'
  rw [hi] at hi'
  simp only [Option.some.injEq] at hi'
  subst hi'
  have hs := Proofs.Mvp4.run_shape i a.ctx app.labels a.pc bytes 0#32 e he
  simp only
  split
  · rename_i hrc
    rw [hs.wregs, hrc] at hr
    simp only [if_true, List.mem_singleton] at hr
    simp only [Model.Seq.writeRegister, Proofs.Mvp4.get1_set]
    have : (r == e.Register) = false := by simpa using hr
    simp only [this, Bool.false_eq_true, if_false]
  · rfl

end Proofs.Mvp60Ld
